(* C15 - typed NOTIFIED values: the answer of the notification function selects the ownership of the created object and nothing else.
   Part 1: the assignment logic (errors, recorded names, value states, accepted parser results) does not look at the variables at all, so
           two assignments that differ only in [store] / [fail_write] (e.g. in the notification function's answer) agree on all of it.
   Part 2: a generic invariant principle - a relation on the cell of an option that is reflexive, transitive, and holds across one
           Value::parse and across a state change holds across assign / assignDefaults / a history of sources.
   Part 3: the notified instance: one notification per accepted parser result, in order, with the object it was parsed into; object
           accounting; the declining notifier; the contrast with the untyped custom value. *)
Require Import V.Lib.Base V.Gen.Consts_C15 V.C15.Model V.C15.Spec V.C15.Proofs V.C15.Proofs2.
Local Open Scope Z_scope.

(* ------------------------------------------------ Part 1 ------------------------------------------------ *)
Section Indep.
Variables val var1 var2 : Type.
Variable odesc : nat -> opt.
Variable parser : nat -> str -> option val.
Variable store1 : nat -> val -> var1 -> var1.
Variable fail1 : nat -> str -> var1 -> var1.
Variable store2 : nat -> val -> var2 -> var2.
Variable fail2 : nat -> str -> var2 -> var2.

Notation ceq c1 c2 := (c_state c1 = c_state c2 /\ c_vals c1 = c_vals c2).
Notation agree' := (agree val var1 var2).

Lemma vparse_agree o v st (c1 : @cell val var1) (c2 : @cell val var2) :
  ceq c1 c2 ->
  fst (value_parse val var1 odesc parser store1 fail1 o v st c1) = fst (value_parse val var2 odesc parser store2 fail2 o v st c2) /\
  ceq (snd (value_parse val var1 odesc parser store1 fail1 o v st c1)) (snd (value_parse val var2 odesc parser store2 fail2 o v st c2)).
Proof.
  intros [H1 H2]. unfold value_parse. destruct (parser o (eff odesc o v)); cbn [fst snd c_state c_vals].
  - split; [reflexivity|]. split; [reflexivity | now rewrite H2].
  - split; [reflexivity|]. split; assumption.
Qed.

Lemma upd_agree cs1 cs2 o c1 c2 : agree' cs1 cs2 -> ceq c1 c2 -> agree' (upd val var1 cs1 o c1) (upd val var2 cs2 o c2).
Proof. intros H Hc j. unfold upd. destruct (Nat.eqb j o); [exact Hc | apply H]. Qed.

Lemma assign_opt_agree parsed cs1 cs2 o v :
  agree' cs1 cs2 ->
  fst (assign_opt val var1 odesc parser store1 fail1 parsed cs1 o v) = fst (assign_opt val var2 odesc parser store2 fail2 parsed cs2 o v) /\
  agree' (snd (assign_opt val var1 odesc parser store1 fail1 parsed cs1 o v)) (snd (assign_opt val var2 odesc parser store2 fail2 parsed cs2 o v)).
Proof.
  intros H. unfold assign_opt.
  destruct (negb (o_comp (odesc o)) && mem o parsed); [split; [reflexivity | exact H]|].
  destruct (H o) as [Hs Hv]. rewrite Hs.
  destruct (negb ((if o_comp (odesc o) then 0 else Z.land VALUE_FIXED (c_state (cs2 o))) =? 0)); [split; [reflexivity | exact H]|].
  destruct (vparse_agree o v VALUE_FIXED (cs1 o) (cs2 o) (H o)) as [Hf Hc].
  destruct (value_parse val var1 odesc parser store1 fail1 o v VALUE_FIXED (cs1 o)) as [ok1 c1].
  destruct (value_parse val var2 odesc parser store2 fail2 o v VALUE_FIXED (cs2 o)) as [ok2 c2].
  cbn [fst snd] in *. subst ok2. split; [reflexivity|]. apply upd_agree; assumption.
Qed.

Lemma loop_agree parsed excl : forall src cs1 cs2 e1 c1 d1 e2 c2 d2,
  agree' cs1 cs2 ->
  assign_loop val var1 odesc parser store1 fail1 parsed excl cs1 src = (e1, c1, d1) ->
  assign_loop val var2 odesc parser store2 fail2 parsed excl cs2 src = (e2, c2, d2) ->
  e1 = e2 /\ d1 = d2 /\ agree' c1 c2.
Proof.
  induction src as [|[o v] r IH]; intros cs1 cs2 e1 c1 d1 e2 c2 d2 H L1 L2.
  - simpl in L1, L2. inversion L1; inversion L2; subst. auto.
  - cbn [assign_loop] in L1, L2.
    destruct (is_excl excl o && negb (o_comp (odesc o))).
    + destruct (assign_loop val var1 odesc parser store1 fail1 parsed excl cs1 r) as [[e1' c1'] d1'] eqn:E1.
      destruct (assign_loop val var2 odesc parser store2 fail2 parsed excl cs2 r) as [[e2' c2'] d2'] eqn:E2.
      inversion L1; inversion L2; subst.
      destruct (IH _ _ _ _ _ _ _ _ H E1 E2) as (A & B & C). subst. auto.
    + destruct (assign_opt_agree parsed cs1 cs2 o v H) as [Hr Hc].
      destruct (assign_opt val var1 odesc parser store1 fail1 parsed cs1 o v) as [r1 x1].
      destruct (assign_opt val var2 odesc parser store2 fail2 parsed cs2 o v) as [r2 x2].
      cbn [fst snd] in Hr, Hc. subst r2.
      destruct (r1 =? 0).
      * destruct (assign_loop val var1 odesc parser store1 fail1 parsed excl x1 r) as [[e1' c1'] d1'] eqn:E1.
        destruct (assign_loop val var2 odesc parser store2 fail2 parsed excl x2 r) as [[e2' c2'] d2'] eqn:E2.
        inversion L1; inversion L2; subst.
        destruct (IH _ _ _ _ _ _ _ _ Hc E1 E2) as (A & B & C). subst. auto.
      * inversion L1; inversion L2; subst. auto.
Qed.

Lemma guard_agree excl : forall done parsed cs1 cs2 f p1 c1 f1 p2 c2 f2,
  agree' cs1 cs2 ->
  guard val var1 excl parsed cs1 done f = (p1, c1, f1) ->
  guard val var2 excl parsed cs2 done f = (p2, c2, f2) ->
  p1 = p2 /\ f1 = f2 /\ agree' c1 c2.
Proof.
  induction done as [|o r IH]; intros parsed cs1 cs2 f p1 c1 f1 p2 c2 f2 H G1 G2.
  - simpl in G1, G2. inversion G1; inversion G2; subst. auto.
  - cbn [guard] in G1, G2. destruct (H o) as [Hs Hv]. rewrite Hs in G1.
    destruct (c_state (cs2 o) =? VALUE_FIXED).
    + eapply IH; [|exact G1|exact G2]. apply upd_agree; [exact H|]. unfold set_state. cbn [c_state c_vals]. auto.
    + eapply IH; [exact H|exact G1|exact G2].
Qed.

Lemma source_agree parsed excl cs1 cs2 src e1 p1 c1 f1 e2 p2 c2 f2 :
  agree' cs1 cs2 ->
  assign_source val var1 odesc parser store1 fail1 parsed excl cs1 src = (e1, p1, c1, f1) ->
  assign_source val var2 odesc parser store2 fail2 parsed excl cs2 src = (e2, p2, c2, f2) ->
  e1 = e2 /\ p1 = p2 /\ f1 = f2 /\ agree' c1 c2.
Proof.
  unfold assign_source. intros H S1 S2.
  destruct (assign_loop val var1 odesc parser store1 fail1 parsed excl cs1 src) as [[a1 x1] d1] eqn:L1.
  destruct (assign_loop val var2 odesc parser store2 fail2 parsed excl cs2 src) as [[a2 x2] d2] eqn:L2.
  destruct (loop_agree parsed excl src _ _ _ _ _ _ _ _ H L1 L2) as (A & B & C). subst a2 d2.
  destruct (guard val var1 excl parsed x1 d1 false) as [[q1 y1] g1] eqn:G1.
  destruct (guard val var2 excl parsed x2 d1 false) as [[q2 y2] g2] eqn:G2.
  destruct (guard_agree excl d1 parsed _ _ false _ _ _ _ _ _ C G1 G2) as (A & B & D).
  inversion S1; inversion S2; subst. auto.
Qed.

Lemma defaults_agree parsed : forall os cs1 cs2 e1 c1 e2 c2,
  agree' cs1 cs2 ->
  assign_defaults val var1 odesc parser store1 fail1 parsed cs1 os = (e1, c1) ->
  assign_defaults val var2 odesc parser store2 fail2 parsed cs2 os = (e2, c2) ->
  e1 = e2 /\ agree' c1 c2.
Proof.
  induction os as [|o r IH]; intros cs1 cs2 e1 c1 e2 c2 H D1 D2.
  - simpl in D1, D2. inversion D1; inversion D2; subst. auto.
  - cbn [assign_defaults] in D1, D2.
    destruct (mem o parsed); [eapply IH; eassumption|].
    assert (Hd : fst (assign_default val var1 odesc parser store1 fail1 o (cs1 o)) = fst (assign_default val var2 odesc parser store2 fail2 o (cs2 o)) /\
                 ceq (snd (assign_default val var1 odesc parser store1 fail1 o (cs1 o))) (snd (assign_default val var2 odesc parser store2 fail2 o (cs2 o)))).
    { unfold assign_default. destruct (o_dflt (odesc o)) as [d|]; [|split; [reflexivity | apply H]].
      destruct (H o) as [Hs Hv]. rewrite Hs.
      destruct (negb (c_state (cs2 o) =? VALUE_DEFAULTED)); [apply vparse_agree; apply H | split; [reflexivity | apply H]]. }
    destruct Hd as [Hf Hc].
    destruct (assign_default val var1 odesc parser store1 fail1 o (cs1 o)) as [ok1 x1].
    destruct (assign_default val var2 odesc parser store2 fail2 o (cs2 o)) as [ok2 x2].
    cbn [fst snd] in Hf, Hc. subst ok2.
    destruct ok1.
    + eapply IH; [|exact D1|exact D2]. apply upd_agree; assumption.
    + inversion D1; inversion D2; subst. split; [reflexivity|]. apply upd_agree; assumption.
Qed.

Lemma runs_agree : forall h parsed cs1 cs2 es1 p1 c1 f1 es2 p2 c2 f2,
  agree' cs1 cs2 ->
  run_sources val var1 odesc parser store1 fail1 parsed cs1 h = (es1, p1, c1, f1) ->
  run_sources val var2 odesc parser store2 fail2 parsed cs2 h = (es2, p2, c2, f2) ->
  es1 = es2 /\ p1 = p2 /\ f1 = f2 /\ agree' c1 c2.
Proof.
  induction h as [|[excl src] r IH]; intros parsed cs1 cs2 es1 p1 c1 f1 es2 p2 c2 f2 H R1 R2.
  - simpl in R1, R2. inversion R1; inversion R2; subst. auto.
  - cbn [run_sources] in R1, R2.
    destruct (assign_source val var1 odesc parser store1 fail1 parsed excl cs1 src) as [[[a1 q1] x1] g1] eqn:S1.
    destruct (assign_source val var2 odesc parser store2 fail2 parsed excl cs2 src) as [[[a2 q2] x2] g2] eqn:S2.
    destruct (source_agree parsed excl cs1 cs2 src _ _ _ _ _ _ _ _ H S1 S2) as (A & B & C & D). subst a2 q2 g2.
    destruct (run_sources val var1 odesc parser store1 fail1 q1 x1 r) as [[[b1 s1] y1] k1] eqn:T1.
    destruct (run_sources val var2 odesc parser store2 fail2 q1 x2 r) as [[[b2 s2] y2] k2] eqn:T2.
    destruct (IH q1 x1 x2 _ _ _ _ _ _ _ _ D T1 T2) as (A & B & C & E). subst.
    inversion R1; inversion R2; subst. auto.
Qed.
End Indep.

(* ------------------------------------------------ Part 2 ------------------------------------------------ *)
Section Inv.
Variables val var : Type.
Variable odesc : nat -> opt.
Variable parser : nat -> str -> option val.
Variable store : nat -> val -> var -> var.
Variable fail_write : nat -> str -> var -> var.
Variable R : nat -> @cell val var -> @cell val var -> Prop.
Hypothesis R_refl : forall o c, R o c c.
Hypothesis R_trans : forall o a b c, R o a b -> R o b c -> R o a c.
Hypothesis R_parse : forall o v st c, R o c (snd (value_parse val var odesc parser store fail_write o v st c)).
Hypothesis R_state : forall o c s, R o c (set_state val var c s).

Lemma upd_R cs o c : R o (cs o) c -> forall j, R j (cs j) (upd val var cs o c j).
Proof. intros H j. unfold upd. destruct (Nat.eqb_spec j o) as [->|Hne]; [exact H | apply R_refl]. Qed.

Lemma assign_opt_R parsed cs o v : forall j, R j (cs j) (snd (assign_opt val var odesc parser store fail_write parsed cs o v) j).
Proof.
  intros j. unfold assign_opt.
  destruct (negb (o_comp (odesc o)) && mem o parsed); [apply R_refl|].
  destruct (negb ((if o_comp (odesc o) then 0 else Z.land VALUE_FIXED (c_state (cs o))) =? 0)); [apply R_refl|].
  pose proof (R_parse o v VALUE_FIXED (cs o)) as H.
  destruct (value_parse val var odesc parser store fail_write o v VALUE_FIXED (cs o)) as [ok c]. cbn [snd] in *.
  apply upd_R. exact H.
Qed.

Lemma loop_R parsed excl : forall src cs j,
  R j (cs j) (snd (fst (assign_loop val var odesc parser store fail_write parsed excl cs src)) j).
Proof.
  induction src as [|[o v] r IH]; intros cs j; [apply R_refl|].
  cbn [assign_loop].
  destruct (is_excl excl o && negb (o_comp (odesc o))).
  - specialize (IH cs j). destruct (assign_loop val var odesc parser store fail_write parsed excl cs r) as [[e c] d]. exact IH.
  - pose proof (assign_opt_R parsed cs o v j) as H.
    destruct (assign_opt val var odesc parser store fail_write parsed cs o v) as [ret cs1]. cbn [snd] in H.
    destruct (ret =? 0); [|exact H].
    specialize (IH cs1 j). destruct (assign_loop val var odesc parser store fail_write parsed excl cs1 r) as [[e c] d].
    cbn [fst snd] in *. eapply R_trans; eassumption.
Qed.

Lemma guard_R excl : forall done parsed cs f j, R j (cs j) (snd (fst (guard val var excl parsed cs done f)) j).
Proof.
  induction done as [|o r IH]; intros parsed cs f j; [apply R_refl|].
  cbn [guard]. destruct (c_state (cs o) =? VALUE_FIXED); [|apply IH].
  eapply R_trans; [|apply IH]. apply upd_R. apply R_state.
Qed.

Lemma source_R parsed excl cs src e p cs' f :
  assign_source val var odesc parser store fail_write parsed excl cs src = (e, p, cs', f) -> forall j, R j (cs j) (cs' j).
Proof.
  unfold assign_source. intros H j.
  pose proof (loop_R parsed excl src cs j) as HL.
  destruct (assign_loop val var odesc parser store fail_write parsed excl cs src) as [[e1 cs1] d]. cbn [fst snd] in HL.
  pose proof (guard_R excl d parsed cs1 false j) as HG.
  destruct (guard val var excl parsed cs1 d false) as [[p2 cs2] f2]. cbn [fst snd] in HG.
  inversion H; subst. eapply R_trans; eassumption.
Qed.

Lemma defaults_R parsed : forall os cs e cs',
  assign_defaults val var odesc parser store fail_write parsed cs os = (e, cs') -> forall j, R j (cs j) (cs' j).
Proof.
  induction os as [|o r IH]; intros cs e cs' H j.
  - simpl in H. inversion H; subst. apply R_refl.
  - cbn [assign_defaults] in H.
    destruct (mem o parsed); [eapply IH; eassumption|].
    assert (Hd : R o (cs o) (snd (assign_default val var odesc parser store fail_write o (cs o)))).
    { unfold assign_default. destruct (o_dflt (odesc o)); [|apply R_refl].
      destruct (negb (c_state (cs o) =? VALUE_DEFAULTED)); [apply R_parse | apply R_refl]. }
    destruct (assign_default val var odesc parser store fail_write o (cs o)) as [ok c]. cbn [snd] in Hd.
    destruct ok.
    + eapply R_trans; [apply (upd_R cs o c Hd j)|]. eapply IH; eassumption.
    + inversion H; subst. apply upd_R. exact Hd.
Qed.

Lemma runs_R : forall h parsed cs es p cs' f,
  run_sources val var odesc parser store fail_write parsed cs h = (es, p, cs', f) -> forall j, R j (cs j) (cs' j).
Proof.
  induction h as [|[excl src] r IH]; intros parsed cs es p cs' f H j.
  - simpl in H. inversion H; subst. apply R_refl.
  - cbn [run_sources] in H.
    destruct (assign_source val var odesc parser store fail_write parsed excl cs src) as [[[e1 p1] cs1] f1] eqn:S.
    destruct (run_sources val var odesc parser store fail_write p1 cs1 r) as [[[es2 p2] cs2] f2] eqn:T.
    inversion H; subst. eapply R_trans; [eapply source_R; eassumption | eapply IH; eassumption].
Qed.
End Inv.

(* ------------------------------------------------ Part 3 ------------------------------------------------ *)
Section Notif.
Variables val obj : Type.
Variable odesc : nat -> opt.
Variable parser : nat -> str -> option val.
Variable create : nat -> obj.
Variable apply : nat -> val -> obj -> obj.
Variable dirt : nat -> str -> obj -> obj.
Variable answer : nat -> list obj -> obj -> bool.

Notation nst := (nstate obj).
Notation nstore := (n_store val obj create apply answer).
Notation nfail := (n_fail obj dirt).
Notation ncell := (@cell val nst).
Notation vparse := (value_parse val nst odesc parser nstore nfail).
Notation step := (notified_step val obj apply).
Notation dstep := (declined_step val obj create apply).

(* one Value::parse *)
Lemma n_store_log o x st : exists pv, n_log (nstore o x st) = n_log st ++ [apply o x pv].
Proof.
  unfold n_store. destruct (n_target obj st) as [ob|].
  - exists ob. reflexivity.
  - exists (create o). destruct (answer o (n_log st) (apply o x (create o))); reflexivity.
Qed.

Lemma n_fail_log o s st : n_log (nfail o s st) = n_log st.
Proof. unfold n_fail. destruct (n_target obj st); reflexivity. Qed.

Lemma step_refl o c : step o c c.
Proof. exists [], []. rewrite !app_nil_r. repeat split. constructor. Qed.

Lemma step_trans o a b c : step o a b -> step o b c -> step o a c.
Proof.
  intros (xs & obs & V1 & L1 & D1) (ys & obs' & V2 & L2 & D2).
  exists (xs ++ ys), (obs ++ obs'). rewrite V2, V1, L2, L1, !app_assoc. repeat split.
  apply Forall2_app; assumption.
Qed.

Lemma step_parse o v st c : step o c (snd (vparse o v st c)).
Proof.
  unfold notified_step, value_parse. destruct (parser o (eff odesc o v)) as [x|]; cbn [snd c_vals c_var].
  - destruct (n_store_log o x (c_var c)) as (pv & Hl).
    exists [x], [apply o x pv]. split; [reflexivity|]. split; [exact Hl|]. constructor; [exists pv; reflexivity | constructor].
  - exists [], []. rewrite n_fail_log, !app_nil_r. repeat split. constructor.
Qed.

Lemma step_state o c s : step o c (set_state val nst c s).
Proof. unfold set_state. exists [], []. cbn [c_vals c_var]. rewrite !app_nil_r. repeat split. constructor. Qed.

(* object accounting *)
Notation acc := (accounted obj).
Definition acc_step (o : nat) (c c' : ncell) : Prop := acc (c_var c) -> acc (c_var c').

Lemma acc_store o x st : acc st -> acc (nstore o x st).
Proof.
  unfold accounted, n_store, n_target. intros [H1 H2].
  destruct (n_loc st) eqn:El.
  - destruct (n_held st) as [ob|] eqn:Eh; [|exfalso; now apply H2].
    cbn [n_made n_freed n_cfreed n_held n_loc]. split; [exact H1 | discriminate].
  - destruct (answer o (n_log st) (apply o x (create o))); cbn [n_made n_freed n_cfreed n_held n_loc].
    + split; [destruct (n_held st); lia | discriminate].
    + split; [lia | discriminate].
Qed.

Lemma acc_fail o s st : acc st -> acc (nfail o s st).
Proof.
  unfold accounted, n_fail, n_target. intros [H1 H2].
  destruct (n_loc st) eqn:El.
  - destruct (n_held st) as [ob|] eqn:Eh; [|exfalso; now apply H2].
    cbn [n_made n_freed n_cfreed n_held n_loc]. split; [exact H1 | discriminate].
  - cbn [n_made n_freed n_cfreed n_held n_loc]. split; [lia | discriminate].
Qed.

Lemma acc_parse o v st c : acc_step o c (snd (vparse o v st c)).
Proof.
  unfold acc_step, value_parse. destruct (parser o (eff odesc o v)); cbn [snd c_var]; [apply acc_store | apply acc_fail].
Qed.

(* the function always declines *)
Definition dec_step (o : nat) (c c' : ncell) : Prop :=
  (forall l ob, answer o l ob = false) -> owns_nothing obj (c_var c) -> dstep o c c'.

Lemma dstep_refl o c : owns_nothing obj (c_var c) -> dstep o c c.
Proof. intros H. exists []. cbn [map]. rewrite !app_nil_r. repeat split; try apply H. Qed.

Lemma dstep_owns o c c' : dstep o c c' -> owns_nothing obj (c_var c').
Proof. intros (xs & _ & _ & H & _). exact H. Qed.

Lemma dstep_trans o a b c : dstep o a b -> dstep o b c -> dstep o a c.
Proof.
  intros (xs & V1 & L1 & O1 & M1 & C1) (ys & V2 & L2 & O2 & M2 & C2).
  exists (xs ++ ys). rewrite V2, V1, L2, L1, map_app, !app_assoc. repeat split; try apply O2; lia.
Qed.

Lemma dec_parse o v st c : dec_step o c (snd (vparse o v st c)).
Proof.
  intros Ha [Hl Hh]. unfold declined_step, owns_nothing, value_parse.
  destruct (parser o (eff odesc o v)) as [x|]; cbn [snd c_vals c_var].
  - exists [x]. unfold n_store, n_target. rewrite Hl, Ha. cbn [n_log n_loc n_held n_made n_freed n_cfreed map].
    repeat split; try reflexivity; try assumption; lia.
  - exists []. unfold n_fail, n_target. rewrite Hl. cbn [n_log n_loc n_held n_made n_freed n_cfreed map]. rewrite !app_nil_r.
    repeat split; try reflexivity; try assumption; lia.
Qed.

(* the three relations across a history of sources followed by assignDefaults (errors allowed anywhere) *)
Theorem notified_history h parsed cs es p c1 f os e d :
  run_sources val nst odesc parser nstore nfail parsed cs h = (es, p, c1, f) ->
  assign_defaults val nst odesc parser nstore nfail p c1 os = (e, d) ->
  forall o,
    step o (cs o) (d o) /\
    (acc (c_var (cs o)) -> acc (c_var (d o))) /\
    ((forall l ob, answer o l ob = false) -> owns_nothing obj (c_var (cs o)) -> dstep o (cs o) (d o)).
Proof.
  intros Hr Hd o. split; [|split].
  - eapply step_trans.
    + exact (runs_R val nst odesc parser nstore nfail step step_refl step_trans step_parse step_state h parsed cs es p c1 f Hr o).
    + exact (defaults_R val nst odesc parser nstore nfail step step_refl step_trans step_parse p os c1 e d Hd o).
  - assert (Hrefl : forall o c, acc_step o c c) by (intros ? ? H; exact H).
    assert (Htr : forall o a b c, acc_step o a b -> acc_step o b c -> acc_step o a c) by (intros ? ? ? ? A B H; apply B, A, H).
    assert (Hst : forall o c s, acc_step o c (set_state val nst c s)) by (intros ? ? ? H; exact H).
    intros H0.
    apply (defaults_R val nst odesc parser nstore nfail acc_step Hrefl Htr acc_parse p os c1 e d Hd o).
    apply (runs_R val nst odesc parser nstore nfail acc_step Hrefl Htr acc_parse Hst h parsed cs es p c1 f Hr o). exact H0.
  - assert (Hrefl : forall o c, dec_step o c c) by (intros ? ? _ H; apply dstep_refl; exact H).
    assert (Htr : forall o a b c, dec_step o a b -> dec_step o b c -> dec_step o a c).
    { intros j a b c A B Ha Ho. pose proof (A Ha Ho) as AB. eapply dstep_trans; [exact AB|]. apply B; [exact Ha|]. eapply dstep_owns; exact AB. }
    assert (Hst : forall o c s, dec_step o c (set_state val nst c s)).
    { intros j c s _ Ho. unfold set_state. exists []. cbn [c_vals c_var map]. rewrite !app_nil_r. repeat split; try apply Ho. }
    intros Ha Ho.
    pose proof (runs_R val nst odesc parser nstore nfail dec_step Hrefl Htr dec_parse Hst h parsed cs es p c1 f Hr o Ha Ho) as A.
    eapply dstep_trans; [exact A|].
    apply (defaults_R val nst odesc parser nstore nfail dec_step Hrefl Htr dec_parse p os c1 e d Hd o Ha). eapply dstep_owns; exact A.
Qed.

(* a single occurrence whose string the option's parser accepts: accepted and recorded, delivered once - whatever the function answers *)
Theorem notified_accepts parsed excl cs o v x :
  (forall j, clean val nst (cs j)) -> skipped odesc parsed excl o = false -> parser o (eff odesc o v) = Some x ->
  exists p' cs' pv,
    assign_source val nst odesc parser nstore nfail parsed excl cs [(o, v)] = (None, p', cs', false) /\
    mem o p' = true /\ c_state (cs' o) = VALUE_UNASSIGNED /\ c_vals (cs' o) = c_vals (cs o) ++ [x] /\
    n_log (c_var (cs' o)) = n_log (c_var (cs o)) ++ [apply o x pv] /\ (forall j, j <> o -> cs' j = cs j).
Proof.
  intros Hc Hs Hp.
  assert (Hok : src_ok val odesc parser parsed excl [(o, v)]).
  { split.
    - intros j _ _. simpl. destruct (Nat.eq_dec o j); simpl; lia.
    - intros j w [Hin|[]] _. inversion Hin; subst. rewrite Hp. discriminate. }
  destruct (source_ok val nst odesc parser nstore nfail parsed excl cs [(o, v)] Hc Hok) as (p' & cs' & E & Hp' & Hcs).
  assert (Hm : mentions o [(o, v)] = true) by (unfold mentions; simpl; now rewrite Nat.eqb_refl).
  assert (Hacc : accepted val odesc parser o [(o, v)] = [x]).
  { unfold accepted. simpl. rewrite Nat.eqb_refl, Hp. reflexivity. }
  pose proof (Hcs o) as Ho. rewrite Hs, Hm in Ho. cbn [orb negb] in Ho. destruct Ho as (S1 & V1 & W1).
  rewrite Hacc in V1, W1. unfold store_all in W1. cbn [fold_left] in W1.
  destruct (n_store_log o x (c_var (cs o))) as (pv & Hl).
  exists p', cs', pv. split; [exact E|]. split.
  { rewrite (Hp' o), Hs, Hm. cbn [negb andb]. apply orb_true_r. }
  split; [exact S1|]. split; [exact V1|]. split; [rewrite W1; exact Hl|].
  intros j Hne. specialize (Hcs j).
  assert (Hmj : mentions j [(o, v)] = false).
  { unfold mentions. simpl. apply Nat.eqb_neq in Hne. rewrite Hne. reflexivity. }
  rewrite Hmj in Hcs. cbn [negb] in Hcs. rewrite orb_true_r in Hcs. exact Hcs.
Qed.
End Notif.

(* two notification functions over the same option set: same errors, same recorded names, same states, same accepted values, same
   defaults - and the same NUMBER of notifications *)
Lemma Forall2_len {A B : Type} (P : A -> B -> Prop) (l : list A) (m : list B) : Forall2 P l m -> length l = length m.
Proof. induction 1; simpl; congruence. Qed.

Section Answers.
Variables val obj : Type.
Variable odesc : nat -> opt.
Variable parser : nat -> str -> option val.
Variable create : nat -> obj.
Variable apply : nat -> val -> obj -> obj.
Variable dirt : nat -> str -> obj -> obj.
Variables answer1 answer2 : nat -> list obj -> obj -> bool.
Notation nst := (nstate obj).
Notation S1 := (n_store val obj create apply answer1).
Notation S2 := (n_store val obj create apply answer2).
Notation F := (n_fail obj dirt).

Theorem answer_indep h os parsed (cs1 cs2 : nat -> @cell val nst) es1 p1 c1 f1 e1 d1 es2 p2 c2 f2 e2 d2 :
  agree val nst nst cs1 cs2 ->
  run_sources val nst odesc parser S1 F parsed cs1 h = (es1, p1, c1, f1) ->
  assign_defaults val nst odesc parser S1 F p1 c1 os = (e1, d1) ->
  run_sources val nst odesc parser S2 F parsed cs2 h = (es2, p2, c2, f2) ->
  assign_defaults val nst odesc parser S2 F p2 c2 os = (e2, d2) ->
  es1 = es2 /\ p1 = p2 /\ f1 = f2 /\ agree val nst nst c1 c2 /\ e1 = e2 /\ agree val nst nst d1 d2 /\
  (forall o, length (n_log (c_var (d1 o))) + length (n_log (c_var (cs2 o))) =
             length (n_log (c_var (d2 o))) + length (n_log (c_var (cs1 o))))%nat.
Proof.
  intros Ha R1 D1 R2 D2.
  destruct (runs_agree val nst nst odesc parser S1 F S2 F h parsed cs1 cs2 _ _ _ _ _ _ _ _ Ha R1 R2) as (A & B & C & D). subst es2 p2 f2.
  destruct (defaults_agree val nst nst odesc parser S1 F S2 F p1 os c1 c2 _ _ _ _ D D1 D2) as (E & G). subst e2.
  repeat (split; [first [reflexivity | assumption]|]).
  intros o.
  destruct (notified_history val obj odesc parser create apply dirt answer1 h parsed cs1 es1 p1 c1 f1 os e1 d1 R1 D1 o) as ((xs & obs & V & L & Dl) & _).
  destruct (notified_history val obj odesc parser create apply dirt answer2 h parsed cs2 es1 p1 c2 f1 os e1 d2 R2 D2 o) as ((xs' & obs' & V' & L' & Dl') & _).
  destruct (G o) as [_ Gv]. destruct (Ha o) as [_ Hv]. rewrite V, V', Hv in Gv. apply app_inv_head in Gv. subst xs'.
  rewrite L, L', !app_length. apply Forall2_len in Dl. apply Forall2_len in Dl'. lia.
Qed.
End Answers.

(* the UNTYPED custom value: the callback's answer IS the validity of the string *)
Section Custom.
Variable var : Type.
Variable odesc : nat -> opt.
Variable cb : nat -> str -> bool.
Variable store : nat -> str -> var -> var.
Variable fail_write : nat -> str -> var -> var.

Theorem custom_answer_is_validity parsed excl cs o v :
  (forall j, clean str var (cs j)) -> skipped odesc parsed excl o = false ->
  let r := assign_source str var odesc (custom_parser cb) store fail_write parsed excl cs [(o, v)] in
  (cb o (eff odesc o v) = true -> err_of str var r = None /\ mem o (snd (fst (fst r))) = true) /\
  (cb o (eff odesc o v) = false ->
   err_of str var r = Some (mkErr ERR_INVALID_VALUE o v) /\ snd (fst (fst r)) = parsed /\ c_vals (snd (fst r) o) = c_vals (cs o)).
Proof.
  intros Hc Hs r. split; intros Hcb.
  - assert (Hok : src_ok str odesc (custom_parser cb) parsed excl [(o, v)]).
    { split.
      - intros j _ _. simpl. destruct (Nat.eq_dec o j); simpl; lia.
      - intros j w [Hin|[]] _. inversion Hin; subst. unfold custom_parser. rewrite Hcb. discriminate. }
    destruct (source_ok str var odesc (custom_parser cb) store fail_write parsed excl cs [(o, v)] Hc Hok) as (p' & cs' & E & Hp' & _).
    subst r. rewrite E. split; [reflexivity|]. cbn [fst snd].
    rewrite (Hp' o), Hs. unfold mentions. simpl. rewrite Nat.eqb_refl. cbn [negb andb]. apply orb_true_r.
  - assert (Hbad : bad_at str odesc (custom_parser cb) parsed excl [(o, v)] [] o v).
    { exists []. split; [reflexivity|]. split.
      - split; [intros j _ _; simpl; lia | intros j w []].
      - split; [exact Hs|]. split; [right; reflexivity|]. unfold custom_parser. rewrite Hcb. reflexivity. }
    destruct (source_bad str var odesc (custom_parser cb) store fail_write parsed excl cs [(o, v)] [] o v Hc Hbad)
      as (p' & cs0 & cs' & E0 & E & _ & _ & V & _).
    unfold assign_source in E0. simpl in E0. inversion E0; subst p' cs0.
    subst r. rewrite E. unfold err_of. cbn [fst snd]. auto.
Qed.
End Custom.
