(* C15 - proofs, part 2: error characterisation, bookkeeping, histories, defaults. *)
Require Import V.Lib.Base V.Gen.Consts_C15 V.C15.Model V.C15.Spec V.C15.Proofs.
Local Open Scope Z_scope.

Lemma NoDup_app_l {A} (a b : list A) : NoDup (a ++ b) -> NoDup a.
Proof.
  induction a as [|x a IH]; simpl; intros H; [constructor|].
  inversion H as [|? ? Hn Hd]; subst. constructor; [intros Hin; apply Hn; apply in_or_app; now left | auto].
Qed.

Section P2.
Variables val var : Type.
Variable odesc : nat -> opt.
Variable parser : nat -> str -> option val.
Variable store : nat -> val -> var -> var.
Variable fail_write : nat -> str -> var -> var.

Notation cellT := (@cell val var).
Notation cellsT := (nat -> cellT).
Notation asrc := (assign_source val var odesc parser store fail_write).
Notation adef := (assign_defaults val var odesc parser store fail_write).
Notation runs := (run_sources val var odesc parser store fail_write).
Notation updc := (upd val var).
Notation eff' := (eff odesc).
Notation comp' := (comp odesc).
Notation skipped' := (skipped odesc).
Notation accepted' := (accepted val odesc parser).
Notation src_ok' := (src_ok val odesc parser).
Notation dup_at' := (dup_at val odesc parser).
Notation bad_at' := (bad_at val odesc parser).
Notation clean' := (clean val var).
Notation store_all' := (store_all val var store).
Notation after_source' := (after_source val var odesc parser store).
Notation needs' := (needs_default val var odesc).
Notation err_of := (Spec.err_of val var).
Notation recorded := (Spec.recorded val var).
Notation defaults_valid := (Spec.defaults_valid val var odesc parser).
Notation after_defaults := (Spec.after_defaults val var odesc parser store).

(* ---------- every source is fine, or has a first duplicate, or a first refused pair ---------- *)
Lemma count_occ_snoc (l : list nat) x j :
  count_occ Nat.eq_dec (l ++ [x]) j = (count_occ Nat.eq_dec l j + (if Nat.eq_dec x j then 1 else 0))%nat.
Proof. rewrite count_occ_app. simpl. destruct (Nat.eq_dec x j); reflexivity. Qed.

Lemma not_mentions_count j (src : list (nat * str)) : mentions j src = false -> count_occ Nat.eq_dec (map fst src) j = 0%nat.
Proof.
  intros H. apply count_occ_not_In. intros Hin. apply (mentions_In j src) in Hin. congruence.
Qed.

Lemma src_trichotomy parsed excl : forall src,
  src_ok' parsed excl src \/ (exists pre o v, dup_at' parsed excl src pre o v) \/ (exists pre o v, bad_at' parsed excl src pre o v).
Proof.
  induction src as [|[o v] l IH] using rev_ind.
  - left. split; [intros; simpl; lia | intros ? ? []].
  - destruct IH as [Hok | [(pre & o' & v' & post & -> & H) | (pre & o' & v' & post & -> & H)]].
    + destruct (skipped' parsed excl o) eqn:Es.
      * left. destruct Hok as [H1 H2]. split.
        -- intros j Hj Hc. rewrite map_app. cbn [map fst]. rewrite count_occ_snoc.
           destruct (Nat.eq_dec o j) as [->|]; [congruence|]. specialize (H1 j Hj Hc). lia.
        -- intros j w Hin Hj. apply in_app_or in Hin. destruct Hin as [Hin|[Heq|[]]]; [eauto|].
           inversion Heq; subst. congruence.
      * destruct (negb (comp' o) && mentions o l) eqn:Ed.
        -- right. left. exists l, o, v, []. apply andb_true_iff in Ed. destruct Ed as [E1 E2].
           apply negb_true_iff in E1. split; [reflexivity|]. split; [exact Hok|]. split; [exact Es|]. split; assumption.
        -- destruct (parser o (eff' o v)) eqn:Ev.
           ++ left. destruct Hok as [H1 H2]. split.
              ** intros j Hj Hc. rewrite map_app. cbn [map fst]. rewrite count_occ_snoc.
                 destruct (Nat.eq_dec o j) as [<-|].
                 --- rewrite Hc in Ed. simpl in Ed. rewrite (not_mentions_count o l Ed). lia.
                 --- specialize (H1 j Hj Hc). lia.
              ** intros j w Hin Hj. apply in_app_or in Hin. destruct Hin as [Hin|[Heq|[]]]; [eauto|].
                 inversion Heq; subst. congruence.
           ++ right. right. exists l, o, v, []. split; [reflexivity|]. split; [exact Hok|]. split; [exact Es|]. split; [|exact Ev].
              apply andb_false_iff in Ed. destruct Ed as [E|E]; [left; now apply negb_false_iff in E | now right].
    + right. left. exists pre, o', v', (post ++ [(o, v)]). split; [now rewrite <- app_assoc | exact H].
    + right. right. exists pre, o', v', (post ++ [(o, v)]). split; [now rewrite <- app_assoc | exact H].
Qed.

Section OneSource.
Variables (parsed : list nat) (excl : option (list nat)) (cs : cellsT) (src : list (nat * str)).
Hypothesis Hclean : forall o, clean' (cs o).

Theorem no_error_iff : err_of (asrc parsed excl cs src) = None <-> src_ok' parsed excl src.
Proof.
  split.
  - intros He. destruct (src_trichotomy parsed excl src) as [H | [(pre & o & v & H) | (pre & o & v & H)]]; [assumption | |].
    + destruct (source_dup val var odesc parser store fail_write parsed excl cs src pre o v Hclean H) as (p' & cs' & _ & E).
      rewrite E in He. discriminate.
    + destruct (source_bad val var odesc parser store fail_write parsed excl cs src pre o v Hclean H) as (p' & c0 & cs' & _ & E & _).
      rewrite E in He. discriminate.
  - intros H. destruct (source_ok val var odesc parser store fail_write parsed excl cs src Hclean H) as (p' & cs' & E & _).
    rewrite E. reflexivity.
Qed.

Theorem duplicate_iff o v :
  err_of (asrc parsed excl cs src) = Some (mkErr ERR_MULTIPLE o v) <-> exists pre, dup_at' parsed excl src pre o v.
Proof.
  split.
  - intros He. destruct (src_trichotomy parsed excl src) as [H | [(pre & o' & v' & H) | (pre & o' & v' & H)]].
    + apply no_error_iff in H. congruence.
    + destruct (source_dup val var odesc parser store fail_write parsed excl cs src pre o' v' Hclean H) as (p' & cs' & _ & E).
      rewrite E in He. inversion He; subst. eauto.
    + destruct (source_bad val var odesc parser store fail_write parsed excl cs src pre o' v' Hclean H) as (p' & c0 & cs' & _ & E & _).
      rewrite E in He. exfalso. unfold err_of in He. cbn [fst] in He. assert (ERR_INVALID_VALUE = ERR_MULTIPLE) by congruence. now apply err_codes_differ.
  - intros (pre & H).
    destruct (source_dup val var odesc parser store fail_write parsed excl cs src pre o v Hclean H) as (p' & cs' & _ & E).
    rewrite E. reflexivity.
Qed.

Theorem invalid_iff o v :
  err_of (asrc parsed excl cs src) = Some (mkErr ERR_INVALID_VALUE o v) <-> exists pre, bad_at' parsed excl src pre o v.
Proof.
  split.
  - intros He. destruct (src_trichotomy parsed excl src) as [H | [(pre & o' & v' & H) | (pre & o' & v' & H)]].
    + apply no_error_iff in H. congruence.
    + destruct (source_dup val var odesc parser store fail_write parsed excl cs src pre o' v' Hclean H) as (p' & cs' & _ & E).
      rewrite E in He. exfalso. unfold err_of in He. cbn [fst] in He. assert (ERR_MULTIPLE = ERR_INVALID_VALUE) by congruence. now apply err_codes_differ.
    + destruct (source_bad val var odesc parser store fail_write parsed excl cs src pre o' v' Hclean H) as (p' & c0 & cs' & _ & E & _).
      rewrite E in He. inversion He; subst. eauto.
  - intros (pre & H).
    destruct (source_bad val var odesc parser store fail_write parsed excl cs src pre o v Hclean H) as (p' & c0 & cs' & _ & E & _).
    rewrite E. reflexivity.
Qed.
End OneSource.

(* ---------- bookkeeping after every assign ---------- *)
Lemma in_accepted o v x src : In (o, v) src -> parser o (eff' o v) = Some x -> In x (accepted' o src).
Proof.
  intros Hin Hp. unfold accepted. apply in_flat_map. exists (o, v). split; [assumption|].
  simpl. rewrite Nat.eqb_refl, Hp. now left.
Qed.

Lemma accepted_nonempty parsed excl src o :
  src_ok' parsed excl src -> skipped' parsed excl o = false -> mentions o src = true -> accepted' o src <> [].
Proof.
  intros [_ Hv] Hs Hm. apply mentions_In in Hm. apply in_map_iff in Hm. destruct Hm as ([o' v] & Heq & Hin). simpl in Heq. subst o'.
  destruct (parser o (eff' o v)) as [x|] eqn:E; [|exfalso; eapply Hv; eauto].
  intros Hnil. pose proof (in_accepted o v x src Hin E) as Hx. rewrite Hnil in Hx. destruct Hx.
Qed.

Lemma recorded_ok parsed excl cs src p' cs' :
  (forall o, clean' (cs o)) -> src_ok' parsed excl src -> after_source' parsed excl cs src p' cs' -> recorded parsed cs p' cs'.
Proof.
  intros Hc Hok Ha. pose proof (after_source_clean val var odesc parser store parsed excl cs src p' cs' Hc Ha) as Hcl.
  destruct Ha as [Hp Hcs].
  assert (Hcase : forall o, (skipped' parsed excl o || negb (mentions o src) = true /\ cs' o = cs o /\ mem o p' = mem o parsed) \/
                            (c_vals (cs' o) <> c_vals (cs o) /\ c_state (cs' o) = VALUE_UNASSIGNED /\ mem o p' = true /\
                             exists l, c_vals (cs' o) = c_vals (cs o) ++ l)).
  { intros o. specialize (Hcs o). specialize (Hp o).
    destruct (skipped' parsed excl o) eqn:Es; simpl in *.
    - left. rewrite Hp, orb_false_r. auto.
    - destruct (mentions o src) eqn:Em; simpl in *.
      + right. destruct Hcs as (A1 & A2 & A3). rewrite Hp, orb_true_r. repeat split; try assumption; [|eauto].
        rewrite A2. intros Heq. rewrite <- (app_nil_r (c_vals (cs o))) in Heq at 2. apply app_inv_head in Heq.
        now apply (accepted_nonempty parsed excl src o Hok Es Em).
      + left. rewrite Hp, orb_false_r. auto. }
  split; [assumption|]. split; [|split; [|split]]; intros o; destruct (Hcase o) as [(_ & E & M) | (N & S & M & L)].
  - rewrite M, E. split; [auto | intros [H|H]; [assumption | congruence]].
  - rewrite M. split; auto.
  - rewrite E. congruence.
  - auto.
  - now rewrite E.
  - congruence.
  - rewrite E. exists []. now rewrite app_nil_r.
  - assumption.
Qed.

Lemma recorded_transport parsed cs p' cs0 cs' :
  recorded parsed cs p' cs0 -> (forall j, c_state (cs' j) = c_state (cs0 j) /\ c_vals (cs' j) = c_vals (cs0 j)) ->
  recorded parsed cs p' cs'.
Proof.
  intros (R1 & R2 & R3 & R4 & R5) H. unfold recorded, clean.
  split; [|split; [|split; [|split]]]; intros o; destruct (H o) as [Hs Hv]; rewrite ?Hs, ?Hv; auto. apply R1.
Qed.

Theorem recorded_always parsed excl cs src :
  (forall o, clean' (cs o)) ->
  exists e p' cs', asrc parsed excl cs src = (e, p', cs', false) /\ recorded parsed cs p' cs'.
Proof.
  intros Hc. destruct (src_trichotomy parsed excl src) as [H | [(pre & o & v & H) | (pre & o & v & H)]].
  - destruct (source_ok val var odesc parser store fail_write parsed excl cs src Hc H) as (p' & cs' & E & Ha).
    exists None, p', cs'. split; [assumption|]. eapply recorded_ok; eauto.
  - destruct (source_dup val var odesc parser store fail_write parsed excl cs src pre o v Hc H) as (p' & cs' & E0 & E).
    exists (Some (mkErr ERR_MULTIPLE o v)), p', cs'. split; [assumption|].
    destruct H as (post & _ & Hok & _).
    destruct (source_ok val var odesc parser store fail_write parsed excl cs pre Hc Hok) as (p2 & cs2 & E2 & Ha).
    rewrite E0 in E2. inversion E2; subst. eapply recorded_ok; eauto.
  - destruct (source_bad val var odesc parser store fail_write parsed excl cs src pre o v Hc H) as (p' & cs0 & cs' & E0 & E & Hj & Hs & Hv & _).
    exists (Some (mkErr ERR_INVALID_VALUE o v)), p', cs'. split; [assumption|].
    destruct H as (post & _ & Hok & _).
    destruct (source_ok val var odesc parser store fail_write parsed excl cs pre Hc Hok) as (p2 & cs2 & E2 & Ha).
    rewrite E0 in E2. inversion E2; subst.
    apply recorded_transport with (cs0 := cs2); [eapply recorded_ok; eauto|].
    intros j. destruct (Nat.eq_dec j o) as [->|Hne]; [auto | rewrite Hj by assumption; auto].
Qed.

(* ---------- histories ---------- *)
Lemma accepted_count1 o : forall src v,
  count_occ Nat.eq_dec (map fst src) o = 1%nat -> In (o, v) src ->
  accepted' o src = match parser o (eff' o v) with Some x => [x] | None => [] end.
Proof.
  induction src as [|[o' v'] r IH]; intros v Hc Hin; [destruct Hin|].
  simpl in Hc. destruct (Nat.eq_dec o' o) as [->|Hne].
  - assert (Hm : mentions o r = false).
    { destruct (mentions o r) eqn:E; [|reflexivity]. apply mentions_In in E. apply (count_occ_In Nat.eq_dec) in E. lia. }
    destruct Hin as [Heq|Hin].
    + inversion Heq; subst. rewrite accepted_cons_same, (accepted_not_mentioned val odesc parser o r Hm). now rewrite app_nil_r.
    + exfalso. assert (In o (map fst r)) by (apply in_map_iff; exists (o, v); auto).
      apply mentions_In in H. congruence.
  - destruct Hin as [Heq|Hin]; [inversion Heq; congruence|].
    rewrite accepted_cons_other by congruence. apply IH; assumption.
Qed.

Theorem first_wins : forall h parsed cs es p' cs' f,
  (forall o, clean' (cs o)) -> runs parsed cs h = (es, p', cs', f) -> all_none es ->
  f = false /\ (forall o, clean' (cs' o)) /\
  forall o, comp' o = false ->
    match (if mem o parsed then None else first_src o h) with
    | None => cs' o = cs o /\ mem o p' = mem o parsed
    | Some (_, src) =>
        mem o p' = true /\ c_state (cs' o) = VALUE_UNASSIGNED /\
        exists v x, In (o, v) src /\ count_occ Nat.eq_dec (map fst src) o = 1%nat /\ parser o (eff' o v) = Some x /\
                    c_vals (cs' o) = c_vals (cs o) ++ [x] /\ c_var (cs' o) = store o x (c_var (cs o))
    end.
Proof.
  induction h as [|[excl src] r IH]; intros parsed cs es p' cs' f Hc Hr Hn.
  - simpl in Hr. inversion Hr; subst. split; [reflexivity|]. split; [assumption|].
    intros o _. destruct (mem o p'); simpl; auto.
  - cbn [run_sources] in Hr.
    destruct (asrc parsed excl cs src) as [[[e p1] cs1] f1] eqn:Ea.
    destruct (runs p1 cs1 r) as [[[es2 p2] cs2] f2] eqn:Er.
    inversion Hr; subst. clear Hr. inversion Hn as [|? ? He Hn2]; subst.
    assert (Hok : src_ok' parsed excl src).
    { apply (no_error_iff parsed excl cs src Hc). rewrite Ea. reflexivity. }
    destruct (source_ok val var odesc parser store fail_write parsed excl cs src Hc Hok) as (p1' & cs1' & E1 & Ha).
    rewrite Ea in E1. inversion E1; subst p1' cs1' f1. clear E1.
    pose proof (after_source_clean val var odesc parser store parsed excl cs src p1 cs1 Hc Ha) as Hc1.
    destruct (IH p1 cs1 es2 p' cs' f2 Hc1 Er Hn2) as (Hf & Hcl & Hall). subst f2.
    split; [reflexivity|]. split; [assumption|].
    intros o Hco. specialize (Hall o Hco). destruct Ha as [Hp Hcs]. specialize (Hp o). specialize (Hcs o).
    unfold skipped in Hp, Hcs. rewrite Hco in Hp, Hcs. cbn [negb andb] in Hp, Hcs.
    destruct (mem o parsed) eqn:Em.
    + rewrite orb_true_r in Hcs. simpl in Hp, Hcs. rewrite Hp in Hall. rewrite Hcs in Hall. destruct Hall; split; congruence.
    + rewrite orb_false_r in Hp, Hcs. simpl in Hp. unfold first_src. cbn [find fst snd].
      destruct (is_excl excl o) eqn:Ee; cbn [negb andb orb] in *.
      * rewrite Hp in Hall. rewrite Hcs in Hall. exact Hall.
      * destruct (mentions o src) eqn:Emm; cbn [negb] in *.
        -- rewrite Hp in Hall. destruct Hall as [Hsame Hmem]. destruct Hcs as (A1 & A2 & A3).
           split; [assumption|]. rewrite Hsame. split; [assumption|].
           pose proof Emm as Hin. apply mentions_In in Hin. apply in_map_iff in Hin. destruct Hin as ([o' v] & Heq & Hin). simpl in Heq. subst o'.
           destruct Hok as [Hd Hv].
           assert (Hs : skipped' parsed excl o = false) by (unfold skipped; rewrite Hco, Ee, Em; reflexivity).
           assert (Hcnt : count_occ Nat.eq_dec (map fst src) o = 1%nat).
           { specialize (Hd o Hs Hco). assert (In o (map fst src)) by (apply in_map_iff; exists (o, v); auto).
             apply (count_occ_In Nat.eq_dec) in H. lia. }
           destruct (parser o (eff' o v)) as [x|] eqn:Ev; [|exfalso; eapply Hv; eauto].
           exists v, x. rewrite (accepted_count1 o src v Hcnt Hin), Ev in A2, A3. auto.
        -- rewrite Hp in Hall. rewrite Hcs in Hall. exact Hall.
Qed.

Lemma store_all_app o a b v : store_all' o (a ++ b) v = store_all' o b (store_all' o a v).
Proof. unfold store_all. apply fold_left_app. Qed.

Theorem composing_all : forall h parsed cs es p' cs' f,
  (forall o, clean' (cs o)) -> runs parsed cs h = (es, p', cs', f) -> all_none es ->
  forall o, comp' o = true ->
    c_vals (cs' o) = c_vals (cs o) ++ flat_map (fun es => accepted' o (snd es)) h /\
    c_var (cs' o) = store_all' o (flat_map (fun es => accepted' o (snd es)) h) (c_var (cs o)) /\
    mem o p' = mem o parsed || existsb (fun es => mentions o (snd es)) h.
Proof.
  induction h as [|[excl src] r IH]; intros parsed cs es p' cs' f Hc Hr Hn o Hco.
  - simpl in Hr. inversion Hr; subst. simpl. rewrite app_nil_r, orb_false_r. auto.
  - cbn [run_sources] in Hr.
    destruct (asrc parsed excl cs src) as [[[e p1] cs1] f1] eqn:Ea.
    destruct (runs p1 cs1 r) as [[[es2 p2] cs2] f2] eqn:Er.
    inversion Hr; subst. clear Hr. inversion Hn as [|? ? He Hn2]; subst.
    assert (Hok : src_ok' parsed excl src).
    { apply (no_error_iff parsed excl cs src Hc). rewrite Ea. reflexivity. }
    destruct (source_ok val var odesc parser store fail_write parsed excl cs src Hc Hok) as (p1' & cs1' & E1 & Ha).
    rewrite Ea in E1. inversion E1; subst p1' cs1' f1. clear E1.
    pose proof (after_source_clean val var odesc parser store parsed excl cs src p1 cs1 Hc Ha) as Hc1.
    destruct (IH p1 cs1 es2 p' cs' f2 Hc1 Er Hn2 o Hco) as (I1 & I2 & I3).
    destruct Ha as [Hp Hcs]. specialize (Hp o). specialize (Hcs o).
    unfold skipped in Hp, Hcs. rewrite Hco in Hp, Hcs. cbn [negb andb orb] in Hp, Hcs.
    cbn [flat_map existsb snd]. rewrite I3, Hp, orb_assoc. split; [|split; [|reflexivity]].
    + destruct (mentions o src) eqn:Em; cbn [negb] in Hcs.
      * destruct Hcs as (_ & A2 & _). rewrite I1, A2. now rewrite app_assoc.
      * rewrite I1, Hcs, (accepted_not_mentioned val odesc parser o src Em). reflexivity.
    + rewrite store_all_app. destruct (mentions o src) eqn:Em; cbn [negb] in Hcs.
      * destruct Hcs as (_ & _ & A3). rewrite I2, A3. reflexivity.
      * rewrite I2, Hcs, (accepted_not_mentioned val odesc parser o src Em). reflexivity.
Qed.

(* ---------- defaults ---------- *)
Lemma needs_upd parsed cs o c j d : j <> o -> (needs' parsed (updc cs o c) j d <-> needs' parsed cs j d).
Proof. intros H. unfold needs_default. now rewrite (upd_other val var cs o c j H). Qed.

Lemma defaults_ok : forall os parsed cs,
  NoDup os -> defaults_valid parsed cs os ->
  exists cs', adef parsed cs os = (None, cs') /\ after_defaults parsed cs cs' os.
Proof.
  induction os as [|o r IH]; intros parsed cs Hnd Hv.
  - exists cs. split; [reflexivity|]. intros o. split; [intros [] | reflexivity].
  - inversion Hnd as [|? ? Hnin Hnd']; subst. cbn [assign_defaults].
    assert (Hstep : forall c, (c = cs o \/ exists d x, needs' parsed cs o d /\ parser o (eff' o d) = Some x /\
                                     c = mkCell VALUE_DEFAULTED (c_vals (cs o) ++ [x]) (store o x (c_var (cs o)))) ->
                    (c = cs o -> forall d, ~ needs' parsed cs o d) ->
                    exists cs', adef parsed (updc cs o c) r = (None, cs') /\ after_defaults parsed cs cs' (o :: r)).
    { intros c Hc Hno.
      destruct (IH parsed (updc cs o c) Hnd') as (cs' & E & Ha).
      { intros j d Hj Hn. assert (j <> o) by (intros ->; contradiction). apply (needs_upd parsed cs o c j d H) in Hn. apply Hv; [now right | assumption]. }
      exists cs'. split; [assumption|]. intros j. destruct (Ha j) as [A1 A2].
      destruct (Nat.eq_dec j o) as [->|Hne].
      - assert (Hco : cs' o = c) by (rewrite A2 by (now left); apply upd_same).
        split.
        + intros _ d Hn. destruct Hc as [->|(d' & x & Hn' & Hp & ->)].
          * exfalso. eapply Hno; eauto.
          * destruct Hn as (_ & Hd & _). destruct Hn' as (_ & Hd' & _). assert (d' = d) by congruence. subst d'. eauto.
        + intros [Hni|Hnn]; [exfalso; apply Hni; now left|].
          destruct Hc as [->|(d' & x & Hn' & _)]; [assumption | exfalso; eapply Hnn; eauto].
      - split.
        + intros [->|Hj]; [congruence|]. intros d Hn. apply (needs_upd parsed cs o c j d Hne) in Hn.
          destruct (A1 Hj d Hn) as (x & Hp & Hx). rewrite (upd_other val var cs o c j Hne) in Hx. eauto.
        + intros Hor. rewrite A2; [apply upd_other; assumption|].
          destruct Hor as [Hni|Hnn]; [left; intros Hj; apply Hni; now right | right; intros d Hn; apply (needs_upd parsed cs o c j d Hne) in Hn; eapply Hnn; eauto]. }
    destruct (mem o parsed) eqn:Em.
    + destruct (IH parsed cs Hnd') as (cs' & E & Ha).
      { intros j d Hj. apply Hv. now right. }
      exists cs'. split; [assumption|]. intros j. destruct (Ha j) as [A1 A2]. split.
      * intros [->|Hj]; [intros d (Hm & _); congruence | auto].
      * intros Hor. destruct (Nat.eq_dec j o) as [->|Hne]; [apply A2; now left|].
        apply A2. destruct Hor as [Hni|Hnn]; [left; intros Hj; apply Hni; now right | now right].
    + unfold assign_default. destruct (o_dflt (odesc o)) as [d|] eqn:Ed.
      * destruct (c_state (cs o) =? VALUE_DEFAULTED) eqn:Es; cbn [negb].
        -- apply Z.eqb_eq in Es. apply Hstep; [now left|]. intros _ d' (_ & _ & Hne). contradiction.
        -- apply Z.eqb_neq in Es. assert (Hn : needs' parsed cs o d) by (repeat split; assumption).
           unfold value_parse. destruct (parser o (eff' o d)) as [x|] eqn:Ep; [|exfalso; eapply Hv; [now left | exact Hn | exact Ep]].
           apply Hstep; [right; exists d, x; auto|]. intros Heq. exfalso.
           assert (c_state (cs o) = VALUE_DEFAULTED) by (rewrite <- Heq; reflexivity). contradiction.
      * apply Hstep; [now left|]. intros _ d' (_ & Hd & _). congruence.
Qed.

Lemma defaults_app : forall pre rest parsed cs cs0,
  adef parsed cs pre = (None, cs0) -> adef parsed cs (pre ++ rest) = adef parsed cs0 rest.
Proof.
  induction pre as [|o r IH]; intros rest parsed cs cs0 H.
  - simpl in H. inversion H; subst. reflexivity.
  - simpl app. cbn [assign_defaults] in *. destruct (mem o parsed); [now apply IH|].
    destruct (assign_default val var odesc parser store fail_write o (cs o)) as [ok c].
    destruct ok; [now apply IH | discriminate].
Qed.

Theorem defaults_err os pre o d post parsed cs :
  NoDup os -> os = pre ++ o :: post -> defaults_valid parsed cs pre ->
  needs' parsed cs o d -> parser o (eff' o d) = None ->
  exists cs0 cs', adef parsed cs pre = (None, cs0) /\ after_defaults parsed cs cs0 pre /\
                  adef parsed cs os = (Some (mkErr ERR_INVALID_DEFAULT o d), cs') /\
                  (forall j, j <> o -> cs' j = cs0 j) /\
                  c_state (cs' o) = c_state (cs o) /\ c_vals (cs' o) = c_vals (cs o) /\
                  c_var (cs' o) = fail_write o (eff' o d) (c_var (cs o)).
Proof.
  intros Hnd -> Hv Hn Hp.
  assert (Hnd1 : NoDup pre) by (apply NoDup_app_l in Hnd; assumption).
  assert (Hni : ~ In o pre).
  { intros Hin. apply NoDup_remove_2 in Hnd. apply Hnd. apply in_or_app. now left. }
  destruct (defaults_ok pre parsed cs Hnd1 Hv) as (cs0 & E & Ha).
  assert (Hco : cs0 o = cs o) by (apply Ha; now left).
  destruct Hn as (Hm & Hd & Hs).
  exists cs0. eexists. split; [exact E|]. split; [exact Ha|].
  rewrite (defaults_app pre (o :: post) parsed cs cs0 E). cbn [assign_defaults]. rewrite Hm.
  unfold assign_default. rewrite Hd, Hco. apply Z.eqb_neq in Hs. rewrite Hs. cbn [negb].
  unfold value_parse. rewrite Hp. split; [reflexivity|].
  split; [intros j Hne; now apply upd_other|]. rewrite upd_same. auto.
Qed.

Lemma defaults_dichotomy parsed cs : forall os,
  defaults_valid parsed cs os \/
  exists pre o d post, os = pre ++ o :: post /\ defaults_valid parsed cs pre /\ needs' parsed cs o d /\ parser o (eff' o d) = None.
Proof.
  induction os as [|o l IH] using rev_ind.
  - left. intros ? ? [].
  - destruct IH as [Hv | (pre & o' & d & post & -> & H)].
    + destruct (mem o parsed) eqn:Em.
      { left. intros j d Hin Hn. apply in_app_or in Hin. destruct Hin as [Hin|[<-|[]]]; [eauto|]. destruct Hn as (Hm & _). congruence. }
      destruct (o_dflt (odesc o)) as [d|] eqn:Ed.
      2:{ left. intros j d Hin Hn. apply in_app_or in Hin. destruct Hin as [Hin|[<-|[]]]; [eauto|]. destruct Hn as (_ & Hd & _). congruence. }
      destruct (Z.eq_dec (c_state (cs o)) VALUE_DEFAULTED) as [Es|Es].
      { left. intros j d' Hin Hn. apply in_app_or in Hin. destruct Hin as [Hin|[<-|[]]]; [eauto|]. destruct Hn as (_ & _ & Hs). contradiction. }
      destruct (parser o (eff' o d)) eqn:Ep.
      * left. intros j d' Hin Hn. apply in_app_or in Hin. destruct Hin as [Hin|[<-|[]]]; [eauto|].
        destruct Hn as (_ & Hd & _). assert (d' = d) by congruence. subst. congruence.
      * right. exists l, o, d, []. repeat split; assumption.
    + right. exists pre, o', d, (post ++ [o]). split; [now rewrite <- app_assoc | exact H].
Qed.

(* ---------- implicit value ---------- *)
Theorem implicit_used o i x parsed excl cs :
  (forall j, clean' (cs j)) -> skipped' parsed excl o = false ->
  o_impl (odesc o) = Some i -> parser o i = Some x ->
  exists p' cs', asrc parsed excl cs [(o, [])] = (None, p', cs', false) /\ mem o p' = true /\
                 c_state (cs' o) = VALUE_UNASSIGNED /\ c_vals (cs' o) = c_vals (cs o) ++ [x] /\
                 c_var (cs' o) = store o x (c_var (cs o)) /\ forall j, j <> o -> cs' j = cs j.
Proof.
  intros Hc Hs Hi Hp.
  assert (He : eff' o [] = i) by (unfold eff; now rewrite Hi).
  assert (Hok : src_ok' parsed excl [(o, [])]).
  { split.
    - intros j _ _. simpl. destruct (Nat.eq_dec o j); lia.
    - intros j w [Heq|[]] _. inversion Heq; subst j w. rewrite He. congruence. }
  destruct (source_ok val var odesc parser store fail_write parsed excl cs [(o, [])] Hc Hok) as (p' & cs' & E & Hpm & Hcs).
  exists p', cs'. split; [assumption|].
  pose proof (Hcs o) as Ho. rewrite Hs in Ho. unfold mentions in Ho. simpl in Ho. rewrite Nat.eqb_refl in Ho. simpl in Ho.
  destruct Ho as (A1 & A2 & A3). rewrite Hi, Hp in A2, A3. simpl in A2, A3.
  split; [rewrite Hpm, Hs; unfold mentions; simpl; rewrite Nat.eqb_refl; simpl; apply orb_true_r|].
  repeat split; try assumption.
  intros j Hne. specialize (Hcs j). unfold mentions in Hcs. simpl in Hcs. apply Nat.eqb_neq in Hne. rewrite Hne in Hcs. simpl in Hcs.
  now rewrite orb_true_r in Hcs.
Qed.
End P2.
