(* C15 - sources filled BY NAME (ParsedValues::add(const std::string&, const std::string&)): a by-name pair denotes a pair of the
   source iff its key (as a C string) EQUALS a key of the context's index; any other key disappears from the source. *)
Require Import V.Lib.Base V.Gen.Consts_C15 V.C15.Model.
Require Import Lia.
Local Open Scope Z_scope.

(* k is a key under which the index of a context holds option id: its long name, or "-a" for its alias character a *)
Definition key_of (id : nat) (k : str) : Prop := k = opt_name id \/ exists a, opt_alias id = Some a /\ k = [45; a].

Lemma is_key_spec id k : is_key id k = true <-> key_of id k.
Proof.
  unfold is_key, key_of. rewrite orb_true_iff, list_eqb_eq. split.
  - intros [H|H]; [left; exact H|]. destruct (opt_alias id) as [a|]; [|discriminate].
    right. exists a. split; [reflexivity|]. now apply list_eqb_eq.
  - intros [H|[a [Ha Hk]]]; [left; exact H|]. right. rewrite Ha. now apply list_eqb_eq.
Qed.

Lemma is_key_false id k : is_key id k = false <-> ~ key_of id k.
Proof.
  rewrite <- is_key_spec. destruct (is_key id k); split; intros H; try reflexivity; try discriminate.
  exfalso. apply H. reflexivity.
Qed.

Lemma find_seq_some (f : nat -> bool) n : forall a id,
  find f (seq a n) = Some id <->
  ((a <= id < a + n)%nat /\ f id = true /\ forall j, (a <= j < id)%nat -> f j = false).
Proof.
  induction n as [|n IH]; intros a id; cbn [seq find].
  - split; [discriminate|]. intros [H _]. lia.
  - destruct (f a) eqn:Fa.
    + split.
      * intros H. inversion H; subst. split; [lia|]. split; [exact Fa|]. intros j Hj. lia.
      * intros [Hr [Hf Hm]]. destruct (Nat.eq_dec a id) as [->|Hne]; [reflexivity|].
        rewrite (Hm a) in Fa by lia. discriminate.
    + rewrite IH. split.
      * intros [Hr [Hf Hm]]. split; [lia|]. split; [exact Hf|]. intros j Hj.
        destruct (Nat.eq_dec j a) as [->|Hne]; [exact Fa|]. apply Hm. lia.
      * intros [Hr [Hf Hm]]. assert (a <> id) by (intros ->; congruence).
        split; [lia|]. split; [exact Hf|]. intros j Hj. apply Hm. lia.
Qed.

Lemma find_seq_none (f : nat -> bool) n : forall a,
  find f (seq a n) = None <-> forall id, (a <= id < a + n)%nat -> f id = false.
Proof.
  induction n as [|n IH]; intros a; cbn [seq find].
  - split; [intros _ id H; lia|reflexivity].
  - destruct (f a) eqn:Fa.
    + split; [discriminate|]. intros H. rewrite (H a) in Fa by lia. discriminate.
    + rewrite IH. split.
      * intros H id Hid. destruct (Nat.eq_dec id a) as [->|Hne]; [exact Fa|]. apply H. lia.
      * intros H id Hid. apply H. lia.
Qed.

Lemma by_name_exact_only n key v :
  match resolve n key with
  | Some id => denote_pair n (inr (key, v)) = [(id, v)] /\ (id < n)%nat /\ key_of id (cstr key) /\
               (forall j, (j < id)%nat -> ~ key_of j (cstr key))
  | None => denote_pair n (inr (key, v)) = [] /\ forall id, (id < n)%nat -> ~ key_of id (cstr key)
  end.
Proof.
  unfold denote_pair. destruct (resolve n key) as [id|] eqn:R; unfold resolve in R.
  - apply find_seq_some in R. destruct R as [Hr [Hf Hm]]. split; [reflexivity|]. split; [lia|].
    split; [now apply is_key_spec|]. intros j Hj. apply is_key_false. apply Hm. lia.
  - split; [reflexivity|]. intros id Hid. apply is_key_false. rewrite find_seq_none in R. apply R. lia.
Qed.

(* conversely: the FIRST option (declaration order) one of whose keys equals the key is the one the pair denotes *)
Lemma by_name_key_denotes n key v id :
  (id < n)%nat -> key_of id (cstr key) -> (forall j, (j < id)%nat -> ~ key_of j (cstr key)) ->
  denote_pair n (inr (key, v)) = [(id, v)].
Proof.
  intros Hn Hk Hm. unfold denote_pair.
  assert (R : resolve n key = Some id).
  { unfold resolve. apply find_seq_some. split; [lia|]. split; [now apply is_key_spec|].
    intros j Hj. apply is_key_false. apply Hm. lia. }
  now rewrite R.
Qed.

(* a source is decoded pair by pair: by-pointer pairs stay, by-name pairs with a non-key vanish *)
Lemma denote_src_app n a b : denote_src n (a ++ b) = denote_src n a ++ denote_src n b.
Proof. unfold denote_src. apply flat_map_app. Qed.

Lemma denote_src_drop n a key v b :
  (forall id, (id < n)%nat -> ~ key_of id (cstr key)) ->
  denote_src n (a ++ inr (key, v) :: b) = denote_src n (a ++ b).
Proof.
  intros H. rewrite !denote_src_app. f_equal. unfold denote_src at 1. cbn [flat_map].
  pose proof (by_name_exact_only n key v) as S. destruct (resolve n key) as [id|] eqn:R.
  - destruct S as [_ [Hn [Hk _]]]. exfalso. exact (H id Hn Hk).
  - destruct S as [E _]. rewrite E. reflexivity.
Qed.
