(* C15 - proofs about the assignment model. *)
Require Import V.Lib.Base V.Gen.Consts_C15 V.C15.Model V.C15.Spec.
Local Open Scope Z_scope.

Lemma mem_In o l : mem o l = true <-> In o l.
Proof.
  unfold mem. rewrite existsb_exists. split.
  - intros (x & Hx & He). apply Nat.eqb_eq in He. now subst.
  - intros H. exists o. split; [assumption | apply Nat.eqb_refl].
Qed.

Lemma mem_cons o a l : mem o (a :: l) = Nat.eqb o a || mem o l.
Proof. reflexivity. Qed.

Lemma mem_insert j o l : mem j (insert o l) = Nat.eqb j o || mem j l.
Proof.
  unfold insert. destruct (mem o l) eqn:E; [|apply mem_cons].
  destruct (Nat.eqb_spec j o); [subst; now rewrite E | reflexivity].
Qed.

Lemma mem_app o a b : mem o (a ++ b) = mem o a || mem o b.
Proof. unfold mem. apply existsb_app. Qed.

Lemma fixed_ne_unassigned : (VALUE_UNASSIGNED =? VALUE_FIXED) = false. Proof. reflexivity. Qed.
Lemma fixed_ne_defaulted : (VALUE_DEFAULTED =? VALUE_FIXED) = false. Proof. reflexivity. Qed.
Lemma land_fixed_unassigned : Z.land VALUE_FIXED VALUE_UNASSIGNED = 0. Proof. reflexivity. Qed.
Lemma land_fixed_defaulted : Z.land VALUE_FIXED VALUE_DEFAULTED = 0. Proof. reflexivity. Qed.
Lemma land_fixed_fixed : (Z.land VALUE_FIXED VALUE_FIXED =? 0) = false. Proof. reflexivity. Qed.
Lemma err_multi_code : 1 + ERR_MULTIPLE - 1 = ERR_MULTIPLE. Proof. reflexivity. Qed.
Lemma err_invalid_code : 1 + ERR_INVALID_VALUE - 1 = ERR_INVALID_VALUE. Proof. reflexivity. Qed.
Lemma err_multi_nz : (1 + ERR_MULTIPLE =? 0) = false. Proof. reflexivity. Qed.
Lemma err_invalid_nz : (1 + ERR_INVALID_VALUE =? 0) = false. Proof. reflexivity. Qed.
Lemma err_codes_differ : ERR_MULTIPLE <> ERR_INVALID_VALUE. Proof. discriminate. Qed.
Lemma defaulted_refl : (VALUE_DEFAULTED =? VALUE_DEFAULTED) = true. Proof. reflexivity. Qed.

Section P.
Variables val var : Type.
Variable odesc : nat -> opt.
Variable parser : nat -> str -> option val.
Variable store : nat -> val -> var -> var.
Variable fail_write : nat -> str -> var -> var.

Notation cellT := (@cell val var).
Notation cellsT := (nat -> cellT).
Notation loop := (assign_loop val var odesc parser store fail_write).
Notation grd := (guard val var).
Notation asrc := (assign_source val var odesc parser store fail_write).
Notation adef := (assign_defaults val var odesc parser store fail_write).
Notation runs := (run_sources val var odesc parser store fail_write).
Notation vparse := (value_parse val var odesc parser store fail_write).
Notation updc := (upd val var).
Notation eff' := (eff odesc).
Notation comp' := (comp odesc).
Notation skipped' := (skipped odesc).
Notation accepted' := (accepted val odesc parser).
Notation src_ok' := (src_ok val odesc parser).
Notation clean' := (clean val var).
Notation store_all' := (store_all val var store).
Notation fixedb c := (c_state c =? VALUE_FIXED).
Notation after_source := (Spec.after_source val var odesc parser store).

Definition wf (c : cellT) : Prop := clean' c \/ c_state c = VALUE_FIXED.

Lemma clean_not_fixed c : clean' c -> fixedb c = false.
Proof. intros [H|H]; rewrite H; reflexivity. Qed.

Lemma wf_land c : wf c -> (Z.land VALUE_FIXED (c_state c) =? 0) = negb (fixedb c).
Proof. intros [[H|H]|H]; rewrite H; reflexivity. Qed.

Lemma upd_same cs o c : updc cs o c o = c.
Proof. unfold upd. now rewrite Nat.eqb_refl. Qed.
Lemma upd_other cs o c j : j <> o -> updc cs o c j = cs j.
Proof. unfold upd. intros H. apply Nat.eqb_neq in H. now rewrite H. Qed.

Lemma mentions_cons j o v r : mentions j ((o, v) :: r) = Nat.eqb j o || mentions j r.
Proof. reflexivity. Qed.

Lemma accepted_cons_same o v r :
  accepted' o ((o, v) :: r) = match parser o (eff' o v) with Some x => [x] | None => [] end ++ accepted' o r.
Proof. unfold accepted. simpl. now rewrite Nat.eqb_refl. Qed.

Lemma accepted_cons_other j o v r : j <> o -> accepted' j ((o, v) :: r) = accepted' j r.
Proof. unfold accepted. simpl. intros H. apply Nat.eqb_neq in H. rewrite Nat.eqb_sym in H. now rewrite H. Qed.

Lemma accepted_not_mentioned j r : mentions j r = false -> accepted' j r = [].
Proof.
  induction r as [|[o v] r IH]; [reflexivity|].
  rewrite mentions_cons. intros H. apply orb_false_iff in H. destruct H as [H1 H2].
  apply Nat.eqb_neq in H1. rewrite accepted_cons_other by assumption. auto.
Qed.

Lemma accepted_app j a b : accepted' j (a ++ b) = accepted' j a ++ accepted' j b.
Proof. unfold accepted. apply flat_map_app. Qed.

(* generalised well-formedness: cells that are already fixed count as one occurrence *)
Definition gen_ok (parsed : list nat) (excl : option (list nat)) (cs : cellsT) (src : list (nat * str)) : Prop :=
  (forall o, skipped' parsed excl o = false -> comp' o = false ->
             (count_occ Nat.eq_dec (map fst src) o + (if fixedb (cs o) then 1 else 0) <= 1)%nat) /\
  (forall o v, In (o, v) src -> skipped' parsed excl o = false -> parser o (eff' o v) <> None).

Definition after_loop (parsed : list nat) (excl : option (list nat)) (cs cs' : cellsT) (src : list (nat * str)) : Prop :=
  forall j, if skipped' parsed excl j || negb (mentions j src) then cs' j = cs j
            else c_state (cs' j) = VALUE_FIXED /\ c_vals (cs' j) = c_vals (cs j) ++ accepted' j src /\
                 c_var (cs' j) = store_all' j (accepted' j src) (c_var (cs j)).

Lemma loop_ok parsed excl : forall src cs,
  (forall o, wf (cs o)) -> gen_ok parsed excl cs src ->
  exists cs', loop parsed excl cs src = (None, cs', map fst src) /\ after_loop parsed excl cs cs' src /\ (forall o, wf (cs' o)).
Proof.
  induction src as [|[o v] r IH]; intros cs Hwf [Hdup Hval].
  - exists cs. split; [reflexivity|]. split; [|assumption]. intros j. now rewrite orb_true_r.
  - cbn [assign_loop].
    destruct (is_excl excl o && negb (o_comp (odesc o))) eqn:Ex.
    + (* excluded *)
      assert (Hs : skipped' parsed excl o = true).
      { unfold skipped, comp. apply andb_true_iff in Ex. destruct Ex as [E1 E2]. rewrite E1, E2. reflexivity. }
      destruct (IH cs Hwf) as (cs' & Hl & Ha & Hw).
      { split.
        - intros j Hj Hc. specialize (Hdup j Hj Hc). simpl in Hdup.
          destruct (Nat.eq_dec o j); [subst; congruence | assumption].
        - intros j w Hin. apply Hval. now right. }
      exists cs'. rewrite Hl. split; [reflexivity|]. split; [|assumption].
      intros j. specialize (Ha j). rewrite mentions_cons.
      destruct (Nat.eqb_spec j o) as [->|Hne].
      * rewrite Hs in *. cbn [orb negb] in *. assumption.
      * cbn [orb]. destruct (skipped' parsed excl j || negb (mentions j r)) eqn:E; [assumption|].
        now rewrite accepted_cons_other.
    + unfold assign_opt.
      destruct (negb (o_comp (odesc o)) && mem o parsed) eqn:Ep.
      * (* already parsed *)
        assert (Hs : skipped' parsed excl o = true).
        { unfold skipped, comp. apply andb_true_iff in Ep. destruct Ep as [E1 E2]. rewrite E1, E2. now rewrite orb_true_r. }
        rewrite Z.eqb_refl.
        destruct (IH cs Hwf) as (cs' & Hl & Ha & Hw).
        { split.
          - intros j Hj Hc. specialize (Hdup j Hj Hc). simpl in Hdup.
            destruct (Nat.eq_dec o j); [subst; congruence | assumption].
          - intros j w Hin. apply Hval. now right. }
        exists cs'. rewrite Hl. split; [reflexivity|]. split; [|assumption].
        intros j. specialize (Ha j). rewrite mentions_cons.
        destruct (Nat.eqb_spec j o) as [->|Hne].
        -- rewrite Hs in *. cbn [orb negb] in *. assumption.
        -- cbn [orb]. destruct (skipped' parsed excl j || negb (mentions j r)) eqn:E; [assumption|].
           now rewrite accepted_cons_other.
      * (* not ignored *)
        assert (Hs : skipped' parsed excl o = false).
        { unfold skipped, comp. destruct (o_comp (odesc o)); simpl in *; [reflexivity|].
          rewrite andb_true_r in Ex. rewrite Ex, Ep. reflexivity. }
        assert (Hbad : ((if o_comp (odesc o) then 0 else Z.land VALUE_FIXED (c_state (cs o))) =? 0) = true).
        { destruct (o_comp (odesc o)) eqn:Ec; [reflexivity|].
          rewrite wf_land by apply Hwf.
          specialize (Hdup o Hs Ec). simpl in Hdup. destruct (Nat.eq_dec o o); [|congruence].
          destruct (fixedb (cs o)); [lia | reflexivity]. }
        rewrite Hbad. cbn [negb].
        unfold value_parse.
        destruct (parser o (eff' o v)) as [x|] eqn:Ev; [|exfalso; eapply Hval; [left; reflexivity | exact Hs | exact Ev]].
        rewrite Z.eqb_refl.
        set (c1 := mkCell VALUE_FIXED (c_vals (cs o) ++ [x]) (store o x (c_var (cs o)))).
        destruct (IH (updc cs o c1)) as (cs' & Hl & Ha & Hw).
        { intros j. destruct (Nat.eq_dec j o) as [->|Hne]; [rewrite upd_same; right; reflexivity | rewrite upd_other by assumption; apply Hwf]. }
        { split.
          - intros j Hj Hc. specialize (Hdup j Hj Hc). simpl in Hdup.
            destruct (Nat.eq_dec o j) as [<-|Hne].
            + rewrite upd_same. simpl. lia.
            + rewrite upd_other by congruence. assumption.
          - intros j w Hin. apply Hval. now right. }
        exists cs'. rewrite Hl. split; [reflexivity|]. split; [|assumption].
        intros j. specialize (Ha j). rewrite mentions_cons.
        destruct (Nat.eqb_spec j o) as [->|Hne].
        -- rewrite Hs in *. cbn [orb negb] in *. rewrite upd_same in Ha.
           rewrite accepted_cons_same, Ev.
           destruct (mentions o r) eqn:Em; cbn [negb] in Ha.
           ++ destruct Ha as (A1 & A2 & A3). split; [assumption|]. split.
              ** rewrite A2. unfold c1. cbn [c_vals]. now rewrite <- app_assoc.
              ** rewrite A3. reflexivity.
           ++ rewrite Ha. rewrite (accepted_not_mentioned o r Em). unfold c1. cbn [c_state c_vals c_var]. rewrite app_nil_r. auto.
        -- cbn [orb]. rewrite upd_other in Ha by assumption.
           destruct (skipped' parsed excl j || negb (mentions j r)) eqn:E; [assumption|].
           now rewrite accepted_cons_other.
Qed.

(* the scope guard's destructor *)
Lemma guard_spec excl : forall done parsed cs f,
  exists p' cs' f', grd excl parsed cs done f = (p', cs', f') /\
    (forall j, mem j p' = mem j parsed || (mem j done && fixedb (cs j))) /\
    (forall j, cs' j = if mem j done && fixedb (cs j) then set_state val var (cs j) VALUE_UNASSIGNED else cs j) /\
    ((forall j, In j done -> fixedb (cs j) || mem j parsed || is_excl excl j = true) -> f' = f).
Proof.
  induction done as [|o r IH]; intros parsed cs f.
  - exists parsed, cs, f. split; [reflexivity|]. repeat split; intros; try reflexivity. now rewrite orb_false_r.
  - cbn [guard].
    destruct (fixedb (cs o)) eqn:Ef.
    + destruct (IH (insert o parsed) (updc cs o (set_state val var (cs o) VALUE_UNASSIGNED))
                   (f || (negb true && negb (mem o parsed) && negb (is_excl excl o)))) as (p' & cs' & f' & Hg & Hp & Hc & Hf).
      exists p', cs', f'. split; [exact Hg|]. split; [|split].
      * intros j. rewrite Hp, mem_insert, mem_cons.
        destruct (Nat.eqb_spec j o) as [->|Hne].
        -- rewrite Ef. simpl. now rewrite orb_true_r.
        -- rewrite upd_other by assumption. simpl. reflexivity.
      * intros j. rewrite Hc, mem_cons.
        destruct (Nat.eqb_spec j o) as [->|Hne].
        -- rewrite upd_same, Ef. simpl. now rewrite andb_false_r.
        -- rewrite upd_other by assumption. reflexivity.
      * intros Hall. simpl in Hf. rewrite orb_false_r in Hf. apply Hf.
        intros j Hj. destruct (Nat.eq_dec j o) as [->|Hne].
        -- rewrite mem_insert, Nat.eqb_refl. simpl. now rewrite orb_true_r.
        -- rewrite upd_other by assumption. rewrite mem_insert.
           specialize (Hall j (or_intror Hj)).
           destruct (fixedb (cs j)); [reflexivity|]. destruct (mem j parsed); [now rewrite orb_true_r|].
           simpl in *. now rewrite Hall, orb_true_r.
    + destruct (IH parsed cs (f || (negb false && negb (mem o parsed) && negb (is_excl excl o)))) as (p' & cs' & f' & Hg & Hp & Hc & Hf).
      exists p', cs', f'. split; [exact Hg|]. split; [|split].
      * intros j. rewrite Hp, mem_cons.
        destruct (Nat.eqb_spec j o) as [->|Hne]; [rewrite Ef; simpl; now rewrite andb_false_r | reflexivity].
      * intros j. rewrite Hc, mem_cons.
        destruct (Nat.eqb_spec j o) as [->|Hne]; [rewrite Ef; simpl; now rewrite andb_false_r | reflexivity].
      * intros Hall. rewrite Hf by (intros j Hj; apply Hall; now right).
        specialize (Hall o (or_introl eq_refl)). rewrite Ef in Hall. simpl in Hall.
        apply orb_true_iff in Hall. destruct Hall as [H|H]; rewrite H; simpl; [apply orb_false_r | rewrite andb_false_r; apply orb_false_r].
Qed.

Lemma mentions_In j src : mentions j src = true <-> In j (map fst src).
Proof. apply mem_In. Qed.

Lemma clean_gen_ok parsed excl cs src :
  (forall o, clean' (cs o)) -> src_ok' parsed excl src -> gen_ok parsed excl cs src.
Proof.
  intros Hc [H1 H2]. split; [|assumption].
  intros o Hs Hco. rewrite (clean_not_fixed _ (Hc o)). specialize (H1 o Hs Hco). lia.
Qed.

(* what the loop and the guard do together on a fine source, from an arbitrary intermediate view *)
Lemma source_ok_full parsed excl cs src :
  (forall o, clean' (cs o)) -> src_ok' parsed excl src ->
  exists cs1 p' cs', loop parsed excl cs src = (None, cs1, map fst src) /\ after_loop parsed excl cs cs1 src /\
    grd excl parsed cs1 (map fst src) false = (p', cs', false) /\ after_source parsed excl cs src p' cs' /\
    (forall j, cs' j = if mem j (map fst src) && fixedb (cs1 j) then set_state val var (cs1 j) VALUE_UNASSIGNED else cs1 j).
Proof.
  intros Hc Hok.
  destruct (loop_ok parsed excl src cs) as (cs1 & Hl & Ha & Hw).
  { intros o. left. apply Hc. } { now apply clean_gen_ok. }
  destruct (guard_spec excl (map fst src) parsed cs1 false) as (p' & cs' & f' & Hg & Hp & Hcs & Hf).
  assert (f' = false) as ->.
  { apply Hf. intros j Hj. apply mentions_In in Hj. specialize (Ha j). rewrite Hj in Ha. simpl in Ha. rewrite orb_false_r in Ha.
    destruct (skipped' parsed excl j) eqn:Es.
    - unfold skipped in Es. apply andb_true_iff in Es. destruct Es as [_ Es].
      apply orb_true_iff in Es. destruct Es as [E|E]; rewrite E; [apply orb_true_r | now rewrite orb_true_r].
    - destruct Ha as (A1 & _). rewrite A1. reflexivity. }
  exists cs1, p', cs'. repeat split; try assumption.
  - intros j. rewrite Hp. f_equal. specialize (Ha j). fold (mentions j src).
    destruct (skipped' parsed excl j) eqn:Es; simpl in *.
    + rewrite Ha, (clean_not_fixed _ (Hc j)). apply andb_false_r.
    + destruct (mentions j src); simpl in *; [destruct Ha as (A1 & _); rewrite A1; reflexivity | reflexivity].
  - intros j. rewrite Hcs. specialize (Ha j). fold (mentions j src).
    destruct (skipped' parsed excl j || negb (mentions j src)) eqn:E.
    + rewrite Ha, (clean_not_fixed _ (Hc j)), andb_false_r. reflexivity.
    + apply orb_false_iff in E. destruct E as [_ E]. apply negb_false_iff in E. rewrite E.
      destruct Ha as (A1 & A2 & A3). rewrite A1. simpl. auto.
Qed.

(* T1: a source without duplicate / refused pair *)
Theorem source_ok parsed excl cs src :
  (forall o, clean' (cs o)) -> src_ok' parsed excl src ->
  exists p' cs', asrc parsed excl cs src = (None, p', cs', false) /\ after_source parsed excl cs src p' cs'.
Proof.
  intros Hc Hok. destruct (source_ok_full parsed excl cs src Hc Hok) as (cs1 & p' & cs' & Hl & _ & Hg & Ha & _).
  exists p', cs'. unfold assign_source. rewrite Hl, Hg. auto.
Qed.

Lemma after_source_clean parsed excl cs src p' cs' :
  (forall o, clean' (cs o)) -> after_source parsed excl cs src p' cs' -> forall o, clean' (cs' o).
Proof.
  intros Hc [_ H] o. specialize (H o).
  destruct (skipped' parsed excl o || negb (mentions o src)); [rewrite H; apply Hc | left; apply H].
Qed.

Lemma loop_app parsed excl : forall pre rest cs cs1 d1,
  loop parsed excl cs pre = (None, cs1, d1) ->
  loop parsed excl cs (pre ++ rest) = (let '(e, cs2, d2) := loop parsed excl cs1 rest in (e, cs2, d1 ++ d2)).
Proof.
  induction pre as [|[o v] r IH]; intros rest cs cs1 d1 H.
  - simpl in H. inversion H; subst. simpl. now destruct (loop parsed excl cs1 rest) as [[? ?] ?].
  - simpl app. cbn [assign_loop] in *.
    destruct (is_excl excl o && negb (o_comp (odesc o))).
    + destruct (loop parsed excl cs r) as [[e c] d] eqn:El. inversion H; subst.
      rewrite (IH rest cs cs1 d El). now destruct (loop parsed excl cs1 rest) as [[? ?] ?].
    + destruct (assign_opt val var odesc parser store fail_write parsed cs o v) as [ret c1].
      destruct (ret =? 0); [|discriminate].
      destruct (loop parsed excl c1 r) as [[e c] d] eqn:El. inversion H; subst.
      rewrite (IH rest c1 cs1 d El). now destruct (loop parsed excl cs1 rest) as [[? ?] ?].
Qed.

(* T2a: second occurrence of a non-composing option *)
Theorem source_dup parsed excl cs src pre o v :
  (forall j, clean' (cs j)) -> dup_at val odesc parser parsed excl src pre o v ->
  exists p' cs', asrc parsed excl cs pre = (None, p', cs', false) /\
                 asrc parsed excl cs src = (Some (mkErr ERR_MULTIPLE o v), p', cs', false).
Proof.
  intros Hc (post & -> & Hok & Hs & Hco & Hm).
  destruct (source_ok_full parsed excl cs pre Hc Hok) as (cs1 & p' & cs' & Hl & Hal & Hg & Ha & _).
  exists p', cs'. unfold assign_source. rewrite Hl, Hg. split; [reflexivity|].
  rewrite (loop_app parsed excl pre ((o, v) :: post) cs cs1 _ Hl).
  cbn [assign_loop].
  assert (Ex : is_excl excl o && negb (o_comp (odesc o)) = false).
  { unfold skipped, comp in Hs. unfold comp in Hco. rewrite Hco in *. simpl in *. apply orb_false_iff in Hs. destruct Hs as [-> _]. reflexivity. }
  rewrite Ex. unfold assign_opt.
  assert (Ep : negb (o_comp (odesc o)) && mem o parsed = false).
  { unfold skipped, comp in Hs. unfold comp in Hco. rewrite Hco in *. simpl in *. apply orb_false_iff in Hs. destruct Hs as [_ ->]. reflexivity. }
  rewrite Ep. unfold comp in Hco. rewrite Hco.
  specialize (Hal o). rewrite Hs, Hm in Hal. simpl in Hal. destruct Hal as (A1 & _).
  rewrite A1, land_fixed_fixed. cbn [negb]. rewrite err_multi_nz, err_multi_code, app_nil_r, Hg. reflexivity.
Qed.

(* T2b: refused value *)
Theorem source_bad parsed excl cs src pre o v :
  (forall j, clean' (cs j)) -> bad_at val odesc parser parsed excl src pre o v ->
  exists p' cs0 cs', asrc parsed excl cs pre = (None, p', cs0, false) /\
                 asrc parsed excl cs src = (Some (mkErr ERR_INVALID_VALUE o v), p', cs', false) /\
                 (forall j, j <> o -> cs' j = cs0 j) /\
                 c_state (cs' o) = c_state (cs0 o) /\ c_vals (cs' o) = c_vals (cs0 o) /\
                 c_var (cs' o) = fail_write o (eff' o v) (c_var (cs0 o)).
Proof.
  intros Hc (post & -> & Hok & Hs & Hcm & Hv).
  destruct (source_ok_full parsed excl cs pre Hc Hok) as (cs1 & p' & cs0 & Hl & Hal & Hg & Ha & Hcs0).
  unfold assign_source. rewrite Hl, Hg.
  rewrite (loop_app parsed excl pre ((o, v) :: post) cs cs1 _ Hl).
  cbn [assign_loop].
  assert (Ex : is_excl excl o && negb (o_comp (odesc o)) = false).
  { unfold skipped, comp in Hs. destruct (o_comp (odesc o)); simpl in *; [apply andb_false_r|]. apply orb_false_iff in Hs. destruct Hs as [-> _]. reflexivity. }
  rewrite Ex. unfold assign_opt.
  assert (Ep : negb (o_comp (odesc o)) && mem o parsed = false).
  { unfold skipped, comp in Hs. destruct (o_comp (odesc o)); simpl in *; [reflexivity|]. apply orb_false_iff in Hs. destruct Hs as [_ ->]. reflexivity. }
  rewrite Ep.
  assert (Hbad : ((if o_comp (odesc o) then 0 else Z.land VALUE_FIXED (c_state (cs1 o))) =? 0) = true).
  { destruct (o_comp (odesc o)) eqn:Ec; [reflexivity|].
    destruct Hcm as [Hcm|Hcm]; [unfold comp in Hcm; congruence|].
    specialize (Hal o). rewrite Hs, Hcm in Hal. simpl in Hal. rewrite Hal.
    destruct (Hc o) as [H|H]; rewrite H; reflexivity. }
  rewrite Hbad. cbn [negb]. unfold value_parse. rewrite Hv, err_invalid_nz, err_invalid_code, app_nil_r.
  set (c' := mkCell (c_state (cs1 o)) (c_vals (cs1 o)) (fail_write o (eff' o v) (c_var (cs1 o)))).
  destruct (guard_spec excl (map fst pre) parsed (updc cs1 o c') false) as (p2 & cs2 & f2 & Hg2 & Hp2 & Hcs2 & Hf2).
  destruct (guard_spec excl (map fst pre) parsed cs1 false) as (p1 & cs1' & f1 & Hg1 & Hp1 & Hcs1 & Hf1).
  rewrite Hg in Hg1. inversion Hg1; subst p1 cs1' f1. clear Hg1.
  assert (Hst : forall j, fixedb (updc cs1 o c' j) = fixedb (cs1 j)).
  { intros j. destruct (Nat.eq_dec j o) as [->|Hne]; [rewrite upd_same; reflexivity | now rewrite upd_other]. }
  rewrite Hg2.
  (* the guard's parsed set depends on states only; compute the list structurally *)
  assert (Hsame : forall done parsed0 csA csB f, (forall j, fixedb (csA j) = fixedb (csB j)) ->
            fst (fst (grd excl parsed0 csA done f)) = fst (fst (grd excl parsed0 csB done f)) /\
            snd (grd excl parsed0 csA done f) = snd (grd excl parsed0 csB done f)).
  { induction done as [|x r IHd]; intros parsed0 csA csB f Heq; [split; reflexivity|].
    cbn [guard]. rewrite (Heq x). destruct (fixedb (csB x)).
    - apply IHd. intros j. destruct (Nat.eq_dec j x) as [->|Hne]; [now rewrite !upd_same | now rewrite !upd_other].
    - apply IHd. assumption. }
  destruct (Hsame (map fst pre) parsed (updc cs1 o c') cs1 false Hst) as [Hp Hf].
  rewrite Hg2, Hg in Hp, Hf. simpl in Hp, Hf. subst p2 f2.
  exists p', cs0, cs2. split; [reflexivity|]. split; [reflexivity|].
  split; [|split; [|split]].
  - intros j Hne. rewrite Hcs2, Hcs0, Hst. rewrite upd_other by assumption. reflexivity.
  - rewrite Hcs2, Hcs0, Hst, upd_same. destruct (mem o (map fst pre) && fixedb (cs1 o)); reflexivity.
  - rewrite Hcs2, Hcs0, Hst, upd_same. destruct (mem o (map fst pre) && fixedb (cs1 o)); reflexivity.
  - rewrite Hcs2, Hcs0, Hst, upd_same. destruct (mem o (map fst pre) && fixedb (cs1 o)); reflexivity.
Qed.
End P.
