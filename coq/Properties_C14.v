(* C14 - option lookup resolves a key to the unique matching option or fails correctly.
   Model: V.C14.Model (mirrors src/program_options.cpp after the repairs 7f13f8a and 7f60224); spec: V.C14.Spec.
   `built c al`   : c is reachable from the empty context through add(group) / addAlias / add(context), refused calls
                    included; al = alias names accepted so far.
   `domain c al`  : names and alias names non-empty, bytes 1..126, not starting with '-'; alias characters 1..126, not '-'.
   `key_ok t key` : t is one of the four FindType values; name lookups: key non-empty and not starting with '-';
                    alias lookups: key = "c" or "-c" (c <> 0, c <> '-').
   `matches c al t key` : the ids of the OPTIONS that match, by brute force over the option list (alias names count as names). *)
Require Import V.Lib.Base V.Gen.Consts_C14 V.C14.Model V.C14.Spec V.C14.Proofs V.C14.Proofs2 V.C14.Proofs3 V.C14.Proofs4 V.C14.Proofs5.
Local Open Scope Z_scope.

(* [lower_bound k, upper_bound (k . CHAR_MAX)) of a sorted index over bytes 1..126 = exactly the entries with prefix k *)
Theorem c14_range : forall (k : list Z) (idx : list entry),
  sorted idx -> (forall e, In e idx -> Forall (fun b => 1 <= b <= 126) (fst e)) ->
  (lower_bound k idx <= upper_bound (k ++ [CHAR_MAX]) idx)%nat /\
  firstn (upper_bound (k ++ [CHAR_MAX]) idx - lower_bound k idx) (skipn (lower_bound k idx) idx)
  = filter (fun e => is_prefix k (fst e)) idx.
Proof. exact range_thm. Qed.
Print Assumptions c14_range.

(* the index of a reachable context is sorted and holds exactly the keys of its options *)
Theorem c14_index : forall c al, built c al ->
  sorted (index c) /\ forall k i, In (k, i) (index c) <-> is_key c al i k.
Proof. exact built_index. Qed.
Print Assumptions c14_index.

(* findImpl with any error mask: result determined by the computed range S, which covers exactly the matching options *)
Theorem c14_findimpl : forall c al t key m, built c al -> domain c al -> key_ok t key ->
  let M := matches c al t key in let S := find_range key t c in
  find_impl key t m c = outcome m S /\ covers c al S M /\ (S = [] <-> M = []) /\ (length S = 1%nat <-> length M = 1%nat).
Proof. exact find_impl_thm. Qed.
Print Assumptions c14_findimpl.

(* find: the unique matching option; Unknown iff none; Ambiguous (candidates = names of exactly the matching options) iff several *)
Theorem c14_find : forall c al t key, built c al -> domain c al -> key_ok t key ->
  let M := matches c al t key in
  (M = [] -> find key t c = Unknown) /\
  (forall i, M = [i] -> find key t c = Found i) /\
  ((2 <= length M)%nat -> exists S, find key t c = Ambiguous S /\ (2 <= length S)%nat /\ covers c al S M).
Proof. exact find_thm. Qed.
Print Assumptions c14_find.

Theorem c14_find_iff : forall c al t key, built c al -> domain c al -> key_ok t key ->
  let M := matches c al t key in
  (find key t c = Unknown <-> M = []) /\
  ((exists i, find key t c = Found i) <-> length M = 1%nat) /\
  ((exists S, find key t c = Ambiguous S) <-> (2 <= length M)%nat) /\
  find key t c <> NotFound.
Proof. exact find_iff. Qed.
Print Assumptions c14_find_iff.

(* tryFind: the option iff exactly one matches, end() in precisely the two other cases *)
Theorem c14_tryfind : forall c al t key, built c al -> domain c al -> key_ok t key ->
  let M := matches c al t key in
  (forall i, M = [i] -> try_find key t c = Some i) /\ (length M <> 1%nat -> try_find key t c = None).
Proof. exact tryfind_thm. Qed.
Print Assumptions c14_tryfind.

(* DefaultContext::getOption (eMask = 2 + !allowUnreg) *)
Theorem c14_getoption : forall c al t key allow, built c al -> domain c al -> key_ok t key ->
  let M := matches c al t key in
  (M = [] -> get_option allow key t c = if allow then NotFound else Unknown) /\
  (forall i, M = [i] -> get_option allow key t c = Found i) /\
  ((2 <= length M)%nat -> exists S, get_option allow key t c = Ambiguous S /\ covers c al S M).
Proof. intros c al t key allow Hb Hd Hk. exact (getoption_thm c al t key Hb Hd Hk allow). Qed.
Print Assumptions c14_getoption.

(* duplicates: insertOption / addAlias / add(group) are refused exactly when a key is taken; a refused insertion or
   alias leaves index and options unchanged; an accepted one adds exactly its keys *)
Theorem c14_duplicates_option : forall gid o c al, built c al -> oname o <> [] ->
  let r := insert_option gid o c in
  (snd r = false <-> (oalias o <> 0 /\ In (alias_key (oalias o)) (keys c)) \/ In (oname o) (keys c) \/ (oalias o <> 0 /\ oname o = alias_key (oalias o))) /\
  (snd r = false -> index (fst r) = index c /\ options (fst r) = options c) /\
  (snd r = true -> options (fst r) = options c ++ [o] /\ forall k, In k (keys (fst r)) <-> In k (opt_keys o) \/ In k (keys c)).
Proof. intros gid o c al Hb. apply (insert_option_thm gid o c al). apply built_inv. exact Hb. Qed.
Print Assumptions c14_duplicates_option.

Theorem c14_duplicates_alias : forall n i c al, built c al ->
  let r := add_alias n i c in
  (snd r <> None <-> (i < length (options c))%nat /\ n <> [] /\ In n (keys c)) /\
  (snd r <> None -> snd r = Some n /\ fst r = c) /\
  (snd r = None -> options (fst r) = options c /\
     forall k, In k (keys (fst r)) <-> ((i < length (options c))%nat /\ n <> [] /\ k = n) \/ In k (keys c)).
Proof. intros n i c al Hb. apply (add_alias_thm n i c al). apply built_inv. exact Hb. Qed.
Print Assumptions c14_duplicates_alias.

Theorem c14_duplicates_group : forall cap os c al, built c al -> names_nonempty os ->
  let r := add_group cap os c in
  (snd r = None <-> NoDup (group_keys os) /\ forall k, In k (group_keys os) -> ~ In k (keys c)) /\
  (snd r = None -> options (fst r) = options c ++ os /\ forall k, In k (keys (fst r)) <-> In k (group_keys os) \/ In k (keys c)).
Proof. intros cap os c al Hb. apply (add_group_thm cap os c al). apply built_inv. exact Hb. Qed.
Print Assumptions c14_duplicates_group.

(* ---- non-vacuity: a context with shared prefixes, an alias and an alias name sharing a prefix with its own option ---- *)
Definition s_number := [110;117;109;98;101;114].   (* number *)
Definition s_num := [110;117;109].                 (* num *)
Definition s_nut := [110;117;116].                 (* nut *)
Definition s_help := [104;101;108;112].            (* help *)
Definition ex_g := [mkOpt s_number 0; mkOpt s_nut 120; mkOpt s_help 104].
Definition ex_c1 := fst (add_group [71] ex_g empty_ctx).
Definition ex_ctx := fst (add_alias s_num 0 ex_c1).
Definition ex_al := alias_effect s_num 0 ex_c1 [].

Example ex_built : built ex_ctx ex_al.
Proof.
  apply b_alias. apply b_group; [apply b_empty|]. repeat constructor; discriminate.
Qed.
Example ex_domain : domain ex_ctx ex_al.
Proof.
  unfold domain. replace (options ex_ctx) with ex_g by (vm_compute; reflexivity).
  replace ex_al with [(s_num, 0%nat)] by (vm_compute; reflexivity).
  unfold name_ok, alias_ok, DASH, ex_g, s_num, s_number, s_nut, s_help.
  repeat (cbn [oname oalias fst hd]; match goal with
  | |- Forall _ [] => apply Forall_nil
  | |- Forall _ (_ :: _) => apply Forall_cons
  | |- _ /\ _ => split
  | |- _ \/ _ => first [left; reflexivity | right; split; [lia|discriminate]]
  | |- _ <> _ => discriminate
  | |- _ <= _ => lia
  end).
Qed.
Example ex_key_prefix : key_ok find_prefix [110;117;109]. Proof. split; [tauto|]. split; simpl; discriminate. Qed.
Example ex_key_alias : key_ok find_alias [120]. Proof. split; [tauto|]. exists 120. repeat split; try discriminate. left. reflexivity. Qed.
(* "num" is a prefix of the name and of the alias name of option 0 only: one match, found *)
Example ex_unique : matches ex_ctx ex_al find_prefix s_num = [0%nat] /\ find s_num find_prefix ex_ctx = Found 0.
Proof. vm_compute. split; reflexivity. Qed.
(* "nu" matches options 0 and 1: ambiguous, candidates num, number, nut *)
Example ex_ambiguous : matches ex_ctx ex_al find_name_or_prefix [110;117] = [0%nat; 1%nat] /\
  find [110;117] find_name_or_prefix ex_ctx = Ambiguous [(s_num, 0%nat); (s_number, 0%nat); (s_nut, 1%nat)].
Proof. vm_compute. split; reflexivity. Qed.
Example ex_unknown : matches ex_ctx ex_al find_name [110;117] = [] /\ find [110;117] find_name ex_ctx = Unknown /\ try_find [110;117] find_name ex_ctx = None.
Proof. vm_compute. repeat split; reflexivity. Qed.
Example ex_alias : matches ex_ctx ex_al find_alias [120] = [1%nat] /\ find [120] find_alias ex_ctx = Found 1 /\ find [45;120] find_alias ex_ctx = Found 1.
Proof. vm_compute. repeat split; reflexivity. Qed.
(* duplicates: the name "nut", the alias 'x' and the alias name "num" are taken; the refused option leaves no "-h" key behind *)
Example ex_dup : snd (add_group [72] [mkOpt s_nut 0] ex_ctx) = Some s_nut /\ snd (add_group [72] [mkOpt [97] 120] ex_ctx) = Some [97] /\
  snd (add_alias s_num 1 ex_ctx) = Some s_num /\ snd (add_group [72] [mkOpt s_num 122] ex_ctx) = Some s_num /\
  index (fst (add_group [72] [mkOpt s_num 122] ex_ctx)) = index ex_ctx.
Proof. vm_compute. repeat split; reflexivity. Qed.

(* ---- the boundary of the domain (why the hypotheses are there) ---- *)
(* bytes >= CHAR_MAX behind the key fall outside [k, k.CHAR_MAX]: the option "caf\xe9" is not found by its prefix "caf" *)
Example c14_highbyte_refuted :
  let c := fst (add_group [] [mkOpt [99;97;102;233] 0] empty_ctx) in
  matches c [] find_prefix [99;97;102] = [0%nat] /\ find [99;97;102] find_prefix c = Unknown.
Proof. vm_compute. split; reflexivity. Qed.
(* a long name that starts with '-' is indistinguishable from an alias key: "-x" is found by alias lookup of 'x' *)
Example c14_dash_name_outside_domain :
  let c := fst (add_group [] [mkOpt [45;120] 0] empty_ctx) in
  matches c [] find_alias [120] = [] /\ find [120] find_alias c = Found 0.
Proof. vm_compute. split; reflexivity. Qed.
