(* C14 - option lookup resolves a key to the unique matching option or fails correctly.
   Model: V.C14.Model (mirrors src/program_options.cpp after the repairs 42ca538 and d7a58a6); spec: V.C14.Spec.
   `built c al`   : c is reachable from the empty context through add(group) / addAlias / add(context), refused calls
                    included; al = alias names accepted so far.
   `domain c al`  : names and alias names non-empty, bytes 1..126, not starting with '-'; alias characters 1..126, not '-'.
   `key_ok t key` : t is one of the four FindType values; name lookups: key non-empty and not starting with '-';
                    alias lookups: key = "c" or "-c" (c <> 0, c <> '-').
   `matches c al t key` : the ids of the OPTIONS that match, by brute force over the option list (alias names count as names). *)
Require Import V.Lib.Base V.Gen.Consts_C14 V.C14.Model V.C14.Spec V.C14.Proofs V.C14.Proofs2 V.C14.Proofs3 V.C14.Proofs4 V.C14.Proofs5 V.C14.Proofs6 V.C14.Proofs7 V.C14.Proofs8 V.C14.Key V.C14.KeyRange.
Local Open Scope Z_scope.

(* [lower_bound k, upper_bound (k . CHAR_MAX)) of a sorted index over bytes 1..126 = exactly the entries with prefix k *)
Theorem c14_range : forall (k : list Z) (idx : list entry),
  sorted idx -> (forall e, In e idx -> Forall (fun b => 1 <= b <= 126) (fst e)) ->
  (lower_bound k idx <= upper_bound (k ++ [CHAR_MAX]) idx)%nat /\
  firstn (upper_bound (k ++ [CHAR_MAX]) idx - lower_bound k idx) (skipn (lower_bound k idx) idx)
  = filter (fun e => is_prefix k (fst e)) idx.
Proof. exact range_thm. Qed.
Print Assumptions c14_range.

(* the index of a reachable context is sorted and holds exactly the keys of its options *)
Theorem c14_index : forall c al, built c al ->
  sorted (index c) /\ forall k i, In (k, i) (index c) <-> is_key c al i k.
Proof. exact built_index. Qed.
Print Assumptions c14_index.

(* findImpl with any error mask: result determined by the computed range S, which covers exactly the matching options *)
Theorem c14_findimpl : forall c al t key m, built c al -> domain c al -> key_ok t key ->
  let M := matches c al t key in let S := find_range key t c in
  find_impl key t m c = outcome m S /\ covers c al S M /\ (S = [] <-> M = []) /\ (length S = 1%nat <-> length M = 1%nat).
Proof. exact find_impl_thm. Qed.
Print Assumptions c14_findimpl.

(* find: the unique matching option; Unknown iff none; Ambiguous (candidates = names of exactly the matching options) iff several *)
Theorem c14_find : forall c al t key, built c al -> domain c al -> key_ok t key ->
  let M := matches c al t key in
  (M = [] -> find key t c = Unknown) /\
  (forall i, M = [i] -> find key t c = Found i) /\
  ((2 <= length M)%nat -> exists S, find key t c = Ambiguous S /\ (2 <= length S)%nat /\ covers c al S M).
Proof. exact find_thm. Qed.
Print Assumptions c14_find.

Theorem c14_find_iff : forall c al t key, built c al -> domain c al -> key_ok t key ->
  let M := matches c al t key in
  (find key t c = Unknown <-> M = []) /\
  ((exists i, find key t c = Found i) <-> length M = 1%nat) /\
  ((exists S, find key t c = Ambiguous S) <-> (2 <= length M)%nat) /\
  find key t c <> NotFound.
Proof. exact find_iff. Qed.
Print Assumptions c14_find_iff.

(* tryFind: the option iff exactly one matches, end() in precisely the two other cases *)
Theorem c14_tryfind : forall c al t key, built c al -> domain c al -> key_ok t key ->
  let M := matches c al t key in
  (forall i, M = [i] -> try_find key t c = Some i) /\ (length M <> 1%nat -> try_find key t c = None).
Proof. exact tryfind_thm. Qed.
Print Assumptions c14_tryfind.

(* DefaultContext::getOption (eMask = 2 + !allowUnreg) *)
Theorem c14_getoption : forall c al t key allow, built c al -> domain c al -> key_ok t key ->
  let M := matches c al t key in
  (M = [] -> get_option allow key t c = if allow then NotFound else Unknown) /\
  (forall i, M = [i] -> get_option allow key t c = Found i) /\
  ((2 <= length M)%nat -> exists S, get_option allow key t c = Ambiguous S /\ covers c al S M).
Proof. intros c al t key allow Hb Hd Hk. exact (getoption_thm c al t key Hb Hd Hk allow). Qed.
Print Assumptions c14_getoption.

(* an ambiguous key is reported as ambiguous - with one and the same candidate list - by EVERY lookup, whatever error policy the caller
   chose: find throws, tryFind returns end(), DefaultContext::getOption throws with allowUnregistered on as well as off *)
Theorem c14_ambiguous_everywhere : forall c al t key, built c al -> domain c al -> key_ok t key ->
  (2 <= length (matches c al t key))%nat ->
  exists S, (2 <= length S)%nat /\ covers c al S (matches c al t key) /\
    find key t c = Ambiguous S /\ try_find key t c = None /\
    forall allow, get_option allow key t c = Ambiguous S.
Proof. exact ambiguous_everywhere. Qed.
Print Assumptions c14_ambiguous_everywhere.

(* a name resolved by a parser (parseCommandLine / parseCommandArray / parseCommandString / parseCfgFile = entry 0..3; long spelling
   --key=v / "key = v": find_name_or_prefix, short spelling -cv: find_alias): the unique match, Ambiguous iff several options match -
   for every entry point and for allowUnregistered on and off; only "no option matches" depends on allowUnregistered *)
Theorem c14_parser_lookup : forall c al key short allow entry, built c al -> domain c al ->
  let t := if negb (short =? 0) && negb (entry mod 4 =? 3) then find_alias else find_name_or_prefix in
  key_ok t key ->
  forall f, parser_lookup key short allow entry c = Some f ->
  let M := matches c al t key in
  (M = [] -> f = if negb (allow =? 0) then NotFound else Unknown) /\
  (forall i, M = [i] -> f = Found i) /\
  ((2 <= length M)%nat -> exists S, f = Ambiguous S /\ (2 <= length S)%nat /\ covers c al S M).
Proof. exact parser_lookup_thm. Qed.
Print Assumptions c14_parser_lookup.

(* SEVERAL names resolved within ONE parser run (one DefaultContext; token j = "--key=j" / "-cj" / config line "key = j"):
   the lookups are independent - the run amounts to the results the single lookups give, collected (`collect`: the options found, numbered
   by their token, up to the first lookup that throws; keys left alone under allowUnregistered contribute nothing) ... *)
Theorem c14_parser_sequence_independent : forall toks allow entry c rs,
  Forall2 (fun t r => parser_lookup (fst t) (snd t) allow entry c = Some r) toks rs ->
  parser_seq toks allow entry c = Some (collect 1 rs).
Proof. exact seq_independent. Qed.
Print Assumptions c14_parser_sequence_independent.

(* ... and each of these results is the one the property demands for ITS OWN key (`single_spec` = the conclusion of c14_parser_lookup:
   the unique match / Ambiguous iff several / left alone or Unknown iff none), in its own lookup mode (`tok_mode`: alias lookup for the short
   spelling, name-or-prefix otherwise) - for EVERY sequence of tokens: the same key string under different modes next to each other
   ("-x" then "--x", "--x" then "-x"), repeated keys, any order *)
Theorem c14_parser_sequence : forall c al toks allow entry, built c al -> domain c al ->
  Forall (fun t => tok_spellable entry t = true /\ key_ok (tok_mode entry t) (fst t)) toks ->
  exists rs, Forall2 (fun t f => single_spec c al allow (tok_mode entry t) (fst t) f) toks rs /\
             parser_seq toks allow entry c = Some (collect 1 rs).
Proof. exact seq_thm. Qed.
Print Assumptions c14_parser_sequence.

(* when every key of the run, judged alone, names exactly one option, the run returns exactly these options, token by token *)
Theorem c14_parser_sequence_found : forall c al toks allow entry is, built c al -> domain c al ->
  Forall (fun t => tok_spellable entry t = true /\ key_ok (tok_mode entry t) (fst t)) toks ->
  Forall2 (fun t i => matches c al (tok_mode entry t) (fst t) = [i]) toks is ->
  parser_seq toks allow entry c = Some (SOk (combine (seq 1 (length toks)) is)).
Proof. exact seq_all_found. Qed.
Print Assumptions c14_parser_sequence_found.

(* duplicates: insertOption / addAlias / add(group) are refused exactly when a key is taken; a refused insertion or
   alias leaves index and options unchanged; an accepted one adds exactly its keys *)
Theorem c14_duplicates_option : forall gid o c al, built c al -> oname o <> [] ->
  let r := insert_option gid o c in
  (snd r = false <-> (oalias o <> 0 /\ In (alias_key (oalias o)) (keys c)) \/ In (oname o) (keys c) \/ (oalias o <> 0 /\ oname o = alias_key (oalias o))) /\
  (snd r = false -> index (fst r) = index c /\ options (fst r) = options c) /\
  (snd r = true -> options (fst r) = options c ++ [o] /\ forall k, In k (keys (fst r)) <-> In k (opt_keys o) \/ In k (keys c)).
Proof. intros gid o c al Hb. apply (insert_option_thm gid o c al). apply built_inv. exact Hb. Qed.
Print Assumptions c14_duplicates_option.

Theorem c14_duplicates_alias : forall n i c al, built c al ->
  let r := add_alias n i c in
  (snd r <> None <-> (i < length (options c))%nat /\ n <> [] /\ In n (keys c)) /\
  (snd r <> None -> snd r = Some n /\ fst r = c) /\
  (snd r = None -> options (fst r) = options c /\
     forall k, In k (keys (fst r)) <-> ((i < length (options c))%nat /\ n <> [] /\ k = n) \/ In k (keys c)).
Proof. intros n i c al Hb. apply (add_alias_thm n i c al). apply built_inv. exact Hb. Qed.
Print Assumptions c14_duplicates_alias.

Theorem c14_duplicates_group : forall cap os c al, built c al -> names_nonempty os ->
  let r := add_group cap os c in
  (snd r = None <-> NoDup (group_keys os) /\ forall k, In k (group_keys os) -> ~ In k (keys c)) /\
  (snd r = None -> options (fst r) = options c ++ os /\ forall k, In k (keys (fst r)) <-> In k (group_keys os) \/ In k (keys c)).
Proof. intros cap os c al Hb. apply (add_group_thm cap os c al). apply built_inv. exact Hb. Qed.
Print Assumptions c14_duplicates_group.

(* ---- the option NUMBER stored in the index (OptionContext::key_type) ----
   The model keeps the position of the option (a nat); the C++ index stores that position converted to key_type:
   `key_of i` = i mod (key_max + 1), `stored_index c` = the index with every number converted; key_max is generated from the
   typedef in program_options.h.  For every reachable context holding at most key_max + 1 options (numbers 0 .. key_max) every
   stored number is exact, distinct options keep distinct numbers and the stored index is the model's index - generic in key_max. *)
Theorem c14_index_numbers_exact : forall c al, built c al -> Z.of_nat (length (options c)) <= key_max + 1 ->
  (forall k i, In (k, i) (index c) -> key_of i = Z.of_nat i) /\
  (forall k1 i1 k2 i2, In (k1, i1) (index c) -> In (k2, i2) (index c) -> key_of i1 = key_of i2 -> i1 = i2) /\
  stored_index c = map (fun e => (fst e, Z.of_nat (snd e))) (index c).
Proof. exact index_exact. Qed.
Print Assumptions c14_index_numbers_exact.

(* the range is tight: the first number beyond it is stored as the number of option 0 *)
Theorem c14_key_wraps_beyond : 0 <= key_max -> key_of (Z.to_nat (key_max + 1)) = key_of 0.
Proof. exact key_wraps_beyond. Qed.
Print Assumptions c14_key_wraps_beyond.

(* THE OBLIGATION ON THE DECLARED TYPE: key_type holds every option number below 2^32.  Every option is at least one heap object
   with a name string plus a map node with a string key (more than 100 bytes on the LP64 target): 2^32 options exceed 400 GiB -
   exhaustion-of-memory scale, outside the property and outside any address space this suite can use.  A narrower key_type
   (unsigned short) breaks this theorem; a context of 65537 options then resolves option #65536 as option #0. *)
Theorem c14_key_range_sufficient : 2 ^ 32 - 1 <= key_max.
Proof. exact key_range_sufficient. Qed.
Print Assumptions c14_key_range_sufficient.

Theorem c14_index_exact_below_memory_scale : forall c al, built c al -> Z.of_nat (length (options c)) <= 2 ^ 32 ->
  (forall k i, In (k, i) (index c) -> key_of i = Z.of_nat i) /\
  (forall k1 i1 k2 i2, In (k1, i1) (index c) -> In (k2, i2) (index c) -> key_of i1 = key_of i2 -> i1 = i2) /\
  stored_index c = map (fun e => (fst e, Z.of_nat (snd e))) (index c).
Proof. exact index_exact_below_memory_scale. Qed.
Print Assumptions c14_index_exact_below_memory_scale.

(* a LARGE group of generated options (case op 9: names 'o' + four base-36 digits of 0 .. n-1): the closed form the model evaluates
   on a context without options and keys is the generic add(group) of these options - for every count -, so such a context is a
   reachable context and all theorems above apply to it *)
Theorem c14_generated_group : forall k c,
  bulk_add k c = add_group bulk_caption (gen_opts (bulk_count k c)) c /\ (forall al, built c al -> built (fst (bulk_add k c)) al) /\
  domain (fst (bulk_add k empty_ctx)) [].
Proof. intros k c. split; [apply bulk_add_generic|split; [intros al; apply bulk_add_built|apply bulk_add_empty_domain]]. Qed.
Print Assumptions c14_generated_group.

(* non-vacuity at the magnitude in question: a reachable context of 65537 options inside the domain and inside the range of key_type;
   option #65536 (name o1ekg) is found under its own number, by exact name and as the unique match of its prefix; with one ordinary
   option o0000x behind the generated ones (option #65537) the prefix o0000 is AMBIGUOUS between #0 and #65537, tryFind gives end() *)
Definition many_ctx : ctx := fst (bulk_add 65537 empty_ctx).
Example ex_many_built : built many_ctx [] /\ domain many_ctx [] /\ Z.of_nat (length (options many_ctx)) = 65537 /\
Z.of_nat (length (options many_ctx)) <= key_max + 1 /\ (forall k i, In (k, i) (index many_ctx) -> key_of i = Z.of_nat i).
Proof.
  assert (B : built many_ctx []) by (apply bulk_add_built; apply b_empty).
  assert (L : Z.of_nat (length (options many_ctx)) = 65537) by (vm_compute; reflexivity).
  split; [exact B|]. split; [apply bulk_add_empty_domain|]. split; [exact L|].
  assert (R : Z.of_nat (length (options many_ctx)) <= key_max + 1) by (rewrite L; vm_compute; discriminate).
  split; [exact R|]. exact (proj1 (index_exact many_ctx [] B R)).
Qed.
Example ex_many_lookup :
  gen_name 65536 = [111; 49; 101; 107; 103] /\ enc_lookup (find (gen_name 65536) find_name many_ctx) = [0; 65536] /\
  enc_lookup (find (gen_name 65536) find_prefix many_ctx) = [0; 65536] /\ enc_lookup (find (gen_name 0) find_name many_ctx) = [0; 0] /\
  (let c := fst (add_group [71] [mkOpt (gen_name 0 ++ [120]) 0] many_ctx) in
   enc_lookup (find (gen_name 0) find_prefix c) = 2 :: 2 :: enc_str (gen_name 0) ++ enc_str (gen_name 0 ++ [120]) /\
   enc_fres (find_impl (gen_name 0) find_prefix 0 c) = [0; 2; 0; 65537] /\ try_find (gen_name 0) find_prefix c = None).
Proof. vm_compute. repeat split; reflexivity. Qed.

(* ---- non-vacuity: a context with shared prefixes, an alias and an alias name sharing a prefix with its own option ---- *)
Definition s_number := [110;117;109;98;101;114].   (* number *)
Definition s_num := [110;117;109].                 (* num *)
Definition s_nut := [110;117;116].                 (* nut *)
Definition s_help := [104;101;108;112].            (* help *)
Definition ex_g := [mkOpt s_number 0; mkOpt s_nut 120; mkOpt s_help 104].
Definition ex_c1 := fst (add_group [71] ex_g empty_ctx).
Definition ex_ctx := fst (add_alias s_num 0 ex_c1).
Definition ex_al := alias_effect s_num 0 ex_c1 [].

Example ex_built : built ex_ctx ex_al.
Proof.
  apply b_alias. apply b_group; [apply b_empty|]. repeat constructor; discriminate.
Qed.
Example ex_domain : domain ex_ctx ex_al.
Proof.
  unfold domain. replace (options ex_ctx) with ex_g by (vm_compute; reflexivity).
  replace ex_al with [(s_num, 0%nat)] by (vm_compute; reflexivity).
  unfold name_ok, alias_ok, DASH, ex_g, s_num, s_number, s_nut, s_help.
  repeat (cbn [oname oalias fst hd]; match goal with
  | |- Forall _ [] => apply Forall_nil
  | |- Forall _ (_ :: _) => apply Forall_cons
  | |- _ /\ _ => split
  | |- _ \/ _ => first [left; reflexivity | right; split; [lia|discriminate]]
  | |- _ <> _ => discriminate
  | |- _ <= _ => lia
  end).
Qed.
Example ex_key_prefix : key_ok find_prefix [110;117;109]. Proof. split; [tauto|]. split; simpl; discriminate. Qed.
Example ex_key_alias : key_ok find_alias [120]. Proof. split; [tauto|]. exists 120. repeat split; try discriminate. left. reflexivity. Qed.
(* "num" is a prefix of the name and of the alias name of option 0 only: one match, found *)
Example ex_unique : matches ex_ctx ex_al find_prefix s_num = [0%nat] /\ find s_num find_prefix ex_ctx = Found 0.
Proof. vm_compute. split; reflexivity. Qed.
(* "nu" matches options 0 and 1: ambiguous, candidates num, number, nut *)
Example ex_ambiguous : matches ex_ctx ex_al find_name_or_prefix [110;117] = [0%nat; 1%nat] /\
  find [110;117] find_name_or_prefix ex_ctx = Ambiguous [(s_num, 0%nat); (s_number, 0%nat); (s_nut, 1%nat)].
Proof. vm_compute. split; reflexivity. Qed.
Example ex_unknown : matches ex_ctx ex_al find_name [110;117] = [] /\ find [110;117] find_name ex_ctx = Unknown /\ try_find [110;117] find_name ex_ctx = None.
Proof. vm_compute. repeat split; reflexivity. Qed.
Example ex_alias : matches ex_ctx ex_al find_alias [120] = [1%nat] /\ find [120] find_alias ex_ctx = Found 1 /\ find [45;120] find_alias ex_ctx = Found 1.
Proof. vm_compute. repeat split; reflexivity. Qed.
(* "--nu=1" through every parser entry point, allowUnregistered on and off: ambiguous; "--nux=1": unknown / left alone; "-x1": option 1 *)
Example ex_key_nop : key_ok find_name_or_prefix [110;117]. Proof. split; [tauto|]. split; simpl; discriminate. Qed.
Example ex_parser_ambiguous :
  forallb (fun entry => forallb (fun allow =>
     match parser_lookup [110;117] 0 allow entry ex_ctx with
     | Some (Ambiguous [(k1, 0%nat); (k2, 0%nat); (k3, 1%nat)]) => list_eqb k1 s_num && list_eqb k2 s_number && list_eqb k3 s_nut
     | _ => false end) [0; 1]) [0; 1; 2; 3] = true /\
  parser_lookup [110;117;120] 0 1 2 ex_ctx = Some NotFound /\ parser_lookup [110;117;120] 0 0 3 ex_ctx = Some Unknown /\
  parser_lookup [120] 1 1 0 ex_ctx = Some (Found 1) /\ parser_lookup [110;32] 0 0 0 ex_ctx = None.
Proof. vm_compute. repeat split; reflexivity. Qed.
(* one parser run over a context in which the alias character x belongs to option 0 (foo,-x) while "x" is the unique prefix of option 1
   (x-ray), v is the alias of option 2 (verbose,-v) AND the exact name of option 3 (v), q is the alias of option 4 (silent,-q) and the prefix
   of nothing:  -x1 --x=2  /  --x=1 -x2  /  -v1 --v=2  /  -x1 --sil=2 --x=3 (control)  resolve every token as it resolves alone, through every
   entry point;  -q1 --q=2  is UnknownOption, and with allowUnregistered --q=2 is left alone                                              *)
Definition sq_ctx := fst (add_group [68] [mkOpt [102;111;111] 120; mkOpt [120;45;114;97;121] 0; mkOpt [118;101;114;98;111;115;101] 118;
                                         mkOpt [118] 0; mkOpt [115;105;108;101;110;116] 113] empty_ctx).
Example ex_seq_built : built sq_ctx [] /\ domain sq_ctx [].
Proof.
  split.
  - apply b_group; [apply b_empty|]. repeat constructor; discriminate.
  - unfold domain. replace (options sq_ctx) with [mkOpt [102;111;111] 120; mkOpt [120;45;114;97;121] 0; mkOpt [118;101;114;98;111;115;101] 118;
                                         mkOpt [118] 0; mkOpt [115;105;108;101;110;116] 113] by (vm_compute; reflexivity).
    unfold name_ok, alias_ok, DASH.
    repeat (cbn [oname oalias fst hd]; match goal with
    | |- Forall _ [] => apply Forall_nil
    | |- Forall _ (_ :: _) => apply Forall_cons
    | |- _ /\ _ => split
    | |- _ \/ _ => first [left; reflexivity | right; split; [lia|discriminate]]
    | |- _ <> _ => discriminate
    | |- _ <= _ => lia
    end).
Qed.
Example ex_seq_tokens_ok :
  Forall (fun t => tok_spellable 2 t = true /\ key_ok (tok_mode 2 t) (fst t)) [([120], 1); ([120], 0)].
Proof.
  apply Forall_cons; [|apply Forall_cons; [|apply Forall_nil]]; (split; [vm_compute; reflexivity|]).
  - split; [tauto|]. exists 120. repeat split; try discriminate. left. reflexivity.
  - split; [tauto|]. split; cbn; discriminate.
Qed.
Example ex_seq_same_key :
  forallb (fun entry =>
    match parser_seq [([120], 1); ([120], 0)] 0 entry sq_ctx, parser_seq [([120], 0); ([120], 1)] 0 entry sq_ctx,
          parser_seq [([118], 1); ([118], 0)] 1 entry sq_ctx, parser_seq [([120], 1); ([115;105;108], 0); ([120], 0)] 0 entry sq_ctx with
    | Some (SOk [(1%nat, 0%nat); (2%nat, 1%nat)]), Some (SOk [(1%nat, 1%nat); (2%nat, 0%nat)]),
      Some (SOk [(1%nat, 2%nat); (2%nat, 3%nat)]), Some (SOk [(1%nat, 0%nat); (2%nat, 4%nat); (3%nat, 1%nat)]) => true
    | _, _, _, _ => false end) [0; 1; 2] = true /\
  (* a config file has no short spelling: both lines are name-or-prefix lookups of "x" *)
  parser_seq [([120], 1); ([120], 0)] 0 3 sq_ctx = Some (SOk [(1%nat, 1%nat); (2%nat, 1%nat)]) /\
  parser_seq [([113], 1); ([113], 0)] 0 2 sq_ctx = Some (SErr Unknown) /\
  parser_seq [([113], 1); ([113], 0)] 1 2 sq_ctx = Some (SOk [(1%nat, 4%nat)]) /\
  parser_seq [([113], 0); ([113], 1)] 1 0 sq_ctx = Some (SOk [(2%nat, 4%nat)]) /\
  parser_seq [([120], 1); ([120; 32], 0)] 0 0 sq_ctx = None /\
  matches sq_ctx [] find_alias [120] = [0%nat] /\ matches sq_ctx [] find_name_or_prefix [120] = [1%nat] /\
  matches sq_ctx [] find_alias [118] = [2%nat] /\ matches sq_ctx [] find_name_or_prefix [118] = [3%nat] /\
  matches sq_ctx [] find_alias [113] = [4%nat] /\ matches sq_ctx [] find_name_or_prefix [113] = [].
Proof. vm_compute. repeat split; reflexivity. Qed.
(* duplicates: the name "nut", the alias 'x' and the alias name "num" are taken; the refused option leaves no "-h" key behind *)
Example ex_dup : snd (add_group [72] [mkOpt s_nut 0] ex_ctx) = Some s_nut /\ snd (add_group [72] [mkOpt [97] 120] ex_ctx) = Some [97] /\
  snd (add_alias s_num 1 ex_ctx) = Some s_num /\ snd (add_group [72] [mkOpt s_num 122] ex_ctx) = Some s_num /\
  index (fst (add_group [72] [mkOpt s_num 122] ex_ctx)) = index ex_ctx.
Proof. vm_compute. repeat split; reflexivity. Qed.

(* ---- the boundary of the domain (why the hypotheses are there) ---- *)
(* bytes >= CHAR_MAX behind the key fall outside [k, k.CHAR_MAX]: the option "caf\xe9" is not found by its prefix "caf" *)
Example c14_highbyte_refuted :
  let c := fst (add_group [] [mkOpt [99;97;102;233] 0] empty_ctx) in
  matches c [] find_prefix [99;97;102] = [0%nat] /\ find [99;97;102] find_prefix c = Unknown.
Proof. vm_compute. split; reflexivity. Qed.
(* a long name that starts with '-' is indistinguishable from an alias key: "-x" is found by alias lookup of 'x' *)
Example c14_dash_name_outside_domain :
  let c := fst (add_group [] [mkOpt [45;120] 0] empty_ctx) in
  matches c [] find_alias [120] = [] /\ find [120] find_alias c = Found 0.
Proof. vm_compute. split; reflexivity. Qed.
