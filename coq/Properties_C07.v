Require Import V.Lib.Base V.C07.Model.
Local Open Scope Z_scope.
Example c07_smoke : run_case [4096; 0; 0] = [0; 1; 1].
Proof. vm_compute. reflexivity. Qed.
Print Assumptions c07_smoke.
