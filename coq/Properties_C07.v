(* C07 - the smodels reader accepts exactly well-formed input and never alters a number.
   Model: V.C07.Model (SmodelsInput over the abstract stream of C09/Spec.v, cEdge = cHeuristic = false).
   Spec : V.C07.Spec  (laid-out programs: render / layout_ok / in_range / denote).                          *)
Require Import V.Lib.Base V.Lib.Calls V.Lib.Dec V.C09.Spec V.Gen.Consts V.Gen.Consts_C07.
Require Import V.C07.Model V.C07.Spec V.C07.ProofsLex V.C07.ProofsGram V.C07.ProofsTop.
Local Open Scope Z_scope.

(* Every text that follows the smodels layout (any whitespace / LF / CRLF between tokens, ANY non-negative numbers in
   the fields) and whose numbers all fit their fields is accepted and delivers exactly the denoted calls. *)
Theorem c07_complete : forall (o : opts) (p : lprog),
  layout_ok p = true -> in_range (claspExt o) p = true -> read_smodels o (render p) = (denote p, Ok tt).
Proof. exact complete. Qed.
Print Assumptions c07_complete.

(* ... and if some number does not fit its field (or an extension rule is used without claspExt, or neg > len, or a
   second step in a non-incremental program) the reader reports an error - whatever the magnitude (also >= 2^64). *)
Theorem c07_rejects : forall (o : opts) (p : lprog),
  layout_ok p = true -> in_range (claspExt o) p = false -> exists cs ln, read_smodels o (render p) = (cs, Err ln).
Proof. exact rejects. Qed.
Print Assumptions c07_rejects.

(* the instances named in the property: a weight, a bound, a symbol-table atom, a compute atom, an external atom that does
   not fit => error (never a wrapped or negative value); neg > len => error *)
Theorem c07_rejects_weight : forall (o : opts) p s tw h bnd b wts w,
  layout_ok p = true -> In s (p_steps p) -> In (RWeight tw h bnd b wts) (s_rules s) -> In w wts -> INT_MAX < snd w ->
  exists cs ln, read_smodels o (render p) = (cs, Err ln).
Proof.
  intros o p s tw h bnd b wts w Hl Hs Hr Hw Hbig. apply rejects; [assumption|].
  eapply in_range_rule_false; [eassumption | eassumption|]. cbn [rule_in].
  rewrite (forallb_false_in weight_in wts w Hw); [apply andb_false_r|]. unfold weight_in. apply Z.leb_gt. exact Hbig.
Qed.
Print Assumptions c07_rejects_weight.

Theorem c07_rejects_bound : forall (o : opts) p s tw h bnd b wts,
  layout_ok p = true -> In s (p_steps p) -> INT_MAX < snd bnd ->
  In (RWeight tw h bnd b wts) (s_rules s) \/ In (RCard tw h b bnd) (s_rules s) ->
  exists cs ln, read_smodels o (render p) = (cs, Err ln).
Proof.
  intros o p s tw h bnd b wts Hl Hs Hbig Hr. apply rejects; [assumption|].
  assert (Hw : weight_in bnd = false) by (unfold weight_in; apply Z.leb_gt; exact Hbig).
  destruct Hr as [Hr|Hr]; (eapply in_range_rule_false; [eassumption | eassumption|]); cbn [rule_in]; rewrite Hw;
    rewrite ?andb_false_r; reflexivity.
Qed.
Print Assumptions c07_rejects_bound.

Theorem c07_rejects_neg_gt_len : forall (o : opts) p s tw h b,
  layout_ok p = true -> In s (p_steps p) -> In (RBasic tw h b) (s_rules s) -> Z.of_nat (length (b_atoms b)) < snd (b_neg b) ->
  exists cs ln, read_smodels o (render p) = (cs, Err ln).
Proof.
  intros o p s tw h b Hl Hs Hr Hbig. apply rejects; [assumption|].
  eapply in_range_rule_false; [eassumption | eassumption|]. cbn [rule_in]. unfold body_in.
  assert (E : (snd (b_neg b) <=? Z.of_nat (length (b_atoms b))) = false) by (apply Z.leb_gt; exact Hbig).
  rewrite E. rewrite ?andb_false_r. reflexivity.
Qed.
Print Assumptions c07_rejects_neg_gt_len.

Theorem c07_rejects_atoms : forall (o : opts) p s a, layout_ok p = true -> In s (p_steps p) -> atomMax < snd a ->
  (exists y, In y (s_syms s) /\ y_atom y = a) \/ In a (s_bplus s) \/ In a (s_bminus s) \/
  (exists w l z, s_ext s = Some (w, l, z) /\ In a l) ->
  exists cs ln, read_smodels o (render p) = (cs, Err ln).
Proof.
  intros o p s a Hl Hs Hbig Hwhere. apply rejects; [assumption|]. eapply in_range_step_false; [eassumption|].
  assert (Ha : atom_in a = false) by (unfold atom_in; apply andb_false_intro2; apply Z.leb_gt; exact Hbig).
  unfold step_in. destruct Hwhere as [(y & Hy & Ey) | [Hb | [Hb | (w & l & z & Ee & Hb)]]].
  - rewrite (forallb_false_in (fun y => atom_in (y_atom y)) (s_syms s) y Hy) by (rewrite Ey; exact Ha). rewrite ?andb_false_r. reflexivity.
  - rewrite (forallb_false_in atom_in _ a Hb Ha). rewrite ?andb_false_r. reflexivity.
  - rewrite (forallb_false_in atom_in _ a Hb Ha). rewrite ?andb_false_r. reflexivity.
  - rewrite Ee. cbn [ext_in]. rewrite (forallb_false_in atom_in _ a Hb Ha). rewrite ?andb_false_r. reflexivity.
Qed.
Print Assumptions c07_rejects_atoms.

(* clasp-extension rule types 90 / 91 / 92 are refused unless extensions were enabled *)
Theorem c07_ext_gating : forall (o : opts) p s rl, claspExt o = false ->
  layout_ok p = true -> In s (p_steps p) -> In rl (s_rules s) ->
  (rule_type rl = Sm_ClaspIncrement \/ rule_type rl = Sm_ClaspAssignExt \/ rule_type rl = Sm_ClaspReleaseExt) ->
  exists cs ln, read_smodels o (render p) = (cs, Err ln).
Proof.
  intros o p s rl Hext Hl Hs Hr Hty. apply rejects; [assumption|]. rewrite Hext.
  eapply in_range_rule_false; [eassumption | eassumption|].
  destruct rl as [tw h b|ch tw nw hs b|tw h b bnd|tw h bnd b wts|tw bnd b wts|tw z|tw a v|tw a|t]; cbn [rule_type rule_in] in *; try reflexivity;
    try destruct ch; destruct Hty as [E|[E|E]]; vm_compute in E; discriminate.
Qed.
Print Assumptions c07_ext_gating.

(* whatever is accepted among the laid-out texts is in range and delivers exactly the denoted rules, outputs,
   integrity constraints for B+ / B-, externals, in order.
   PARTIAL: stated for texts that follow the layout (render p); that an ARBITRARY accepted byte string is such a text
   is not proved here (checked by the correspondence runs and the independent python reference reader). *)
Theorem c07_denotes_partial : forall (o : opts) p cs,
  layout_ok p = true -> read_smodels o (render p) = (cs, Ok tt) -> in_range (claspExt o) p = true /\ cs = denote p.
Proof. exact denotes. Qed.
Print Assumptions c07_denotes_partial.

(* the fuel of the model's loops is never exhausted on these texts *)
Theorem c07_fuel : forall (o : opts) p cs, layout_ok p = true -> read_smodels o (render p) <> (cs, Fuel).
Proof. exact never_fuel. Qed.
Print Assumptions c07_fuel.

(* ---- non-vacuity: a concrete laid-out program (CRLF and wild whitespace included) ---- *)
Definition sp := [32]. Definition nl := [10]. Definition crlf := [13; 10].
Definition ex_step : lstep :=
  mkstep [RBasic [] (sp, 1) (mkbody sp (sp, 1) [(sp, 2); ([32; 9], 3)]);
          RWeight crlf (sp, 4) (sp, 2147483647) (mkbody sp (sp, 0) [(sp, 1); (sp, 2)]) [(sp, 0); (sp, 2147483647)];
          RMin nl (sp, 0) (mkbody sp (sp, 1) [(sp, 5)]) [(nl, 7)];
          RMulti true nl sp [(sp, 6); (sp, 7)] (mkbody sp (sp, 0) [])]
         nl [mksym (nl, 1) 32 [97; 40; 34; 41]; mksym (crlf, 2147483647) 32 []] nl
         [] [(nl, 3)] nl [] [] nl (Some (nl, [(nl, 2)], nl)) (nl, 1).
Definition ex_prog : lprog := mkprog [ex_step] nl.
Example c07_ex_layout : layout_ok ex_prog = true /\ in_range false ex_prog = true.
Proof. split; vm_compute; reflexivity. Qed.
Example c07_ex_accepts : read_smodels (mkopts false false) (render ex_prog) = (denote ex_prog, Ok tt).
Proof. vm_compute. reflexivity. Qed.
(* the same program with one weight pushed to 2^32-1 / 2^64+1 is laid out correctly, out of range, and rejected *)
Definition ex_bad (w : Z) : lprog :=
  mkprog [mkstep [RWeight [] (sp, 4) (sp, 1) (mkbody sp (sp, 0) [(sp, 1)]) [(sp, w)]] nl [] nl [] [] nl [] [] nl None (nl, 1)] nl.
Example c07_ex_rejects : layout_ok (ex_bad 4294967295) = true /\ in_range false (ex_bad 4294967295) = false /\
  snd (read_smodels (mkopts false false) (render (ex_bad 4294967295))) = Err 1 /\
  snd (read_smodels (mkopts false false) (render (ex_bad 18446744073709551617))) = Err 1.
Proof. repeat split; vm_compute; reflexivity. Qed.
Print Assumptions c07_ex_accepts.
