(* C07 - the smodels reader accepts exactly well-formed input and never alters a number.
   Model: V.C07.Model (SmodelsInput over the abstract stream of C09/Spec.v, cEdge = cHeuristic = false).
   Spec : V.C07.Spec  (laid-out programs: render / layout_ok / in_range / denote).                          *)
Require Import V.Lib.Base V.Lib.Calls V.Lib.Dec V.C09.Spec V.Gen.Consts V.Gen.Consts_C07.
Require Import V.C07.Model V.C07.Spec V.C07.ProofsLex V.C07.ProofsGram V.C07.ProofsTop.
Require Import V.Lib.Contract.
Require V.C07.ProofsStream V.C07.ProofsContract.
Require Import V.C07.SpecG V.C07.ProofsGSound V.C07.ProofsGComplete2 V.C07.ProofsGTop.
Local Open Scope Z_scope.

(* Every text that follows the smodels layout (any whitespace / LF / CRLF between tokens, ANY non-negative numbers in
   the fields) and whose numbers all fit their fields is accepted and delivers exactly the denoted calls. *)
Theorem c07_complete : forall (o : opts) (p : lprog),
  layout_ok p = true -> in_range (claspExt o) p = true -> read_smodels o (render p) = (denote p, Ok tt).
Proof. exact complete. Qed.
Print Assumptions c07_complete.

(* ... and if some number does not fit its field (or an extension rule is used without claspExt, or neg > len, or a
   second step in a non-incremental program) the reader reports an error - whatever the magnitude (also >= 2^64). *)
Theorem c07_rejects : forall (o : opts) (p : lprog),
  layout_ok p = true -> in_range (claspExt o) p = false -> exists cs ln, read_smodels o (render p) = (cs, Err ln).
Proof. exact rejects. Qed.
Print Assumptions c07_rejects.

(* the instances named in the property: a weight, a bound, a symbol-table atom, a compute atom, an external atom that does
   not fit => error (never a wrapped or negative value); neg > len => error *)
Theorem c07_rejects_weight : forall (o : opts) p s tw h bnd b wts w,
  layout_ok p = true -> In s (p_steps p) -> In (RWeight tw h bnd b wts) (s_rules s) -> In w wts -> INT_MAX < snd w ->
  exists cs ln, read_smodels o (render p) = (cs, Err ln).
Proof.
  intros o p s tw h bnd b wts w Hl Hs Hr Hw Hbig. apply rejects; [assumption|].
  eapply in_range_rule_false; [eassumption | eassumption|]. cbn [rule_in].
  rewrite (forallb_false_in weight_in wts w Hw); [apply andb_false_r|]. unfold weight_in. apply Z.leb_gt. exact Hbig.
Qed.
Print Assumptions c07_rejects_weight.

Theorem c07_rejects_bound : forall (o : opts) p s tw h bnd b wts,
  layout_ok p = true -> In s (p_steps p) -> INT_MAX < snd bnd ->
  In (RWeight tw h bnd b wts) (s_rules s) \/ In (RCard tw h b bnd) (s_rules s) ->
  exists cs ln, read_smodels o (render p) = (cs, Err ln).
Proof.
  intros o p s tw h bnd b wts Hl Hs Hbig Hr. apply rejects; [assumption|].
  assert (Hw : weight_in bnd = false) by (unfold weight_in; apply Z.leb_gt; exact Hbig).
  destruct Hr as [Hr|Hr]; (eapply in_range_rule_false; [eassumption | eassumption|]); cbn [rule_in]; rewrite Hw;
    rewrite ?andb_false_r; reflexivity.
Qed.
Print Assumptions c07_rejects_bound.

Theorem c07_rejects_neg_gt_len : forall (o : opts) p s tw h b,
  layout_ok p = true -> In s (p_steps p) -> In (RBasic tw h b) (s_rules s) -> Z.of_nat (length (b_atoms b)) < snd (b_neg b) ->
  exists cs ln, read_smodels o (render p) = (cs, Err ln).
Proof.
  intros o p s tw h b Hl Hs Hr Hbig. apply rejects; [assumption|].
  eapply in_range_rule_false; [eassumption | eassumption|]. cbn [rule_in]. unfold body_in.
  assert (E : (snd (b_neg b) <=? Z.of_nat (length (b_atoms b))) = false) by (apply Z.leb_gt; exact Hbig).
  rewrite E. rewrite ?andb_false_r. reflexivity.
Qed.
Print Assumptions c07_rejects_neg_gt_len.

Theorem c07_rejects_atoms : forall (o : opts) p s a, layout_ok p = true -> In s (p_steps p) -> atomMax < snd a ->
  (exists y, In y (s_syms s) /\ y_atom y = a) \/ In a (s_bplus s) \/ In a (s_bminus s) \/
  (exists w l z, s_ext s = Some (w, l, z) /\ In a l) ->
  exists cs ln, read_smodels o (render p) = (cs, Err ln).
Proof.
  intros o p s a Hl Hs Hbig Hwhere. apply rejects; [assumption|]. eapply in_range_step_false; [eassumption|].
  assert (Ha : atom_in a = false) by (unfold atom_in; apply andb_false_intro2; apply Z.leb_gt; exact Hbig).
  unfold step_in. destruct Hwhere as [(y & Hy & Ey) | [Hb | [Hb | (w & l & z & Ee & Hb)]]].
  - rewrite (forallb_false_in (fun y => atom_in (y_atom y)) (s_syms s) y Hy) by (rewrite Ey; exact Ha). rewrite ?andb_false_r. reflexivity.
  - rewrite (forallb_false_in atom_in _ a Hb Ha). rewrite ?andb_false_r. reflexivity.
  - rewrite (forallb_false_in atom_in _ a Hb Ha). rewrite ?andb_false_r. reflexivity.
  - rewrite Ee. cbn [ext_in]. rewrite (forallb_false_in atom_in _ a Hb Ha). rewrite ?andb_false_r. reflexivity.
Qed.
Print Assumptions c07_rejects_atoms.

(* clasp-extension rule types 90 / 91 / 92 are refused unless extensions were enabled *)
Theorem c07_ext_gating : forall (o : opts) p s rl, claspExt o = false ->
  layout_ok p = true -> In s (p_steps p) -> In rl (s_rules s) ->
  (rule_type rl = Sm_ClaspIncrement \/ rule_type rl = Sm_ClaspAssignExt \/ rule_type rl = Sm_ClaspReleaseExt) ->
  exists cs ln, read_smodels o (render p) = (cs, Err ln).
Proof.
  intros o p s rl Hext Hl Hs Hr Hty. apply rejects; [assumption|]. rewrite Hext.
  eapply in_range_rule_false; [eassumption | eassumption|].
  destruct rl as [tw h b|ch tw nw hs b|tw h b bnd|tw h bnd b wts|tw bnd b wts|tw z|tw a v|tw a|t]; cbn [rule_type rule_in] in *; try reflexivity;
    try destruct ch; destruct Hty as [E|[E|E]]; vm_compute in E; discriminate.
Qed.
Print Assumptions c07_ext_gating.

(* whatever is accepted among the laid-out texts is in range and delivers exactly the denoted rules, outputs,
   integrity constraints for B+ / B-, externals, in order.
   PARTIAL: stated for texts that follow the layout (render p); that an ARBITRARY accepted byte string is such a text
   is not proved here (checked by the correspondence runs and the independent python reference reader). *)
Theorem c07_denotes_partial : forall (o : opts) p cs,
  layout_ok p = true -> read_smodels o (render p) = (cs, Ok tt) -> in_range (claspExt o) p = true /\ cs = denote p.
Proof. exact denotes. Qed.
Print Assumptions c07_denotes_partial.

(* the fuel of the model's loops is never exhausted on these texts *)
Theorem c07_fuel : forall (o : opts) p cs, layout_ok p = true -> read_smodels o (render p) <> (cs, Fuel).
Proof. exact never_fuel. Qed.
Print Assumptions c07_fuel.

(* ---- non-vacuity: a concrete laid-out program (CRLF and wild whitespace included) ---- *)
Definition sp := [32]. Definition nl := [10]. Definition crlf := [13; 10].
Definition ex_step : lstep :=
  mkstep [RBasic [] (sp, 1) (mkbody sp (sp, 1) [(sp, 2); ([32; 9], 3)]);
          RWeight crlf (sp, 4) (sp, 2147483647) (mkbody sp (sp, 0) [(sp, 1); (sp, 2)]) [(sp, 0); (sp, 2147483647)];
          RMin nl (sp, 0) (mkbody sp (sp, 1) [(sp, 5)]) [(nl, 7)];
          RMulti true nl sp [(sp, 6); (sp, 7)] (mkbody sp (sp, 0) [])]
         nl [mksym (nl, 1) 32 [97; 40; 34; 41]; mksym (crlf, 2147483647) 32 []] nl
         [] [(nl, 3)] nl [] [] nl (Some (nl, [(nl, 2)], nl)) (nl, 1).
Definition ex_prog : lprog := mkprog [ex_step] nl.
Example c07_ex_layout : layout_ok ex_prog = true /\ in_range false ex_prog = true.
Proof. split; vm_compute; reflexivity. Qed.
Example c07_ex_accepts : read_smodels (mkopts false false) (render ex_prog) = (denote ex_prog, Ok tt).
Proof. vm_compute. reflexivity. Qed.
(* the same program with one weight pushed to 2^32-1 / 2^64+1 is laid out correctly, out of range, and rejected *)
Definition ex_bad (w : Z) : lprog :=
  mkprog [mkstep [RWeight [] (sp, 4) (sp, 1) (mkbody sp (sp, 0) [(sp, 1)]) [(sp, w)]] nl [] nl [] [] nl [] [] nl None (nl, 1)] nl.
Example c07_ex_rejects : layout_ok (ex_bad 4294967295) = true /\ in_range false (ex_bad 4294967295) = false /\
  snd (read_smodels (mkopts false false) (render (ex_bad 4294967295))) = Err 1 /\
  snd (read_smodels (mkopts false false) (render (ex_bad 18446744073709551617))) = Err 1.
Proof. repeat split; vm_compute; reflexivity. Qed.
Print Assumptions c07_ex_accepts.

(* ================= statements about EVERY byte list (no layout / well-formedness hypothesis; NUL bytes allowed) =================
   These are what property C04 needs from the smodels reader (c04_smodels_contract). *)

(* What the reader delivers - whether it accepts or reports an error - is in protocol order (initProgram first and once,
   beginStep / endStep alternate, directives only inside a step) and every call satisfies every clause of the consumer
   contract unconditionally (atoms 1..2^31-1, literals non-zero with such an atom, rule-body weights >= 0, bounds within int,
   head type 0/1, external value 0..3), except that the priority of a minimize - the number of optimize statements read before
   it in the step (SmodelsInput::readRules: minPrio++) - is only known to lie in 0 .. |t|. *)
Theorem c07_delivered : forall (o : opts) (t : list Z),
  protocol_ok 0 (fst (read_smodels o t)) = true /\
  (forall c, In c (fst (read_smodels o t)) ->
     match c with
     | CMin p l => 0 <= p <= Z.of_nat (length t) /\ forallb (wlit_ok false) l = true
     | _ => call_ok c = true
     end).
Proof. exact V.C07.ProofsContract.delivered_calls. Qed.
Print Assumptions c07_delivered.

(* ... hence the full contract for every input shorter than 2^31 bytes (the only use of the hypothesis: int_ok of that priority) *)
Theorem c07_contract : forall (o : opts) (t : list Z),
  Z.of_nat (length t) < 2 ^ 31 -> contract_ok (fst (read_smodels o t)) = true.
Proof. exact V.C07.ProofsContract.reader_contract. Qed.
Print Assumptions c07_contract.

(* an accepted input leaves no step open *)
Theorem c07_steps_closed : forall (o : opts) (t : list Z) (u : unit),
  snd (read_smodels o t) = Ok u -> steps_closed (fst (read_smodels o t)) = true.
Proof. exact V.C07.ProofsContract.reader_steps_closed. Qed.
Print Assumptions c07_steps_closed.

(* no loop of the model (counted lists, rule block, symbol table and names, compute statements, externals, steps) runs out of
   fuel on ANY input: every iteration consumes at least one byte - the termination argument of the real loops *)
Theorem c07_no_fuel_exhaustion : forall (o : opts) (t : list Z), snd (read_smodels o t) <> Fuel.
Proof. exact V.C07.ProofsContract.no_fuel_exhaustion. Qed.
Print Assumptions c07_no_fuel_exhaustion.

(* a reported error line lies inside the text: between 1 and 1 + the number of line breaks (LF, CR, CRLF) of t *)
Theorem c07_line : forall (o : opts) (t : list Z) (ln : Z),
  snd (read_smodels o t) = Err ln -> 1 <= ln <= 1 + V.C07.ProofsStream.nl t.
Proof. exact V.C07.ProofsContract.line_bound. Qed.
Print Assumptions c07_line.

(* non-vacuity: CRLF counts once; garbage with NUL / bytes > 127 after a delivered rule: the partial sequence is delivered, the
   error is on line 3 of 5; the hypothesis of c07_contract holds for a text whose calls contain minimize statements with
   priorities 0 and 1 (incremental, two steps, NUL-terminated) *)
Example c07_ex_nl : V.C07.ProofsStream.nl [49; 10; 13; 10; 13; 50] = 3.
Proof. reflexivity. Qed.
Example c07_ex_garbage :
  read_smodels (mkopts false false) [49;32;49;32;48;32;48;13;10;48;13;49;32;0;255;10;10] = ([CInit false; CBegin; CRule 0 [1] []], Err 3) /\
  V.C07.ProofsStream.nl [49;32;49;32;48;32;48;13;10;48;13;49;32;0;255;10;10] = 4.
Proof. split; vm_compute; reflexivity. Qed.
Definition ex_inc : list Z :=
  [57;48;32;48;10;48;10;48;10;66;43;10;48;10;66;45;10;48;10;49;10;13;54;32;48;32;48;32;48;10;54;32;48;32;48;32;48;10;48;10;48;10;
   66;43;10;48;10;66;45;10;48;10;69;32;55;32;48;32;49;10;0;49].
Example c07_ex_contract_hyp : Z.of_nat (length ex_inc) < 2 ^ 31 /\
  read_smodels (mkopts true false) ex_inc = ([CInit true; CBegin; CEnd; CBegin; CMin 0 []; CMin 1 []; CExternal 7 0; CEnd], Ok tt).
Proof. split; vm_compute; reflexivity. Qed.

(* ================= SOUNDNESS for ARBITRARY byte strings (general description V.C07.SpecG) =================
   SpecG.v describes the language the reader really accepts - a superset of the writers' layout of Spec.v: a number token is
   whitespace, an optional '+' (or '-' in front of a zero), a digit string with any number of leading zeros; it is followed by a
   non-digit byte (so "3+4" are two numbers); a symbol-table line is  atom, one separator (any byte but a digit / NUL, or CRLF),
   name bytes up to the line break (LF, CRLF, or CR not followed by LF; no NUL); "B+" / "B-" after optional whitespace and directly
   followed by a line break; the optional "E" section; the number of models; further steps (clasp extension); behind the last
   step whitespace and then nothing or a NUL byte followed by arbitrary bytes.  [glayout_ok] = shape (counts = list lengths, rule
   type token, terminating zeros, first byte a digit), [gin_range] = the magnitudes of Spec.in_range on the denoted values plus
   "first byte '9' (incremental) only with claspExt, several steps only if incremental", [gdenote] = the calls.
   Whatever byte list the reader accepts IS such a text, in range, and the delivered calls are its denotation. *)
Theorem c07_sound : forall (o : opts) (t : list Z) (cs : list call),
  read_smodels o t = (cs, Ok tt) ->
  exists p : gprog, glayout_ok p = true /\ gin_range (claspExt o) p = true /\ t = grender p /\ cs = gdenote p.
Proof. exact V.C07.ProofsGSound.g_sound. Qed.
Print Assumptions c07_sound.

(* non-vacuity: leading zero, '+', CRLF as symbol separator, CR line break directly followed by a digit, "E1", "-0", NUL + garbage tail *)
Definition gn (w s d : list Z) := mkgnum w s d.
Definition gex_step : gstep :=
  mkgstep [GBasic (gn [] [] [48;49]) (gn [32] [43] [49]) (mkgbody (gn [32] [] [48]) (gn [32] [] [48]) [])] (gn [10] [] [48])
          [mkgsym (gn [13;10] [] [50]) [13;10] [97;98] [13]] (gn [] [] [48])
          [10] [13;10] [] (gn [] [] [48])
          [10] [10] [] (gn [] [] [48])
          (Some ([10], [gn [] [] [49]], gn [32] [] [48]))
          (gn [10] [45] [48]).
Definition gex : gprog := mkgprog [gex_step] [0; 120; 121].
Example c07_ex_general :
  grender gex = [48;49;32;43;49;32;48;32;48;10;48;13;10;50;13;10;97;98;13;48;10;66;43;13;10;48;10;66;45;10;48;10;69;49;32;48;10;45;48;0;120;121] /\
  glayout_ok gex = true /\ gin_range false gex = true /\
  read_smodels (mkopts false false) (grender gex) = ([CInit false; CBegin; CRule 0 [1] []; COutput [97; 98] [2]; CExternal 1 0; CEnd], Ok tt) /\
  gdenote gex = [CInit false; CBegin; CRule 0 [1] []; COutput [97; 98] [2]; CExternal 1 0; CEnd].
Proof. repeat split; vm_compute; reflexivity. Qed.

(* COMPLETENESS for the general description: every such text is accepted and delivers its denotation (generalises
   c07_complete from the writers' layout to signs, leading zeros, sign-separated numbers, all separators / line breaks). *)
Theorem c07_gcomplete : forall (o : opts) (p : gprog),
  glayout_ok p = true -> gin_range (claspExt o) p = true -> read_smodels o (grender p) = (gdenote p, Ok tt).
Proof. exact V.C07.ProofsGComplete2.g_complete. Qed.
Print Assumptions c07_gcomplete.

(* EXACTNESS: a byte list is accepted exactly when it is the text of a well-formed, in-range (optionally clasp-extended)
   smodels program; no hypothesis on t. *)
Theorem c07_exact : forall (o : opts) (t : list Z),
  (exists cs, read_smodels o t = (cs, Ok tt)) <->
  (exists p : gprog, glayout_ok p = true /\ gin_range (claspExt o) p = true /\ t = grender p).
Proof. exact V.C07.ProofsGTop.g_exact. Qed.
Print Assumptions c07_exact.

(* ... on acceptance the reader delivers precisely the denoted calls, in order: the denotation of some description of t, and
   of EVERY description of t (the denotation of a text does not depend on how it is read as a program). No layout hypothesis. *)
Theorem c07_denotes : forall (o : opts) (t : list Z) (cs : list call), read_smodels o t = (cs, Ok tt) ->
  (exists p, (glayout_ok p = true /\ gin_range (claspExt o) p = true /\ t = grender p) /\ cs = gdenote p) /\
  (forall p, glayout_ok p = true /\ gin_range (claspExt o) p = true /\ t = grender p -> cs = gdenote p).
Proof. exact V.C07.ProofsGTop.g_denotes. Qed.
Print Assumptions c07_denotes.

(* ... and every other byte list is refused with an error. *)
Theorem c07_rejects_exact : forall (o : opts) (t : list Z),
  ~ (exists p : gprog, glayout_ok p = true /\ gin_range (claspExt o) p = true /\ t = grender p) ->
  exists cs ln, read_smodels o t = (cs, Err ln).
Proof. exact V.C07.ProofsGTop.g_rejects. Qed.
Print Assumptions c07_rejects_exact.

(* the writers' layout (Spec.v, used by C05) is a special case of the general description, with the same denotation *)
Theorem c07_general_covers_layout : forall (o : opts) (p : lprog), layout_ok p = true -> in_range (claspExt o) p = true ->
  exists q : gprog, (glayout_ok q = true /\ gin_range (claspExt o) q = true /\ render p = grender q) /\ gdenote q = denote p.
Proof. exact V.C07.ProofsGTop.g_embeds. Qed.
Print Assumptions c07_general_covers_layout.

(* on a NUL-free text (the domain on which C09 ties the abstract stream to BufferedStream) only whitespace follows the last step *)
Theorem c07_tail_nul_free : forall (p : gprog), glayout_ok p = true -> nul_free (grender p) -> ws_ok (gp_tail p) = true.
Proof. exact V.C07.ProofsGTop.g_tail_nul_free. Qed.
Print Assumptions c07_tail_nul_free.

(* non-vacuity of c07_rejects_exact / the separator clause: a NUL byte behind a symbol-table atom is not a separator *)
Example c07_ex_nul_separator :
  read_smodels (mkopts false false) [49;32;49;32;48;32;48;10;48;10;50;0;97;98;10;48;10;66;43;10;48;10;66;45;10;48;10;49;10] =
  ([CInit false; CBegin; CRule 0 [1] []], Err 3).
Proof. vm_compute. reflexivity. Qed.

(* ================= the reader's atom limit: ProgramReader::setMaxVar(vm) =================
   The property says "atoms within 1..maxVar".  SmodelsInput reads the atoms of RULES - heads, the bodies of all rule types, the atom
   of the clasp-extension rules 91 / 92 - and (with the same call) the head COUNT of a choice / disjunctive rule through the member
   matchAtom, i.e. against the reader's varMax_ (default sm_varMax = atomMax = 2^31-1, changed by setMaxVar); symbol-table, compute
   and E-section atoms are read with matchPos(atomMax, ..) and do not depend on varMax_ (the code as it is; these deviations from a
   literal reading of the property are KNOWN FINDINGS - KNOWN_FINDINGS.txt ids maxvar-symbol-table / -compute / -external-section /
   -head-count, witnesses c07_maxvar_..._refuted at the end of this file, notes/C07.md).
   Model: read_smodels_v vm (V.C07.Model, Section MaxVar); "in range" relative to vm: Spec.in_range_v / SpecG.gin_range_v.
   Everything above is the instance vm = sm_varMax - BY CONVERSION (c07_default_is_instance), and every theorem above is now proved
   as that instance of the corresponding theorem below.  Domain: vm <= atomMax (lit() converts a body atom to int32 unchecked). *)
Theorem c07_default_is_instance :
  sm_varMax = atomMax /\ read_smodels = read_smodels_v sm_varMax /\
  in_range = in_range_v sm_varMax /\ gin_range = gin_range_v sm_varMax.
Proof. repeat split; reflexivity. Qed.
Print Assumptions c07_default_is_instance.

(* writers' layout: a text whose numbers all fit - rule atoms and head counts within 1..vm - is accepted and delivers the denoted calls *)
Theorem c07_maxvar_complete : forall (vm : Z) (o : opts) (p : lprog), vm <= atomMax ->
  layout_ok p = true -> in_range_v vm (claspExt o) p = true -> read_smodels_v vm o (render p) = (denote p, Ok tt).
Proof. intros vm o p Hvm. apply complete_v. unfold atomMax, INT64_MAX in *. lia. Qed.
Print Assumptions c07_maxvar_complete.

(* ... and refused with an error as soon as one number does not fit - in particular a rule atom or head count above vm *)
Theorem c07_maxvar_rejects : forall (vm : Z) (o : opts) (p : lprog), vm <= atomMax ->
  layout_ok p = true -> in_range_v vm (claspExt o) p = false -> exists cs ln, read_smodels_v vm o (render p) = (cs, Err ln).
Proof. intros vm o p Hvm. apply rejects_v. unfold atomMax, INT64_MAX in *. lia. Qed.
Print Assumptions c07_maxvar_rejects.

(* the instance the seeded change C07-r8 breaks: an atom above the limit in the NORMAL body of a basic / choice / disjunctive rule
   (or in its head / as its head count) => error, also when the atom is a perfectly good atom <= 2^31-1 *)
Theorem c07_maxvar_rejects_body_atom : forall (vm : Z) (o : opts) p s a, vm <= atomMax ->
  layout_ok p = true -> In s (p_steps p) -> vm < snd a ->
  (exists tw h b, In (RBasic tw h b) (s_rules s) /\ (a = h \/ In a (b_atoms b))) \/
  (exists c tw nw hs b, In (RMulti c tw nw hs b) (s_rules s) /\ (In a hs \/ In a (b_atoms b) \/ snd a = Z.of_nat (length hs))) ->
  exists cs ln, read_smodels_v vm o (render p) = (cs, Err ln).
Proof.
  intros vm o p s a Hvm Hl Hs Hbig Hwhere. apply c07_maxvar_rejects; [exact Hvm | exact Hl|].
  assert (Ha : ratom_in vm a = false) by (unfold ratom_in; apply andb_false_intro2; apply Z.leb_gt; exact Hbig).
  destruct Hwhere as [(tw & h & b & Hr & [-> | Hb]) | (c & tw & nw & hs & b & Hr & [Hh | [Hb | Hn]])];
    (eapply in_range_rule_false_v; [exact Hs | exact Hr|]); cbn [rule_in_v].
  - rewrite Ha. reflexivity.
  - rewrite (forallb_false_in (ratom_in vm) _ a Hb Ha). rewrite ?andb_false_r. reflexivity.
  - rewrite (forallb_false_in (ratom_in vm) _ a Hh Ha). rewrite ?andb_false_r. reflexivity.
  - rewrite (forallb_false_in (ratom_in vm) _ a Hb Ha). rewrite ?andb_false_r. reflexivity.
  - assert (E : (Z.of_nat (length hs) <=? vm) = false) by (apply Z.leb_gt; rewrite <- Hn; exact Hbig).
    rewrite E. rewrite ?andb_false_r. reflexivity.
Qed.
Print Assumptions c07_maxvar_rejects_body_atom.

(* ARBITRARY byte strings: soundness (no hypothesis on vm at all), completeness, exactness, denotation, rejection *)
Theorem c07_maxvar_sound : forall (vm : Z) (o : opts) (t : list Z) (cs : list call),
  read_smodels_v vm o t = (cs, Ok tt) ->
  exists p : gprog, glayout_ok p = true /\ gin_range_v vm (claspExt o) p = true /\ t = grender p /\ cs = gdenote p.
Proof. exact V.C07.ProofsGSound.g_sound_v. Qed.
Print Assumptions c07_maxvar_sound.

Theorem c07_maxvar_gcomplete : forall (vm : Z) (o : opts) (p : gprog), vm <= atomMax ->
  glayout_ok p = true -> gin_range_v vm (claspExt o) p = true -> read_smodels_v vm o (grender p) = (gdenote p, Ok tt).
Proof. intros vm o p Hvm. apply V.C07.ProofsGComplete2.g_complete_v. unfold atomMax, INT64_MAX in *. lia. Qed.
Print Assumptions c07_maxvar_gcomplete.

Theorem c07_maxvar_exact : forall (vm : Z) (o : opts) (t : list Z), vm <= atomMax ->
  ((exists cs, read_smodels_v vm o t = (cs, Ok tt)) <->
   (exists p : gprog, glayout_ok p = true /\ gin_range_v vm (claspExt o) p = true /\ t = grender p)).
Proof. intros vm o t Hvm. exact (V.C07.ProofsGTop.g_exact_v vm Hvm o t). Qed.
Print Assumptions c07_maxvar_exact.

Theorem c07_maxvar_denotes : forall (vm : Z) (o : opts) (t : list Z) (cs : list call), vm <= atomMax ->
  read_smodels_v vm o t = (cs, Ok tt) ->
  (exists p, (glayout_ok p = true /\ gin_range_v vm (claspExt o) p = true /\ t = grender p) /\ cs = gdenote p) /\
  (forall p, glayout_ok p = true /\ gin_range_v vm (claspExt o) p = true /\ t = grender p -> cs = gdenote p).
Proof. intros vm o t cs Hvm. exact (V.C07.ProofsGTop.g_denotes_v vm Hvm o t cs). Qed.
Print Assumptions c07_maxvar_denotes.

Theorem c07_maxvar_rejects_exact : forall (vm : Z) (o : opts) (t : list Z), vm <= atomMax ->
  ~ (exists p : gprog, glayout_ok p = true /\ gin_range_v vm (claspExt o) p = true /\ t = grender p) ->
  exists cs ln, read_smodels_v vm o t = (cs, Err ln).
Proof. intros vm o t Hvm. exact (V.C07.ProofsGTop.g_rejects_v vm Hvm o t). Qed.
Print Assumptions c07_maxvar_rejects_exact.

(* a limit only removes texts: whatever the reader with limit vm accepts, the reader without a configured limit accepts, with the same calls *)
Theorem c07_maxvar_only_removes : forall (vm : Z) (o : opts) (t : list Z) (cs : list call), vm <= atomMax ->
  read_smodels_v vm o t = (cs, Ok tt) -> read_smodels o t = (cs, Ok tt).
Proof. intros vm o t cs Hvm. exact (V.C07.ProofsGTop.g_limit_only_removes vm Hvm o t cs). Qed.
Print Assumptions c07_maxvar_only_removes.

(* EVERY byte list, every limit vm <= atomMax: consumer contract, closed steps, no fuel exhaustion, error line inside the text *)
Theorem c07_maxvar_delivered : forall (vm : Z) (o : opts) (t : list Z), vm <= atomMax ->
  protocol_ok 0 (fst (read_smodels_v vm o t)) = true /\
  (forall c, In c (fst (read_smodels_v vm o t)) ->
     match c with
     | CMin p l => 0 <= p <= Z.of_nat (length t) /\ forallb (wlit_ok false) l = true
     | _ => call_ok c = true
     end).
Proof. intros vm o t Hvm. exact (V.C07.ProofsContract.delivered_calls_v vm Hvm o t). Qed.
Print Assumptions c07_maxvar_delivered.

Theorem c07_maxvar_contract : forall (vm : Z) (o : opts) (t : list Z), vm <= atomMax ->
  Z.of_nat (length t) < 2 ^ 31 -> contract_ok (fst (read_smodels_v vm o t)) = true.
Proof. intros vm o t Hvm. exact (V.C07.ProofsContract.reader_contract_v vm Hvm o t). Qed.
Print Assumptions c07_maxvar_contract.

Theorem c07_maxvar_total : forall (vm : Z) (o : opts) (t : list Z), vm <= atomMax ->
  snd (read_smodels_v vm o t) <> Fuel /\
  (forall u, snd (read_smodels_v vm o t) = Ok u -> steps_closed (fst (read_smodels_v vm o t)) = true) /\
  (forall ln, snd (read_smodels_v vm o t) = Err ln -> 1 <= ln <= 1 + V.C07.ProofsStream.nl t).
Proof.
  intros vm o t Hvm. split; [exact (V.C07.ProofsContract.no_fuel_exhaustion_v vm Hvm o t)|]. split.
  - intros u. exact (V.C07.ProofsContract.reader_steps_closed_v vm Hvm o t u).
  - intros ln. exact (V.C07.ProofsContract.line_bound_v vm Hvm o t ln).
Qed.
Print Assumptions c07_maxvar_total.

(* non-vacuity.  `1 2 1 0 5` (rule 2 :- 5) and a symbol-table entry for atom 7:  limit 5: accepted;  limit 4: the body atom 5 is
   refused on line 1 (layout fine, out of range);  the symbol-table atom 7 is above both limits and accepted (matchPos(atomMax));
   a choice rule with 3 heads `3 3 1 1 1 0 0` under limit 2 is refused because of its head COUNT;  run_case decodes the limit
   from the trailer behind the text (0 / absent = no setMaxVar, -1 = setMaxVar(0)) *)
Definition ex_mv : lprog :=
  mkprog [mkstep [RBasic [] (sp, 2) (mkbody sp (sp, 0) [(sp, 5)])] nl [mksym (nl, 7) 32 [97]] nl [] [] nl [] [] nl None (nl, 1)] nl.
Definition ex_mv3 : lprog :=
  mkprog [mkstep [RMulti true [] sp [(sp, 1); (sp, 1); (sp, 1)] (mkbody sp (sp, 0) [])] nl [] nl [] [] nl [] [] nl None (nl, 1)] nl.
Example c07_ex_maxvar :
  layout_ok ex_mv = true /\ in_range_v 5 false ex_mv = true /\ in_range_v 4 false ex_mv = false /\
  read_smodels_v 5 (mkopts false false) (render ex_mv) = ([CInit false; CBegin; CRule 0 [2] [5]; COutput [97] [7]; CEnd], Ok tt) /\
  read_smodels_v 4 (mkopts false false) (render ex_mv) = ([CInit false; CBegin], Err 1) /\
  layout_ok ex_mv3 = true /\ in_range_v 3 false ex_mv3 = true /\ in_range_v 2 false ex_mv3 = false /\
  snd (read_smodels_v 2 (mkopts false false) (render ex_mv3)) = Err 1 /\
  run_case ([4096; 0; 9] ++ [49; 32; 50; 32; 49; 32; 48; 32; 53] ++ [4]) = [1; 0; 2; 0; 1; 1] /\
  run_case ([4096; 0; 9] ++ [49; 32; 50; 32; 49; 32; 48; 32; 53]) = [1; 0; 2; 4; 0; 1; 2; 1; 5; 0; 1; 1].
Proof. repeat split; vm_compute; reflexivity. Qed.

(* ================= KNOWN FINDINGS about the limit (KNOWN_FINDINGS.txt: maxvar-symbol-table, maxvar-compute, maxvar-external-section,
   maxvar-head-count; recorded, not repaired) =================
   The property text says "atoms within 1..maxVar".  The positive theorems above (c07_maxvar_complete ... c07_maxvar_total) say precisely which positions the limit
   covers IN THE CODE: in_range_v / gin_range_v use [ratom_in vm] / [gratom_in vm] for the head atoms, body atoms and 91 / 92 atoms of
   rules AND for the head COUNT of a choice / disjunctive rule (RMulti / GMulti), but [atom_in] / [gatom_in] (<= atomMax, independent of vm)
   for symbol-table atoms, the atoms of B+ / B- and of the E section.  Read literally - the limit applies to every atom and to no count -
   the property is REFUTED by the faithful model on these four shapes (witnesses by vm_compute; the same inputs are fixed cases of the
   correspondence run, where the real reader behaves like the model and the oracle reports them under the known signatures
   max-var-not-applied:symbol-table | compute | external-section and head-count-checked-against-max-var). *)
Definition ex_rf (syms : list lsym) (bp bm : list num) (e : option (list Z * list num * list Z)) : lprog :=
  mkprog [mkstep [] [] syms nl [] bp nl [] bm nl e (nl, 1)] nl.

(* a symbol-table atom above the limit is accepted, and its output delivered:  setMaxVar(4), "0\n5 a\n0\nB+\n0\nB-\n0\n1\n" *)
Theorem c07_maxvar_symbol_atom_refuted : exists (vm : Z) (p : lprog) (cs : list call),
  vm <= atomMax /\ layout_ok p = true /\
  (exists s y, In s (p_steps p) /\ In y (s_syms s) /\ vm < snd (y_atom y)) /\
  read_smodels_v vm (mkopts false false) (render p) = (cs, Ok tt) /\ In (COutput [97] [5]) cs.
Proof.
  exists 4, (ex_rf [mksym (nl, 5) 32 [97]] [] [] None), [CInit false; CBegin; COutput [97] [5]; CEnd].
  split; [vm_compute; discriminate|]. split; [vm_compute; reflexivity|]. split.
  - eexists _, (mksym (nl, 5) 32 [97]). split; [left; reflexivity|]. split; [left; reflexivity | vm_compute; reflexivity].
  - split; [vm_compute; reflexivity | right; right; left; reflexivity].
Qed.
Print Assumptions c07_maxvar_symbol_atom_refuted.

(* an atom of B+ (and of B-) above the limit is accepted and delivered as an integrity constraint *)
Theorem c07_maxvar_compute_atom_refuted : exists (vm : Z) (p q : lprog),
  vm <= atomMax /\ layout_ok p = true /\ layout_ok q = true /\
  (exists s a, In s (p_steps p) /\ In a (s_bplus s) /\ vm < snd a) /\ (exists s a, In s (p_steps q) /\ In a (s_bminus s) /\ vm < snd a) /\
  read_smodels_v vm (mkopts false false) (render p) = ([CInit false; CBegin; CRule Head_t_Disjunctive [] [-5]; CEnd], Ok tt) /\
  read_smodels_v vm (mkopts false false) (render q) = ([CInit false; CBegin; CRule Head_t_Disjunctive [] [5]; CEnd], Ok tt).
Proof.
  exists 4, (ex_rf [] [(nl, 5)] [] None), (ex_rf [] [] [(nl, 5)] None).
  split; [vm_compute; discriminate|]. split; [vm_compute; reflexivity|]. split; [vm_compute; reflexivity|]. split.
  { eexists _, (nl, 5). split; [left; reflexivity|]. split; [left; reflexivity | vm_compute; reflexivity]. }
  split.
  { eexists _, (nl, 5). split; [left; reflexivity|]. split; [left; reflexivity | vm_compute; reflexivity]. }
  split; vm_compute; reflexivity.
Qed.
Print Assumptions c07_maxvar_compute_atom_refuted.

(* an atom of the E section above the limit is accepted and delivered as a free external *)
Theorem c07_maxvar_external_atom_refuted : exists (vm : Z) (p : lprog),
  vm <= atomMax /\ layout_ok p = true /\
  (exists s w l z a, In s (p_steps p) /\ s_ext s = Some (w, l, z) /\ In a l /\ vm < snd a) /\
  read_smodels_v vm (mkopts false false) (render p) = ([CInit false; CBegin; CExternal 5 Value_t_Free; CEnd], Ok tt).
Proof.
  exists 4, (ex_rf [] [] [] (Some (nl, [(nl, 5)], nl))).
  split; [vm_compute; discriminate|]. split; [vm_compute; reflexivity|]. split.
  - eexists _, nl, [(nl, 5)], nl, (nl, 5). split; [left; reflexivity|]. split; [reflexivity|]. split; [left; reflexivity | vm_compute; reflexivity].
  - vm_compute. reflexivity.
Qed.
Print Assumptions c07_maxvar_external_atom_refuted.

(* a well-formed choice rule all of whose atoms are within the limit is refused because it lists more head atoms than the limit:
   setMaxVar(4), "3 5 1 1 1 1 1 0 0\n0\n0\nB+\n0\nB-\n0\n1\n"; without a limit the same text is accepted *)
Theorem c07_maxvar_head_count_refuted : exists (vm : Z) (tw nw : list Z) (hs : list num) (b : lbody) (p : lprog),
  vm <= atomMax /\ layout_ok p = true /\ in_range false p = true /\
  p_steps p = [mkstep [RMulti true tw nw hs b] nl [] nl [] [] nl [] [] nl None (nl, 1)] /\
  forallb (ratom_in vm) hs = true /\ b_atoms b = [] /\ vm < Z.of_nat (length hs) /\
  (exists cs ln, read_smodels_v vm (mkopts false false) (render p) = (cs, Err ln)) /\
  read_smodels (mkopts false false) (render p) = (denote p, Ok tt).
Proof.
  exists 4, [], sp, [(sp, 1); (sp, 1); (sp, 1); (sp, 1); (sp, 1)], (mkbody sp (sp, 0) []),
    (mkprog [mkstep [RMulti true [] sp [(sp, 1); (sp, 1); (sp, 1); (sp, 1); (sp, 1)] (mkbody sp (sp, 0) [])] nl [] nl [] [] nl [] [] nl None (nl, 1)] nl).
  split; [vm_compute; discriminate|]. split; [vm_compute; reflexivity|]. split; [vm_compute; reflexivity|]. split; [reflexivity|].
  split; [vm_compute; reflexivity|]. split; [reflexivity|]. split; [vm_compute; reflexivity|]. split.
  - eexists _, 1. vm_compute. reflexivity.
  - vm_compute. reflexivity.
Qed.
Print Assumptions c07_maxvar_head_count_refuted.

(* ---- the reader option convertHeuristic on texts without a heuristic predicate (coq/C07/Run.v = the decoder of the correspondence run) ----
   Without a conversion option the decoder is V.C07.Model.run_case; with convertHeuristic (option value 4) and a text without `_heuristic(`
   it answers what the model answers for the same case WITHOUT the option: "convertHeuristic is invisible when no name is a heuristic
   predicate" - every symbol line is delivered, also one whose name / whose (atom, name) pair occurred before. The real reader is held
   to this by the differential run (harness/h_c07.cpp applies the same textual test). *)
Require V.C07.Run V.C07.ProofsRun.
Theorem c07_run_without_conversion : forall n ob len r, (ob / 2) mod 4 = 0 ->
  V.C07.Run.run_case (n :: ob :: len :: r) = V.C07.Model.run_case (n :: ob :: len :: r).
Proof. exact V.C07.ProofsRun.run_plain. Qed.
Print Assumptions c07_run_without_conversion.

Theorem c07_heuristic_option_invisible : forall n ob len r,
  (ob / 2) mod 2 = 0 -> (ob / 4) mod 2 = 1 -> V.C07.Run.has_sub V.C07.Run.heu_pred (firstn (Z.to_nat len) r) = false ->
  V.C07.Run.run_case (n :: ob :: len :: r) = V.C07.Model.run_case (n :: (ob - 4) :: len :: r).
Proof. exact V.C07.ProofsRun.run_heu_ignored. Qed.
Print Assumptions c07_heuristic_option_invisible.

(* non-vacuity: `0 / 2 a / 3 a / 2 a / 0 / B+ 0 B- 0 1` (one name for two atoms, one line twice) with the option: all three symbols delivered;
   a text with a heuristic predicate stays outside the domain of C07 (C08) *)
Definition ex_dup_table : list Z := [48; 10; 50; 32; 97; 10; 51; 32; 97; 10; 50; 32; 97; 10; 48; 10; 66; 43; 10; 48; 10; 66; 45; 10; 48; 10; 49; 10].
Example c07_heuristic_option_example :
  V.C07.Run.has_sub V.C07.Run.heu_pred ex_dup_table = false /\
  read_smodels (mkopts false false) ex_dup_table = ([CInit false; CBegin; COutput [97] [2]; COutput [97] [3]; COutput [97] [2]; CEnd], Ok tt) /\
  V.C07.Run.run_case ([4096; 4; 28] ++ ex_dup_table) = V.C07.Model.encode_result (read_smodels (mkopts false false) ex_dup_table) /\
  V.C07.Run.run_case ([4096; 4; 41] ++ [48; 10; 50; 32; 95; 104; 101; 117; 114; 105; 115; 116; 105; 99; 40; 97; 44; 115; 105; 103; 110; 44; 49; 44; 48; 41; 10; 48; 10; 66; 43; 10; 48; 10; 66; 45; 10; 48; 10; 49; 10]) = [-3].
Proof. repeat split; vm_compute; reflexivity. Qed.
