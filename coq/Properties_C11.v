(* C11 - rule builder yields exactly the rule that was described to it.
   Concrete model: V.C11.Model (header fields of struct RuleBuilder::Rule, word-cell memory, size/capacity, realloc growth).
   Abstract specification: V.C11.Spec (what was added, in insertion order; astep = None means "outside the protocol").
   R (V.C11.Proofs) is the simulation relation; it contains the invariant (spans inside [header, top], disjoint, top <= size <= capacity). *)
Require Import V.Lib.Base V.Lib.Calls V.Gen.Consts_C11 V.C11.Model V.C11.Spec
        V.C11.Proofs V.C11.Proofs2 V.C11.Proofs3 V.C11.Proofs4 V.C11.Proofs5 V.C11.Proofs6.
Local Open Scope Z_scope.

(* Refinement, one operation: every admissible operation succeeds on the concrete builder (no assertion, no fault),
   emits the same calls as the specification and re-establishes R. *)
Theorem c11_refines : forall c a o a' calls,
  R c a -> astep a o = Some (a', calls) -> exists c', cstep c o = Ok (c', calls) /\ R c' a'.
Proof. exact sim_step. Qed.
Print Assumptions c11_refines.

(* ... and every query answers with the abstract fields. *)
Theorem c11_queries : forall c a, R c a ->
  q_head c = hatoms a /\ styp (hd c) = hkind a /\ q_btype c = bkind a /\ q_bound c = bbound a /\
  (bkind a = 0 -> q_body c = map fst (blits a)) /\ (bkind a <> 0 -> q_wlits c = blits a) /\
  forall full, cquery c full = aquery a full.
Proof.
  intros c a HR. repeat split.
  - now apply q_head_R. - now apply q_hkind. - now apply q_bkind. - now apply q_bound_R.
  - now apply q_body_R. - now apply q_wlits_R. - intro full. now apply cquery_R.
Qed.
Print Assumptions c11_queries.

(* The invariant carried by R: no out-of-region store happened, header <= top <= size <= capacity, both spans end
   below top, started spans begin behind the header, and head and body (including the bound slot) are disjoint. *)
Theorem c11_invariant : forall c a, R c a ->
  fault c = false /\ HDR <= top c /\ top c <= size c /\ size c <= alloc c /\
  mend (hd c) <= top c /\ mend (bd c) <= top c /\
  (ahead a <> None -> HDR <= mbeg (hd c) <= mend (hd c)) /\
  (abody a <> None -> HDR <= slot (bd c) <= mend (bd c)) /\
  (ahead a <> None -> abody a <> None -> mend (hd c) <= slot (bd c) \/ mend (bd c) <= mbeg (hd c)).
Proof.
  intros c a HR. pose proof (R_ends _ _ HR) as [E1 E2]. destruct HR as (Hfz & Hft & Htop & Hsz & Hal & Hh & Hb & Hl).
  repeat split; try assumption.
  - destruct (ahead a) as [[k l]|]; [|congruence]. pose proof (head_ok_bounds _ _ _ Hh). lia.
  - destruct (ahead a) as [[k l]|]; [|congruence]. pose proof (head_ok_bounds _ _ _ Hh). lia.
  - destruct (abody a) as [[[k b] l]|]; [|congruence]. pose proof (body_ok_bounds _ _ _ _ Hb). lia.
  - destruct (abody a) as [[[k b] l]|]; [|congruence]. pose proof (body_ok_bounds _ _ _ _ Hb). lia.
  - intros H1 H2. unfold layout_ok in Hl. destruct (ahead a); [|congruence]. destruct (abody a); [|congruence].
    destruct (blast a); lia.
Qed.
Print Assumptions c11_invariant.

(* Histories: for EVERY operation sequence (three builders, copy/assign/swap, any length) that the specification
   admits, started from new builders of any initial capacity >= sizeof(Rule), the concrete run prints exactly the
   specification's observation: every query and every call made by end() consist of what was added since the last
   reset, in insertion order, with the chosen kinds and the current bound. *)
Theorem c11_history : forall cap ops obs, HDR <= cap -> arun ops = Some obs -> run cap ops = obs.
Proof. exact history. Qed.
Print Assumptions c11_history.

(* the capacity the code really uses satisfies the hypothesis *)
Example c11_history_init_size : HDR <= RB_INIT_SIZE.
Proof. vm_compute. discriminate. Qed.

(* weight 0 literals are omitted: addGoal(x, 0) changes neither head nor body of the specification, and no literal
   of a specification state ever carries weight 0 *)
Definition nz (a : ast) : Prop := Forall (fun p => snd p <> 0) (blits a).
Theorem c11_weight0_omitted : forall a x a' k,
  astep a (OAddGoal x 0) = Some (a', k) -> blits a' = blits a /\ hatoms a' = hatoms a /\ k = [].
Proof.
  intros a x a' k H. cbn in H. destruct (afrozen a); [discriminate|]. unfold blits, hatoms.
  destruct (abody a) as [[[bk bb] bl]|].
  - destruct (negb (bopen a)); [discriminate|]. inversion H; subst; cbn. auto.
  - destruct (hkind a =? MIN); [discriminate|]. inversion H; subst; cbn. auto.
Qed.
Print Assumptions c11_weight0_omitted.

Lemma Forall_ones l : Forall (fun p : Z * Z => snd p <> 0) (ones l).
Proof. unfold ones. apply Forall_forall. intros p Hp. apply in_map_iff in Hp. destruct Hp as (q & <- & _). cbn. lia. Qed.
Theorem c11_no_zero_weight : forall a o a' k, nz a -> astep a o = Some (a', k) -> nz a'.
Proof.
  intros a o a' k Hn H. unfold nz in *.
  assert (Hr : Forall (fun p : Z * Z => snd p <> 0) (blits (areset a))).
  { unfold areset. destruct (afrozen a); [constructor | exact Hn]. }
  destruct o; cbn in H.
  - destruct (ahead (areset a)); [discriminate|]. destruct ((ht =? 0) || (ht =? 1)); [|discriminate]. inversion H; subst. exact Hr.
  - destruct (ahead (areset a)); [discriminate|]. destruct (abody (areset a)); [discriminate|]. inversion H; subst. constructor.
  - destruct (abody (areset a)); [discriminate|]. destruct (hkind (areset a) =? MIN); [discriminate|]. inversion H; subst. constructor.
  - destruct (abody (areset a)); [discriminate|]. inversion H; subst. constructor.
  - destruct (afrozen a); [discriminate|]. unfold blits in *. destruct (abody a) as [[[bk bb] bl]|]; [|discriminate].
    destruct (bk =? 0); [discriminate|]. inversion H; subst. exact Hn.
  - destruct (afrozen a); [discriminate|]. unfold blits in *. destruct (ahead a) as [[hk hl]|].
    + destruct ((hk =? MIN) || negb (hopen a)); [discriminate|]. inversion H; subst. exact Hn.
    + inversion H; subst. exact Hn.
  - destruct (afrozen a); [discriminate|]. unfold blits in *. destruct (abody a) as [[[bk bb] bl]|].
    + destruct (negb (bopen a)); [discriminate|]. inversion H; subst; cbn. destruct (Z.eqb_spec w 0); [exact Hn|].
      apply Forall_app. split; [exact Hn|]. constructor; [|constructor]. cbn. destruct (bk =? 0); lia.
    + destruct (hkind a =? MIN); [discriminate|]. inversion H; subst; cbn. destruct (Z.eqb_spec w 0); constructor; [cbn; lia | constructor].
  - destruct (negb out).
    + inversion H; subst. exact Hn.
    + destruct ((hkind a =? MIN) && (bkind a =? 0)); [discriminate|]. inversion H; subst. exact Hn.
  - inversion H; subst. constructor.
  - inversion H; subst. constructor.
  - inversion H; subst. exact Hn.
  - destruct (afrozen a || (hkind a =? MIN) || negb ((to =? 0) || (to =? 1) || (to =? 2))); [discriminate|].
    unfold blits in *. destruct (abody a) as [[[bk bb] bl]|] eqn:Eb.
    + destruct ((bk =? 0) || (bk =? to)); [inversion H; subst; rewrite Eb; exact Hn|].
      destruct (to =? 0); [inversion H; subst; cbn; apply Forall_ones|].
      destruct ((to =? 2) && w && negb (Nat.eqb (length bl) 0)).
      * destruct (wk_bound bb (wmin bl)); [|discriminate]. inversion H; subst; cbn. apply Forall_ones.
      * inversion H; subst. exact Hn.
    + inversion H; subst. rewrite Eb. exact Hn.
Qed.
Print Assumptions c11_no_zero_weight.

(* Order independence: from any state in which a new rule can be described (frozen, or nothing started), describing
   the head first or the body first yields the same end() call - the described rule with weight-0 literals dropped -
   and the same answers to every query (thr: whether the receiver of that end() throws makes no difference). *)
Theorem c11_order_independent : forall c a ht hs bs k b ls thr,
  R c a -> fresh a -> ht = 0 \/ ht = 1 -> body_start_ok bs k b ->
  exists c1 c2,
    csteps c (describe_head ht hs ++ describe_body bs ls ++ [OEnd true thr]) = Ok (c1, [described ht hs k b ls]) /\
    csteps c (describe_body bs ls ++ describe_head ht hs ++ [OEnd true thr]) = Ok (c2, [described ht hs k b ls]) /\
    cquery c1 true = cquery c2 true /\
    q_head c1 = hs /\ q_btype c1 = k /\ q_bound c1 = b /\
    (if k =? 0 then q_body c1 = map fst (kept k ls) else q_wlits c1 = kept k ls).
Proof. exact order_independent. Qed.
Print Assumptions c11_order_independent.

Example c11_order_nonvacuous : forall cap, HDR <= cap -> R (cnew cap) anew /\ fresh anew /\ body_start_ok (OStartSum 7) 1 7.
Proof. intros cap H. split; [now apply R_new|]. split; [right; auto | right; auto]. Qed.

(* end(out) with a receiver that may THROW (OEnd out thr; thr = the receiver throws from rule()/minimize()).
   end() sets the frozen flag first and hands the rule over afterwards, so after end - whether or not the receiver
   throws - the builder is frozen, the receiver got exactly the finished rule, head()/body()/sum()/bound()/rule() still
   return the finished rule (all views unchanged by end), and every start operation behaves exactly as on a new
   builder: it begins from an empty rule. *)
Theorem c11_end_freezes : forall c a out thr a' calls,
  R c a -> astep a (OEnd out thr) = Some (a', calls) ->
  exists c', cstep c (OEnd out thr) = Ok (c', calls) /\ R c' a' /\
    frz c' = true /\ afrozen a' = true /\
    calls = (if out then [acall a] else []) /\
    q_head c' = hatoms a /\ styp (hd c') = hkind a /\ q_btype c' = bkind a /\ q_bound c' = bbound a /\
    (bkind a = 0 -> q_body c' = map fst (blits a)) /\ (bkind a <> 0 -> q_wlits c' = blits a) /\
    (forall full, cquery c' full = aquery a full) /\ (forall full, cquery c' full = cquery c full) /\
    (forall s, is_start s = true -> astep a' s = astep anew s) /\
    (forall s a2 k, is_start s = true -> astep anew s = Some (a2, k) -> exists c2, cstep c' s = Ok (c2, k) /\ R c2 a2).
Proof. exact end_freezes. Qed.
Print Assumptions c11_end_freezes.

(* the throw flag changes neither the state nor the call (only the status the harness prints) *)
Theorem c11_end_throw_irrelevant : forall c a out thr1 thr2,
  cstep c (OEnd out thr1) = cstep c (OEnd out thr2) /\ astep a (OEnd out thr1) = astep a (OEnd out thr2).
Proof. intros. split; reflexivity. Qed.
Print Assumptions c11_end_throw_irrelevant.

(* Nothing is inherited: after end (accepted or refused) a next rule that defines ONLY a head is reported and handed
   on as that head with an empty normal body; one that defines ONLY a body as that body with an empty head; one that
   defines both, in either order, as exactly what was described. *)
Theorem c11_refused_end_then_next : forall c a out thr a' calls,
  R c a -> astep a (OEnd out thr) = Some (a', calls) ->
  exists c', cstep c (OEnd out thr) = Ok (c', calls) /\ R c' a' /\ fresh a' /\
    (forall ht hs thr2, ht = 0 \/ ht = 1 ->
       exists c1, csteps c' (describe_head ht hs ++ [OEnd true thr2]) = Ok (c1, [CRule ht hs []]) /\
         q_head c1 = hs /\ q_btype c1 = 0 /\ q_body c1 = []) /\
    (forall bs k b ls thr2, body_start_ok bs k b ->
       exists c1, csteps c' (describe_body bs ls ++ [OEnd true thr2]) = Ok (c1, [described 0 [] k b ls]) /\
         q_head c1 = [] /\ q_btype c1 = k /\ q_bound c1 = b /\
         (if k =? 0 then q_body c1 = map fst (kept k ls) else q_wlits c1 = kept k ls)) /\
    (forall ht hs bs k b ls thr2, ht = 0 \/ ht = 1 -> body_start_ok bs k b ->
       exists c1 c2,
         csteps c' (describe_head ht hs ++ describe_body bs ls ++ [OEnd true thr2]) = Ok (c1, [described ht hs k b ls]) /\
         csteps c' (describe_body bs ls ++ describe_head ht hs ++ [OEnd true thr2]) = Ok (c2, [described ht hs k b ls]) /\
         cquery c1 true = cquery c2 true /\ q_head c1 = hs /\ q_btype c1 = k /\ q_bound c1 = b /\
         (if k =? 0 then q_body c1 = map fst (kept k ls) else q_wlits c1 = kept k ls)).
Proof. exact refused_end_then_next. Qed.
Print Assumptions c11_refused_end_then_next.

(* non-vacuity: the integrity constraint ":- 2, not 3." is described and its end(out) is refused (thr = true): the
   hypotheses hold for a reachable state with a non-empty body, and the concrete run of the whole scenario
   "refused constraint; start(); addHead(5); end(out); query" (initial size 64) hands on and reports the fact "5." *)
Example c11_refused_end_nonvacuous :
  (forall cap, HDR <= cap -> exists c a a',
     R c a /\ blits a = [(2, 1); (-3, 1)] /\ astep a (OEnd true true) = Some (a', [CRule 0 [] [2; -3]])) /\
  run_case [3;0; 17;0;2; 17;0;-3; 8;0;2; 1;0;0; 6;0;5; 8;0;1; 13;0;1]
  = [0; 0; 0; 3] ++ enc_call (CRule 0 [] [2; -3]) ++ [0; 0; 0] ++ enc_call (CRule 0 [5] [])
    ++ [1; 5; 1; 0; -1; 0; 0] ++ [0; 1; 5; 0; 0] /\
  arun (decode 19 [3;0; 17;0;2; 17;0;-3; 8;0;2; 1;0;0; 6;0;5; 8;0;1; 13;0;1])
  = Some (run_case [3;0; 17;0;2; 17;0;-3; 8;0;2; 1;0;0; 6;0;5; 8;0;1; 13;0;1]).
Proof.
  split; [|split; vm_compute; reflexivity].
  intros cap Hc.
  destruct (sim_steps [OStartBody; OAddGoal 2 1; OAddGoal (-3) 1] (cnew cap) anew
              (mkA false None (Some (0, -1, [(2, 1); (-3, 1)])) true) [] (R_new cap Hc)) as (c & _ & HR).
  { vm_compute. reflexivity. }
  exists c. eexists. eexists. split; [exact HR|]. split; vm_compute; reflexivity.
Qed.

(* Growth independence: the observation of an admissible history does not depend on the initial capacity, i.e. on
   when and how often the region is reallocated. *)
Theorem c11_growth_independent : forall cap1 cap2 ops obs,
  HDR <= cap1 -> HDR <= cap2 -> arun ops = Some obs -> run cap1 ops = run cap2 ops.
Proof. intros cap1 cap2 ops obs H1 H2 Ha. rewrite (history cap1 ops obs H1 Ha), (history cap2 ops obs H2 Ha). reflexivity. Qed.
Print Assumptions c11_growth_independent.

(* Copies: the copy constructor (memcpy of top bytes into a region of exactly top bytes) transfers the abstraction. *)
Theorem c11_copy : forall c a, R c a -> R (ccopy c) a /\ size (ccopy c) = top c /\ alloc (ccopy c) = top c.
Proof. intros c a HR. split; [now apply R_copy | split; reflexivity]. Qed.
Print Assumptions c11_copy.

(* Protocol: the violations of class `detected` (update of a frozen rule, addHead/addGoal into a closed non-empty
   part, second start of a non-empty part, startMinimize on a started rule, setBound without sum body, end(out) of a
   minimize statement without sum body) end in the assertion error - after any admissible prefix. *)
Theorem c11_protocol_step : forall c a o, R c a -> detected a o = true -> cstep c o = Err E_ASSERT.
Proof. exact detected_assert. Qed.
Print Assumptions c11_protocol_step.

Theorem c11_protocol_partial : forall cap pre i o rest obs ta,
  HDR <= cap -> arun_st (mkT anew anew anew) pre = Some (obs, ta) -> detected (getb ta i) o = true ->
  run cap (pre ++ MOp i o :: rest) = obs ++ [E_ASSERT].
Proof. exact protocol. Qed.
Print Assumptions c11_protocol_partial.
(* `_partial`: DESIGN.md asks for "inadmissible sequences end in Err Assert, never a wrong rule".  That is false for the
   code: some violations are tolerated silently (witnesses below), so only the detected class is proved to assert.
   The property text itself quantifies over admissible sequences only. *)

(* second startSum on an empty body is ignored: startBody; startSum 5; addGoal(1,2); end -> normal rule ":- 1." *)
Theorem c11_protocol_total_refuted :
  exists ops, arun ops = None /\
    run RB_INIT_SIZE ops = [0; 0; 0; 0] ++ enc_call (CRule 0 [] [1]).
Proof.
  exists [MOp 0 OStartBody; MOp 0 (OStartSum 5); MOp 0 (OAddGoal 1 2); MOp 0 (OEnd true false)].
  split; vm_compute; reflexivity.
Qed.
Print Assumptions c11_protocol_total_refuted.
(* weaken(Count) on a minimize statement is not refused either: #minimize{1=4, 2=6}@3 becomes priority (3+3)/4 = 1 *)
Example c11_tolerated_weaken_minimize :
  arun [MOp 0 (OStartMin 3); MOp 0 (OAddGoal 1 4); MOp 0 (OAddGoal 2 6); MOp 0 (OWeaken 2 true); MOp 0 (OEnd true false)] = None /\
  run RB_INIT_SIZE [MOp 0 (OStartMin 3); MOp 0 (OAddGoal 1 4); MOp 0 (OAddGoal 2 6); MOp 0 (OWeaken 2 true); MOp 0 (OEnd true false)]
  = [0; 0; 0; 0; 0] ++ enc_call (CMin 1 [(1, 1); (2, 1)]).
Proof. split; vm_compute; reflexivity. Qed.

(* ---- non-vacuity: a history with 14 head atoms, growth between head and body, weight 0, weaken, copy, clearBody
   on the frozen copy, reuse - admitted by the specification, and the concrete run (initial size 64) agrees ---- *)
Definition demo : list Z :=
  [1;0;1] ++ flat_map (fun x => [6;0;x]) [1;2;3;4;5;6;7;8;9;10;11;12;13;14] ++
  [4;0;5; 7;0;21;4; 7;0;22;0; 7;0;-23;6; 14;0;1; 12;0;2;1; 13;0;1; 8;0;1;
   8;1;1; 10;1; 3;1; 17;1;-9; 8;1;1; 13;1;1; 1;0;0; 6;0;77; 8;0;1; 16;0;2; 13;2;1; 13;0;1].
Example c11_history_nonvacuous :
  arun (decode (length demo) demo) = Some (run_case demo) /\ (length (run_case demo) > 100)%nat.
Proof. split; vm_compute; [reflexivity | lia]. Qed.
Example c11_protocol_nonvacuous :
  exists obs ta, arun_st (mkT anew anew anew) [MOp 0 (OStart 0); MOp 0 (OAddHead 1); MOp 0 (OEnd false false)] = Some (obs, ta)
                 /\ detected (getb ta 0) (OAddGoal 2 1) = true.
Proof. eexists; eexists; split; vm_compute; reflexivity. Qed.
