Require Import ExtrOcamlBasic.
Require Import V.C18.Disp.
Extraction "model.ml" run_case.
