Require Import ExtrOcamlBasic.
Require Import V.C18.Model.
Extraction "model.ml" run_case.
