(* C09 - Buffered input is transparent.  Property theorems only; proofs are in C09/Proofs*.v. *)
Require Import V.Lib.Base V.Gen.Consts V.C09.Spec V.C09.Model V.C09.ARun V.C09.Proofs4.
Local Open Scope Z_scope.

(* The buffered implementation model, at ANY buffer size N >= 2, produces for every NUL-free input
   and every operation list (tokens NUL-free and no longer than the buffer; unget only directly
   after an extracting operation, which is what "Some obs" of the specification run encodes)
   exactly the observations of the plain byte-list specification: every peek/get/match/int/copy
   result, every line() and end() answer, the final line number and end flag, and no fault
   (no read outside the filled part of the buffer, no fuel exhaustion). *)
Theorem c09_refines : forall (N : nat) input ops obs,
  (2 <= N)%nat -> nul_free input -> Forall (tok_ok N) ops ->
  a_run input ops = Some obs -> run N input ops = obs.
Proof. intros N input ops obs HN. exact (refines N HN input ops obs). Qed.
Print Assumptions c09_refines.

(* "None of this depends on ... where the buffer boundaries fall": any two buffer sizes agree. *)
Theorem c09_transparent : forall N1 N2 input ops obs,
  (2 <= N1)%nat -> (2 <= N2)%nat -> nul_free input ->
  Forall (tok_ok N1) ops -> Forall (tok_ok N2) ops ->
  a_run input ops = Some obs ->
  run N1 input ops = obs /\ run N2 input ops = obs.
Proof. exact transparent. Qed.
Print Assumptions c09_transparent.

(* The shipped buffer size (regenerated from potassco/match_basic_types.h on every run) is covered. *)
Theorem c09_shipped_size : forall input ops obs,
  nul_free input -> Forall (tok_ok (Z.to_nat BUF_SIZE)) ops ->
  a_run input ops = Some obs -> run (Z.to_nat BUF_SIZE) input ops = obs.
Proof.
  intros input ops obs. apply refines.
  apply Nat2Z.inj_le. rewrite Z2Nat.id by (unfold BUF_SIZE; lia). unfold BUF_SIZE. lia.
Qed.
Print Assumptions c09_shipped_size.
Theorem c09_alloc_is_buf_plus_one : ALLOC_EXTRA = 1.
Proof. reflexivity. Qed.

(* What a client observes, stated on the specification (and therefore, by c09_refines, on the
   implementation model): a failed token match consumes nothing; a raw copy returns exactly the
   requested bytes or all that remain, and counts the LF bytes it extracts; a run of gets leaves
   the line number at one plus the newlines delivered (CR, LF and CRLF each delivered as one LF). *)
Theorem c09_failed_match_consumes_nothing : forall w s,
  fst (a_match_tok w s) = false -> snd (a_match_tok w s) = s.
Proof. exact a_match_fail_consumes_nothing. Qed.
Print Assumptions c09_failed_match_consumes_nothing.

(* A put-back the buffered stream refuses (no room in front of the read position) changes nothing at all - not the window, not the
   read position and in particular not the line counter, whatever the character (this is stated of the buffered model itself, whose unget does not
   depend on the buffer size: the specification stream has no notion of "no room"). *)
Theorem c09_refused_unget_changes_nothing : forall c s,
  fst (unget c s) = false -> snd (unget c s) = s.
Proof. intros c s; unfold unget; destruct (rpos s); cbn; [reflexivity | discriminate]. Qed.
Print Assumptions c09_refused_unget_changes_nothing.

Theorem c09_copy_exact : forall k s, 0 <= k ->
  let '(n, bs, s') := a_copy k s in
  bs = firstn (Z.to_nat k) (rest s) /\ n = Z.of_nat (length bs) /\
  n = Z.min k (Z.of_nat (length (rest s))) /\ rest s = bs ++ rest s' /\ aline s' = aline s + count_eq 10 bs.
Proof. exact a_copy_exact. Qed.
Print Assumptions c09_copy_exact.

Theorem c09_line_counts_delivered_newlines : forall n input outs s',
  a_run_ops (a_init input) false (repeat OGet n) = Some (outs, s') -> aline s' = 1 + count_eq 10 outs.
Proof. intros n input outs s' H. apply (a_gets_line n _ _ _ _ H). Qed.
Print Assumptions c09_line_counts_delivered_newlines.

(* ---- non-vacuity: concrete runs that satisfy the hypotheses and straddle refills ---- *)
Definition ex_input : list Z := [97;98;13;10;49;50;51;52;53;32;120;121;122;10;113].
Definition ex_ops : list op :=
  [OGet; OGet; OUnget 98; OGet; OGet; OLine; OInt false; OSkipWs; OMatch [120;121;123]; OMatch [120;121;122];
   OPeek; OCopy 5; OLine; OEnd].
Example c09_spec_run_defined :
  a_run ex_input ex_ops = Some [97;98;1;98;10;2;1;12345;0;1;10;2;10;113;3;1;3;1;0].
Proof. vm_compute. reflexivity. Qed.
Example c09_hyps_hold : nul_free ex_input /\ Forall (tok_ok 3) ex_ops /\ Forall (tok_ok 16) ex_ops.
Proof.
  split; [repeat constructor; discriminate|].
  split; repeat constructor; cbn; try discriminate; try lia.
Qed.
Example c09_same_at_3_4_16 :
  run 3 ex_input ex_ops = run 16 ex_input ex_ops /\ run 4 ex_input ex_ops = run 16 ex_input ex_ops.
Proof. vm_compute. split; reflexivity. Qed.
