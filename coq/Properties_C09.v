Require Import V.Lib.Base V.C09.Model.
Local Open Scope Z_scope.
Example c09_smoke : run 4 [97;98;99;100;101;102] [OGet; OGet; OGet; OGet; OGet; OPeek] = [97;98;99;100;101;102;1;0;0].
Proof. vm_compute. reflexivity. Qed.
Print Assumptions c09_smoke.
