(* C14 - the property theorems: findImpl / find / tryFind / getOption against the brute-force matches, duplicates. *)
Require Import V.Lib.Base V.Gen.Consts_C14 V.C14.Model V.C14.Spec V.C14.Proofs V.C14.Proofs2 V.C14.Proofs3.
Local Open Scope Z_scope.

Lemma find_impl_outcome key t m c : find_impl key t m c = outcome m (find_range key t c).
Proof.
  unfold find_impl, outcome. destruct (find_range key t c) as [|e [|e' r]]; simpl.
  - destruct (negb (m =? 0)), (negb (Z.land m emask_unknown =? 0)), (negb (Z.land m emask_ambiguous =? 0)); reflexivity.
  - reflexivity.
  - destruct (negb (m =? 0)), (negb (Z.land m emask_unknown =? 0)), (negb (Z.land m emask_ambiguous =? 0)); reflexivity.
Qed.

Theorem find_impl_thm c al t key m : built c al -> domain c al -> key_ok t key ->
  let M := matches c al t key in let S := find_range key t c in
  find_impl key t m c = outcome m S /\ covers c al S M /\ (S = [] <-> M = []) /\ (length S = 1%nat <-> length M = 1%nat).
Proof.
  intros Hb Hd Hk M S. pose proof (built_inv c al Hb) as HI.
  destruct (find_range_spec c al HI Hd t key Hk) as (Hc & Hn & Hdd).
  split; [apply find_impl_outcome|]. split; [exact Hc|]. apply (covers_counts c al); assumption.
Qed.

Lemma len1 {A} (l : list A) : length l = 1%nat -> exists x, l = [x].
Proof. destruct l as [|x [|? ?]]; try discriminate. intros _. exists x. reflexivity. Qed.

Lemma single_covers c al S i : covers c al S [i] -> length S = 1%nat -> exists k, S = [(k, i)].
Proof.
  intros [H1 _] HS. apply len1 in HS. destruct HS as [[k j] HS]. subst S. exists k.
  destruct (H1 k j (or_introl eq_refl)) as [[Hj|[]] _]. subst j. reflexivity.
Qed.

Lemma several {A} (S : list A) : S <> [] -> length S <> 1%nat -> exists a b r, S = a :: b :: r.
Proof. destruct S as [|a [|b r]]; intros H1 H2; [congruence|simpl in H2; congruence|]. exists a, b, r. reflexivity. Qed.

Section Lookups.
Variables (c : ctx) (al : aliases) (t : Z) (key : list Z).
Hypothesis Hb : built c al.
Hypothesis Hd : domain c al.
Hypothesis Hk : key_ok t key.
Let M := matches c al t key.

Theorem find_thm :
  (M = [] -> find key t c = Unknown) /\
  (forall i, M = [i] -> find key t c = Found i) /\
  ((2 <= length M)%nat -> exists S, find key t c = Ambiguous S /\ (2 <= length S)%nat /\ covers c al S M).
Proof.
  destruct (find_impl_thm c al t key find_emask Hb Hd Hk) as (Hf & Hc & H0 & H1). fold M in Hc, H0, H1.
  unfold find. rewrite Hf. split; [|split].
  - intros HM. rewrite (proj2 H0 HM). reflexivity.
  - intros i HM. rewrite HM in *. destruct (single_covers c al _ i Hc (proj2 H1 eq_refl)) as [k ->]. reflexivity.
  - intros HM. destruct (several (find_range key t c)) as (a & b & r & HS).
    + intros E. apply H0 in E. rewrite E in HM. simpl in HM. lia.
    + intros E. apply H1 in E. lia.
    + rewrite HS in *. exists (a :: b :: r). split; [reflexivity|]. split; [simpl; lia|exact Hc].
Qed.

Theorem find_iff :
  (find key t c = Unknown <-> M = []) /\
  ((exists i, find key t c = Found i) <-> length M = 1%nat) /\
  ((exists S, find key t c = Ambiguous S) <-> (2 <= length M)%nat) /\
  find key t c <> NotFound.
Proof.
  destruct find_thm as (H0 & H1 & H2).
  destruct M as [|i [|j l]] eqn:EM.
  - rewrite (H0 eq_refl). repeat split; try congruence; try (intros [? ?]; discriminate); simpl; try lia; discriminate.
  - rewrite (H1 i eq_refl). repeat split; try congruence; try discriminate; try (intros [? ?]; discriminate); simpl; try lia.
    intros _. exists i. reflexivity.
  - destruct H2 as (S & HS & _); [simpl; lia|]. rewrite HS. repeat split; try congruence; try discriminate; try (intros [? ?]; discriminate); simpl; try lia.
    intros _. exists S. reflexivity.
Qed.

Theorem tryfind_thm :
  (forall i, M = [i] -> try_find key t c = Some i) /\ (length M <> 1%nat -> try_find key t c = None).
Proof.
  destruct (find_impl_thm c al t key tryfind_emask Hb Hd Hk) as (Hf & Hc & H0 & H1). fold M in Hc, H0, H1.
  unfold try_find. rewrite Hf. split.
  - intros i HM. rewrite HM in *. destruct (single_covers c al _ i Hc (proj2 H1 eq_refl)) as [k ->]. reflexivity.
  - intros HM. destruct (find_range key t c) as [|a [|b r]] eqn:ES; [reflexivity| |reflexivity].
    exfalso. apply HM. apply H1. reflexivity.
Qed.

Theorem getoption_thm allow :
  (M = [] -> get_option allow key t c = if allow then NotFound else Unknown) /\
  (forall i, M = [i] -> get_option allow key t c = Found i) /\
  ((2 <= length M)%nat -> exists S, get_option allow key t c = Ambiguous S /\ covers c al S M).
Proof.
  destruct (find_impl_thm c al t key (ctx_emask_base + (if allow then 0 else 1)) Hb Hd Hk) as (Hf & Hc & H0 & H1). fold M in Hc, H0, H1.
  unfold get_option. rewrite Hf. split; [|split].
  - intros HM. rewrite (proj2 H0 HM). destruct allow; reflexivity.
  - intros i HM. rewrite HM in *. destruct (single_covers c al _ i Hc (proj2 H1 eq_refl)) as [k ->]. reflexivity.
  - intros HM. destruct (several (find_range key t c)) as (a & b & r & HS).
    + intros E. apply H0 in E. rewrite E in HM. simpl in HM. lia.
    + intros E. apply H1 in E. lia.
    + rewrite HS in *. exists (a :: b :: r). split; [destruct allow; reflexivity|exact Hc].
Qed.
End Lookups.

(* ---- c14_range ---- *)
Theorem range_thm k idx : sorted idx -> (forall e, In e idx -> Forall (fun b => 1 <= b <= 126) (fst e)) ->
  (lower_bound k idx <= upper_bound (k ++ [CHAR_MAX]) idx)%nat /\
  firstn (upper_bound (k ++ [CHAR_MAX]) idx - lower_bound k idx) (skipn (lower_bound k idx) idx)
  = filter (fun e => is_prefix k (fst e)) idx.
Proof.
  intros Hs Hb. apply prefix_range; [exact Hs|]. intros e He. specialize (Hb e He).
  revert Hb. apply Forall_impl. intros b Hbb. unfold CHAR_MAX. lia.
Qed.

Theorem built_index c al : built c al ->
  sorted (index c) /\ forall k i, In (k, i) (index c) <-> is_key c al i k.
Proof. intros Hb. destruct (built_inv c al Hb) as [H1 H2 _]. split; assumption. Qed.

(* ---- duplicates ---- *)
Lemma in_keys c k : In k (keys c) <-> exists v, In (k, v) (index c).
Proof.
  unfold keys. rewrite in_map_iff. split.
  - intros ([k' v] & Hf & Hin). simpl in Hf. subst. exists v. exact Hin.
  - intros [v Hin]. exists (k, v). split; [reflexivity|exact Hin].
Qed.

Theorem insert_option_thm gid o c al : Inv c al -> oname o <> [] ->
  let r := insert_option gid o c in
  (snd r = false <-> (oalias o <> 0 /\ In (alias_key (oalias o)) (keys c)) \/ In (oname o) (keys c) \/ (oalias o <> 0 /\ oname o = alias_key (oalias o))) /\
  (snd r = false -> index (fst r) = index c /\ options (fst r) = options c) /\
  (snd r = true -> options (fst r) = options c ++ [o] /\ forall k, In k (keys (fst r)) <-> In k (opt_keys o) \/ In k (keys c)).
Proof.
  intros [Hs _ _] Hne r. subst r.
  assert (Hnil : is_nil (oname o) = false) by (destruct (oname o); [congruence|reflexivity]).
  destruct (insert_option_cases gid o c) as [(Hr & Hi & Ho)|(Hr & Ho & _ & i1 & E1 & E2)].
  - split; [|split; [intros _; split; assumption|rewrite Hr; discriminate]].
    split; [intros _|intros _; exact Hr].
    (* which insertion failed *)
    unfold insert_option in Hr. rewrite Hnil in Hr.
    destruct (Z.eqb_spec (oalias o) 0) as [Ez|Ez]; simpl in Hr.
    + destruct (idx_insert (oname o) (length (options c)) (index c)) eqn:E; [discriminate|].
      right. left. apply in_keys. exact (proj1 (insert_none _ _ _ Hs) E).
    + destruct (idx_insert (alias_key (oalias o)) (length (options c)) (index c)) as [j1|] eqn:Ea.
      * destruct (idx_insert (oname o) (length (options c)) j1) eqn:E; [discriminate|].
        destruct (insert_spec _ _ _ _ Hs Ea) as [Hs1 Hin1].
        apply (insert_none _ _ _ Hs1) in E. destruct E as [v Hv]. apply Hin1 in Hv. destruct Hv as [Hv|Hv].
        -- right. right. split; [exact Ez|]. congruence.
        -- right. left. apply in_keys. exists v. exact Hv.
      * left. split; [exact Ez|]. apply in_keys. exact (proj1 (insert_none _ _ _ Hs) Ea).
  - rewrite Hnil in E2.
    assert (H1 : sorted i1 /\ forall e, In e i1 <-> (oalias o <> 0 /\ e = (alias_key (oalias o), length (options c))) \/ In e (index c)).
    { destruct (Z.eqb_spec (oalias o) 0) as [Ez|Ez]; simpl in E1.
      - inversion E1; subst i1. split; [exact Hs|]. intros e. intuition congruence.
      - destruct (insert_spec _ _ _ _ Hs E1) as [Hs1 Hin1]. split; [exact Hs1|]. intros e. rewrite Hin1. intuition congruence. }
    destruct H1 as [Hs1 Hin1]. destruct (insert_spec _ _ _ _ Hs1 E2) as [_ Hin2].
    split; [|split; [rewrite Hr; discriminate|]].
    + split; [rewrite Hr; discriminate|]. intros Hcl. exfalso.
      assert (Hnone : forall j, idx_insert (oname o) (length (options c)) j = Some (index (fst (insert_option gid o c))) -> sorted j -> ~ exists v, In (oname o, v) j).
      { intros j Ej Hsj Hex. apply (insert_none (oname o) (length (options c)) j Hsj) in Hex. congruence. }
      destruct Hcl as [[Ez Hin]|[Hin|[Ez Heq]]].
      * apply in_keys in Hin. apply (insert_none (alias_key (oalias o)) (length (options c)) _ Hs) in Hin.
        destruct (Z.eqb_spec (oalias o) 0); [contradiction|]. simpl in E1. congruence.
      * apply in_keys in Hin. destruct Hin as [v Hv]. apply (Hnone i1 E2 Hs1). exists v. apply Hin1. right. exact Hv.
      * apply (Hnone i1 E2 Hs1). exists (length (options c)). apply Hin1. left. split; [exact Ez|]. rewrite Heq. reflexivity.
    + intros _. split; [exact Ho|]. intros k. rewrite !in_keys. unfold opt_keys. split.
      * intros [v Hv]. apply Hin2 in Hv. destruct Hv as [Hv|Hv].
        -- inversion Hv; subst. left. apply in_or_app. right. left. reflexivity.
        -- apply Hin1 in Hv. destruct Hv as [[Ez Hv]|Hv].
           ++ inversion Hv; subst. left. apply in_or_app. left. destruct (Z.eqb_spec (oalias o) 0); [contradiction|]. left. reflexivity.
           ++ right. exists v. exact Hv.
      * intros [Hin|[v Hv]].
        -- apply in_app_or in Hin. destruct Hin as [Hin|[Hin|[]]].
           ++ destruct (Z.eqb_spec (oalias o) 0) as [Ez|Ez]; [destruct Hin|]. destruct Hin as [Hin|[]]. subst k.
              exists (length (options c)). apply Hin2. right. apply Hin1. left. split; [exact Ez|reflexivity].
           ++ subst k. exists (length (options c)). apply Hin2. left. reflexivity.
        -- exists v. apply Hin2. right. apply Hin1. right. exact Hv.
Qed.

Theorem add_alias_thm n i c al : Inv c al ->
  let r := add_alias n i c in
  (snd r <> None <-> (i < length (options c))%nat /\ n <> [] /\ In n (keys c)) /\
  (snd r <> None -> snd r = Some n /\ fst r = c) /\
  (snd r = None -> options (fst r) = options c /\
     forall k, In k (keys (fst r)) <-> ((i < length (options c))%nat /\ n <> [] /\ k = n) \/ In k (keys c)).
Proof.
  intros [Hs _ _] r. unfold r, add_alias.
  destruct (Nat.ltb_spec i (length (options c))) as [Hlt|Hge]; simpl.
  2:{ split; [split; [congruence|intros [? _]; lia]|]. split; [congruence|]. intros _. split; [reflexivity|]. intros k. split; [tauto|]. intros [[? _]|H]; [lia|exact H]. }
  destruct n as [|x n]; simpl.
  { split; [split; [congruence|intros [_ [? _]]; congruence]|]. split; [congruence|]. intros _. split; [reflexivity|]. intros k. split; [tauto|]. intros [[_ [? _]]|H]; [congruence|exact H]. }
  destruct (idx_insert (x :: n) i (index c)) as [ix|] eqn:E; simpl.
  - destruct (insert_spec _ _ _ _ Hs E) as [_ Hin].
    split; [split; [congruence|]|].
    + intros (_ & _ & Hk). apply in_keys in Hk. apply (insert_none (x :: n) i _ Hs) in Hk. congruence.
    + split; [congruence|]. intros _. split; [reflexivity|]. intros k. rewrite !in_keys. simpl. split.
      * intros [v Hv]. apply Hin in Hv. destruct Hv as [Hv|Hv]; [inversion Hv; subst; left; repeat split; [exact Hlt|discriminate]|right; exists v; exact Hv].
      * intros [(_ & _ & ->)|[v Hv]]; [exists i; apply Hin; left; reflexivity|exists v; apply Hin; right; exact Hv].
  - split; [split; [intros _|congruence]|].
    + split; [exact Hlt|]. split; [discriminate|]. apply in_keys. exact (proj1 (insert_none _ _ _ Hs) E).
    + split; [intros _; split; reflexivity|discriminate].
Qed.
