(* C14 - lemmas about the sorted index: lexicographic order, insert/erase, lower/upper bound, prefix range. *)
Require Import V.Lib.Base V.Gen.Consts_C14 V.C14.Model.
Local Open Scope Z_scope.

(* ---------- list_eqb ---------- *)
Lemma list_eqb_refl a : list_eqb a a = true.
Proof. apply list_eqb_eq. reflexivity. Qed.

Lemma list_eqb_neq a b : a <> b -> list_eqb a b = false.
Proof. intro H. destruct (list_eqb a b) eqn:E; [apply list_eqb_eq in E; contradiction | reflexivity]. Qed.

(* ---------- lexicographic order ---------- *)
Lemma lex_ltb_irrefl a : lex_ltb a a = false.
Proof. induction a as [|x a IH]; simpl; [reflexivity|]. rewrite Z.ltb_irrefl. exact IH. Qed.

Lemma lex_ltb_trans a : forall b c, lex_ltb a b = true -> lex_ltb b c = true -> lex_ltb a c = true.
Proof.
  induction a as [|x a IH]; intros [|y b] [|z c] H1 H2; simpl in *; try discriminate; try reflexivity.
  destruct (Z.ltb_spec x y), (Z.ltb_spec y x), (Z.ltb_spec y z), (Z.ltb_spec z y), (Z.ltb_spec x z), (Z.ltb_spec z x);
    try discriminate; try reflexivity; try lia.
  eapply IH; eassumption.
Qed.

Lemma lex_ltb_asym a : forall b, lex_ltb a b = true -> lex_ltb b a = false.
Proof.
  induction a as [|x a IH]; intros [|y b] H; simpl in *; try discriminate; try reflexivity.
  destruct (Z.ltb_spec x y), (Z.ltb_spec y x); try discriminate; try reflexivity; try lia. apply IH; assumption.
Qed.

Lemma lex_ltb_total a : forall b, lex_ltb a b = false -> lex_ltb b a = false -> a = b.
Proof.
  induction a as [|x a IH]; intros [|y b] H1 H2; simpl in *; try discriminate; try reflexivity.
  destruct (Z.ltb_spec x y), (Z.ltb_spec y x); try discriminate; try lia.
  assert (x = y) by lia. subst. f_equal. apply IH; assumption.
Qed.

Lemma lex_ltb_app k : forall c r, lex_ltb k (k ++ c :: r) = true.
Proof. induction k as [|x k IH]; intros; simpl; [reflexivity|]. rewrite Z.ltb_irrefl. apply IH. Qed.

Lemma lex_ltb_neq a b : lex_ltb a b = true -> a <> b.
Proof. intros H E. subst. rewrite lex_ltb_irrefl in H. discriminate. Qed.

(* the CHAR_MAX sentinel: for keys over bytes < CHAR_MAX, [k, k.CHAR_MAX] is exactly "has prefix k" *)
Lemma prefix_sentinel k : forall e, Forall (fun b => b < CHAR_MAX) e ->
  negb (lex_ltb e k) && negb (lex_ltb (k ++ [CHAR_MAX]) e) = is_prefix k e.
Proof.
  induction k as [|x k IH]; intros e He.
  - destruct e as [|y e]; simpl; [reflexivity|]. inversion He; subst.
    destruct (Z.ltb_spec CHAR_MAX y); [lia|]. destruct (Z.ltb_spec y CHAR_MAX); [reflexivity|lia].
  - destruct e as [|y e]; simpl; [reflexivity|]. inversion He; subst.
    destruct (Z.ltb_spec y x), (Z.ltb_spec x y), (Z.eqb_spec x y); simpl; try reflexivity; try lia.
    apply IH. assumption.
Qed.

Lemma is_prefix_app k : forall e, is_prefix k e = true -> exists r, e = k ++ r.
Proof.
  induction k as [|x k IH]; intros e H; [exists e; reflexivity|].
  destruct e as [|y e]; simpl in H; [discriminate|]. apply andb_true_iff in H. destruct H as [H1 H2].
  apply Z.eqb_eq in H1. subst. destruct (IH _ H2) as [r Hr]. exists r. simpl. congruence.
Qed.

Lemma is_prefix_hd k e : k <> [] -> is_prefix k e = true -> hd 0 e = hd 0 k.
Proof.
  destruct k as [|x k]; [congruence|]. destruct e as [|y e]; simpl; [discriminate|].
  intros _ H. apply andb_true_iff in H. destruct H as [H _]. apply Z.eqb_eq in H. congruence.
Qed.

(* ---------- sorted index ---------- *)
Fixpoint sorted (idx : list entry) : Prop :=
  match idx with
  | [] => True
  | e :: r => (forall e', In e' r -> lex_ltb (fst e) (fst e') = true) /\ sorted r
  end.

Lemma sorted_unique idx : sorted idx -> forall k i j, In (k, i) idx -> In (k, j) idx -> i = j.
Proof.
  induction idx as [|e r IH]; simpl; intros Hs k i j Hi Hj; [contradiction|].
  destruct Hs as [Hlt Hs].
  destruct Hi as [Hi|Hi], Hj as [Hj|Hj].
  - congruence.
  - subst e. specialize (Hlt _ Hj). simpl in Hlt. rewrite lex_ltb_irrefl in Hlt. discriminate.
  - subst e. specialize (Hlt _ Hi). simpl in Hlt. rewrite lex_ltb_irrefl in Hlt. discriminate.
  - eapply IH; eassumption.
Qed.

Lemma insert_spec k v : forall idx idx', sorted idx -> idx_insert k v idx = Some idx' ->
  sorted idx' /\ (forall e, In e idx' <-> e = (k, v) \/ In e idx).
Proof.
  induction idx as [|[k' v'] r IH]; simpl; intros idx' Hs H.
  - inversion H; subst. simpl. split; [split; [intros ? []|exact I]|]. intros e. intuition congruence.
  - destruct Hs as [Hlt Hs].
    destruct (lex_ltb k k') eqn:E1.
    + inversion H; subst. split.
      * simpl. split; [|split; assumption]. intros e' [He|He]; [subst; exact E1|].
        eapply lex_ltb_trans; [exact E1|]. apply (Hlt _ He).
      * intros e. simpl. intuition congruence.
    + destruct (lex_ltb k' k) eqn:E2; [|discriminate].
      destruct (idx_insert k v r) as [r'|] eqn:E3; [|discriminate]. inversion H; subst.
      destruct (IH _ Hs eq_refl) as [Hs' Hin]. split.
      * simpl. split; [|exact Hs']. intros e' He. apply Hin in He. destruct He as [He|He]; [subst; exact E2|apply (Hlt _ He)].
      * intros e. simpl. rewrite Hin. intuition congruence.
Qed.

Lemma insert_none k v : forall idx, sorted idx -> (idx_insert k v idx = None <-> exists v', In (k, v') idx).
Proof.
  induction idx as [|[k' v'] r IH]; simpl; intros Hs.
  - split; [discriminate|intros [? []]].
  - destruct Hs as [Hlt Hs].
    destruct (lex_ltb k k') eqn:E1.
    + split; [discriminate|]. intros [w [Hw|Hw]].
      * inversion Hw; subst. rewrite lex_ltb_irrefl in E1. discriminate.
      * specialize (Hlt _ Hw). simpl in Hlt. rewrite (lex_ltb_asym _ _ Hlt) in E1. discriminate.
    + destruct (lex_ltb k' k) eqn:E2.
      * destruct (idx_insert k v r) eqn:E3.
        -- split; [discriminate|]. intros [w [Hw|Hw]].
           ++ inversion Hw; subst. rewrite lex_ltb_irrefl in E2. discriminate.
           ++ pose proof (proj2 (IH Hs) (ex_intro _ w Hw)) as Hn. discriminate Hn.
        -- split; [|reflexivity]. intros _. destruct (proj1 (IH Hs) eq_refl) as [w Hw]. exists w. right. exact Hw.
      * split; [|reflexivity]. intros _. exists v'. left. f_equal. apply lex_ltb_total; assumption.
Qed.

Lemma erase_insert k v : forall idx idx', idx_insert k v idx = Some idx' -> idx_erase k idx' = idx.
Proof.
  induction idx as [|[k' v'] r IH]; simpl; intros idx' H.
  - inversion H; subst. simpl. rewrite list_eqb_refl. reflexivity.
  - destruct (lex_ltb k k') eqn:E1.
    + inversion H; subst. simpl. rewrite list_eqb_refl. reflexivity.
    + destruct (lex_ltb k' k) eqn:E2; [|discriminate].
      destruct (idx_insert k v r) as [r'|] eqn:E3; [|discriminate]. inversion H; subst. simpl.
      rewrite (list_eqb_neq k' k (lex_ltb_neq _ _ E2)). f_equal. apply IH. reflexivity.
Qed.

(* lower_bound finds an existing key *)
Lemma lower_bound_exact k i : forall idx, sorted idx -> In (k, i) idx -> nth_error idx (lower_bound k idx) = Some (k, i).
Proof.
  induction idx as [|[k' v'] r IH]; simpl; intros Hs Hin; [contradiction|].
  destruct Hs as [Hlt Hs]. destruct Hin as [Hin|Hin].
  - inversion Hin; subst. rewrite lex_ltb_irrefl. reflexivity.
  - specialize (Hlt _ Hin). simpl in Hlt. rewrite Hlt. simpl. apply IH; assumption.
Qed.

Lemma lower_bound_ge k : forall idx, sorted idx -> forall e, nth_error idx (lower_bound k idx) = Some e -> lex_ltb (fst e) k = false.
Proof.
  induction idx as [|[k' v'] r IH]; simpl; intros Hs e H; [discriminate|].
  destruct Hs as [Hlt Hs]. destruct (lex_ltb k' k) eqn:E; simpl in H.
  - eapply IH; eassumption.
  - inversion H; subst. exact E.
Qed.

(* the range [lower_bound k, upper_bound k') of a sorted index, k <= k' *)
Lemma range_filter k k' : lex_ltb k k' = true -> forall idx, sorted idx ->
  (lower_bound k idx <= upper_bound k' idx)%nat /\
  firstn (upper_bound k' idx - lower_bound k idx) (skipn (lower_bound k idx) idx)
  = filter (fun e => negb (lex_ltb (fst e) k) && negb (lex_ltb k' (fst e))) idx.
Proof.
  intros Hkk. induction idx as [|[a v] r IH]; simpl; intros Hs; [split; [lia|reflexivity]|].
  destruct Hs as [Hlt Hs]. specialize (IH Hs). destruct IH as [IH1 IH2].
  destruct (lex_ltb a k) eqn:E1.
  - assert (E2 : lex_ltb k' a = false) by (apply lex_ltb_asym; eapply lex_ltb_trans; eassumption).
    rewrite E2. simpl. split; [lia|]. exact IH2.
  - simpl. destruct (lex_ltb k' a) eqn:E2; simpl.
    + split; [lia|]. symmetry.
      assert (Hall : forall e, In e r -> negb (lex_ltb (fst e) k) && negb (lex_ltb k' (fst e)) = false).
      { intros e He. specialize (Hlt _ He). simpl in Hlt. rewrite (lex_ltb_trans _ _ _ E2 Hlt). apply andb_false_r. }
      clear -Hall. induction r as [|e r IHr]; simpl; [reflexivity|].
      rewrite (Hall e (or_introl eq_refl)). apply IHr. intros e' He'. apply Hall. right. exact He'.
    + split; [lia|]. f_equal.
      assert (Hlb : lower_bound k r = O).
      { destruct r as [|[b w] r']; simpl; [reflexivity|].
        specialize (Hlt (b, w) (or_introl eq_refl)). simpl in Hlt.
        destruct (lex_ltb b k) eqn:E3; [|reflexivity].
        rewrite (lex_ltb_trans _ _ _ Hlt E3) in E1. discriminate. }
      rewrite Hlb in IH2. simpl in IH2. rewrite Nat.sub_0_r in IH2. exact IH2.
Qed.

Definition keys_lt_max (idx : list entry) : Prop := forall e, In e idx -> Forall (fun b => b < CHAR_MAX) (fst e).

Lemma filter_ext_in_local {A} (f g : A -> bool) l : (forall x, In x l -> f x = g x) -> filter f l = filter g l.
Proof.
  induction l as [|x l IH]; simpl; intros H; [reflexivity|].
  rewrite (H x (or_introl eq_refl)). rewrite IH; [reflexivity|]. intros y Hy. apply H. right. exact Hy.
Qed.

Lemma prefix_range k idx : sorted idx -> keys_lt_max idx ->
  (lower_bound k idx <= upper_bound (k ++ [CHAR_MAX]) idx)%nat /\
  firstn (upper_bound (k ++ [CHAR_MAX]) idx - lower_bound k idx) (skipn (lower_bound k idx) idx)
  = filter (fun e => is_prefix k (fst e)) idx.
Proof.
  intros Hs Hk. destruct (range_filter k (k ++ [CHAR_MAX]) (lex_ltb_app k CHAR_MAX []) idx Hs) as [H1 H2].
  split; [exact H1|]. rewrite H2. apply filter_ext_in_local. intros e He. apply prefix_sentinel. apply Hk. exact He.
Qed.
