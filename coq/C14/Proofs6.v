(* C14 - an ambiguous key is reported as ambiguous by every lookup, whatever the error policy of the caller:
   find, tryFind (end()), DefaultContext::getOption with allowUnregistered on or off, i.e. every parser entry point. *)
Require Import V.Lib.Base V.Gen.Consts_C14 V.C14.Model V.C14.Spec V.C14.Proofs V.C14.Proofs2 V.C14.Proofs3 V.C14.Proofs4.
Local Open Scope Z_scope.

Theorem ambiguous_everywhere c al t key : built c al -> domain c al -> key_ok t key ->
  (2 <= length (matches c al t key))%nat ->
  exists S, (2 <= length S)%nat /\ covers c al S (matches c al t key) /\
    find key t c = Ambiguous S /\ try_find key t c = None /\
    forall allow, get_option allow key t c = Ambiguous S.
Proof.
  intros Hb Hd Hk HM.
  destruct (find_impl_thm c al t key find_emask Hb Hd Hk) as (Hf & Hc & H0 & H1).
  destruct (several (find_range key t c)) as (a & b & r & HS).
  - intros E. apply H0 in E. rewrite E in HM. simpl in HM. lia.
  - intros E. apply H1 in E. lia.
  - exists (a :: b :: r). rewrite HS in Hc. split; [simpl; lia|]. split; [exact Hc|]. split; [|split].
    + unfold find. rewrite find_impl_outcome, HS. reflexivity.
    + unfold try_find. rewrite find_impl_outcome, HS. reflexivity.
    + intros allow. unfold get_option. rewrite find_impl_outcome, HS. destruct allow; reflexivity.
Qed.

(* the parser's lookup: the entry point and - unless nothing matches - allowUnregistered do not occur in the result *)
Theorem parser_lookup_thm c al key short allow entry : built c al -> domain c al ->
  let t := if negb (short =? 0) && negb (entry mod 4 =? 3) then find_alias else find_name_or_prefix in
  key_ok t key ->
  forall f, parser_lookup key short allow entry c = Some f ->
  let M := matches c al t key in
  (M = [] -> f = if negb (allow =? 0) then NotFound else Unknown) /\
  (forall i, M = [i] -> f = Found i) /\
  ((2 <= length M)%nat -> exists S, f = Ambiguous S /\ (2 <= length S)%nat /\ covers c al S M).
Proof.
  intros Hb Hd t Hk f Hf M. unfold parser_lookup in Hf. fold t in Hf.
  destruct (plain_key key && (negb (negb (short =? 0) && negb (entry mod 4 =? 3)) || (length key =? 1)%nat)); [|discriminate].
  inversion Hf as [Ef]. clear Hf.
  destruct (getoption_thm c al t key Hb Hd Hk (negb (allow =? 0))) as (G0 & G1 & _). fold M in G0, G1.
  split; [exact G0|]. split; [exact G1|].
  intros HM. destruct (ambiguous_everywhere c al t key Hb Hd Hk HM) as (S & HS & Hc & _ & _ & Hg).
  exists S. split; [apply Hg|]. split; assumption.
Qed.
