(* C14 - the invariant of reachable contexts. *)
Require Import V.Lib.Base V.Gen.Consts_C14 V.C14.Model V.C14.Spec V.C14.Proofs.
Local Open Scope Z_scope.

Record Inv (c : ctx) (al : aliases) : Prop := mkInv {
  inv_sorted : sorted (index c);
  inv_keys : forall k i, In (k, i) (index c) <-> is_key c al i k;
  inv_al : forall n i, In (n, i) al -> (i < length (options c))%nat }.

Lemma is_key_ext c c' al i k : options c' = options c -> is_key c' al i k <-> is_key c al i k.
Proof. unfold is_key. intros ->. tauto. Qed.

Lemma Inv_ext c c' al : index c' = index c -> options c' = options c -> Inv c al -> Inv c' al.
Proof.
  intros Hi Ho [H1 H2 H3]. constructor.
  - rewrite Hi. exact H1.
  - intros k i. rewrite Hi. rewrite (is_key_ext c c' al i k Ho). apply H2.
  - intros n i Hn. rewrite Ho. eapply H3. exact Hn.
Qed.

Lemma is_key_lt c al i k : is_key c al i k -> (i < length (options c))%nat.
Proof.
  unfold is_key. destruct (nth_error (options c) i) eqn:E; [|contradiction]. intros _.
  apply nth_error_Some. congruence.
Qed.

(* effect of insertOption *)
Lemma insert_option_cases gid o c :
  let r := insert_option gid o c in
  (snd r = false /\ index (fst r) = index c /\ options (fst r) = options c) \/
  (snd r = true /\ options (fst r) = options c ++ [o] /\ groups (fst r) = group_push gid o (groups c) /\
   exists i1, (if negb (oalias o =? 0) then idx_insert (alias_key (oalias o)) (length (options c)) (index c) else Some (index c)) = Some i1 /\
              (if is_nil (oname o) then Some i1 else idx_insert (oname o) (length (options c)) i1) = Some (index (fst r))).
Proof.
  unfold insert_option.
  destruct (negb (oalias o =? 0)) eqn:Ea.
  - destruct (idx_insert (alias_key (oalias o)) (length (options c)) (index c)) as [i1|] eqn:E1; simpl.
    + destruct (if is_nil (oname o) then Some i1 else idx_insert (oname o) (length (options c)) i1) as [i2|] eqn:E2; simpl.
      * right. repeat split. exists i1. split; [reflexivity|exact E2].
      * left. repeat split. apply (erase_insert _ _ _ _ E1).
    + left. repeat split.
  - simpl. destruct (if is_nil (oname o) then Some (index c) else idx_insert (oname o) (length (options c)) (index c)) as [i2|] eqn:E2; simpl.
    + right. repeat split. exists (index c). split; [reflexivity|exact E2].
    + left. repeat split.
Qed.

Lemma nth_error_snoc {A} (l : list A) x i y : nth_error (l ++ [x]) i = Some y ->
  (i < length l /\ nth_error l i = Some y)%nat \/ (i = length l /\ y = x).
Proof.
  intros H. destruct (Nat.lt_ge_cases i (length l)) as [Hlt|Hge].
  - left. split; [exact Hlt|]. rewrite nth_error_app1 in H; assumption.
  - rewrite nth_error_app2 in H by exact Hge.
    destruct (i - length l)%nat eqn:E; simpl in H.
    + right. split; [lia|congruence].
    + destruct n; discriminate.
Qed.

Lemma inv_insert_option gid o c al : Inv c al -> oname o <> [] -> Inv (fst (insert_option gid o c)) al.
Proof.
  intros HI Hne. destruct (insert_option_cases gid o c) as [(_ & Hi & Ho)|(_ & Ho & _ & i1 & E1 & E2)].
  - eapply Inv_ext; eassumption.
  - destruct HI as [Hs Hk Ha].
    assert (Hnil : is_nil (oname o) = false) by (destruct (oname o); [congruence|reflexivity]).
    rewrite Hnil in E2.
    set (k0 := length (options c)) in *.
    assert (H1 : sorted i1 /\ forall e, In e i1 <-> (oalias o <> 0 /\ e = (alias_key (oalias o), k0)) \/ In e (index c)).
    { destruct (Z.eqb_spec (oalias o) 0) as [Ez|Ez]; simpl in E1.
      - inversion E1; subst i1. split; [exact Hs|]. intros e. intuition congruence.
      - destruct (insert_spec _ _ _ _ Hs E1) as [Hs1 Hin1]. split; [exact Hs1|]. intros e. rewrite Hin1. intuition congruence. }
    destruct H1 as [Hs1 Hin1].
    destruct (insert_spec _ _ _ _ Hs1 E2) as [Hs2 Hin2].
    constructor.
    + exact Hs2.
    + intros k i. rewrite Hin2, Hin1. unfold is_key. rewrite Ho. split.
      * intros [He|[[Hz He]|He]].
        -- inversion He; subst. rewrite nth_error_app2 by (unfold k0; lia). replace (k0 - length (options c))%nat with O by (unfold k0; lia). simpl. left. reflexivity.
        -- inversion He; subst. rewrite nth_error_app2 by (unfold k0; lia). replace (k0 - length (options c))%nat with O by (unfold k0; lia). simpl. right. left. split; [exact Hz|reflexivity].
        -- apply Hk in He. pose proof (is_key_lt _ _ _ _ He) as Hlt. unfold is_key in He.
           rewrite nth_error_app1 by exact Hlt. exact He.
      * destruct (nth_error (options c ++ [o]) i) as [o'|] eqn:En; [|contradiction].
        apply nth_error_snoc in En. destruct En as [[Hlt En]|[Hi Ho']].
        -- intros H. right. right. apply Hk. unfold is_key. rewrite En. exact H.
        -- subst o' i. intros [H|[[Hz H]|H]].
           ++ left. subst k. reflexivity.
           ++ right. left. split; [exact Hz|]. subst k. reflexivity.
           ++ apply Ha in H. unfold k0 in H. lia.
    + intros n i Hn. rewrite Ho, app_length. apply Ha in Hn. simpl. lia.
Qed.

Lemma inv_insert_all gid : forall os c al, Inv c al -> names_nonempty os -> Inv (fst (insert_all gid os c)) al.
Proof.
  induction os as [|o r IH]; simpl; intros c al HI Hn; [exact HI|].
  inversion Hn; subst.
  pose proof (inv_insert_option gid o c al HI H1) as HI1.
  destruct (insert_option gid o c) as [c1 ok]. simpl in HI1.
  destruct ok; [apply IH; assumption|exact HI1].
Qed.

Lemma inv_add_group cap os c al : Inv c al -> names_nonempty os -> Inv (fst (add_group cap os c)) al.
Proof.
  intros HI Hn. unfold add_group. apply inv_insert_all; [|exact Hn].
  destruct (find_group_key cap (groups c) <? length (groups c))%nat; [exact HI|].
  eapply Inv_ext; [| |exact HI]; reflexivity.
Qed.

Lemma inv_add_groups : forall gs c al, Inv c al -> Forall (fun g => names_nonempty (snd g)) gs -> Inv (fst (add_groups gs c)) al.
Proof.
  induction gs as [|[cap os] r IH]; simpl; intros c al HI Hn; [exact HI|].
  inversion Hn; subst. simpl in H1.
  pose proof (inv_add_group cap os c al HI H1) as HI1.
  destruct (add_group cap os c) as [c1 e]. simpl in HI1.
  destruct e; [exact HI1|apply IH; assumption].
Qed.

Lemma inv_add_alias n i c al : Inv c al -> Inv (fst (add_alias n i c)) (alias_effect n i c al).
Proof.
  intros HI. unfold alias_effect, add_alias.
  destruct ((i <? length (options c))%nat && negb (is_nil n)) eqn:Eg; [|exact HI].
  destruct (idx_insert n i (index c)) as [ix|] eqn:E; simpl; [|exact HI].
  destruct HI as [Hs Hk Ha]. destruct (insert_spec _ _ _ _ Hs E) as [Hs1 Hin1].
  apply andb_true_iff in Eg. destruct Eg as [Hlt _]. apply Nat.ltb_lt in Hlt.
  constructor; simpl.
  - exact Hs1.
  - intros k j. rewrite Hin1. unfold is_key. simpl. split.
    + intros [He|He].
      * inversion He; subst. destruct (nth_error (options c) i) eqn:En; [right; right; left; reflexivity|].
        apply nth_error_None in En. lia.
      * apply Hk in He. unfold is_key in He. destruct (nth_error (options c) j); [|contradiction]. intuition.
    + destruct (nth_error (options c) j) eqn:En; [|contradiction].
      intros [H|[H|[H|H]]].
      * right. apply Hk. unfold is_key. rewrite En. left. exact H.
      * right. apply Hk. unfold is_key. rewrite En. right. left. exact H.
      * left. symmetry. exact H.
      * right. apply Hk. unfold is_key. rewrite En. right. right. exact H.
  - intros m j [H|H]; [inversion H; subst; exact Hlt|eapply Ha; exact H].
Qed.

Lemma inv_empty : Inv empty_ctx [].
Proof.
  constructor; simpl; [exact I| |intros ? ? []].
  intros k i. unfold is_key. simpl. destruct i; simpl; tauto.
Qed.

Theorem built_inv c al : built c al -> Inv c al.
Proof.
  induction 1 as [|c al cap os _ IH Hn|c al n i _ IH|c al other _ IH Hn].
  - exact inv_empty.
  - apply inv_add_group; assumption.
  - apply inv_add_alias; assumption.
  - unfold add_ctx. apply inv_add_groups; assumption.
Qed.
