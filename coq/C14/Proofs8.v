(* C14 - the closed form of op 9 (bulk_add on a context without options and keys) IS the generic add(group) applied to the
   generated options: for every count, not only the sizes the correspondence run uses.  So the contexts built by op 9 are
   `built` contexts and every theorem of Properties_C14.v applies to them. *)
Require Import V.Lib.Base V.Gen.Consts_C14 V.C14.Model V.C14.Spec V.C14.Proofs.
Require Import Zmisc.
Local Open Scope Z_scope.

Definition gname (i : nat) : list Z := gen_name (Z.of_nat i).

(* ---- the names: gen_names k = gen_name 0 .. gen_name (k-1) ---- *)
Lemma gen_names_nat (k : Z) (m : nat) :
  Nat.iter m (fun p : Z * list (list Z) => let j := fst p - 1 in (j, gen_name j :: snd p)) (k, [])
  = (k - Z.of_nat m, map (fun i => gen_name (k - Z.of_nat m + Z.of_nat i)) (seq 0 m)).
Proof.
  induction m as [|m IH].
  - cbn. f_equal. lia.
  - cbn [Nat.iter nat_rect]. fold (Nat.iter m (fun p : Z * list (list Z) => let j := fst p - 1 in (j, gen_name j :: snd p)) (k, [])). rewrite IH. cbn [fst snd]. f_equal; [lia|].
    cbn [seq map]. f_equal; [f_equal; lia|].
    rewrite <- seq_shift, map_map. apply map_ext. intros i. f_equal. lia.
Qed.

Lemma gen_names_spec k : gen_names k = map gname (seq 0 (Z.to_nat k)).
Proof.
  unfold gen_names. destruct (Z_le_gt_dec 0 k) as [H|H].
  - rewrite iter_nat_of_Z by exact H. rewrite Zabs2Nat.abs_nat_nonneg by exact H.
    pose proof (gen_names_nat k (Z.to_nat k)) as G. unfold Nat.iter in G. rewrite G. clear G. cbn [snd]. apply map_ext. intros i. unfold gname. f_equal. lia.
  - destruct k; try lia. reflexivity.
Qed.

(* ---- the byte order of the names is the numeric order ---- *)
Lemma div_eucl_spec a b : Z.div_eucl a b = (a / b, a mod b).
Proof. unfold Z.div, Z.modulo. destruct (Z.div_eucl a b). reflexivity. Qed.

Lemma b36_ltb d e : 0 <= d < 36 -> 0 <= e < 36 -> (b36 d <? b36 e) = (d <? e).
Proof.
  intros Hd He. unfold b36. destruct (d <? 10) eqn:A, (e <? 10) eqn:B, (d <? e) eqn:C; lia.
Qed.

Lemma gen_name_digits j : 0 <= j < 36 ^ 4 ->
  exists d3 d2 d1 d0, 0 <= d3 < 36 /\ 0 <= d2 < 36 /\ 0 <= d1 < 36 /\ 0 <= d0 < 36 /\
    j = ((d3 * 36 + d2) * 36 + d1) * 36 + d0 /\ gen_name j = [111; b36 d3; b36 d2; b36 d1; b36 d0].
Proof.
  intros Hj. unfold gen_name. rewrite !div_eucl_spec.
  exists (j / 36 / 36 / 36 mod 36), (j / 36 / 36 mod 36), (j / 36 mod 36), (j mod 36).
  change (36 ^ 4) with 1679616 in Hj.
  pose proof (Z.div_mod j 36 ltac:(lia)) as E0. pose proof (Z.mod_pos_bound j 36 ltac:(lia)) as B0.
  pose proof (Z.div_mod (j / 36) 36 ltac:(lia)) as E1. pose proof (Z.mod_pos_bound (j / 36) 36 ltac:(lia)) as B1.
  pose proof (Z.div_mod (j / 36 / 36) 36 ltac:(lia)) as E2. pose proof (Z.mod_pos_bound (j / 36 / 36) 36 ltac:(lia)) as B2.
  pose proof (Z.mod_pos_bound (j / 36 / 36 / 36) 36 ltac:(lia)) as B3.
  assert (Q3 : 0 <= j / 36 / 36 / 36 < 36).
  { split.
    - repeat apply Z.div_pos; lia.
    - apply Z.div_lt_upper_bound; [lia|]. apply Z.div_lt_upper_bound; [lia|]. apply Z.div_lt_upper_bound; lia. }
  rewrite (Z.mod_small (j / 36 / 36 / 36) 36) by exact Q3.
  repeat split; try lia.
Qed.

Lemma gen_name_lt i j : 0 <= i -> i < j -> j < 36 ^ 4 -> lex_ltb (gen_name i) (gen_name j) = true.
Proof.
  intros Hi Hij Hj.
  destruct (gen_name_digits i ltac:(lia)) as (a3 & a2 & a1 & a0 & A3 & A2 & A1 & A0 & Ei & ->).
  destruct (gen_name_digits j ltac:(lia)) as (b3 & b2 & b1 & b0 & B3 & B2 & B1 & B0 & Ej & ->).
  cbn [lex_ltb]. rewrite Z.ltb_irrefl.
  rewrite !b36_ltb by assumption.
  destruct (a3 <? b3) eqn:C3; [reflexivity|]. destruct (b3 <? a3) eqn:D3; [lia|].
  destruct (a2 <? b2) eqn:C2; [reflexivity|]. destruct (b2 <? a2) eqn:D2; [lia|].
  destruct (a1 <? b1) eqn:C1; [reflexivity|]. destruct (b1 <? a1) eqn:D1; [lia|].
  destruct (a0 <? b0) eqn:C0; [reflexivity|]. lia.
Qed.

Lemma gname_lt i j : (i < j)%nat -> Z.of_nat j < 36 ^ 4 -> lex_ltb (gname i) (gname j) = true.
Proof. intros H1 H2. apply gen_name_lt; lia. Qed.

Lemma gname_nonempty i : is_nil (gname i) = false.
Proof. unfold gname, gen_name. repeat destruct (Z.div_eucl _ _). reflexivity. Qed.

(* ---- inserting behind every key ---- *)
Lemma idx_insert_end k v : forall idx, (forall e, In e idx -> lex_ltb (fst e) k = true) ->
  idx_insert k v idx = Some (idx ++ [(k, v)]).
Proof.
  induction idx as [|[k' v'] r IH]; intros H; [reflexivity|].
  cbn [idx_insert]. pose proof (H (k', v') (or_introl eq_refl)) as Hk. cbn [fst] in Hk.
  rewrite (lex_ltb_asym _ _ Hk), Hk, IH by (intros e He; apply H; right; exact He). reflexivity.
Qed.

Lemma group_push_all_nil gid : forall gs, group_push_all gid [] gs = gs.
Proof.
  induction gid as [|n IH]; intros [|[c os0] r]; cbn [group_push_all]; try reflexivity.
  - rewrite app_nil_r. reflexivity.
  - rewrite IH. reflexivity.
Qed.
Lemma group_push_all_cons o os : forall gid gs, group_push_all gid os (group_push gid o gs) = group_push_all gid (o :: os) gs.
Proof.
  induction gid as [|n IH]; intros [|[c os0] r]; cbn [group_push_all group_push]; try reflexivity.
  - rewrite <- app_assoc. reflexivity.
  - rewrite IH. reflexivity.
Qed.

Definition gopts (s m : nat) : list opt := map (fun x => mkOpt x 0) (map gname (seq s m)).

(* m generated options number s .. s+m-1 inserted one after the other into a context all of whose keys sort in front of them:
   each lands at the end of the index and gets the next option number *)
Lemma insert_generated gid : forall m s c,
  Z.of_nat (s + m) <= 36 ^ 4 ->
  (forall e i, In e (index c) -> (s <= i)%nat -> Z.of_nat i < 36 ^ 4 -> lex_ltb (fst e) (gname i) = true) ->
  insert_all gid (gopts s m) c =
  (mkCtx (index c ++ number_from (length (options c)) (map gname (seq s m))) (options c ++ gopts s m)
         (group_push_all gid (gopts s m) (groups c)), None).
Proof.
  induction m as [|m IH]; intros s c Hs Hlt.
  - unfold gopts. cbn [seq map insert_all number_from]. rewrite !app_nil_r, group_push_all_nil. destruct c; reflexivity.
  - unfold gopts. cbn [seq map insert_all]. fold (gopts (S s) m).
    unfold insert_option. cbn [oalias oname]. change (negb (0 =? 0)) with false. cbv iota.
    rewrite gname_nonempty.
    rewrite idx_insert_end by (intros e He; apply (Hlt e s He); lia).
    rewrite IH.
    + cbn [index options groups]. rewrite app_length. cbn [length]. rewrite Nat.add_1_r.
      cbn [number_from]. rewrite <- !app_assoc. cbn [app]. rewrite group_push_all_cons. reflexivity.
    + lia.
    + cbn [index]. intros e i He Hi Hb. apply in_app_or in He. destruct He as [He|[<-|[]]].
      * apply (Hlt e i He); lia.
      * cbn [fst]. apply gname_lt; lia.
Qed.

(* ---- the closed form of op 9 = the generic add(group) ---- *)
Theorem bulk_add_generic k c : bulk_add k c = add_group bulk_caption (gen_opts (bulk_count k c)) c.
Proof.
  unfold bulk_add. destruct (ctx_fresh c) eqn:F; [|reflexivity].
  unfold ctx_fresh in F. apply andb_prop in F. destruct F as [F1 F2].
  destruct c as [idx ops gs]. cbn [index options groups] in *.
  destruct idx; [|discriminate]. destruct ops; [|discriminate].
  set (n := bulk_count k (mkCtx [] [] gs)).
  assert (Hn : 0 <= n <= 70000).
  { subst n. unfold bulk_count, ctx_fresh. cbn [index options is_nil andb]. unfold BULK_MAX. lia. }
  unfold add_group, gen_opts. cbn [groups index options].
  rewrite gen_names_spec. fold (gopts 0 (Z.to_nat n)).
  set (gid := find_group_key bulk_caption gs).
  destruct (gid <? length gs)%nat.
  - rewrite insert_generated.
    + cbn [index options groups length app]. reflexivity.
    + change (36 ^ 4) with 1679616. lia.
    + cbn [index]. intros e i [].
  - rewrite insert_generated.
    + cbn [index options groups length app]. reflexivity.
    + change (36 ^ 4) with 1679616. lia.
    + cbn [index]. intros e i [].
Qed.

(* a context built by op 9 is a reachable context *)
Corollary bulk_add_built k c al : built c al -> built (fst (bulk_add k c)) al.
Proof.
  intros Hb. rewrite bulk_add_generic. apply b_group; [exact Hb|].
  unfold names_nonempty, gen_opts. apply Forall_forall. intros o Ho.
  apply in_map_iff in Ho. destruct Ho as (x & <- & Hx). rewrite gen_names_spec in Hx.
  apply in_map_iff in Hx. destruct Hx as (i & <- & _). cbn [oname].
  intros E. pose proof (gname_nonempty i) as G. rewrite E in G. discriminate.
Qed.

(* the generated names are in the domain of the claim (bytes '0'-'9', 'a'-'z', first byte 'o') *)
Lemma gen_name_ok j : 0 <= j < 36 ^ 4 -> name_ok (gen_name j).
Proof.
  intros Hj. destruct (gen_name_digits j Hj) as (d3 & d2 & d1 & d0 & H3 & H2 & H1 & H0 & _ & ->).
  unfold name_ok. split; [discriminate|]. split; [cbn; unfold DASH; lia|].
  assert (B : forall d, 0 <= d < 36 -> 1 <= b36 d <= 126) by (intros d Hd; unfold b36; destruct (d <? 10); lia).
  repeat constructor; try lia; apply B; assumption.
Qed.

(* op 9 on the empty context: the options are the generated ones, all inside the domain of the claim *)
Lemma bulk_add_empty_options k :
  options (fst (bulk_add k empty_ctx)) = map (fun x => mkOpt x 0) (map gname (seq 0 (Z.to_nat (bulk_count k empty_ctx)))).
Proof. unfold bulk_add. change (ctx_fresh empty_ctx) with true. cbv iota. cbn [fst options]. rewrite gen_names_spec. reflexivity. Qed.

Lemma bulk_add_empty_domain k : domain (fst (bulk_add k empty_ctx)) [].
Proof.
  split; [|constructor]. rewrite bulk_add_empty_options. apply Forall_forall. intros o Ho.
  apply in_map_iff in Ho. destruct Ho as (x & <- & Hx). apply in_map_iff in Hx. destruct Hx as (i & <- & Hi).
  apply in_seq in Hi. cbn [oname oalias]. split; [|left; reflexivity].
  apply gen_name_ok.
  assert (B : bulk_count k empty_ctx <= 70000).
  { unfold bulk_count. change (ctx_fresh empty_ctx) with true. cbv iota. unfold BULK_MAX. lia. }
  change (36 ^ 4) with 1679616. lia.
Qed.
