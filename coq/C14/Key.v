(* C14 - the option NUMBER stored in the name index (OptionContext::key_type), generic in its range.
   insertOption builds `key_type k(options_.size())`, addAlias `key_type k(option - begin())`: the position of the option in options_
   converted to the declared type of the index entries.  The model (V.C14.Model) keeps the position itself (a nat).  This file states
   what the conversion stores (key_of, for an unsigned type of largest value key_max - Consts_C14.key_max is generated from the typedef)
   and proves that the two coincide for every reachable context holding at most key_max + 1 options - whatever key_max is.  Nothing here
   depends on the VALUE of key_max; the obligation that the range is large enough is V.C14.KeyRange (a file of its own, so that a narrowed
   key_type breaks exactly that lemma and Properties_C14.v). *)
Require Import V.Lib.Base V.Gen.Consts_C14 V.C14.Model V.C14.Spec V.C14.Proofs4.
Local Open Scope Z_scope.

(* conversion of the size_t value n to an unsigned type with largest value key_max *)
Definition key_of (n : nat) : Z := Z.of_nat n mod (key_max + 1).
(* the index as the C++ object holds it *)
Definition stored_index (c : ctx) : list (list Z * Z) := map (fun e => (fst e, key_of (snd e))) (index c).

Lemma key_exact n : Z.of_nat n <= key_max -> key_of n = Z.of_nat n.
Proof. intros H. unfold key_of. apply Z.mod_small. lia. Qed.

Lemma key_injective_within i j : Z.of_nat i <= key_max -> Z.of_nat j <= key_max -> key_of i = key_of j -> i = j.
Proof. intros Hi Hj E. rewrite (key_exact i Hi), (key_exact j Hj) in E. lia. Qed.

(* beyond the range the number of an EARLIER option is stored: option number key_max + 1 is indexed as option 0 *)
Lemma key_wraps_beyond : 0 <= key_max -> key_of (Z.to_nat (key_max + 1)) = key_of 0.
Proof.
  intros H. unfold key_of. rewrite Z2Nat.id by lia. rewrite Z.mod_same by lia. reflexivity.
Qed.

(* every number in the index of a reachable context designates an existing option *)
Lemma index_number_lt c al : built c al -> forall k i, In (k, i) (index c) -> (i < length (options c))%nat.
Proof.
  intros Hb k i Hin. apply (proj2 (built_index c al Hb)) in Hin. unfold is_key in Hin.
  destruct (nth_error (options c) i) eqn:E; [|contradiction].
  apply nth_error_Some. rewrite E. discriminate.
Qed.

(* ... so while the context holds at most key_max + 1 options (numbers 0 .. key_max) every entry is stored exactly, distinct options
   keep distinct numbers, and the stored index IS the model's index *)
Lemma index_exact c al : built c al -> Z.of_nat (length (options c)) <= key_max + 1 ->
  (forall k i, In (k, i) (index c) -> key_of i = Z.of_nat i) /\
  (forall k1 i1 k2 i2, In (k1, i1) (index c) -> In (k2, i2) (index c) -> key_of i1 = key_of i2 -> i1 = i2) /\
  stored_index c = map (fun e => (fst e, Z.of_nat (snd e))) (index c).
Proof.
  intros Hb Hn.
  assert (A : forall k i, In (k, i) (index c) -> Z.of_nat i <= key_max).
  { intros k i Hin. pose proof (index_number_lt c al Hb k i Hin). lia. }
  split; [|split].
  - intros k i Hin. apply key_exact. exact (A k i Hin).
  - intros k1 i1 k2 i2 H1 H2 E. apply key_injective_within; eauto.
  - unfold stored_index. apply map_ext_in. intros [k i] Hin. cbn [fst snd]. rewrite key_exact; [reflexivity|]. exact (A k i Hin).
Qed.
