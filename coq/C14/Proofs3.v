(* C14 - the range computed by findImpl covers exactly the matching options. *)
Require Import V.Lib.Base V.Gen.Consts_C14 V.C14.Model V.C14.Spec V.C14.Proofs V.C14.Proofs2.
Local Open Scope Z_scope.

Definition exact_range (k : list Z) (idx : list entry) : list entry :=
  match nth_error idx (lower_bound k idx) with
  | Some e => if list_eqb (fst e) k then [e] else []
  | None => []
  end.
Definition raw_range (k : list Z) (idx : list entry) : list entry :=
  firstn (upper_bound (k ++ [CHAR_MAX]) idx - lower_bound k idx) (skipn (lower_bound k idx) idx).
Definition narrow (r : list entry) : list entry := if same_option r then firstn 1 r else r.

Lemma find_range_name key c : find_range key find_name c = exact_range key (index c).
Proof.
  unfold find_range, exact_range.
  change (find_name =? find_alias) with false.
  change (Z.land find_name (Z.lor find_alias find_name) =? 0) with false.
  change (Z.land find_name find_prefix =? 0) with true.
  destruct key as [|c0 rest]; simpl andb;
  (destruct (nth_error (index c) _) as [e|]; [|reflexivity]; destruct (list_eqb (fst e) _); reflexivity).
Qed.

Lemma find_range_alias c0 rest c : find_range (c0 :: rest) find_alias c =
  exact_range (if negb (c0 =? DASH) then DASH :: rest ++ [c0] else c0 :: rest) (index c).
Proof.
  unfold find_range, exact_range.
  change (find_alias =? find_alias) with true.
  change (Z.land find_alias (Z.lor find_alias find_name) =? 0) with false.
  change (Z.land find_alias find_prefix =? 0) with true.
  simpl andb.
  destruct (nth_error (index c) _) as [e|]; [|reflexivity]. destruct (list_eqb (fst e) _); reflexivity.
Qed.

Lemma raw_range_none k idx : nth_error idx (lower_bound k idx) = None -> raw_range k idx = [].
Proof.
  intros H. apply nth_error_None in H. unfold raw_range. rewrite skipn_all2 by exact H. apply firstn_nil.
Qed.

Lemma find_range_prefix key c : key <> [] -> find_range key find_prefix c = narrow (raw_range key (index c)).
Proof.
  intros Hne. unfold find_range.
  change (find_prefix =? find_alias) with false.
  change (Z.land find_prefix (Z.lor find_alias find_name) =? 0) with true.
  change (Z.land find_prefix find_prefix =? 0) with false.
  destruct key as [|c0 rest]; [congruence|]. simpl andb.
  destruct (nth_error (index c) _) as [e|] eqn:En.
  - rewrite andb_false_r. reflexivity.
  - rewrite (raw_range_none _ _ En). reflexivity.
Qed.

Lemma find_range_nop key c : key <> [] -> find_range key find_name_or_prefix c =
  match exact_range key (index c) with [] => narrow (raw_range key (index c)) | l => l end.
Proof.
  intros Hne. unfold find_range, exact_range.
  change (find_name_or_prefix =? find_alias) with false.
  change (Z.land find_name_or_prefix (Z.lor find_alias find_name) =? 0) with false.
  change (Z.land find_name_or_prefix find_prefix =? 0) with false.
  destruct key as [|c0 rest]; [congruence|]. simpl andb.
  destruct (nth_error (index c) _) as [e|] eqn:En.
  - destruct (list_eqb (fst e) _); reflexivity.
  - rewrite (raw_range_none _ _ En). reflexivity.
Qed.

Lemma exact_range_in k idx : sorted idx -> forall i, In (k, i) idx -> exact_range k idx = [(k, i)].
Proof.
  intros Hs i Hin. unfold exact_range. rewrite (lower_bound_exact k i idx Hs Hin). simpl. rewrite list_eqb_refl. reflexivity.
Qed.
Lemma exact_range_out k idx : forall e, In e (exact_range k idx) -> In e idx /\ fst e = k /\ exact_range k idx = [e].
Proof.
  unfold exact_range. intros e. destruct (nth_error idx (lower_bound k idx)) as [e0|] eqn:En; [|intros []].
  destruct (list_eqb (fst e0) k) eqn:El; [|intros []]. intros [H|[]]. subst e0.
  split; [eapply nth_error_In; exact En|]. split; [apply list_eqb_eq; exact El|reflexivity].
Qed.
Lemma exact_range_len k idx : (length (exact_range k idx) <= 1)%nat.
Proof.
  unfold exact_range. destruct (nth_error idx (lower_bound k idx)); [|simpl; lia]. destruct (list_eqb _ _); simpl; lia.
Qed.

Lemma narrow_props R :
  (forall e, In e (narrow R) -> In e R) /\
  (forall e, In e R -> exists e', In e' (narrow R) /\ snd e' = snd e) /\
  ((forall e e', In e (narrow R) -> In e' (narrow R) -> snd e = snd e') -> (length (narrow R) <= 1)%nat).
Proof.
  unfold narrow. destruct (same_option R) eqn:Es.
  - destruct R as [|e0 r]; [discriminate|]. simpl in Es. simpl firstn.
    split; [intros e [H|[]]; left; exact H|]. split; [|intros _; simpl; lia].
    intros e He. exists e0. split; [left; reflexivity|].
    apply andb_true_iff in Es. destruct Es as [_ Es].
    destruct He as [He|He]; [subst; reflexivity|].
    rewrite forallb_forall in Es. specialize (Es _ He). apply Nat.eqb_eq in Es. congruence.
  - split; [tauto|]. split; [intros e He; exists e; tauto|].
    intros Hall. destruct R as [|e0 r]; [simpl; lia|]. exfalso.
    simpl in Es. rewrite Nat.eqb_refl in Es. simpl in Es.
    assert (forallb (fun e => Nat.eqb (snd e) (snd e0)) r = true); [|congruence].
    apply forallb_forall. intros e He. apply Nat.eqb_eq. apply Hall; [right; exact He|left; reflexivity].
Qed.

(* ---- names of an option ---- *)
Lemma in_opt_names c al i k :
  In k (opt_names c al i) <-> exists o, nth_error (options c) i = Some o /\ (k = oname o \/ In (k, i) al).
Proof.
  unfold opt_names. destruct (nth_error (options c) i) as [o|]; [|split; [intros []|intros (o & H & _); discriminate]].
  simpl. rewrite in_map_iff. split.
  - intros [H|([k' j] & Hf & Hin)].
    + exists o. split; [reflexivity|left; congruence].
    + apply filter_In in Hin. destruct Hin as [Hin Hj]. simpl in *. apply Nat.eqb_eq in Hj. subst. exists o. split; [reflexivity|right; exact Hin].
  - intros (o' & Ho & [H|H]); inversion Ho; subst o'.
    + left. congruence.
    + right. exists (k, i). split; [reflexivity|]. apply filter_In. split; [exact H|]. simpl. apply Nat.eqb_refl.
Qed.

Lemma in_ids_filter c f i : In i (filter f (ids c)) <-> (i < length (options c))%nat /\ f i = true.
Proof. unfold ids. rewrite filter_In, in_seq. intuition lia. Qed.

Lemma nodup_ids_filter c f : NoDup (filter f (ids c)).
Proof. apply NoDup_filter. apply seq_NoDup. Qed.

Section Dom.
Variables (c : ctx) (al : aliases).
Hypothesis HI : Inv c al.
Hypothesis HD : domain c al.

Lemma dom_opt i o : nth_error (options c) i = Some o -> name_ok (oname o) /\ alias_ok (oalias o).
Proof. intros H. destruct HD as [H1 _]. rewrite Forall_forall in H1. apply H1. eapply nth_error_In. exact H. Qed.
Lemma dom_al k i : In (k, i) al -> name_ok k.
Proof. intros H. destruct HD as [_ H2]. rewrite Forall_forall in H2. apply (H2 (k, i)). exact H. Qed.

(* a key that does not start with '-' is a name *)
Lemma is_key_name i k : hd 0 k <> DASH -> (is_key c al i k <-> In k (opt_names c al i)).
Proof.
  intros Hd. rewrite in_opt_names. unfold is_key. destruct (nth_error (options c) i) as [o|]; [|split; [intros []|intros (o & H & _); discriminate]].
  split.
  - intros [H|[[_ H]|H]].
    + exists o. split; [reflexivity|left; exact H].
    + subst k. simpl in Hd. congruence.
    + exists o. split; [reflexivity|right; exact H].
  - intros (o' & Ho & [H|H]); inversion Ho; subst o'; [left; exact H|right; right; exact H].
Qed.

(* a key "-ch" is an alias key *)
Lemma is_key_alias i ch : is_key c al i [DASH; ch] <-> exists o, nth_error (options c) i = Some o /\ oalias o <> 0 /\ oalias o = ch.
Proof.
  unfold is_key. destruct (nth_error (options c) i) as [o|] eqn:En; [|split; [intros []|intros (o & H & _); discriminate]].
  split.
  - intros [H|[[Hz H]|H]].
    + destruct (dom_opt i o En) as [(_ & Hh & _) _]. rewrite <- H in Hh. simpl in Hh. congruence.
    + exists o. split; [reflexivity|]. split; [exact Hz|]. unfold alias_key in H. congruence.
    + destruct (dom_al _ _ H) as (_ & Hh & _). simpl in Hh. congruence.
  - intros (o' & Ho & Hz & Hc). inversion Ho; subst o'. right. left. split; [exact Hz|]. unfold alias_key. congruence.
Qed.

Lemma dom_keys_lt_max : keys_lt_max (index c).
Proof.
  intros [k i] Hin. simpl. apply (inv_keys c al HI) in Hin. unfold is_key in Hin.
  destruct (nth_error (options c) i) as [o|] eqn:En; [|contradiction].
  destruct (dom_opt i o En) as [(_ & _ & Hn) Ha].
  assert (Hw : forall l, Forall (fun b => 1 <= b <= 126) l -> Forall (fun b => b < CHAR_MAX) l).
  { intros l. apply Forall_impl. intros b Hb. unfold CHAR_MAX. lia. }
  destruct Hin as [H|[[Hz H]|H]].
  - subst k. apply Hw. exact Hn.
  - subst k. unfold alias_key. destruct Ha as [Ha|[Ha _]]; [congruence|].
    constructor; [unfold DASH, CHAR_MAX; lia|]. constructor; [unfold CHAR_MAX; lia|constructor].
  - apply Hw. destruct (dom_al _ _ H) as (_ & _ & Hk). exact Hk.
Qed.

Lemma raw_range_filter key : raw_range key (index c) = filter (fun e => is_prefix key (fst e)) (index c).
Proof. unfold raw_range. apply prefix_range; [apply (inv_sorted c al HI)|apply dom_keys_lt_max]. Qed.

(* exact lookup of a name *)
Lemma exact_covers key : hd 0 key <> DASH ->
  covers c al (exact_range key (index c)) (filter (m_exact c al key) (ids c)).
Proof.
  intros Hd. split.
  - intros k i Hin. apply exact_range_out in Hin. destruct Hin as (Hin & Hk & _). simpl in Hk. subst k.
    apply (inv_keys c al HI) in Hin. split; [|exact Hin]. apply in_ids_filter. split; [eapply is_key_lt; exact Hin|].
    unfold m_exact. apply existsb_exists. exists key. split; [apply is_key_name; assumption|apply list_eqb_refl].
  - intros i Hi. apply in_ids_filter in Hi. destruct Hi as [_ Hm]. unfold m_exact in Hm.
    apply existsb_exists in Hm. destruct Hm as (k & Hk & He). apply list_eqb_eq in He. subst k.
    exists key. apply (is_key_name i key Hd) in Hk. apply (inv_keys c al HI) in Hk.
    rewrite (exact_range_in key (index c) (inv_sorted c al HI) i Hk). left. reflexivity.
Qed.

Lemma prefix_covers key : key <> [] -> hd 0 key <> DASH ->
  covers c al (narrow (raw_range key (index c))) (filter (m_prefix c al key) (ids c)).
Proof.
  intros Hne Hd. destruct (narrow_props (raw_range key (index c))) as (Hsub & Hsup & _). split.
  - intros k i Hin. apply Hsub in Hin. rewrite raw_range_filter in Hin. apply filter_In in Hin. destruct Hin as [Hin Hp]. simpl in Hp.
    apply (inv_keys c al HI) in Hin. split; [|exact Hin]. apply in_ids_filter. split; [eapply is_key_lt; exact Hin|].
    unfold m_prefix. apply existsb_exists. exists k. split; [|exact Hp].
    apply is_key_name; [|exact Hin]. rewrite (is_prefix_hd key k Hne Hp). exact Hd.
  - intros i Hi. apply in_ids_filter in Hi. destruct Hi as [_ Hm]. unfold m_prefix in Hm.
    apply existsb_exists in Hm. destruct Hm as (k & Hk & Hp).
    assert (Hdk : hd 0 k <> DASH) by (rewrite (is_prefix_hd key k Hne Hp); exact Hd).
    apply (is_key_name i k Hdk) in Hk. apply (inv_keys c al HI) in Hk.
    destruct (Hsup (k, i)) as ([k' i'] & Hin' & Hs).
    + rewrite raw_range_filter. apply filter_In. split; [exact Hk|exact Hp].
    + simpl in Hs. subst i'. exists k'. exact Hin'.
Qed.

Lemma alias_covers ch key : ch <> 0 -> alias_char key = ch ->
  covers c al (exact_range [DASH; ch] (index c)) (filter (m_alias c key) (ids c)).
Proof.
  intros Hz Hc. split.
  - intros k i Hin. apply exact_range_out in Hin. destruct Hin as (Hin & Hk & _). simpl in Hk. subst k.
    apply (inv_keys c al HI) in Hin. split; [|exact Hin]. apply in_ids_filter. split; [eapply is_key_lt; exact Hin|].
    apply is_key_alias in Hin. destruct Hin as (o & Ho & _ & Ha). unfold m_alias. rewrite Ho, Hc. apply Z.eqb_eq. exact Ha.
  - intros i Hi. apply in_ids_filter in Hi. destruct Hi as [_ Hm]. unfold m_alias in Hm.
    destruct (nth_error (options c) i) as [o|] eqn:En; [|discriminate]. apply Z.eqb_eq in Hm. rewrite Hc in Hm.
    exists [DASH; ch].
    assert (Hk : is_key c al i [DASH; ch]) by (apply is_key_alias; exists o; split; [exact En|split; congruence]).
    apply (inv_keys c al HI) in Hk. rewrite (exact_range_in _ (index c) (inv_sorted c al HI) i Hk). left. reflexivity.
Qed.

Definition dd (S : list entry) : Prop := (forall e e', In e S -> In e' S -> snd e = snd e') -> (length S <= 1)%nat.

Theorem find_range_spec t key : key_ok t key ->
  covers c al (find_range key t c) (matches c al t key) /\ NoDup (matches c al t key) /\ dd (find_range key t c).
Proof.
  intros [Ht Hk]. destruct Ht as [Ht|[Ht|[Ht|Ht]]]; subst t.
  - change (find_name =? find_alias) with false in Hk. destruct Hk as [Hne Hd].
    unfold matches. change (find_name =? find_name) with true. cbv iota. rewrite find_range_name.
    split; [apply exact_covers; exact Hd|]. split; [apply nodup_ids_filter|]. intros _. apply exact_range_len.
  - change (find_prefix =? find_alias) with false in Hk. destruct Hk as [Hne Hd].
    unfold matches. change (find_prefix =? find_name) with false. change (find_prefix =? find_prefix) with true. cbv iota.
    rewrite (find_range_prefix key c Hne).
    split; [apply prefix_covers; assumption|]. split; [apply nodup_ids_filter|]. exact (proj2 (proj2 (narrow_props _))).
  - change (find_name_or_prefix =? find_alias) with false in Hk. destruct Hk as [Hne Hd].
    unfold matches. change (find_name_or_prefix =? find_name) with false. change (find_name_or_prefix =? find_prefix) with false.
    change (find_name_or_prefix =? find_name_or_prefix) with true. cbv iota.
    rewrite (find_range_nop key c Hne).
    pose proof (exact_covers key Hd) as [Hc1 Hc2].
    destruct (exact_range key (index c)) as [|e0 r0] eqn:Ee.
    + assert (Hnil : filter (m_exact c al key) (ids c) = []).
      { destruct (filter (m_exact c al key) (ids c)) as [|i l]; [reflexivity|]. destruct (Hc2 i (or_introl eq_refl)) as [k []]. }
      rewrite Hnil. split; [apply prefix_covers; assumption|]. split; [apply nodup_ids_filter|]. exact (proj2 (proj2 (narrow_props _))).
    + assert (Hne2 : filter (m_exact c al key) (ids c) <> []).
      { destruct e0 as [k0 i0]. destruct (Hc1 k0 i0 (or_introl eq_refl)) as [Hin _]. intros E. rewrite E in Hin. destruct Hin. }
      destruct (filter (m_exact c al key) (ids c)) as [|i l] eqn:Ef; [congruence|].
      split; [split; assumption|]. split; [rewrite <- Ef; apply nodup_ids_filter|].
      intros _. rewrite <- Ee. apply exact_range_len.
  - change (find_alias =? find_alias) with true in Hk. destruct Hk as (ch & Hz & Hnd & Hkey).
    unfold matches. change (find_alias =? find_name) with false. change (find_alias =? find_prefix) with false.
    change (find_alias =? find_name_or_prefix) with false. change (find_alias =? find_alias) with true. cbv iota.
    assert (Hr : find_range key find_alias c = exact_range [DASH; ch] (index c)).
    { destruct Hkey as [Hkey|Hkey]; subst key; rewrite find_range_alias.
      - destruct (Z.eqb_spec ch DASH); [contradiction|]. reflexivity.
      - rewrite Z.eqb_refl. reflexivity. }
    rewrite Hr. split; [apply (alias_covers ch key Hz); destruct Hkey; subst key; reflexivity|].
    split; [apply nodup_ids_filter|]. intros _. apply exact_range_len.
Qed.
End Dom.

(* counting: S and M are empty / singletons together *)
Lemma covers_counts c al S M : covers c al S M -> NoDup M -> dd S ->
  (S = [] <-> M = []) /\ (length S = 1%nat <-> length M = 1%nat).
Proof.
  intros [H1 H2] Hnd Hdd. split; [split|split].
  - intros ->. destruct M as [|i l]; [reflexivity|]. destruct (H2 i (or_introl eq_refl)) as [k []].
  - intros ->. destruct S as [|[k i] l]; [reflexivity|]. destruct (H1 k i (or_introl eq_refl)) as [[] _].
  - intros HS. destruct S as [|[k i] [|? ?]]; try discriminate.
    assert (Hall : forall j, In j M -> j = i).
    { intros j Hj. destruct (H2 j Hj) as [k' [He|[]]]. congruence. }
    destruct (H1 k i (or_introl eq_refl)) as [Hi _].
    destruct M as [|a [|b l]]; [destruct Hi|reflexivity|]. exfalso.
    assert (a = i) by (apply Hall; left; reflexivity). assert (b = i) by (apply Hall; right; left; reflexivity).
    subst. inversion Hnd; subst. apply H3. left. reflexivity.
  - intros HM. destruct M as [|i [|? ?]]; try discriminate.
    assert (Hle : (length S <= 1)%nat).
    { apply Hdd. intros [k1 i1] [k2 i2] He1 He2. simpl.
      destruct (H1 _ _ He1) as [[Ha|[]] _]. destruct (H1 _ _ He2) as [[Hb|[]] _]. congruence. }
    destruct (H2 i (or_introl eq_refl)) as [k Hk]. destruct S as [|e [|? ?]]; [destruct Hk|reflexivity|simpl in Hle; lia].
Qed.
