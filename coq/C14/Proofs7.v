(* C14 - a SEQUENCE of names resolved within one parser run (one DefaultContext): every token resolves exactly as it would alone.
   `collect j rs` is what a list of single lookup results amounts to for the caller of a parser: the options found, numbered by their
   token, up to the first lookup that throws.                                                                                        *)
Require Import V.Lib.Base V.Gen.Consts_C14 V.C14.Model V.C14.Spec V.C14.Proofs V.C14.Proofs2 V.C14.Proofs3 V.C14.Proofs4 V.C14.Proofs6.
Local Open Scope Z_scope.

Fixpoint collect (j : nat) (rs : list lookup) : seq_res :=
  match rs with
  | [] => SOk []
  | Found i :: r => match collect (S j) r with SOk ps => SOk ((j, i) :: ps) | e => e end
  | NotFound :: r => collect (S j) r
  | f :: _ => SErr f
  end.

(* lookup mode of a token: short spelling (not in config files) = alias lookup, everything else = name-or-prefix *)
Definition tok_mode (entry : Z) (t : list Z * Z) : Z :=
  if negb (snd t =? 0) && negb (entry mod 4 =? 3) then find_alias else find_name_or_prefix.

(* what the property demands of the lookup of ONE key (the conclusion of c14_parser_lookup), by the options that match THIS key *)
Definition single_spec (c : ctx) (al : aliases) (allow t : Z) (key : list Z) (f : lookup) : Prop :=
  let M := matches c al t key in
  (M = [] -> f = if negb (allow =? 0) then NotFound else Unknown) /\
  (forall i, M = [i] -> f = Found i) /\
  ((2 <= length M)%nat -> exists S, f = Ambiguous S /\ (2 <= length S)%nat /\ covers c al S M).

Lemma lookup_spellable key short allow entry c f :
  parser_lookup key short allow entry c = Some f -> tok_spellable entry (key, short) = true.
Proof.
  unfold parser_lookup, tok_spellable. cbn [fst snd].
  destruct (plain_key key && (negb (negb (short =? 0) && negb (entry mod 4 =? 3)) || (length key =? 1)%nat)); [reflexivity|discriminate].
Qed.

Lemma spellable_lookup key short allow entry c :
  tok_spellable entry (key, short) = true -> exists f, parser_lookup key short allow entry c = Some f.
Proof.
  unfold parser_lookup, tok_spellable. cbn [fst snd]. intros H. rewrite H. eexists. reflexivity.
Qed.

Lemma seq_run_collect toks : forall rs j allow entry c acc,
  Forall2 (fun t r => parser_lookup (fst t) (snd t) allow entry c = Some r) toks rs ->
  seq_run toks j allow entry c acc = match collect j rs with SOk ps => SOk (acc ++ ps) | e => e end.
Proof.
  induction toks as [|[key short] toks IH]; intros rs j allow entry c acc H; inversion H as [|t r ts rs' Hr Hrest]; subst.
  - cbn. rewrite app_nil_r. reflexivity.
  - cbn [fst snd] in Hr. cbn [seq_run]. rewrite Hr.
    destruct r as [i| |cands|]; cbn [collect].
    + rewrite (IH rs' (S j) allow entry c (acc ++ [(j, i)]) Hrest).
      destruct (collect (S j) rs') as [ps|f]; [|reflexivity]. rewrite <- app_assoc. reflexivity.
    + reflexivity.
    + reflexivity.
    + apply IH. exact Hrest.
Qed.

(* the lookups of one parser run are independent: the run amounts to the single results, collected *)
Theorem seq_independent toks allow entry c rs :
  Forall2 (fun t r => parser_lookup (fst t) (snd t) allow entry c = Some r) toks rs ->
  parser_seq toks allow entry c = Some (collect 1 rs).
Proof.
  intros H. unfold parser_seq.
  assert (Hs : forallb (tok_spellable entry) toks = true).
  { induction H as [|[key short] r ts rs' Hr _ IH]; [reflexivity|]. cbn [forallb]. rewrite IH.
    cbn [fst snd] in Hr. rewrite (lookup_spellable _ _ _ _ _ _ Hr). reflexivity. }
  rewrite Hs, (seq_run_collect toks rs 1%nat allow entry c [] H).
  destruct (collect 1 rs); reflexivity.
Qed.

(* ... and every single result is the one the property demands for ITS key, whatever the neighbours are *)
Theorem seq_thm c al toks allow entry : built c al -> domain c al ->
  Forall (fun t => tok_spellable entry t = true /\ key_ok (tok_mode entry t) (fst t)) toks ->
  exists rs, Forall2 (fun t f => single_spec c al allow (tok_mode entry t) (fst t) f) toks rs /\
             parser_seq toks allow entry c = Some (collect 1 rs).
Proof.
  intros Hb Hd Ht.
  assert (E : exists rs, Forall2 (fun t r => parser_lookup (fst t) (snd t) allow entry c = Some r) toks rs /\
                         Forall2 (fun t f => single_spec c al allow (tok_mode entry t) (fst t) f) toks rs).
  { induction Ht as [|[key short] toks [Hs Hk] _ IH].
    - exists []. split; constructor.
    - destruct IH as (rs & H1 & H2). destruct (spellable_lookup key short allow entry c Hs) as (f & Hf).
      exists (f :: rs). split; constructor; try assumption.
      unfold single_spec, tok_mode in *. cbn [fst snd] in *.
      exact (parser_lookup_thm c al key short allow entry Hb Hd Hk f Hf). }
  destruct E as (rs & H1 & H2). exists rs. split; [exact H2|]. apply seq_independent. exact H1.
Qed.

Lemma forall2_len {A B} (R : A -> B -> Prop) l1 l2 : Forall2 R l1 l2 -> length l1 = length l2.
Proof. induction 1; cbn; congruence. Qed.

Lemma collect_found is : forall j, collect j (map Found is) = SOk (combine (seq j (length is)) is).
Proof.
  induction is as [|i is IH]; intros j; [reflexivity|]. cbn [map collect length seq combine]. rewrite IH. reflexivity.
Qed.

(* the crisp instance: when every key of the run names exactly one option (each judged alone), the run returns exactly these options,
   token by token - in any order of the tokens, whatever keys stand next to each other *)
Theorem seq_all_found c al toks allow entry is : built c al -> domain c al ->
  Forall (fun t => tok_spellable entry t = true /\ key_ok (tok_mode entry t) (fst t)) toks ->
  Forall2 (fun t i => matches c al (tok_mode entry t) (fst t) = [i]) toks is ->
  parser_seq toks allow entry c = Some (SOk (combine (seq 1 (length toks)) is)).
Proof.
  intros Hb Hd Ht Hm. destruct (seq_thm c al toks allow entry Hb Hd Ht) as (rs & Hs & Hp).
  assert (E : rs = map Found is).
  { clear Hp Ht. revert rs Hs. induction Hm as [|t i toks is Hi _ IH]; intros rs Hs; inversion Hs as [|t' f ts rs' Hf Hrest]; subst; [reflexivity|].
    cbn [map]. f_equal; [|apply IH; exact Hrest]. destruct Hf as (_ & H1 & _). apply H1. exact Hi. }
  rewrite Hp, E, collect_found, (forall2_len _ _ _ Hm). reflexivity.
Qed.
