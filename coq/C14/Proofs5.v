(* C14 - add(group): refused exactly when one of its keys is taken (by the context or by an earlier option of the group). *)
Require Import V.Lib.Base V.Gen.Consts_C14 V.C14.Model V.C14.Spec V.C14.Proofs V.C14.Proofs2 V.C14.Proofs4.
Local Open Scope Z_scope.

Lemma NoDup_app_iff {A} (a b : list A) : NoDup (a ++ b) <-> NoDup a /\ NoDup b /\ forall x, In x a -> ~ In x b.
Proof.
  induction a as [|x a IH]; simpl.
  - split; [intros H; split; [constructor|split; [exact H|intros ? []]]|intros (_ & H & _); exact H].
  - split.
    + intros H. inversion H as [|? ? Hn Hd]; subst. apply IH in Hd. destruct Hd as (Ha & Hb & Hab).
      split; [constructor; [intros Hx; apply Hn; apply in_or_app; left; exact Hx|exact Ha]|]. split; [exact Hb|].
      intros y [Hy|Hy]; [subst; intros Hy; apply Hn; apply in_or_app; right; exact Hy|apply Hab; exact Hy].
    + intros (Ha & Hb & Hab). inversion Ha as [|? ? Hn Hd]; subst. constructor.
      * intros Hx. apply in_app_or in Hx. destruct Hx as [Hx|Hx]; [contradiction|]. apply (Hab x); [left; reflexivity|exact Hx].
      * apply IH. split; [exact Hd|]. split; [exact Hb|]. intros y Hy. apply Hab. right. exact Hy.
Qed.

Definition group_keys (os : list opt) : list (list Z) := flat_map opt_keys os.
Definition fresh (os : list opt) (c : ctx) : Prop := NoDup (group_keys os) /\ forall k, In k (group_keys os) -> ~ In k (keys c).

Lemma opt_keys_nodup o : NoDup (opt_keys o) <-> ~ (oalias o <> 0 /\ oname o = alias_key (oalias o)).
Proof.
  unfold opt_keys. destruct (Z.eqb_spec (oalias o) 0) as [Ez|Ez]; simpl.
  - split; [intros _ [H _]; contradiction|intros _; constructor; [intros []|constructor]].
  - split.
    + intros H [_ He]. inversion H; subst. apply H2. left. congruence.
    + intros H. constructor; [intros [He|[]]; apply H; split; [exact Ez|congruence]|constructor; [intros []|constructor]].
Qed.

Lemma in_opt_keys o k : In k (opt_keys o) <-> (oalias o <> 0 /\ k = alias_key (oalias o)) \/ k = oname o.
Proof.
  unfold opt_keys. destruct (Z.eqb_spec (oalias o) 0) as [Ez|Ez]; simpl; intuition congruence.
Qed.

Lemma insert_all_thm gid : forall os c al, Inv c al -> names_nonempty os ->
  let r := insert_all gid os c in
  (snd r = None <-> fresh os c) /\
  (snd r = None -> options (fst r) = options c ++ os /\ forall k, In k (keys (fst r)) <-> In k (group_keys os) \/ In k (keys c)).
Proof.
  induction os as [|o os IH]; intros c al HI Hn; simpl.
  - split; [split; [intros _; split; [constructor|intros ? []]|reflexivity]|].
    intros _. split; [rewrite app_nil_r; reflexivity|intros k; tauto].
  - inversion Hn as [|? ? Hne Hn']; subst.
    destruct (insert_option_thm gid o c al HI Hne) as (Hf & Hfail & Hok).
    pose proof (inv_insert_option gid o c al HI Hne) as HI1.
    destruct (insert_option gid o c) as [c1 ok]. simpl in *. destruct ok.
    + destruct (Hok eq_refl) as [Ho1 Hk1]. specialize (IH c1 al HI1 Hn'). simpl in IH. destruct IH as [IH1 IH2].
      assert (Hno : ~ ((oalias o <> 0 /\ In (alias_key (oalias o)) (keys c)) \/ In (oname o) (keys c) \/ (oalias o <> 0 /\ oname o = alias_key (oalias o)))).
      { intros H. apply Hf in H. discriminate. }
      assert (Hnd : NoDup (opt_keys o)) by (apply opt_keys_nodup; tauto).
      assert (Hdis : forall k, In k (opt_keys o) -> ~ In k (keys c)).
      { intros k Hk Hin. apply in_opt_keys in Hk. destruct Hk as [[Hz Hk]|Hk]; subst k; tauto. }
      split.
      * rewrite IH1. unfold fresh, group_keys. simpl. rewrite NoDup_app_iff. fold (group_keys os). split.
        -- intros [H1 H2]. split.
           ++ split; [exact Hnd|]. split; [exact H1|]. intros x Hx Hx'. apply (H2 x Hx'). apply Hk1. left. exact Hx.
           ++ intros k Hk. apply in_app_or in Hk. destruct Hk as [Hk|Hk]; [apply Hdis; exact Hk|].
              intros Hin. apply (H2 k Hk). apply Hk1. right. exact Hin.
        -- intros [(_ & H1 & H12) H2]. split; [exact H1|]. intros k Hk Hin. apply Hk1 in Hin. destruct Hin as [Hin|Hin].
           ++ apply (H12 k Hin Hk).
           ++ apply (H2 k); [apply in_or_app; right; exact Hk|exact Hin].
      * intros Hr. destruct (IH2 Hr) as [Ho2 Hk2]. split; [rewrite Ho2, Ho1, <- app_assoc; reflexivity|].
        intros k. rewrite Hk2, Hk1. unfold group_keys. simpl. rewrite in_app_iff. fold (group_keys os). tauto.
    + split; [|discriminate]. split; [discriminate|]. intros [Hnd Hdis]. exfalso.
      assert (Hcl : (oalias o <> 0 /\ In (alias_key (oalias o)) (keys c)) \/ In (oname o) (keys c) \/ (oalias o <> 0 /\ oname o = alias_key (oalias o))) by (apply Hf; reflexivity).
      unfold group_keys in Hnd, Hdis. simpl in Hnd, Hdis. apply NoDup_app_iff in Hnd. destruct Hnd as (Hnd & _ & _).
      destruct Hcl as [[Hz Hin]|[Hin|Hcl]].
      * apply (Hdis (alias_key (oalias o))); [apply in_or_app; left; apply in_opt_keys; left; split; [exact Hz|reflexivity]|exact Hin].
      * apply (Hdis (oname o)); [apply in_or_app; left; apply in_opt_keys; right; reflexivity|exact Hin].
      * apply opt_keys_nodup in Hnd. contradiction.
Qed.

Theorem add_group_thm cap os c al : Inv c al -> names_nonempty os ->
  let r := add_group cap os c in
  (snd r = None <-> fresh os c) /\
  (snd r = None -> options (fst r) = options c ++ os /\ forall k, In k (keys (fst r)) <-> In k (group_keys os) \/ In k (keys c)).
Proof.
  intros HI Hn. unfold add_group.
  destruct (find_group_key cap (groups c) <? length (groups c))%nat.
  - apply (insert_all_thm _ os c al HI Hn).
  - set (c1 := mkCtx (index c) (options c) (groups c ++ [(cap, [])])).
    assert (HI1 : Inv c1 al) by (eapply Inv_ext; [| |exact HI]; reflexivity).
    apply (insert_all_thm _ os c1 al HI1 Hn).
Qed.
