(* C14 - specification side: the set of OPTIONS (not index entries) that match a key, contexts reachable through the
   API, and the domain of the claim.  Definitions only. *)
Require Import V.Lib.Base V.Gen.Consts_C14 V.C14.Model.
Local Open Scope Z_scope.

(* al = the alias names given by the successful addAlias calls: (alias name, option id) *)
Definition aliases := list (list Z * nat).

(* the names of option i: its long name and its alias names *)
Definition opt_names (c : ctx) (al : aliases) (i : nat) : list (list Z) :=
  match nth_error (options c) i with
  | Some o => oname o :: map fst (filter (fun p => Nat.eqb (snd p) i) al)
  | None => []
  end.

Definition m_exact (c : ctx) (al : aliases) (key : list Z) (i : nat) : bool := existsb (list_eqb key) (opt_names c al i).
Definition m_prefix (c : ctx) (al : aliases) (key : list Z) (i : nat) : bool := existsb (is_prefix key) (opt_names c al i).
(* alias lookup: key is "c" or "-c" *)
Definition alias_char (key : list Z) : Z := match key with [ch] => ch | [_; ch] => ch | _ => 0 end.
Definition m_alias (c : ctx) (key : list Z) (i : nat) : bool :=
  match nth_error (options c) i with Some o => oalias o =? alias_char key | None => false end.

Definition ids (c : ctx) : list nat := seq 0 (length (options c)).

(* the matching options, by brute force over the option list, in increasing id order *)
Definition matches (c : ctx) (al : aliases) (t : Z) (key : list Z) : list nat :=
  if t =? find_name then filter (m_exact c al key) (ids c)
  else if t =? find_prefix then filter (m_prefix c al key) (ids c)
  else if t =? find_name_or_prefix then
    match filter (m_exact c al key) (ids c) with
    | [] => filter (m_prefix c al key) (ids c)
    | l => l
    end
  else if t =? find_alias then filter (m_alias c key) (ids c)
  else [].

(* k is a key under which option i is registered: long name, "-c" alias key, or an alias name *)
Definition is_key (c : ctx) (al : aliases) (i : nat) (k : list Z) : Prop :=
  match nth_error (options c) i with
  | None => False
  | Some o => k = oname o \/ (oalias o <> 0 /\ k = alias_key (oalias o)) \/ In (k, i) al
  end.

(* candidates S (index entries) cover exactly the matching options M *)
Definition covers (c : ctx) (al : aliases) (S : list entry) (M : list nat) : Prop :=
  (forall k i, In (k, i) S -> In i M /\ is_key c al i k) /\ (forall i, In i M -> exists k, In (k, i) S).

(* contexts reachable through the API (refused calls included), with the alias names accepted so far *)
Definition names_nonempty (os : list opt) : Prop := Forall (fun o => oname o <> []) os.
Definition alias_effect (n : list Z) (i : nat) (c : ctx) (al : aliases) : aliases :=
  match snd (add_alias n i c) with
  | None => if (i <? length (options c))%nat && negb (is_nil n) then (n, i) :: al else al
  | Some _ => al
  end.
Inductive built : ctx -> aliases -> Prop :=
| b_empty : built empty_ctx []
| b_group c al cap os : built c al -> names_nonempty os -> built (fst (add_group cap os c)) al
| b_alias c al n i : built c al -> built (fst (add_alias n i c)) (alias_effect n i c al)
| b_ctx c al other : built c al -> Forall (fun g => names_nonempty (snd g)) (groups other) -> built (fst (add_ctx other c)) al.

(* domain of the claim *)
Definition name_ok (n : list Z) : Prop := n <> [] /\ hd 0 n <> DASH /\ Forall (fun b => 1 <= b <= 126) n.
Definition alias_ok (a : Z) : Prop := a = 0 \/ (1 <= a <= 126 /\ a <> DASH).
Definition domain (c : ctx) (al : aliases) : Prop :=
  Forall (fun o => name_ok (oname o) /\ alias_ok (oalias o)) (options c) /\ Forall (fun p => name_ok (fst p)) al.
Definition key_ok (t : Z) (key : list Z) : Prop :=
  (t = find_name \/ t = find_prefix \/ t = find_name_or_prefix \/ t = find_alias) /\
  if t =? find_alias then exists ch, ch <> 0 /\ ch <> DASH /\ (key = [ch] \/ key = [DASH; ch])
  else key <> [] /\ hd 0 key <> DASH.

(* what findImpl does with a range, depending on the error mask *)
Definition outcome (emask : Z) (S : list entry) : fres :=
  match S with
  | [] => if negb (emask =? 0) && negb (Z.land emask emask_unknown =? 0) then FUnknown else FRange []
  | [e] => FRange [e]
  | _ => if negb (emask =? 0) && negb (Z.land emask emask_ambiguous =? 0) then FAmbiguous S else FRange S
  end.

Definition keys (c : ctx) : list (list Z) := map fst (index c).
Definition opt_keys (o : opt) : list (list Z) := (if oalias o =? 0 then [] else [alias_key (oalias o)]) ++ [oname o].
