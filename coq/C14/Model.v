(* C14 - executable model of OptionContext's lookup (src/program_options.cpp, after the repairs 42ca538, d7a58a6).

   index_   : std::map<std::string, size_t>  ->  association list, strictly sorted by the bytewise unsigned
              lexicographic order of std::string (lex_ltb); lower_bound / upper_bound are modelled by a linear
              scan for the first entry that is not less / greater (what the tree search returns on a sorted map;
              std::map itself is modelled, not verified).
   options_ : vector<SharedOptPtr>           ->  list opt  (an option is identified by its position)
   groups_  : vector<OptionGroup>            ->  list (caption, options of the group)
   Definitions only; the proofs are in Proofs*.v.                                                          *)
Require Import V.Lib.Base V.Gen.Consts_C14.
Local Open Scope Z_scope.

(* std::string operator< : char_traits<char>::compare = unsigned bytes, shorter prefix first *)
Fixpoint lex_ltb (a b : list Z) : bool :=
  match a, b with
  | _, [] => false
  | [], _ :: _ => true
  | x :: a', y :: b' => if x <? y then true else if y <? x then false else lex_ltb a' b'
  end.

Fixpoint is_prefix (p l : list Z) : bool :=
  match p, l with
  | [], _ => true
  | _ :: _, [] => false
  | x :: p', y :: l' => (x =? y) && is_prefix p' l'
  end.

Definition is_nil {A} (l : list A) : bool := match l with [] => true | _ => false end.

Record opt := mkOpt { oname : list Z; oalias : Z }.       (* alias = 0: none *)
Definition entry := (list Z * nat)%type.
Record ctx := mkCtx { index : list entry; options : list opt; groups : list (list Z * list opt) }.
Definition empty_ctx : ctx := mkCtx [] [] [].

(* ---- std::map operations ---- *)
(* insert(value_type(k, v)).second : None = key present (map unchanged) *)
Fixpoint idx_insert (k : list Z) (v : nat) (idx : list entry) : option (list entry) :=
  match idx with
  | [] => Some [(k, v)]
  | (k', v') :: r =>
      if lex_ltb k k' then Some ((k, v) :: idx)
      else if lex_ltb k' k then
        match idx_insert k v r with Some r' => Some ((k', v') :: r') | None => None end
      else None
  end.

Fixpoint idx_erase (k : list Z) (idx : list entry) : list entry :=
  match idx with
  | [] => []
  | (k', v') :: r => if list_eqb k' k then r else (k', v') :: idx_erase k r
  end.

(* position of the first entry whose key is not less than k / is greater than k *)
Fixpoint lower_bound (k : list Z) (idx : list entry) : nat :=
  match idx with
  | [] => O
  | (k', _) :: r => if lex_ltb k' k then S (lower_bound k r) else O
  end.
Fixpoint upper_bound (k : list Z) (idx : list entry) : nat :=
  match idx with
  | [] => O
  | (k', _) :: r => if lex_ltb k k' then O else S (upper_bound k r)
  end.

(* ---- building a context ---- *)
Fixpoint find_group_key (cap : list Z) (gs : list (list Z * list opt)) : nat :=   (* length gs = not found *)
  match gs with
  | [] => O
  | (c, _) :: r => if list_eqb c cap then O else S (find_group_key cap r)
  end.

Fixpoint group_push (gid : nat) (o : opt) (gs : list (list Z * list opt)) : list (list Z * list opt) :=
  match gs, gid with
  | [], _ => []
  | (c, os) :: r, O => (c, os ++ [o]) :: r
  | g :: r, S n => g :: group_push n o r
  end.

Definition alias_key (a : Z) : list Z := [DASH; a].

(* void insertOption(size_t groupId, const SharedOptPtr& opt); false = DuplicateOption thrown *)
Definition insert_option (gid : nat) (o : opt) (c : ctx) : ctx * bool :=
  let k := length (options c) in
  let has_alias := negb (oalias o =? 0) in
  match (if has_alias then idx_insert (alias_key (oalias o)) k (index c) else Some (index c)) with
  | None => (c, false)
  | Some i1 =>
      match (if is_nil (oname o) then Some i1 else idx_insert (oname o) k i1) with
      | None => (mkCtx (if has_alias then idx_erase (alias_key (oalias o)) i1 else i1) (options c) (groups c), false)
      | Some i2 => (mkCtx i2 (options c ++ [o]) (group_push gid o (groups c)), true)
      end
  end.

Fixpoint insert_all (gid : nat) (os : list opt) (c : ctx) : ctx * option (list Z) :=
  match os with
  | [] => (c, None)
  | o :: r => let '(c1, ok) := insert_option gid o c in
              if ok then insert_all gid r c1 else (c1, Some (oname o))     (* DuplicateOption(caption(), l) *)
  end.

(* OptionContext& add(const OptionGroup&); Some l = DuplicateOption with key l *)
Definition add_group (cap : list Z) (os : list opt) (c : ctx) : ctx * option (list Z) :=
  let k := find_group_key cap (groups c) in
  let c1 := if (k <? length (groups c))%nat then c else mkCtx (index c) (options c) (groups c ++ [(cap, [])]) in
  insert_all k os c1.

(* OptionContext& addAlias(const std::string& aliasName, option_iterator option); option = begin() + i *)
Definition add_alias (n : list Z) (i : nat) (c : ctx) : ctx * option (list Z) :=
  if (i <? length (options c))%nat && negb (is_nil n) then
    match idx_insert n i (index c) with
    | Some ix => (mkCtx ix (options c) (groups c), None)
    | None => (c, Some n)
    end
  else (c, None).

Fixpoint add_groups (gs : list (list Z * list opt)) (c : ctx) : ctx * option (list Z) :=
  match gs with
  | [] => (c, None)
  | (cap, os) :: r => let '(c1, e) := add_group cap os c in
                      match e with None => add_groups r c1 | Some _ => (c1, e) end
  end.
(* OptionContext& add(const OptionContext& other)   (other != this) *)
Definition add_ctx (other : ctx) (c : ctx) : ctx * option (list Z) := add_groups (groups other) c.

(* ---- a LARGE group of generated options (case op 9; seeded C14-r15: the option number stored in the index narrowed to 16 bits) ----
   add(group "N" holding k options named gen_name 0 .. gen_name (k-1), no alias characters), k = bulk_count: at most BULK_MAX on a context
   without options and keys, at most BULK_SMALL otherwise (evaluation budget of harness and model, not a limit of the code).
   gen_name j = 'o' followed by the four base-36 digits of j (0-9 a-z): fixed width, so the byte order of the names is the numeric order of j,
   the names are pairwise different below 36^4, and every proper prefix of a name is shared with neighbours only.
   `bulk_add` is the GENERIC add_group applied to these options, except on a context without options and keys, where the same result is
   written down in closed form (the names arrive in increasing order, so every insertion lands at the end of the index and option j gets the
   number j): the generic insertion is a linear scan per option - quadratic - which no evaluation of 66000 options can afford.  Binary
   iteration (Pos.iter through Z.iter) only; the option numbers are built by successor, so they share their structure.
   Proofs8.v proves the closed form equal to the generic insertion for every count (bulk_add_generic); the correspondence run compares it
   with the real add(group) at full size. *)
Definition BULK_MAX : Z := 70000.
Definition BULK_SMALL : Z := 300.
Definition b36 (d : Z) : Z := if d <? 10 then 48 + d else 87 + d.
Definition gen_name (j : Z) : list Z :=
  let (q1, d0) := Z.div_eucl j 36 in let (q2, d1) := Z.div_eucl q1 36 in let (q3, d2) := Z.div_eucl q2 36 in
  [111; b36 (q3 mod 36); b36 d2; b36 d1; b36 d0].
Definition bulk_caption : list Z := [78].
Definition ctx_fresh (c : ctx) : bool := is_nil (index c) && is_nil (options c).
Definition bulk_count (k : Z) (c : ctx) : Z := Z.min (Z.max k 0) (if ctx_fresh c then BULK_MAX else BULK_SMALL).
(* the names number k-1, k-2, .. 0 pushed in front of the accumulator: the result is in increasing order *)
Definition gen_names (k : Z) : list (list Z) :=
  snd (Z.iter k (fun p => let j := fst p - 1 in (j, gen_name j :: snd p)) (k, [])).
Definition gen_opts (k : Z) : list opt := map (fun x => mkOpt x 0) (gen_names k).
Fixpoint number_from (n : nat) (l : list (list Z)) : list entry :=
  match l with [] => [] | x :: r => (x, n) :: number_from (S n) r end.
Fixpoint group_push_all (gid : nat) (os : list opt) (gs : list (list Z * list opt)) : list (list Z * list opt) :=
  match gs, gid with
  | [], _ => []
  | (c, os0) :: r, O => (c, os0 ++ os) :: r
  | g :: r, S n => g :: group_push_all n os r
  end.
Definition bulk_add (k : Z) (c : ctx) : ctx * option (list Z) :=
  let n := bulk_count k c in
  if ctx_fresh c then
    let gid := find_group_key bulk_caption (groups c) in
    let gs := if (gid <? length (groups c))%nat then groups c else groups c ++ [(bulk_caption, [])] in
    let ns := gen_names n in
    let os := map (fun x => mkOpt x 0) ns in
    (mkCtx (number_from O ns) os (group_push_all gid os gs), None)
  else add_group bulk_caption (gen_opts n) c.

(* ---- lookup ---- *)
Inductive fres :=
| FRange (r : list entry)          (* PrefixRange(it, up) as the list of its entries *)
| FUnknown                          (* throw UnknownOption *)
| FAmbiguous (r : list entry).      (* throw AmbiguousOption listing it->first for the range *)

Definition same_option (r : list entry) : bool :=
  match r with
  | [] => false
  | e0 :: _ => forallb (fun e => Nat.eqb (snd e) (snd e0)) r
  end.

Definition find_range (key : list Z) (t : Z) (c : ctx) : list entry :=
  let k := match key with
           | c0 :: rest => if (t =? find_alias) && negb (c0 =? DASH) then DASH :: rest ++ [c0] else key
           | [] => key
           end in
  let idx := index c in
  let it := lower_bound k idx in
  match nth_error idx it with
  | None => []                                                  (* it == index_.end() *)
  | Some e =>
      if list_eqb (fst e) k && negb (Z.land t (Z.lor find_alias find_name) =? 0) then [e]
      else if negb (Z.land t find_prefix =? 0) then
        let up := upper_bound (k ++ [CHAR_MAX]) idx in
        let r := firstn (up - it) (skipn it idx) in
        if same_option r then firstn 1 r else r
      else []
  end.

Definition find_impl (key : list Z) (t : Z) (emask : Z) (c : ctx) : fres :=
  let r := find_range key t c in
  if negb (length r =? 1)%nat && negb (emask =? 0) then
    if negb (Z.land emask emask_unknown =? 0) && is_nil r then FUnknown
    else if negb (Z.land emask emask_ambiguous =? 0) && negb (is_nil r) then FAmbiguous r
    else FRange r
  else FRange r.

(* option_iterator find(key, t): options_.begin() + findImpl(key, t, unsigned(-1)).first->second *)
Inductive lookup := Found (i : nat) | Unknown | Ambiguous (cands : list entry) | NotFound.
Definition find (key : list Z) (t : Z) (c : ctx) : lookup :=
  match find_impl key t find_emask c with
  | FRange (e :: _) => Found (snd e)
  | FRange [] => NotFound            (* unreachable with eMask = -1; dereferencing end() *)
  | FUnknown => Unknown
  | FAmbiguous r => Ambiguous r
  end.
(* tryFind: distance == 1 ? begin() + first->second : end() *)
Definition try_find (key : list Z) (t : Z) (c : ctx) : option nat :=
  match find_impl key t tryfind_emask c with
  | FRange [e] => Some (snd e)
  | _ => None
  end.
(* DefaultContext::getOption(name, ft): eMask = 2 + !allowUnreg; first of a non-empty range, else null *)
Definition get_option (allow_unreg : bool) (key : list Z) (t : Z) (c : ctx) : lookup :=
  match find_impl key t (ctx_emask_base + (if allow_unreg then 0 else 1)) c with
  | FRange (e :: _) => Found (snd e)
  | FRange [] => NotFound
  | FUnknown => Unknown
  | FAmbiguous r => Ambiguous r
  end.

(* A lookup made by a PARSER: parseCommandLine / parseCommandArray / parseCommandString / parseCfgFile all build a
   DefaultContext(ctx, allowUnreg, ..) and resolve names through DefaultContext::getOption - the long spelling
   (--key=v, config line "key = v") with find_name_or_prefix, the short spelling (-cv) with find_alias.  The entry point
   does not occur in the result: every one of them goes through get_option.  A key the harness cannot spell as one
   token (blank, quote, backslash, '=', control or high byte, leading '-' or '#'; short spelling: not one character;
   config files have no short spelling: the long one is used) is skipped by harness and model alike (observation 7). *)
Definition plain_byte (b : Z) : bool :=
  (33 <=? b) && (b <=? 126) && negb (b =? 34) && negb (b =? 39) && negb (b =? 61) && negb (b =? 92).
Definition plain_key (key : list Z) : bool :=
  match key with
  | [] => false
  | b :: _ => negb (b =? DASH) && negb (b =? 35) && forallb plain_byte key
  end.
Definition parser_lookup (key : list Z) (short allow entry : Z) (c : ctx) : option lookup :=
  let sh := negb (short =? 0) && negb (entry mod 4 =? 3) in
  if plain_key key && (negb sh || (length key =? 1)%nat)
  then Some (get_option (negb (allow =? 0)) key (if sh then find_alias else find_name_or_prefix) c)
  else None.

(* A SEQUENCE of names resolved within ONE parser run, i.e. through ONE DefaultContext: token number j (1, 2, ..) is "--key=j" / "-cj" /
   the config line "key = j".  CommandLineParser::doParse / CfgFileParser::doParse take the tokens one after the other and resolve each through
   DefaultContext::getOption: an option that is found is appended to the parsed values (addValue) with the token's value; a key that nothing
   matches is left alone when allowUnregistered (remaining arguments / skipped section); the first lookup that throws ends the parse, and the
   values collected so far are lost with the exception.  DefaultContext::getOption consults the option context's index and nothing else: it
   carries NO state from one lookup to the next, so `seq_run` hands every token to the same `parser_lookup` over the same context.
   If one of the keys cannot be spelled as a token nothing is run (observation 7). *)
Inductive seq_res :=
| SOk (ps : list (nat * nat))      (* the parsed values: (token number, option) in the order of the tokens *)
| SErr (f : lookup).               (* UnknownOption / AmbiguousOption thrown by the first failing lookup *)
Definition tok_spellable (entry : Z) (t : list Z * Z) : bool :=
  let sh := negb (snd t =? 0) && negb (entry mod 4 =? 3) in
  plain_key (fst t) && (negb sh || (length (fst t) =? 1)%nat).
Fixpoint seq_run (toks : list (list Z * Z)) (j : nat) (allow entry : Z) (c : ctx) (acc : list (nat * nat)) : seq_res :=
  match toks with
  | [] => SOk acc
  | (key, short) :: r =>
      match parser_lookup key short allow entry c with
      | Some (Found i) => seq_run r (S j) allow entry c (acc ++ [(j, i)])
      | Some NotFound => seq_run r (S j) allow entry c acc
      | None => seq_run r (S j) allow entry c acc          (* not reached: parser_seq runs spellable tokens only *)
      | Some f => SErr f
      end
  end.
Definition parser_seq (toks : list (list Z * Z)) (allow entry : Z) (c : ctx) : option seq_res :=
  if forallb (tok_spellable entry) toks then Some (seq_run toks 1 allow entry c []) else None.

(* ---- case decoding / observation encoding (see harness/h_c14.cpp) ---- *)
Definition enc_str (s : list Z) : list Z := Z.of_nat (length s) :: s.
Definition get_str (l : list Z) : list Z * list Z :=
  match l with
  | n :: r => (firstn (Z.to_nat n) r, skipn (Z.to_nat n) r)
  | [] => ([], [])
  end.
Fixpoint get_opts (n : nat) (l : list Z) : list opt * list Z :=
  match n with
  | O => ([], l)
  | S m => let '(nm, r1) := get_str l in
           match r1 with
           | a :: r2 => let '(os, r3) := get_opts m r2 in (mkOpt nm a :: os, r3)
           | [] => ([mkOpt nm 0], [])
           end
  end.
Definition get_group (l : list Z) : (list Z * list opt) * list Z :=
  let '(cap, r1) := get_str l in
  match r1 with
  | n :: r2 => let '(os, r3) := get_opts (Z.to_nat n) r2 in ((cap, os), r3)
  | [] => ((cap, []), [])
  end.
Fixpoint get_groups (n : nat) (l : list Z) : list (list Z * list opt) * list Z :=
  match n with
  | O => ([], l)
  | S m => let '(g, r1) := get_group l in let '(gs, r2) := get_groups m r1 in (g :: gs, r2)
  end.

Fixpoint get_toks (n : nat) (l : list Z) : list (list Z * Z) * list Z :=
  match n with
  | O => ([], l)
  | S m => let '(k, r1) := get_str l in
           match r1 with
           | sh :: r2 => let '(ts, r3) := get_toks m r2 in ((k, sh) :: ts, r3)
           | [] => ([(k, 0)], [])
           end
  end.
Definition enc_add (e : option (list Z)) : list Z :=
  match e with None => [0] | Some k => 1 :: enc_str k end.
Definition enc_cands (r : list entry) : list Z :=
  Z.of_nat (length r) :: flat_map (fun e => enc_str (fst e)) r.
Definition enc_fres (f : fres) : list Z :=
  match f with
  | FRange r => 0 :: Z.of_nat (length r) :: map (fun e => Z.of_nat (snd e)) r
  | FUnknown => [1]
  | FAmbiguous r => 2 :: enc_cands r
  end.
Definition enc_lookup (f : lookup) : list Z :=
  match f with
  | Found i => [0; Z.of_nat i]
  | Unknown => [1]
  | Ambiguous r => 2 :: enc_cands r
  | NotFound => [3]
  end.
Definition enc_seq (x : option seq_res) : list Z :=
  match x with
  | None => [7]
  | Some (SOk ps) => 0 :: Z.of_nat (length ps) :: flat_map (fun p => [Z.of_nat (fst p); Z.of_nat (snd p)]) ps
  | Some (SErr f) => enc_lookup f
  end.
(* a context of more than DUMP_FULL options (only op 9 builds one) is dumped in short: size, groups (caption, size), number of keys;
   its index is examined through the lookups (findImpl prints the stored option numbers) *)
Definition DUMP_FULL : Z := 4096.
Definition dump_short (c : ctx) : list Z :=
  Z.of_nat (length (options c)) :: Z.of_nat (length (groups c)) ::
  flat_map (fun g => enc_str (fst g) ++ [Z.of_nat (length (snd g))]) (groups c) ++ [Z.of_nat (length (index c))].
Definition dump_full (c : ctx) : list Z :=
  Z.of_nat (length (options c)) :: Z.of_nat (length (groups c)) ::
  flat_map (fun g => enc_str (fst g) ++ Z.of_nat (length (snd g)) :: flat_map (fun o => enc_str (oname o)) (snd g)) (groups c) ++
  Z.of_nat (length (index c)) :: flat_map (fun e => enc_str (fst e) ++ [Z.of_nat (snd e)]) (index c).
Definition dump (c : ctx) : list Z :=
  if DUMP_FULL <? Z.of_nat (length (options c)) then dump_short c else dump_full c.

Fixpoint run_ops (fuel : nat) (l : list Z) (c : ctx) : list Z :=
  match fuel with
  | O => dump c
  | S f =>
      match l with
      | 1 :: r =>                                   (* add(group) *)
          let '((cap, os), r1) := get_group r in
          let '(c1, e) := add_group cap os c in enc_add e ++ run_ops f r1 c1
      | 2 :: r =>                                   (* addAlias(name, begin() + min(i, size)) *)
          let '(nm, r1) := get_str r in
          match r1 with
          | i :: r2 => let '(c1, e) := add_alias nm (Z.to_nat i) c in enc_add e ++ run_ops f r2 c1
          | [] => dump c
          end
      | 3 :: n :: r =>                              (* add(other context built from n groups) *)
          let '(gs, r1) := get_groups (Z.to_nat n) r in
          let '(other, e0) := add_groups gs empty_ctx in
          match e0 with
          | Some _ => 2 :: run_ops f r1 c             (* building the other context failed: nothing merged *)
          | None => let '(c1, e) := add_ctx other c in enc_add e ++ run_ops f r1 c1
          end
      | 4 :: r =>                                   (* find(key, t) *)
          let '(key, r1) := get_str r in
          match r1 with
          | t :: r2 => enc_lookup (find key t c) ++ run_ops f r2 c
          | [] => dump c
          end
      | 5 :: r =>                                   (* tryFind(key, t) *)
          let '(key, r1) := get_str r in
          match r1 with
          | t :: r2 => (match try_find key t c with Some i => Z.of_nat i | None => -1 end) :: run_ops f r2 c
          | [] => dump c
          end
      | 6 :: r =>                                   (* findImpl(key, t, eMask) *)
          let '(key, r1) := get_str r in
          match r1 with
          | t :: m :: r2 => enc_fres (find_impl key t m c) ++ run_ops f r2 c
          | _ => dump c
          end
      | 7 :: r =>                                   (* lookup through a parser entry point: DefaultContext::getOption *)
          let '(key, r1) := get_str r in
          match r1 with
          | short :: allow :: entry :: r2 =>
              (match parser_lookup key short allow entry c with Some x => enc_lookup x | None => [7] end) ++ run_ops f r2 c
          | _ => dump c
          end
      | 8 :: n :: r =>                              (* n names resolved in ONE parser run (one DefaultContext) *)
          let '(toks, r1) := get_toks (Z.to_nat n) r in
          match r1 with
          | allow :: entry :: r2 => enc_seq (parser_seq toks allow entry c) ++ run_ops f r2 c
          | _ => dump c
          end
      | 9 :: k :: r =>                              (* add(group "N": k generated options o0000, o0001, ..) *)
          let '(c1, e) := bulk_add k c in enc_add e ++ run_ops f r c1
      | _ => dump c
      end
  end.

Definition run_case (c : list Z) : list Z := run_ops (length c) c empty_ctx.
