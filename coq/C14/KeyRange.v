(* C14 - the obligation that ties the range of the option number stored in the name index (OptionContext::key_type, read from
   program_options.h by tools/consts/C14.py as Consts_C14.key_max) to what the property needs.  Kept in a file of its own: when the
   typedef is narrowed, exactly this lemma (and Properties_C14.v, which states it as c14_key_range_sufficient) stops compiling, while
   V.C14.Key - generic in the range - and all lookup theorems still check. *)
Require Import V.Lib.Base V.Gen.Consts_C14 V.C14.Model V.C14.Spec V.C14.Key.
Local Open Scope Z_scope.

(* The property quantifies over every context a program can build.  Every option is at least one heap object (Option: name string,
   description string, Value pointer, reference count) plus one SharedOptPtr in options_, one in its group and one std::map node with
   a std::string key in index_: more than 100 bytes per option on the LP64 target the harness is built for.  2^32 options therefore
   occupy more than 400 GiB - "exhaustion of memory" scale, beyond any address space this suite can use, and outside what the
   property covers.  Every smaller context is inside the range iff key_type is at least as wide as a 32-bit unsigned: a narrower type
   (unsigned short: 65535) breaks this lemma, and a context of 65537 options - 66000 small objects, a few MiB - then resolves names
   to the wrong option (correspondence cases of kind many-options). *)
Lemma key_range_sufficient : 2 ^ 32 - 1 <= key_max.
Proof. vm_compute. discriminate. Qed.

(* a context of at most 2^32 options has every option number stored exactly *)
Lemma index_exact_below_memory_scale c al : built c al -> Z.of_nat (length (options c)) <= 2 ^ 32 ->
  (forall k i, In (k, i) (index c) -> key_of i = Z.of_nat i) /\
  (forall k1 i1 k2 i2, In (k1, i1) (index c) -> In (k2, i2) (index c) -> key_of i1 = key_of i2 -> i1 = i2) /\
  stored_index c = map (fun e => (fst e, Z.of_nat (snd e))) (index c).
Proof.
  intros Hb Hn. apply (index_exact c al Hb). pose proof key_range_sufficient. lia.
Qed.
