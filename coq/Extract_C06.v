Require Import ExtrOcamlBasic.
Require Import V.C06.Model.
Extraction "model.ml" run_case.
