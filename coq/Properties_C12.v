Require Import V.Lib.Base V.C12.Model.
Local Open Scope Z_scope.
Example c12_smoke : run_case [0; 1; 0; 7] = [0; 0; 0; 0; 0; 0].
Proof. vm_compute. reflexivity. Qed.
Print Assumptions c12_smoke.
