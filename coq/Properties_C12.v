(* C12 - theory store returns what was stored, tracks steps, and replays faithfully.
   Statements only; proofs are in C12/Proofs*.v.  Concrete model: V.C12.Model; abstract table: V.C12.Spec.
   abs : st -> ast is the observable table of a concrete state (V.C12.ProofsRef);  Inv is the ledger invariant
   (V.C12.ProofsInv);  wf_op: ids >= 0, numbers 32-bit, symbols NUL-free, atoms < 2^31.                       *)
Require Import V.Lib.Base V.Lib.Calls V.Gen.Consts V.Gen.Consts_C12 V.C12.Spec V.C12.Model
  V.C12.ProofsBase V.C12.ProofsInv V.C12.ProofsRef V.C12.ProofsHist V.C12.ProofsVisit V.C12.ProofsClosure V.C12.ProofsFinal.
Require Import Permutation.
Local Open Scope Z_scope.

(* the tagged 64-bit word gives back every 32-bit number (negative ones included) and never collides with nulTerm *)
Theorem c12_number : forall n, -2147483648 <= n <= 2147483647 ->
  number (mk_num n) = n /\ wtype (mk_num n) = Theory_t_Number /\ valid (mk_num n) = true /\ mk_num n <> NUL_TERM /\ 0 <= mk_num n < WORD.
Proof. exact number_word. Qed.
Print Assumptions c12_number.

(* every public mutator commutes with the abstraction, returns the table's result code, keeps the ledger invariant
   and never faults (no double free, no dangling read, no new/delete kind mismatch) *)
Theorem c12_refines_step : forall s o, Inv s -> wf_op o ->
  fst (step s o) = fst (s_step (abs s) o) /\ aeq (abs (snd (step s o))) (snd (s_step (abs s) o)) /\
  Inv (snd (step s o)) /\ fst (step s o) <> EC_FAULT.
Proof. exact step_refines. Qed.
Print Assumptions c12_refines_step.

(* all histories from the empty store: same result codes as the plain table, and every lookup
   (has / isNew / get of terms and elements, the atom list, numAtoms, currBegin) answers as the table does *)
Theorem c12_refines : forall ops, Forall wf_op ops ->
  fst (run init ops) = fst (s_run a_init ops) /\
  aeq (abs (snd (run init ops))) (snd (s_run a_init ops)) /\
  lookups_agree (snd (run init ops)) (snd (s_run a_init ops)) /\
  Inv (snd (run init ops)) /\ ~ In EC_FAULT (fst (run init ops)).
Proof. exact history_refines. Qed.
Print Assumptions c12_refines.

(* redefinition inside a step is refused and the store (incl. the ledger's cells) is unchanged (the symbol and compound
   overloads copy their argument before they ask: the copy is released again, only the fresh-address counter moved) ... *)
Theorem c12_redefinition_refused : forall s id, Inv s -> 0 <= id -> isNewTerm s id = true ->
  (forall n, step s (OAddNum id n) = (EC_REDEF_TERM, s)) /\
  (forall b, fst (step s (OAddSym id b)) = EC_REDEF_TERM /\ same_store s (snd (step s (OAddSym id b)))) /\
  (forall base args, fst (step s (OAddComp id base args)) = EC_REDEF_TERM /\ same_store s (snd (step s (OAddComp id base args)))).
Proof. exact redefinition_refused. Qed.
Print Assumptions c12_redefinition_refused.
Theorem c12_redefinition_refused_elem : forall s id ts c, Inv s -> isNewElement s id = true -> step s (OAddElem id ts c) = (EC_REDEF_ELEM, s).
Proof. exact redefinition_refused_elem. Qed.
Print Assumptions c12_redefinition_refused_elem.
(* ... while redefinition of an item that is not new replaces it *)
Theorem c12_redefinition_replaces : forall s id n, Inv s -> 0 <= id -> -2147483648 <= n <= 2147483647 -> isNewTerm s id = false ->
  fst (step s (OAddNum id n)) = 0 /\ getTerm (snd (step s (OAddNum id n))) id = Ok (ANum n).
Proof. exact redefinition_replaces. Qed.
Print Assumptions c12_redefinition_replaces.
(* ... in particular when it is re-defined from its OWN stored content (the argument aliases the store's memory:
   td.addTerm(id, newName, td.getTerm(id).terms()), td.addTerm(id, td.getTerm(id).symbol()),
   td.addElement(id, td.getElement(id).terms(), newCond)): an argument is a value - the content held for id when the call is
   made -, the item that comes back has exactly that content (new function symbol / tuple type / condition, the SAME
   arguments / bytes / terms), and no other id changes.  For every state with Inv (all reachable ones: c12_refines). *)
Theorem c12_redefine_own_content : forall s id, Inv s -> 0 <= id ->
  (forall base args base', isNewTerm s id = false -> getTerm s id = Ok (AComp base args) ->
     let s' := snd (step s (OAddComp id base' args)) in
     fst (step s (OAddComp id base' args)) = 0 /\ getTerm s' id = Ok (AComp base' args) /\
     (forall j, j <> id -> getTerm s' j = getTerm s j)) /\
  (forall b, isNewTerm s id = false -> getTerm s id = Ok (ASym b) ->
     let s' := snd (step s (OAddSym id b)) in
     fst (step s (OAddSym id b)) = 0 /\ getTerm s' id = Ok (ASym b) /\
     (forall j, j <> id -> getTerm s' j = getTerm s j)) /\
  (forall ts c c', isNewElement s id = false -> getElement s id = Ok (mke ts c) ->
     let s' := snd (step s (OAddElem id ts c')) in
     fst (step s (OAddElem id ts c')) = 0 /\ getElement s' id = Ok (mke ts c') /\
     (forall j, j <> id -> getElement s' j = getElement s j)).
Proof. exact redefine_own_content. Qed.
Print Assumptions c12_redefine_own_content.

(* ledger: after every history the live heap cells are exactly the cells owned by stored items (one owner each; the
   count is the number of stored symbol/compound terms + elements + atoms), no operation faulted, and reset() - hence
   the destructor - succeeds and leaves the ledger empty *)
Theorem c12_ledger : forall ops, Forall wf_op ops ->
  let s := snd (run init ops) in
  Inv s /\
  (forall a, (exists o, hfind (hp s) a = Some o) <-> owned s a) /\
  Permutation (map fst (cells (hp s))) (owners s) /\
  live (hp s) = Z.of_nat (length (owners s)) /\
  ~ In EC_FAULT (fst (run init ops)) /\
  fst (reset s) = 0 /\ cells (hp (snd (reset s))) = [] /\ live (hp (snd (reset s))) = 0.
Proof. exact history_ledger. Qed.
Print Assumptions c12_ledger.

(* visiting: the four accept() overloads computed on the plain table ... *)
Theorem c12_visit_accept : forall cur s, Inv s ->
  (forall t, accept_term cur s t = s_accept_term cur (abs s) t) /\
  (forall e, accept_elem cur s e = s_accept_elem cur (abs s) e) /\
  (forall x, accept_atom cur s x = s_accept_atom cur (abs s) x) /\
  accept_top cur s = Ok (s_accept_top cur (abs s)).
Proof. exact accept_abs. Qed.
Print Assumptions c12_visit_accept.
(* ... reach, in mode all, exactly the referenced ids, in order, iff all of them are stored (otherwise getTerm's logic_error
   after the ids before the first unknown one) and every visited item is handed over with its stored content *)
Theorem c12_visit_all : forall a ids,
  (snd (s_term_visits false a ids) = 0 <-> forall id, In id ids -> T a id <> None) /\
  (snd (s_term_visits false a ids) = 0 -> map vref_id (fst (s_term_visits false a ids)) = ids) /\
  (snd (s_term_visits false a ids) <> 0 ->
     snd (s_term_visits false a ids) = EC_UNKNOWN_TERM /\
     exists pre x post, ids = pre ++ x :: post /\ T a x = None /\ map vref_id (fst (s_term_visits false a ids)) = pre).
Proof. exact s_term_visits_all. Qed.
Print Assumptions c12_visit_all.
Theorem c12_visit_atom_all : forall a x,
  T a (a_term x) <> None -> (forall e, In e (a_elems x) -> E a e <> None) -> (forall t, In t (atom_term_refs x) -> T a t <> None) ->
  snd (s_accept_atom false a x) = 0 /\ map vref_id (fst (s_accept_atom false a x)) = a_term x :: a_elems x ++ atom_term_refs x.
Proof. exact s_accept_atom_all_ok. Qed.
Print Assumptions c12_visit_atom_all.
(* ... and in mode current only the new ones, never failing *)
Theorem c12_visit_current : forall a,
  (forall ids, snd (s_term_visits true a ids) = 0 /\ map vref_id (fst (s_term_visits true a ids)) = filter (s_new_term a) ids) /\
  (forall ids, snd (s_elem_visits true a ids) = 0 /\ map vref_id (fst (s_elem_visits true a ids)) = filter (s_new_elem a) ids) /\
  (forall x, snd (s_accept_atom true a x) = 0 /\
     map vref_id (fst (s_accept_atom true a x)) =
       filter (s_new_term a) [a_term x] ++ filter (s_new_elem a) (a_elems x) ++ filter (s_new_term a) (atom_term_refs x)).
Proof. intro a. split; [apply s_term_visits_cur|split; [apply s_elem_visits_cur|apply s_accept_atom_cur]]. Qed.
Print Assumptions c12_visit_current.
Theorem c12_visit_sound : forall cur a x, Forall (vref_ok cur a) (fst (s_accept_atom cur a x)).
Proof. exact s_accept_atom_sound. Qed.
Print Assumptions c12_visit_sound.

(* the recursive printing visitor used by the harness (marks an item before descending, so cyclic terms terminate):
   it terminates within its fuel, never faults, every call it emits is the directive of a stored item
   (a new one / a current-step atom in mode current) ... *)
Theorem c12_visitor_sound : forall cur s, Inv s ->
  Forall (call_ok cur (abs s)) (fst (visit cur s)) /\ snd (visit cur s) <> EC_FAULT.
Proof. exact visit_sound. Qed.
Print Assumptions c12_visitor_sound.
(* ... and when it finishes without error it has emitted every atom handed out by accept() (all atoms; in mode current
   those after the mark) and every element / term reachable from them along the references accept() follows in that mode
   (rT / rE: the least sets closed under atom -> term, guard, rhs, elements; element -> terms; term -> arguments, function symbol;
   in mode current only through new items) *)
Theorem c12_visitor_complete : forall cur s, Inv s -> snd (visit cur s) = 0 ->
  (forall x, In x (top cur s) -> In (call_of_atom x) (fst (visit cur s))) /\
  (forall e, rE cur s e -> exists x, E (abs s) e = Some x /\ In (call_of_elem e x) (fst (visit cur s))) /\
  (forall i, rT cur s i -> exists t, T (abs s) i = Some t /\ In (call_of_term i t) (fst (visit cur s))).
Proof. exact visit_complete. Qed.
Print Assumptions c12_visitor_complete.

(* print(): what was added comes back as the directive that was added *)
Theorem c12_print : forall s, Inv s ->
  (forall id n, wf_op (OAddNum id n) -> fst (step s (OAddNum id n)) = 0 ->
     getTerm (snd (step s (OAddNum id n))) id = Ok (ANum n) /\ call_of_term id (ANum n) = CTNum id n) /\
  (forall id b, wf_op (OAddSym id b) -> fst (step s (OAddSym id b)) = 0 ->
     getTerm (snd (step s (OAddSym id b))) id = Ok (ASym b) /\ call_of_term id (ASym b) = CTSym id b) /\
  (forall id base args, wf_op (OAddComp id base args) -> fst (step s (OAddComp id base args)) = 0 ->
     getTerm (snd (step s (OAddComp id base args))) id = Ok (AComp base args) /\ call_of_term id (AComp base args) = CTComp id base args) /\
  (forall id ts c, wf_op (OAddElem id ts c) -> fst (step s (OAddElem id ts c)) = 0 ->
     getElement (snd (step s (OAddElem id ts c))) id = Ok (mke ts c) /\ call_of_elem id (mke ts c) = CTElem id ts [c]) /\
  (forall a t es g, wf_op (OAddAtom a t es g) ->
     atom_views (hp (snd (step s (OAddAtom a t es g)))) (atoms (snd (step s (OAddAtom a t es g)))) = Ok (vA s ++ [mka a t es g]) /\
     call_of_atom (mka a t es g) = match g with None => CTAtom a t es | Some (o, r) => CTAtomG a t es o r end).
Proof. exact print_roundtrip. Qed.
Print Assumptions c12_print.

(* filter removes exactly the current-step atoms with a non-zero atom id that satisfy the predicate; everything else
   (older atoms, terms, elements, the mark) is untouched and the ledger shrinks by exactly the removed atoms *)
Theorem c12_filter : forall s p, Inv s ->
  let s' := snd (step s (OFilter p)) in
  let k := Z.to_nat (fatom s) in
  fst (step s (OFilter p)) = 0 /\ Inv s' /\
  vA s' = firstn k (vA s) ++ filter (atom_kept p) (skipn k (vA s)) /\
  (forall x, In x (filter (atom_kept p) (skipn k (vA s))) <-> In x (skipn k (vA s)) /\ (a_atom x = 0 \/ p x = false)) /\
  (forall id, vT s' id = vT s id) /\ (forall id, vE s' id = vE s id) /\ fatom s' = fatom s /\
  live (hp s') = live (hp s) - Z.of_nat (length (skipn k (vA s))) + Z.of_nat (length (filter (atom_kept p) (skipn k (vA s)))).
Proof. exact filter_exact. Qed.
Print Assumptions c12_filter.

(* known finding symbol-nul: with a NUL byte inside a symbol the stored content does not come back *)
Theorem c12_symbol_nul_refuted : exists b, fst (step init (OAddSym 0 b)) = 0 /\ getTerm (snd (step init (OAddSym 0 b))) 0 <> Ok (ASym b).
Proof. exact symbol_nul_refuted. Qed.
Print Assumptions c12_symbol_nul_refuted.

(* ---------- non-vacuity ---------- *)
Definition ex_ops : list op :=
  [OAddSym 0 [102]; OAddNum 1 (-1); OAddComp 2 0 [1; 1]; OAddComp 5 (-1) []; OAddElem 0 [2] COND_DEFERRED; OSetCond 0 7;
   OAddAtom 1 0 [0] (Some (0, 1)); OUpdate; OAddNum 1 (-2147483648); ORemoveTerm 5; OAddAtom 2 0 [] None; OAddAtom 0 0 [] None;
   OFilter (fun _ => true); OAddComp 7 0 []; OAddComp 7 0 [1]].
Example ex_wf : Forall wf_op ex_ops.
Proof. unfold ex_ops, wf_op, nul_free, ATOM_MOD. repeat constructor; lia. Qed.
(* a non-trivial reachable state: it satisfies Inv (by c12_refines), holds 6 live cells, stores items of every kind,
   refused the last operation (redefinition inside the step) and has one old and one new term *)
Example ex_state :
  let s := snd (run init ex_ops) in
  Inv s /\ live (hp s) = 6 /\ fst (run init ex_ops) = [0;0;0;0;0;0;0;0;0;0;0;0;0;0;EC_REDEF_TERM] /\
  isNewTerm s 7 = true /\ isNewTerm s 1 = false /\ hasTerm s 1 = true /\ hasTerm s 5 = false /\
  getTerm s 1 = Ok (ANum (-2147483648)) /\ getElement s 0 = Ok (mke [2] 7) /\ numAtoms s = 2 /\
  fst (visit false s) = [CTSym 0 [102]; CTNum 1 (-2147483648); CTComp 2 0 [1; 1]; CTElem 0 [2] [7]; CTAtomG 1 0 [0] 0 1; CTAtom 0 0 []].
Proof.
  cbv zeta. split; [apply (c12_refines ex_ops ex_wf)|]. vm_compute. repeat split; reflexivity.
Qed.
Example ex_number : number (mk_num (-1)) = -1 /\ number (mk_num (-2147483648)) = -2147483648 /\ mk_num (-1) = 18446744073709551612.
Proof. vm_compute. repeat split; reflexivity. Qed.
(* the hypotheses of c12_redefine_own_content are met by a reachable state: after the mark, term 2 = f(1,1), the symbol 0
   and element 0 are items of an earlier step; re-defining them from their stored content keeps the content *)
Definition own_ops : list op := [OAddSym 0 [102]; OAddNum 1 7; OAddComp 2 0 [1; 1]; OAddElem 0 [2; 1] 3; OUpdate].
Example ex_own_content :
  let s := snd (run init own_ops) in
  Forall wf_op own_ops /\ Inv s /\ isNewTerm s 2 = false /\ isNewTerm s 0 = false /\ isNewElement s 0 = false /\
  getTerm s 2 = Ok (AComp 0 [1; 1]) /\ getTerm s 0 = Ok (ASym [102]) /\ getElement s 0 = Ok (mke [2; 1] 3) /\
  getTerm (snd (step s (OAddComp 2 (-2) [1; 1]))) 2 = Ok (AComp (-2) [1; 1]) /\
  getTerm (snd (step s (OAddSym 0 [102]))) 0 = Ok (ASym [102]) /\
  getElement (snd (step s (OAddElem 0 [2; 1] 9))) 0 = Ok (mke [2; 1] 9) /\
  live (hp (snd (step s (OAddComp 2 (-2) [1; 1])))) = live (hp s).
Proof.
  assert (W : Forall wf_op own_ops) by (unfold own_ops, wf_op, nul_free; repeat constructor; lia).
  cbv zeta. split; [exact W|]. split; [apply (c12_refines own_ops W)|]. vm_compute. repeat split; reflexivity.
Qed.

