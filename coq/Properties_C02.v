(* C02 - property theorems.  Model: V.C02.Model (SmodelsConvert/SmData call-for-call, SmodelsOutput's acceptance
   conditions); specification-side definitions: V.C02.Spec; reference semantics: V.C02.Sem. *)
Require Import V.Lib.Base V.Lib.Calls V.Gen.Consts V.Gen.Consts_C02 V.C02.Model V.C02.Spec V.C02.ProofsMap V.C02.ProofsErr V.C02.Sem V.C02.ProofsSem V.C02.ProofsIso V.C02.ProofsShape V.C02.ProofsDefExt V.C02.ProofsWeight V.C02.ProofsOutput V.C02.ProofsExt V.C02.ProofsCompose V.C02.ProofsCore V.C02.ProofsHeu V.C02.ProofsSteps V.C02.ProofsFinal V.C02.ProofsHeuShape.
Local Open Scope Z_scope.

(* (1) The atom map.  For EVERY call sequence p (any mix of directives, any number of steps, extensions on or off) that the
   converter processes, provided fewer than 2^28 smodels atoms were handed out (next_ <= 2^smid_bits: the 28-bit smId field
   has not wrapped):  every image lies in [2, next) and is not the false atom; the map is injective; the auxiliary atoms
   (results of newAtom(): heads of `aux :- condition` and of split weight rules) lie in [2, next), are pairwise distinct and
   are no atom's image; and the image of an atom, once defined after any prefix p1 of p (i.e. also in an earlier step),
   is the same at the end, and auxiliary atoms stay auxiliary. *)
Theorem c02_map : forall ext p s out,
  cv_run ext cv0 p = Ok (s, out) -> next s <= 2 ^ smid_bits ->
  (forall a, img s a <> 0 -> next_start <= img s a < next s /\ img s a <> false_atom) /\
  (forall a b, img s a <> 0 -> img s a = img s b -> a = b) /\
  (forall x, In x (auxs s) -> next_start <= x < next s /\ forall a, img s a <> x) /\
  NoDup (auxs s) /\
  (forall p1 p2 s1 o1, p = p1 ++ p2 -> cv_run ext cv0 p1 = Ok (s1, o1) ->
     (forall a, img s1 a <> 0 -> img s a = img s1 a) /\ (forall x, In x (auxs s1) -> In x (auxs s))).
Proof. exact map_invariant. Qed.
Print Assumptions c02_map.

Definition demo : list call :=
  [CInit true; CBegin; CRule 1 [1; 2] []; CWRule 0 [3; 4] 2 [(1, 1); (-2, 2)]; COutput [97] [1]; COutput [98] [1];
   COutput [99] [1; -2]; CExternal 5 0; CMin 0 [(1, -3); (2, 1)]; CMin 0 [(3, 1)]; CEnd;
   CBegin; CRule 0 [5] [1]; COutput [100] [5]; CExternal 6 3; CEnd].
Example c02_map_nonvacuous :
  exists s out, cv_run true cv0 demo = Ok (s, out) /\ next s <= 2 ^ smid_bits /\ img s 5 <> 0 /\ auxs s <> [].
Proof. eexists; eexists. split; [vm_compute; reflexivity|]. vm_compute. repeat split; discriminate. Qed.

(* (2) Errors.  For every sequence that follows the AbstractProgram protocol, the conversion to smodels format
   (converter in front of SmodelsOutput(os, ext, 0)) fails if and only if the program contains a directive smodels cannot
   carry in that mode: project / assume / theory always; heuristic / edge / an incremental program without the extensions;
   a weight rule with a negative bound (whose head is not an empty choice); a minimize weight of -2^31.  Otherwise the
   converter alone never fails and, below the 2^28 bound, the writer accepts every call the converter makes. *)
Theorem c02_errors : forall ext p, wf_from 0 p = true ->
  (existsb (unsupported ext) p = true -> exists e, conv_write ext cv0 sw0 p = Err e) /\
  (existsb (unsupported ext) p = false ->
     exists s out, cv_run ext cv0 p = Ok (s, out) /\
       (next s <= 2 ^ smid_bits -> exists w, conv_write ext cv0 sw0 p = Ok (s, w, out))).
Proof. exact errors_characterised. Qed.
Print Assumptions c02_errors.

Example c02_errors_nonvacuous :
  wf_from 0 demo = true /\ existsb (unsupported true) demo = false /\ existsb (unsupported false) demo = true /\
  (exists s w out, conv_write true cv0 sw0 demo = Ok (s, w, out)) /\ conv_write false cv0 sw0 demo = Err 1.
Proof. repeat split; try (vm_compute; reflexivity). eexists; eexists; eexists. vm_compute. reflexivity. Qed.

(* (3) Optimisation.  One step = directives ds (no endStep among them) followed by endStep, started in any reachable state
   whose minimize_ is empty (the state after initProgram/beginStep or after an earlier endStep).  The minimize statements the
   converter emits at endStep have strictly ascending, pairwise different priorities (one statement per input priority,
   lower priorities first), and for every interpretation X of the input atoms and its image X' under the final atom map the
   cost of the emitted statements at each priority equals the input cost at that priority minus a constant that does not
   depend on X (the sum of the negative weights: w*[l] = w + (-w)*[not l]).  All emitted weights are >= 0 (cost_norm). *)
Theorem c02_cost : forall ext ds s0 s1 o1 s' out,
  forallb notend ds = true -> Forall min_ok ds -> mins s0 = [] -> Inv s0 ->
  cv_run ext s0 ds = Ok (s1, o1) -> cv_call ext s1 CEnd = Ok (s', out) -> next s' <= 2 ^ smid_bits ->
  keys_asc (mins s1) /\ min_prios out = map fst (mins s1) /\
  forall X X', lifts s' X X' -> forall prio, cost_calls out prio X' = cost_calls ds prio X - negs ds prio.
Proof. exact cost_step. Qed.
Print Assumptions c02_cost.

Theorem c02_cost_sign : forall ls ls', norm_min ls = Some ls' -> Forall (fun lw => fst lw <> 0) ls ->
  Forall (fun lw => 0 <= snd lw) ls' /\ forall X, wsum (holds X) ls = wsum (holds X) ls' + negsum ls.
Proof. exact cost_norm. Qed.
Print Assumptions c02_cost_sign.

Example c02_cost_nonvacuous :
  let ds := [CRule 1 [1; 2] []; CMin 2 [(1, -3); (-2, 4)]; CMin 0 [(2, 1)]; CMin 2 [(2, -1)]] in
  exists s1 o1 s' out, cv_run false cv0 ds = Ok (s1, o1) /\ cv_call false s1 CEnd = Ok (s', out) /\
    min_prios out = [0; 2] /\ negs ds 2 = -4 /\
    cost_calls out 2 (fun x => x =? 2) = cost_calls ds 2 (fun a => a =? 1) - negs ds 2.
Proof. do 4 eexists. split; [vm_compute; reflexivity|]. split; [vm_compute; reflexivity|]. vm_compute. auto. Qed.

(* (4) Semantic building blocks over the reference semantics V.C02.Sem (independent of the converter model).
   rename_iso: for a map m that is injective and positive on the atoms of P, X |-> push X and X' |-> pull X' are mutually
   inverse bijections between the stable models of P (within `atoms`) and those of the renamed program (within m(atoms)). *)
Theorem c02_rename_iso : forall (m : Z -> Z) (atoms : list Z),
  (forall a b, In a atoms -> In b atoms -> m a = m b -> a = b) ->
  (forall a, In a atoms -> 0 < a /\ 0 < m a) ->
  forall P, Forall (rule_in atoms) P ->
  (forall X, stable P X -> stable (map (rn_rule m) P) (push m atoms X)) /\
  (forall X', stable (map (rn_rule m) P) X' -> stable P (pull m atoms X')) /\
  (forall X a, (forall b, X b = true -> In b atoms) -> pull m atoms (push m atoms X) a = X a) /\
  (forall X' x, (forall y, X' y = true -> exists a, In a atoms /\ m a = y) -> push m atoms (pull m atoms X') x = X' x).
Proof.
  intros m atoms Hinj Hpos P HP. split; [|split; [|split]].
  - intros X. apply rename_sound; assumption.
  - intros X'. apply rename_complete; assumption.
  - intros X a. apply pull_push; assumption.
  - intros X' x. apply push_pull.
Qed.
Print Assumptions c02_rename_iso.

(* integrity constraints: replacing every empty disjunctive head by the atom f and requiring `not f` (the compute statement
   emitted at every endStep) preserves the stable models; an empty choice head says nothing (it is dropped). *)
Theorem c02_constraint_false : forall f P X, X f = false -> (stable (map (fix_empty f) P) X <-> stable P X).
Proof. exact constraint_false. Qed.
Print Assumptions c02_constraint_false.

Example c02_sem_nonvacuous :
  (* {a;b}. c :- a, not b.  :- b.   has exactly the stable models {} and {a,c} among the subsets of {a,b,c} *)
  enum_stable [1; 2; 3] [mkRule true [1; 2] (BNormal []); mkRule false [3] (BNormal [1; -2]); mkRule false [] (BNormal [2])]
  = [[]; [1; 3]].
Proof. vm_compute. reflexivity. Qed.

(* c02_equiv_partial: the one-to-one correspondence of answer sets, END TO END through the converter model, for the fragment
   of plain rules (disjunctive / choice / empty heads, normal bodies; any number of them, any reachable start state, extensions
   on or off): the rules the converter emits have, under push/pull along the final atom map (injective on the program's atoms),
   exactly the stable models of the input rules, the false atom being false (the compute statement emitted at endStep).
   push/pull are mutually inverse by c02_rename_iso.
   SUPERSEDED by c02_equiv_weight (weight rules) and c02_equiv_partial2 (a whole step with all of rule / weight rule /
   minimize / output / external) below; kept because it is the simplest instance. *)
Theorem c02_equiv_partial : forall ext ds s s1 out,
  forallb is_rule ds = true -> Forall valid_ht ds -> Forall call_atoms_pos ds ->
  cv_run ext s ds = Ok (s1, out) -> Inv s -> next s1 <= 2 ^ smid_bits ->
  let m := img s1 in let R := rules_of ds in let atoms := flat_map rule_atoms (filter keep R) in
  (forall a b, In a atoms -> In b atoms -> m a = m b -> a = b) /\
  (forall X, stable R X -> stable (rules_of out) (push m atoms X) /\ push m atoms X false_atom = false) /\
  (forall X', stable (rules_of out) X' -> X' false_atom = false -> stable R (pull m atoms X')).
Proof. exact equiv_rules. Qed.
Print Assumptions c02_equiv_partial.

Example c02_equiv_partial_nonvacuous :
  let ds := [CRule 1 [1; 2] []; CRule 0 [3] [1; -2]; CRule 0 [] [2]; CRule 1 [] [3]] in
  forallb is_rule ds = true /\ Forall valid_ht ds /\ Forall call_atoms_pos ds /\
  exists s1 out, cv_run false cv0 ds = Ok (s1, out) /\ next s1 <= 2 ^ smid_bits /\
    rules_of out = [mkRule true [2; 3] (BNormal []); mkRule false [4] (BNormal [2; -3]); mkRule false [1] (BNormal [3])].
Proof.
  split; [reflexivity|]. split; [repeat (apply Forall_cons; [vm_compute; auto|]); apply Forall_nil|].
  split; [repeat (apply Forall_cons; [split; repeat constructor; lia|]); apply Forall_nil|].
  do 2 eexists. split; [vm_compute; reflexivity|]. split; [vm_compute; discriminate | vm_compute; reflexivity].
Qed.

(* (5) Definitional extension (building block B, over the reference semantics only).  Adding a FRESH atom x defined by
   exactly one rule  x :- B  (B does not mention x, weights in B >= 0), where x occurs elsewhere in no head and in bodies only
   as the whole positive body `[x]` (the converter's two uses: `H :- aux` after `aux :- sum`, and `aux :- cond` used by no
   rule at all), is a bijection of stable models: X |-> X + [x := X |= B] from the program in which those bodies are
   replaced by B (unfold1) to the extended program, with inverse X' |-> X' - x; x has the value of B in every stable model.
   ProofsDefExt.defext_sound/complete/values prove the same for a LIST of such definitions at once (used below). *)
Theorem c02_defext : forall x B P',
  0 < x -> ~ In x (body_atoms B) -> body_nonneg B ->
  (forall r, In r P' -> ~ In x (r_head r) /\ (r_body r = BNormal [x] \/ ~ In x (body_atoms (r_body r)))) ->
  let Q := mkRule false [x] B :: P' in
  let P := map (unfold1 x B) P' in
  (forall X, stable P X -> stable Q (ext1 x B X)) /\
  (forall X', stable Q X' -> stable P (drop1 x X') /\ X' x = bsat X' X' B) /\
  (forall X a, X x = false -> drop1 x (ext1 x B X) a = X a) /\
  (forall X' a, stable Q X' -> ext1 x B (drop1 x X') a = X' a).
Proof. exact defext_single. Qed.
Print Assumptions c02_defext.

Example c02_defext_nonvacuous :
  (* {a;b}.  c :- x.   x :- 1 <= #sum{a=1; not b=1}   (a=1 b=2 x=3 c=4) *)
  let x := 3 in let B := BSum 1 [(1, 1); (-2, 1)] in
  let P' := [mkRule true [1; 2] (BNormal []); mkRule false [4] (BNormal [3])] in
  0 < x /\ ~ In x (body_atoms B) /\ body_nonneg B /\
  (forall r, In r P' -> ~ In x (r_head r) /\ (r_body r = BNormal [x] \/ ~ In x (body_atoms (r_body r)))) /\
  map (unfold1 x B) P' = [mkRule true [1; 2] (BNormal []); mkRule false [4] B] /\
  enum_stable [1; 2; 3; 4] (mkRule false [x] B :: P') = [[3; 4]; [2]; [1; 3; 4]; [1; 2; 3; 4]].
Proof.
  cbv zeta. split; [lia|]. split; [simpl; intuition lia|]. split; [simpl; repeat (apply Forall_cons; [simpl; lia|]); apply Forall_nil|].
  split; [|split; vm_compute; reflexivity].
  intros r [<-|[<-|[]]]; simpl.
  - split; [intuition lia | right; intuition lia].
  - split; [intuition lia | left; reflexivity].
Qed.

(* (6) Weight rules (A1).  Shape: for one weight-rule call, in terms of the atom map m of ANY later state sf (the final one),
   the converter emits  emitA m c ann:  nothing for an empty choice head; the direct smodels rule
   `hd'(H) :- bound <= sum(renamed body)` when H is not a choice, has at most one atom (none = the false atom) and bound >= 0;
   otherwise `aux :- sum`, `hd'(H) :- aux` with ann = Some aux, aux in [next s, next s1), an auxiliary atom of sf; every atom
   of a kept rule is mapped (mappedA). *)
Theorem c02_wrule_shape : forall ext s c s1 out sf,
  is_wrule c = true -> cv_call ext s c = Ok (s1, out) -> Inv s -> good s1 sf -> next sf <= 2 ^ smid_bits ->
  exists ann, out = emitA (img sf) c ann /\ ann_ok c ann /\ mappedA (img sf) c /\
    match ann with Some x => next s <= x < next s1 /\ In x (auxs sf) | None => True end /\
    map sym_na (outs s1) = map sym_na (outs s) ++ symsA (img sf) c ann.
Proof. exact wrule_call_shape. Qed.
Print Assumptions c02_wrule_shape.

(* Equivalence END TO END through the converter model for programs of plain and weight rules (any heads, normal and weight
   bodies with weights >= 0 and literals <> 0 - call_wf -, any bound: a negative bound is converted by the split and only the
   smodels writer rejects it, c02_errors), any reachable start state, extensions on or off:
   there is a list D of definitions `aux :- renamed sum` (the aux atoms of the split rules, all auxiliary atoms of the final
   state) such that  X |-> extD D (push m atoms X)  maps the stable models of the input rules onto the stable models of the
   emitted rules that make the false atom false, agrees with X on every mapped atom, gives every aux atom the value of its
   sum, and has the inverse  X' |-> pull m atoms X'  (both round trips are the identity). *)
Theorem c02_equiv_weight : forall ext ds s s1 out,
  forallb is_rw ds = true -> Forall call_wf ds -> cv_run ext s ds = Ok (s1, out) -> Inv s -> next s1 <= 2 ^ smid_bits ->
  let m := img s1 in let R := rules_of ds in let atoms := flat_map rule_atoms (filter keep R) in
  exists D, defs_ok D /\ (forall x, isdef D x = true -> In x (auxs s1)) /\
    (forall a b, In a atoms -> In b atoms -> m a = m b -> a = b) /\
    (forall X, stable R X ->
       let X' := extD D (push m atoms X) in
       stable (rules_of out) X' /\ X' false_atom = false /\ (forall a, In a atoms -> X' (m a) = X a) /\
       (forall x B, dlook D x = Some B -> X' x = bsat X' X' B)) /\
    (forall X', stable (rules_of out) X' -> X' false_atom = false ->
       stable R (pull m atoms X') /\ forall y, extD D (push m atoms (pull m atoms X')) y = X' y) /\
    (forall X a, stable R X -> pull m atoms (extD D (push m atoms X)) a = X a).
Proof. exact equiv_wrules. Qed.
Print Assumptions c02_equiv_weight.

Example c02_equiv_weight_nonvacuous :
  (* {a;b}.  c :- 1 <= {a=1; not b=2}  (direct).   {c;d} :- 2 <= {a=1; b=1}  (split).   :- 1 <= {d=1}  (false atom, direct) *)
  let ds := [CRule 1 [1; 2] []; CWRule 0 [3] 1 [(1, 1); (-2, 2)]; CWRule 1 [3; 4] 2 [(1, 1); (2, 1)]; CWRule 0 [] 1 [(4, 1)]] in
  forallb is_rw ds = true /\ Forall call_wf ds /\
  exists s1 out, cv_run false cv0 ds = Ok (s1, out) /\ next s1 <= 2 ^ smid_bits /\
    rules_of out = [mkRule true [2; 3] (BNormal []); mkRule false [4] (BSum 1 [(2, 1); (-3, 2)]);
                    mkRule false [6] (BSum 2 [(2, 1); (3, 1)]); mkRule true [4; 5] (BNormal [6]);
                    mkRule false [1] (BSum 1 [(5, 1)])].
Proof.
  cbv zeta. split; [reflexivity|]. split.
  - repeat match goal with
           | |- Forall _ (_ :: _) => apply Forall_cons
           | |- Forall _ [] => apply Forall_nil
           | |- _ /\ _ => split
           | |- _ \/ _ => first [left; reflexivity | right; reflexivity]
           | |- _ => progress simpl
           | |- _ => lia
           end.
  - do 2 eexists. split; [vm_compute; reflexivity|]. split; [vm_compute; discriminate | vm_compute; reflexivity].
Qed.

(* (7) Outputs (A2).  Shape: an output directive either names the image of its single positive condition atom directly
   (ann = None, nothing emitted) or emits `aux :- renamed condition` (ann = Some aux, an auxiliary atom of the final state)
   and names aux; in both cases exactly one symbol (name cut at the first NUL, atom) is appended to output_ (symsA). *)
Theorem c02_output_shape : forall ext s c s1 out sf,
  is_output c = true -> cv_call ext s c = Ok (s1, out) -> Inv s -> good s1 sf -> next sf <= 2 ^ smid_bits ->
  exists ann, out = emitA (img sf) c ann /\ ann_ok c ann /\ mappedA (img sf) c /\
    match ann with Some x => next s <= x < next s1 /\ In x (auxs sf) | None => True end /\
    map sym_na (outs s1) = map sym_na (outs s) ++ symsA (img sf) c ann.
Proof. exact output_call_shape. Qed.
Print Assumptions c02_output_shape.

(* Value: in interpretations X (input) / X' (output) that agree on the mapped condition atoms, and in which the aux atom (if
   one was made) has the value of its defining body, the symbol's atom is true in X' exactly when the condition holds in X,
   and the symbol carries the directive's name.  flushSymbols writes every symbol of output_ as `output(name, [atom])`. *)
Theorem c02_output_value : forall m n cond ann X X',
  call_wf (COutput n cond) -> mappedA m (COutput n cond) -> ann_ok (COutput n cond) ann ->
  (forall a, m a <> 0 -> 0 < m a) ->
  (forall l, In l cond -> X' (m (Z.abs l)) = X (Z.abs l)) ->
  (forall x, ann = Some x -> X' x = bsat X' X' (BNormal (map (rn_lit m) cond))) ->
  forall nm y, In (nm, y) (symsA m (COutput n cond) ann) -> nm = n /\ X' y = forallb (holds X) cond.
Proof. exact output_value. Qed.
Print Assumptions c02_output_value.

Theorem c02_output_symbols : forall s c,
  In c (flushSymbols s) <-> exists nm y, c = COutput nm [y] /\ In (nm, y) (map sym_na (outs s)).
Proof. exact In_flushSymbols. Qed.
Print Assumptions c02_output_symbols.

Example c02_output_nonvacuous :
  (* output a : x1.  output b : x1 (x1 already named -> aux).  output c : x1, not x2 (compound -> aux) *)
  let ds := [COutput [97] [1]; COutput [98] [1]; COutput [99] [1; -2]] in
  exists s1 out, cv_run false cv0 ds = Ok (s1, out) /\
    out = [CRule 0 [3] [2]; CRule 0 [4] [2; -5]] /\ map sym_na (outs s1) = [([97], 2); ([98], 3); ([99], 4)].
Proof. do 2 eexists. split; [vm_compute; reflexivity|]. split; vm_compute; reflexivity. Qed.

(* (8) Externals (A3).  Flags: after any run of rule / weight rule / output / external / minimize calls, an atom's head
   flag is its old flag or "occurs in a head of the run"; for an atom that is no head at the end, the stored value is the
   LAST declared value (mod 4) and the atom is queued iff it was queued before or is declared in the run. *)
Theorem c02_external_flags : forall ext ds s s1 out, forallb okc ds = true -> cv_run ext s ds = Ok (s1, out) ->
  (forall b, ahead1 s1 b = (ahead1 s b || in_head (rules_of ds) b)) /\
  (forall b, ahead1 s1 b = false ->
     aextn1 s1 b = match ext_value b (decls ds) None with Some v => v mod 2 ^ extn_bits | None => aextn1 s b end /\
     (In b (exts s1) <-> In b (exts s) \/ In b (map fst (decls ds)))).
Proof. exact run_fx. Qed.
Print Assumptions c02_external_flags.

(* Without the extensions the flush emits rules whose reduct-level meaning is exactly: for every queued atom a that is no
   head, value Free -> `{m a}` (a choice), value True -> `m a.` (a fact), False / Release -> nothing (ext_sem); all emitted
   bodies are empty and all heads are images of queued non-head atoms.  Sem.ext_rules has the same meaning (second theorem). *)
Theorem c02_external_rules : forall s sf X' Y',
  Inv s -> good (fst (flushExternal false s)) sf -> next sf <= 2 ^ smid_bits ->
  (red_model (rules_of (snd (flushExternal false s))) X' Y' <->
   ext_sem (fun a => In a (exts s)) (ahead1 s) (fun a => Some (aextn1 s a)) (img sf) X' Y') /\
  Forall (fun a => img sf a <> 0) (exts s) /\
  (forall r, In r (rules_of (snd (flushExternal false s))) ->
     r_body r = BNormal [] /\ forall h, In h (r_head r) -> exists a, In a (exts s) /\ ahead1 s a = false /\ h = img sf a).
Proof. exact flushExternal_false_sem. Qed.
Print Assumptions c02_external_rules.

Theorem c02_external_sem : forall m P X' Y',
  red_model (map (rn_rule m) (ext_rules P)) X' Y' <->
  ext_sem (fun a => In a (map fst (p_ext P))) (in_head (p_rules P)) (fun a => ext_value a (p_ext P) None) m X' Y'.
Proof. exact ext_rules_sem. Qed.
Print Assumptions c02_external_sem.

(* With the extensions every queued atom is passed on as `external(m a, stored value)`, in order, and no rule is emitted. *)
Theorem c02_external_pass : forall es s sf hd,
  Inv s -> good (fst (fst (flushExternal_f true s es hd))) sf -> next sf <= 2 ^ smid_bits ->
  snd (fst (flushExternal_f true s es hd)) = map (fun a => CExternal (img sf a) (aextn1 s a)) es /\
  snd (flushExternal_f true s es hd) = hd /\ Forall (fun a => img sf a <> 0) es.
Proof. exact flushExternal_true_shape. Qed.
Print Assumptions c02_external_pass.

Example c02_external_nonvacuous :
  (* external 1 free, 2 true, 3 false, 4 free but later a head, 2 again (now free): choice {1;2}, nothing else *)
  let ds := [CExternal 1 0; CExternal 2 1; CExternal 3 2; CExternal 4 0; CRule 0 [4] []; CExternal 2 0] in
  exists s1 o1 s2 o2, cv_run false cv0 ds = Ok (s1, o1) /\ cv_call false s1 CEnd = Ok (s2, o2) /\
    rules_of (o1 ++ o2) = [mkRule false [5] (BNormal []); mkRule true [2; 3; 3] (BNormal [])] /\
    exists t1 p1 t2 p2, cv_run true cv0 ds = Ok (t1, p1) /\ cv_call true t1 CEnd = Ok (t2, p2) /\
      decls (p1 ++ p2) = [(2, 0); (3, 0); (4, 2); (5, 0); (3, 0)].
Proof.
  do 4 eexists. split; [vm_compute; reflexivity|]. split; [vm_compute; reflexivity|]. split; [vm_compute; reflexivity|].
  do 4 eexists. split; [vm_compute; reflexivity|]. split; vm_compute; reflexivity.
Qed.

(* (9) Composition (C) - c02_equiv_partial2.  ONE WHOLE STEP, extensions on or off: directives ds among
   rule / weight rule / minimize / output / external (okc; well-formed as in the aspif contract: call_wf), then endStep,
   started in any state s0 that satisfies the atom-map invariant and is fresh for the step (no pending minimize / external /
   output / heuristic entries, no head flags: the state after initProgram/beginStep; earlier show flags and atom images are
   arbitrary).  With m the final atom map, Pin = the program the directives denote, Pout = the program the emitted calls
   denote (Sem.of_calls: rules, external declarations, the compute statement `not false_atom`, minimize statements, symbol
   table) and atoms = the mapped atoms of the step, there is a map fw on interpretations such that
     - m is injective on atoms;
     - fw maps the answer sets of Pin to answer sets of Pout, agreeing on every mapped atom (fw X (m a) = X a), with the
       SAME shown names, and with per-priority cost equal up to the constant negs ds prio of c02_cost;
     - pull m atoms maps the answer sets of Pout (which all make the false atom false) to answer sets of Pin, and
       fw (pull X') = X' pointwise, pull (fw X) = X pointwise: a bijection.
   Externals: Sem.answer gives a declared, undefined atom the behaviour of its LAST declaration (free = choice, true = fact,
   false / release = nothing).  Without the extensions Pout has no external declarations - they have become the choice rule /
   facts among its rules; with the extensions Pout declares `external(m a, value)` (c02_external_pass) and Sem.answer reads
   them the same way; in both modes the bijection of answer sets is therefore the statement "same behaviour of externals".
   The two gaps this theorem left are closed below: (b) heuristic / edge directives under ext = true - (10), (11);
   (c) several steps - (12) c02_steps; externals separately - (13); everything together - (14) c02_equiv.  This theorem
   is kept because it holds from ANY fresh start state and is the ext = false half of c02_equiv. *)
Theorem c02_equiv_partial2 : forall ext ds s0 s1 o1 s2 o2,
  forallb okc ds = true -> Forall call_wf ds -> Inv s0 -> fresh_step s0 ->
  cv_run ext s0 ds = Ok (s1, o1) -> cv_call ext s1 CEnd = Ok (s2, o2) -> next s2 <= 2 ^ smid_bits ->
  let m := img s2 in let Pin := of_calls ds in let Pout := of_calls (o1 ++ o2) in let atoms := step_atoms m ds in
  exists fw : interp -> interp,
    (forall a b, In a atoms -> In b atoms -> m a = m b -> a = b) /\
    (forall X, answer Pin X ->
       answer Pout (fw X) /\ (forall a, In a atoms -> fw X (m a) = X a) /\
       (forall n, shown Pin X n <-> shown Pout (fw X) n) /\
       (forall prio, cost (p_min Pout) prio (fw X) = cost (p_min Pin) prio X - negs ds prio)) /\
    (forall X', answer Pout X' -> answer Pin (pull m atoms X') /\ forall y, fw (pull m atoms X') y = X' y) /\
    (forall X a, answer Pin X -> pull m atoms (fw X) a = X a).
Proof. exact equiv_step. Qed.
Print Assumptions c02_equiv_partial2.

Example c02_equiv_partial2_nonvacuous :
  let ds := [CRule 1 [1; 2] []; CWRule 1 [3; 4] 2 [(1, 1); (2, 1)]; CRule 0 [] [3; 4]; COutput [97] [1]; COutput [98] [1; -2];
             CExternal 5 0; CExternal 6 1; CRule 0 [7] [5; 6]; CMin 0 [(1, -3); (7, 1)]; CMin 0 [(2, 2)]] in
  forallb okc ds = true /\ Forall call_wf ds /\ Inv cv0 /\ fresh_step cv0 /\
  (exists s1 o1 s2 o2, cv_run false cv0 ds = Ok (s1, o1) /\ cv_call false s1 CEnd = Ok (s2, o2) /\ next s2 <= 2 ^ smid_bits /\
    rules_of (o1 ++ o2) =
      [mkRule true [2; 3] (BNormal []); mkRule false [6] (BSum 2 [(2, 1); (3, 1)]); mkRule true [4; 5] (BNormal [6]);
       mkRule false [1] (BNormal [4; 5]); mkRule false [7] (BNormal [2; -3]); mkRule false [10] (BNormal [8; 9]);
       mkRule false [9] (BNormal []); mkRule true [8] (BNormal [])] /\
    outs_of (o1 ++ o2) = [([97], [2]); ([98], [7])] /\ mins_of (o1 ++ o2) = [(0, [(-2, 3); (10, 1); (3, 2)])] /\
    asm_of (o1 ++ o2) = [-1]) /\
  (exists s1 o1 s2 o2, cv_run true cv0 ds = Ok (s1, o1) /\ cv_call true s1 CEnd = Ok (s2, o2) /\ next s2 <= 2 ^ smid_bits /\
    decls (o1 ++ o2) = [(8, 0); (9, 1)] /\ outs_of (o1 ++ o2) = [([97], [2]); ([98], [7])]).
Proof.
  cbv zeta. split; [reflexivity|]. split.
  - repeat match goal with
           | |- Forall _ (_ :: _) => apply Forall_cons
           | |- Forall _ [] => apply Forall_nil
           | |- nul_free _ => unfold nul_free
           | |- _ /\ _ => split
           | |- _ \/ _ => first [left; reflexivity | right; reflexivity]
           | |- _ => progress simpl
           | |- _ => lia
           end.
  - split; [exact Inv_cv0|]. split; [repeat split|]. split.
    + do 4 eexists. split; [vm_compute; reflexivity|]. split; [vm_compute; reflexivity|]. split; [vm_compute; discriminate|].
      repeat split; vm_compute; reflexivity.
    + do 4 eexists. split; [vm_compute; reflexivity|]. split; [vm_compute; reflexivity|]. split; [vm_compute; discriminate|].
      split; vm_compute; reflexivity.
Qed.

(* (10) Heuristic and edge directives (extensions on).  HELPER NAMES, defined from the format strings of src/convert.cpp
   (V.Gen.Consts: fmt_atom = "_atom(%u)", fmt_edge = "_edge(%d,%d)", fmt_heuristic = "_heuristic(%s,%s,%d,%u)"):
     helper_name n  :=  n = atom_name k  \/  n = edge_name x y  \/  n = heu_text name type bias prio
   (atom_name / edge_name are the C-string views `cut0` of the formatted text; c02_helper_names: the cut is the identity, and
   every helper name starts with '_').
   Shape (c02_heuristic_edge_shape): a heuristic / edge call behaves like the output call `tr c` (same condition, a helper
   name): in terms of the atom map of any later state it emits nothing when the condition is one positive literal whose atom
   has no name yet (that atom is then the condition atom) or `aux :- renamed condition` with aux = newAtom() in
   [next s, next s1), an auxiliary atom; every condition atom is mapped; an edge appends the symbol (`_edge(s,t)`, condition
   atom) to output_, a heuristic appends nothing to output_ (symsT).  The semantic content of `aux :- cond` is c02_defext.
   Flush (c02_heuristic_flush): flushHeuristic leaves the head / external flags and extern_ alone, emits only calls
   `output(helper name, [y])`, and appends only helper-named symbols (`_atom(k)`) to output_. *)
Theorem c02_heuristic_edge_shape : forall sf s c s1 out,
  is_heu c || is_edge c = true -> cv_call true s c = Ok (s1, out) -> Inv s -> good s1 sf -> next sf <= 2 ^ smid_bits ->
  exists ann, out = emitA (img sf) (tr c) ann /\ ann_ok (tr c) ann /\ mappedA (img sf) (tr c) /\
    match ann with Some x => next s <= x < next s1 /\ In x (auxs sf) | None => True end /\
    map sym_na (outs s1) = map sym_na (outs s) ++ symsT (img sf) c ann.
Proof. exact heu_edge_shape. Qed.
Print Assumptions c02_heuristic_edge_shape.

Theorem c02_heuristic_flush : forall hs s,
  hfx nof s (fst (flushHeuristic_f s hs)) /\
  Forall (fun c => exists n y, c = COutput n [y] /\ helper_name n) (snd (flushHeuristic_f s hs)) /\
  exists L, map sym_na (outs (fst (flushHeuristic_f s hs))) = map sym_na (outs s) ++ L /\
            Forall (fun e => helper_name (fst e)) L.
Proof. exact flushHeuristic_props. Qed.
Print Assumptions c02_heuristic_flush.

(* exact forms.  The entry a heuristic call queues: (atom, type, bias, prio, hp) with hp the image of the single positive,
   not yet named condition atom (nothing emitted) or the head of the emitted `hp :- renamed condition`.  What flushHeuristic
   emits: the atom map is unchanged, and there is exactly one output per queued entry whose atom is mapped, in queue order,
   `_heuristic(<name>,<type>,<bias>,<prio>)` on the queued condition atom, <name> being the atom's name in symTab_ (as it
   is after the flush) or `_atom(<image>)`. *)
Theorem c02_heuristic_queue : forall s a t b p cond s1 out sf,
  cv_call true s (CHeuristic a t b p cond) = Ok (s1, out) -> Inv s -> good s1 sf -> next sf <= 2 ^ smid_bits ->
  exists hp, heus s1 = heus s ++ [mkH a t b p hp] /\
    ((exists c0, cond = [c0] /\ 0 <= c0 /\ out = [] /\ hp = img sf c0) \/
     (out = [CRule Head_t_Disjunctive [hp] (map (rn_lit (img sf)) cond)] /\ next s <= hp < next s1 /\ In hp (auxs sf))).
Proof. exact heu_call_queue. Qed.
Print Assumptions c02_heuristic_queue.

Theorem c02_heuristic_emits : forall hs s,
  (forall b, img (fst (flushHeuristic_f s hs)) b = img s b) /\
  Forall2 (fun h c => exists nm,
             c = COutput (heu_text nm (heu_name (h_type h) heu_names) (h_bias h) (h_prio h)) [h_cond h] /\
             (nm = atom_name (img s (h_atom h)) \/
              sym_find (img s (h_atom h)) (symtab (fst (flushHeuristic_f s hs))) = Some nm))
          (filter (fun h => mapped s (h_atom h)) hs) (snd (flushHeuristic_f s hs)).
Proof. exact flushHeuristic_exact. Qed.
Print Assumptions c02_heuristic_emits.

Theorem c02_helper_names :
  (forall n, helper_name n -> hd 0 n = 95) /\
  (forall x y, edge_name x y = format fmt_edge [FD x; FD y]) /\
  (forall k, 0 <= k -> atom_name k = format fmt_atom [FU k]).
Proof. exact (conj helper_underscore (conj edge_name_plain atom_name_plain)). Qed.
Print Assumptions c02_helper_names.

(* (11) c02_equiv_heu_step: the one-step composition c02_equiv_partial2 extended to steps that contain heuristic / edge
   directives (extensions on; okx = rule / weight rule / minimize / output / external / heuristic / edge; call_wfX = call_wf,
   and literals <> 0 in heuristic / edge conditions), from any state with the map invariant that is fresh for the step.
   Same conclusion, with atoms = the mapped atoms of the step including those of heuristic / edge conditions (xatoms) and
   "same shown names" stated MODULO EXACTLY THE HELPER NAMES: for every name that is not a helper name, it is shown by X in
   the input iff it is shown by fw X in the output (in particular every output name that the input does not show is a helper
   name).  The second part is the external status statement of (13) for the step. *)
Theorem c02_equiv_heu_step : forall ds s0 s1 o1 s2 o2,
  forallb okx ds = true -> Forall call_wfX ds -> Inv s0 -> fresh_step s0 ->
  cv_run true s0 ds = Ok (s1, o1) -> cv_call true s1 CEnd = Ok (s2, o2) -> next s2 <= 2 ^ smid_bits ->
  let m := img s2 in let Pin := of_calls ds in let Pout := of_calls (o1 ++ o2) in let atoms := xatoms m ds in
  (exists fw : interp -> interp,
    (forall a b, In a atoms -> In b atoms -> m a = m b -> a = b) /\
    (forall X, answer Pin X ->
       answer Pout (fw X) /\ (forall a, In a atoms -> fw X (m a) = X a) /\
       (forall n, ~ helper_name n -> (shown Pin X n <-> shown Pout (fw X) n)) /\
       (forall prio, cost (p_min Pout) prio (fw X) = cost (p_min Pin) prio X - negs ds prio)) /\
    (forall X', answer Pout X' -> answer Pin (pull m atoms X') /\ forall y, fw (pull m atoms X') y = X' y) /\
    (forall X a, answer Pin X -> pull m atoms (fw X) a = X a)) /\
  ((forall a, m a <> 0 -> ext_status Pout (m a) = ext_status Pin a) /\
   (forall y w, ext_status Pout y = Some w -> exists a, y = m a /\ In a atoms /\ ext_status Pin a = Some w) /\
   (forall a w, ext_status Pin a = Some w -> In a atoms /\ m a <> 0)).
Proof. exact equiv_heu_step. Qed.
Print Assumptions c02_equiv_heu_step.

Definition heu_demo : list call :=
  [CRule 1 [1; 2; 3] []; COutput [97] [1]; CHeuristic 1 0 1 2 [2]; CHeuristic 2 1 (-1) 0 [1; -3]; CEdge 0 1 [3]; CEdge 1 0 [-1];
   CHeuristic 9 4 1 1 []].
Ltac wf_tac :=
  repeat match goal with
         | |- Forall _ (_ :: _) => apply Forall_cons
         | |- Forall _ [] => apply Forall_nil
         | |- nul_free _ => unfold nul_free
         | |- _ /\ _ => split
         | |- _ \/ _ => first [left; reflexivity | right; reflexivity]
         | |- _ => progress simpl
         | |- _ => lia
         end.
Example c02_equiv_heu_step_nonvacuous :
  (* {a;b;c}. #show a/0 (named "a").  heuristic on a (named: `_heuristic(a,level,1,2)`, condition atom b itself);
     heuristic on b (no name: `_atom(3)` + `_heuristic(_atom(3),sign,-1,0)`, compound condition -> aux 5);
     edge(0,1) : c (atom 4 itself), edge(1,0) : not a (aux 6); heuristic on the unmapped atom 9 (skipped, but its aux 7 stays) *)
  forallb okx heu_demo = true /\ Forall call_wfX heu_demo /\ Inv cv0 /\ fresh_step cv0 /\
  (exists s1 o1 s2 o2, cv_run true cv0 heu_demo = Ok (s1, o1) /\ cv_call true s1 CEnd = Ok (s2, o2) /\ next s2 <= 2 ^ smid_bits /\
     rules_of (o1 ++ o2) = [mkRule true [2; 3; 4] (BNormal []); mkRule false [5] (BNormal [2; -4]);
                            mkRule false [6] (BNormal [-2]); mkRule false [7] (BNormal [])] /\
     outs_of (o1 ++ o2) =
       [(heu_text [97] [108; 101; 118; 101; 108] 1 2, [3]); (heu_text (atom_name 3) [115; 105; 103; 110] (-1) 0, [5]);
        ([97], [2]); (atom_name 3, [3]); (edge_name 0 1, [4]); (edge_name 1 0, [6])]) /\
  ~ helper_name [97] /\ helper_name (edge_name 0 1).
Proof.
  split; [reflexivity|]. split; [unfold heu_demo; wf_tac|]. split; [exact Inv_cv0|]. split; [exact fresh_cv0|]. split.
  - do 4 eexists. split; [vm_compute; reflexivity|]. split; [vm_compute; reflexivity|]. split; [vm_compute; discriminate|].
    split; vm_compute; reflexivity.
  - split; [intros H; apply helper_underscore in H; discriminate | right; left; eexists; eexists; reflexivity].
Qed.

(* (12) c02_steps: SEVERAL STEPS (extensions on), from the converter's initial state.  The program is
     initProgram(inc); (beginStep; directives; endStep) for every list of directives in pre ++ post      (CInit inc :: body ..)
   and pre is any non-empty prefix of its steps: the statement is about the program ACCUMULATED UP TO EVERY STEP k = |pre|.
   Reference semantics of incremental programs: after step k the program is Sem.of_calls (concat pre) - rules, minimize
   statements and outputs of the steps add up; an atom declared external is free / true / false by its last declaration as
   long as NO RULE OF ANY STEP SO FAR has it in its head (Sem.ext_rule), so an external declared in step i and defined in
   step j > i is free at steps i..j-1 and defined from step j on.  (This replaces `fresh_step` of the one-step theorem: the
   proof's invariant is "head flags = heads of the earlier steps", ProofsSteps.steps_facts.)
   Conclusion: the converter's run on the first k steps is a prefix of its run on the whole program (out = outk ++ rest), the
   images of the atoms mapped after step k are the same in the final map m = img s, and between Pin = the accumulated
   input and Pout = Sem.of_calls outk (everything emitted up to step k: rules, external declarations, one compute statement
   `not false_atom` per step, minimize statements, symbol table) there is the same bijection of answer sets as in (9)/(11):
   agreement on the mapped atoms, same shown names modulo the helper names, per-priority cost equal up to negs; and
   the external status of every mapped atom is the same on both sides (13). *)
Theorem c02_steps : forall inc pre post s out,
  pre <> [] -> Forall (fun ds => forallb okx ds = true) (pre ++ post) -> Forall (Forall call_wfX) (pre ++ post) ->
  cv_run true cv0 (CInit inc :: body (pre ++ post)) = Ok (s, out) -> next s <= 2 ^ smid_bits ->
  exists sk outk rest, cv_run true cv0 (CInit inc :: body pre) = Ok (sk, outk) /\ out = outk ++ rest /\
    (forall a, img sk a <> 0 -> img s a = img sk a) /\
    let m := img s in let acc := concat pre in let Pin := of_calls acc in let Pout := of_calls outk in
    let atoms := xatoms m acc in
    (exists fw : interp -> interp,
      (forall a b, In a atoms -> In b atoms -> m a = m b -> a = b) /\
      (forall X, answer Pin X ->
         answer Pout (fw X) /\ (forall a, In a atoms -> fw X (m a) = X a) /\
         (forall n, ~ helper_name n -> (shown Pin X n <-> shown Pout (fw X) n)) /\
         (forall prio, cost (p_min Pout) prio (fw X) = cost (p_min Pin) prio X - negs acc prio)) /\
      (forall X', answer Pout X' -> answer Pin (pull m atoms X') /\ forall y, fw (pull m atoms X') y = X' y) /\
      (forall X a, answer Pin X -> pull m atoms (fw X) a = X a)) /\
    ((forall a, m a <> 0 -> ext_status Pout (m a) = ext_status Pin a) /\
     (forall y w, ext_status Pout y = Some w -> exists a, y = m a /\ In a atoms /\ ext_status Pin a = Some w) /\
     (forall a w, ext_status Pin a = Some w -> In a atoms /\ m a <> 0)).
Proof. exact equiv_steps. Qed.
Print Assumptions c02_steps.

(* the same from ANY start state that satisfies the map invariant and is fresh (no pending entries, no head flags; earlier
   atom images, show flags and symTab_ entries arbitrary), for the steps alone (body steps = the beginStep / directives /
   endStep calls), and relative to the atom map of ANY later state sf.  c02_steps and c02_equiv_heu_step are instances. *)
Theorem c02_steps_general : forall steps s0 s out sf,
  steps <> [] -> Forall (fun ds => forallb okx ds = true) steps -> Forall (Forall call_wfX) steps ->
  Inv s0 -> fresh_step s0 -> cv_run true s0 (body steps) = Ok (s, out) -> good s sf -> next sf <= 2 ^ smid_bits ->
  let m := img sf in let acc := concat steps in let Pin := of_calls acc in let Pout := of_calls out in
  let atoms := xatoms m acc in
  (exists fw : interp -> interp,
    (forall a b, In a atoms -> In b atoms -> m a = m b -> a = b) /\
    (forall X, answer Pin X ->
       answer Pout (fw X) /\ (forall a, In a atoms -> fw X (m a) = X a) /\
       (forall n, ~ helper_name n -> (shown Pin X n <-> shown Pout (fw X) n)) /\
       (forall prio, cost (p_min Pout) prio (fw X) = cost (p_min Pin) prio X - negs acc prio)) /\
    (forall X', answer Pout X' -> answer Pin (pull m atoms X') /\ forall y, fw (pull m atoms X') y = X' y) /\
    (forall X a, answer Pin X -> pull m atoms (fw X) a = X a)) /\
  (forall a, m a <> 0 -> ext_status Pout (m a) = ext_status Pin a) /\
  (forall y w, ext_status Pout y = Some w -> exists a, y = m a /\ In a atoms /\ ext_status Pin a = Some w) /\
  (forall a w, ext_status Pin a = Some w -> In a atoms /\ m a <> 0).
Proof. exact steps_equiv_status. Qed.
Print Assumptions c02_steps_general.

(* (13) c02_external_status: the separate statement about externals (extensions on, any number of steps, every prefix).
   ext_status P a = None when a rule of P has a in its head, otherwise the value of the last external declaration of a
   (Some 0 free, Some 1 true, Some 2 false, Some 3 release) or None when there is none.  After every step k:
   every external atom of the accumulated input is a mapped atom and its image has the SAME status and value in the emitted
   program; every external atom of the emitted program is the image of an input external with that value; a mapped atom
   that is not (or no longer: defined by a later step) external in the input is not external in the output; and in
   corresponding interpretations (X' agrees with X on the mapped atoms - as fw X and pull X' of c02_steps do) an external
   atom has the same truth value on both sides. *)
Theorem c02_external_status : forall inc pre post s out,
  pre <> [] -> Forall (fun ds => forallb okx ds = true) (pre ++ post) -> Forall (Forall call_wfX) (pre ++ post) ->
  cv_run true cv0 (CInit inc :: body (pre ++ post)) = Ok (s, out) -> next s <= 2 ^ smid_bits ->
  exists sk outk rest, cv_run true cv0 (CInit inc :: body pre) = Ok (sk, outk) /\ out = outk ++ rest /\
    let m := img s in let acc := concat pre in let Pin := of_calls acc in let Pout := of_calls outk in
    let atoms := xatoms m acc in
    (forall a w, ext_status Pin a = Some w -> In a atoms /\ m a <> 0 /\ ext_status Pout (m a) = Some w) /\
    (forall y w, ext_status Pout y = Some w -> exists a, y = m a /\ In a atoms /\ ext_status Pin a = Some w) /\
    (forall a, m a <> 0 -> ext_status Pin a = @None Z -> ext_status Pout (m a) = @None Z) /\
    (forall X X' : interp, (forall a, In a atoms -> X' (m a) = X a) ->
       forall a w, ext_status Pin a = Some w -> X' (m a) = X a).
Proof. exact steps_external_status. Qed.
Print Assumptions c02_external_status.

Definition step_a : list call :=
  [CRule 1 [1; 2] []; CExternal 5 0; CExternal 6 1; CRule 0 [3] [5; 6]; COutput [97] [3]; CMin 0 [(3, -2)]; CHeuristic 5 0 1 1 [1]].
Definition step_b : list call :=
  [CRule 0 [5] [1]; CExternal 6 3; CExternal 7 0; COutput [98] [5; -7]; CMin 0 [(5, 1)]; CEdge 0 1 [5]].
Example c02_steps_nonvacuous :
  (* step 1 declares 5 free and 6 true; step 2 DEFINES 5 (5 :- 1), releases 6 and declares 7 free.
     Input status of 5 / 6 / 7: after step 1  free / true / -,  after step 2  - (defined) / release / free;
     the images are 4 / 5 / 7 and the emitted program has exactly these statuses after step 1 and after step 2. *)
  Forall (fun ds => forallb okx ds = true) [step_a; step_b] /\ Forall (Forall call_wfX) [step_a; step_b] /\
  exists s out, cv_run true cv0 (CInit true :: body ([step_a] ++ [step_b])) = Ok (s, out) /\ next s <= 2 ^ smid_bits /\
    map (img s) [5; 6; 7] = [4; 5; 7] /\ decls out = [(4, 0); (5, 1); (5, 3); (7, 0)] /\
    map (ext_status (of_calls (concat [step_a]))) [5; 6; 7] = [Some 0; Some 1; None] /\
    map (ext_status (of_calls (concat [step_a; step_b]))) [5; 6; 7] = [None; Some 3; Some 0] /\
    map (ext_status (of_calls out)) [4; 5; 7] = [None; Some 3; Some 0] /\
    exists s1 out1, cv_run true cv0 (CInit true :: body [step_a]) = Ok (s1, out1) /\
      map (ext_status (of_calls out1)) [4; 5; 7] = [Some 0; Some 1; None] /\
      mins_of out = [(0, [(-6, 2)]); (0, [(4, 1)])] /\
      outs_of out = [(heu_text (atom_name 4) [108; 101; 118; 101; 108] 1 1, [2]); (atom_name 4, [4]); ([97], [6]);
                     ([98], [8]); (edge_name 0 1, [9])].
Proof.
  split; [repeat constructor|]. split; [unfold step_a, step_b; wf_tac|].
  do 2 eexists. split; [vm_compute; reflexivity|]. split; [vm_compute; discriminate|].
  repeat (split; [vm_compute; reflexivity|]).
  do 2 eexists. split; [vm_compute; reflexivity|]. repeat split; vm_compute; reflexivity.
Qed.

(* (14) c02_equiv - the end-to-end statement over whole programs run through the converter from its initial state.
   (A) extensions on: initProgram(any); one or more steps of rule / weight rule / minimize / output / external / heuristic /
       edge directives: after EVERY step the accumulated input and everything emitted so far are equivalent (c02_steps);
   (B) extensions off: initProgram(false); the one step smodels format has, directives rule / weight rule / minimize /
       output / external: input and emitted program are equivalent with ALL shown names equal (c02_equiv_partial2, ext off;
       externals have become one choice rule and facts).
   Equivalent = under the converter's final atom map m, injective on the mapped atoms: fw / pull are mutually inverse
   bijections between the answer sets, agree on every mapped atom, preserve the shown names ((A): modulo the generated
   helper names `_heuristic(..)`, `_edge(..)`, `_atom(..)`; a user name of one of these forms is not compared), and the cost per priority up to
   a constant; (A) same status and value of every external atom (c02_external_status).
   DOMAIN.  Together with c02_errors this covers every program within the AbstractProgram contract that the converter and
   the smodels writer accept: project / assume / theory directives, heuristic / edge / initProgram(true) without the
   extensions, minimize weight -2^31 are rejected (c02_errors); weight rules with a negative bound are covered here although
   the writer rejects them.  Side conditions, all stated as hypotheses: the aspif contract on the input calls (call_wf /
   call_wfX: head type 0/1, head atoms > 0, literals <> 0, body weights >= 0, external value in 0..3, output names without
   NUL) and next_ <= 2^28 (the smId bit-field).
   NOT COVERED, and not true: extensions off with SEVERAL steps after initProgram(false).  Neither the converter nor
   SmodelsOutput rejects that call sequence (c02_errors: no unsupported call), but it violates the AbstractProgram contract
   (a non-incremental program has exactly one step; smodels format without the extensions has no steps), and there the
   emitted program has an answer set the input lacks: c02_noext_steps_refuted. *)
Theorem c02_equiv :
  (forall inc pre post s out,
     pre <> [] -> Forall (fun ds => forallb okx ds = true) (pre ++ post) -> Forall (Forall call_wfX) (pre ++ post) ->
     cv_run true cv0 (CInit inc :: body (pre ++ post)) = Ok (s, out) -> next s <= 2 ^ smid_bits ->
     exists sk outk rest, cv_run true cv0 (CInit inc :: body pre) = Ok (sk, outk) /\ out = outk ++ rest /\
       (forall a, img sk a <> 0 -> img s a = img sk a) /\
       let m := img s in let acc := concat pre in let Pin := of_calls acc in let Pout := of_calls outk in
       let atoms := xatoms m acc in
       (exists fw : interp -> interp,
         (forall a b, In a atoms -> In b atoms -> m a = m b -> a = b) /\
         (forall X, answer Pin X ->
            answer Pout (fw X) /\ (forall a, In a atoms -> fw X (m a) = X a) /\
            (forall n, ~ helper_name n -> (shown Pin X n <-> shown Pout (fw X) n)) /\
            (forall prio, cost (p_min Pout) prio (fw X) = cost (p_min Pin) prio X - negs acc prio)) /\
         (forall X', answer Pout X' -> answer Pin (pull m atoms X') /\ forall y, fw (pull m atoms X') y = X' y) /\
         (forall X a, answer Pin X -> pull m atoms (fw X) a = X a)) /\
       ((forall a, m a <> 0 -> ext_status Pout (m a) = ext_status Pin a) /\
        (forall y w, ext_status Pout y = Some w -> exists a, y = m a /\ In a atoms /\ ext_status Pin a = Some w) /\
        (forall a w, ext_status Pin a = Some w -> In a atoms /\ m a <> 0))) /\
  (forall ds s out,
     forallb okc ds = true -> Forall call_wf ds ->
     cv_run false cv0 (CInit false :: body [ds]) = Ok (s, out) -> next s <= 2 ^ smid_bits ->
     let m := img s in let Pin := of_calls ds in let Pout := of_calls out in let atoms := step_atoms m ds in
     exists fw : interp -> interp,
       (forall a b, In a atoms -> In b atoms -> m a = m b -> a = b) /\
       (forall X, answer Pin X ->
          answer Pout (fw X) /\ (forall a, In a atoms -> fw X (m a) = X a) /\
          (forall n, shown Pin X n <-> shown Pout (fw X) n) /\
          (forall prio, cost (p_min Pout) prio (fw X) = cost (p_min Pin) prio X - negs ds prio)) /\
       (forall X', answer Pout X' -> answer Pin (pull m atoms X') /\ forall y, fw (pull m atoms X') y = X' y) /\
       (forall X a, answer Pin X -> pull m atoms (fw X) a = X a)).
Proof. exact (conj equiv_steps equiv_noext_clean). Qed.
Print Assumptions c02_equiv.

(* the accepted call sequence outside the contract: extensions off, initProgram(false), step 1 `#external 1.`, step 2
   `1 :- 2.`: converter and writer accept it, 1 is mapped to 2, the emitted program (choice rule {2} of step 1, rule
   2 :- 3 of step 2) has an answer set containing the image of atom 1, and no answer set of the accumulated input contains 1 *)
Theorem c02_noext_steps_refuted :
  wf_from 0 refute_prog = true /\ existsb (unsupported false) refute_prog = false /\
  exists s w out, conv_write false cv0 sw0 refute_prog = Ok (s, w, out) /\ next s <= 2 ^ smid_bits /\ img s 1 = 2 /\
    (exists X', answer (of_calls out) X' /\ X' (img s 1) = true) /\
    (forall X, answer (of_calls refute_in) X -> X 1 = false).
Proof. exact noext_steps_refuted. Qed.
Print Assumptions c02_noext_steps_refuted.

Example c02_equiv_nonvacuous :
  (* (A) is instantiated by c02_steps_nonvacuous (two steps, k = 1 and k = 2) and c02_equiv_heu_step_nonvacuous;
     (B) by the program of c02_equiv_partial2_nonvacuous run from initProgram(false) *)
  let ds := [CRule 1 [1; 2] []; CWRule 1 [3; 4] 2 [(1, 1); (2, 1)]; CRule 0 [] [3; 4]; COutput [97] [1]; COutput [98] [1; -2];
             CExternal 5 0; CExternal 6 1; CRule 0 [7] [5; 6]; CMin 0 [(1, -3); (7, 1)]; CMin 0 [(2, 2)]] in
  forallb okc ds = true /\ Forall call_wf ds /\
  (exists s out, cv_run false cv0 (CInit false :: body [ds]) = Ok (s, out) /\ next s <= 2 ^ smid_bits /\
     outs_of out = [([97], [2]); ([98], [7])] /\ asm_of out = [-1]) /\
  (exists sk outk, cv_run true cv0 (CInit true :: body [step_a]) = Ok (sk, outk) /\ sk <> cv0) /\
  [step_a] <> [] /\ [step_a; step_b] = [step_a] ++ [step_b].
Proof.
  cbv zeta. split; [reflexivity|]. split; [wf_tac|]. split.
  - do 2 eexists. split; [vm_compute; reflexivity|]. split; [vm_compute; discriminate|]. split; vm_compute; reflexivity.
  - split; [do 2 eexists; split; [vm_compute; reflexivity | vm_compute; discriminate]|]. split; [discriminate | reflexivity].
Qed.
