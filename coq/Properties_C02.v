Require Import V.Lib.Base V.Lib.Calls V.C02.Model.
Local Open Scope Z_scope.
Example c02_smoke : run_case [0; 0; 1; 0; 2; 4; 0; 1; 1; 0; 3] = [1; 0; 20; 1; 2; 20; 1; 4; 0; 1; 2; 0; 20; 2; 10; 1; -1; 3; 20; 2].
Proof. vm_compute. reflexivity. Qed.
Print Assumptions c02_smoke.
