(* C02 - property theorems.  Model: V.C02.Model (SmodelsConvert/SmData call-for-call, SmodelsOutput's acceptance
   conditions); specification-side definitions: V.C02.Spec; reference semantics: V.C02.Sem. *)
Require Import V.Lib.Base V.Lib.Calls V.Gen.Consts V.Gen.Consts_C02 V.C02.Model V.C02.Spec V.C02.ProofsMap V.C02.ProofsErr.
Local Open Scope Z_scope.

(* (1) The atom map.  For EVERY call sequence p (any mix of directives, any number of steps, extensions on or off) that the
   converter processes, provided fewer than 2^28 smodels atoms were handed out (next_ <= 2^smid_bits: the 28-bit smId field
   has not wrapped):  every image lies in [2, next) and is not the false atom; the map is injective; the auxiliary atoms
   (results of newAtom(): heads of `aux :- condition` and of split weight rules) lie in [2, next), are pairwise distinct and
   are no atom's image; and the image of an atom, once defined after any prefix p1 of p (i.e. also in an earlier step),
   is the same at the end, and auxiliary atoms stay auxiliary. *)
Theorem c02_map : forall ext p s out,
  cv_run ext cv0 p = Ok (s, out) -> next s <= 2 ^ smid_bits ->
  (forall a, img s a <> 0 -> next_start <= img s a < next s /\ img s a <> false_atom) /\
  (forall a b, img s a <> 0 -> img s a = img s b -> a = b) /\
  (forall x, In x (auxs s) -> next_start <= x < next s /\ forall a, img s a <> x) /\
  NoDup (auxs s) /\
  (forall p1 p2 s1 o1, p = p1 ++ p2 -> cv_run ext cv0 p1 = Ok (s1, o1) ->
     (forall a, img s1 a <> 0 -> img s a = img s1 a) /\ (forall x, In x (auxs s1) -> In x (auxs s))).
Proof. exact map_invariant. Qed.
Print Assumptions c02_map.

Definition demo : list call :=
  [CInit true; CBegin; CRule 1 [1; 2] []; CWRule 0 [3; 4] 2 [(1, 1); (-2, 2)]; COutput [97] [1]; COutput [98] [1];
   COutput [99] [1; -2]; CExternal 5 0; CMin 0 [(1, -3); (2, 1)]; CMin 0 [(3, 1)]; CEnd;
   CBegin; CRule 0 [5] [1]; COutput [100] [5]; CExternal 6 3; CEnd].
Example c02_map_nonvacuous :
  exists s out, cv_run true cv0 demo = Ok (s, out) /\ next s <= 2 ^ smid_bits /\ img s 5 <> 0 /\ auxs s <> [].
Proof. eexists; eexists. split; [vm_compute; reflexivity|]. vm_compute. repeat split; discriminate. Qed.

(* (2) Errors.  For every sequence that follows the AbstractProgram protocol, the conversion to smodels format
   (converter in front of SmodelsOutput(os, ext, 0)) fails if and only if the program contains a directive smodels cannot
   carry in that mode: project / assume / theory always; heuristic / edge / an incremental program without the extensions;
   a weight rule with a negative bound (whose head is not an empty choice); a minimize weight of -2^31.  Otherwise the
   converter alone never fails and, below the 2^28 bound, the writer accepts every call the converter makes. *)
Theorem c02_errors : forall ext p, wf_from 0 p = true ->
  (existsb (unsupported ext) p = true -> exists e, conv_write ext cv0 sw0 p = Err e) /\
  (existsb (unsupported ext) p = false ->
     exists s out, cv_run ext cv0 p = Ok (s, out) /\
       (next s <= 2 ^ smid_bits -> exists w, conv_write ext cv0 sw0 p = Ok (s, w, out))).
Proof. exact errors_characterised. Qed.
Print Assumptions c02_errors.

Example c02_errors_nonvacuous :
  wf_from 0 demo = true /\ existsb (unsupported true) demo = false /\ existsb (unsupported false) demo = true /\
  (exists s w out, conv_write true cv0 sw0 demo = Ok (s, w, out)) /\ conv_write false cv0 sw0 demo = Err 1.
Proof. repeat split; try (vm_compute; reflexivity). eexists; eexists; eexists. vm_compute. reflexivity. Qed.
