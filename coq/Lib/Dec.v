(* Decimal printing and digit accumulation (shared by every reader/writer model).
     print_nat n  : what operator<< / %u emit for n >= 0 (no leading zeros)
     print_Z z    : with a leading '-' for negatives
     value_acc    : the readers' accumulation loop  res = res*10 + (c - '0')              *)
Require Import V.Lib.Base.
Require Import ZifyBool.
Local Open Scope Z_scope.
Ltac Zify.zify_post_hook ::= Z.div_mod_to_equations.

Fixpoint digits_f (fuel : nat) (n : Z) (acc : list Z) : list Z :=
  match fuel with
  | O => acc
  | S f => if n <? 10 then (48 + n) :: acc else digits_f f (n / 10) ((48 + n mod 10) :: acc)
  end.

Definition print_nat (n : Z) : list Z := digits_f (S (Z.to_nat (Z.log2 n))) n [].
Definition print_Z (z : Z) : list Z := if z <? 0 then 45 :: print_nat (- z) else print_nat z.

Fixpoint value_acc (acc : Z) (ds : list Z) : Z :=
  match ds with
  | [] => acc
  | d :: r => value_acc (acc * 10 + to_digit d) r
  end.
Definition value (ds : list Z) : Z := value_acc 0 ds.

Definition all_digits (l : list Z) : Prop := Forall (fun c => is_digit c = true) l.

Lemma value_acc_app a l1 l2 : value_acc a (l1 ++ l2) = value_acc (value_acc a l1) l2.
Proof. revert a; induction l1 as [|d l1 IH]; intros a; simpl; [reflexivity | apply IH]. Qed.

Lemma value_acc_shift a l : all_digits l -> value_acc a l = a * 10 ^ Z.of_nat (length l) + value_acc 0 l.
Proof.
  revert a. induction l as [|d l IH]; intros a H.
  - simpl. lia.
  - inversion H as [|? ? Hd Hl]; subst.
    cbn [value_acc length]. rewrite (IH (a * 10 + to_digit d) Hl), (IH (0 * 10 + to_digit d) Hl).
    rewrite Nat2Z.inj_succ, Z.pow_succ_r by lia. ring.
Qed.

Lemma value_acc_nonneg a l : 0 <= a -> all_digits l -> 0 <= value_acc a l.
Proof.
  revert a. induction l as [|d l IH]; intros a Ha H; simpl; [assumption|].
  inversion H as [|? ? Hd Hl]; subst. apply IH; [|assumption].
  unfold is_digit, to_digit in *. lia.
Qed.

Lemma value_acc_mono a l : 0 <= a -> all_digits l -> a <= value_acc a l.
Proof.
  revert a. induction l as [|d l IH]; intros a Ha H; simpl; [lia|].
  inversion H as [|? ? Hd Hl]; subst.
  assert (0 <= to_digit d <= 9) by (unfold is_digit, to_digit in *; lia).
  specialize (IH (a * 10 + to_digit d) ltac:(lia) Hl). lia.
Qed.

(* generic fuel lemma *)
Lemma digits_f_spec fuel : forall n acc, 0 <= n < 2 ^ Z.of_nat fuel -> (fuel > 0)%nat ->
  exists ds, digits_f fuel n acc = ds ++ acc /\ all_digits ds /\ ds <> [] /\
             (forall a, value_acc a ds = a * 10 ^ Z.of_nat (length ds) + n) /\
             (hd 0 ds = 48 -> n = 0).
Proof.
  induction fuel as [|f IH]; intros n acc Hn Hf; [lia|].
  cbn [digits_f]. destruct (Z.ltb_spec n 10) as [Hlt|Hge].
  - exists [48 + n]. repeat split.
    + constructor; [unfold is_digit; lia | constructor].
    + discriminate.
    + intros a. cbn [value_acc length]. unfold to_digit. change (Z.of_nat 1) with 1. lia.
    + cbn [hd]. lia.
  - assert (Hf' : (f > 0)%nat).
    { destruct f; [|lia]. cbn in Hn. lia. }
    assert (Hn' : 0 <= n / 10 < 2 ^ Z.of_nat f).
    { rewrite Nat2Z.inj_succ, Z.pow_succ_r in Hn by lia. split; [lia|].
      assert (n / 10 <= n / 2) by (apply Z.div_le_compat_l; lia). 
      assert (n / 2 < 2 ^ Z.of_nat f) by (apply Z.div_lt_upper_bound; lia). lia. }
    destruct (IH (n / 10) ((48 + n mod 10) :: acc) Hn' Hf') as (ds & E & Hd & Hne & Hv & Hz).
    exists (ds ++ [48 + n mod 10]). repeat split.
    + rewrite E, <- app_assoc. reflexivity.
    + apply Forall_app. split; [assumption|]. constructor; [unfold is_digit; lia | constructor].
    + intro C. apply app_eq_nil in C. destruct C; discriminate.
    + intros a. rewrite value_acc_app, Hv. cbn [value_acc]. unfold to_digit.
      rewrite app_length. cbn [length]. rewrite Nat2Z.inj_add, Z.pow_add_r by lia. 
      change (Z.of_nat 1) with 1. rewrite Z.pow_1_r.
      replace (48 + n mod 10 - 48) with (n mod 10) by lia.
      assert (n = 10 * (n / 10) + n mod 10) by (apply Z.div_mod; lia). nia.
    + intros H0. destruct ds as [|d ds']; [congruence|]. cbn [app hd] in H0. 
      assert (n / 10 = 0) by (apply Hz; exact H0). lia.
Qed.

Lemma print_nat_spec n : 0 <= n ->
  all_digits (print_nat n) /\ print_nat n <> [] /\
  (forall a, value_acc a (print_nat n) = a * 10 ^ Z.of_nat (length (print_nat n)) + n) /\
  (hd 0 (print_nat n) = 48 -> n = 0).
Proof.
  intros Hn. unfold print_nat.
  assert (Hb : 0 <= n < 2 ^ Z.of_nat (S (Z.to_nat (Z.log2 n)))).
  { split; [assumption|]. rewrite Nat2Z.inj_succ, Z2Nat.id by apply Z.log2_nonneg.
    destruct (Z.eq_dec n 0) as [->|Hnz]; [cbn; lia|].
    apply Z.log2_spec. lia. }
  destruct (digits_f_spec _ n [] Hb ltac:(lia)) as (ds & E & Hd & Hne & Hv & Hz).
  rewrite app_nil_r in E. rewrite E. auto.
Qed.

Lemma print_nat_digits n : 0 <= n -> all_digits (print_nat n).
Proof. intros; now apply print_nat_spec. Qed.
Lemma print_nat_nonempty n : 0 <= n -> print_nat n <> [].
Proof. intros; now apply print_nat_spec. Qed.
Lemma value_print_nat n : 0 <= n -> value (print_nat n) = n.
Proof. intros H. unfold value. destruct (print_nat_spec n H) as (_ & _ & Hv & _). rewrite Hv. lia. Qed.
Lemma print_nat_no_leading_zero n : 0 <= n -> hd 0 (print_nat n) = 48 -> n = 0.
Proof. intros; now apply print_nat_spec. Qed.
Lemma print_nat_inj a b : 0 <= a -> 0 <= b -> print_nat a = print_nat b -> a = b.
Proof. intros Ha Hb E. rewrite <- (value_print_nat a Ha), <- (value_print_nat b Hb), E. reflexivity. Qed.

Lemma print_nat_hd_digit n : 0 <= n -> is_digit (hd 0 (print_nat n)) = true.
Proof.
  intros H. destruct (print_nat_spec n H) as (Hd & Hne & _ & _).
  destruct (print_nat n) as [|d r]; [congruence|]. inversion Hd; assumption.
Qed.

(* the sign byte is not a digit, so a printed number is self-delimiting against non-digits *)
Lemma print_Z_neg z : z < 0 -> print_Z z = 45 :: print_nat (- z).
Proof. intros H. unfold print_Z. destruct (Z.ltb_spec z 0); [reflexivity | lia]. Qed.
Lemma print_Z_nonneg z : 0 <= z -> print_Z z = print_nat z.
Proof. intros H. unfold print_Z. destruct (Z.ltb_spec z 0); [lia | reflexivity]. Qed.

Lemma print_Z_inj a b : print_Z a = print_Z b -> a = b.
Proof.
  unfold print_Z. destruct (Z.ltb_spec a 0) as [Ha|Ha], (Z.ltb_spec b 0) as [Hb|Hb]; intros E.
  - injection E as E. apply print_nat_inj in E; lia.
  - pose proof (print_nat_hd_digit b Hb) as H. rewrite <- E in H. cbn in H. discriminate.
  - pose proof (print_nat_hd_digit a Ha) as H. rewrite E in H. cbn in H. discriminate.
  - apply print_nat_inj; assumption.
Qed.

Lemma all_digits_no_ws l : all_digits l -> Forall (fun c => is_ws c = false) l.
Proof. intros H. eapply Forall_impl; [|exact H]. intros c Hc. unfold is_digit, is_ws in *. lia. Qed.

Lemma all_digits_nul_free l : all_digits l -> nul_free l.
Proof. intros H. eapply Forall_impl; [|exact H]. intros c Hc. unfold is_digit in *. lia. Qed.
