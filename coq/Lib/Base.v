(* Shared basics: imports, bytes as Z, small list helpers. *)
Require Export ZArith List Bool Lia Arith.
Export ListNotations.

Definition byte := Z.

(* the code's own whitespace test: c >= 9 && c < 33 *)
Definition is_ws (c : Z) : bool := ((9 <=? c) && (c <? 33))%Z.
Definition is_digit (c : Z) : bool := ((48 <=? c) && (c <=? 57))%Z.
Definition to_digit (c : Z) : Z := (c - 48)%Z.

(* prefix of l before the first 0 byte (what a NUL-terminated view of a buffer sees) *)
Fixpoint cut0 (l : list Z) : list Z :=
  match l with
  | [] => []
  | c :: r => if (c =? 0)%Z then [] else c :: cut0 r
  end.

Definition nul_free (l : list Z) : Prop := Forall (fun c => c <> 0%Z) l.

Fixpoint count_eq (x : Z) (l : list Z) : Z :=
  match l with
  | [] => 0%Z
  | c :: r => ((if (c =? x)%Z then 1 else 0) + count_eq x r)%Z
  end.

Definition b2z (b : bool) : Z := if b then 1%Z else 0%Z.

Fixpoint list_eqb (a b : list Z) : bool :=
  match a, b with
  | [], [] => true
  | x :: a', y :: b' => (x =? y)%Z && list_eqb a' b'
  | _, _ => false
  end.

Lemma list_eqb_eq a b : list_eqb a b = true <-> a = b.
Proof.
  revert b; induction a as [|x a IH]; intros [|y b]; simpl; split; intro H; try congruence; try discriminate.
  - apply andb_true_iff in H. destruct H as [H1 H2]. apply Z.eqb_eq in H1. apply IH in H2. congruence.
  - inversion H; subst. apply andb_true_iff. split; [apply Z.eqb_refl | apply IH; reflexivity].
Qed.

Lemma cut0_nul_free l : nul_free l -> cut0 l = l.
Proof.
  induction 1 as [|c r Hc Hr IH]; simpl; [reflexivity|].
  destruct (Z.eqb_spec c 0); [contradiction|]. now rewrite IH.
Qed.
