(* The alphabet of AbstractProgram invocations (potassco/basic_types.h), shared by every reader /
   writer / converter model, with its integer encoding (the same one harness/rec.h prints and
   props/calls.py generates).  Lists are length-prefixed; weight literals are (lit, weight) pairs. *)
Require Import V.Lib.Base.
Local Open Scope Z_scope.

Inductive call :=
| CInit (inc : bool) | CBegin | CEnd
| CRule (ht : Z) (head : list Z) (body : list Z)
| CWRule (ht : Z) (head : list Z) (bound : Z) (body : list (Z * Z))
| CMin (prio : Z) (lits : list (Z * Z))
| CProject (atoms : list Z)
| COutput (name : list Z) (cond : list Z)
| CExternal (a v : Z)
| CAssume (lits : list Z)
| CHeuristic (a t bias prio : Z) (cond : list Z)
| CEdge (s t : Z) (cond : list Z)
| CTNum (id n : Z)
| CTSym (id : Z) (s : list Z)
| CTComp (id c : Z) (args : list Z)
| CTElem (id : Z) (terms : list Z) (cond : list Z)
| CTAtom (a t : Z) (elems : list Z)
| CTAtomG (a t : Z) (elems : list Z) (op rhs : Z).

Definition enc_list (l : list Z) : list Z := Z.of_nat (length l) :: l.
Fixpoint flat_w (l : list (Z * Z)) : list Z :=
  match l with [] => [] | (a, b) :: r => a :: b :: flat_w r end.
Definition enc_wlist (l : list (Z * Z)) : list Z := Z.of_nat (length l) :: flat_w l.

Definition enc_call (c : call) : list Z :=
  match c with
  | CInit inc => [1; b2z inc]
  | CBegin => [2]
  | CEnd => [3]
  | CRule ht h b => 4 :: ht :: enc_list h ++ enc_list b
  | CWRule ht h bd b => 5 :: ht :: enc_list h ++ bd :: enc_wlist b
  | CMin p l => 6 :: p :: enc_wlist l
  | CProject a => 7 :: enc_list a
  | COutput n c => 8 :: enc_list n ++ enc_list c
  | CExternal a v => [9; a; v]
  | CAssume l => 10 :: enc_list l
  | CHeuristic a t b p c => 11 :: a :: t :: b :: p :: enc_list c
  | CEdge s t c => 12 :: s :: t :: enc_list c
  | CTNum i n => [13; i; n]
  | CTSym i s => 14 :: i :: enc_list s
  | CTComp i c a => 15 :: i :: c :: enc_list a
  | CTElem i t c => 16 :: i :: enc_list t ++ enc_list c
  | CTAtom a t e => 17 :: a :: t :: enc_list e
  | CTAtomG a t e o r => 18 :: a :: t :: enc_list e ++ [o; r]
  end.

Definition enc_calls (cs : list call) : list Z := flat_map enc_call cs.

(* decoding (for cases that carry a call sequence) *)
Definition take_list (l : list Z) : list Z * list Z :=
  match l with
  | n :: r => (firstn (Z.to_nat n) r, skipn (Z.to_nat n) r)
  | [] => ([], [])
  end.
Fixpoint pairs (l : list Z) : list (Z * Z) :=
  match l with a :: b :: r => (a, b) :: pairs r | _ => [] end.
Definition take_wlist (l : list Z) : list (Z * Z) * list Z :=
  match l with
  | n :: r => (pairs (firstn (2 * Z.to_nat n) r), skipn (2 * Z.to_nat n) r)
  | [] => ([], [])
  end.

Definition dec_call (l : list Z) : option (call * list Z) :=
  match l with
  | 1 :: i :: r => Some (CInit (negb (i =? 0)), r)
  | 2 :: r => Some (CBegin, r)
  | 3 :: r => Some (CEnd, r)
  | 4 :: ht :: r => let '(h, r1) := take_list r in let '(b, r2) := take_list r1 in Some (CRule ht h b, r2)
  | 5 :: ht :: r => let '(h, r1) := take_list r in
                    match r1 with bd :: r2 => let '(b, r3) := take_wlist r2 in Some (CWRule ht h bd b, r3) | [] => None end
  | 6 :: p :: r => let '(b, r1) := take_wlist r in Some (CMin p b, r1)
  | 7 :: r => let '(a, r1) := take_list r in Some (CProject a, r1)
  | 8 :: r => let '(n, r1) := take_list r in let '(c, r2) := take_list r1 in Some (COutput n c, r2)
  | 9 :: a :: v :: r => Some (CExternal a v, r)
  | 10 :: r => let '(a, r1) := take_list r in Some (CAssume a, r1)
  | 11 :: a :: t :: b :: p :: r => let '(c, r1) := take_list r in Some (CHeuristic a t b p c, r1)
  | 12 :: s :: t :: r => let '(c, r1) := take_list r in Some (CEdge s t c, r1)
  | 13 :: i :: n :: r => Some (CTNum i n, r)
  | 14 :: i :: r => let '(s, r1) := take_list r in Some (CTSym i s, r1)
  | 15 :: i :: c :: r => let '(a, r1) := take_list r in Some (CTComp i c a, r1)
  | 16 :: i :: r => let '(t, r1) := take_list r in let '(c, r2) := take_list r1 in Some (CTElem i t c, r2)
  | 17 :: a :: t :: r => let '(e, r1) := take_list r in Some (CTAtom a t e, r1)
  | 18 :: a :: t :: r => let '(e, r1) := take_list r in
                         match r1 with o :: rh :: r2 => Some (CTAtomG a t e o rh, r2) | _ => None end
  | _ => None
  end.

Fixpoint dec_calls (fuel : nat) (l : list Z) : list call :=
  match fuel with
  | O => []
  | S f => match dec_call l with
           | Some (c, r) => c :: dec_calls f r
           | None => []
           end
  end.
