(* The consumer contract of property C04, as an executable predicate on a delivered call sequence:
   initProgram first and only once, every directive inside a beginStep/endStep pair, atoms within
   1..2^31-1, literals non-zero with an atom in that range, rule-body weights non-negative,
   enumeration values valid.  (The same judgement as props/C04.py `contract`.)                  *)
Require Import V.Lib.Base V.Lib.Calls.
Local Open Scope Z_scope.

Definition ATOM_MAX : Z := 2147483647.
Definition atom_ok (a : Z) : bool := (1 <=? a) && (a <=? ATOM_MAX).
Definition lit_ok (l : Z) : bool := negb (l =? 0) && atom_ok (Z.abs l).
Definition int_ok (x : Z) : bool := (- 2147483648 <=? x) && (x <=? 2147483647).
Definition wlit_ok (nonneg : bool) (p : Z * Z) : bool :=
  lit_ok (fst p) && int_ok (snd p) && (if nonneg then 0 <=? snd p else true).

Definition call_ok (c : call) : bool :=
  match c with
  | CInit _ | CBegin | CEnd => true
  | CRule ht h b => ((ht =? 0) || (ht =? 1)) && forallb atom_ok h && forallb lit_ok b
  | CWRule ht h bd b => ((ht =? 0) || (ht =? 1)) && forallb atom_ok h && int_ok bd && forallb (wlit_ok true) b
  | CMin p l => int_ok p && forallb (wlit_ok false) l
  | CProject a => forallb atom_ok a
  | COutput _ c => forallb lit_ok c
  | CExternal a v => atom_ok a && (0 <=? v) && (v <=? 3)
  | CAssume l => forallb lit_ok l
  | CHeuristic a t b p c => atom_ok a && (0 <=? t) && (t <=? 5) && int_ok b && (0 <=? p) && (p <=? ATOM_MAX) && forallb lit_ok c
  | CEdge s t c => int_ok s && int_ok t && forallb lit_ok c
  | CTNum _ n => int_ok n
  | CTSym _ _ => true
  | CTComp _ _ _ => true
  | CTElem _ _ c => forallb lit_ok c
  | CTAtom _ _ _ => true
  | CTAtomG _ _ _ _ _ => true
  end.

(* protocol state: 0 = nothing yet, 1 = between steps (after init / endStep), 2 = inside a step *)
Fixpoint protocol_ok (st : Z) (cs : list call) : bool :=
  match cs with
  | [] => true
  | CInit _ :: r => (st =? 0) && protocol_ok 1 r
  | CBegin :: r => (st =? 1) && protocol_ok 2 r
  | CEnd :: r => (st =? 2) && protocol_ok 1 r
  | _ :: r => (st =? 2) && protocol_ok 2 r
  end.

Definition contract_ok (cs : list call) : bool := protocol_ok 0 cs && forallb call_ok cs.

(* an accepted input ends between steps: every begun step was ended *)
Fixpoint final_state (st : Z) (cs : list call) : Z :=
  match cs with
  | [] => st
  | CInit _ :: r => final_state 1 r
  | CBegin :: r => final_state 2 r
  | CEnd :: r => final_state 1 r
  | _ :: r => final_state st r
  end.
Definition steps_closed (cs : list call) : bool := negb (final_state 0 cs =? 2).
