(* C11 - part 5: histories (three builders, copy/assign/swap), detected protocol violations, order independence. *)
Require Import V.Lib.Base V.Lib.Calls V.Gen.Consts_C11 V.C11.Model V.C11.Spec
        V.C11.Proofs V.C11.Proofs2 V.C11.Proofs3 V.C11.Proofs4.
Local Open Scope Z_scope.

Lemma MIN_val : MIN = 2.
Proof. vm_compute. reflexivity. Qed.

(* ---------- new, copy ---------- *)
Lemma R_new cap : HDR <= cap -> R (cnew cap) anew.
Proof.
  intro H. unfold cnew, anew. unfold R; cbn.
  destruct (Z.leb_spec HDR cap); [|lia]. cbn. repeat split; lia.
Qed.

Lemma R_copy c a : R c a -> R (ccopy c) a.
Proof.
  intro HR. pose proof (R_ends _ _ HR) as [He1 He2]. dR HR. unfold ccopy.
  assert (Hfr : forall o, o < top c -> blockcopy (mem c) (top c) o = mem c o).
  { intros o Ho. unfold blockcopy. destruct (Z.ltb_spec o (top c)); [reflexivity | lia]. }
  splitR.
  - eapply head_ok_frame; eauto.
  - eapply body_ok_frame; eauto.
  - unfold layout_ok in *; cbn. exact Hl.
Qed.

(* ---------- three builders ---------- *)
Definition R3 (t : tri cst) (ta : tri ast) : Prop := R (t0 t) (t0 ta) /\ R (t1 t) (t1 ta) /\ R (t2 t) (t2 ta).

Lemma R3_get t ta i : R3 t ta -> R (getb t i) (getb ta i).
Proof. intros (H0 & H1 & H2). unfold getb. destruct (i =? 0); [|destruct (i =? 1)]; assumption. Qed.
Lemma R3_set t ta i c a : R3 t ta -> R c a -> R3 (setb t i c) (setb ta i a).
Proof.
  intros (H0 & H1 & H2) H. unfold setb. destruct (i =? 0); [|destruct (i =? 1)]; unfold R3; cbn; auto.
Qed.

Theorem run_sim ops : forall t ta obs ta',
  R3 t ta -> arun_st ta ops = Some (obs, ta') ->
  exists t', R3 t' ta' /\ forall rest, run_mops t (ops ++ rest) = obs ++ run_mops t' rest.
Proof.
  induction ops as [|o ops IH]; intros t ta obs ta' HR Hs; cbn [arun_st] in Hs.
  - inversion Hs; subst. exists t. split; [assumption | reflexivity].
  - destruct o as [i o | i full | i j | i j | i j]; cbn [app run_mops].
    + destruct (astep (getb ta i) o) as [[a' calls]|] eqn:Ea; [|discriminate].
      destruct (arun_st (setb ta i a') ops) as [[x tb]|] eqn:Er; [|discriminate].
      inversion Hs; subst obs ta'; clear Hs.
      destruct (sim_step _ _ _ _ _ (R3_get _ _ i HR) Ea) as (c' & Ec & HR').
      rewrite Ec. assert (Hfl : fault c' = false) by (destruct HR' as (_ & Hf & _); exact Hf). rewrite Hfl.
      destruct (IH _ _ _ _ (R3_set _ _ i _ _ HR HR') Er) as (t' & HR3 & Hrun).
      exists t'. split; [assumption|]. intro rest. rewrite Hrun. cbn. rewrite <- app_assoc. reflexivity.
    + destruct (full && (hkind (getb ta i) =? MIN)); [discriminate|].
      destruct (arun_st ta ops) as [[x tb]|] eqn:Er; [|discriminate].
      inversion Hs; subst obs ta'; clear Hs.
      destruct (IH _ _ _ _ HR Er) as (t' & HR3 & Hrun).
      exists t'. split; [assumption|]. intro rest. rewrite Hrun.
      rewrite (cquery_R _ _ full (R3_get _ _ i HR)). apply app_assoc.
    + destruct (arun_st (setb ta j (getb ta i)) ops) as [[x tb]|] eqn:Er; [|discriminate].
      inversion Hs; subst obs ta'; clear Hs.
      destruct (IH _ _ _ _ (R3_set _ _ j _ _ HR (R_copy _ _ (R3_get _ _ i HR))) Er) as (t' & HR3 & Hrun).
      exists t'. split; [assumption|]. intro rest. rewrite Hrun. reflexivity.
    + destruct (arun_st (setb ta j (getb ta i)) ops) as [[x tb]|] eqn:Er; [|discriminate].
      inversion Hs; subst obs ta'; clear Hs.
      destruct (IH _ _ _ _ (R3_set _ _ j _ _ HR (R_copy _ _ (R3_get _ _ i HR))) Er) as (t' & HR3 & Hrun).
      exists t'. split; [assumption|]. intro rest. rewrite Hrun. reflexivity.
    + cbn zeta in Hs.
      destruct (arun_st (setb (setb ta i (getb ta j)) j (getb ta i)) ops) as [[x tb]|] eqn:Er; [|discriminate].
      inversion Hs; subst obs ta'; clear Hs.
      assert (HR' : R3 (setb (setb t i (getb t j)) j (getb t i)) (setb (setb ta i (getb ta j)) j (getb ta i))).
      { apply R3_set; [apply R3_set|]; auto using R3_get. }
      destruct (IH _ _ _ _ HR' Er) as (t' & HR3 & Hrun).
      exists t'. split; [assumption|]. intro rest. cbn zeta. rewrite Hrun. reflexivity.
Qed.

Lemma R3_new cap : HDR <= cap -> R3 (mkT (cnew cap) (cnew cap) (cnew cap)) (mkT anew anew anew).
Proof. intro H. unfold R3; cbn. auto using R_new. Qed.

Theorem history cap ops obs : HDR <= cap -> arun ops = Some obs -> run cap ops = obs.
Proof.
  intros Hc Ha. unfold arun in Ha. destruct (arun_st (mkT anew anew anew) ops) as [[x ta]|] eqn:E; [|discriminate].
  cbn in Ha. inversion Ha; subst x.
  destruct (run_sim ops _ _ _ _ (R3_new cap Hc) E) as (t' & _ & Hrun).
  specialize (Hrun []). rewrite app_nil_r in Hrun. unfold run. rewrite Hrun. cbn. apply app_nil_r.
Qed.

(* ---------- detected protocol violations ---------- *)
Lemma detected_assert c a o : R c a -> detected a o = true -> cstep c o = Err E_ASSERT.
Proof.
  intros HR Hd. pose proof (R_ends _ _ HR) as [He1 He2]. pose proof HR as HR0. dR HR. pose proof HDR_pos.
  destruct o; cbn [detected] in Hd; try discriminate; cbn [cstep].
  - (* start *)
    apply andb_true_iff in Hd. destruct Hd as [Hf Hn]. apply negb_true_iff in Hf.
    unfold cstart, unfreeze. rewrite Hfz, Hf. unfold hatoms in Hn.
    destruct (ahead a) as [[k l]|]; [|discriminate]. cbn in Hh. destruct Hh as (H1 & H2 & H3 & H4).
    destruct l; [discriminate|]. cbn [length] in H2. unfold slen.
    destruct (Z.eqb_spec (mbeg (hd c)) 0); [lia|]. destruct (Z.eqb_spec (mend (hd c) - mbeg (hd c)) 0); [lia|]. reflexivity.
  - (* startMinimize *)
    apply andb_true_iff in Hd. destruct Hd as [Hf Hn]. apply negb_true_iff in Hf.
    unfold cstartMin, unfreeze. rewrite Hfz, Hf.
    destruct (ahead a) as [[k l]|] eqn:Eh.
    + pose proof (head_ok_bounds _ _ _ Hh). destruct (Z.eqb_spec (mbeg (hd c)) 0); [lia|]. reflexivity.
    + destruct (abody a) as [[[k b] l]|] eqn:Eb; [|discriminate].
      pose proof (body_ok_bounds _ _ _ _ Hb). destruct (Z.eqb_spec (mbeg (bd c)) 0); [lia|].
      rewrite andb_false_r. reflexivity.
  - (* startBody *)
    apply andb_true_iff in Hd. destruct Hd as [Hf Hn]. apply negb_true_iff in Hf.
    unfold cstartBody, unfreeze. rewrite Hfz, Hf. unfold blits in Hn.
    destruct (abody a) as [[[k b] l]|]; [|discriminate]. pose proof (body_ok_bounds _ _ _ _ Hb) as (B1 & B2 & B3).
    cbn in Hb. destruct Hb as (H1 & H2 & H3). destruct l; [discriminate|]. cbn [length] in H3. unfold slen.
    destruct (Z.eqb_spec (mend (bd c)) 0); [lia|].
    destruct (Z.eqb_spec (mend (bd c) - mbeg (bd c)) 0); [|reflexivity].
    destruct (k =? 0); destruct H3 as (? & ? & ?); lia.
  - (* startSum *)
    apply andb_true_iff in Hd. destruct Hd as [Hf Hn]. apply negb_true_iff in Hf.
    unfold cstartBody, unfreeze. rewrite Hfz, Hf. unfold blits in Hn.
    destruct (abody a) as [[[k b0] l]|]; [|discriminate]. pose proof (body_ok_bounds _ _ _ _ Hb) as (B1 & B2 & B3).
    cbn in Hb. destruct Hb as (H1 & H2 & H3). destruct l; [discriminate|]. cbn [length] in H3. unfold slen.
    destruct (Z.eqb_spec (mend (bd c)) 0); [lia|].
    destruct (Z.eqb_spec (mend (bd c) - mbeg (bd c)) 0); [|reflexivity].
    destruct (k =? 0); destruct H3 as (? & ? & ?); lia.
  - (* setBound *)
    unfold csetBound. rewrite Hfz. pose proof (q_bkind c a HR0) as Hk. unfold q_btype in Hk. rewrite Hk, Hd. reflexivity.
  - (* addHead *)
    rewrite caddHead_core, Hfz. destruct (afrozen a); [reflexivity|]. cbn [orb] in Hd.
    destruct (ahead a) as [[hk hl]|] eqn:Eh; [|discriminate].
    destruct (abody a) as [[[bk bb] bl]|] eqn:Eb; [|discriminate].
    apply andb_true_iff in Hd. destruct Hd as [Hbl Hne].
    pose proof (head_ok_bounds _ _ _ Hh) as [A1 A2]. pose proof (body_ok_bounds _ _ _ _ Hb) as (B1 & B2 & B3).
    destruct (Z.eqb_spec (mend (hd c)) 0); [lia|].
    unfold layout_ok in Hl. rewrite Eh, Eb, Hbl in Hl. destruct Hl as [L1 L2].
    cbn in Hh, Hb. destruct Hh as (H1 & H2 & H3 & H4). destruct Hb as (G1 & G2 & G3).
    assert (Hlt : mbeg (hd c) < mend (bd c)).
    { unfold slot in *. rewrite G1 in *.
      destruct hl as [|x hl]; cbn [length] in *; [|lia].
      destruct bl as [|y bl]; cbn [length] in *.
      - cbn in Hne. destruct (bk =? 0); [discriminate|]. destruct G3 as (? & ? & ?). lia.
      - destruct (bk =? 0); destruct G3 as (? & ? & ?); lia. }
    unfold head_core. destruct (Z.geb_spec (mbeg (hd c)) (mend (bd c))); [lia | reflexivity].
  - (* addGoal *)
    rewrite caddGoal_core, Hfz. destruct (afrozen a); [reflexivity|]. cbn [orb] in Hd.
    destruct (ahead a) as [[hk hl]|] eqn:Eh; [|discriminate].
    destruct (abody a) as [[[bk bb] bl]|] eqn:Eb; [|discriminate].
    apply andb_true_iff in Hd. destruct Hd as [Hbl Hne]. apply negb_true_iff in Hbl.
    pose proof (head_ok_bounds _ _ _ Hh) as [A1 A2]. pose proof (body_ok_bounds _ _ _ _ Hb) as (B1 & B2 & B3).
    destruct (Z.eqb_spec (mbeg (bd c)) 0); [lia|].
    unfold layout_ok in Hl. rewrite Eh, Eb, Hbl in Hl. destruct Hl as [L1 L2].
    cbn in Hh, Hb. destruct Hh as (H1 & H2 & H3 & H4). destruct Hb as (G1 & G2 & G3).
    assert (Hlt : mbeg (bd c) < mend (hd c)).
    { destruct hl as [|x hl]; cbn [length] in *; [|lia].
      destruct bl as [|y bl]; cbn [length] in *; [discriminate|].
      destruct (bk =? 0); destruct G3 as (? & ? & ?); lia. }
    unfold goal_core. destruct (Z.geb_spec (mbeg (bd c)) (mend (hd c))); [lia | reflexivity].
  - (* end *)
    apply andb_true_iff in Hd. destruct Hd as [Hd Hk]. apply andb_true_iff in Hd. destruct Hd as [Ho Hm].
    subst out. unfold cend. cbn [negb]. rewrite (q_hkind c a HR0), Hm. pose proof (q_bkind c a HR0) as Hbk.
    unfold q_btype in Hbk. rewrite Hbk, Hk. reflexivity.
Qed.

Theorem protocol cap pre i o rest obs ta :
  HDR <= cap -> arun_st (mkT anew anew anew) pre = Some (obs, ta) -> detected (getb ta i) o = true ->
  run cap (pre ++ MOp i o :: rest) = obs ++ [E_ASSERT].
Proof.
  intros Hc Ha Hd. destruct (run_sim pre _ _ _ _ (R3_new cap Hc) Ha) as (t' & HR3 & Hrun).
  unfold run. rewrite Hrun. cbn [run_mops]. rewrite (detected_assert _ _ _ (R3_get _ _ i HR3) Hd). reflexivity.
Qed.

(* ---------- plain operation lists on one builder ---------- *)
Theorem sim_steps ops : forall c a a' calls,
  R c a -> asteps a ops = Some (a', calls) -> exists c', csteps c ops = Ok (c', calls) /\ R c' a'.
Proof.
  induction ops as [|o ops IH]; intros c a a' calls HR Hs; cbn [asteps csteps] in *.
  - inversion Hs; subst. eauto.
  - destruct (astep a o) as [[a1 k1]|] eqn:E1; [|discriminate].
    destruct (asteps a1 ops) as [[a2 k2]|] eqn:E2; [|discriminate]. inversion Hs; subst a' calls; clear Hs.
    destruct (sim_step _ _ _ _ _ HR E1) as (c1 & Ec1 & HR1). rewrite Ec1.
    destruct (IH _ _ _ _ HR1 E2) as (c2 & Ec2 & HR2). rewrite Ec2. eauto.
Qed.

Lemma asteps_app x : forall a y a1 k1 a2 k2,
  asteps a x = Some (a1, k1) -> asteps a1 y = Some (a2, k2) -> asteps a (x ++ y) = Some (a2, k1 ++ k2).
Proof.
  induction x as [|o x IH]; intros a y a1 k1 a2 k2 H1 H2; cbn [asteps app] in *.
  - inversion H1; subst. exact H2.
  - destruct (astep a o) as [[b kb]|]; [|discriminate].
    destruct (asteps b x) as [[b' kb']|] eqn:E; [|discriminate]. inversion H1; subst a1 k1; clear H1.
    rewrite (IH _ _ _ _ _ _ E H2). rewrite app_assoc. reflexivity.
Qed.

Lemma asteps_addHeads hs : forall k l b bl,
  (k =? MIN) = false -> hopen (mkA false (Some (k, l)) b bl) = true ->
  asteps (mkA false (Some (k, l)) b bl) (map OAddHead hs) = Some (mkA false (Some (k, l ++ hs)) b bl, []).
Proof.
  induction hs as [|x hs IH]; intros k l b bl Hk Ho; cbn [map asteps].
  - rewrite app_nil_r. reflexivity.
  - cbn [astep afrozen ahead]. rewrite Hk, Ho. cbn [orb negb abody blast].
    rewrite IH by (auto). rewrite <- app_assoc. reflexivity.
Qed.

Lemma asteps_addGoals ls : forall h k b l bl,
  bopen (mkA false h (Some (k, b, l)) bl) = true ->
  asteps (mkA false h (Some (k, b, l)) bl) (map (fun p => OAddGoal (fst p) (snd p)) ls)
  = Some (mkA false h (Some (k, b, l ++ kept k ls)) bl, []).
Proof.
  induction ls as [|[x w] ls IH]; intros h k b l bl Ho; cbn [map asteps].
  - unfold kept. cbn. rewrite app_nil_r. reflexivity.
  - cbn [astep afrozen abody fst snd]. rewrite Ho. cbn [negb ahead blast].
    rewrite IH by auto. unfold kept. cbn [filter snd]. destruct (w =? 0); cbn [negb map fst snd].
    + reflexivity.
    + rewrite <- app_assoc. reflexivity.
Qed.

(* a state in which a new rule can be described: frozen (end() was called) or nothing started *)
Definition fresh (a : ast) : Prop := afrozen a = true \/ (afrozen a = false /\ ahead a = None /\ abody a = None).

Lemma fresh_reset a : fresh a -> exists bl, areset a = mkA false None None bl.
Proof.
  intros [H | (H1 & H2 & H3)]; unfold areset.
  - rewrite H. exists false. reflexivity.
  - rewrite H1. destruct a; cbn in *; subst. eauto.
Qed.

Definition body_start_ok (bs : op) (k b : Z) : Prop := (bs = OStartBody /\ k = 0 /\ b = -1) \/ (bs = OStartSum b /\ k = 1).

Lemma describe_head_first a ht hs bs k b ls :
  fresh a -> ht = 0 \/ ht = 1 -> body_start_ok bs k b ->
  asteps a (describe_head ht hs ++ describe_body bs ls) = Some (mkA false (Some (ht, hs)) (Some (k, b, kept k ls)) true, []).
Proof.
  intros Hf Hht Hbs. destruct (fresh_reset a Hf) as [bl Hr].
  assert (Hm : (ht =? MIN) = false) by (rewrite MIN_val; destruct Hht; subst; reflexivity).
  assert (Hht' : (ht =? 0) || (ht =? 1) = true) by (destruct Hht; subst; reflexivity).
  eapply (asteps_app _ _ _ _ [] _ []).
  - unfold describe_head. cbn [asteps astep]. rewrite Hr. cbn [ahead abody]. rewrite Hht'.
    rewrite asteps_addHeads by (auto). cbn. reflexivity.
  - unfold describe_body. cbn [asteps].
    destruct Hbs as [(-> & -> & ->) | (-> & ->)]; cbn [astep areset afrozen abody ahead hkind].
    + rewrite Hm. rewrite asteps_addGoals by reflexivity. reflexivity.
    + rewrite asteps_addGoals by reflexivity. reflexivity.
Qed.

Lemma describe_body_first a ht hs bs k b ls :
  fresh a -> ht = 0 \/ ht = 1 -> body_start_ok bs k b ->
  asteps a (describe_body bs ls ++ describe_head ht hs) = Some (mkA false (Some (ht, hs)) (Some (k, b, kept k ls)) false, []).
Proof.
  intros Hf Hht Hbs. destruct (fresh_reset a Hf) as [bl Hr].
  assert (Hm : (ht =? MIN) = false) by (rewrite MIN_val; destruct Hht; subst; reflexivity).
  assert (Hht' : (ht =? 0) || (ht =? 1) = true) by (destruct Hht; subst; reflexivity).
  eapply (asteps_app _ _ _ _ [] _ []).
  - unfold describe_body. cbn [asteps].
    destruct Hbs as [(-> & -> & ->) | (-> & ->)]; cbn [astep]; rewrite Hr; cbn [abody ahead hkind].
    + destruct (0 =? MIN) eqn:E0; [rewrite MIN_val in E0; discriminate|].
      rewrite asteps_addGoals by reflexivity. reflexivity.
    + rewrite asteps_addGoals by reflexivity. reflexivity.
  - unfold describe_head. cbn [asteps astep areset afrozen ahead abody]. rewrite Hht'.
    rewrite asteps_addHeads by (auto). cbn. reflexivity.
Qed.

(* the rule that was described *)
Definition described (ht : Z) (hs : list Z) (k b : Z) (ls : list (Z * Z)) : call :=
  if k =? 0 then CRule ht hs (map fst (kept k ls)) else CWRule ht hs b (kept k ls).

Lemma acall_described ht hs k b ls bl :
  ht = 0 \/ ht = 1 -> k = 0 \/ k = 1 ->
  acall (mkA false (Some (ht, hs)) (Some (k, b, kept k ls)) bl) = described ht hs k b ls.
Proof.
  intros Hht Hk. unfold acall, described; cbn.
  assert (Hm : (ht =? MIN) = false) by (rewrite MIN_val; destruct Hht; subst; reflexivity).
  rewrite Hm. destruct Hk; subst; reflexivity.
Qed.

Theorem order_independent c a ht hs bs k b ls thr :
  R c a -> fresh a -> ht = 0 \/ ht = 1 -> body_start_ok bs k b ->
  exists c1 c2,
    csteps c (describe_head ht hs ++ describe_body bs ls ++ [OEnd true thr]) = Ok (c1, [described ht hs k b ls]) /\
    csteps c (describe_body bs ls ++ describe_head ht hs ++ [OEnd true thr]) = Ok (c2, [described ht hs k b ls]) /\
    cquery c1 true = cquery c2 true /\
    q_head c1 = hs /\ q_btype c1 = k /\ q_bound c1 = b /\
    (if k =? 0 then q_body c1 = map fst (kept k ls) else q_wlits c1 = kept k ls).
Proof.
  intros HR Hf Hht Hbs.
  assert (Hk : k = 0 \/ k = 1) by (destruct Hbs as [(_ & -> & _) | (_ & ->)]; auto).
  pose proof (describe_head_first a ht hs bs k b ls Hf Hht Hbs) as H1.
  pose proof (describe_body_first a ht hs bs k b ls Hf Hht Hbs) as H2.
  assert (Hm : (ht =? MIN) = false) by (rewrite MIN_val; destruct Hht; subst; reflexivity).
  assert (E1 : asteps a ((describe_head ht hs ++ describe_body bs ls) ++ [OEnd true thr])
               = Some (mkA true (Some (ht, hs)) (Some (k, b, kept k ls)) true, [] ++ [described ht hs k b ls])).
  { eapply asteps_app; [exact H1|]. cbn [asteps astep negb hkind ahead]. rewrite Hm. cbn [andb].
    rewrite acall_described by auto. reflexivity. }
  assert (E2 : asteps a ((describe_body bs ls ++ describe_head ht hs) ++ [OEnd true thr])
               = Some (mkA true (Some (ht, hs)) (Some (k, b, kept k ls)) false, [] ++ [described ht hs k b ls])).
  { eapply asteps_app; [exact H2|]. cbn [asteps astep negb hkind ahead]. rewrite Hm. cbn [andb].
    rewrite acall_described by auto. reflexivity. }
  rewrite <- app_assoc in E1, E2. cbn [app] in E1, E2.
  destruct (sim_steps _ _ _ _ _ HR E1) as (c1 & Ec1 & HR1).
  destruct (sim_steps _ _ _ _ _ HR E2) as (c2 & Ec2 & HR2).
  exists c1, c2. split; [exact Ec1|]. split; [exact Ec2|]. split.
  { rewrite (cquery_R _ _ true HR1), (cquery_R _ _ true HR2). reflexivity. }
  rewrite (q_head_R _ _ HR1), (q_bkind _ _ HR1), (q_bound_R _ _ HR1). cbn. repeat split.
  destruct Hk; subst k.
  - cbn. rewrite (q_body_R _ _ HR1) by reflexivity. reflexivity.
  - cbn. rewrite (q_wlits_R _ _ HR1) by (cbn; lia). reflexivity.
Qed.
