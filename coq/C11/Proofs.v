(* C11 - refinement: the concrete builder simulates the abstract specification. Part 1: memory lemmas, the
   simulation relation R (which contains the invariant), frame lemmas, push. *)
Require Import V.Lib.Base V.Lib.Calls V.Gen.Consts_C11 V.C11.Model V.C11.Spec.
Local Open Scope Z_scope.

Lemma HDR_pos : 0 < HDR.
Proof. reflexivity. Qed.
Global Opaque HDR MIN.

Arguments Z.mul : simpl never.
Arguments Z.add : simpl never.
Arguments Z.sub : simpl never.
Arguments Z.max : simpl never.
Arguments Z.min : simpl never.
Arguments Z.div : simpl never.
Arguments Z.of_nat : simpl never.
Arguments Z.to_nat : simpl never.
Arguments Z.eqb : simpl never.
Arguments Z.ltb : simpl never.
Arguments Z.leb : simpl never.
Arguments Z.gtb : simpl never.
Arguments Z.geb : simpl never.

(* ---------- cells ---------- *)
Lemma upd_same m o v : upd m o v o = v.
Proof. unfold upd. now rewrite Z.eqb_refl. Qed.
Lemma upd_other m o v x : x <> o -> upd m o v x = m x.
Proof. intro H. unfold upd. destruct (Z.eqb_spec x o); [contradiction | reflexivity]. Qed.

Lemma rdw_length m p n : length (rdw m p n) = n.
Proof. unfold rdw. now rewrite map_length, seq_length. Qed.
Lemma rdwl_length m p n : length (rdwl m p n) = n.
Proof. unfold rdwl. now rewrite map_length, seq_length. Qed.

Lemma rdw_ext m m' p n :
  (forall o, p <= o < p + 4 * Z.of_nat n -> m' o = m o) -> rdw m' p n = rdw m p n.
Proof.
  intro H. unfold rdw. apply map_ext_in. intros i Hi. apply in_seq in Hi. apply H. lia.
Qed.
Lemma rdwl_ext m m' p n :
  (forall o, p <= o < p + 8 * Z.of_nat n -> m' o = m o) -> rdwl m' p n = rdwl m p n.
Proof.
  intro H. unfold rdwl. apply map_ext_in. intros i Hi. apply in_seq in Hi.
  rewrite !H by lia. reflexivity.
Qed.
Lemma rdw_snoc m p n : rdw m p (S n) = rdw m p n ++ [m (p + 4 * Z.of_nat n)].
Proof. unfold rdw. rewrite seq_S, map_app. reflexivity. Qed.
Lemma rdwl_snoc m p n :
  rdwl m p (S n) = rdwl m p n ++ [(m (p + 8 * Z.of_nat n), m (p + 8 * Z.of_nat n + 4))].
Proof. unfold rdwl. rewrite seq_S, map_app. reflexivity. Qed.

Lemma ones_length l : length (ones l) = length l.
Proof. unfold ones. apply map_length. Qed.
Lemma ones_fst l : map fst (ones l) = map fst l.
Proof. unfold ones. rewrite map_map. reflexivity. Qed.
Lemma ones_ones l : ones (ones l) = ones l.
Proof. unfold ones. rewrite map_map. reflexivity. Qed.
Lemma ones_app l l' : ones (l ++ l') = ones l ++ ones l'.
Proof. unfold ones. apply map_app. Qed.

(* ---------- the simulation relation ---------- *)
Definition slot (s : span) : Z := if styp s =? 0 then mbeg s else mbeg s - 4.

Definition head_ok (c : cst) (h : ahd) : Prop :=
  match h with
  | None => hd c = sp0
  | Some (k, l) =>
      HDR <= mbeg (hd c) /\ mend (hd c) = mbeg (hd c) + 4 * Z.of_nat (length l) /\ styp (hd c) = k /\
      rdw (mem c) (mbeg (hd c)) (length l) = l
  end.

Definition body_ok (c : cst) (b : abd) : Prop :=
  match b with
  | None => bd c = sp0
  | Some (k, bnd, l) =>
      styp (bd c) = k /\ HDR <= slot (bd c) /\
      (if k =? 0 then
         mend (bd c) = mbeg (bd c) + 4 * Z.of_nat (length l) /\
         rdw (mem c) (mbeg (bd c)) (length l) = map fst l /\ ones l = l /\ bnd = -1
       else
         (k = 1 \/ k = 2) /\ mend (bd c) = mbeg (bd c) + 8 * Z.of_nat (length l) /\
         rdwl (mem c) (mbeg (bd c)) (length l) = l /\ mem c (mbeg (bd c) - 4) = bnd)
  end.

Definition layout_ok (c : cst) (a : ast) : Prop :=
  match ahead a, abody a with
  | None, None => top c = HDR
  | Some _, None => mend (hd c) = top c
  | None, Some _ => mend (bd c) = top c
  | Some _, Some _ =>
      if blast a then mend (hd c) <= slot (bd c) /\ mend (bd c) = top c
      else mend (bd c) <= mbeg (hd c) /\ mend (hd c) = top c
  end.

Definition R (c : cst) (a : ast) : Prop :=
  frz c = afrozen a /\ fault c = false /\ HDR <= top c /\ top c <= size c /\ size c <= alloc c /\
  head_ok c (ahead a) /\ body_ok c (abody a) /\ layout_ok c a.

Definition frame (c c' : cst) : Prop := forall o, o < top c -> mem c' o = mem c o.

Lemma frame_refl c c' : mem c' = mem c -> frame c c'.
Proof. intros H o _. now rewrite H. Qed.

Lemma head_ok_frame c c' h :
  head_ok c h -> hd c' = hd c -> frame c c' -> mend (hd c) <= top c -> head_ok c' h.
Proof.
  intros H Hh Hf Ht. destruct h as [[k l]|]; cbn in *; rewrite Hh; [|assumption].
  destruct H as (H1 & H2 & H3 & H4). repeat split; try assumption.
  etransitivity; [|exact H4]. apply rdw_ext. intros o Ho. apply Hf. lia.
Qed.

Lemma body_ok_frame c c' b :
  body_ok c b -> bd c' = bd c -> frame c c' -> mend (bd c) <= top c -> body_ok c' b.
Proof.
  intros H Hb Hf Ht. destruct b as [[[k bnd] l]|]; cbn in *; rewrite Hb; [|assumption].
  destruct H as (H1 & H2 & H3). repeat split; try assumption.
  destruct (k =? 0).
  - destruct H3 as (H3 & H4 & H5 & H6). repeat split; try assumption.
    etransitivity; [|exact H4]. apply rdw_ext. intros o Ho. apply Hf. lia.
  - destruct H3 as (H3 & H4 & H5 & H6). repeat split; try assumption.
    + etransitivity; [|exact H5]. apply rdwl_ext. intros o Ho. apply Hf. lia.
    + rewrite <- H6. apply Hf. lia.
Qed.

(* bounds that follow from R *)
Lemma slot_le s : slot s <= mbeg s.
Proof. unfold slot. destruct (styp s =? 0); lia. Qed.

Lemma body_ok_bounds c k bnd l :
  body_ok c (Some (k, bnd, l)) -> HDR <= slot (bd c) /\ slot (bd c) <= mbeg (bd c) /\ mbeg (bd c) <= mend (bd c).
Proof.
  cbn. intros (H1 & H2 & H3). pose proof (slot_le (bd c)).
  destruct (k =? 0); destruct H3 as (? & ? & ?); lia.
Qed.
Lemma head_ok_bounds c k l :
  head_ok c (Some (k, l)) -> HDR <= mbeg (hd c) /\ mbeg (hd c) <= mend (hd c).
Proof. cbn. intros (H1 & H2 & H3 & H4). lia. Qed.

Lemma R_ends c a : R c a -> mend (hd c) <= top c /\ mend (bd c) <= top c.
Proof.
  intros (Hf & Hfl & Ht & Hs & Ha & Hh & Hb & Hl). pose proof HDR_pos.
  unfold layout_ok in Hl.
  destruct (ahead a) as [[hk hl]|] eqn:E1; destruct (abody a) as [[[bk bb] bl]|] eqn:E2.
  - pose proof (head_ok_bounds _ _ _ Hh). pose proof (body_ok_bounds _ _ _ _ Hb).
    destruct (blast a); lia.
  - cbn in Hb. rewrite Hb. cbn. lia.
  - cbn in Hh. rewrite Hh. cbn. lia.
  - cbn in Hh, Hb. rewrite Hh, Hb. cbn. lia.
Qed.

(* ---------- push ---------- *)
Lemma push1_spec c v :
  fault c = false -> HDR <= top c -> top c <= size c -> size c <= alloc c ->
  let c' := push1 c v in
  top c' = top c + 4 /\ frz c' = frz c /\ hd c' = hd c /\ bd c' = bd c /\ fault c' = false /\
  top c' <= size c' /\ size c' <= alloc c' /\ mem c' (top c) = v /\ frame c c'.
Proof.
  intros Hf Ht Hs Ha. unfold push1, grow.
  destruct (top c + 4 >? size c) eqn:E.
  - set (nc := Z.max (top c + 4) (Z.shiftr (size c * RB_GROW_MUL) RB_GROW_SHIFT)).
    assert (Hnc : top c + 4 <= nc) by (unfold nc; lia).
    unfold store. cbn.
    assert (Hsz : top c + 4 <= (if RB_GROW_SIZE_IS_REQUEST =? 1 then top c + 4 else nc) <= nc)
      by (destruct (RB_GROW_SIZE_IS_REQUEST =? 1); lia).
    destruct (Z.leb_spec HDR (top c)); [|lia].
    destruct (Z.leb_spec (top c + 4) (if RB_GROW_SIZE_IS_REQUEST =? 1 then top c + 4 else nc)); [|lia].
    cbn. repeat split; try assumption; try lia.
    + apply upd_same.
    + intros o Ho. cbn. rewrite upd_other by lia. unfold blockcopy.
      destruct (Z.ltb_spec o (Z.min (alloc c) nc)); [reflexivity | lia].
  - unfold store. cbn.
    destruct (Z.leb_spec HDR (top c)); [|lia].
    destruct (Z.leb_spec (top c + 4) (size c)); [|lia].
    cbn. repeat split; try assumption; try lia.
    + apply upd_same.
    + intros o Ho. cbn. rewrite upd_other by lia. reflexivity.
Qed.

Lemma push2_spec c v w :
  fault c = false -> HDR <= top c -> top c <= size c -> size c <= alloc c ->
  let c' := push2 c v w in
  top c' = top c + 8 /\ frz c' = frz c /\ hd c' = hd c /\ bd c' = bd c /\ fault c' = false /\
  top c' <= size c' /\ size c' <= alloc c' /\ mem c' (top c) = v /\ mem c' (top c + 4) = w /\ frame c c'.
Proof.
  intros Hf Ht Hs Ha. unfold push2, grow.
  destruct (top c + 8 >? size c) eqn:E.
  - set (nc := Z.max (top c + 8) (Z.shiftr (size c * RB_GROW_MUL) RB_GROW_SHIFT)).
    assert (Hnc : top c + 8 <= nc) by (unfold nc; lia).
    unfold store. cbn.
    assert (Hsz : top c + 8 <= (if RB_GROW_SIZE_IS_REQUEST =? 1 then top c + 8 else nc) <= nc)
      by (destruct (RB_GROW_SIZE_IS_REQUEST =? 1); lia).
    destruct (Z.leb_spec HDR (top c)); [|lia].
    destruct (Z.leb_spec (top c + 4) (if RB_GROW_SIZE_IS_REQUEST =? 1 then top c + 8 else nc)); [|lia].
    cbn.
    destruct (Z.leb_spec HDR (top c + 4)); [|lia].
    destruct (Z.leb_spec (top c + 4 + 4) (if RB_GROW_SIZE_IS_REQUEST =? 1 then top c + 8 else nc)); [|lia].
    cbn. repeat split; try assumption; try lia.
    + rewrite upd_other by lia. apply upd_same.
    + apply upd_same.
    + intros o Ho. cbn. rewrite !upd_other by lia. unfold blockcopy.
      destruct (Z.ltb_spec o (Z.min (alloc c) nc)); [reflexivity | lia].
  - unfold store. cbn.
    destruct (Z.leb_spec HDR (top c)); [|lia].
    destruct (Z.leb_spec (top c + 4) (size c)); [|lia].
    cbn.
    destruct (Z.leb_spec HDR (top c + 4)); [|lia].
    destruct (Z.leb_spec (top c + 4 + 4) (size c)); [|lia].
    cbn. repeat split; try assumption; try lia.
    + rewrite upd_other by lia. apply upd_same.
    + apply upd_same.
    + intros o Ho. cbn. rewrite !upd_other by lia. reflexivity.
Qed.

Global Opaque push1 push2.
