(* C11 - ABSTRACT specification of the rule builder: "what was described to it".

   State: the head (kind + atoms in insertion order) if one was started since the last reset, the body (kind, bound,
   weighted literals in insertion order) if one was started, the frozen flag, and which part was started last (blast).
   `astep a o = None` means: o is not admissible in a (outside the documented protocol):
     - a part is started at most once between resets / clears (start* on a frozen rule first discards it),
     - head and body definitions are contiguous: once the other part has been started a part is closed for additions
       until the other part is cleared,
     - no update (addHead/addGoal/setBound/weaken) on a frozen rule,
     - a minimize statement has no head atoms and no normal body, and is not weakened,
     - weaken(Count, true) only when (bound + min - 1) / min is computable in int.
   Definitions only.                                                                                                   *)
Require Import V.Lib.Base V.Lib.Calls V.Gen.Consts_C11 V.C11.Model.
Local Open Scope Z_scope.

Definition ahd := option (Z * list Z).                 (* kind, atoms *)
Definition abd := option (Z * Z * list (Z * Z)).       (* kind, bound, (lit, weight) *)
Record ast := mkA { afrozen : bool; ahead : ahd; abody : abd; blast : bool }.

Definition anew : ast := mkA false None None false.
Definition areset (a : ast) : ast := if afrozen a then anew else a.
Definition hkind (a : ast) : Z := match ahead a with Some (k, _) => k | None => 0 end.
Definition hatoms (a : ast) : list Z := match ahead a with Some (_, l) => l | None => [] end.
Definition bkind (a : ast) : Z := match abody a with Some (k, _, _) => k | None => 0 end.
Definition bbound (a : ast) : Z := match abody a with Some (_, b, _) => b | None => -1 end.
Definition blits (a : ast) : list (Z * Z) := match abody a with Some (_, _, l) => l | None => [] end.
Definition hopen (a : ast) : bool := match abody a with None => true | Some _ => negb (blast a) end.
Definition bopen (a : ast) : bool := match ahead a with None => true | Some _ => blast a end.

Definition ones (l : list (Z * Z)) : list (Z * Z) := map (fun p => (fst p, 1)) l.
Definition wmin (l : list (Z * Z)) : Z :=
  match l with
  | [] => 0
  | p :: _ => fold_left (fun m q => if m >? snd q then snd q else m) l (snd p)
  end.

(* the call made by end(out) *)
Definition acall (a : ast) : call :=
  if negb (hkind a =? MIN) && (bkind a =? 0) then CRule (hkind a) (hatoms a) (map fst (blits a))
  else if negb (hkind a =? MIN) then CWRule (hkind a) (hatoms a) (bbound a) (blits a)
  else CMin (bbound a) (blits a).

Definition astep (a0 : ast) (o : op) : option (ast * list call) :=
  match o with
  | OStart ht =>
      let a := areset a0 in
      match ahead a with
      | None => if (ht =? 0) || (ht =? 1) then Some (mkA false (Some (ht, [])) (abody a) false, []) else None
      | Some _ => None
      end
  | OStartMin p =>
      let a := areset a0 in
      match ahead a, abody a with
      | None, None => Some (mkA false (Some (MIN, [])) (Some (1, p, [])) true, [])
      | _, _ => None
      end
  | OStartBody =>
      let a := areset a0 in
      match abody a with
      | None => if hkind a =? MIN then None else Some (mkA false (ahead a) (Some (0, -1, [])) true, [])
      | Some _ => None
      end
  | OStartSum b =>
      let a := areset a0 in
      match abody a with
      | None => Some (mkA false (ahead a) (Some (1, b, [])) true, [])
      | Some _ => None
      end
  | OSetBound b =>
      if afrozen a0 then None else
      match abody a0 with
      | Some (k, _, l) => if k =? 0 then None else Some (mkA false (ahead a0) (Some (k, b, l)) (blast a0), [])
      | None => None
      end
  | OAddHead x =>
      if afrozen a0 then None else
      match ahead a0 with
      | None => Some (mkA false (Some (0, [x])) (abody a0) false, [])
      | Some (k, l) =>
          if (k =? MIN) || negb (hopen a0) then None
          else Some (mkA false (Some (k, l ++ [x])) (abody a0) (blast a0), [])
      end
  | OAddGoal x w =>
      if afrozen a0 then None else
      match abody a0 with
      | None =>
          if hkind a0 =? MIN then None
          else Some (mkA false (ahead a0) (Some (0, -1, if w =? 0 then [] else [(x, 1)])) true, [])
      | Some (k, b, l) =>
          if negb (bopen a0) then None
          else Some (mkA false (ahead a0)
                         (Some (k, b, if w =? 0 then l else l ++ [(x, if k =? 0 then 1 else w)])) (blast a0), [])
      end
  | OEnd out _ =>
      let a' := mkA true (ahead a0) (abody a0) (blast a0) in
      if negb out then Some (a', [])
      else if (hkind a0 =? MIN) && (bkind a0 =? 0) then None
      else Some (a', [acall a0])
  | OClear => Some (anew, [])
  | OClearBody => Some (mkA false (ahead a0) None (blast a0), [])
  | OClearHead => Some (mkA false None (abody a0) (blast a0), [])
  | OWeaken to w =>
      if afrozen a0 || (hkind a0 =? MIN) || negb ((to =? 0) || (to =? 1) || (to =? 2)) then None else
      match abody a0 with
      | None => Some (a0, [])
      | Some (k, b, l) =>
          if (k =? 0) || (k =? to) then Some (a0, [])
          else if to =? 0 then Some (mkA false (ahead a0) (Some (0, -1, ones l)) (blast a0), [])
          else if (to =? 2) && w && negb (Nat.eqb (length l) 0) then
            match wk_bound b (wmin l) with
            | Some q => Some (mkA false (ahead a0) (Some (2, q, ones l)) (blast a0), [])
            | None => None
            end
          else Some (mkA false (ahead a0) (Some (to, b, l)) (blast a0), [])
      end
  end.

(* what a query reports (same layout as Model.cquery) *)
Definition aquery (a : ast) (full : bool) : list Z :=
  let h := hatoms a in
  let bt := bkind a in
  let lits := map fst (blits a) in
  enc_list h ++ [Z.of_nat (length h); bt; bbound a]
  ++ (if bt =? 0 then enc_list lits ++ [Z.of_nat (length lits)]
      else bbound a :: enc_wlist (blits a) ++ [Z.of_nat (length (blits a))])
  ++ (if full then
        (if hkind a =? MIN then [777]
         else hkind a :: enc_list h ++ bt :: obs_body bt (bbound a) lits (blits a))
      else []).

(* three abstract builders; None = the sequence leaves the protocol; result = observation and final abstract states *)
Fixpoint arun_st (t : tri ast) (ops : list mop) : option (list Z * tri ast) :=
  match ops with
  | [] => Some ([], t)
  | MQuery i full :: r =>
      if full && (hkind (getb t i) =? MIN) then None   (* rule() cannot represent a minimize statement *)
      else match arun_st t r with
           | Some (x, t') => Some (aquery (getb t i) full ++ x, t')
           | None => None
           end
  | MOp i o :: r =>
      match astep (getb t i) o with
      | Some (a', calls) =>
          match arun_st (setb t i a') r with
          | Some (x, t') => Some (ostat o :: enc_calls calls ++ x, t')
          | None => None
          end
      | None => None
      end
  | MCopy i j :: r | MAssign i j :: r =>
      match arun_st (setb t j (getb t i)) r with
      | Some (x, t') => Some (0 :: x, t')
      | None => None
      end
  | MSwap i j :: r =>
      let ai := getb t i in let aj := getb t j in
      match arun_st (setb (setb t i aj) j ai) r with
      | Some (x, t') => Some (0 :: x, t')
      | None => None
      end
  end.

Definition arun (ops : list mop) : option (list Z) := option_map fst (arun_st (mkT anew anew anew) ops).

(* one builder, plain operation lists *)
Fixpoint asteps (a : ast) (ops : list op) : option (ast * list call) :=
  match ops with
  | [] => Some (a, [])
  | o :: r =>
      match astep a o with
      | Some (a1, c1) => match asteps a1 r with Some (a2, c2) => Some (a2, c1 ++ c2) | None => None end
      | None => None
      end
  end.
Fixpoint csteps (c : cst) (ops : list op) : res (cst * list call) :=
  match ops with
  | [] => Ok (c, [])
  | o :: r =>
      match cstep c o with
      | Ok (c1, k1) => match csteps c1 r with Ok (c2, k2) => Ok (c2, k1 ++ k2) | Err e => Err e end
      | Err e => Err e
      end
  end.

(* describing a rule: the head, the body (bs = OStartBody or OStartSum b) *)
Definition describe_head (ht : Z) (hs : list Z) : list op := OStart ht :: map OAddHead hs.
Definition describe_body (bs : op) (ls : list (Z * Z)) : list op := bs :: map (fun p => OAddGoal (fst p) (snd p)) ls.
(* what is kept of the literals handed to addGoal: weight 0 omitted, a normal body forgets the weights *)
Definition kept (k : Z) (ls : list (Z * Z)) : list (Z * Z) :=
  map (fun p => (fst p, if k =? 0 then 1 else snd p)) (filter (fun p => negb (snd p =? 0)) ls).

(* protocol violations the builder detects (they must end in the assertion error) *)
Definition detected (a : ast) (o : op) : bool :=
  match o with
  | OStart _ => negb (afrozen a) && negb (Nat.eqb (length (hatoms a)) 0)
  | OStartMin _ => negb (afrozen a) && (match ahead a, abody a with None, None => false | _, _ => true end)
  | OStartBody | OStartSum _ => negb (afrozen a) && negb (Nat.eqb (length (blits a)) 0)
  | OSetBound _ => afrozen a || (bkind a =? 0)
  | OAddHead _ =>
      afrozen a ||
      (match ahead a, abody a with
       | Some (_, l), Some (k, _, bl) => blast a && (negb (Nat.eqb (length l) 0) || negb (Nat.eqb (length bl) 0) || negb (k =? 0))
       | _, _ => false
       end)
  | OAddGoal _ _ =>
      afrozen a ||
      (match ahead a, abody a with
       | Some (_, l), Some (_, _, bl) => negb (blast a) && (negb (Nat.eqb (length l) 0) || negb (Nat.eqb (length bl) 0))
       | _, _ => false
       end)
  | OEnd out _ => out && (hkind a =? MIN) && (bkind a =? 0)
  | _ => false
  end.
