(* C11 - refinement, part 3: addHead / addGoal (push into the open part, with growth). *)
Require Import V.Lib.Base V.Lib.Calls V.Gen.Consts_C11 V.C11.Model V.C11.Spec V.C11.Proofs V.C11.Proofs2.
Local Open Scope Z_scope.

(* the part of addHead after the implicit start *)
Definition head_core (x : Z) (c1 : cst) : res cst :=
  if negb (mbeg (hd c1) >=? mend (bd c1)) then Err E_ASSERT else
  let c2 := push1 c1 x in
  Ok (set_hd c2 (mkSpan (mbeg (hd c2)) (top c2) (styp (hd c2)))).
Lemma caddHead_core x c :
  caddHead x c = if frz c then Err E_ASSERT
                 else head_core x (if mend (hd c) =? 0 then set_hd c (mkSpan (top c) (top c) 0) else c).
Proof. reflexivity. Qed.

Lemma head_core_sim c a x k l :
  R c a -> afrozen a = false -> ahead a = Some (k, l) -> hopen a = true ->
  exists c', head_core x c = Ok c' /\ R c' (mkA false (Some (k, l ++ [x])) (abody a) (blast a)).
Proof.
  intros HR Hnf Eh Ho. pose proof (R_ends _ _ HR) as [He1 He2]. dR HR. pose proof HDR_pos.
  rewrite Eh in Hh. pose proof (head_ok_bounds _ _ _ Hh) as [B1 B2].
  unfold layout_ok in Hl. rewrite Eh in Hl. unfold hopen in Ho.
  assert (Hlast : mend (hd c) = top c /\ mend (bd c) <= mbeg (hd c)).
  { destruct (abody a) as [[[bk bb] bl]|].
    - destruct (blast a); [discriminate|]. lia.
    - cbn in Hb. rewrite Hb. cbn. lia. }
  destruct Hlast as [L1 L2].
  unfold head_core. destruct (Z.geb_spec (mbeg (hd c)) (mend (bd c))); [|lia]. cbn.
  destruct (push1_spec c x Hft Htop Hsz Hal) as (P1 & P2 & P3 & P4 & P5 & P6 & P7 & P8 & P9).
  set (c2 := push1 c x) in *. clearbody c2.
  eexists; split; [reflexivity|].
  cbn in Hh. destruct Hh as (H1 & H2 & H3 & H4).
  splitR.
  - cbn. rewrite P3. repeat split; try assumption; try lia.
    + rewrite app_length. cbn. lia.
    + rewrite app_length. cbn. replace (length l + 1)%nat with (S (length l)) by lia.
      rewrite rdw_snoc. f_equal.
      * etransitivity; [|exact H4]. apply rdw_ext. intros o Ho'. apply P9. lia.
      * f_equal. rewrite <- P8. f_equal. lia.
  - eapply body_ok_frame; eauto.
  - unfold layout_ok; cbn. rewrite P1, P4.
    destruct (abody a) as [[[bk bb] bl]|].
    + destruct (blast a); [discriminate|]. rewrite P3. lia.
    + reflexivity.
Qed.

Lemma sim_addHead c a x a' calls :
  R c a -> astep a (OAddHead x) = Some (a', calls) ->
  exists c', cstep c (OAddHead x) = Ok (c', calls) /\ R c' a'.
Proof.
  intros HR Hs. cbn [astep cstep] in *. rewrite caddHead_core.
  pose proof HR as HR0. dR HR. pose proof HDR_pos.
  destruct (afrozen a) eqn:Ef; [discriminate|]. rewrite Hfz.
  destruct (ahead a) as [[hk hl]|] eqn:Eh.
  - destruct ((hk =? MIN) || negb (hopen a)) eqn:Ec; [discriminate|].
    apply orb_false_iff in Ec. destruct Ec as [_ Ec]. apply negb_false_iff in Ec.
    inversion Hs; subst a' calls; clear Hs.
    pose proof (head_ok_bounds _ _ _ Hh) as [B1 B2].
    destruct (Z.eqb_spec (mend (hd c)) 0); [lia|].
    destruct (head_core_sim c a x hk hl HR0 Ef Eh Ec) as (c' & E & HR').
    exists c'. rewrite E. split; [reflexivity | exact HR'].
  - inversion Hs; subst a' calls; clear Hs.
    cbn in Hh. rewrite Hh. cbn. rewrite Z.eqb_refl.
    pose proof (R_start c a 0 HR0 Ef Eh) as HR1.
    destruct (head_core_sim _ _ x 0 [] HR1 eq_refl eq_refl) as (c' & E & HR').
    { unfold hopen; cbn. destruct (abody a); reflexivity. }
    exists c'. rewrite E. split; [reflexivity | exact HR'].
Qed.

(* the part of addGoal after the implicit start *)
Definition goal_core (x w : Z) (c1 : cst) : res cst :=
  if negb (mbeg (bd c1) >=? mend (hd c1)) then Err E_ASSERT else
  if w =? 0 then Ok c1 else
  let c2 := if styp (bd c1) =? 0 then push1 c1 x else push2 c1 x w in
  Ok (set_bd c2 (mkSpan (mbeg (bd c2)) (top c2) (styp (bd c2)))).
Lemma caddGoal_core x w c :
  caddGoal x w c = if frz c then Err E_ASSERT
                   else goal_core x w (if mbeg (bd c) =? 0 then set_bd c (mkSpan (top c) (top c) 0) else c).
Proof. reflexivity. Qed.

Lemma goal_core_sim c a x w k b l :
  R c a -> afrozen a = false -> abody a = Some (k, b, l) -> bopen a = true ->
  exists c', goal_core x w c = Ok c' /\
    R c' (mkA false (ahead a) (Some (k, b, if w =? 0 then l else l ++ [(x, if k =? 0 then 1 else w)])) (blast a)).
Proof.
  intros HR Hnf Eb Ho. pose proof (R_ends _ _ HR) as [He1 He2]. pose proof HR as HR0. dR HR. pose proof HDR_pos.
  rewrite Eb in Hb. pose proof (body_ok_bounds _ _ _ _ Hb) as (B1 & B2 & B3).
  unfold layout_ok in Hl. rewrite Eb in Hl. unfold bopen in Ho.
  assert (Hlast : mend (bd c) = top c /\ mend (hd c) <= slot (bd c)).
  { destruct (ahead a) as [[hk hl]|].
    - rewrite Ho in Hl. lia.
    - cbn in Hh. rewrite Hh. cbn. lia. }
  destruct Hlast as [L1 L2].
  unfold goal_core. destruct (Z.geb_spec (mbeg (bd c)) (mend (hd c))); [|lia]. cbn.
  destruct (w =? 0) eqn:Ew.
  { eexists; split; [reflexivity|]. rewrite <- Eb. rewrite a_eta by assumption. exact HR0. }
  cbn in Hb. destruct Hb as (H1 & H2 & H3). rewrite H1.
  destruct (k =? 0) eqn:Ek.
  - (* normal body: one cell *)
    destruct H3 as (H3 & H4 & H5 & H6).
    destruct (push1_spec c x Hft Htop Hsz Hal) as (P1 & P2 & P3 & P4 & P5 & P6 & P7 & P8 & P9).
    set (c2 := push1 c x) in *. clearbody c2.
    eexists; split; [reflexivity|].
    splitR.
    + eapply head_ok_frame; eauto.
    + cbn. rewrite P4, H1, Ek. unfold slot in *; cbn. rewrite H1, Ek in *. repeat split; try assumption; try lia.
      * rewrite app_length. cbn. lia.
      * rewrite app_length, map_app. cbn. replace (length l + 1)%nat with (S (length l)) by lia.
        rewrite rdw_snoc. f_equal.
        -- etransitivity; [|exact H4]. apply rdw_ext. intros o Ho'. apply P9. lia.
        -- f_equal. rewrite <- P8. f_equal. lia.
      * rewrite ones_app, H5. reflexivity.
    + unfold layout_ok; cbn. rewrite P1, P3. unfold slot in *; cbn. rewrite P4, H1, Ek in *.
      destruct (ahead a) as [[hk hl]|].
      * rewrite Ho. lia.
      * reflexivity.
  - (* weighted body: two cells *)
    destruct H3 as (H3 & H4 & H5 & H6).
    destruct (push2_spec c x w Hft Htop Hsz Hal) as (P1 & P2 & P3 & P4 & P5 & P6 & P7 & P8 & P8' & P9).
    set (c2 := push2 c x w) in *. clearbody c2.
    eexists; split; [reflexivity|].
    splitR.
    + eapply head_ok_frame; eauto.
    + cbn. rewrite P4, H1, Ek. unfold slot in *; cbn. rewrite H1, Ek in *. repeat split; try assumption; try lia.
      * rewrite app_length. cbn. lia.
      * rewrite app_length. cbn. replace (length l + 1)%nat with (S (length l)) by lia.
        rewrite rdwl_snoc. f_equal.
        -- etransitivity; [|exact H5]. apply rdwl_ext. intros o Ho'. apply P9. lia.
        -- f_equal. f_equal.
           ++ rewrite <- P8. f_equal. lia.
           ++ rewrite <- P8'. f_equal. lia.
      * rewrite <- H6. apply P9. lia.
    + unfold layout_ok; cbn. rewrite P1, P3. unfold slot in *; cbn. rewrite P4, H1, Ek in *.
      destruct (ahead a) as [[hk hl]|].
      * rewrite Ho. lia.
      * reflexivity.
Qed.

Lemma sim_addGoal c a x w a' calls :
  R c a -> astep a (OAddGoal x w) = Some (a', calls) ->
  exists c', cstep c (OAddGoal x w) = Ok (c', calls) /\ R c' a'.
Proof.
  intros HR Hs. cbn [astep cstep] in *. rewrite caddGoal_core.
  pose proof HR as HR0. dR HR. pose proof HDR_pos.
  destruct (afrozen a) eqn:Ef; [discriminate|]. rewrite Hfz.
  destruct (abody a) as [[[bk bb] bl]|] eqn:Eb.
  - destruct (negb (bopen a)) eqn:Ec; [discriminate|]. apply negb_false_iff in Ec.
    inversion Hs; subst a' calls; clear Hs.
    pose proof (body_ok_bounds _ _ _ _ Hb) as (B1 & B2 & B3).
    destruct (Z.eqb_spec (mbeg (bd c)) 0); [lia|].
    destruct (goal_core_sim c a x w bk bb bl HR0 Ef Eb Ec) as (c' & E & HR').
    exists c'. rewrite E. split; [reflexivity | exact HR'].
  - destruct (hkind a =? MIN); [discriminate|]. inversion Hs; subst a' calls; clear Hs.
    cbn in Hb. rewrite Hb. cbn. rewrite Z.eqb_refl.
    pose proof (R_startBody0 c a HR0 Ef Eb) as HR1.
    destruct (goal_core_sim _ _ x w 0 (-1) [] HR1 eq_refl eq_refl) as (c' & E & HR').
    { unfold bopen; cbn. destruct (ahead a); reflexivity. }
    exists c'. rewrite E. split; [reflexivity|].
    cbn in HR'. rewrite Z.eqb_refl in HR'. exact HR'.
Qed.
