(* C11 - refinement, part 2: every admissible operation preserves R and commutes with the abstraction. *)
Require Import V.Lib.Base V.Lib.Calls V.Gen.Consts_C11 V.C11.Model V.C11.Spec V.C11.Proofs.
Local Open Scope Z_scope.

Ltac dR H := destruct H as (Hfz & Hft & Htop & Hsz & Hal & Hh & Hb & Hl).
Ltac easyR := cbn; first [assumption | lia | congruence | reflexivity].
(* exactly the eight components of R: frz, fault, HDR<=top, top<=size, size<=alloc, head, body, layout *)
Ltac splitR := unfold R; split; [easyR | split; [easyR | split; [easyR | split; [easyR | split; [easyR | split; [|split]]]]]].

(* same span, same cells in the span *)
Lemma head_ok_rng c c' h :
  head_ok c h -> hd c' = hd c -> (forall o, mbeg (hd c) <= o < mend (hd c) -> mem c' o = mem c o) -> head_ok c' h.
Proof.
  intros H Hh Hf. destruct h as [[k l]|]; cbn in *; rewrite Hh; [|assumption].
  destruct H as (H1 & H2 & H3 & H4). repeat split; try assumption.
  etransitivity; [|exact H4]. apply rdw_ext. intros o Ho. apply Hf. lia.
Qed.
Lemma body_ok_rng c c' b :
  body_ok c b -> bd c' = bd c -> (forall o, slot (bd c) <= o < mend (bd c) -> mem c' o = mem c o) -> body_ok c' b.
Proof.
  intros H Hb Hf. destruct b as [[[k bnd] l]|]; cbn in *; rewrite Hb; [|assumption].
  destruct H as (H1 & H2 & H3). repeat split; try assumption.
  pose proof (slot_le (bd c)) as Hsl.
  destruct (k =? 0) eqn:Ek.
  - destruct H3 as (H3 & H4 & H5 & H6). repeat split; try assumption.
    etransitivity; [|exact H4]. apply rdw_ext. intros o Ho. apply Hf. lia.
  - destruct H3 as (H3 & H4 & H5 & H6). repeat split; try assumption.
    + etransitivity; [|exact H5]. apply rdwl_ext. intros o Ho. apply Hf. lia.
    + rewrite <- H6. apply Hf. unfold slot in *. rewrite H1, Ek in *. lia.
Qed.
Lemma head_ok_eq c c' h : head_ok c h -> hd c' = hd c -> mem c' = mem c -> head_ok c' h.
Proof. intros H H1 H2. eapply head_ok_rng; eauto. intros. now rewrite H2. Qed.
Lemma body_ok_eq c c' b : body_ok c b -> bd c' = bd c -> mem c' = mem c -> body_ok c' b.
Proof. intros H H1 H2. eapply body_ok_rng; eauto. intros. now rewrite H2. Qed.

(* ---------- reset / unfreeze ---------- *)
Lemma R_clear c a : R c a -> R (cclear c) anew.
Proof.
  intro HR. dR HR. unfold cclear, anew. splitR; cbn; try reflexivity.
Qed.

Lemma areset_nf a : afrozen (areset a) = false.
Proof. unfold areset. destruct (afrozen a) eqn:E; [reflexivity | assumption]. Qed.

Lemma R_unfreeze_true c a : R c a -> R (unfreeze true c) (areset a).
Proof.
  intro HR. unfold unfreeze, areset. pose proof HR as (Hfz & _). rewrite Hfz.
  destruct (afrozen a); [apply (R_clear c a) | ]; exact HR.
Qed.

Lemma R_unfreeze_false c a : R c a -> R (unfreeze false c) (mkA false (ahead a) (abody a) (blast a)).
Proof.
  intro HR. unfold unfreeze. dR HR. rewrite Hfz.
  destruct (afrozen a) eqn:E; splitR; cbn; auto.
Qed.

Lemma a_eta a : afrozen a = false -> mkA false (ahead a) (abody a) (blast a) = a.
Proof. destruct a; cbn; intros ->; reflexivity. Qed.

(* ---------- start ---------- *)
Lemma R_start c a ht :
  R c a -> afrozen a = false -> ahead a = None ->
  R (set_hd c (mkSpan (top c) (top c) ht)) (mkA false (Some (ht, [])) (abody a) false).
Proof.
  intros HR Hnf Hn. pose proof (R_ends _ _ HR) as [He1 He2]. dR HR.
  splitR.
  - cbn. repeat split; try lia; reflexivity.
  - eapply body_ok_eq; eauto.
  - unfold layout_ok in *; cbn. rewrite Hn in Hl. destruct (abody a) as [[[bk bb] bl]|]; cbn; lia.
Qed.

Lemma sim_start c a ht a' calls :
  R c a -> astep a (OStart ht) = Some (a', calls) ->
  exists c', cstep c (OStart ht) = Ok (c', calls) /\ R c' a'.
Proof.
  intros HR Hs. cbn [astep cstep] in *.
  pose proof (R_unfreeze_true _ _ HR) as HR1. pose proof (areset_nf a) as Hnf.
  unfold cstart. set (c1 := unfreeze true c) in *. set (a1 := areset a) in *. clearbody c1 a1.
  destruct (ahead a1) as [[hk hl]|] eqn:Eh; [discriminate|].
  destruct ((ht =? 0) || (ht =? 1)); [|discriminate]. inversion Hs; subst a' calls; clear Hs.
  assert (Hhd : hd c1 = sp0) by (dR HR1; rewrite Eh in Hh; exact Hh).
  rewrite Hhd. cbn. rewrite Z.eqb_refl. cbn.
  eexists; split; [reflexivity|]. now apply R_start.
Qed.

(* ---------- startBody / startSum ---------- *)
Lemma R_startBody0 c a :
  R c a -> afrozen a = false -> abody a = None ->
  R (set_bd c (mkSpan (top c) (top c) 0)) (mkA false (ahead a) (Some (0, -1, [])) true).
Proof.
  intros HR Hnf Hn. pose proof (R_ends _ _ HR) as [He1 He2]. dR HR.
  splitR.
  - eapply head_ok_eq; eauto.
  - cbn. unfold slot; cbn. rewrite Z.eqb_refl. repeat split; try lia; reflexivity.
  - unfold layout_ok in *; cbn. rewrite Hn in Hl. unfold slot; cbn. rewrite Z.eqb_refl.
    destruct (ahead a) as [[hk hl]|]; cbn; lia.
Qed.

Lemma R_startSum c a b :
  R c a -> afrozen a = false -> abody a = None ->
  let c1 := push1 c b in
  R (set_bd c1 (mkSpan (top c1) (top c1) 1)) (mkA false (ahead a) (Some (1, b, [])) true).
Proof.
  intros HR Hnf Hn c1. pose proof (R_ends _ _ HR) as [He1 He2]. dR HR.
  destruct (push1_spec c b Hft Htop Hsz Hal) as (P1 & P2 & P3 & P4 & P5 & P6 & P7 & P8 & P9).
  fold c1 in P1, P2, P3, P4, P5, P6, P7, P8, P9.
  splitR.
  - eapply head_ok_frame; eauto.
  - cbn. unfold slot; cbn. destruct (Z.eqb_spec 1 0); [lia|]. repeat split; auto; try lia. rewrite P1.
    replace (top c + 4 - 4) with (top c) by lia. exact P8.
  - unfold layout_ok in *; cbn. rewrite Hn in Hl. unfold slot; cbn. destruct (Z.eqb_spec 1 0); [lia|].
    rewrite P3. destruct (ahead a) as [[hk hl]|]; cbn; lia.
Qed.

Lemma sim_startBody c a a' calls :
  R c a -> astep a OStartBody = Some (a', calls) ->
  exists c', cstep c OStartBody = Ok (c', calls) /\ R c' a'.
Proof.
  intros HR Hs. cbn [astep cstep] in *.
  pose proof (R_unfreeze_true _ _ HR) as HR1. pose proof (areset_nf a) as Hnf.
  unfold cstartBody. set (c1 := unfreeze true c) in *. set (a1 := areset a) in *. clearbody c1 a1.
  destruct (abody a1) as [[[bk bb] bl]|] eqn:Eb; [discriminate|].
  destruct (hkind a1 =? MIN); [discriminate|]. inversion Hs; subst a' calls; clear Hs.
  assert (Hbd : bd c1 = sp0) by (dR HR1; rewrite Eb in Hb; exact Hb).
  rewrite Hbd. cbn. rewrite Z.eqb_refl. cbn.
  eexists; split; [reflexivity|]. now apply R_startBody0.
Qed.

Lemma sim_startSum c a b a' calls :
  R c a -> astep a (OStartSum b) = Some (a', calls) ->
  exists c', cstep c (OStartSum b) = Ok (c', calls) /\ R c' a'.
Proof.
  intros HR Hs. cbn [astep cstep] in *.
  pose proof (R_unfreeze_true _ _ HR) as HR1. pose proof (areset_nf a) as Hnf.
  unfold cstartBody. set (c1 := unfreeze true c) in *. set (a1 := areset a) in *. clearbody c1 a1.
  destruct (abody a1) as [[[bk bb] bl]|] eqn:Eb; [discriminate|].
  inversion Hs; subst a' calls; clear Hs.
  assert (Hbd : bd c1 = sp0) by (dR HR1; rewrite Eb in Hb; exact Hb).
  rewrite Hbd. cbn. rewrite Z.eqb_refl. destruct (Z.eqb_spec 1 0); [lia|]. cbn.
  eexists; split; [reflexivity|]. now apply R_startSum.
Qed.

(* ---------- startMinimize ---------- *)
Lemma sim_startMin c a p a' calls :
  R c a -> astep a (OStartMin p) = Some (a', calls) ->
  exists c', cstep c (OStartMin p) = Ok (c', calls) /\ R c' a'.
Proof.
  intros HR Hs. cbn [astep cstep] in *.
  pose proof (R_unfreeze_true _ _ HR) as HR1. pose proof (areset_nf a) as Hnf.
  unfold cstartMin. set (c1 := unfreeze true c) in *. set (a1 := areset a) in *. clearbody c1 a1.
  destruct (ahead a1) as [[hk hl]|] eqn:Eh; [discriminate|].
  destruct (abody a1) as [[[bk bb] bl]|] eqn:Eb; [discriminate|].
  inversion Hs; subst a' calls; clear Hs.
  assert (Hhd : hd c1 = sp0) by (dR HR1; rewrite Eh in Hh; exact Hh).
  assert (Hbd : bd c1 = sp0) by (dR HR1; rewrite Eb in Hb; exact Hb).
  rewrite Hhd, Hbd. cbn. rewrite Z.eqb_refl. cbn.
  eexists; split; [reflexivity|].
  pose proof (R_start c1 a1 MIN HR1 Hnf Eh) as HR2.
  pose proof (R_startSum _ _ p HR2 eq_refl Eb) as HR3. exact HR3.
Qed.

(* ---------- setBound ---------- *)
Lemma sim_setBound c a b a' calls :
  R c a -> astep a (OSetBound b) = Some (a', calls) ->
  exists c', cstep c (OSetBound b) = Ok (c', calls) /\ R c' a'.
Proof.
  intros HR Hs. cbn [astep cstep] in *. pose proof (R_ends _ _ HR) as [He1 He2]. pose proof HR as HR0. dR HR.
  destruct (afrozen a) eqn:Ef; [discriminate|].
  destruct (abody a) as [[[bk bb] bl]|] eqn:Eb; [|discriminate].
  destruct (bk =? 0) eqn:Ek; [discriminate|]. inversion Hs; subst a' calls; clear Hs.
  pose proof (body_ok_bounds _ _ _ _ Hb) as (B1 & B2 & B3).
  cbn in Hb. rewrite Ek in Hb. destruct Hb as (Hb1 & Hb2 & Hb3 & Hb4 & Hb5 & Hb6).
  assert (Hsl : slot (bd c) = mbeg (bd c) - 4) by (unfold slot; rewrite Hb1, Ek; reflexivity).
  unfold csetBound. rewrite Hfz, Hb1, Ek. cbn. unfold store.
  destruct (Z.leb_spec HDR (mbeg (bd c) - 4)); [|lia].
  destruct (Z.leb_spec (mbeg (bd c) - 4 + 4) (size c)); [|lia]. cbn.
  eexists; split; [reflexivity|].
  splitR.
  - eapply head_ok_rng; eauto. intros o Ho. cbn. apply upd_other.
    unfold layout_ok in Hl. rewrite Eb in Hl. destruct (ahead a) as [[hk hl]|] eqn:Eh.
    + destruct (blast a); lia.
    + cbn in Hh. rewrite Hh in Ho. cbn in Ho. lia.
  - cbn. rewrite Ek. repeat split; try assumption; try lia.
    + etransitivity; [|exact Hb5]. apply rdwl_ext. intros o Ho. apply upd_other. lia.
    + apply upd_same.
  - unfold layout_ok in *; cbn. rewrite Eb in Hl. exact Hl.
Qed.

(* ---------- clear / clearBody / clearHead ---------- *)
Lemma sim_clearBody c a a' calls :
  R c a -> astep a OClearBody = Some (a', calls) ->
  exists c', cstep c OClearBody = Ok (c', calls) /\ R c' a'.
Proof.
  intros HR Hs. cbn [astep cstep] in *. inversion Hs; subst a' calls; clear Hs.
  eexists; split; [reflexivity|].
  pose proof (R_unfreeze_false _ _ HR) as HR1. unfold cclearBody.
  set (c1 := unfreeze false c) in *. clearbody c1.
  pose proof (R_ends _ _ HR1) as [He1 He2]. dR HR1. cbn in *. pose proof HDR_pos.
  splitR.
  - eapply head_ok_eq; eauto.
  - reflexivity.
  - unfold layout_ok in *; cbn in *. destruct (ahead a) as [[hk hl]|].
    + pose proof (head_ok_bounds _ _ _ Hh). lia.
    + cbn in Hh. rewrite Hh. cbn. lia.
Qed.

Lemma sim_clearHead c a a' calls :
  R c a -> astep a OClearHead = Some (a', calls) ->
  exists c', cstep c OClearHead = Ok (c', calls) /\ R c' a'.
Proof.
  intros HR Hs. cbn [astep cstep] in *. inversion Hs; subst a' calls; clear Hs.
  eexists; split; [reflexivity|].
  pose proof (R_unfreeze_false _ _ HR) as HR1. unfold cclearHead.
  set (c1 := unfreeze false c) in *. clearbody c1.
  pose proof (R_ends _ _ HR1) as [He1 He2]. dR HR1. cbn in *. pose proof HDR_pos.
  splitR.
  - reflexivity.
  - eapply body_ok_eq; eauto.
  - unfold layout_ok in *; cbn in *. destruct (abody a) as [[[bk bb] bl]|].
    + pose proof (body_ok_bounds _ _ _ _ Hb). lia.
    + cbn in Hb. rewrite Hb. cbn. lia.
Qed.
