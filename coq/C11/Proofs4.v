(* C11 - refinement, part 4: weaken (in-place loops), queries, end, and the step theorem. *)
Require Import V.Lib.Base V.Lib.Calls V.Gen.Consts_C11 V.C11.Model V.C11.Spec V.C11.Proofs V.C11.Proofs2 V.C11.Proofs3.
Local Open Scope Z_scope.

(* ---------- the in-place loops ---------- *)
Lemma compact_spec n : forall m rd wr, wr < rd ->
  (forall j, (j < n)%nat -> compact m rd wr n (wr + 4 * Z.of_nat j) = m (rd + 8 * Z.of_nat j)) /\
  (forall o, o < wr \/ wr + 4 * Z.of_nat n <= o -> compact m rd wr n o = m o).
Proof.
  induction n as [|n IH]; intros m rd wr Hlt; cbn [compact].
  - split; [intros j Hj; lia | reflexivity].
  - destruct (IH (upd m wr (m rd)) (rd + 8) (wr + 4) ltac:(lia)) as [I1 I2]. split.
    + intros [|j] Hj.
      * replace (wr + 4 * Z.of_nat 0) with wr by lia. replace (rd + 8 * Z.of_nat 0) with rd by lia.
        rewrite I2 by lia. apply upd_same.
      * replace (wr + 4 * Z.of_nat (S j)) with (wr + 4 + 4 * Z.of_nat j) by lia.
        replace (rd + 8 * Z.of_nat (S j)) with (rd + 8 + 8 * Z.of_nat j) by lia.
        rewrite I1 by lia. apply upd_other. lia.
    + intros o Ho. rewrite I2 by lia. apply upd_other. lia.
Qed.

Lemma compact_rdw m rd wr n : wr < rd -> rdw (compact m rd wr n) wr n = map fst (rdwl m rd n).
Proof.
  intro Hlt. destruct (compact_spec n m rd wr Hlt) as [I1 _].
  unfold rdw, rdwl. rewrite map_map. apply map_ext_in. intros i Hi. apply in_seq in Hi. cbn. apply I1. lia.
Qed.

Lemma rdwl_cons m p n : rdwl m p (S n) = (m p, m (p + 4)) :: rdwl m (p + 8) n.
Proof.
  unfold rdwl. rewrite <- cons_seq, <- seq_shift. cbn [map]. rewrite map_map. f_equal.
  - f_equal; f_equal; lia.
  - apply map_ext. intro i. f_equal; f_equal; lia.
Qed.

Definition wstep (m : Z) (q : Z * Z) : Z := if m >? snd q then snd q else m.

Lemma wk_count_spec n : forall m p mn,
  snd (wk_count m p n mn) = fold_left wstep (rdwl m p n) mn /\
  rdwl (fst (wk_count m p n mn)) p n = ones (rdwl m p n) /\
  (forall o, o < p \/ p + 8 * Z.of_nat n <= o -> fst (wk_count m p n mn) o = m o).
Proof.
  induction n as [|n IH]; intros m p mn; cbn [wk_count].
  - repeat split.
  - set (m1 := upd m (p + 4) 1). set (mn1 := if mn >? m (p + 4) then m (p + 4) else mn).
    destruct (IH m1 (p + 8) mn1) as (I1 & I2 & I3).
    assert (Hm1 : rdwl m1 (p + 8) n = rdwl m (p + 8) n).
    { apply rdwl_ext. intros o Ho. apply upd_other. lia. }
    split; [|split].
    + rewrite I1, Hm1, (rdwl_cons m p n). cbn [fold_left]. reflexivity.
    + rewrite (rdwl_cons _ p n), I2, Hm1, (rdwl_cons m p n). cbn. f_equal.
      rewrite !I3 by lia. unfold m1. rewrite upd_same, upd_other by lia. reflexivity.
    + intros o Ho. rewrite I3 by lia. apply upd_other. lia.
Qed.

Lemma wmin_rdwl l : l <> [] -> wmin l = fold_left wstep l (snd (List.hd (0, 0) l)).
Proof. destruct l as [|p l]; [congruence|]. intros _. reflexivity. Qed.

(* ---------- weaken ---------- *)
Lemma len8 n : Z.to_nat (8 * Z.of_nat n / 8) = n.
Proof. replace (8 * Z.of_nat n) with (Z.of_nat n * 8) by lia. rewrite Z.div_mul by lia. apply Nat2Z.id. Qed.
Lemma len4 n : Z.to_nat (4 * Z.of_nat n / 4) = n.
Proof. replace (4 * Z.of_nat n) with (Z.of_nat n * 4) by lia. rewrite Z.div_mul by lia. apply Nat2Z.id. Qed.

Lemma sim_weaken c a to w a' calls :
  R c a -> astep a (OWeaken to w) = Some (a', calls) ->
  exists c', cstep c (OWeaken to w) = Ok (c', calls) /\ R c' a'.
Proof.
  intros HR Hs. cbn [astep cstep] in *. pose proof (R_ends _ _ HR) as [He1 He2]. pose proof HR as HR0. dR HR.
  pose proof HDR_pos.
  destruct (afrozen a || (hkind a =? MIN) || negb ((to =? 0) || (to =? 1) || (to =? 2))) eqn:Ec; [discriminate|].
  apply orb_false_iff in Ec. destruct Ec as [Ec Eto]. apply orb_false_iff in Ec. destruct Ec as [Ef Emin].
  apply negb_false_iff in Eto.
  unfold cweaken.
  destruct (abody a) as [[[bk bb] bl]|] eqn:Eb.
  2:{ inversion Hs; subst a' calls; clear Hs. cbn in Hb. rewrite Hb. cbn. rewrite Z.eqb_refl. cbn.
      eexists; split; [reflexivity | exact HR0]. }
  pose proof (body_ok_bounds _ _ _ _ Hb) as (B1 & B2 & B3).
  cbn in Hb. destruct Hb as (Hb1 & Hb2 & Hb3). rewrite Hb1.
  destruct ((bk =? 0) || (bk =? to)) eqn:Ek.
  { inversion Hs; subst a' calls; clear Hs. cbn. eexists; split; [reflexivity | exact HR0]. }
  apply orb_false_iff in Ek. destruct Ek as [Ek0 Ekt]. rewrite Ek0 in Hb3.
  destruct Hb3 as (Hk & Hb4 & Hb5 & Hb6).
  assert (Hsl : slot (bd c) = mbeg (bd c) - 4) by (unfold slot; rewrite Hb1, Ek0; reflexivity).
  assert (Hn : Z.to_nat (slen (bd c) / 8) = length bl).
  { unfold slen. rewrite Hb4. replace (mbeg (bd c) + 8 * Z.of_nat (length bl) - mbeg (bd c)) with (8 * Z.of_nat (length bl)) by lia.
    apply len8. }
  (* the head lies outside [slot, mend) of the body *)
  assert (Hdis : forall o, mbeg (hd c) <= o < mend (hd c) -> o < mbeg (bd c) - 4 \/ mend (bd c) <= o).
  { intros o Ho. unfold layout_ok in Hl. rewrite Eb in Hl. destruct (ahead a) as [[hk hl]|].
    - destruct (blast a); lia.
    - cbn in Hh. rewrite Hh in Ho. cbn in Ho. lia. }
  cbn. rewrite Hn.
  destruct (to =? 0) eqn:Et0.
  - (* to Normal: compaction onto the bound slot *)
    inversion Hs; subst a' calls; clear Hs.
    eexists; split; [reflexivity|].
    set (i := mbeg (bd c) - 4). set (n := length bl).
    destruct (compact_spec n (mem c) (mbeg (bd c)) i ltac:(unfold i; lia)) as [C1 C2].
    splitR.
    + eapply head_ok_rng; eauto. cbn. intros o Ho. apply C2. specialize (Hdis o Ho). unfold i, n. lia.
    + cbn. unfold slot; cbn. rewrite Z.eqb_refl. rewrite ones_length, ones_fst, ones_ones.
      repeat split; try (unfold i; lia).
      rewrite compact_rdw by (unfold i; lia). fold n. unfold n. rewrite Hb5. reflexivity.
    + unfold layout_ok in *; cbn. rewrite Eb in Hl. unfold slot; cbn. rewrite Z.eqb_refl.
      destruct (ahead a) as [[hk hl]|].
      * pose proof (head_ok_bounds _ _ _ Hh). destruct (blast a); unfold i, n; lia.
      * cbn in Hh. rewrite Hh. cbn. unfold i, n. lia.
  - assert (Hslen : (slen (bd c) =? 0) = Nat.eqb (length bl) 0).
    { unfold slen. rewrite Hb4. destruct bl; cbn [length Nat.eqb].
      - destruct (Z.eqb_spec (mbeg (bd c) + 8 * Z.of_nat 0 - mbeg (bd c)) 0); [reflexivity | lia].
      - destruct (Z.eqb_spec (mbeg (bd c) + 8 * Z.of_nat (S (length bl)) - mbeg (bd c)) 0); [lia | reflexivity]. }
    rewrite Hslen.
    destruct ((to =? 2) && w && negb (Nat.eqb (length bl) 0)) eqn:Ecnt.
    + (* to Count with reset of the weights *)
      apply andb_true_iff in Ecnt. destruct Ecnt as [Ecnt Hne]. apply andb_true_iff in Ecnt. destruct Ecnt as [Et2 Hw].
      apply Z.eqb_eq in Et2. subst to.
      destruct bl as [|p0 bl0] eqn:Ebl; [discriminate|]. rewrite <- Ebl in *.
      destruct (wk_count_spec (length bl) (mem c) (mbeg (bd c)) (mem c (mbeg (bd c) + 4))) as (W1 & W2 & W3).
      destruct (wk_count (mem c) (mbeg (bd c)) (length bl) (mem c (mbeg (bd c) + 4))) as [m' mn] eqn:Ewk.
      cbn [fst snd] in W1, W2, W3.
      assert (Hmn : mn = wmin bl).
      { rewrite W1, Hb5. rewrite wmin_rdwl by (rewrite Ebl; discriminate). f_equal.
        rewrite <- Hb5 at 1. rewrite Ebl. cbn [length]. rewrite rdwl_cons. reflexivity. }
      rewrite Hb6, Hmn.
      destruct (wk_bound bb (wmin bl)) as [q|]; [|discriminate].
      inversion Hs; subst a' calls; clear Hs.
      rewrite Hfz, Ef.
      eexists; split; [reflexivity|].
      splitR.
      * eapply head_ok_rng; eauto. cbn. intros o Ho. specialize (Hdis o Ho).
        rewrite upd_other by lia. apply W3. lia.
      * cbn. unfold slot; cbn. destruct (Z.eqb_spec 2 0); [lia|]. rewrite ones_length.
        repeat split; try lia.
        -- etransitivity; [apply rdwl_ext; intros o Ho; apply upd_other; lia|]. rewrite W2, Hb5. reflexivity.
        -- apply upd_same.
      * unfold layout_ok in *; cbn. rewrite Eb in Hl. unfold slot in *; cbn. rewrite Hb1, Ek0 in Hl.
        destruct (Z.eqb_spec 2 0); [lia|]. exact Hl.
    + (* only the kind changes *)
      inversion Hs; subst a' calls; clear Hs.
      eexists; split; [reflexivity|].
      assert (Hto : to = 1 \/ to = 2).
      { apply orb_true_iff in Eto. destruct Eto as [Eto|Eto]; [apply orb_true_iff in Eto; destruct Eto as [Eto|Eto]|].
        - rewrite Eto in Et0. discriminate.
        - apply Z.eqb_eq in Eto. lia.
        - apply Z.eqb_eq in Eto. lia. }
      splitR.
      * eapply head_ok_eq; eauto.
      * cbn. unfold slot; cbn. rewrite Et0. repeat split; try assumption; lia.
      * unfold layout_ok in *; cbn. rewrite Eb in Hl. unfold slot in *; cbn. rewrite Hb1, Ek0 in Hl. rewrite Et0. exact Hl.
Qed.

(* ---------- queries ---------- *)
Lemma q_hkind c a : R c a -> styp (hd c) = hkind a.
Proof. intro HR. dR HR. unfold hkind. destruct (ahead a) as [[k l]|]; cbn in Hh; [tauto | now rewrite Hh]. Qed.
Lemma q_bkind c a : R c a -> q_btype c = bkind a.
Proof. intro HR. dR HR. unfold bkind, q_btype. destruct (abody a) as [[[k b] l]|]; cbn in Hb; [tauto | now rewrite Hb]. Qed.
Lemma q_head_R c a : R c a -> q_head c = hatoms a.
Proof.
  intro HR. dR HR. unfold hatoms, q_head, slen. destruct (ahead a) as [[k l]|]; cbn in Hh.
  - destruct Hh as (H1 & H2 & H3 & H4). rewrite H2.
    replace (mbeg (hd c) + 4 * Z.of_nat (length l) - mbeg (hd c)) with (4 * Z.of_nat (length l)) by lia.
    rewrite len4. exact H4.
  - rewrite Hh. reflexivity.
Qed.
Lemma q_bound_R c a : R c a -> q_bound c = bbound a.
Proof.
  intro HR. dR HR. unfold bbound, q_bound. destruct (abody a) as [[[k b] l]|]; cbn in Hb.
  - destruct Hb as (H1 & H2 & H3). rewrite H1. destruct (k =? 0); [symmetry|]; tauto.
  - rewrite Hb. reflexivity.
Qed.
Lemma q_body_R c a : R c a -> bkind a = 0 -> q_body c = map fst (blits a).
Proof.
  intros HR Hk. dR HR. unfold blits, bkind, q_body, slen in *. destruct (abody a) as [[[k b] l]|]; cbn in Hb.
  - subst k. destruct Hb as (H1 & H2 & H3). rewrite Z.eqb_refl in H3. destruct H3 as (H3 & H4 & H5 & H6). rewrite H3.
    replace (mbeg (bd c) + 4 * Z.of_nat (length l) - mbeg (bd c)) with (4 * Z.of_nat (length l)) by lia.
    rewrite len4. exact H4.
  - rewrite Hb. reflexivity.
Qed.
Lemma q_wlits_R c a : R c a -> bkind a <> 0 -> q_wlits c = blits a.
Proof.
  intros HR Hk. dR HR. unfold blits, bkind, q_wlits, slen in *. destruct (abody a) as [[[k b] l]|]; cbn in Hb; [|congruence].
  destruct Hb as (H1 & H2 & H3). destruct (Z.eqb_spec k 0); [contradiction|]. destruct H3 as (H3 & H4 & H5 & H6). rewrite H4.
  replace (mbeg (bd c) + 8 * Z.of_nat (length l) - mbeg (bd c)) with (8 * Z.of_nat (length l)) by lia.
  rewrite len8. exact H5.
Qed.
Lemma q_slotval_R c a : R c a -> bkind a <> 0 -> mem c (mbeg (bd c) - 4) = bbound a.
Proof.
  intros HR Hk. rewrite <- (q_bound_R c a HR). unfold q_bound. rewrite <- (q_bkind c a HR) in Hk. unfold q_btype in Hk.
  destruct (Z.eqb_spec (styp (bd c)) 0); [contradiction | reflexivity].
Qed.

Lemma cquery_R c a full : R c a -> cquery c full = aquery a full.
Proof.
  intro HR. unfold cquery, aquery.
  rewrite (q_head_R c a HR), (q_bkind c a HR), (q_bound_R c a HR), (q_hkind c a HR).
  destruct (Z.eqb_spec (bkind a) 0) as [Hk|Hk].
  - rewrite (q_body_R c a HR Hk). unfold obs_body. rewrite Hk. cbn. reflexivity.
  - rewrite (q_wlits_R c a HR Hk). unfold obs_body. destruct (Z.eqb_spec (bkind a) 0); [contradiction|]. reflexivity.
Qed.

(* ---------- end ---------- *)
Lemma sim_end c a out thr a' calls :
  R c a -> astep a (OEnd out thr) = Some (a', calls) ->
  exists c', cstep c (OEnd out thr) = Ok (c', calls) /\ R c' a'.
Proof.
  intros HR Hs. cbn [astep cstep] in *.
  assert (HR' : R (set_fix c true) (mkA true (ahead a) (abody a) (blast a))).
  { dR HR. splitR; cbn; auto. }
  unfold cend. destruct out; cbn [negb] in *.
  2:{ inversion Hs; subst a' calls. eexists; split; [reflexivity | exact HR']. }
  rewrite (q_hkind c a HR). pose proof (q_bkind c a HR) as Hbk. unfold q_btype in Hbk. rewrite Hbk.
  destruct ((hkind a =? MIN) && (bkind a =? 0)) eqn:Ec; [discriminate|]. inversion Hs; subst a' calls; clear Hs.
  unfold acall. rewrite (q_head_R c a HR).
  destruct (hkind a =? MIN) eqn:Em; cbn [negb andb] in *.
  - rewrite Ec. assert (Hk : bkind a <> 0) by (intro E; rewrite E in Ec; discriminate).
    rewrite (q_wlits_R c a HR Hk), (q_slotval_R c a HR Hk). eexists; split; [reflexivity | exact HR'].
  - destruct (Z.eqb_spec (bkind a) 0) as [Hk|Hk].
    + rewrite (q_body_R c a HR Hk). eexists; split; [reflexivity | exact HR'].
    + rewrite (q_wlits_R c a HR Hk), (q_slotval_R c a HR Hk). eexists; split; [reflexivity | exact HR'].
Qed.

(* ---------- the step theorem ---------- *)
Theorem sim_step c a o a' calls :
  R c a -> astep a o = Some (a', calls) ->
  exists c', cstep c o = Ok (c', calls) /\ R c' a'.
Proof.
  intros HR Hs. destruct o.
  - eapply sim_start; eauto.
  - eapply sim_startMin; eauto.
  - eapply sim_startBody; eauto.
  - eapply sim_startSum; eauto.
  - eapply sim_setBound; eauto.
  - eapply sim_addHead; eauto.
  - eapply sim_addGoal; eauto.
  - eapply sim_end; eauto.
  - cbn in *. inversion Hs; subst. eexists; split; [reflexivity | eapply R_clear; eauto].
  - eapply sim_clearBody; eauto.
  - eapply sim_clearHead; eauto.
  - eapply sim_weaken; eauto.
Qed.
