(* C11 - part 6: end(out) with a receiver that may throw.  end() freezes FIRST and hands the rule over afterwards, so
   after end - whether or not the receiver throws - the builder is frozen, every view still returns the finished rule,
   and the next start* operation begins from an empty rule: nothing of the finished (possibly refused) rule is inherited. *)
Require Import V.Lib.Base V.Lib.Calls V.Gen.Consts_C11 V.C11.Model V.C11.Spec
        V.C11.Proofs V.C11.Proofs2 V.C11.Proofs3 V.C11.Proofs4 V.C11.Proofs5.
Local Open Scope Z_scope.

Definition is_start (o : op) : bool :=
  match o with OStart _ | OStartMin _ | OStartBody | OStartSum _ => true | _ => false end.

(* the throw flag is invisible in state and call *)
Lemma end_thr_irrelevant c out thr1 thr2 : cstep c (OEnd out thr1) = cstep c (OEnd out thr2).
Proof. reflexivity. Qed.
Lemma aend_thr_irrelevant a out thr1 thr2 : astep a (OEnd out thr1) = astep a (OEnd out thr2).
Proof. reflexivity. Qed.

Lemma astep_end_shape a out thr a' calls :
  astep a (OEnd out thr) = Some (a', calls) ->
  a' = mkA true (ahead a) (abody a) (blast a) /\ calls = (if out then [acall a] else []).
Proof.
  intro H. cbn [astep] in H. destruct out; cbn [negb] in H.
  - destruct ((hkind a =? MIN) && (bkind a =? 0)); [discriminate|]. inversion H; subst. auto.
  - inversion H; subst. auto.
Qed.

Lemma frozen_start_fresh a s : afrozen a = true -> is_start s = true -> astep a s = astep anew s.
Proof.
  intros Hf Hs. destruct s; try discriminate; cbn [astep]; unfold areset; rewrite Hf; reflexivity.
Qed.

Theorem end_freezes c a out thr a' calls :
  R c a -> astep a (OEnd out thr) = Some (a', calls) ->
  exists c', cstep c (OEnd out thr) = Ok (c', calls) /\ R c' a' /\
    frz c' = true /\ afrozen a' = true /\
    calls = (if out then [acall a] else []) /\
    q_head c' = hatoms a /\ styp (hd c') = hkind a /\ q_btype c' = bkind a /\ q_bound c' = bbound a /\
    (bkind a = 0 -> q_body c' = map fst (blits a)) /\ (bkind a <> 0 -> q_wlits c' = blits a) /\
    (forall full, cquery c' full = aquery a full) /\ (forall full, cquery c' full = cquery c full) /\
    (forall s, is_start s = true -> astep a' s = astep anew s) /\
    (forall s a2 k, is_start s = true -> astep anew s = Some (a2, k) -> exists c2, cstep c' s = Ok (c2, k) /\ R c2 a2).
Proof.
  intros HR Hs. destruct (sim_end _ _ _ _ _ _ HR Hs) as (c' & Ec & HR').
  destruct (astep_end_shape _ _ _ _ _ Hs) as [Ea' Ecalls].
  assert (Hfa : afrozen a' = true) by (subst a'; reflexivity).
  assert (Hfc : frz c' = true) by (destruct HR' as (Hf & _); rewrite Hf; exact Hfa).
  assert (Hq : forall full, cquery c' full = aquery a full).
  { intro full. rewrite (cquery_R _ _ full HR'). subst a'. reflexivity. }
  exists c'. split; [exact Ec|]. split; [exact HR'|]. split; [exact Hfc|]. split; [exact Hfa|]. split; [exact Ecalls|].
  split; [rewrite (q_head_R _ _ HR'); subst a'; reflexivity|].
  split; [rewrite (q_hkind _ _ HR'); subst a'; reflexivity|].
  split; [rewrite (q_bkind _ _ HR'); subst a'; reflexivity|].
  split; [rewrite (q_bound_R _ _ HR'); subst a'; reflexivity|].
  split; [intro Hk; rewrite (q_body_R _ _ HR') by (subst a'; exact Hk); subst a'; reflexivity|].
  split; [intro Hk; rewrite (q_wlits_R _ _ HR') by (subst a'; exact Hk); subst a'; reflexivity|].
  split; [exact Hq|].
  split; [intro full; rewrite Hq, (cquery_R _ _ full HR); reflexivity|].
  split; [intros s Hst; apply frozen_start_fresh; assumption|].
  intros s a2 k Hst Ha. apply (sim_step c' a' s a2 k HR'). rewrite (frozen_start_fresh _ _ Hfa Hst). exact Ha.
Qed.

(* ---------- the next rule after a frozen (or empty) builder: only a head / only a body ---------- *)
Lemma describe_head_only a ht hs :
  fresh a -> ht = 0 \/ ht = 1 ->
  asteps a (describe_head ht hs) = Some (mkA false (Some (ht, hs)) None false, []).
Proof.
  intros Hf Hht. destruct (fresh_reset a Hf) as [bl Hr].
  assert (Hm : (ht =? MIN) = false) by (rewrite MIN_val; destruct Hht; subst; reflexivity).
  assert (Hht' : (ht =? 0) || (ht =? 1) = true) by (destruct Hht; subst; reflexivity).
  unfold describe_head. cbn [asteps astep]. rewrite Hr. cbn [ahead abody]. rewrite Hht'.
  rewrite asteps_addHeads by (auto). cbn. reflexivity.
Qed.

Lemma describe_body_only a bs k b ls :
  fresh a -> body_start_ok bs k b ->
  asteps a (describe_body bs ls) = Some (mkA false None (Some (k, b, kept k ls)) true, []).
Proof.
  intros Hf Hbs. destruct (fresh_reset a Hf) as [bl Hr].
  unfold describe_body. cbn [asteps].
  destruct Hbs as [(-> & -> & ->) | (-> & ->)]; cbn [astep]; rewrite Hr; cbn [abody ahead hkind].
  - destruct (0 =? MIN) eqn:E0; [rewrite MIN_val in E0; discriminate|].
    rewrite asteps_addGoals by reflexivity. reflexivity.
  - rewrite asteps_addGoals by reflexivity. reflexivity.
Qed.

Theorem next_head_only c a ht hs thr :
  R c a -> fresh a -> ht = 0 \/ ht = 1 ->
  exists c1, csteps c (describe_head ht hs ++ [OEnd true thr]) = Ok (c1, [CRule ht hs []]) /\
    q_head c1 = hs /\ styp (hd c1) = ht /\ q_btype c1 = 0 /\ q_bound c1 = -1 /\ q_body c1 = [].
Proof.
  intros HR Hf Hht.
  assert (Hm : (ht =? MIN) = false) by (rewrite MIN_val; destruct Hht; subst; reflexivity).
  assert (E : asteps a (describe_head ht hs ++ [OEnd true thr])
              = Some (mkA true (Some (ht, hs)) None false, [] ++ [CRule ht hs []])).
  { eapply asteps_app; [exact (describe_head_only a ht hs Hf Hht)|].
    cbn [asteps astep negb hkind bkind ahead abody]. rewrite Hm. cbn [andb].
    unfold acall. cbn [hkind bkind ahead abody hatoms blits]. rewrite Hm. cbn. reflexivity. }
  cbn [app] in E. destruct (sim_steps _ _ _ _ _ HR E) as (c1 & Ec & HR1).
  exists c1. split; [exact Ec|].
  rewrite (q_head_R _ _ HR1), (q_hkind _ _ HR1), (q_bkind _ _ HR1), (q_bound_R _ _ HR1), (q_body_R _ _ HR1) by reflexivity.
  cbn. auto.
Qed.

Theorem next_body_only c a bs k b ls thr :
  R c a -> fresh a -> body_start_ok bs k b ->
  exists c1, csteps c (describe_body bs ls ++ [OEnd true thr]) = Ok (c1, [described 0 [] k b ls]) /\
    q_head c1 = [] /\ q_btype c1 = k /\ q_bound c1 = b /\
    (if k =? 0 then q_body c1 = map fst (kept k ls) else q_wlits c1 = kept k ls).
Proof.
  intros HR Hf Hbs.
  assert (Hk : k = 0 \/ k = 1) by (destruct Hbs as [(_ & -> & _) | (_ & ->)]; auto).
  assert (H0 : (0 =? MIN) = false) by (rewrite MIN_val; reflexivity).
  assert (E : asteps a (describe_body bs ls ++ [OEnd true thr])
              = Some (mkA true None (Some (k, b, kept k ls)) true, [] ++ [described 0 [] k b ls])).
  { eapply asteps_app; [exact (describe_body_only a bs k b ls Hf Hbs)|].
    cbn [asteps astep negb hkind bkind ahead abody]. rewrite H0. cbn [andb].
    unfold acall, described. cbn [hkind bkind bbound ahead abody hatoms blits]. rewrite H0.
    destruct Hk; subst k; reflexivity. }
  cbn [app] in E. destruct (sim_steps _ _ _ _ _ HR E) as (c1 & Ec & HR1).
  exists c1. split; [exact Ec|].
  rewrite (q_head_R _ _ HR1), (q_bkind _ _ HR1), (q_bound_R _ _ HR1). cbn. repeat split.
  destruct Hk; subst k.
  - cbn. rewrite (q_body_R _ _ HR1) by reflexivity. reflexivity.
  - cbn. rewrite (q_wlits_R _ _ HR1) by (cbn; lia). reflexivity.
Qed.

(* ---------- together: end (accepted or refused), then the next rule ---------- *)
Theorem refused_end_then_next c a out thr a' calls :
  R c a -> astep a (OEnd out thr) = Some (a', calls) ->
  exists c', cstep c (OEnd out thr) = Ok (c', calls) /\ R c' a' /\ fresh a' /\
    (forall ht hs thr2, ht = 0 \/ ht = 1 ->
       exists c1, csteps c' (describe_head ht hs ++ [OEnd true thr2]) = Ok (c1, [CRule ht hs []]) /\
         q_head c1 = hs /\ q_btype c1 = 0 /\ q_body c1 = []) /\
    (forall bs k b ls thr2, body_start_ok bs k b ->
       exists c1, csteps c' (describe_body bs ls ++ [OEnd true thr2]) = Ok (c1, [described 0 [] k b ls]) /\
         q_head c1 = [] /\ q_btype c1 = k /\ q_bound c1 = b /\
         (if k =? 0 then q_body c1 = map fst (kept k ls) else q_wlits c1 = kept k ls)) /\
    (forall ht hs bs k b ls thr2, ht = 0 \/ ht = 1 -> body_start_ok bs k b ->
       exists c1 c2,
         csteps c' (describe_head ht hs ++ describe_body bs ls ++ [OEnd true thr2]) = Ok (c1, [described ht hs k b ls]) /\
         csteps c' (describe_body bs ls ++ describe_head ht hs ++ [OEnd true thr2]) = Ok (c2, [described ht hs k b ls]) /\
         cquery c1 true = cquery c2 true /\ q_head c1 = hs /\ q_btype c1 = k /\ q_bound c1 = b /\
         (if k =? 0 then q_body c1 = map fst (kept k ls) else q_wlits c1 = kept k ls)).
Proof.
  intros HR Hs. destruct (sim_end _ _ _ _ _ _ HR Hs) as (c' & Ec & HR').
  destruct (astep_end_shape _ _ _ _ _ Hs) as [Ea' _].
  assert (Hfr : fresh a') by (left; subst a'; reflexivity).
  exists c'. split; [exact Ec|]. split; [exact HR'|]. split; [exact Hfr|]. split; [|split].
  - intros ht hs thr2 Hht. destruct (next_head_only c' a' ht hs thr2 HR' Hfr Hht) as (c1 & E1 & Q1 & _ & Q2 & _ & Q3).
    exists c1. auto.
  - intros bs k b ls thr2 Hbs. exact (next_body_only c' a' bs k b ls thr2 HR' Hfr Hbs).
  - intros ht hs bs k b ls thr2 Hht Hbs. exact (order_independent c' a' ht hs bs k b ls thr2 HR' Hfr Hht Hbs).
Qed.
