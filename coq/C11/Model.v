(* C11 - executable CONCRETE model of Potassco::RuleBuilder (src/rule_utils.cpp) on top of
   Potassco::MemoryRegion (src/match_basic_types.cpp).

   One builder = one memory block.  The block is modelled as
     mem   : byte offset -> 32 bit cell   (every element the builder stores is 4 bytes wide, a weight literal is two cells;
                                            tools/consts/C11.py reports a problem when that stops being true)
     size  = mem_.size()  (end_ - beg_),  alloc = the number of bytes handed to realloc (size <= alloc)
   and the header `struct RuleBuilder::Rule` that lives in the first RB_HDR bytes of the block as record fields
     top, frz (= fix), head = (mbeg, mend, type), body = (mbeg, mend, type)
   (exactly the fields of the struct; RB_HDR = sizeof(Rule) is computed by the translator from the bit-field widths).
   MemoryRegion::grow is modelled as realloc: a fresh block (content JUNK) that receives the first min(old alloc, new alloc)
   bytes of the old one.  POTASSCO_ASSERT is `Err E_ASSERT`.  A store outside [RB_HDR, size) sets `fault` (never happens
   from states satisfying the invariant: Proofs.v).  The 31/30 bit header fields are assumed not to overflow (rule < 2^30 bytes).

   Definitions only; the abstract specification is in Spec.v, the proofs in Proofs*.v.                                        *)
Require Import V.Lib.Base V.Lib.Calls V.Gen.Consts_C11.
Local Open Scope Z_scope.

Definition HDR : Z := RB_HDR.
Definition MIN : Z := RB_MINIMIZE.
Definition JUNK : Z := 3200171710.
Definition E_ASSERT : Z := 1.   (* std::logic_error thrown by POTASSCO_ASSERT *)
Definition E_UB : Z := 2.       (* signed overflow / division trap in weaken(): outside the protocol, never generated *)
Definition INT_MIN : Z := -2147483648.
Definition INT_MAX : Z := 2147483647.

Inductive res (A : Type) := Ok (a : A) | Err (code : Z).
Arguments Ok {A}. Arguments Err {A}.

Record span := mkSpan { mbeg : Z; mend : Z; styp : Z }.
Definition sp0 : span := mkSpan 0 0 0.                       (* Span::init(0, 0) *)
Definition slen (s : span) : Z := mend s - mbeg s.           (* Span::len() *)

Record cst := mkC { top : Z; frz : bool; hd : span; bd : span; size : Z; alloc : Z; mem : Z -> Z; fault : bool }.

Definition upd (m : Z -> Z) (o v : Z) : Z -> Z := fun x => if x =? o then v else m x.
Definition blockcopy (m : Z -> Z) (k : Z) : Z -> Z := fun x => if x <? k then m x else JUNK.

Definition set_top (c : cst) (t : Z) := mkC t (frz c) (hd c) (bd c) (size c) (alloc c) (mem c) (fault c).
Definition set_fix (c : cst) (f : bool) := mkC (top c) f (hd c) (bd c) (size c) (alloc c) (mem c) (fault c).
Definition set_hd (c : cst) (s : span) := mkC (top c) (frz c) s (bd c) (size c) (alloc c) (mem c) (fault c).
Definition set_bd (c : cst) (s : span) := mkC (top c) (frz c) (hd c) s (size c) (alloc c) (mem c) (fault c).
Definition set_mem (c : cst) (m : Z -> Z) := mkC (top c) (frz c) (hd c) (bd c) (size c) (alloc c) m (fault c).
Definition set_fault (c : cst) := mkC (top c) (frz c) (hd c) (bd c) (size c) (alloc c) (mem c) true.

(* placement new of a 4 byte object at offset o *)
Definition store (c : cst) (o v : Z) : cst :=
  if (HDR <=? o) && (o + 4 <=? size c) then set_mem c (upd (mem c) o v) else set_fault c.

(* void MemoryRegion::grow(std::size_t n) *)
Definition grow (c : cst) (n : Z) : cst :=
  if n >? size c then
    let nc := Z.max n (Z.shiftr (size c * RB_GROW_MUL) RB_GROW_SHIFT) in
    mkC (top c) (frz c) (hd c) (bd c) (if RB_GROW_SIZE_IS_REQUEST =? 1 then n else nc) nc
        (blockcopy (mem c) (Z.min (alloc c) nc)) (fault c)
  else c.

(* template <class T> Rule* push(MemoryRegion& m, Rule* r, const T& what):  T = Atom_t / Lit_t / Weight_t *)
Definition push1 (c : cst) (v : Z) : cst :=
  let t := top c in let nt := t + 4 in
  let c1 := if nt >? size c then grow c nt else c in
  set_top (store c1 t v) nt.
(* T = WeightLit_t *)
Definition push2 (c : cst) (v w : Z) : cst :=
  let t := top c in let nt := t + 8 in
  let c1 := if nt >? size c then grow c nt else c in
  set_top (store (store c1 t v) (t + 4) w) nt.

(* RuleBuilder::RuleBuilder() : mem_(cap) { new (mem_.begin()) Rule(); }   (cap = RB_INIT_SIZE in the code) *)
Definition cnew (cap : Z) : cst := mkC HDR false sp0 sp0 cap cap (fun _ => JUNK) (negb (HDR <=? cap)).
(* clear(): new (mem_.begin()) Rule() *)
Definition cclear (c : cst) : cst := mkC HDR false sp0 sp0 (size c) (alloc c) (mem c) (fault c).
(* RuleBuilder(const RuleBuilder& other): mem_.grow(other.top); memcpy(mem_.begin(), other.mem_.begin(), other.top) *)
Definition ccopy (c : cst) : cst :=
  mkC (top c) (frz c) (hd c) (bd c) (top c) (top c) (blockcopy (mem c) (top c)) (fault c).

Definition unfreeze (discard : bool) (c : cst) : cst :=
  if frz c then (if discard then cclear c else set_fix c false) else c.

Definition cstart (ht : Z) (c0 : cst) : res cst :=
  let c := unfreeze true c0 in
  if negb (mbeg (hd c) =? 0) && negb (slen (hd c) =? 0) then Err E_ASSERT
  else Ok (set_hd c (mkSpan (top c) (top c) ht)).

Definition caddHead (a : Z) (c : cst) : res cst :=
  if frz c then Err E_ASSERT else
  let c1 := if mend (hd c) =? 0 then set_hd c (mkSpan (top c) (top c) 0) else c in
  if negb (mbeg (hd c1) >=? mend (bd c1)) then Err E_ASSERT else
  let c2 := push1 c1 a in
  Ok (set_hd c2 (mkSpan (mbeg (hd c2)) (top c2) (styp (hd c2)))).

Definition cclearHead (c0 : cst) : cst :=
  let c := unfreeze false c0 in
  set_hd (set_top c (Z.max (mend (bd c)) HDR)) sp0.

Definition cstartBody (bt bnd : Z) (c0 : cst) : res cst :=
  let c := unfreeze true c0 in
  if mend (bd c) =? 0 then
    let c1 := if negb (bt =? 0) then push1 c bnd else c in
    Ok (set_bd c1 (mkSpan (top c1) (top c1) bt))
  else if slen (bd c) =? 0 then Ok c else Err E_ASSERT.

Definition cstartMin (prio : Z) (c0 : cst) : res cst :=
  let c := unfreeze true c0 in
  if negb ((mbeg (hd c) =? 0) && (mbeg (bd c) =? 0)) then Err E_ASSERT else
  let c1 := set_hd c (mkSpan (top c) (top c) MIN) in
  let c2 := push1 c1 prio in
  Ok (set_bd c2 (mkSpan (top c2) (top c2) 1)).

Definition caddGoal (l w : Z) (c : cst) : res cst :=
  if frz c then Err E_ASSERT else
  let c1 := if mbeg (bd c) =? 0 then set_bd c (mkSpan (top c) (top c) 0) else c in
  if negb (mbeg (bd c1) >=? mend (hd c1)) then Err E_ASSERT else
  if w =? 0 then Ok c1 else
  let c2 := if styp (bd c1) =? 0 then push1 c1 l else push2 c1 l w in
  Ok (set_bd c2 (mkSpan (mbeg (bd c2)) (top c2) (styp (bd c2)))).

Definition csetBound (b : Z) (c : cst) : res cst :=
  if frz c || (styp (bd c) =? 0) then Err E_ASSERT else Ok (store c (mbeg (bd c) - 4) b).

Definition cclearBody (c0 : cst) : cst :=
  let c := unfreeze false c0 in
  set_bd (set_top c (Z.max (mend (hd c)) HDR)) sp0.

(* weaken(Normal): for (; bIt != bEnd; ++bIt, i += sizeof(Lit_t)) new (mem_[i]) Lit_t(bIt->lit);   (in place) *)
Fixpoint compact (m : Z -> Z) (rd wr : Z) (n : nat) : Z -> Z :=
  match n with
  | O => m
  | S k => compact (upd m wr (m rd)) (rd + 8) (wr + 4) k
  end.
(* weaken(Count): for (; bIt != bEnd; ++bIt) { if (min > bIt->weight) min = bIt->weight; bIt->weight = 1; } *)
Fixpoint wk_count (m : Z -> Z) (p : Z) (n : nat) (mn : Z) : (Z -> Z) * Z :=
  match n with
  | O => (m, mn)
  | S k => let w := m (p + 4) in wk_count (upd m (p + 4) 1) (p + 8) k (if mn >? w then w else mn)
  end.
Definition in_int (x : Z) : bool := (INT_MIN <=? x) && (x <=? INT_MAX).
(* (bnd+(min-1))/min in int arithmetic; None = signed overflow or division trap *)
Definition wk_bound (bnd mn : Z) : option Z :=
  if in_int (mn - 1) && in_int (bnd + (mn - 1)) && negb (mn =? 0) && negb ((bnd + (mn - 1) =? INT_MIN) && (mn =? -1))
  then Some (Z.quot (bnd + (mn - 1)) mn) else None.

Definition cweaken (to : Z) (w : bool) (c : cst) : res cst :=
  let b := bd c in
  if (styp b =? 0) || (styp b =? to) then Ok c else
  let n := Z.to_nat (slen b / 8) in
  if to =? 0 then
    let i := mbeg b - 4 in
    let e := i + 4 * Z.of_nat n in
    Ok (mkC (Z.max (mend (hd c)) e) (frz c) (hd c) (mkSpan i e 0) (size c) (alloc c) (compact (mem c) (mbeg b) i n) (fault c))
  else if (to =? 2) && w && negb (slen b =? 0) then
    let bnd := mem c (mbeg b - 4) in
    let '(m', mn) := wk_count (mem c) (mbeg b) n (mem c (mbeg b + 4)) in
    match wk_bound bnd mn with
    | None => Err E_UB
    | Some q =>
        if frz c then Err E_ASSERT   (* setBound() refuses a frozen rule - after the weights were rewritten *)
        else Ok (set_bd (set_mem c (upd m' (mbeg b - 4) q)) (mkSpan (mbeg b) (mend b) to))
    end
  else Ok (set_bd c (mkSpan (mbeg b) (mend b) to)).

(* span_cast<T>: element count = len / sizeof(T) *)
Definition rdw (m : Z -> Z) (p : Z) (n : nat) : list Z := map (fun i => m (p + 4 * Z.of_nat i)) (seq 0 n).
Definition rdwl (m : Z -> Z) (p : Z) (n : nat) : list (Z * Z) :=
  map (fun i => (m (p + 8 * Z.of_nat i), m (p + 8 * Z.of_nat i + 4))) (seq 0 n).
Definition q_head (c : cst) : list Z := rdw (mem c) (mbeg (hd c)) (Z.to_nat (slen (hd c) / 4)).
Definition q_body (c : cst) : list Z := rdw (mem c) (mbeg (bd c)) (Z.to_nat (slen (bd c) / 4)).
Definition q_wlits (c : cst) : list (Z * Z) := rdwl (mem c) (mbeg (bd c)) (Z.to_nat (slen (bd c) / 8)).
Definition q_btype (c : cst) : Z := styp (bd c).
Definition q_bound (c : cst) : Z := if styp (bd c) =? 0 then -1 else mem c (mbeg (bd c) - 4).

(* end(out): `r->fix = 1` is the FIRST statement; then the call is handed to out (the repaired code asserts that a minimize
   statement still has its sum body).  No statement of end() follows the call out->rule()/out->minimize(): a receiver that
   throws from it (OEnd true true) interrupts end() exactly there, so the builder state after the exception is the state at
   the call - c' = frozen, rule intact - and the receiver has seen the call.  Whether the receiver throws is therefore
   invisible in the resulting state and in the call; it only shows in the status the harness prints (`ostat`). *)
Definition cend (out : bool) (c : cst) : res (cst * list call) :=
  let c' := set_fix c true in
  if negb out then Ok (c', []) else
  if negb (styp (hd c) =? MIN) && (styp (bd c) =? 0) then Ok (c', [CRule (styp (hd c)) (q_head c) (q_body c)])
  else if styp (bd c) =? 0 then Err E_ASSERT
  else if negb (styp (hd c) =? MIN) then Ok (c', [CWRule (styp (hd c)) (q_head c) (mem c (mbeg (bd c) - 4)) (q_wlits c)])
  else Ok (c', [CMin (mem c (mbeg (bd c) - 4)) (q_wlits c)]).

(* ---- operations as data ---- *)
Inductive op :=
| OStart (ht : Z) | OStartMin (prio : Z) | OStartBody | OStartSum (b : Z) | OSetBound (b : Z)
| OAddHead (a : Z) | OAddGoal (l w : Z) | OEnd (out thr : bool) | OClear | OClearBody | OClearHead | OWeaken (to : Z) (w : bool).

Definition lift (r : res cst) : res (cst * list call) :=
  match r with Ok c => Ok (c, []) | Err e => Err e end.

Definition cstep (c : cst) (o : op) : res (cst * list call) :=
  match o with
  | OStart ht => lift (cstart ht c)
  | OStartMin p => lift (cstartMin p c)
  | OStartBody => lift (cstartBody 0 (-1) c)
  | OStartSum b => lift (cstartBody 1 b c)
  | OSetBound b => lift (csetBound b c)
  | OAddHead a => lift (caddHead a c)
  | OAddGoal l w => lift (caddGoal l w c)
  | OEnd out _ => cend out c
  | OClear => Ok (cclear c, [])
  | OClearBody => Ok (cclearBody c, [])
  | OClearHead => Ok (cclearHead c, [])
  | OWeaken to w => lift (cweaken to w c)
  end.

(* status printed for an operation that returned: 0, or 3 = "the receiver of end(out) threw and the exception propagated" *)
Definition ostat (o : op) : Z := match o with OEnd true true => 3 | _ => 0 end.

(* what the harness prints for a query: head(), head_end()-head_begin(), bodyType(), bound(), body()|sum(), and rule() *)
Definition obs_body (bt bound : Z) (lits : list Z) (wl : list (Z * Z)) : list Z :=
  if bt =? 0 then enc_list lits else bound :: enc_wlist wl.
Definition cquery (c : cst) (full : bool) : list Z :=
  let h := q_head c in
  let bt := q_btype c in
  enc_list h ++ [Z.of_nat (length h); bt; q_bound c]
  ++ (if bt =? 0 then enc_list (q_body c) ++ [Z.of_nat (length (q_body c))]
      else q_bound c :: enc_wlist (q_wlits c) ++ [Z.of_nat (length (q_wlits c))])
  ++ (if full then
        (if styp (hd c) =? MIN then [777]    (* static_cast<Head_t>(Minimize): assert(x <= eMax) aborts - never generated *)
         else styp (hd c) :: enc_list h ++ bt :: obs_body bt (q_bound c) (q_body c) (q_wlits c))
      else []).

(* ---- three builders, copy / assign / swap ---- *)
Record tri (A : Type) := mkT { t0 : A; t1 : A; t2 : A }.
Arguments mkT {A}. Arguments t0 {A}. Arguments t1 {A}. Arguments t2 {A}.
Definition getb {A} (t : tri A) (i : Z) : A := if i =? 0 then t0 t else if i =? 1 then t1 t else t2 t.
Definition setb {A} (t : tri A) (i : Z) (c : A) : tri A :=
  if i =? 0 then mkT c (t1 t) (t2 t) else if i =? 1 then mkT (t0 t) c (t2 t) else mkT (t0 t) (t1 t) c.

Inductive mop :=
| MOp (i : Z) (o : op) | MQuery (i : Z) (full : bool)
| MCopy (i j : Z)      (* b[j] = new copy of b[i] *)
| MAssign (i j : Z)    (* b[j] assigned from b[i]: copy and swap *)
| MSwap (i j : Z).     (* swap of b[i] and b[j] *)

Fixpoint run_mops (t : tri cst) (ops : list mop) : list Z :=
  match ops with
  | [] => []
  | MQuery i full :: r => cquery (getb t i) full ++ run_mops t r
  | MOp i o :: r =>
      match cstep (getb t i) o with
      | Ok (c', calls) => if fault c' then [777] else ostat o :: enc_calls calls ++ run_mops (setb t i c') r
      | Err e => [e]
      end
  | MCopy i j :: r => 0 :: run_mops (setb t j (ccopy (getb t i))) r
  | MAssign i j :: r => 0 :: run_mops (setb t j (ccopy (getb t i))) r
  | MSwap i j :: r => let ci := getb t i in let cj := getb t j in 0 :: run_mops (setb (setb t i cj) j ci) r
  end.

Definition run (cap : Z) (ops : list mop) : list Z :=
  run_mops (mkT (cnew cap) (cnew cap) (cnew cap)) ops.

(* ---- case decoding (same numbering as harness/h_c11.cpp) ---- *)
Definition wrapu (x : Z) : Z := x mod 4294967296.
Definition wraps (x : Z) : Z := let y := x mod 4294967296 in if y <? 2147483648 then y else y - 4294967296.
Definition idx (v : Z) : Z := v mod 3.

Fixpoint decode (fuel : nat) (l : list Z) : list mop :=
  match fuel with
  | O => []
  | S f =>
      match l with
      | 1 :: i :: ht :: r => MOp (idx i) (OStart (if ht =? 1 then 1 else 0)) :: decode f r
      | 2 :: i :: p :: r => MOp (idx i) (OStartMin (wraps p)) :: decode f r
      | 3 :: i :: r => MOp (idx i) OStartBody :: decode f r
      | 4 :: i :: b :: r => MOp (idx i) (OStartSum (wraps b)) :: decode f r
      | 5 :: i :: b :: r => MOp (idx i) (OSetBound (wraps b)) :: decode f r
      | 6 :: i :: a :: r => MOp (idx i) (OAddHead (wrapu a)) :: decode f r
      | 7 :: i :: x :: w :: r => MOp (idx i) (OAddGoal (wraps x) (wraps w)) :: decode f r
      | 17 :: i :: x :: r => MOp (idx i) (OAddGoal (wraps x) 1) :: decode f r
      | 8 :: i :: o :: r => MOp (idx i) (OEnd (negb (o =? 0)) (o =? 2)) :: decode f r
      | 9 :: i :: r => MOp (idx i) OClear :: decode f r
      | 10 :: i :: r => MOp (idx i) OClearBody :: decode f r
      | 11 :: i :: r => MOp (idx i) OClearHead :: decode f r
      | 12 :: i :: to :: w :: r =>
          MOp (idx i) (OWeaken (if to =? 0 then 0 else if to =? 1 then 1 else 2) (negb (w =? 0))) :: decode f r
      | 13 :: i :: fl :: r => MQuery (idx i) (negb (fl =? 0)) :: decode f r
      | 14 :: i :: j :: r => MCopy (idx i) (idx j) :: decode f r
      | 15 :: i :: j :: r => MAssign (idx i) (idx j) :: decode f r
      | 16 :: i :: j :: r => MSwap (idx i) (idx j) :: decode f r
      | _ => []
      end
  end.

Definition run_case (c : list Z) : list Z := run RB_INIT_SIZE (decode (length c) c).
