(* C17 - every operation of the model refines the abstract builder. *)
Require Import V.Lib.Base V.Lib.Dec V.Gen.Consts_C17 V.C17.Model V.C17.Spec V.C17.ProofsList V.C17.ProofsInv V.C17.ProofsGrow.
Local Open Scope Z_scope.

Lemma erange_store r off d s : erange (store r off d s) = erange s.
Proof.
  destruct r; unfold store.
  - destruct (fits (un s) off d && ((live_lo s <=? off) || (len d =? 0))); reflexivity.
  - destruct (fits (arr s) off d); reflexivity.
  - destruct (fits (str s) off d); [reflexivity|].
    destruct ((off =? len (str s)) && list_eqb d [0]); reflexivity.
Qed.

(* facts that follow from the invariant *)
Lemma room_nonneg tm s a : R tm s a -> fixedk a = true -> 0 <= aroom a.
Proof.
  intros H Hfx. destruct H as [Hk|Hk|Hk|Hk Hu Hc Hb Hla HL|Hk Hu Hc Hb Htx].
  - rewrite (fixedk_kind a 0 Hk) in Hfx. discriminate.
  - rewrite (fixedk_kind a 1 Hk) in Hfx. discriminate.
  - destruct Hk as [Hk|Hk]; rewrite (fixedk_kind a _ Hk) in Hfx; discriminate.
  - rewrite aroom_arr by exact Hc. lia.
  - unfold aroom, alimit. rewrite Hc, Htx. cbn. lia.
Qed.

Lemma aappend_nil tm s a : R tm s a -> aappend [] a = a /\ acut [] a = false.
Proof.
  intros H. split.
  - unfold aappend. destruct (fixedk a); rewrite ?zfirstn_nil, app_nil_r; apply with_text_id.
  - unfold acut. destruct (fixedk a) eqn:Hfx; [|reflexivity].
    pose proof (room_nonneg tm s a H Hfx). cbn [andb]. apply Z.ltb_ge. rewrite len_nil. lia.
Qed.

Lemma type_cases tm s a : R tm s a ->
  (type s = 64 /\ ((akind a = 1 /\ tag s = 64) \/ ((akind a = 0 \/ akind a = 3) /\ tag s = 65)) /\ str s = atext a /\ len (un s) = 64)
  \/ (type s <> 64).
Proof.
  intros H. destruct H as [Hk Hu Ht|Hk Hu Ht Hs|Hk Hu Ht Hs|Hk|Hk].
  - right. rewrite type_sbo; [lia|]. unfold is_sbo. pose proof (len_nonneg (atext a)). lia.
  - left. rewrite (type_tag s _ Ht). auto 10.
  - left. rewrite (type_tag s _ Ht). auto 10.
  - right. destruct Hk as [[_ Ht]|[_ Ht]]; rewrite (type_tag s _ Ht); cbn; lia.
  - right. destruct Hk as [[_ Ht]|[_ Ht]]; rewrite (type_tag s _ Ht); cbn; lia.
Qed.

(* ---- grow + write ---- *)
Lemma grow_write_spec s a n dat P : Inv false s a -> 0 <= n -> len P = n ->
  (forall m, 0 <= m <= n -> dat m = zfirstn m P) ->
  Inv true (grow_write n dat s) (aappend P a) /\ erange (grow_write n dat s) = erange s || acut P a.
Proof.
  intros HI Hn HP Hdat.
  pose proof (grow_spec s a n HI Hn) as G. unfold grow_write.
  destruct (grow n s) as [buf s1]. cbn [fst snd] in G.
  destruct G as (Hfree & Hfix & Hnfix & Her & Hw).
  set (m := Z.min n (free buf)) in *.
  assert (Hm : 0 <= m <= n) by (subst m; lia).
  assert (Hlen : len (dat m) = m) by (rewrite Hdat by lia; apply len_zfirstn; lia).
  specialize (Hw (dat m) Hlen).
  assert (Hd : dat m = if fixedk a then zfirstn (aroom a) P else P).
  { rewrite Hdat by lia. destruct (fixedk a) eqn:Hfx.
    - rewrite <- (Hfix eq_refl). subst m.
      destruct (Z.le_ge_cases n (free buf)).
      + rewrite Z.min_l by lia. rewrite !zfirstn_all by lia. reflexivity.
      + rewrite Z.min_r by lia. reflexivity.
    - specialize (Hnfix eq_refl). subst m. rewrite Z.min_l by lia. apply zfirstn_all. lia. }
  split.
  - unfold aappend. rewrite <- Hd. exact Hw.
  - rewrite !erange_store, Her. f_equal. unfold acut. destruct (fixedk a) eqn:Hfx; [|reflexivity].
    rewrite (Hfix eq_refl), HP. reflexivity.
Qed.

Lemma append_bytes_spec s a d : Inv true s a ->
  Inv true (append_bytes d s) (aappend d a) /\ erange (append_bytes d s) = erange s || acut d a.
Proof.
  intros [Hf HR]. unfold append_bytes. consts.
  destruct (type_cases _ _ _ HR) as [(Hty & Hk & Hs & Hu)|Hty].
  - rewrite Hty. change (64 =? 64) with true.
    assert (Hfx : fixedk a = false).
    { destruct Hk as [[Hk _]|[[Hk|Hk] _]]; rewrite (fixedk_kind a _ Hk); reflexivity. }
    unfold aappend, acut. rewrite Hfx. cbn [andb]. rewrite orb_false_r. split; [|reflexivity].
    split; [exact Hf|].
    destruct Hk as [[Hk Ht]|[Hk Ht]]; [apply R_str | apply R_own]; cbn [un str set_str atext with_text akind]; auto; now rewrite Hs.
  - replace (type s =? 64) with false by (symmetry; apply Z.eqb_neq; exact Hty).
    apply grow_write_spec; try reflexivity; try apply len_nonneg.
    apply Inv_weaken. split; assumption.
Qed.

Lemma append_fill_spec s a n c : Inv true s a -> 0 <= n ->
  Inv true (append_fill n c s) (aappend (zrepeat c n) a) /\ erange (append_fill n c s) = erange s || acut (zrepeat c n) a.
Proof.
  intros [Hf HR] Hn. unfold append_fill. consts.
  destruct (type_cases _ _ _ HR) as [(Hty & Hk & Hs & Hu)|Hty].
  - rewrite Hty. change (64 =? 64) with true.
    assert (Hfx : fixedk a = false).
    { destruct Hk as [[Hk _]|[[Hk|Hk] _]]; rewrite (fixedk_kind a _ Hk); reflexivity. }
    unfold aappend, acut. rewrite Hfx. cbn [andb]. rewrite orb_false_r. split; [|reflexivity].
    split; [exact Hf|].
    destruct Hk as [[Hk Ht]|[Hk Ht]]; [apply R_str | apply R_own]; cbn [un str set_str atext with_text akind]; auto; now rewrite Hs.
  - replace (type s =? 64) with false by (symmetry; apply Z.eqb_neq; exact Hty).
    apply grow_write_spec; try assumption.
    + apply Inv_weaken. split; assumption.
    + apply len_zrepeat; exact Hn.
    + intros m Hm. symmetry. apply zfirstn_zrepeat. exact Hm.
Qed.

Lemma append_cstr_spec s a d : Inv true s a ->
  Inv true (append_cstr d s) (aappend (cut0 d) a) /\ erange (append_cstr d s) = erange s || acut (cut0 d) a.
Proof.
  intros HI. unfold append_cstr. destruct (cut0 d) as [|x p] eqn:E.
  - destruct HI as [Hf HR]. destruct (aappend_nil _ _ _ HR) as [E1 E2]. rewrite E1, E2, orb_false_r.
    split; [split; assumption | reflexivity].
  - apply append_bytes_spec. exact HI.
Qed.

(* ---- second pass of appendFormat ---- *)
Lemma second_pass_spec s a body : Inv false s a ->
  Inv true (second_pass body s) (aappend body a) /\ erange (second_pass body s) = erange s || acut body a.
Proof.
  intros HI. pose proof (len_nonneg body) as Hn.
  pose proof (grow_spec s a (len body) HI Hn) as G.
  pose proof (grow_write_spec s a (len body) (fun m => zfirstn m body) body HI Hn eq_refl (fun m _ => eq_refl)) as [W1 W2].
  unfold second_pass. unfold grow_write in W1, W2.
  destruct (grow (len body) s) as [buf s1]. cbn [fst snd] in G.
  destruct G as (Hfree & Hfix & Hnfix & Her & _).
  unfold vsn. replace (free buf + 1 <=? 0) with false by (symmetry; apply Z.leb_gt; lia).
  replace (free buf + 1 - 1) with (free buf) by lia.
  destruct (Z.ltb_spec (free buf) (len body)) as [Hlt|Hge].
  - split; [apply Inv_erange; exact W1|].
    cbn [erange set_erange].
    destruct (fixedk a) eqn:Hfx; [|specialize (Hnfix eq_refl); lia].
    unfold acut. rewrite Hfx, <- (Hfix eq_refl).
    replace (free buf <? len body) with true by (symmetry; apply Z.ltb_lt; lia). now rewrite orb_true_r.
  - split; assumption.
Qed.

(* ---- appendFormat ---- *)
Definition small_path (bd : list Z) (s0 : st) : st :=
  let n := len bd in
  let small := zfirstn (Z.min n (SmallSize - 1)) bd ++ [0] in
  if (0 <? n) && (n <? SmallSize) then append_bytes (zfirstn n small) s0
  else if 0 <? n then second_pass bd s0
  else s0.
Definition direct_path (bd : list Z) (buf : buffer) (s0 : st) : st :=
  let n := len bd in
  let s1 := vsn (head buf) (pos buf) (free buf) bd s0 in
  if (0 <? n) && (n <? free buf) then snd (grow n s1)
  else if 0 <? n then second_pass bd s1
  else s1.
Definition fmt_body (bd : list Z) (s0 : st) : st :=
  let buf := buffer_of s0 in
  if free buf =? 0 then small_path bd s0 else direct_path bd buf s0.

Lemma append_format_unfold pre body s :
  append_format pre body s =
  let s0 := match pre with [] => s | _ => append_bytes pre s end in
  match body with None => s0 | Some bd => fmt_body bd s0 end.
Proof. reflexivity. Qed.

Lemma small_path_spec s a bd : Inv true s a ->
  Inv true (small_path bd s) (aappend bd a) /\ erange (small_path bd s) = erange s || acut bd a.
Proof.
  intros HI. unfold small_path. consts. pose proof (len_nonneg bd) as Hn.
  destruct (Z.ltb_spec 0 (len bd)) as [Hpos|Hz]; cbn [andb].
  - destruct (Z.ltb_spec (len bd) 64) as [Hlt|Hge].
    + replace (Z.min (len bd) (64 - 1)) with (len bd) by lia.
      rewrite (zfirstn_all (len bd) bd) by lia. rewrite zfirstn_app_exact.
      apply append_bytes_spec. exact HI.
    + apply second_pass_spec. apply Inv_weaken. exact HI.
  - assert (bd = []) by (apply len_0_nil; lia). subst bd.
    destruct HI as [Hf HR]. destruct (aappend_nil _ _ _ HR) as [E1 E2]. rewrite E1, E2, orb_false_r.
    split; [split; assumption | reflexivity].
Qed.

Lemma vsn_unfold r off cap body s : 0 < cap ->
  vsn r off cap body s =
  store r (off + Z.min (len body) (cap - 1)) [0] (store r off (zfirstn (Z.min (len body) (cap - 1)) body) s).
Proof. intros H. unfold vsn. destruct (Z.leb_spec cap 0); [lia | reflexivity]. Qed.

(* two scratch stores inside the inline buffer, below the tag cell *)
Lemma first_pass_sbo s L k dk : is_sbo s -> len (un s) = 64 -> 0 <= L -> len dk = k -> L + k + 1 <= 63 ->
  store RUn (L + k) [0] (store RUn L dk s) = set_un (put (put (un s) L dk) (L + k) [0]) s.
Proof.
  intros Hs Hu HL Hd Hfit. pose proof (len_nonneg dk).
  rewrite (store_un s) by (rewrite ?(live_lo_sbo s Hs); lia).
  set (s1 := set_un (put (un s) L dk) s).
  assert (Hu1 : len (un s1) = 64) by (subst s1; cbn [un set_un]; rewrite len_put; lia).
  assert (Hs1 : is_sbo s1).
  { unfold is_sbo, tag in *. subst s1. cbn [un set_un]. consts. rewrite znth_put_hi by lia. exact Hs. }
  rewrite (store_un s1) by (rewrite ?(live_lo_sbo s1 Hs1), ?len_single; lia).
  subst s1. destruct s; reflexivity.
Qed.
Lemma first_pass_arr s L k dk : 0 <= L -> len dk = k -> L + k + 1 <= len (arr s) ->
  store RArr (L + k) [0] (store RArr L dk s) = set_arr (put (put (arr s) L dk) (L + k) [0]) s.
Proof.
  intros HL Hd Hfit. pose proof (len_nonneg dk).
  rewrite (store_arr s) by lia.
  set (s1 := set_arr (put (arr s) L dk) s).
  assert (Hl1 : len (arr s1) = len (arr s)) by (subst s1; cbn [arr set_arr]; rewrite len_put; lia).
  rewrite (store_arr s1) by (rewrite ?len_single; lia).
  subst s1. destruct s; reflexivity.
Qed.

Lemma direct_sbo s a bd : fault s = false -> akind a = 0 -> len (un s) = 64 -> tag s = 63 - len (atext a) ->
  len (atext a) < 63 -> zfirstn (len (atext a)) (un s) = atext a ->
  Inv true (direct_path bd (mkB RUn 0 (len (atext a)) 63) s) (aappend bd a) /\
  erange (direct_path bd (mkB RUn 0 (len (atext a)) 63) s) = erange s || acut bd a.
Proof.
  intros Hf Hk Hu Ht HL Htx. pose proof (len_nonneg (atext a)) as HL0. pose proof (len_nonneg bd) as Hn.
  set (L := len (atext a)) in *.
  assert (Hs : is_sbo s) by (unfold is_sbo; lia).
  assert (Hfx : fixedk a = false) by (rewrite (fixedk_kind a 0 Hk); reflexivity).
  unfold direct_path, free, pos. cbn [head base used size].
  rewrite vsn_unfold by lia. replace (0 + L) with L by lia.
  set (k := Z.min (len bd) (63 - L - 1)).
  assert (Hk1 : len (zfirstn k bd) = k) by (apply len_zfirstn; subst k; lia).
  rewrite (first_pass_sbo s L k (zfirstn k bd)) by (auto; subst k; lia).
  set (s1 := set_un (put (put (un s) L (zfirstn k bd)) (L + k) [0]) s).
  assert (Hu1 : len (un s1) = 64).
  { subst s1. cbn [un set_un]. rewrite !len_put; rewrite ?len_put, ?len_single; subst k; lia. }
  assert (Ht1 : tag s1 = tag s).
  { unfold tag. subst s1. cbn [un set_un]. consts.
    rewrite znth_put_hi by (rewrite ?len_put, ?len_single; subst k; lia).
    rewrite znth_put_hi by (subst k; lia). reflexivity. }
  assert (Htx1 : zfirstn L (un s1) = atext a).
  { subst s1. cbn [un set_un]. rewrite zfirstn_put_lo by (rewrite ?len_put, ?len_single; subst k; lia).
    rewrite zfirstn_put_lo by (subst k; lia). exact Htx. }
  assert (HI1 : Inv false s1 a).
  { split; [exact Hf|]. apply R_sbo; auto; try lia; try discriminate. }
  destruct (Z.ltb_spec 0 (len bd)) as [Hpos|Hz]; cbn [andb].
  - destruct (Z.ltb_spec (len bd) (63 - L)) as [Hlt|Hge].
    + (* everything fitted: only the tag moves *)
      assert (Hkn : k = len bd) by (subst k; lia).
      assert (Hs1 : is_sbo s1) by (unfold is_sbo; lia).
      unfold grow. rewrite (type_sbo s1 Hs1). consts. change (0 =? 0) with true. cbn [andb].
      replace (len bd <=? tag s1) with true by (symmetry; apply Z.leb_le; lia). cbn [snd].
      unfold aappend, acut. rewrite Hfx. cbn [andb]. rewrite orb_false_r. split; [|reflexivity].
      split; [exact Hf|].
      assert (Hzf : zfirstn k bd = bd) by (apply zfirstn_all; lia).
      apply R_sbo; cbn [atext with_text akind]; rewrite ?len_app; fold L.
      * exact Hk.
      * apply len_un_set_tag. exact Hu1.
      * rewrite tag_set_tag by exact Hu1. rewrite Z.mod_small by lia. lia.
      * lia.
      * unfold set_tag. cbn [un set_un]. consts. rewrite zfirstn_put_lo by (rewrite ?len_single; lia).
        subst s1. cbn [un set_un]. rewrite <- Hkn. rewrite zfirstn_put_lo by (rewrite ?len_put, ?len_single; lia).
        rewrite <- Hk1 at 1. rewrite zfirstn_put_hi by lia. rewrite Htx, Hzf. reflexivity.
      * intros _. unfold set_tag. cbn [un set_un]. consts. rewrite znth_put_lo by (rewrite ?len_single; lia).
        subst s1. cbn [un set_un]. rewrite <- Hkn. rewrite znth_put_in by (rewrite ?len_put, ?len_single; lia).
        rewrite Z.sub_diag. reflexivity.
    + destruct (second_pass_spec s1 a bd HI1) as [W1 W2]. split; [exact W1|]. rewrite W2. reflexivity.
  - assert (bd = []) by (apply len_0_nil; lia). subst bd.
    assert (Hk0 : k = 0) by (subst k; rewrite len_nil; lia).
    assert (HR : R true s1 a).
    { apply R_sbo; auto; try lia. intros _. fold L. subst s1. cbn [un set_un]. rewrite Hk0, Z.add_0_r.
      rewrite znth_put_in by (rewrite ?len_put, ?len_single; rewrite ?zfirstn_nil, ?len_nil; lia).
      rewrite Z.sub_diag. reflexivity. }
    destruct (aappend_nil _ _ _ HR) as [E1 E2]. rewrite E1, E2, orb_false_r.
    split; [split; assumption | reflexivity].
Qed.

Lemma direct_arr s a bd : fault s = false -> kindtag (akind a) (tag s) -> len (un s) = 64 -> 1 <= acap a ->
  bf s = mkB RArr 0 (len (atext a)) (acap a - 1) -> len (arr s) = acap a -> len (atext a) < acap a - 1 ->
  zfirstn (len (atext a)) (arr s) = atext a ->
  Inv true (direct_path bd (bf s) s) (aappend bd a) /\
  erange (direct_path bd (bf s) s) = erange s || acut bd a.
Proof.
  intros Hf Hk Hu Hc Hb Hla HL Htx. pose proof (len_nonneg (atext a)) as HL0. pose proof (len_nonneg bd) as Hn.
  set (L := len (atext a)) in *.
  assert (Hty : type s = 128) by (destruct Hk as [[_ Ht]|[_ Ht]]; rewrite (type_tag s _ Ht); reflexivity).
  pose proof (aroom_arr a Hc) as Hroom. fold L in Hroom.
  unfold direct_path. rewrite Hb. unfold free, pos. cbn [head base used size].
  rewrite vsn_unfold by lia. replace (0 + L) with L by lia.
  set (k := Z.min (len bd) (acap a - 1 - L - 1)).
  assert (Hk1 : len (zfirstn k bd) = k) by (apply len_zfirstn; subst k; lia).
  rewrite (first_pass_arr s L k (zfirstn k bd)) by (auto; subst k; lia).
  set (s1 := set_arr (put (put (arr s) L (zfirstn k bd)) (L + k) [0]) s).
  assert (Hl1 : len (arr s1) = acap a).
  { subst s1. cbn [arr set_arr]. rewrite !len_put; rewrite ?len_put, ?len_single; subst k; lia. }
  assert (Htx1 : zfirstn L (arr s1) = atext a).
  { subst s1. cbn [arr set_arr]. rewrite zfirstn_put_lo by (rewrite ?len_put, ?len_single; subst k; lia).
    rewrite zfirstn_put_lo by (subst k; lia). exact Htx. }
  assert (HI1 : Inv false s1 a).
  { split; [exact Hf|]. apply R_arr; auto; try lia; try discriminate. }
  destruct (Z.ltb_spec 0 (len bd)) as [Hpos|Hz]; cbn [andb].
  - destruct (Z.ltb_spec (len bd) (acap a - 1 - L)) as [Hlt|Hge].
    + assert (Hkn : k = len bd) by (subst k; lia).
      assert (Hzf : zfirstn k bd = bd) by (apply zfirstn_all; lia).
      assert (Hty1 : type s1 = 128) by exact Hty.
      assert (Hb1 : bf s1 = mkB RArr 0 L (acap a - 1)) by exact Hb.
      unfold grow. rewrite Hty1. consts. change (128 =? 0) with false. change (128 =? 128) with true. cbn [andb].
      rewrite Hb1. unfold free. cbn [size used].
      replace (len bd <=? acap a - 1 - L) with true by (symmetry; apply Z.leb_le; lia). cbn [orb snd].
      assert (Hcut : acut bd a = false).
      { unfold acut. rewrite Hroom. replace (acap a - 1 - L <? len bd) with false by (symmetry; apply Z.ltb_ge; lia).
        apply andb_false_r. }
      assert (Happ : aappend bd a = with_text a (atext a ++ bd)).
      { unfold aappend. destruct (fixedk a); [|reflexivity]. rewrite zfirstn_all by lia. reflexivity. }
      rewrite Hcut, Happ, orb_false_r. split; [|reflexivity].
      replace (set_used (L + len bd) s1) with
        (store RArr (L + len bd) [0] (store RArr L bd (set_used (L + len bd) s))).
      * apply arr_write; cbn [fault un bf arr set_used]; fold L; try assumption; try lia.
        rewrite Hb. reflexivity.
      * rewrite (first_pass_arr (set_used (L + len bd) s) L (len bd) bd) by (cbn [arr set_used]; lia).
        subst s1. rewrite Hzf, Hkn. destruct s; reflexivity.
    + destruct (second_pass_spec s1 a bd HI1) as [W1 W2]. split; [exact W1|]. rewrite W2. reflexivity.
  - assert (bd = []) by (apply len_0_nil; lia). subst bd.
    assert (Hk0 : k = 0) by (subst k; rewrite len_nil; lia).
    assert (HR : R true s1 a).
    { apply R_arr; auto; try lia. intros _. fold L. subst s1. cbn [arr set_arr]. rewrite Hk0, Z.add_0_r.
      rewrite znth_put_in by (rewrite ?len_put, ?len_single; rewrite ?zfirstn_nil, ?len_nil; lia).
      rewrite Z.sub_diag. reflexivity. }
    destruct (aappend_nil _ _ _ HR) as [E1 E2]. rewrite E1, E2, orb_false_r.
    split; [split; assumption | reflexivity].
Qed.

Lemma fmt_body_spec s a bd : Inv true s a ->
  Inv true (fmt_body bd s) (aappend bd a) /\ erange (fmt_body bd s) = erange s || acut bd a.
Proof.
  intros HI. pose proof HI as [Hf HR]. unfold fmt_body.
  destruct HR as [Hk Hu Ht HL Htx Htm|Hk Hu Ht Hs|Hk Hu Ht Hs|Hk Hu Hc Hb Hla HL Htx Htm|Hk Hu Hc Hb Htx Hz].
  - pose proof (len_nonneg (atext a)) as HL0.
    assert (Hsb : is_sbo s) by (unfold is_sbo; lia).
    rewrite (buffer_of_sbo s Hsb). replace (63 - tag s) with (len (atext a)) by lia.
    assert (Hfr : free (mkB RUn 0 (len (atext a)) 63) = 63 - len (atext a)) by reflexivity.
    rewrite !Hfr.
    destruct (Z.eqb_spec (63 - len (atext a)) 0) as [E|E].
    + apply small_path_spec. exact HI.
    + apply direct_sbo; auto. lia.
  - assert (Hbo : buffer_of s = mkB RStr 0 (len (str s)) (len (str s))).
    { unfold buffer_of. rewrite (type_tag s _ Ht). reflexivity. }
    rewrite Hbo. unfold free. cbn [size used]. rewrite Z.sub_diag. change (0 =? 0) with true.
    apply small_path_spec. exact HI.
  - assert (Hbo : buffer_of s = mkB RStr 0 (len (str s)) (len (str s))).
    { unfold buffer_of. rewrite (type_tag s _ Ht). reflexivity. }
    rewrite Hbo. unfold free. cbn [size used]. rewrite Z.sub_diag. change (0 =? 0) with true.
    apply small_path_spec. exact HI.
  - assert (Hbo : buffer_of s = bf s).
    { unfold buffer_of. destruct Hk as [[_ Ht]|[_ Ht]]; rewrite (type_tag s _ Ht); reflexivity. }
    rewrite Hbo. 
    assert (Hfr : free (bf s) = acap a - 1 - len (atext a)) by (rewrite Hb; reflexivity).
    rewrite !Hfr.
    destruct (Z.eqb_spec (acap a - 1 - len (atext a)) 0) as [E|E].
    + apply small_path_spec. exact HI.
    + apply direct_arr; auto. lia.
  - assert (Hbo : buffer_of s = bf s).
    { unfold buffer_of. destruct Hk as [[_ Ht]|[_ Ht]]; rewrite (type_tag s _ Ht); reflexivity. }
    rewrite Hbo, Hb. unfold free. cbn [size used]. change (0 - 0 =? 0) with true.
    apply small_path_spec. exact HI.
Qed.

Lemma append_format_spec s a pre body : Inv true s a ->
  let a1 := aappend pre a in
  let a2 := match body with Some bd => aappend bd a1 | None => a1 end in
  let cut := acut pre a || match body with Some bd => acut bd a1 | None => false end in
  Inv true (append_format pre body s) a2 /\ erange (append_format pre body s) = erange s || cut.
Proof.
  intros HI a1 a2 cut. rewrite append_format_unfold.
  set (s0 := match pre with [] => s | _ => append_bytes pre s end).
  assert (H0 : Inv true s0 a1 /\ erange s0 = erange s || acut pre a).
  { subst s0 a1. destruct pre as [|x p].
    - destruct HI as [Hf HR]. destruct (aappend_nil _ _ _ HR) as [E1 E2]. rewrite E1, E2, orb_false_r.
      split; [split; assumption | reflexivity].
    - apply append_bytes_spec. exact HI. }
  destruct H0 as [HI0 He0]. cbv zeta. subst a2 cut. destruct body as [bd|].
  - destruct (fmt_body_spec s0 a1 bd HI0) as [W1 W2]. split; [exact W1|].
    rewrite W2, He0. now rewrite orb_assoc.
  - split; [exact HI0|]. rewrite He0. now rewrite orb_false_r.
Qed.
