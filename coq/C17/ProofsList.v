(* C17 - list lemmas with Z indices for the cell regions (len / zfirstn / zskipn / znth / zrepeat / put). *)
Require Import V.Lib.Base V.C17.Model.
Local Open Scope Z_scope.

Lemma len_nonneg l : 0 <= len l.
Proof. unfold len. lia. Qed.
Lemma len_nil : len [] = 0.
Proof. reflexivity. Qed.
Lemma len_cons x l : len (x :: l) = 1 + len l.
Proof. unfold len. cbn [length]. lia. Qed.
Lemma len_app a b : len (a ++ b) = len a + len b.
Proof. unfold len. rewrite app_length. lia. Qed.
Lemma len_zrepeat c n : 0 <= n -> len (zrepeat c n) = n.
Proof. intros H. unfold len, zrepeat. rewrite repeat_length. lia. Qed.
Lemma len_zfirstn k l : 0 <= k <= len l -> len (zfirstn k l) = k.
Proof. unfold len, zfirstn. intros H. rewrite firstn_length. lia. Qed.
Lemma len_zfirstn_le k l : len (zfirstn k l) <= len l.
Proof. unfold len, zfirstn. rewrite firstn_length. lia. Qed.
Lemma len_zskipn k l : 0 <= k <= len l -> len (zskipn k l) = len l - k.
Proof. unfold len, zskipn. intros H. rewrite skipn_length. lia. Qed.
Lemma len_0_nil l : len l = 0 -> l = [].
Proof. unfold len. destruct l; [reflexivity | cbn [length]; lia]. Qed.

Lemma zfirstn_all k l : len l <= k -> zfirstn k l = l.
Proof. unfold len, zfirstn. intros H. apply firstn_all2. lia. Qed.
Lemma zfirstn_0 l : zfirstn 0 l = [].
Proof. reflexivity. Qed.
Lemma zfirstn_neg k l : k <= 0 -> zfirstn k l = [].
Proof. intros H. unfold zfirstn. replace (Z.to_nat k) with O by lia. reflexivity. Qed.
Lemma zfirstn_nil k : zfirstn k [] = [].
Proof. unfold zfirstn. apply firstn_nil. Qed.
Lemma zskipn_0 l : zskipn 0 l = l.
Proof. reflexivity. Qed.
Lemma zskipn_all k l : len l <= k -> zskipn k l = [].
Proof. unfold len, zskipn. intros H. apply skipn_all2. lia. Qed.
Lemma zfirstn_zskipn k l : zfirstn k l ++ zskipn k l = l.
Proof. apply firstn_skipn. Qed.

Lemma zfirstn_app_l k a b : k <= len a -> zfirstn k (a ++ b) = zfirstn k a.
Proof.
  unfold len, zfirstn. intros H. rewrite firstn_app.
  replace (Z.to_nat k - length a)%nat with O by lia. cbn [firstn]. apply app_nil_r.
Qed.
Lemma zfirstn_app_r k a b : len a <= k -> zfirstn k (a ++ b) = a ++ zfirstn (k - len a) b.
Proof.
  unfold len, zfirstn. intros H. rewrite firstn_app. rewrite firstn_all2 by lia.
  f_equal. f_equal. lia.
Qed.
Lemma zfirstn_app_exact a b : zfirstn (len a) (a ++ b) = a.
Proof. rewrite zfirstn_app_r by lia. rewrite Z.sub_diag, zfirstn_0. apply app_nil_r. Qed.
Lemma zskipn_app_r k a b : len a <= k -> zskipn k (a ++ b) = zskipn (k - len a) b.
Proof.
  unfold len, zskipn. intros H. rewrite skipn_app. rewrite skipn_all2 by lia. cbn [app].
  f_equal. lia.
Qed.
Lemma zskipn_app_exact a b : zskipn (len a) (a ++ b) = b.
Proof. rewrite zskipn_app_r by lia. rewrite Z.sub_diag. reflexivity. Qed.

Lemma zfirstn_zfirstn j k l : 0 <= j <= k -> zfirstn j (zfirstn k l) = zfirstn j l.
Proof. unfold zfirstn. intros H. rewrite firstn_firstn. f_equal. lia. Qed.

Lemma znth_app_l i a b : 0 <= i < len a -> znth i (a ++ b) = znth i a.
Proof. unfold len, znth. intros H. apply app_nth1. lia. Qed.
Lemma znth_app_r i a b : len a <= i -> znth i (a ++ b) = znth (i - len a) b.
Proof. unfold len, znth. intros H. rewrite app_nth2 by lia. f_equal. lia. Qed.
Lemma znth_0_cons x l : znth 0 (x :: l) = x.
Proof. reflexivity. Qed.
Lemma znth_zfirstn i k l : 0 <= i < k -> znth i (zfirstn k l) = znth i l.
Proof.
  unfold znth, zfirstn. intros H.
  rewrite <- (firstn_skipn (Z.to_nat k) l) at 2.
  destruct (Nat.lt_ge_cases (Z.to_nat i) (length (firstn (Z.to_nat k) l))) as [Hlt|Hge].
  - symmetry. apply app_nth1. exact Hlt.
  - rewrite (nth_overflow (firstn _ _)) by exact Hge.
    rewrite firstn_length in Hge.
    rewrite nth_overflow; [reflexivity|].
    rewrite app_length, firstn_length, skipn_length. lia.
Qed.

Lemma zfirstn_zrepeat m n c : 0 <= m <= n -> zfirstn m (zrepeat c n) = zrepeat c m.
Proof.
  unfold zfirstn, zrepeat. intros H.
  replace (Z.to_nat n) with (Z.to_nat m + (Z.to_nat n - Z.to_nat m))%nat by lia.
  rewrite repeat_app. rewrite firstn_app, repeat_length, Nat.sub_diag. cbn [firstn].
  rewrite app_nil_r. apply firstn_all2. rewrite repeat_length. lia.
Qed.

(* the first k cells and the next one determine the first k+1 *)
Lemma zfirstn_snoc k l : 0 <= k < len l -> zfirstn (k + 1) l = zfirstn k l ++ [znth k l].
Proof.
  unfold len, zfirstn, znth. intros H.
  replace (Z.to_nat (k + 1)) with (S (Z.to_nat k)) by lia.
  assert (Hk : (Z.to_nat k < length l)%nat) by lia. clear H.
  revert l Hk. induction (Z.to_nat k) as [|n IH]; intros l Hk.
  - destruct l; [cbn in Hk; lia | reflexivity].
  - destruct l as [|x l]; [cbn in Hk; lia|]. cbn [length] in Hk.
    change (firstn (S (S n)) (x :: l)) with (x :: firstn (S n) l).
    rewrite IH by lia. reflexivity.
Qed.

(* ---- put ---- *)
Lemma fits_spec l off d : fits l off d = true <-> 0 <= off /\ off + len d <= len l.
Proof. unfold fits. rewrite andb_true_iff, Z.leb_le, Z.leb_le. tauto. Qed.

Lemma put_eq l off d : 0 <= off -> off + len d <= len l ->
  put l off d = zfirstn off l ++ d ++ zskipn (off + len d) l.
Proof. reflexivity. Qed.

Lemma len_put l off d : 0 <= off -> off + len d <= len l -> len (put l off d) = len l.
Proof.
  intros H0 H1. unfold put. pose proof (len_nonneg d).
  rewrite !len_app, len_zfirstn, len_zskipn by lia. lia.
Qed.

Lemma put_nil l off : put l off [] = l.
Proof. unfold put. rewrite len_nil, Z.add_0_r. cbn [app]. apply zfirstn_zskipn. Qed.

(* cells below the write are unchanged *)
Lemma zfirstn_put_lo k l off d : 0 <= k <= off -> off + len d <= len l ->
  zfirstn k (put l off d) = zfirstn k l.
Proof.
  intros Hk H1. unfold put. pose proof (len_nonneg d).
  rewrite zfirstn_app_l by (rewrite len_zfirstn; lia).
  apply zfirstn_zfirstn. lia.
Qed.
(* the cells up to the end of the write *)
Lemma zfirstn_put_hi l off d : 0 <= off -> off + len d <= len l ->
  zfirstn (off + len d) (put l off d) = zfirstn off l ++ d.
Proof.
  intros H0 H1. unfold put. pose proof (len_nonneg d).
  rewrite app_assoc. rewrite <- (app_nil_r (zfirstn off l ++ d)) at 2.
  rewrite zfirstn_app_r by (rewrite len_app, len_zfirstn; lia).
  rewrite len_app, len_zfirstn by lia.
  replace (off + len d - (off + len d)) with 0 by lia. rewrite zfirstn_0. reflexivity.
Qed.
Lemma znth_put_lo i l off d : 0 <= i < off -> off + len d <= len l -> znth i (put l off d) = znth i l.
Proof.
  intros Hi H1. unfold put. pose proof (len_nonneg d).
  rewrite znth_app_l by (rewrite len_zfirstn; lia). apply znth_zfirstn. lia.
Qed.
Lemma znth_put_in i l off d : 0 <= off -> off + len d <= len l -> off <= i < off + len d ->
  znth i (put l off d) = znth (i - off) d.
Proof.
  intros H0 H1 Hi. unfold put.
  rewrite znth_app_r by (rewrite len_zfirstn; lia). rewrite len_zfirstn by lia.
  apply znth_app_l. lia.
Qed.
Lemma znth_put_hi i l off d : 0 <= off -> off + len d <= len l -> off + len d <= i ->
  znth i (put l off d) = znth i l.
Proof.
  intros H0 H1 Hi. unfold put. pose proof (len_nonneg d).
  rewrite znth_app_r by (rewrite len_zfirstn; lia). rewrite len_zfirstn by lia.
  rewrite znth_app_r by lia.
  unfold znth, zskipn, len in *.
  rewrite <- (firstn_skipn (Z.to_nat (off + Z.of_nat (length d))) l) at 2.
  rewrite app_nth2 by (rewrite firstn_length; lia).
  f_equal. rewrite firstn_length. lia.
Qed.

Lemma skipn_skipn' {A} (a b : nat) (l : list A) : skipn a (skipn b l) = skipn (b + a) l.
Proof.
  revert l. induction b as [|b IH]; intros l; [reflexivity|].
  destruct l as [|x l]; [now rewrite !skipn_nil|]. cbn [skipn Nat.add]. apply IH.
Qed.

Lemma zskipn_put_hi k l off d : 0 <= off -> off + len d <= len l -> off + len d <= k ->
  zskipn k (put l off d) = zskipn k l.
Proof.
  intros H0 H1 Hk. unfold put. pose proof (len_nonneg d).
  rewrite zskipn_app_r by (rewrite len_zfirstn; lia). rewrite len_zfirstn by lia.
  rewrite zskipn_app_r by lia.
  unfold zskipn, len in *. rewrite skipn_skipn'. f_equal. lia.
Qed.

(* two adjacent writes are one write *)
Lemma put_put l off d e : 0 <= off -> off + len d + len e <= len l ->
  put (put l off d) (off + len d) e = put l off (d ++ e).
Proof.
  intros H0 H1. pose proof (len_nonneg d). pose proof (len_nonneg e).
  assert (E1 : put (put l off d) (off + len d) e =
               zfirstn (off + len d) (put l off d) ++ e ++ zskipn (off + len d + len e) (put l off d)) by reflexivity.
  rewrite E1. rewrite zfirstn_put_hi, zskipn_put_hi by lia.
  unfold put. rewrite len_app, <- !app_assoc. f_equal. f_equal. f_equal. f_equal. lia.
Qed.

Lemma znth_single x : znth 0 [x] = x.
Proof. reflexivity. Qed.
Lemma len_single x : len [x] = 1.
Proof. reflexivity. Qed.
