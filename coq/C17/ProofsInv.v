(* C17 - the representation invariant tying a concrete StringBuilder state to the abstract builder,
   and the basic facts about tag / type / store. *)
Require Import V.Lib.Base V.Gen.Consts_C17 V.C17.Model V.C17.Spec V.C17.ProofsList.
Local Open Scope Z_scope.

Ltac consts := unfold TagIdx, SboCap, SboBytes, T_Sbo, T_Str, T_Buf, T_Own, BufBytes, PtrBytes, ZeroCapOff,
                      SmallSize, NumTemp in *.

(* ---- tag / type ---- *)
Lemma land_small t : 0 <= t < 64 -> Z.land t 192 = 0.
Proof.
  intros H. apply Z.bits_inj'. intros i Hi. rewrite Z.land_spec, Z.bits_0.
  destruct (Z.ltb_spec i 6) as [Hlt|Hge].
  - replace (Z.testbit 192 i) with false; [apply andb_false_r|].
    assert (Hc : i = 0 \/ i = 1 \/ i = 2 \/ i = 3 \/ i = 4 \/ i = 5) by lia.
    destruct Hc as [->|[->|[->|[->|[->| ->]]]]]; reflexivity.
  - replace (Z.testbit t i) with false; [reflexivity|].
    symmetry. destruct (Z.eq_dec t 0) as [->|Hnz]; [apply Z.bits_0|].
    apply Z.bits_above_log2; [lia|].
    assert (Z.log2 t < 6); [|lia]. apply Z.log2_lt_pow2; [lia|]. change (2 ^ 6) with 64. lia.
Qed.

Definition is_sbo (s : st) : Prop := 0 <= tag s <= 63.

Lemma type_sbo s : is_sbo s -> type s = 0.
Proof. unfold is_sbo, type. consts. intros H. change (Z.lor 64 128) with 192. apply land_small. lia. Qed.
Lemma type_tag s t : tag s = t -> type s = Z.land t 192.
Proof. unfold type. consts. intros ->. reflexivity. Qed.

Lemma tag_set_tag t s : len (un s) = 64 -> tag (set_tag t s) = t mod 256.
Proof.
  intros H. unfold tag, set_tag. cbn [un set_un]. consts.
  rewrite znth_put_in by (rewrite ?len_single; lia). rewrite Z.sub_diag. reflexivity.
Qed.
Lemma len_un_set_tag t s : len (un s) = 64 -> len (un (set_tag t s)) = 64.
Proof. intros H. unfold set_tag. cbn [un set_un]. consts. rewrite len_put; rewrite ?len_single; lia. Qed.

(* ---- store ---- *)
Lemma store_un s off d : 0 <= off -> off + len d <= len (un s) -> live_lo s <= off \/ len d = 0 ->
  store RUn off d s = set_un (put (un s) off d) s.
Proof.
  intros H0 H1 H2. unfold store.
  replace (fits (un s) off d) with true by (symmetry; apply fits_spec; lia).
  replace ((live_lo s <=? off) || (len d =? 0)) with true; [reflexivity|].
  symmetry. apply orb_true_iff. rewrite Z.leb_le, Z.eqb_eq. exact H2.
Qed.
Lemma store_arr s off d : 0 <= off -> off + len d <= len (arr s) ->
  store RArr off d s = set_arr (put (arr s) off d) s.
Proof.
  intros H0 H1. unfold store.
  replace (fits (arr s) off d) with true by (symmetry; apply fits_spec; lia). reflexivity.
Qed.
Lemma store_str s off d : 0 <= off -> off + len d <= len (str s) ->
  store RStr off d s = set_str (put (str s) off d) s.
Proof.
  intros H0 H1. unfold store.
  replace (fits (str s) off d) with true by (symmetry; apply fits_spec; lia). reflexivity.
Qed.
Lemma store_str_term s : store RStr (len (str s)) [0] s = s.
Proof.
  unfold store. replace (fits (str s) (len (str s)) [0]) with false.
  - rewrite Z.eqb_refl. reflexivity.
  - symmetry. unfold fits. rewrite len_single. apply andb_false_iff. right. apply Z.leb_gt. lia.
Qed.

Lemma live_lo_sbo s : is_sbo s -> live_lo s = 0.
Proof. intros H. unfold live_lo. rewrite (type_sbo s H). reflexivity. Qed.
Lemma live_lo_tag s t : tag s = t -> live_lo s = if Z.land t 192 =? 128 then 24 else if Z.land t 192 =? 64 then 8 else 0.
Proof. intros H. unfold live_lo. rewrite (type_tag s t H). reflexivity. Qed.

(* the text sits in front of appended zeros: writing d over the zeros *)
Lemma put_over_tail a z d : len d = len z -> put (a ++ z) (len a) d = a ++ d.
Proof.
  intros H. unfold put. rewrite zfirstn_app_exact.
  rewrite zskipn_all by (rewrite len_app; lia). now rewrite app_nil_r.
Qed.

(* ---- the invariant ---- *)
Definition kindtag (k t : Z) : Prop := (k = 2 /\ t = 128) \/ (k = 3 /\ t = 129).

Inductive R (tm : bool) (s : st) (a : abs) : Prop :=
| R_sbo : akind a = 0 -> len (un s) = 64 -> tag s = 63 - len (atext a) -> len (atext a) <= 63 ->
          zfirstn (len (atext a)) (un s) = atext a ->
          (tm = true -> znth (len (atext a)) (un s) = 0) -> R tm s a
| R_str : akind a = 1 -> len (un s) = 64 -> tag s = 64 -> str s = atext a -> R tm s a
| R_own : akind a = 0 \/ akind a = 3 -> len (un s) = 64 -> tag s = 65 -> str s = atext a -> R tm s a
| R_arr : kindtag (akind a) (tag s) -> len (un s) = 64 -> 1 <= acap a ->
          bf s = mkB RArr 0 (len (atext a)) (acap a - 1) -> len (arr s) = acap a ->
          len (atext a) <= acap a - 1 -> zfirstn (len (atext a)) (arr s) = atext a ->
          (tm = true -> znth (len (atext a)) (arr s) = 0) -> R tm s a
| R_zero : kindtag (akind a) (tag s) -> len (un s) = 64 -> acap a = 0 ->
          bf s = mkB RUn 61 0 0 -> atext a = [] -> znth 61 (un s) = 0 -> R tm s a.

Definition Inv (tm : bool) (s : st) (a : abs) : Prop := fault s = false /\ R tm s a.

Lemma R_weaken tm s a : R true s a -> R tm s a.
Proof.
  intros H. destruct H.
  - eapply R_sbo; eauto.
  - eapply R_str; eauto.
  - eapply R_own; eauto.
  - eapply R_arr; eauto.
  - eapply R_zero; eauto.
Qed.
Lemma Inv_weaken tm s a : Inv true s a -> Inv tm s a.
Proof. intros [H1 H2]. split; [assumption | now apply R_weaken]. Qed.

(* the invariant only looks at un / bf / arr / str / fault *)
Lemma R_erange tm s a e : R tm s a -> R tm (set_erange e s) a.
Proof.
  intros H. destruct H.
  - eapply R_sbo; eauto.
  - eapply R_str; eauto.
  - eapply R_own; eauto.
  - eapply R_arr; eauto.
  - eapply R_zero; eauto.
Qed.
Lemma Inv_erange tm s a e : Inv tm s a -> Inv tm (set_erange e s) a.
Proof. intros [H1 H2]. split; [exact H1 | now apply R_erange]. Qed.

Lemma with_text_id a : with_text a (atext a) = a.
Proof. destruct a; reflexivity. Qed.
Lemma atext_with_text a t : atext (with_text a t) = t.
Proof. reflexivity. Qed.
