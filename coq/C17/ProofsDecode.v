(* C17 - every operation list produced by decode_ops satisfies ok_op, so the refinement holds for run_case
   (the very function the correspondence check executes) on every list of integers. *)
Require Import V.Lib.Base V.Gen.Consts_C17 V.C17.Model V.C17.Spec.
Local Open Scope Z_scope.

Lemma mod64_range v : 0 <= v mod two64 < two64.
Proof. apply Z.mod_pos_bound. reflexivity. Qed.

Lemma decode_ops_ok f : forall l, Forall ok_op (decode_ops f l).
Proof.
  induction f as [|f IH]; intros l; [constructor|].
  cbn [decode_ops].
  repeat match goal with
         | |- Forall _ (match ?x with _ => _ end) => destruct x
         end;
    try (constructor; [cbn [ok_op]; try exact I; try apply mod64_range; try (apply (proj1 (mod64_range _))) | apply IH]);
    try constructor.
Qed.

Definition arun_case (c : list Z) : list Z :=
  match c with
  | k :: cap :: r => let '(ini, r') := take r in arun k cap ini (decode_ops (length r') r')
  | _ => []
  end.
