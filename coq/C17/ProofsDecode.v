(* C17 - every operation list produced by decode_ops satisfies ok_op, so the refinement holds for run_case
   (the very function the correspondence check executes) on every list of integers. *)
Require Import V.Lib.Base V.Gen.Consts_C17 V.C17.Model V.C17.Spec.
Local Open Scope Z_scope.

Lemma mod64_range v : 0 <= v mod two64 < two64.
Proof. apply Z.mod_pos_bound. reflexivity. Qed.

Lemma decode1_ok l o r : decode1 l = Some (o, r) -> ok_op o.
Proof.
  unfold decode1. intros H.
  repeat match type of H with
         | match ?x with _ => _ end = _ => destruct x
         | (let '(_, _) := ?x in _) = _ => destruct x
         end;
    try discriminate; inversion H; subst; cbn [ok_op]; try exact I; try apply mod64_range; apply (proj1 (mod64_range _)).
Qed.

Lemma decode_ops_ok f : forall l, Forall ok_op (decode_ops f l).
Proof.
  induction f as [|f IH]; intros l; [constructor|].
  cbn [decode_ops]. destruct (decode1 l) as [[o r]|] eqn:E; [|constructor].
  constructor; [exact (decode1_ok l o r E) | apply IH].
Qed.

Lemma decode1x_ok l x r : decode1x l = Some (x, r) -> ok_xop x.
Proof.
  unfold decode1x. intros H.
  assert (D : forall l', match decode1 l' with Some (o, rr) => Some (XOp o, rr) | None => None end = Some (x, r) -> ok_xop x).
  { intros l' H'. destruct (decode1 l') as [[o rr]|] eqn:E; [|discriminate]. inversion H'; subst. exact (decode1_ok l' o _ E). }
  repeat match type of H with
         | match ?y with _ => _ end = _ => is_var y; destruct y
         end;
    try (match type of H with context [decode1 ?l'] => exact (D l' H) end).
  inversion H; subst. destruct (_ =? 2); exact I.
Qed.

Lemma decode_xops_ok f : forall l, Forall ok_xop (decode_xops f l).
Proof.
  induction f as [|f IH]; intros l; [constructor|].
  cbn [decode_xops]. destruct (decode1x l) as [[x r]|] eqn:E; [|constructor].
  constructor; [exact (decode1x_ok l x r E) | apply IH].
Qed.

Definition arun_case (c : list Z) : list Z :=
  match c with
  | k :: cap :: r => let '(ini, r') := take r in arun_x k cap ini (decode_xops (length r') r')
  | _ => []
  end.
