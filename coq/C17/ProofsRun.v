(* C17 - resize, constructors, observation, and the whole-history refinement. *)
Require Import V.Lib.Base V.Lib.Dec V.Gen.Consts_C17 V.C17.Model V.C17.Spec V.C17.ProofsList V.C17.ProofsInv
               V.C17.ProofsGrow V.C17.ProofsNum V.C17.ProofsOps.
Local Open Scope Z_scope.

Lemma alimit_arr a : 1 <= acap a -> alimit a = acap a - 1.
Proof. intros H. unfold alimit. destruct (Z.eqb_spec (acap a) 0); lia. Qed.

(* what buffer() shows under the invariant *)
Lemma buffer_view tm s a : R tm s a ->
  used (buffer_of s) = len (atext a) /\
  ((fixedk a = true /\ tag s = 128 /\ size (buffer_of s) = alimit a) \/ (fixedk a = false /\ tag s <> 128)).
Proof.
  intros H. destruct H as [Hk Hu Ht HL Htx Htm|Hk Hu Ht Hs|Hk Hu Ht Hs|Hk Hu Hc Hb Hla HL Htx Htm|Hk Hu Hc Hb Htx Hz].
  - pose proof (len_nonneg (atext a)).
    rewrite buffer_of_sbo by (unfold is_sbo; lia). cbn [used]. split; [lia|]. right.
    rewrite (fixedk_kind a 0 Hk). split; [reflexivity | lia].
  - unfold buffer_of. rewrite (type_tag s _ Ht). cbn [Z.land Pos.land Z.eqb Pos.eqb used]. rewrite Hs. split; [reflexivity|].
    right. rewrite (fixedk_kind a 1 Hk). split; [reflexivity | lia].
  - unfold buffer_of. rewrite (type_tag s _ Ht). cbn [Z.land Pos.land Z.eqb Pos.eqb used]. rewrite Hs. split; [reflexivity|].
    right. destruct Hk as [Hk|Hk]; rewrite (fixedk_kind a _ Hk); (split; [reflexivity | lia]).
  - assert (Hbo : buffer_of s = bf s).
    { unfold buffer_of. destruct Hk as [[_ Ht]|[_ Ht]]; rewrite (type_tag s _ Ht); reflexivity. }
    rewrite Hbo, Hb. cbn [used size]. split; [reflexivity|].
    destruct Hk as [[Hk Ht]|[Hk Ht]]; rewrite (fixedk_kind a _ Hk).
    + left. rewrite alimit_arr by exact Hc. auto.
    + right. split; [reflexivity | lia].
  - assert (Hbo : buffer_of s = bf s).
    { unfold buffer_of. destruct Hk as [[_ Ht]|[_ Ht]]; rewrite (type_tag s _ Ht); reflexivity. }
    rewrite Hbo, Hb, Htx. cbn [used size]. split; [reflexivity|].
    destruct Hk as [[Hk Ht]|[Hk Ht]]; rewrite (fixedk_kind a _ Hk).
    + left. unfold alimit. rewrite Hc. auto.
    + right. split; [reflexivity | lia].
Qed.

(* ---- resize ---- *)
Lemma shrink_spec s a n c : Inv true s a -> 0 <= n < len (atext a) ->
  exists s', resize n c s = Some s' /\ Inv true s' (with_text a (zfirstn n (atext a))) /\ erange s' = erange s.
Proof.
  intros [Hf HR] Hn. unfold resize.
  destruct (buffer_view _ _ _ HR) as [Hus _]. rewrite Hus.
  destruct (Z.ltb_spec (len (atext a)) n); [lia|]. destruct (Z.ltb_spec n (len (atext a))); [|lia].
  assert (Hlt : len (zfirstn n (atext a)) = n) by (apply len_zfirstn; lia).
  eexists. split; [reflexivity|].
  destruct HR as [Hk Hu Ht HL Htx Htm|Hk Hu Ht Hs|Hk Hu Ht Hs|Hk Hu Hc Hb Hla HL Htx Htm|Hk Hu Hc Hb Htx Hz].
  - assert (Hsb : is_sbo s) by (unfold is_sbo; lia).
    rewrite (type_sbo s Hsb). consts. change (0 =? 64) with false. change (0 =? 128) with false.
    rewrite (store_un s) by (rewrite ?(live_lo_sbo s Hsb), ?len_single; lia).
    set (s1 := set_un (put (un s) n [0]) s).
    assert (Hu1 : len (un s1) = 64) by (subst s1; cbn [un set_un]; rewrite len_put; rewrite ?len_single; lia).
    split; [|reflexivity]. split; [exact Hf|].
    apply R_sbo; cbn [atext with_text akind]; rewrite ?Hlt.
    + exact Hk.
    + apply len_un_set_tag. exact Hu1.
    + rewrite tag_set_tag by exact Hu1. apply Z.mod_small. lia.
    + lia.
    + unfold set_tag. cbn [un set_un]. consts. rewrite zfirstn_put_lo by (rewrite ?len_single; lia).
      subst s1. cbn [un set_un]. rewrite zfirstn_put_lo by (rewrite ?len_single; lia).
      transitivity (zfirstn n (zfirstn (len (atext a)) (un s))); [symmetry; apply zfirstn_zfirstn; lia | now rewrite Htx].
    + intros _. unfold set_tag. cbn [un set_un]. consts. rewrite znth_put_lo by (rewrite ?len_single; lia).
      subst s1. cbn [un set_un]. rewrite znth_put_in by (rewrite ?len_single; lia). rewrite Z.sub_diag. reflexivity.
  - rewrite (type_tag s _ Ht). change (Z.land 64 192 =? T_Str) with true. cbv iota.
    split; [|reflexivity]. split; [exact Hf|]. apply R_str; cbn [atext with_text akind un str set_str]; auto. now rewrite Hs.
  - rewrite (type_tag s _ Ht). change (Z.land 65 192 =? T_Str) with true. cbv iota.
    split; [|reflexivity]. split; [exact Hf|]. apply R_own; cbn [atext with_text akind un str set_str]; auto. now rewrite Hs.
  - assert (Hty : type s = 128) by (destruct Hk as [[_ Ht]|[_ Ht]]; rewrite (type_tag s _ Ht); reflexivity).
    rewrite Hty. change (128 =? T_Str) with false. change (128 =? T_Buf) with true. cbv iota.
    rewrite Hb. cbn [head base]. rewrite (store_arr (set_used n s)) by (cbn [arr set_used]; rewrite ?len_single; lia).
    split; [|reflexivity]. split; [exact Hf|].
    apply R_arr; cbn [atext with_text akind acap un bf arr set_arr set_used]; rewrite ?Hlt; auto; try lia.
    + rewrite Hb. unfold with_used. cbn [head base size]. reflexivity.
    + rewrite len_put; rewrite ?len_single; lia.
    + rewrite zfirstn_put_lo by (rewrite ?len_single; lia).
      transitivity (zfirstn n (zfirstn (len (atext a)) (arr s))); [symmetry; apply zfirstn_zfirstn; lia | now rewrite Htx].
    + intros _. rewrite znth_put_in by (rewrite ?len_single; lia). rewrite Z.sub_diag. reflexivity.
  - rewrite Htx, len_nil in Hn. lia.
Qed.

Lemma resize_spec s a n c : Inv true s a -> 0 <= n ->
  (resize n c s = None /\ aresize n c a = (1, a, false)) \/
  (exists s' a', resize n c s = Some s' /\ aresize n c a = (0, a', false) /\ Inv true s' a' /\ erange s' = erange s).
Proof.
  intros HI Hn. pose proof HI as [Hf HR].
  destruct (Z.lt_trichotomy (len (atext a)) n) as [Hgt|[Heq|Hlt]].
  - (* grow *)
    unfold resize, aresize. destruct (buffer_view _ _ _ HR) as [Hus Hv]. rewrite Hus.
    destruct (Z.ltb_spec (len (atext a)) n); [|lia]. consts.
    destruct (append_fill_spec s a (n - len (atext a)) c HI ltac:(lia)) as [W1 W2].
    destruct Hv as [(Hfx & Ht & Hsz)|(Hfx & Ht)]; rewrite Hfx; cbn [andb].
    + rewrite Ht, Hsz. change (128 =? 128) with true. cbn [negb]. rewrite orb_false_r.
      destruct (Z.leb_spec n (alimit a)), (Z.ltb_spec (alimit a) n); try lia.
      * right. do 2 eexists. split; [reflexivity|]. split; [reflexivity|]. split; [exact W1|].
        rewrite W2. unfold acut. rewrite Hfx. cbn [andb]. rewrite len_zrepeat by lia.
        replace (aroom a <? n - len (atext a)) with false; [apply orb_false_r|].
        symmetry. apply Z.ltb_ge. unfold aroom. lia.
      * left. split; reflexivity.
    + replace (tag s =? 128) with false by (symmetry; apply Z.eqb_neq; exact Ht). cbn [negb]. rewrite orb_true_r.
      right. do 2 eexists. split; [reflexivity|]. split; [reflexivity|]. split; [exact W1|].
      rewrite W2. unfold acut. rewrite Hfx. apply orb_false_r.
  - right. unfold resize, aresize. destruct (buffer_view _ _ _ HR) as [Hus _]. rewrite Hus.
    destruct (Z.ltb_spec (len (atext a)) n); [lia|]. destruct (Z.ltb_spec n (len (atext a))); [lia|].
    do 2 eexists. split; [reflexivity|]. split; [reflexivity|].
    rewrite zfirstn_all by lia. rewrite with_text_id. auto.
  - right. destruct (shrink_spec s a n c HI ltac:(lia)) as (s' & E & W1 & W2).
    exists s'. eexists. split; [exact E|]. unfold aresize.
    destruct (Z.ltb_spec (len (atext a)) n); [lia|]. split; [reflexivity|]. auto.
Qed.

(* ---- constructors ---- *)
Lemma init_spec k cap ini : 0 <= k <= 3 -> 0 <= cap ->
  Inv true (init k cap ini) (ainit k cap ini) /\ erange (init k cap ini) = false.
Proof.
  intros Hk Hc.
  assert (Hk4 : k = 0 \/ k = 1 \/ k = 2 \/ k = 3) by lia.
  assert (Hbuf : forall t kk, kindtag kk t -> k = kk -> (if k =? 2 then T_Buf else Z.lor T_Buf T_Own) = t -> k <> 0 -> k <> 1 ->
     Inv true (init k cap ini) (ainit k cap ini) /\ erange (init k cap ini) = false).
  { intros t kk Hkt -> Et N0 N1. unfold init.
    replace (kk =? 0) with false by (symmetry; apply Z.eqb_neq; exact N0).
    replace (kk =? 1) with false by (symmetry; apply Z.eqb_neq; exact N1).
    rewrite Et. unfold ainit. replace (kk =? 1) with false by (symmetry; apply Z.eqb_neq; exact N1).
    assert (Ht : t = 128 \/ t = 129) by (destruct Hkt as [[_ ->]|[_ ->]]; auto).
    destruct (Z.eqb_spec cap 0) as [->|Hnz].
    - split; [|destruct Ht as [->| ->]; reflexivity]. split; [destruct Ht as [->| ->]; reflexivity|].
      apply R_zero; cbn [akind acap atext]; try reflexivity.
      destruct Ht as [->| ->]; exact Hkt.
    - cbn [head base].
      set (s0 := mk (zrepeat OPAQUE SboBytes) (mkB RUn 0 0 0) (zrepeat ARR_FILL cap) [] false false).
      set (s1 := set_bf (mkB RArr 0 0 (cap - 1)) s0).
      assert (Hla : len (arr s1) = cap) by (subst s1 s0; cbn [arr set_bf]; apply len_zrepeat; lia).
      rewrite (store_arr s1) by (rewrite ?len_single; lia).
      set (s2 := set_arr (put (arr s1) 0 [0]) s1).
      assert (Hu2 : len (un s2) = 64) by reflexivity.
      split; [|reflexivity]. split; [reflexivity|].
      assert (Htag : tag (set_tag t s2) = t).
      { rewrite tag_set_tag by exact Hu2. destruct Ht as [->| ->]; reflexivity. }
      apply R_arr; cbn [akind acap atext]; rewrite ?len_nil.
      + rewrite Htag. exact Hkt.
      + apply len_un_set_tag. exact Hu2.
      + lia.
      + reflexivity.
      + subst s2. cbn [arr set_tag set_un set_arr]. rewrite len_put; rewrite ?len_single; lia.
      + lia.
      + reflexivity.
      + intros _. subst s2. cbn [arr set_tag set_un set_arr].
        rewrite znth_put_in by (rewrite ?len_single; lia). reflexivity. }
  destruct Hk4 as [->|[->|[->| ->]]].
  - split; [|reflexivity]. split; [reflexivity|]. apply R_sbo; reflexivity || (cbn; lia) || (intros; reflexivity).
  - split; [|reflexivity]. split; [reflexivity|]. apply R_str; reflexivity.
  - apply (Hbuf 128 2); try reflexivity; try lia. left. auto.
  - apply (Hbuf 129 3); try reflexivity; try lia. right. auto.
Qed.

(* ---- what c_str()/size()/maxSize() report ---- *)
Lemma view_spec s a : Inv true s a ->
  c_size s = len (atext a) /\ c_text s = atext a /\ c_term s = 0 /\ max_size s = amax a /\ fault s = false.
Proof.
  intros [Hf HR]. unfold c_size, c_text, c_term, max_size, amax.
  destruct (buffer_view _ _ _ HR) as [Hus Hv]. rewrite Hus.
  assert (Hmx : (if tag s =? T_Buf then size (buffer_of s) else -1) = (if fixedk a then alimit a else -1)).
  { consts. destruct Hv as [(Hfx & Ht & Hsz)|(Hfx & Ht)]; rewrite Hfx.
    - rewrite Ht, Hsz. reflexivity.
    - replace (tag s =? 128) with false by (symmetry; apply Z.eqb_neq; exact Ht). reflexivity. }
  rewrite Hmx.
  assert (Htx : load (head (buffer_of s)) (base (buffer_of s)) (len (atext a)) s = atext a /\
                znth (pos (buffer_of s)) (region (head (buffer_of s)) s) = 0).
  { clear Hmx Hv. unfold pos. rewrite Hus.
    destruct HR as [Hk Hu Ht HL Htx Htm|Hk Hu Ht Hs|Hk Hu Ht Hs|Hk Hu Hc Hb Hla HL Htx Htm|Hk Hu Hc Hb Htx Hz].
    - pose proof (len_nonneg (atext a)).
      rewrite buffer_of_sbo by (unfold is_sbo; lia). cbn [head base region]. unfold load. cbn [region].
      rewrite zskipn_0. split; [exact Htx | apply Htm; reflexivity].
    - assert (Hbo : buffer_of s = mkB RStr 0 (len (str s)) (len (str s))).
      { unfold buffer_of. rewrite (type_tag s _ Ht). reflexivity. }
      rewrite Hbo. cbn [head base].
      unfold load. cbn [region]. rewrite zskipn_0, Hs, zfirstn_app_exact. split; [reflexivity|].
      rewrite znth_app_r by lia. replace (0 + len (atext a) - len (atext a)) with 0 by lia. reflexivity.
    - assert (Hbo : buffer_of s = mkB RStr 0 (len (str s)) (len (str s))).
      { unfold buffer_of. rewrite (type_tag s _ Ht). reflexivity. }
      rewrite Hbo. cbn [head base].
      unfold load. cbn [region]. rewrite zskipn_0, Hs, zfirstn_app_exact. split; [reflexivity|].
      rewrite znth_app_r by lia. replace (0 + len (atext a) - len (atext a)) with 0 by lia. reflexivity.
    - assert (Hbo : buffer_of s = bf s).
      { unfold buffer_of. destruct Hk as [[_ Ht]|[_ Ht]]; rewrite (type_tag s _ Ht); reflexivity. }
      rewrite Hbo, Hb. cbn [head base]. unfold load. cbn [region]. rewrite zskipn_0.
      split; [exact Htx | apply Htm; reflexivity].
    - assert (Hbo : buffer_of s = bf s).
      { unfold buffer_of. destruct Hk as [[_ Ht]|[_ Ht]]; rewrite (type_tag s _ Ht); reflexivity. }
      rewrite Hbo, Hb, Htx. cbn [head base]. unfold load. cbn [region]. rewrite len_nil, zfirstn_0.
      split; [reflexivity | exact Hz]. }
  destruct Htx as [E1 E2]. rewrite E1, E2. auto.
Qed.

Lemma observe_spec s a e : Inv true s a -> observe e s = aobserve e a (erange s).
Proof.
  intros HI. destruct (view_spec s a HI) as (E1 & E2 & E3 & E4 & E5).
  unfold observe, aobserve. rewrite E1, E2, E3, E4, E5. reflexivity.
Qed.

(* ---- one step ---- *)
Lemma step_spec s a o : Inv true s a -> ok_op o ->
  let '(e, s') := step s o in
  let '(e', a', cut) := astep a o in
  e = e' /\ Inv true s' a' /\ erange s' = cut.
Proof.
  intros HI Hok.
  assert (HI0 : Inv true (set_erange false s) a) by (apply Inv_erange; exact HI).
  assert (He0 : erange (set_erange false s) = false) by reflexivity.
  unfold step. set (s0 := set_erange false s) in *.
  destruct o as [d|d|n c|u p|pre body|n c|]; cbn [astep piece ok_op] in *.
  - destruct (append_bytes_spec s0 a d HI0) as [W1 W2]. rewrite He0 in W2. auto.
  - destruct (append_cstr_spec s0 a d HI0) as [W1 W2]. rewrite He0 in W2. auto.
  - destruct (append_fill_spec s0 a n c HI0 Hok) as [W1 W2]. rewrite He0 in W2. auto.
  - unfold append_num. rewrite (num_text_piece u p Hok).
    destruct (append_bytes_spec s0 a (num_piece u p) HI0) as [W1 W2]. rewrite He0 in W2. auto.
  - pose proof (append_format_spec s0 a pre body HI0) as W. cbv zeta in W. destruct W as [W1 W2].
    rewrite He0 in W2. cbn [orb] in W2.
    destruct body as [bd|]; [auto|]. rewrite orb_false_r in W2. auto.
  - destruct (resize_spec s0 a n c HI0 Hok) as [[E1 E2]|(s' & a' & E1 & E2 & W1 & W2)]; rewrite E1, E2.
    + auto.
    + rewrite He0 in W2. auto.
  - destruct (resize_spec s0 a 0 0 HI0 ltac:(lia)) as [[E1 E2]|(s' & a' & E1 & E2 & W1 & W2)]; rewrite E1, E2.
    + auto.
    + rewrite He0 in W2. auto.
Qed.

Lemma run_ops_spec ops : forall s a, Inv true s a -> Forall ok_op ops ->
  fst (run_ops s ops) = fst (arun_ops a ops) /\ Inv true (snd (run_ops s ops)) (snd (arun_ops a ops)).
Proof.
  induction ops as [|o r IH]; intros s a HI Hok.
  - split; [reflexivity | exact HI].
  - inversion Hok as [|? ? Ho Hr]; subst.
    pose proof (step_spec s a o HI Ho) as Hs. cbn [run_ops arun_ops].
    destruct (step s o) as [e s1]. destruct (astep a o) as [[e' a1] cut].
    destruct Hs as (-> & HI1 & Hcut).
    specialize (IH s1 a1 HI1 Hr).
    destruct (run_ops s1 r) as [out s2]. destruct (arun_ops a1 r) as [out' a2]. cbn [fst snd] in *.
    destruct IH as [-> HI2]. split; [|exact HI2].
    rewrite (observe_spec s1 a1 e' HI1), Hcut. reflexivity.
Qed.

Theorem run_refines k cap ini ops : 0 <= k <= 3 -> 0 <= cap -> Forall ok_op ops ->
  run k cap ini ops = arun k cap ini ops.
Proof.
  intros Hk Hc Hok. unfold run, arun.
  destruct (init_spec k cap ini Hk Hc) as [HI He].
  destruct (run_ops_spec ops _ _ HI Hok) as [E _].
  rewrite (observe_spec _ _ 0 HI), He, E. reflexivity.
Qed.

(* ---- appends from the builder's own text: resolved against the reported text, which is the abstract text ---- *)
Lemma resolve_spec s a x : Inv true s a -> resolve s x = aresolve a x.
Proof.
  intros HI. destruct (view_spec s a HI) as (_ & E & _).
  destruct x as [o|off n|off]; cbn [resolve aresolve]; rewrite ?E; reflexivity.
Qed.

Lemma resolve_ok s x : ok_xop x -> ok_op (resolve s x).
Proof. destruct x; cbn; auto. Qed.

Lemma run_xops_spec xs : forall s a, Inv true s a -> Forall ok_xop xs ->
  fst (run_xops s xs) = fst (arun_xops a xs) /\ Inv true (snd (run_xops s xs)) (snd (arun_xops a xs)).
Proof.
  induction xs as [|x r IH]; intros s a HI Hok.
  - split; [reflexivity | exact HI].
  - inversion Hok as [|? ? Ho Hr]; subst.
    cbn [run_xops arun_xops]. rewrite <- (resolve_spec s a x HI).
    pose proof (step_spec s a (resolve s x) HI (resolve_ok s x Ho)) as Hs.
    destruct (step s (resolve s x)) as [e s1]. destruct (astep a (resolve s x)) as [[e' a1] cut].
    destruct Hs as (-> & HI1 & Hcut).
    specialize (IH s1 a1 HI1 Hr).
    destruct (run_xops s1 r) as [out s2]. destruct (arun_xops a1 r) as [out' a2]. cbn [fst snd] in *.
    destruct IH as [-> HI2]. split; [|exact HI2].
    rewrite (observe_spec s1 a1 e' HI1), Hcut. reflexivity.
Qed.

Theorem run_x_refines k cap ini xs : 0 <= k <= 3 -> 0 <= cap -> Forall ok_xop xs ->
  run_x k cap ini xs = arun_x k cap ini xs.
Proof.
  intros Hk Hc Hok. unfold run_x, arun_x.
  destruct (init_spec k cap ini Hk Hc) as [HI He].
  destruct (run_xops_spec xs _ _ HI Hok) as [E _].
  rewrite (observe_spec _ _ 0 HI), He, E. reflexivity.
Qed.

(* a history with self-appends IS a history of plain operations (the slices written out): every statement about the
   states reachable through plain operation lists covers the states reachable with self-appends *)
Lemma xops_flatten xs : forall s, Forall ok_xop xs ->
  exists ops, Forall ok_op ops /\ run_ops s ops = run_xops s xs.
Proof.
  induction xs as [|x r IH]; intros s Hok.
  - exists []. split; [constructor | reflexivity].
  - inversion Hok as [|? ? Ho Hr]; subst.
    destruct (IH (snd (step s (resolve s x))) Hr) as (ops & Hops & E).
    exists (resolve s x :: ops). split; [constructor; [apply resolve_ok; exact Ho | exact Hops]|].
    cbn [run_ops run_xops]. destruct (step s (resolve s x)) as [e s1]. cbn [snd] in E. rewrite E. reflexivity.
Qed.
