(* C17 - executable model of Potassco::StringBuilder (potassco/string_convert.h, src/string_convert.cpp).

   Memory is three regions of cells (Z; chars are 0..255, 256 = "bytes of a pointer / size_t / never
   initialised"):
     un   the 64-byte union { std::string* str_; Buffer buf_; char sbo_[64] } - cell TagIdx (63) is the
          tag byte, which is at the same time sbo_[63];  writing str_ / buf_ makes cells [0,8) / [0,24)
          opaque; a char store onto those live cells is a Fault
     arr  the caller's array [buf, buf+cap): every store with a cell outside it is a Fault (guard cells)
     str  the std::string *str_ (the caller's, or the one the builder owns after spilling) - MODELLED as an
          unbounded list; chars [0,size) may be overwritten, the terminator cell only with 0
   Buffer = { head (region + offset), used, size } as in the code.  size_t values are mathematical
   integers: the code (after the repair of grow) compares before it adds, so none of the expressions
   evaluated on the fixed-array path can exceed 2^64 when the operands are < 2^64.
   vsnprintf(dst, cap, fmt, args) is MODELLED on the already formatted text body:
     cap = 0: writes nothing;  cap > 0: writes min(|body|, cap-1) chars and a 0;  returns |body|.      *)
Require Import V.Lib.Base V.Gen.Consts_C17.
Local Open Scope Z_scope.

Definition OPAQUE : Z := 256.
Definition ARR_FILL : Z := 170.

Definition len (l : list Z) : Z := Z.of_nat (length l).
Definition zfirstn (k : Z) (l : list Z) : list Z := firstn (Z.to_nat k) l.
Definition zskipn (k : Z) (l : list Z) : list Z := skipn (Z.to_nat k) l.
Definition znth (k : Z) (l : list Z) : Z := nth (Z.to_nat k) l 0.
Definition zrepeat (c : Z) (n : Z) : list Z := repeat c (Z.to_nat n).

(* overwrite |data| cells of l from offset off *)
Definition put (l : list Z) (off : Z) (data : list Z) : list Z :=
  zfirstn off l ++ data ++ zskipn (off + len data) l.
Definition fits (l : list Z) (off : Z) (data : list Z) : bool :=
  (0 <=? off) && (off + len data <=? len l).

Inductive reg := RUn | RArr | RStr.
Record buffer := mkB { head : reg; base : Z; used : Z; size : Z }.
Definition free (b : buffer) : Z := size b - used b.
Definition pos (b : buffer) : Z := base b + used b.
Definition with_used (b : buffer) (u : Z) : buffer := mkB (head b) (base b) u (size b).

Record st := mk { un : list Z; bf : buffer; arr : list Z; str : list Z; erange : bool; fault : bool }.

Definition set_un (l : list Z) (s : st) := mk l (bf s) (arr s) (str s) (erange s) (fault s).
Definition set_arr (l : list Z) (s : st) := mk (un s) (bf s) l (str s) (erange s) (fault s).
Definition set_str (l : list Z) (s : st) := mk (un s) (bf s) (arr s) l (erange s) (fault s).
Definition set_erange (e : bool) (s : st) := mk (un s) (bf s) (arr s) (str s) e (fault s).
Definition set_fault (s : st) := mk (un s) (bf s) (arr s) (str s) (erange s) true.

(* uint8_t tag() const { return sbo_[63]; }   Type type() const { return tag() & (Str|Buf); } *)
Definition tag (s : st) : Z := znth TagIdx (un s).
Definition type (s : st) : Z := Z.land (tag s) (Z.lor T_Str T_Buf).
(* void setTag(uint8_t t) { sbo_[63] = t; } *)
Definition set_tag (t : Z) (s : st) : st := set_un (put (un s) TagIdx [t mod 256]) s.
(* assigning the union members str_ / buf_ *)
Definition set_strptr (s : st) : st := set_un (put (un s) 0 (zrepeat OPAQUE PtrBytes)) s.
Definition set_bf (b : buffer) (s : st) : st :=
  mk (put (un s) 0 (zrepeat OPAQUE BufBytes)) b (arr s) (str s) (erange s) (fault s).
(* buf_.used = u : only cells [8,16) of the union change (they are opaque already) *)
Definition set_used (u : Z) (s : st) : st :=
  mk (un s) (with_used (bf s) u) (arr s) (str s) (erange s) (fault s).

(* cells of the union currently occupied by str_ / buf_ *)
Definition live_lo (s : st) : Z :=
  if type s =? T_Buf then BufBytes else if type s =? T_Str then PtrBytes else 0.

(* char stores through a pointer (r, off) *)
Definition store (r : reg) (off : Z) (data : list Z) (s : st) : st :=
  match r with
  | RUn => if fits (un s) off data && ((live_lo s <=? off) || (len data =? 0))
           then set_un (put (un s) off data) s else set_fault s
  | RArr => if fits (arr s) off data then set_arr (put (arr s) off data) s else set_fault s
  | RStr => if fits (str s) off data then set_str (put (str s) off data) s
            else if (off =? len (str s)) && list_eqb data [0] then s   (* s[size()] = '\0' is allowed *)
            else set_fault s
  end.

Definition region (r : reg) (s : st) : list Z :=
  match r with RUn => un s | RArr => arr s | RStr => str s ++ [0] end.
Definition load (r : reg) (off n : Z) (s : st) : list Z := zfirstn n (zskipn off (region r s)).

(* Buffer buffer() const *)
Definition buffer_of (s : st) : buffer :=
  if type s =? T_Buf then bf s
  else if type s =? T_Str then mkB RStr 0 (len (str s)) (len (str s))
  else mkB RUn 0 (SboCap - tag s) SboCap.      (* case Sbo (and the unreachable default) *)

(* Buffer grow(size_t n) - with the repaired fixed-array branch: if (n <= free) used += n; else ... *)
Definition grow (n : Z) (s : st) : buffer * st :=
  let bft := type s in
  if (bft =? T_Sbo) && (n <=? tag s) then (buffer_of s, set_tag (tag s - n) s)
  else if (bft =? T_Buf) && ((n <=? free (bf s)) || (Z.land (tag s) T_Own =? 0)) then
    let b := bf s in
    if n <=? free b then (b, set_used (used b + n) s)
    else (b, set_erange true (set_used (size b) s))
  else
    let s1 :=
      if bft =? T_Str then s else
        (* StringBuilder temp; temp.str_ = new std::string; reserve; append(current.head, current.used);
           setTag(Str|Own); str_ = temp.str_ *)
        let cur := buffer_of s in
        let content := load (head cur) (base cur) (used cur) s in
        set_strptr (set_tag (Z.lor T_Str T_Own) (set_str content s)) in
    let s2 := set_str (str s1 ++ zrepeat 0 n) s1 in           (* str_->append(n, '\0') *)
    (mkB RStr 0 (len (str s2) - n) (len (str s2)), s2).

(* the common tail of append(const char*, size_t) / append(size_t, char):
     Buffer buf = grow(n); mem{cpy,set}(buf.pos(), .., n = min(n, buf.free())); buf.pos()[n] = 0;
   dat m = the first m chars of the piece (never materialised beyond what is written) *)
Definition grow_write (n : Z) (dat : Z -> list Z) (s : st) : st :=
  let '(buf, s1) := grow n s in
  let m := Z.min n (free buf) in
  let s2 := store (head buf) (pos buf) (dat m) s1 in
  store (head buf) (pos buf + m) [0] s2.

(* StringBuilder& append(const char* str, size_t n); data = the bytes str denotes when the call is made.  Since 230fbe6 the code
   copies them aside when an inline builder is about to spill (str may point into sbo_, which the spill overwrites): a no-op on values *)
Definition append_bytes (data : list Z) (s : st) : st :=
  if type s =? T_Str then set_str (str s ++ data) s
  else grow_write (len data) (fun m => zfirstn m data) s.

(* StringBuilder& append(const char* str) : str && *str ? append(str, strlen(str)) : *this *)
Definition append_cstr (data : list Z) (s : st) : st :=
  match cut0 data with [] => s | p => append_bytes p s end.

(* StringBuilder& append(size_t n, char c) *)
Definition append_fill (n c : Z) (s : st) : st :=
  if type s =? T_Str then set_str (str s ++ zrepeat c n) s
  else grow_write n (fun m => zrepeat c m) s.

(* StringBuilder& append_(uint64_t n, bool pos): digits are written downwards into char temp[NumTemp];
   acc = the cells temp[p+1 ..] written so far *)
Fixpoint num_loop (fuel : nat) (n : Z) (acc : list Z) : option (list Z) :=
  match fuel with
  | O => None
  | S f => if 10 <=? n then num_loop f (n / 10) ((48 + n mod 10) :: acc) else Some ((n + 48) :: acc)
  end.
Definition two64 : Z := 18446744073709551616.
Definition num_text (u : Z) (positive : bool) : option (list Z) :=
  let m := if positive then u else (two64 - u) mod two64 in         (* n = ~n + 1 *)
  match num_loop 64 m [] with
  | Some ds => let t := if positive then ds else 45 :: ds in
               if len t <=? NumTemp then Some t else None           (* a write below temp[0] *)
  | None => None
  end.
Definition append_num (u : Z) (positive : bool) (s : st) : st :=
  match num_text u positive with
  | Some t => append_bytes t s
  | None => set_fault s
  end.

(* vsnprintf(dst, cap, ...) producing body *)
Definition vsn (r : reg) (off cap : Z) (body : list Z) (s : st) : st :=
  if cap <=? 0 then s else
  let k := Z.min (len body) (cap - 1) in
  store r (off + k) [0] (store r off (zfirstn k body) s).

(* the part of appendFormat behind  if (n > 0) : buf = grow(n); x = vsnprintf(buf.pos(), buf.free()+1, ..);
   if (x > buf.free()) errno = ERANGE *)
Definition second_pass (body : list Z) (s : st) : st :=
  let n := len body in
  let '(buf, s1) := grow n s in
  let s2 := vsn (head buf) (pos buf) (free buf + 1) body s1 in
  if free buf <? n then set_erange true s2 else s2.

(* StringBuilder& appendFormat(const char* fmt, ...): pre = fmt up to the first '%',
   body = Some (expansion of the rest) when there is a rest *)
Definition append_format (pre : list Z) (body : option (list Z)) (s : st) : st :=
  let s0 := match pre with [] => s | _ => append_bytes pre s end in
  match body with
  | None => s0
  | Some bd =>
      let n := len bd in
      let buf := buffer_of s0 in
      if free buf =? 0 then
        (* char small[64]: first pass goes to the local array *)
        let small := zfirstn (Z.min n (SmallSize - 1)) bd ++ [0] in
        if (0 <? n) && (n <? SmallSize) then append_bytes (zfirstn n small) s0
        else if 0 <? n then second_pass bd s0
        else s0
      else
        let s1 := vsn (head buf) (pos buf) (free buf) bd s0 in
        if (0 <? n) && (n <? free buf) then snd (grow n s1)
        else if 0 <? n then second_pass bd s1
        else s1
  end.

(* StringBuilder& resize(size_t n, char c); None = POTASSCO_REQUIRE throws std::logic_error *)
Definition resize (n c : Z) (s : st) : option st :=
  let b := buffer_of s in
  if used b <? n then
    if (n <=? size b) || negb (tag s =? T_Buf) then Some (append_fill (n - used b) c s) else None
  else if n <? used b then
    Some (if type s =? T_Str then set_str (zfirstn n (str s)) s
          else if type s =? T_Buf then store (head (bf s)) (base (bf s) + n) [0] (set_used n s)
          else set_tag (SboCap - n) (store RUn n [0] s))
  else Some s.

(* constructors: k = 0 StringBuilder(), 1 StringBuilder(std::string&), 2 (buf, cap, Fixed), 3 (buf, cap, Dynamic) *)
Definition init (k cap : Z) (ini : list Z) : st :=
  let s0 := mk (zrepeat OPAQUE SboBytes) (mkB RUn 0 0 0) (zrepeat ARR_FILL cap) [] false false in
  if k =? 0 then set_tag SboCap (store RUn 0 [0] s0)
  else if k =? 1 then set_tag T_Str (set_strptr (set_str ini s0))
  else
    (* if (!n) { buf = sbo_ + (SboCap - 2); n = 1; }  *(buf_.head = buf) = 0; used = 0; size = n - 1; setTag *)
    let b := if cap =? 0 then mkB RUn ZeroCapOff 0 0 else mkB RArr 0 0 (cap - 1) in
    let s1 := set_bf b s0 in
    set_tag (if k =? 2 then T_Buf else Z.lor T_Buf T_Own) (store (head b) (base b) [0] s1).

(* ---- operations as data ---- *)
Inductive op :=
| OBytes (d : list Z) | OCstr (d : list Z) | OFill (n c : Z) | ONum (u : Z) (positive : bool)
| OFormat (pre : list Z) (body : option (list Z)) | OResize (n c : Z) | OClear.

(* exception code (0 none, 1 logic_error) and new state; errno is cleared before every call *)
Definition step (s : st) (o : op) : Z * st :=
  let s := set_erange false s in
  match o with
  | OBytes d => (0, append_bytes d s)
  | OCstr d => (0, append_cstr d s)
  | OFill n c => (0, append_fill n c s)
  | ONum u p => (0, append_num u p s)
  | OFormat pre b => (0, append_format pre b s)
  | OResize n c => match resize n c s with Some s' => (0, s') | None => (1, s) end
  | OClear => match resize 0 0 s with Some s' => (0, s') | None => (1, s) end
  end.

(* c_str() / size() / maxSize() *)
Definition c_text (s : st) : list Z := let b := buffer_of s in load (head b) (base b) (used b) s.
Definition c_size (s : st) : Z := used (buffer_of s).
Definition c_term (s : st) : Z := let b := buffer_of s in znth (pos b) (region (head b) s).
Definition max_size (s : st) : Z := if tag s =? T_Buf then size (buffer_of s) else -1.   (* -1: size_t(-1) - sizeof(this) *)

Definition observe (exc : Z) (s : st) : list Z :=
  [exc; c_size s] ++ c_text s ++ [c_term s; max_size s; b2z (erange s); b2z (negb (fault s))].

Fixpoint run_ops (s : st) (ops : list op) : list Z * st :=
  match ops with
  | [] => ([], s)
  | o :: r => let '(e, s1) := step s o in
              let '(out, s2) := run_ops s1 r in (observe e s1 ++ out, s2)
  end.

Definition run (k cap : Z) (ini : list Z) (ops : list op) : list Z :=
  let s := init k cap ini in
  observe 0 s ++ fst (run_ops s ops).

(* ---- case decoding: kind cap ilen ini... ops...  (see props/C17.py) ---- *)
Definition take (l : list Z) : list Z * list Z :=      (* length-prefixed byte string *)
  match l with
  | n :: r => (firstn (Z.to_nat n) r, skipn (Z.to_nat n) r)
  | [] => ([], [])
  end.

Definition sx32 (v : Z) : Z := (v + 2147483648) mod 4294967296 - 2147483648.
Definition dec_text (v : Z) : list Z :=             (* what %d prints *)
  match num_loop 64 (Z.abs v) [] with
  | Some ds => if v <? 0 then 45 :: ds else ds
  | None => []
  end.

(* one operation from the front of the case; None = end / not an operation *)
Definition decode1 (l : list Z) : option (op * list Z) :=
  match l with
  | 1 :: r => let '(d, r') := take r in Some (OBytes d, r')
  | 2 :: r => let '(d, r') := take r in Some (OCstr d, r')
  | 3 :: n :: c :: r => Some (OFill (n mod two64) (c mod 256), r)
  | 4 :: v :: r => Some (ONum (v mod two64) (0 <=? v), r)
  | 5 :: v :: r => Some (ONum (v mod two64) true, r)
  | 6 :: r =>
      let '(pre, r1) := take r in
      match r1 with
      | 0 :: r2 => Some (OFormat pre None, r2)
      | 1 :: r2 => let '(a, r3) := take r2 in let '(suf, r4) := take r3 in
                   Some (OFormat pre (Some (cut0 a ++ suf)), r4)
      | 2 :: v :: r2 => let '(suf, r3) := take r2 in
                   Some (OFormat pre (Some (dec_text (sx32 v) ++ suf)), r3)
      | 3 :: r2 => let '(suf, r3) := take r2 in Some (OFormat pre (Some (37 :: suf)), r3)
      | 4 :: c :: r2 => let '(suf, r3) := take r2 in Some (OFormat pre (Some ((c mod 256) :: suf)), r3)
      | _ => None
      end
  | 7 :: n :: c :: r => Some (OResize (n mod two64) (c mod 256), r)
  | 8 :: r => Some (OClear, r)
  (* 10 m bits n text.. : append(double) and what forwards to it.  The model has no floating point: the case carries the
     "%g" text of the value (computed by the generator; the harness ignores it and calls the real overload with the value
     whose 64-bit pattern is `bits`), and append(double x) { return appendFormat("%g", x); } is the formatted piece with an
     empty literal prefix.  m = 2, 3: xconvert(std::string& tmp, double) / toString(double) on a temporary, whose result
     is then appended with append(ptr, n). *)
  | 10 :: m :: _ :: r =>
      let '(t, r') := take r in
      if (m =? 2) || (m =? 3) then Some (OBytes t, r') else Some (OFormat [] (Some t), r')
  | _ => None
  end.

Fixpoint decode_ops (fuel : nat) (l : list Z) : list op :=
  match fuel with
  | O => []
  | S f => match decode1 l with Some (o, r) => o :: decode_ops f r | None => [] end
  end.

(* ---- appends whose SOURCE is the builder's own current text ----
   sb.append(sb.c_str() + off, n) / sb.append(sb.toSpan().first + off, n) / sb.append(sb.c_str() + off):
   the argument is a pointer into the text the builder reports at the moment of the call.  An append has VALUE
   semantics: what is appended are the bytes the argument denotes when the call is made, wherever they are stored -
   so the operation is the plain append of that slice of the current text (resolve).  off and n are clamped to the
   text by the caller (a pointer outside [c_str(), c_str()+size()] would not be the builder's text); suffix/slice clamp
   in the same way. *)
Inductive xop := XOp (o : op) | XSelf (off n : Z) | XSelfC (off : Z).
(* clamped before Z.to_nat, so that an absurd offset / length in a case never builds a huge unary number *)
Definition suffix (t : list Z) (off : Z) : list Z := zskipn (Z.min off (len t)) t.
Definition slice (t : list Z) (off n : Z) : list Z := zfirstn (Z.min n (len t)) (suffix t off).
Definition resolve (s : st) (x : xop) : op :=
  match x with
  | XOp o => o
  | XSelf off n => OBytes (slice (c_text s) off n)          (* append(c_str() + off, n) *)
  | XSelfC off => OCstr (suffix (c_text s) off)             (* append(c_str() + off): up to the first NUL *)
  end.

Fixpoint run_xops (s : st) (xs : list xop) : list Z * st :=
  match xs with
  | [] => ([], s)
  | x :: r => let '(e, s1) := step s (resolve s x) in
              let '(out, s2) := run_xops s1 r in (observe e s1 ++ out, s2)
  end.

Definition run_x (k cap : Z) (ini : list Z) (xs : list xop) : list Z :=
  let s := init k cap ini in
  observe 0 s ++ fst (run_xops s xs).

(* 9 m off n : m = 2 the C-string flavour (n ignored), every other m a (pointer, length) flavour *)
Definition decode1x (l : list Z) : option (xop * list Z) :=
  match l with
  | 9 :: m :: off :: n :: r => Some ((if m =? 2 then XSelfC off else XSelf off n), r)
  | _ => match decode1 l with Some (o, r) => Some (XOp o, r) | None => None end
  end.

Fixpoint decode_xops (fuel : nat) (l : list Z) : list xop :=
  match fuel with
  | O => []
  | S f => match decode1x l with Some (x, r) => x :: decode_xops f r | None => [] end
  end.

Definition run_case (c : list Z) : list Z :=
  match c with
  | k :: cap :: r => let '(ini, r') := take r in run_x k cap ini (decode_xops (length r') r')
  | _ => []
  end.
