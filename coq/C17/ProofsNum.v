(* C17 - append_(uint64_t, bool): the digit loop prints the decimal representation and stays inside temp[22]. *)
Require Import V.Lib.Base V.Lib.Dec V.Gen.Consts_C17 V.C17.Model V.C17.Spec V.C17.ProofsList.
Require Import ZifyBool.
Local Open Scope Z_scope.
Ltac Zify.zify_post_hook ::= Z.div_mod_to_equations.

Lemma pow10_S f : 10 ^ Z.of_nat (S f) = 10 * 10 ^ Z.of_nat f.
Proof. rewrite Nat2Z.inj_succ, Z.pow_succ_r by lia. reflexivity. Qed.
Lemma pow10_pos f : 0 < 10 ^ Z.of_nat f.
Proof. apply Z.pow_pos_nonneg; lia. Qed.

Lemma num_loop_digits f : forall n acc, 0 <= n < 10 ^ Z.of_nat (S f) ->
  num_loop (S f) n acc = Some (digits_f (S f) n acc).
Proof.
  induction f as [|f IH]; intros n acc Hn.
  - change (10 ^ Z.of_nat 1) with 10 in Hn. cbn [num_loop digits_f].
    destruct (Z.leb_spec 10 n); [lia|]. destruct (Z.ltb_spec n 10); [|lia]. do 2 f_equal. lia.
  - cbn [num_loop digits_f]. fold (num_loop (S f)). fold (digits_f (S f)).
    destruct (Z.leb_spec 10 n), (Z.ltb_spec n 10); try lia.
    + apply IH. rewrite pow10_S in Hn. pose proof (pow10_pos (S f)). split; [lia|].
      apply Z.div_lt_upper_bound; lia.
    + do 2 f_equal. lia.
Qed.

Lemma digits_f_fuel f1 : forall f2 n acc, 0 <= n < 10 ^ Z.of_nat (S f1) -> 0 <= n < 10 ^ Z.of_nat (S f2) ->
  digits_f (S f1) n acc = digits_f (S f2) n acc.
Proof.
  induction f1 as [|f1 IH]; intros f2 n acc H1 H2.
  - change (10 ^ Z.of_nat 1) with 10 in H1. cbn [digits_f]. destruct (Z.ltb_spec n 10); [reflexivity | lia].
  - destruct f2 as [|f2].
    + change (10 ^ Z.of_nat 1) with 10 in H2. cbn [digits_f]. destruct (Z.ltb_spec n 10); [reflexivity | lia].
    + cbn [digits_f]. fold (digits_f (S f1)). fold (digits_f (S f2)).
      destruct (Z.ltb_spec n 10); [reflexivity|].
      rewrite pow10_S in H1, H2. pose proof (pow10_pos (S f1)). pose proof (pow10_pos (S f2)).
      apply IH; (split; [lia | apply Z.div_lt_upper_bound; lia]).
Qed.

Lemma digits_f_len f : forall n acc, len (digits_f f n acc) <= Z.of_nat f + len acc.
Proof.
  induction f as [|f IH]; intros n acc; cbn [digits_f]; [lia|].
  destruct (n <? 10).
  - rewrite len_cons. lia.
  - specialize (IH (n / 10) ((48 + n mod 10) :: acc)). rewrite len_cons in IH. lia.
Qed.

Lemma print_nat_fuel n f : 0 <= n < 10 ^ Z.of_nat (S f) -> print_nat n = digits_f (S f) n [].
Proof.
  intros H. unfold print_nat. apply digits_f_fuel; [|exact H].
  split; [lia|].
  destruct (Z.eq_dec n 0) as [->|Hnz]; [apply pow10_pos|].
  assert (Hl : n < 2 ^ Z.succ (Z.log2 n)) by (apply Z.log2_spec; lia).
  pose proof (Z.log2_nonneg n) as Hl0.
  rewrite Nat2Z.inj_succ, Z2Nat.id by lia.
  assert (2 ^ Z.succ (Z.log2 n) <= 10 ^ Z.succ (Z.log2 n)) by (apply Z.pow_le_mono_l; lia).
  lia.
Qed.

Lemma num_loop_print u : 0 <= u < two64 ->
  num_loop 64 u [] = Some (print_nat u) /\ len (print_nat u) <= 20.
Proof.
  intros H. unfold two64 in H.
  assert (H20 : 0 <= u < 10 ^ Z.of_nat 20) by (change (10 ^ Z.of_nat 20) with 100000000000000000000; lia).
  assert (H64 : 0 <= u < 10 ^ Z.of_nat 64).
  { assert (10 ^ Z.of_nat 20 <= 10 ^ Z.of_nat 64) by (apply Z.pow_le_mono_r; lia). lia. }
  split.
  - rewrite (num_loop_digits 63) by exact H64. f_equal. symmetry. apply print_nat_fuel. exact H64.
  - rewrite (print_nat_fuel u 19) by exact H20.
    pose proof (digits_f_len 20 u []). rewrite len_nil in *. lia.
Qed.

Lemma num_text_piece u p : 0 <= u < two64 -> num_text u p = Some (num_piece u p).
Proof.
  intros Hu. unfold num_text, num_piece. destruct p.
  - destruct (num_loop_print u Hu) as [E L]. rewrite E. unfold NumTemp.
    destruct (Z.leb_spec (len (print_nat u)) 22); [reflexivity | lia].
  - assert (Hm : 0 <= (two64 - u) mod two64 < two64) by (apply Z.mod_pos_bound; reflexivity).
    destruct (num_loop_print _ Hm) as [E L]. rewrite E. unfold NumTemp.
    rewrite len_cons. destruct (Z.leb_spec (1 + len (print_nat ((two64 - u) mod two64))) 22); [reflexivity | lia].
Qed.
