(* C17 - the abstract string builder: kind, capacity, text.  Definitions only.
   kind 0 self-contained, 1 caller's std::string, 2 caller's fixed array, 3 caller's array that may spill. *)
Require Import V.Lib.Base V.Lib.Dec V.C17.Model.
Local Open Scope Z_scope.

Record abs := mkA { akind : Z; acap : Z; atext : list Z }.

Definition fixedk (a : abs) : bool := akind a =? 2.
(* the most characters a fixed array of acap cells can hold (one cell is the terminator) *)
Definition alimit (a : abs) : Z := if acap a =? 0 then 0 else acap a - 1.
Definition aroom (a : abs) : Z := alimit a - len (atext a).
Definition with_text (a : abs) (t : list Z) : abs := mkA (akind a) (acap a) t.

(* append = concatenation; truncated to the capacity for the fixed kind only *)
Definition aappend (p : list Z) (a : abs) : abs :=
  with_text a (atext a ++ (if fixedk a then zfirstn (aroom a) p else p)).
Definition acut (p : list Z) (a : abs) : bool := fixedk a && (aroom a <? len p).

(* the text a number stands for: decimal, '-' for negative values; u is the 64-bit pattern *)
Definition num_piece (u : Z) (positive : bool) : list Z :=
  if positive then print_nat u else 45 :: print_nat ((two64 - u) mod two64).     (* magnitude: ~u + 1 *)

(* the piece an append-like operation contributes *)
Definition piece (o : op) : list Z :=
  match o with
  | OBytes d => d
  | OCstr d => cut0 d
  | OFill n c => zrepeat c n
  | ONum u p => num_piece u p
  | OFormat pre b => pre ++ match b with Some bd => bd | None => [] end
  | _ => []
  end.
Definition is_append (o : op) : bool := match o with OResize _ _ | OClear => false | _ => true end.

Definition aresize (n c : Z) (a : abs) : Z * abs * bool :=
  if len (atext a) <? n then
    if fixedk a && (alimit a <? n) then (1, a, false)               (* std::logic_error, nothing changes *)
    else (0, aappend (zrepeat c (n - len (atext a))) a, false)
  else (0, with_text a (zfirstn n (atext a)), false).

(* (exception code, new state, truncated?) *)
Definition astep (a : abs) (o : op) : Z * abs * bool :=
  match o with
  | OResize n c => aresize n c a
  | OClear => aresize 0 0 a
  | OFormat pre b =>
      let a1 := aappend pre a in
      match b with
      | Some bd => (0, aappend bd a1, acut pre a || acut bd a1)
      | None => (0, a1, acut pre a)
      end
  | _ => (0, aappend (piece o) a, acut (piece o) a)
  end.

Definition amax (a : abs) : Z := if fixedk a then alimit a else -1.
Definition aobserve (exc : Z) (a : abs) (cut : bool) : list Z :=
  [exc; len (atext a)] ++ atext a ++ [0; amax a; b2z cut; 1].

Fixpoint arun_ops (a : abs) (ops : list op) : list Z * abs :=
  match ops with
  | [] => ([], a)
  | o :: r => let '(e, a1, cut) := astep a o in
              let '(out, a2) := arun_ops a1 r in (aobserve e a1 cut ++ out, a2)
  end.

Definition ainit (k cap : Z) (ini : list Z) : abs := mkA k cap (if k =? 1 then ini else []).
Definition arun (k cap : Z) (ini : list Z) (ops : list op) : list Z :=
  let a := ainit k cap ini in aobserve 0 a false ++ fst (arun_ops a ops).

(* side conditions under which an operation is meaningful (all of them are guaranteed by decode_ops) *)
Definition ok_op (o : op) : Prop :=
  match o with
  | OFill n _ => 0 <= n
  | OResize n _ => 0 <= n
  | ONum u _ => 0 <= u < two64
  | _ => True
  end.

(* ---- appends from the builder's own text (Model.xop): the slice is taken from the abstract text ---- *)
Definition aresolve (a : abs) (x : xop) : op :=
  match x with
  | XOp o => o
  | XSelf off n => OBytes (slice (atext a) off n)
  | XSelfC off => OCstr (suffix (atext a) off)
  end.
Fixpoint arun_xops (a : abs) (xs : list xop) : list Z * abs :=
  match xs with
  | [] => ([], a)
  | x :: r => let '(e, a1, cut) := astep a (aresolve a x) in
              let '(out, a2) := arun_xops a1 r in (aobserve e a1 cut ++ out, a2)
  end.
Definition arun_x (k cap : Z) (ini : list Z) (xs : list xop) : list Z :=
  let a := ainit k cap ini in aobserve 0 a false ++ fst (arun_xops a xs).
Definition ok_xop (x : xop) : Prop := match x with XOp o => ok_op o | _ => True end.
