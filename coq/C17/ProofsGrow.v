(* C17 - grow(n): what the returned Buffer promises, for every representation. *)
Require Import V.Lib.Base V.Gen.Consts_C17 V.C17.Model V.C17.Spec V.C17.ProofsList V.C17.ProofsInv.
Local Open Scope Z_scope.

(* After grow(n) the bookkeeping is already advanced by m = min(n, free): once m chars and the terminator
   are stored at buf.pos() the invariant holds for text ++ chars. *)
Definition GrowPost (s : st) (a : abs) (n : Z) (buf : buffer) (s1 : st) : Prop :=
  0 <= free buf /\ (fixedk a = true -> free buf = aroom a) /\ (fixedk a = false -> n <= free buf) /\
  erange s1 = erange s || (fixedk a && (free buf <? n)) /\
  forall d, len d = Z.min n (free buf) ->
    Inv true (store (head buf) (pos buf + Z.min n (free buf)) [0] (store (head buf) (pos buf) d s1))
             (with_text a (atext a ++ d)).

Ltac gp_split := split; [|split; [|split; [|split]]].

Lemma fixedk_kind a k : akind a = k -> fixedk a = (k =? 2).
Proof. intros H. unfold fixedk. now rewrite H. Qed.

Lemma buffer_of_sbo s : is_sbo s -> buffer_of s = mkB RUn 0 (63 - tag s) 63.
Proof. intros H. unfold buffer_of. rewrite (type_sbo s H). reflexivity. Qed.

(* spilling: the state after  new std::string(text); setTag(Str|Own); str_ = ..; str_->append(n, 0) *)
Definition spilled (text : list Z) (n : Z) (s : st) : st :=
  let s1 := set_strptr (set_tag (Z.lor T_Str T_Own) (set_str text s)) in
  set_str (str s1 ++ zrepeat 0 n) s1.

Lemma spilled_post s a n : fault s = false -> len (un s) = 64 -> akind a = 0 \/ akind a = 3 -> 0 <= n ->
  forall d, len d = n ->
    Inv true (store RStr (len (atext a) + n) [0] (store RStr (len (atext a)) d (spilled (atext a) n s)))
             (with_text a (atext a ++ d)).
Proof.
  intros Hf Hu Hk Hn d Hd.
  set (s2 := spilled (atext a) n s).
  assert (Hstr : str s2 = atext a ++ zrepeat 0 n) by reflexivity.
  assert (Hun : un s2 = put (put (un s) 63 [65]) 0 (zrepeat 256 8)) by reflexivity.
  assert (Hfl : fault s2 = false) by exact Hf.
  assert (H63 : len (put (un s) 63 [65]) = 64) by (rewrite len_put; rewrite ?len_single; lia).
  rewrite (store_str s2) by (rewrite ?Hstr, ?len_app, ?len_zrepeat by lia; pose proof (len_nonneg (atext a)); lia).
  rewrite Hstr, put_over_tail by (rewrite len_zrepeat; lia).
  set (s3 := set_str (atext a ++ d) s2).
  replace (len (atext a) + n) with (len (str s3)) by (subst s3; cbn [str set_str]; rewrite len_app; lia).
  rewrite store_str_term.
  split; [exact Hfl|].
  apply R_own.
  - exact Hk.
  - subst s3. cbn [un set_str]. rewrite Hun. rewrite len_put; rewrite ?H63, ?len_zrepeat; lia.
  - subst s3. unfold tag. cbn [un set_str]. rewrite Hun. consts.
    rewrite znth_put_hi by (rewrite ?H63, ?len_zrepeat; lia).
    rewrite znth_put_in by (rewrite ?len_single; lia). reflexivity.
  - reflexivity.
Qed.

Lemma grow_sbo s a n : fault s = false -> akind a = 0 -> len (un s) = 64 -> tag s = 63 - len (atext a) ->
  len (atext a) <= 63 -> zfirstn (len (atext a)) (un s) = atext a -> 0 <= n ->
  GrowPost s a n (fst (grow n s)) (snd (grow n s)).
Proof.
  intros Hf Hk Hu Ht HL Htx Hn. pose proof (len_nonneg (atext a)) as HL0.
  assert (Hs : is_sbo s) by (unfold is_sbo; lia).
  assert (Hfx : fixedk a = false) by (rewrite (fixedk_kind a 0 Hk); reflexivity).
  unfold grow. rewrite (type_sbo s Hs). consts. change (0 =? 0) with true. cbn [andb].
  destruct (Z.leb_spec n (tag s)) as [Hle|Hgt].
  - (* in place *)
    rewrite (buffer_of_sbo s Hs). cbn [fst snd].
    unfold GrowPost, free, pos. cbn [size used base head]. rewrite Hfx. cbn [andb].
    gp_split; try lia; try (intros; discriminate).
    + now rewrite orb_false_r.
    + intros d Hd. replace (Z.min n (63 - (63 - tag s))) with n in * by lia.
      replace (0 + (63 - tag s)) with (len (atext a)) by lia.
      set (t := tag s - n). set (s1 := set_tag t s).
      assert (Ht1 : tag s1 = t) by (subst s1; rewrite tag_set_tag by exact Hu; apply Z.mod_small; subst t; lia).
      assert (Hu1 : len (un s1) = 64) by (apply len_un_set_tag; exact Hu).
      assert (Hs1 : is_sbo s1) by (unfold is_sbo; subst t; lia).
      rewrite (store_un s1) by (rewrite ?(live_lo_sbo s1 Hs1); lia).
      set (s2 := set_un (put (un s1) (len (atext a)) d) s1).
      assert (Hu2 : len (un s2) = 64) by (subst s2; cbn [un set_un]; rewrite len_put; lia).
      assert (Ht2 : tag s2 = t).
      { subst s2. unfold tag. cbn [un set_un]. consts. rewrite znth_put_hi by lia. exact Ht1. }
      assert (Hs2 : is_sbo s2) by (unfold is_sbo; subst t; lia).
      rewrite (store_un s2) by (rewrite ?(live_lo_sbo s2 Hs2), ?len_single; lia).
      split; [exact Hf|].
      assert (E1 : zfirstn (len (atext a) + len d) (un s2) = atext a ++ d).
      { subst s2. cbn [un set_un]. rewrite zfirstn_put_hi by lia. f_equal.
        subst s1. unfold set_tag. cbn [un set_un]. consts. rewrite zfirstn_put_lo by (rewrite ?len_single; lia). exact Htx. }
      apply R_sbo; cbn [atext with_text akind un set_un]; rewrite ?len_app.
      * exact Hk.
      * rewrite len_put; rewrite ?len_single; lia.
      * unfold tag. cbn [un set_un]. consts.
        destruct (Z.eq_dec (len (atext a) + n) 63) as [E|E].
        -- rewrite znth_put_in by (rewrite ?len_single; lia). replace (63 - (len (atext a) + n)) with 0 by lia.
           rewrite Hd. replace (63 - _) with 0 by lia. reflexivity.
        -- rewrite znth_put_hi by (rewrite ?len_single; lia). change (znth 63 (un s2)) with (tag s2). rewrite Ht2. subst t. lia.
      * lia.
      * rewrite <- Hd. rewrite zfirstn_put_lo by (rewrite ?len_single; lia). exact E1.
      * intros _. rewrite <- Hd. rewrite znth_put_in by (rewrite ?len_single; lia). rewrite Z.sub_diag. reflexivity.
  - (* spill *)
    change (0 =? 128) with false. change (0 =? 64) with false. cbn [andb].
    rewrite (buffer_of_sbo s Hs). cbn [head base used fst snd].
    assert (Hc : load RUn 0 (63 - tag s) s = atext a).
    { unfold load. cbn [region]. rewrite zskipn_0. replace (63 - tag s) with (len (atext a)) by lia. exact Htx. }
    rewrite Hc. fold T_Str T_Own. fold (spilled (atext a) n s).
    assert (Hl : len (str (spilled (atext a) n s)) = len (atext a) + n).
    { cbn [spilled str set_str set_strptr set_tag set_un]. rewrite len_app, len_zrepeat; lia. }
    unfold GrowPost, free, pos. cbn [size used base head]. rewrite Hfx, Hl. cbn [andb].
    gp_split; try lia; try (intros; discriminate).
    + now rewrite orb_false_r.
    + intros d Hd. replace (Z.min n _) with n in * by lia.
      replace (0 + (len (atext a) + n - n)) with (len (atext a)) by lia.
      apply spilled_post; auto.
Qed.

(* ---- std::string representations (caller's or owned) ---- *)
Lemma grow_str s a n : fault s = false -> len (un s) = 64 -> str s = atext a ->
  (akind a = 1 /\ tag s = 64) \/ ((akind a = 0 \/ akind a = 3) /\ tag s = 65) -> 0 <= n ->
  GrowPost s a n (fst (grow n s)) (snd (grow n s)).
Proof.
  intros Hf Hu Hst Hk Hn. pose proof (len_nonneg (atext a)) as HL0.
  assert (Hty : type s = 64) by (destruct Hk as [[_ Ht]|[_ Ht]]; rewrite (type_tag s _ Ht); reflexivity).
  assert (Hfx : fixedk a = false).
  { destruct Hk as [[Hk _]|[[Hk|Hk] _]]; rewrite (fixedk_kind a _ Hk); reflexivity. }
  unfold grow. rewrite Hty. consts. change (64 =? 0) with false. change (64 =? 128) with false.
  change (64 =? 64) with true. cbn [andb fst snd].
  set (s2 := set_str (str s ++ zrepeat 0 n) s).
  assert (Hl : len (str s2) = len (atext a) + n) by (subst s2; cbn [str set_str]; rewrite len_app, len_zrepeat, Hst; lia).
  unfold GrowPost, free, pos. cbn [size used base head]. rewrite Hfx, Hl. cbn [andb].
  gp_split; try lia; try (intros; discriminate).
  - now rewrite orb_false_r.
  - intros d Hd. replace (Z.min n _) with n in * by lia.
    replace (0 + (len (atext a) + n - n)) with (len (atext a)) by lia.
    assert (Hstr : str s2 = atext a ++ zrepeat 0 n) by (subst s2; cbn [str set_str]; now rewrite Hst).
    rewrite (store_str s2) by (rewrite ?Hstr, ?len_app, ?len_zrepeat by lia; lia).
    rewrite Hstr, put_over_tail by (rewrite len_zrepeat; lia).
    set (s3 := set_str (atext a ++ d) s2).
    replace (len (atext a) + n) with (len (str s3)) by (subst s3; cbn [str set_str]; rewrite len_app; lia).
    rewrite store_str_term.
    split; [exact Hf|].
    destruct Hk as [[Hk Ht]|[Hk Ht]].
    + apply R_str; auto.
    + apply R_own; auto.
Qed.

(* ---- caller's array, cap >= 1 ---- *)
Lemma arr_write a s1 m d :
  fault s1 = false -> kindtag (akind a) (tag s1) -> len (un s1) = 64 -> 1 <= acap a ->
  bf s1 = mkB RArr 0 (len (atext a) + m) (acap a - 1) -> len (arr s1) = acap a ->
  zfirstn (len (atext a)) (arr s1) = atext a -> 0 <= m -> len (atext a) + m <= acap a - 1 -> len d = m ->
  Inv true (store RArr (len (atext a) + m) [0] (store RArr (len (atext a)) d s1)) (with_text a (atext a ++ d)).
Proof.
  intros Hf Hk Hu Hc Hb Hla Htx Hm Hfit Hd. pose proof (len_nonneg (atext a)) as HL0.
  rewrite (store_arr s1) by lia.
  set (s2 := set_arr (put (arr s1) (len (atext a)) d) s1).
  assert (Hl2 : len (arr s2) = acap a) by (subst s2; cbn [arr set_arr]; rewrite len_put; lia).
  rewrite (store_arr s2) by (rewrite ?len_single; lia).
  split; [exact Hf|].
  apply R_arr; cbn [atext with_text akind acap arr set_arr un bf]; rewrite ?len_app, ?Hd.
  - exact Hk.
  - exact Hu.
  - exact Hc.
  - exact Hb.
  - rewrite len_put; rewrite ?len_single; lia.
  - lia.
  - rewrite zfirstn_put_lo by (rewrite ?len_single; lia).
    subst s2. cbn [arr set_arr]. rewrite <- Hd. rewrite zfirstn_put_hi by lia. now rewrite Htx.
  - intros _. rewrite znth_put_in by (rewrite ?len_single; lia). rewrite Z.sub_diag. reflexivity.
Qed.

Lemma aroom_arr a : 1 <= acap a -> aroom a = acap a - 1 - len (atext a).
Proof. intros H. unfold aroom, alimit. destruct (Z.eqb_spec (acap a) 0); lia. Qed.

Lemma grow_arr s a n : fault s = false -> kindtag (akind a) (tag s) -> len (un s) = 64 -> 1 <= acap a ->
  bf s = mkB RArr 0 (len (atext a)) (acap a - 1) -> len (arr s) = acap a -> len (atext a) <= acap a - 1 ->
  zfirstn (len (atext a)) (arr s) = atext a -> 0 <= n ->
  GrowPost s a n (fst (grow n s)) (snd (grow n s)).
Proof.
  intros Hf Hk Hu Hc Hb Hla HL Htx Hn. pose proof (len_nonneg (atext a)) as HL0.
  assert (Hty : type s = 128) by (destruct Hk as [[_ Ht]|[_ Ht]]; rewrite (type_tag s _ Ht); reflexivity).
  pose proof (aroom_arr a Hc) as Hroom.
  unfold grow. rewrite Hty. consts. change (128 =? 0) with false. change (128 =? 128) with true.
  change (128 =? 64) with false. cbn [andb].
  assert (Hfree : free (bf s) = acap a - 1 - len (atext a)) by (rewrite Hb; reflexivity).
  rewrite !Hfree.
  destruct (Z.leb_spec n (acap a - 1 - len (atext a))) as [Hle|Hgt]; cbn [orb].
  - (* enough room: in place, both kinds *)
    cbn [fst snd]. rewrite Hb. unfold GrowPost, free, pos. cbn [size used base head].
    replace (Z.min n (acap a - 1 - len (atext a))) with n by lia.
    replace (acap a - 1 - len (atext a) <? n) with false by (symmetry; apply Z.ltb_ge; lia).
    gp_split; try lia.
    + now rewrite andb_false_r, orb_false_r.
    + intros d Hd. replace (0 + len (atext a)) with (len (atext a)) by lia.
      apply arr_write; cbn [fault un bf arr set_used]; try assumption; try lia.
      rewrite Hb. unfold with_used. cbn [head base size]. reflexivity.
  - destruct Hk as [[Hk Ht]|[Hk Ht]]; rewrite Ht.
    + (* fixed: truncate *)
      change (Z.land 128 1 =? 0) with true. cbn [fst snd]. rewrite Hb.
      unfold GrowPost, free, pos. cbn [size used base head].
      replace (Z.min n (acap a - 1 - len (atext a))) with (acap a - 1 - len (atext a)) by lia.
      replace (acap a - 1 - len (atext a) <? n) with true by (symmetry; apply Z.ltb_lt; lia).
      rewrite (fixedk_kind a 2 Hk). change (2 =? 2) with true.
      gp_split; try lia; try (intros; discriminate).
      * cbn [erange set_erange]. now rewrite orb_true_r.
      * intros d Hd. replace (0 + len (atext a)) with (len (atext a)) by lia.
        apply arr_write; cbn [fault un bf arr set_used set_erange]; try assumption; try lia.
        -- left. split; [exact Hk|]. unfold tag. cbn [un set_erange set_used]. exact Ht.
        -- rewrite Hb. unfold with_used. cbn [head base size]. f_equal. lia.
    + (* may spill: switch to a std::string *)
      change (Z.land 129 1 =? 0) with false. cbn [fst snd].
      assert (Hbo : buffer_of s = bf s) by (unfold buffer_of; rewrite Hty; reflexivity).
      rewrite Hbo, Hb. cbn [head base used].
      assert (Hcn : load RArr 0 (len (atext a)) s = atext a) by (unfold load; cbn [region]; now rewrite zskipn_0).
      rewrite Hcn. fold T_Str T_Own. fold (spilled (atext a) n s).
      assert (Hl : len (str (spilled (atext a) n s)) = len (atext a) + n).
      { cbn [spilled str set_str set_strptr set_tag set_un]. rewrite len_app, len_zrepeat; lia. }
      unfold GrowPost, free, pos. cbn [size used base head]. rewrite (fixedk_kind a 3 Hk), Hl. change (3 =? 2) with false. cbn [andb].
      gp_split; try lia; try (intros; discriminate).
      * now rewrite orb_false_r.
      * intros d Hd. replace (Z.min n _) with n in * by lia.
        replace (0 + (len (atext a) + n - n)) with (len (atext a)) by lia.
        apply spilled_post; auto.
Qed.

(* ---- caller's array of capacity 0: the one cell sbo_[61] ---- *)
Lemma zero_write a s1 d :
  fault s1 = false -> kindtag (akind a) (tag s1) -> len (un s1) = 64 -> acap a = 0 ->
  bf s1 = mkB RUn 61 0 0 -> atext a = [] -> len d = 0 ->
  Inv true (store RUn (61 + 0) [0] (store RUn 61 d s1)) (with_text a (atext a ++ d)).
Proof.
  intros Hf Hk Hu Hc Hb Htx Hd.
  apply len_0_nil in Hd. subst d. rewrite Htx. cbn [app].
  assert (Hlive : live_lo s1 = 24).
  { destruct Hk as [[_ Ht]|[_ Ht]]; rewrite (live_lo_tag s1 _ Ht); reflexivity. }
  rewrite (store_un s1) by (rewrite ?len_nil; lia). rewrite put_nil.
  replace (set_un (un s1) s1) with s1 by (destruct s1; reflexivity).
  rewrite (store_un s1) by (rewrite ?len_single; lia).
  split; [exact Hf|].
  assert (Htag : tag (set_un (put (un s1) (61 + 0) [0]) s1) = tag s1).
  { unfold tag. cbn [un set_un]. consts. rewrite znth_put_hi by (rewrite ?len_single; lia). reflexivity. }
  apply R_zero; cbn [atext with_text akind acap un set_un bf].
  - rewrite Htag. exact Hk.
  - rewrite len_put; rewrite ?len_single; lia.
  - exact Hc.
  - exact Hb.
  - reflexivity.
  - rewrite znth_put_in by (rewrite ?len_single; lia). reflexivity.
Qed.

Lemma grow_zero s a n : fault s = false -> kindtag (akind a) (tag s) -> len (un s) = 64 -> acap a = 0 ->
  bf s = mkB RUn 61 0 0 -> atext a = [] -> 0 <= n ->
  GrowPost s a n (fst (grow n s)) (snd (grow n s)).
Proof.
  intros Hf Hk Hu Hc Hb Htx Hn.
  assert (Hty : type s = 128) by (destruct Hk as [[_ Ht]|[_ Ht]]; rewrite (type_tag s _ Ht); reflexivity).
  assert (Hroom : aroom a = 0) by (unfold aroom, alimit; rewrite Hc, Htx; reflexivity).
  assert (Hfree : free (bf s) = 0) by (rewrite Hb; reflexivity).
  unfold grow. rewrite Hty. consts. change (128 =? 0) with false. change (128 =? 128) with true.
  change (128 =? 64) with false. cbn [andb]. rewrite !Hfree.
  destruct (Z.leb_spec n 0) as [Hle|Hgt]; cbn [orb].
  - cbn [fst snd]. rewrite Hb. unfold GrowPost, free, pos. cbn [size used base head].
    replace n with 0 in * by lia. change (Z.min 0 (0 - 0)) with 0. change (0 - 0 <? 0) with false.
    gp_split; try lia.
    + now rewrite andb_false_r, orb_false_r.
    + intros d Hd. apply zero_write; cbn [fault un bf set_used]; try assumption.
      rewrite Hb. reflexivity.
  - destruct Hk as [[Hk Ht]|[Hk Ht]]; rewrite Ht.
    + change (Z.land 128 1 =? 0) with true. cbn [fst snd]. rewrite Hb.
      unfold GrowPost, free, pos. cbn [size used base head].
      replace (Z.min n (0 - 0)) with 0 by lia.
      replace (0 - 0 <? n) with true by (symmetry; apply Z.ltb_lt; lia).
      rewrite (fixedk_kind a 2 Hk). change (2 =? 2) with true.
      gp_split; try lia; try (intros; discriminate).
      * cbn [erange set_erange]. now rewrite orb_true_r.
      * intros d Hd. apply zero_write; cbn [fault un bf set_used set_erange]; try assumption.
        -- left. split; [exact Hk|]. unfold tag. cbn [un set_erange set_used]. exact Ht.
        -- rewrite Hb. reflexivity.
    + change (Z.land 129 1 =? 0) with false. cbn [fst snd].
      assert (Hbo : buffer_of s = bf s) by (unfold buffer_of; rewrite Hty; reflexivity).
      rewrite Hbo, Hb. cbn [head base used].
      assert (Hcn : load RUn 61 0 s = atext a) by (rewrite Htx; reflexivity).
      rewrite Hcn. fold T_Str T_Own. fold (spilled (atext a) n s).
      assert (Hl : len (str (spilled (atext a) n s)) = len (atext a) + n).
      { cbn [spilled str set_str set_strptr set_tag set_un]. rewrite len_app, len_zrepeat; lia. }
      pose proof (len_nonneg (atext a)) as HL0.
      unfold GrowPost, free, pos. cbn [size used base head]. rewrite (fixedk_kind a 3 Hk), Hl. change (3 =? 2) with false. cbn [andb].
      gp_split; try lia; try (intros; discriminate).
      * now rewrite orb_false_r.
      * intros d Hd. replace (Z.min n _) with n in * by lia.
        replace (0 + (len (atext a) + n - n)) with (len (atext a)) by lia.
        apply spilled_post; auto.
Qed.

Theorem grow_spec s a n : Inv false s a -> 0 <= n -> GrowPost s a n (fst (grow n s)) (snd (grow n s)).
Proof.
  intros [Hf HR] Hn. destruct HR.
  - apply grow_sbo; auto.
  - apply grow_str; auto.
  - apply grow_str; auto.
  - apply grow_arr; auto.
  - apply grow_zero; auto.
Qed.
