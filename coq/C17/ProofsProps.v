(* C17 - the property statements derived from the refinement. *)
Require Import V.Lib.Base V.Lib.Dec V.Gen.Consts_C17 V.C17.Model V.C17.Spec V.C17.ProofsList V.C17.ProofsInv
               V.C17.ProofsGrow V.C17.ProofsNum V.C17.ProofsOps V.C17.ProofsRun V.C17.ProofsDecode.
Local Open Scope Z_scope.

(* reachable concrete states and their abstract counterparts *)
Definition reach (k cap : Z) (ini : list Z) (ops : list op) : st := snd (run_ops (init k cap ini) ops).
Definition areach (k cap : Z) (ini : list Z) (ops : list op) : abs := snd (arun_ops (ainit k cap ini) ops).

Lemma reach_inv k cap ini ops : 0 <= k <= 3 -> 0 <= cap -> Forall ok_op ops ->
  Inv true (reach k cap ini ops) (areach k cap ini ops).
Proof.
  intros Hk Hc Hok. destruct (init_spec k cap ini Hk Hc) as [HI _].
  apply (run_ops_spec ops _ _ HI Hok).
Qed.

Lemma areach_kind ops : forall a, akind (snd (arun_ops a ops)) = akind a /\ acap (snd (arun_ops a ops)) = acap a.
Proof.
  induction ops as [|o r IH]; intros a; [split; reflexivity|].
  cbn [arun_ops]. destruct (astep a o) as [[e a1] cut] eqn:E.
  specialize (IH a1). destruct (arun_ops a1 r) as [out a2]. cbn [snd] in *.
  assert (H1 : akind a1 = akind a /\ acap a1 = acap a).
  { destruct o; cbn [astep] in E; unfold aresize, aappend in E;
      repeat match type of E with
             | context [match ?b with Some _ => _ | None => _ end] => destruct b
             | context [if ?c then _ else _] => destruct c
             end; inversion E; subst; auto. }
  destruct IH as [-> ->]. exact H1.
Qed.

Lemma fixedk_wt a t : fixedk (with_text a t) = fixedk a.
Proof. reflexivity. Qed.
Lemma wt_wt a t u : with_text (with_text a t) u = with_text a u.
Proof. reflexivity. Qed.

(* an append-like operation is one append of its piece (also for a format with a literal prefix) *)
Lemma astep_append a o : (fixedk a = true -> 0 <= aroom a) -> is_append o = true ->
  astep a o = (0, aappend (piece o) a, acut (piece o) a).
Proof.
  intros Hroom Happ. destruct o as [d|d|n c|u p|pre body|n c|]; try reflexivity; try discriminate.
  cbn [astep piece]. destruct body as [bd|].
  - f_equal; [f_equal|].
    + unfold aappend. rewrite fixedk_wt, wt_wt. cbn [atext with_text].
      destruct (fixedk a) eqn:Hfx; [|now rewrite app_assoc].
      specialize (Hroom eq_refl). f_equal.
      rewrite <- app_assoc. f_equal.
      unfold aroom, alimit in *. cbn [atext acap with_text]. rewrite len_app.
      set (lim := if acap a =? 0 then 0 else acap a - 1) in *.
      pose proof (len_nonneg pre). pose proof (len_nonneg bd).
      destruct (Z.le_gt_cases (len pre) (lim - len (atext a))) as [Hle|Hgt].
      * rewrite (zfirstn_all (lim - len (atext a)) pre) by lia. rewrite zfirstn_app_r by lia. f_equal. f_equal. lia.
      * rewrite len_zfirstn by lia. rewrite zfirstn_app_l by lia.
        rewrite (zfirstn_neg _ bd) by lia. now rewrite app_nil_r.
    + unfold acut, aappend. rewrite fixedk_wt.
      destruct (fixedk a) eqn:Hfx; [|reflexivity]. specialize (Hroom eq_refl). cbn [andb].
      unfold aroom, alimit in *. cbn [atext acap with_text]. rewrite !len_app.
      set (lim := if acap a =? 0 then 0 else acap a - 1) in *.
      pose proof (len_nonneg pre). pose proof (len_nonneg bd).
      destruct (Z.le_gt_cases (len pre) (lim - len (atext a))) as [Hle|Hgt].
      * rewrite (zfirstn_all (lim - len (atext a)) pre) by lia.
        destruct (Z.ltb_spec (lim - len (atext a)) (len pre)); [lia|]. cbn [orb].
        destruct (Z.ltb_spec (lim - (len (atext a) + len pre)) (len bd)),
                 (Z.ltb_spec (lim - len (atext a)) (len pre + len bd)); try reflexivity; lia.
      * destruct (Z.ltb_spec (lim - len (atext a)) (len pre)); [|lia]. cbn [orb].
        destruct (Z.ltb_spec (lim - len (atext a)) (len pre + len bd)); [reflexivity | lia].
  - rewrite app_nil_r. reflexivity.
Qed.

Lemma inv_room tm s a : Inv tm s a -> fixedk a = true -> 0 <= aroom a.
Proof. intros [_ HR]. exact (room_nonneg tm s a HR). Qed.

(* one append on a reachable state, in concrete terms *)
Lemma step_append k cap ini ops o : 0 <= k <= 3 -> 0 <= cap -> Forall ok_op ops -> ok_op o -> is_append o = true ->
  let s := reach k cap ini ops in
  let a := areach k cap ini ops in
  fst (step s o) = 0 /\ fault (snd (step s o)) = false /\
  c_text (snd (step s o)) = c_text s ++ (if k =? 2 then zfirstn (alimit a - c_size s) (piece o) else piece o) /\
  erange (snd (step s o)) = (k =? 2) && (alimit a - c_size s <? len (piece o)) /\
  (k = 2 -> 0 <= alimit a - c_size s /\ c_size (snd (step s o)) <= alimit a) /\
  acap a = cap.
Proof.
  intros Hk Hc Hok Ho Happ s a.
  pose proof (reach_inv k cap ini ops Hk Hc Hok) as HI. fold s a in HI.
  pose proof (step_spec s a o HI Ho) as Hs.
  rewrite (astep_append a o (inv_room _ _ _ HI) Happ) in Hs.
  destruct (step s o) as [e s']. cbn [fst snd]. destruct Hs as (-> & HI' & He).
  destruct (view_spec s a HI) as (V1 & V2 & V3 & V4 & V5).
  destruct (view_spec s' _ HI') as (W1 & W2 & W3 & W4 & W5).
  destruct (areach_kind ops (ainit k cap ini)) as [Hkind Hcap]. fold (areach k cap ini ops) in Hkind, Hcap. fold a in Hkind, Hcap.
  cbn [ainit akind acap] in Hkind, Hcap.
  assert (Hfx : fixedk a = (k =? 2)) by (unfold fixedk; now rewrite Hkind).
  pose proof (inv_room _ _ _ HI) as Hr. pose proof (inv_room _ _ _ HI') as Hr'.
  split; [reflexivity|]. split; [exact W5|]. split; [|split; [|split; [|exact Hcap]]].
  - rewrite W2, V2, V1. unfold aappend, aroom. rewrite Hfx. reflexivity.
  - rewrite He, V1. unfold acut, aroom. rewrite Hfx. reflexivity.
  - intros Hk2. rewrite Hk2 in Hfx. change (2 =? 2) with true in Hfx.
    specialize (Hr Hfx). change (fixedk (aappend (piece o) a)) with (fixedk a) in Hr'. specialize (Hr' Hfx).
    rewrite W1, V1. unfold aroom in Hr, Hr'. split; [exact Hr|]. change (alimit (aappend (piece o) a)) with (alimit a) in Hr'. lia.
Qed.

(* histories of appends: the text is the concatenation of the pieces *)
Definition pieces (ops : list op) : list Z := concat (map piece ops).

Lemma arun_appends_unbounded ops : forall a, fixedk a = false -> forallb is_append ops = true ->
  atext (snd (arun_ops a ops)) = atext a ++ pieces ops.
Proof.
  induction ops as [|o r IH]; intros a Hfx Hall; [cbn; now rewrite app_nil_r|].
  cbn [forallb] in Hall. apply andb_true_iff in Hall. destruct Hall as [Ho Hr].
  cbn [arun_ops]. rewrite (astep_append a o) by (auto; rewrite Hfx; discriminate).
  specialize (IH (aappend (piece o) a)).
  destruct (arun_ops (aappend (piece o) a) r) as [out a2]. cbn [snd] in *.
  rewrite IH; auto. unfold aappend, pieces. rewrite Hfx. cbn [atext with_text map concat]. now rewrite app_assoc.
Qed.

Lemma arun_appends_fixed ops : forall a C, fixedk a = true -> len (atext a) <= alimit a ->
  atext a = zfirstn (alimit a) C -> forallb is_append ops = true ->
  atext (snd (arun_ops a ops)) = zfirstn (alimit a) (C ++ pieces ops).
Proof.
  induction ops as [|o r IH]; intros a C Hfx Hlim HC Hall; [cbn; now rewrite app_nil_r|].
  cbn [forallb] in Hall. apply andb_true_iff in Hall. destruct Hall as [Ho Hr].
  cbn [arun_ops]. rewrite (astep_append a o) by (auto; unfold aroom; lia).
  set (a1 := aappend (piece o) a).
  assert (Hl1 : alimit a1 = alimit a) by reflexivity.
  assert (Hfx1 : fixedk a1 = true) by exact Hfx.
  pose proof (len_nonneg (atext a)) as H0. pose proof (len_nonneg (piece o)) as H1. pose proof (len_nonneg C) as H2.
  assert (HC1 : atext a1 = zfirstn (alimit a) (C ++ piece o)).
  { subst a1. unfold aappend, aroom. rewrite Hfx. cbn [atext with_text].
    destruct (Z.le_gt_cases (len C) (alimit a)) as [Hle|Hgt].
    - rewrite (zfirstn_all _ C) in HC by lia. rewrite HC. rewrite zfirstn_app_r by lia. reflexivity.
    - assert (len (atext a) = alimit a) by (rewrite HC; apply len_zfirstn; lia).
      rewrite zfirstn_neg by lia. rewrite app_nil_r, zfirstn_app_l by lia. exact HC. }
  assert (Hlim1 : len (atext a1) <= alimit a1).
  { rewrite Hl1, HC1. destruct (Z.le_gt_cases (alimit a) (len (C ++ piece o))).
    - rewrite len_zfirstn; lia.
    - rewrite zfirstn_all; lia. }
  specialize (IH a1 (C ++ piece o) Hfx1 Hlim1).
  destruct (arun_ops a1 r) as [out a2]. cbn [snd] in *.
  rewrite IH; auto. rewrite Hl1. unfold pieces. cbn [map concat]. now rewrite app_assoc.
Qed.

(* ---- the statements exported by Properties_C17.v ---- *)
Definition limit_of (cap : Z) : Z := if cap =? 0 then 0 else cap - 1.

Lemma reported k cap ini ops : 0 <= k <= 3 -> 0 <= cap -> Forall ok_op ops ->
  let s := reach k cap ini ops in
  let a := areach k cap ini ops in
  fault s = false /\ c_text s = atext a /\ c_size s = len (atext a) /\ c_term s = 0 /\ max_size s = amax a.
Proof.
  intros Hk Hc Hok s a. destruct (view_spec s a (reach_inv k cap ini ops Hk Hc Hok)) as (V1 & V2 & V3 & V4 & V5). auto.
Qed.

Lemma cut0_app_nul t : nul_free t -> cut0 (t ++ [0]) = t.
Proof.
  induction 1 as [|c r Hc Hr IH]; [reflexivity|]. cbn [app cut0].
  destruct (Z.eqb_spec c 0); [contradiction | now rewrite IH].
Qed.

Lemma strlen_is_size k cap ini ops : 0 <= k <= 3 -> 0 <= cap -> Forall ok_op ops ->
  let s := reach k cap ini ops in
  nul_free (c_text s) -> len (cut0 (c_text s ++ [c_term s])) = c_size s.
Proof.
  intros Hk Hc Hok s Hnf. destruct (reported k cap ini ops Hk Hc Hok) as (_ & V2 & V3 & V4 & _). fold s in V2, V3, V4.
  rewrite V4, cut0_app_nul by exact Hnf. rewrite V2, V3. reflexivity.
Qed.

Lemma fixed_step cap ini ops o : 0 <= cap -> Forall ok_op ops -> ok_op o -> is_append o = true ->
  let s := reach 2 cap ini ops in
  let room := limit_of cap - c_size s in
  fault s = false /\ 0 <= room /\ fst (step s o) = 0 /\ fault (snd (step s o)) = false /\
  c_text (snd (step s o)) = c_text s ++ zfirstn room (piece o) /\
  (erange (snd (step s o)) = true <-> room < len (piece o)) /\
  c_size (snd (step s o)) <= limit_of cap.
Proof.
  intros Hc Hok Ho Happ s room.
  destruct (step_append 2 cap ini ops o ltac:(lia) Hc Hok Ho Happ) as (S1 & S2 & S3 & S4 & S5 & S6).
  fold s in S1, S2, S3, S4, S5. destruct (S5 eq_refl) as [S7 S8].
  assert (Hl : alimit (areach 2 cap ini ops) = limit_of cap) by (unfold alimit, limit_of; now rewrite S6).
  rewrite Hl in *. fold room in S3, S4, S7.
  destruct (reported 2 cap ini ops ltac:(lia) Hc Hok) as (V5 & _).
  change (2 =? 2) with true in S3, S4. cbn [andb] in S4.
  repeat split; try assumption.
  - rewrite S4. intros H. apply Z.ltb_lt. exact H.
  - rewrite S4. intros H. apply Z.ltb_lt. exact H.
Qed.

Lemma fixed_never_faults cap ini ops : 0 <= cap -> Forall ok_op ops -> fault (reach 2 cap ini ops) = false.
Proof. intros Hc Hok. apply (reported 2 cap ini ops ltac:(lia) Hc Hok). Qed.

Lemma unbounded_step k cap ini ops o : k = 0 \/ k = 1 \/ k = 3 -> 0 <= cap -> Forall ok_op ops -> ok_op o ->
  is_append o = true ->
  let s := reach k cap ini ops in
  fst (step s o) = 0 /\ fault (snd (step s o)) = false /\
  c_text (snd (step s o)) = c_text s ++ piece o /\ erange (snd (step s o)) = false /\
  max_size (snd (step s o)) = -1.
Proof.
  intros Hk Hc Hok Ho Happ s.
  destruct (step_append k cap ini ops o ltac:(lia) Hc Hok Ho Happ) as (S1 & S2 & S3 & S4 & _ & _).
  fold s in S1, S2, S3, S4.
  assert (Hk2 : (k =? 2) = false) by (apply Z.eqb_neq; lia).
  rewrite Hk2 in S3, S4. cbn [andb] in S4.
  repeat split; try assumption.
  (* maxSize of the state after the step *)
  assert (Hok' : Forall ok_op (ops ++ [o])) by (apply Forall_app; split; [exact Hok | constructor; [exact Ho | constructor]]).
  assert (Hrun : forall ops1 s0, snd (run_ops s0 (ops1 ++ [o])) = snd (step (snd (run_ops s0 ops1)) o)).
  { induction ops1 as [|x r IH]; intros s0.
    - cbn [app run_ops snd]. destruct (step s0 o) as [e s1]. reflexivity.
    - cbn [app run_ops]. destruct (step s0 x) as [e s1]. specialize (IH s1).
      destruct (run_ops s1 (r ++ [o])) as [o1 s2]. destruct (run_ops s1 r) as [o2 s3]. cbn [snd] in *. exact IH. }
  destruct (reported k cap ini (ops ++ [o]) ltac:(lia) Hc Hok') as (_ & _ & _ & _ & V).
  unfold reach in V. rewrite Hrun in V. fold (reach k cap ini ops) in V. fold s in V. rewrite V.
  unfold amax, fixedk.
  destruct (areach_kind (ops ++ [o]) (ainit k cap ini)) as [Hkind _]. fold (areach k cap ini (ops ++ [o])) in Hkind.
  rewrite Hkind. cbn [ainit akind]. now rewrite Hk2.
Qed.

Lemma concatenation k cap ini ops : k = 0 \/ k = 1 \/ k = 3 -> 0 <= cap -> Forall ok_op ops ->
  forallb is_append ops = true ->
  c_text (reach k cap ini ops) = (if k =? 1 then ini else []) ++ pieces ops.
Proof.
  intros Hk Hc Hok Hall. destruct (reported k cap ini ops ltac:(lia) Hc Hok) as (_ & V & _). rewrite V.
  unfold areach. rewrite arun_appends_unbounded; [reflexivity | | exact Hall].
  unfold fixedk. cbn [ainit akind]. apply Z.eqb_neq. lia.
Qed.

Lemma fixed_history cap ini ops : 0 <= cap -> Forall ok_op ops -> forallb is_append ops = true ->
  c_text (reach 2 cap ini ops) = zfirstn (limit_of cap) (pieces ops).
Proof.
  intros Hc Hok Hall. destruct (reported 2 cap ini ops ltac:(lia) Hc Hok) as (_ & V & _). rewrite V.
  unfold areach. rewrite (arun_appends_fixed ops (ainit 2 cap ini) []); try reflexivity; try exact Hall.
  - unfold alimit, ainit. cbn [atext acap Z.eqb Pos.eqb]. rewrite len_nil. destruct (Z.eqb_spec cap 0); lia.
  - cbn [ainit atext Z.eqb Pos.eqb]. now rewrite zfirstn_nil.
Qed.

Lemma run_case_refines k cap r : 0 <= k <= 3 -> 0 <= cap -> run_case (k :: cap :: r) = arun_case (k :: cap :: r).
Proof.
  intros Hk Hc. unfold run_case, arun_case. destruct (take r) as [ini r'].
  apply run_x_refines; auto. apply decode_xops_ok.
Qed.

(* ---- appends whose source is the builder's own text ---- *)
Definition reach_x (k cap : Z) (ini : list Z) (xs : list xop) : st := snd (run_xops (init k cap ini) xs).

(* histories with self-appends reach nothing new: the same records and the same final state as the history of
   plain operations in which every self-append is written out as the append of the slice *)
Lemma self_histories k cap ini xs : Forall ok_xop xs ->
  exists ops, Forall ok_op ops /\ run_x k cap ini xs = run k cap ini ops /\ reach_x k cap ini xs = reach k cap ini ops.
Proof.
  intros Hok. destruct (xops_flatten xs (init k cap ini) Hok) as (ops & Hops & E).
  exists ops. split; [exact Hops|]. unfold run_x, run, reach_x, reach. rewrite E. split; reflexivity.
Qed.

Lemma len_slice t off n : 0 <= off -> 0 <= n -> off + n <= len t -> len (slice t off n) = n.
Proof.
  intros H1 H2 H3. unfold slice, suffix, zfirstn, zskipn, len in *.
  rewrite firstn_length, skipn_length. lia.
Qed.

Lemma limit_alimit k cap ini ops : alimit (areach k cap ini ops) = limit_of cap.
Proof.
  destruct (areach_kind ops (ainit k cap ini)) as [_ Hcap]. fold (areach k cap ini ops) in Hcap.
  unfold alimit, limit_of. rewrite Hcap. reflexivity.
Qed.

(* what an append-like step does to a reachable state depends on its piece only *)
Lemma append_by_piece k cap ini ops o : 0 <= k <= 3 -> 0 <= cap -> Forall ok_op ops -> ok_op o -> is_append o = true ->
  let s := reach k cap ini ops in
  let s' := snd (step s o) in
  let room := limit_of cap - c_size s in
  fst (step s o) = 0 /\ fault s' = false /\
  c_text s' = c_text s ++ (if k =? 2 then zfirstn room (piece o) else piece o) /\
  (erange s' = true <-> k = 2 /\ room < len (piece o)) /\
  (k = 2 -> 0 <= room /\ c_size s' <= limit_of cap).
Proof.
  intros Hk Hc Hok Ho Happ s s' room.
  destruct (step_append k cap ini ops o Hk Hc Hok Ho Happ) as (S1 & S2 & S3 & S4 & S5 & _).
  rewrite (limit_alimit k cap ini ops) in S3, S4, S5. fold s in S1, S2, S3, S4, S5. fold s' in S2, S3, S4, S5. fold room in S3, S4, S5.
  repeat split; try assumption.
  - rewrite S4 in H. apply andb_true_iff in H. destruct H as [H _]. apply Z.eqb_eq in H. exact H.
  - rewrite S4 in H. apply andb_true_iff in H. destruct H as [_ H]. apply Z.ltb_lt in H. exact H.
  - intros [H1 H2]. rewrite S4. apply andb_true_iff. split; [apply Z.eqb_eq; exact H1 | apply Z.ltb_lt; exact H2].
  - apply S5; assumption.
  - apply S5; assumption.
Qed.

Definition self_piece (s : st) (x : xop) : list Z :=
  match x with
  | XOp o => piece o
  | XSelf off n => slice (c_text s) off n
  | XSelfC off => cut0 (suffix (c_text s) off)
  end.

Lemma self_append k cap ini ops x : 0 <= k <= 3 -> 0 <= cap -> Forall ok_op ops ->
  match x with XOp _ => False | _ => True end ->
  let s := reach k cap ini ops in
  let d := self_piece s x in
  let s' := snd (step s (resolve s x)) in
  let room := limit_of cap - c_size s in
  fst (step s (resolve s x)) = 0 /\ fault s' = false /\
  c_text s' = c_text s ++ (if k =? 2 then zfirstn room d else d) /\
  (erange s' = true <-> k = 2 /\ room < len d) /\
  (k = 2 -> 0 <= room /\ c_size s' <= limit_of cap) /\
  (k <> 2 -> max_size s' = -1) /\
  (forall o, ok_op o -> is_append o = true -> piece o = d ->
     let t := snd (step s o) in
     fst (step s o) = 0 /\ c_text t = c_text s' /\ c_size t = c_size s' /\ erange t = erange s' /\ fault t = false).
Proof.
  intros Hk Hc Hok Hx s d s' room.
  assert (Hp : piece (resolve s x) = d /\ ok_op (resolve s x) /\ is_append (resolve s x) = true).
  { destruct x as [o|off n|off]; [contradiction | |]; cbn; auto. }
  destruct Hp as (Hp & Ho & Happ).
  destruct (append_by_piece k cap ini ops (resolve s x) Hk Hc Hok Ho Happ) as (A1 & A2 & A3 & A4 & A5).
  fold s in A1, A2, A3, A4, A5. fold s' in A2, A3, A4, A5. fold room in A3, A4, A5. rewrite Hp in A3, A4.
  split; [exact A1|]. split; [exact A2|]. split; [exact A3|]. split; [exact A4|]. split; [exact A5|]. split.
  - intros Hk2.
    destruct (unbounded_step k cap ini ops (resolve s x) ltac:(lia) Hc Hok Ho Happ) as (_ & _ & _ & _ & M). exact M.
  - intros o Ho' Happ' Hpo t.
    destruct (append_by_piece k cap ini ops o Hk Hc Hok Ho' Happ') as (B1 & B2 & B3 & B4 & B5).
    fold s in B1, B2, B3, B4, B5. fold t in B2, B3, B4, B5. fold room in B3, B4, B5. rewrite Hpo in B3, B4.
    assert (Hsz : forall u, Forall ok_op (ops ++ [u]) -> c_size (snd (step s u)) = len (c_text (snd (step s u)))).
    { intros u Hu.
      assert (Hrun : forall ops1 s0, snd (run_ops s0 (ops1 ++ [u])) = snd (step (snd (run_ops s0 ops1)) u)).
      { induction ops1 as [|y r IH]; intros s0.
        - cbn [app run_ops snd]. destruct (step s0 u) as [e s1]. reflexivity.
        - cbn [app run_ops]. destruct (step s0 y) as [e s1]. specialize (IH s1).
          destruct (run_ops s1 (r ++ [u])) as [o1 s2]. destruct (run_ops s1 r) as [o2 s3]. cbn [snd] in *. exact IH. }
      destruct (reported k cap ini (ops ++ [u]) Hk Hc Hu) as (_ & V2 & V3 & _).
      unfold reach in V2, V3. rewrite Hrun in V2, V3. fold (reach k cap ini ops) in V2, V3. fold s in V2, V3.
      rewrite V3, V2. reflexivity. }
    split; [exact B1|]. split; [rewrite B3, A3; reflexivity|]. split.
    + change (c_size (snd (step s o)) = c_size (snd (step s (resolve s x)))).
      rewrite (Hsz o), (Hsz (resolve s x));
        [ fold t; fold s'; rewrite B3, A3; reflexivity | |];
        apply Forall_app; split; try exact Hok; constructor; try constructor; assumption.
    + split; [|exact B2].
      destruct (erange t) eqn:E1, (erange s') eqn:E2; try reflexivity.
      * pose proof (proj2 A4 (proj1 B4 eq_refl)). discriminate.
      * pose proof (proj2 B4 (proj1 A4 eq_refl)). discriminate.
Qed.
