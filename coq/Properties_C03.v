(* C03 - the aspif reader accepts exactly well-formed aspif and never alters a number.  Statements only.
   Declarative description: C03/Spec.v (abstract program with unbounded integer fields + layout, render, in_range, calls). *)
Require Import V.Lib.Base V.Lib.Calls V.Lib.Contract V.C09.Spec V.C01.Read V.C01.Wf V.C01.ProofsPrim V.C03.Spec V.C03.ProofsSpec V.C03.ProofsProg V.C03.ProofsInv V.C03.ProofsContract.
Local Open Scope Z_scope.

(* every text that is the rendering of an in-range program - under EVERY layout - is accepted and delivers exactly the denoted calls *)
Theorem c03_complete : forall a, wf_layout a = true -> in_range a = true -> read_all (render a) = (calls a, Ok).
Proof. exact c03_complete_lemma. Qed.
Print Assumptions c03_complete.

(* if some field is outside the range of its field - by any amount, with any number of digits -, a directive or theory code is unknown,
   there is no step or a second step in a non-incremental text, the text is rejected with exactly one error; it is never accepted *)
Theorem c03_rejects : forall a, wf_layout a = true -> in_range a = false -> exists cs ln, read_all (render a) = (cs, Err ln).
Proof. exact c03_rejects_lemma. Qed.
Print Assumptions c03_rejects.

(* the crux: a number token of ANY magnitude and digit count (white space, sign, leading zeros) is matched as exactly the number it
   denotes when that fits 64 bits and fails otherwise - never a wrapped or truncated value *)
Theorem c03_number : forall l v r ln, lay_ws l = true -> stop_ok r ->
  exists ln', ln <= ln' /\
    a_match_int false (amk (render_num l v ++ r) ln) = (if Z.abs v <=? INT64_MAX then Some v else None, amk r ln').
Proof. exact match_int_render. Qed.
Print Assumptions c03_number.

(* hence every field parser accepts a token iff the denoted number lies in the field's range, and then returns that number *)
Theorem c03_field : forall lo hi l v, - INT64_MAX <= lo -> hi <= INT64_MAX -> lay_ws l = true ->
  forall r ln, stop_ok r ->
    match m_range lo hi (amk (render_num l v ++ r) ln) with
    | ROk x s' => (lo <= v <= hi) /\ x = v /\ rest s' = r
    | RErr _ => ~ (lo <= v <= hi)
    end.
Proof.
  intros lo hi l v Hlo Hhi Hws r ln Hr.
  pose proof (spec_range lo hi l v (conj Hlo Hhi) Hws r ln Hr) as H.
  destruct (m_range lo hi (amk (render_num l v ++ r) ln)); [destruct H as (H1 & H2 & H3); repeat split; try assumption; lia | lia].
Qed.
Print Assumptions c03_field.

(* ---- for EVERY text (any byte list, no well-formedness hypothesis) ---- *)

(* a rejection carries a line between 1 and the number of lines of the text (1 + number of LF / CR / CRLF terminators);
   read_all returns one outcome, so there is exactly one report; line 0 - the model's "out of fuel" - never occurs *)
Theorem c03_line : forall t cs ln, read_all t = (cs, Err ln) -> 1 <= ln <= lines t.
Proof. exact line_bound. Qed.
Print Assumptions c03_line.

(* every delivered call - on acceptance and before an error - has all arguments inside the documented ranges *)
Theorem c03_delivers_wf : forall t, Forall (fun c => wf_call c = true) (fst (read_all t)).
Proof. exact delivered_wf. Qed.
Print Assumptions c03_delivers_wf.

(* the delivered sequence is framed: init once and first, directives only inside begin/end, end only after a complete step *)
Theorem c03_contract : forall t, contract_ok (fst (read_all t)) = true.
Proof. exact reader_contract. Qed.
Print Assumptions c03_contract.
Theorem c03_steps_closed : forall t cs, read_all t = (cs, Ok) -> steps_closed cs = true.
Proof. exact reader_steps_closed. Qed.
Print Assumptions c03_steps_closed.

(* an accepted text delivers a complete well-formed trace: one or more closed steps, exactly one unless incremental, no weight-0 literal *)
Theorem c03_accepted_trace : forall t cs, read_all t = (cs, Ok) -> wf_trace cs /\ forallb wf_call cs = true /\ norm cs = cs.
Proof. exact accepted_trace. Qed.
Print Assumptions c03_accepted_trace.

(* NOT delivered: c03_sound (accepted -> the text is the rendering of some in-range program) and c03_truncated.  What is proved in
   their direction: c03_rejects for every rendering with a field / code / step count out of range, and c03_accepted_trace +
   c03_delivers_wf for arbitrary texts (nothing out of range is ever delivered). *)

(* non-vacuity: a laid-out text (tabs, CRLF, '+', leading zeros, comment, odd string separator, body code 2, two steps) *)
Definition L (ws : list Z) (plus : bool) (z : nat) : lay := mkLay ws plus z.
Definition sp := L [32] false 0.
Definition demo : aprog :=
  mkProg (mkHdr [32; 10] (L [] true 1) (L [9] false 2) (L [32; 32] false 0, 7) 3 true [13; 10])
         [mkStep [ARule (L [] false 0) (L [9] true 0, 0) (L [13; 10] false 1, [(L [32] true 3, 2147483647)]) (L [32] false 0) (L [32] false 0, [(sp, -1)]);
                  AComment (L [10] false 0) [32; 104; 105; 32; 49] [13];
                  AWRule (L [] false 0) (sp, 1) (sp, []) sp true (sp, -5) (sp, [((sp, 2), (sp, 0)); ((sp, -3), (L [9] true 2, 4))]);
                  AOutput (L [10] false 0) (mkStr sp 120 [32; 10; 48]) (sp, []);
                  ATAtomG (L [10; 10] false 0) sp (sp, 4294967295) (sp, 0) (sp, [(sp, 4000000000)]) (sp, 1) (sp, 2)]
                 (L [10] false 1);
          mkStep [] (L [13] true 0)]
         [10; 32].
Example demo_ok : wf_layout demo = true /\ in_range demo = true.
Proof. split; vm_compute; reflexivity. Qed.
Example demo_accepted : read_all (render demo) = (calls demo, Ok).
Proof. apply c03_complete; apply demo_ok. Qed.
(* the same text with the head atom 2^64+1 (a 20-digit number): rejected, never atom 1 *)
Definition demo_bad : aprog :=
  mkProg (p_hdr demo)
         [mkStep [ARule (L [] false 0) (sp, 0) (sp, [(sp, 18446744073709551617)]) sp (sp, [])] (L [10] false 0)] [10].
Example demo_bad_rejected : wf_layout demo_bad = true /\ in_range demo_bad = false /\ exists cs ln, read_all (render demo_bad) = (cs, Err ln).
Proof. split; [vm_compute; reflexivity|]. split; [vm_compute; reflexivity|]. apply c03_rejects; vm_compute; reflexivity. Qed.
