(* C03 - the aspif reader accepts exactly well-formed aspif and never alters a number.  Statements only.
   Declarative description: C03/Spec.v (abstract program with unbounded integer fields + layout, render, in_range, calls). *)
Require Import V.Lib.Base V.Lib.Calls V.Lib.Contract V.C09.Spec V.C01.Read V.C01.Wf V.C01.ProofsPrim V.C03.Spec V.C03.ProofsSpec V.C03.ProofsProg V.C03.ProofsInv V.C03.ProofsContract
  V.C03.Grammar V.C03.ProofsG5 V.C03.ProofsG6 V.C03.ProofsG8 V.C03.ProofsG9.
Local Open Scope Z_scope.

(* every text that is the rendering of an in-range program - under EVERY layout - is accepted and delivers exactly the denoted calls *)
Theorem c03_complete : forall a, wf_layout a = true -> in_range a = true -> read_all (render a) = (calls a, Ok).
Proof. exact c03_complete_lemma. Qed.
Print Assumptions c03_complete.

(* if some field is outside the range of its field - by any amount, with any number of digits -, a directive or theory code is unknown,
   there is no step or a second step in a non-incremental text, the text is rejected with exactly one error; it is never accepted *)
Theorem c03_rejects : forall a, wf_layout a = true -> in_range a = false -> exists cs ln, read_all (render a) = (cs, Err ln).
Proof. exact c03_rejects_lemma. Qed.
Print Assumptions c03_rejects.

(* the crux: a number token of ANY magnitude and digit count (white space, sign, leading zeros) is matched as exactly the number it
   denotes when that fits 64 bits and fails otherwise - never a wrapped or truncated value *)
Theorem c03_number : forall l v r ln, lay_ws l = true -> stop_ok r ->
  exists ln', ln <= ln' /\
    a_match_int false (amk (render_num l v ++ r) ln) = (if Z.abs v <=? INT64_MAX then Some v else None, amk r ln').
Proof. exact match_int_render. Qed.
Print Assumptions c03_number.

(* hence every field parser accepts a token iff the denoted number lies in the field's range, and then returns that number *)
Theorem c03_field : forall lo hi l v, - INT64_MAX <= lo -> hi <= INT64_MAX -> lay_ws l = true ->
  forall r ln, stop_ok r ->
    match m_range lo hi (amk (render_num l v ++ r) ln) with
    | ROk x s' => (lo <= v <= hi) /\ x = v /\ rest s' = r
    | RErr _ => ~ (lo <= v <= hi)
    end.
Proof.
  intros lo hi l v Hlo Hhi Hws r ln Hr.
  pose proof (spec_range lo hi l v (conj Hlo Hhi) Hws r ln Hr) as H.
  destruct (m_range lo hi (amk (render_num l v ++ r) ln)); [destruct H as (H1 & H2 & H3); repeat split; try assumption; lia | lia].
Qed.
Print Assumptions c03_field.

(* ---- for EVERY text (any byte list, no well-formedness hypothesis) ---- *)

(* a rejection carries a line between 1 and the number of lines of the text (1 + number of LF / CR / CRLF terminators);
   read_all returns one outcome, so there is exactly one report; line 0 - the model's "out of fuel" - never occurs *)
Theorem c03_line : forall t cs ln, read_all t = (cs, Err ln) -> 1 <= ln <= lines t.
Proof. exact line_bound. Qed.
Print Assumptions c03_line.

(* every delivered call - on acceptance and before an error - has all arguments inside the documented ranges *)
Theorem c03_delivers_wf : forall t, Forall (fun c => wf_call c = true) (fst (read_all t)).
Proof. exact delivered_wf. Qed.
Print Assumptions c03_delivers_wf.

(* the delivered sequence is framed: init once and first, directives only inside begin/end, end only after a complete step *)
Theorem c03_contract : forall t, contract_ok (fst (read_all t)) = true.
Proof. exact reader_contract. Qed.
Print Assumptions c03_contract.
Theorem c03_steps_closed : forall t cs, read_all t = (cs, Ok) -> steps_closed cs = true.
Proof. exact reader_steps_closed. Qed.
Print Assumptions c03_steps_closed.

(* an accepted text delivers a complete well-formed trace: one or more closed steps, exactly one unless incremental, no weight-0 literal *)
Theorem c03_accepted_trace : forall t cs, read_all t = (cs, Ok) -> wf_trace cs /\ forallb wf_call cs = true /\ norm cs = cs.
Proof. exact accepted_trace. Qed.
Print Assumptions c03_accepted_trace.

(* ==== the GENERAL description C03/Grammar.v (gprog: abstract program with unbounded integer fields + the most liberal layout:
   "-0", "+0", leading zeros, tokens glued by a sign ("1+2-3"), nothing required after a raw string or a line end, any single byte or
   CR LF as string separator, comment lines, CR / LF / CRLF, any revision, body code 2, anything after a NUL) ==== *)

(* SOUNDNESS, for EVERY byte list: an accepted text IS the rendering of a well-formed program all of whose fields are in range
   (so: every announced count is matched by its elements, every code is known, exactly one step unless incremental), and the
   delivered calls are precisely the calls that program denotes *)
Theorem c03_sound : forall t cs, read_all t = (cs, Ok) ->
  exists a, gwf a = true /\ gin_range a = true /\ t = grender a /\ cs = gcalls a.
Proof. exact g_sound. Qed.
Print Assumptions c03_sound.

(* COMPLETENESS for the general description, every layout *)
Theorem c03_complete_general : forall a, gwf a = true -> gin_range a = true -> read_all (grender a) = (gcalls a, Ok).
Proof. exact g_complete. Qed.
Print Assumptions c03_complete_general.

(* "a text is accepted EXACTLY WHEN it is a well-formed aspif program in which every number lies inside the range of its field" *)
Theorem c03_exact : forall t, (exists cs, read_all t = (cs, Ok)) <-> (exists a, gwf a = true /\ gin_range a = true /\ t = grender a).
Proof. exact g_exact. Qed.
Print Assumptions c03_exact.
(* "... and on acceptance it delivers precisely the directives the text denotes, in order" *)
Theorem c03_exact_calls : forall t cs, read_all t = (cs, Ok) <-> (exists a, gwf a = true /\ gin_range a = true /\ t = grender a /\ cs = gcalls a).
Proof. exact g_exact_calls. Qed.
Print Assumptions c03_exact_calls.

(* any well-formed rendering with a field / code / step count out of range is rejected (general layouts) *)
Theorem c03_rejects_general : forall a, gwf a = true -> gin_range a = false -> exists cs ln, read_all (grender a) = (cs, Err ln).
Proof. exact g_rejects. Qed.
Print Assumptions c03_rejects_general.

(* what a text denotes does not depend on how it is split into program and layout *)
Theorem c03_denotes_unique : forall a a', gwf a = true -> gin_range a = true -> gwf a' = true -> gin_range a' = true ->
  grender a = grender a' -> gcalls a = gcalls a'.
Proof. exact g_denotes_unique. Qed.
Print Assumptions c03_denotes_unique.
(* nor does "all fields in range": an out-of-range rendering is never also an in-range one *)
Theorem c03_range_unique : forall a a', gwf a = true -> gwf a' = true -> grender a = grender a' -> gin_range a = gin_range a'.
Proof. exact g_range_unique. Qed.
Print Assumptions c03_range_unique.

(* on texts without NUL bytes (where the stream abstraction is faithful to the C++) nothing but white space follows the last step *)
Theorem c03_exact_text : forall t, ~ In 0 t ->
  ((exists cs, read_all t = (cs, Ok)) <->
   (exists a, gwf a = true /\ gin_range a = true /\ forallb is_ws (gp_trail a) = true /\ t = grender a)).
Proof. exact g_exact_text. Qed.
Print Assumptions c03_exact_text.

(* ---- truncation.  cut_in_number p q: p ends with a digit and q begins with one (the cut splits a number: "asp 1 0 0\n0" is an
   accepted prefix of the accepted "asp 1 0 0\n01 0 1 1 0 0\n0", see cut_in_number_matters).  gtrail_ok q: q is white space only. ---- *)
(* TRUNCATED single-shot texts are rejected: cut an accepted non-incremental text anywhere - in the header, in a directive, in a
   counted list, in a string, before or inside the terminating 0 - and the remaining prefix is rejected, unless only trailing
   white space was removed or the cut splits a number *)
Theorem c03_truncated : forall p q cs, read_all (p ++ q) = (cs, Ok) -> hd CBegin cs = CInit false ->
  cut_in_number p q = false -> ~ In 0 p -> gtrail_ok q = false ->
  exists cs' ln, read_all p = (cs', Err ln).
Proof. exact g_truncated. Qed.
Print Assumptions c03_truncated.
(* the same about the description: such a prefix of a rendering is not the rendering of any in-range program *)
Theorem c03_truncated_render : forall a p q, gwf a = true -> gin_range a = true -> gh_inc (gp_hdr a) = false ->
  grender a = p ++ q -> ~ In 0 p -> cut_in_number p q = false -> gtrail_ok q = false ->
  (exists cs ln, read_all p = (cs, Err ln)) /\ ~ (exists a', gwf a' = true /\ gin_range a' = true /\ p = grender a').
Proof. exact g_truncated_render. Qed.
Print Assumptions c03_truncated_render.
(* conversely nothing but white space can be appended to an accepted single-shot text *)
Theorem c03_no_extension : forall p q cs, read_all p = (cs, Ok) -> hd CBegin cs = CInit false ->
  cut_in_number p q = false -> ~ In 0 p -> gtrail_ok q = false ->
  exists cs' ln, read_all (p ++ q) = (cs', Err ln).
Proof. exact g_no_extension. Qed.
Print Assumptions c03_no_extension.
(* every text (also incremental): if a prefix is accepted, its calls are delivered first, unchanged, for the whole text *)
Theorem c03_prefix : forall p q cs, read_all p = (cs, Ok) -> cut_in_number p q = false ->
  exists cs2 o, read_all (p ++ q) = (cs ++ cs2, o).
Proof. exact g_prefix. Qed.
Print Assumptions c03_prefix.

(* WHICH prefixes of an accepted text are themselves accepted (any text, also incremental): exactly the text cut after one of its
   complete steps, followed by white space - every other cut (inside the header, a directive, a later step, before a terminating 0)
   leaves a rejected text, unless it splits a number *)
Theorem c03_accepted_prefix : forall p q cs csp, read_all (p ++ q) = (cs, Ok) -> read_all p = (csp, Ok) ->
  cut_in_number p q = false -> ~ In 0 p ->
  exists a j ws, gwf a = true /\ gin_range a = true /\ p ++ q = grender a /\
    (1 <= j <= length (gp_steps a))%nat /\ forallb is_ws ws = true /\
    p = ghdr_r (gp_hdr a) ++ flat_map gstep_r (firstn j (gp_steps a)) ++ ws.
Proof. exact g_accepted_prefix. Qed.
Print Assumptions c03_accepted_prefix.

(* the narrow description C03/Spec.v (c03_complete / c03_rejects above, C01's round trip) is a special case of the general one *)
Theorem c03_spec_embeds : forall a, wf_layout a = true -> in_range a = true ->
  exists g, gwf g = true /\ gin_range g = true /\ grender g = render a /\ gcalls g = calls a.
Proof. exact spec_embeds. Qed.
Print Assumptions c03_spec_embeds.

(* non-vacuity: a laid-out text (tabs, CRLF, '+', leading zeros, comment, odd string separator, body code 2, two steps) *)
Definition L (ws : list Z) (plus : bool) (z : nat) : lay := mkLay ws plus z.
Definition sp := L [32] false 0.
Definition demo : aprog :=
  mkProg (mkHdr [32; 10] (L [] true 1) (L [9] false 2) (L [32; 32] false 0, 7) 3 true [13; 10])
         [mkStep [ARule (L [] false 0) (L [9] true 0, 0) (L [13; 10] false 1, [(L [32] true 3, 2147483647)]) (L [32] false 0) (L [32] false 0, [(sp, -1)]);
                  AComment (L [10] false 0) [32; 104; 105; 32; 49] [13];
                  AWRule (L [] false 0) (sp, 1) (sp, []) sp true (sp, -5) (sp, [((sp, 2), (sp, 0)); ((sp, -3), (L [9] true 2, 4))]);
                  AOutput (L [10] false 0) (mkStr sp 120 [32; 10; 48]) (sp, []);
                  ATAtomG (L [10; 10] false 0) sp (sp, 4294967295) (sp, 0) (sp, [(sp, 4000000000)]) (sp, 1) (sp, 2)]
                 (L [10] false 1);
          mkStep [] (L [13] true 0)]
         [10; 32].
Example demo_ok : wf_layout demo = true /\ in_range demo = true.
Proof. split; vm_compute; reflexivity. Qed.
Example demo_accepted : read_all (render demo) = (calls demo, Ok).
Proof. apply c03_complete; apply demo_ok. Qed.
(* the same text with the head atom 2^64+1 (a 20-digit number): rejected, never atom 1 *)
Definition demo_bad : aprog :=
  mkProg (p_hdr demo)
         [mkStep [ARule (L [] false 0) (sp, 0) (sp, [(sp, 18446744073709551617)]) sp (sp, [])] (L [10] false 0)] [10].
Example demo_bad_rejected : wf_layout demo_bad = true /\ in_range demo_bad = false /\ exists cs ln, read_all (render demo_bad) = (cs, Err ln).
Proof. split; [vm_compute; reflexivity|]. split; [vm_compute; reflexivity|]. apply c03_rejects; vm_compute; reflexivity. Qed.

(* non-vacuity for the general description: leading blanks, "+01", "-0", "007", header ended by CR, tokens glued by signs
   ("1+0-0+00 1-5+4"), string separator 'x' and the next count glued to the string, comment ended by CR, step end "-0",
   three steps, CRLF, trailing white space *)
Definition odd_text : list Z := [9; 32; 97; 115; 112; 32; 43; 48; 49; 32; 45; 48; 32; 48; 48; 55; 32; 32; 32; 105; 110; 99; 114; 101; 109; 101; 110; 116; 97; 108; 13; 49; 43; 48; 45; 48; 43; 48; 48; 32; 49; 45; 53; 43; 52; 32; 51; 120; 97; 98; 99; 48; 9; 49; 48; 32; 104; 101; 108; 108; 111; 32; 49; 32; 50; 13; 45; 48; 10; 53; 32; 49; 32; 50; 32; 48; 13; 10; 43; 48; 32; 10].
Example odd_accepted : exists cs, read_all odd_text = (cs, Ok).
Proof. eexists. vm_compute. reflexivity. Qed.
Example odd_is_a_program : exists a, gwf a = true /\ gin_range a = true /\ odd_text = grender a.
Proof. apply c03_exact. exact odd_accepted. Qed.
(* an explicit general program: "-0" as a count, a weight glued by '+', NUL as string separator, junk after a NUL at the end *)
Definition GL (ws : list Z) (sg : gsign) (z : nat) : glay := mkGLay ws sg z.
Definition g0 := GL [] SgNone 0.
Definition gsp := GL [32] SgNone 0.
Definition gdemo : gprog :=
  mkGProg (mkGHdr [] g0 gsp (gsp, 4294967295) 0 false [13])
          [mkGStep [(g0, BWRule (GL [] SgPlus 0, 1) (GL [] SgMinus 2, []) (GL [9] SgNone 0) true (GL [] SgMinus 0, -7)
                           (gsp, [((gsp, 3), (GL [] SgPlus 1, 2)); ((GL [] SgMinus 0, -4), (GL [] SgMinus 0, 0))]));
                    (GL [] SgPlus 0, BTSym gsp (gsp, 0) (mkGStr gsp [0] [49; 50]));
                    (g0, BComment [33] [13; 10])]
                   g0]
          [32; 0; 255; 49].
Example gdemo_ok : gwf gdemo = true /\ gin_range gdemo = true.
Proof. split; vm_compute; reflexivity. Qed.
Example gdemo_accepted : read_all (grender gdemo) = (gcalls gdemo, Ok).
Proof. apply c03_complete_general; apply gdemo_ok. Qed.

(* non-vacuity of c03_truncated: cut off the terminating "0\n"; and the exception: a cut that splits a number *)
Definition tr_p : list Z := [97; 115; 112; 32; 49; 32; 48; 32; 48; 10; 49; 32; 48; 32; 49; 32; 49; 32; 48; 32; 48; 10].   (* "asp 1 0 0\n1 0 1 1 0 0\n" *)
Definition tr_q : list Z := [48; 10].                                       (* "0\n" *)
Example truncated_nonvacuous :
  (exists cs, read_all (tr_p ++ tr_q) = (cs, Ok) /\ hd CBegin cs = CInit false) /\ cut_in_number tr_p tr_q = false /\ ~ In 0 tr_p /\
  gtrail_ok tr_q = false /\ exists cs' ln, read_all tr_p = (cs', Err ln).
Proof.
  assert (H : exists cs, read_all (tr_p ++ tr_q) = (cs, Ok) /\ hd CBegin cs = CInit false) by (eexists; split; vm_compute; reflexivity).
  assert (Hn : ~ In 0 tr_p) by (vm_compute; intuition discriminate).
  split; [exact H|]. split; [reflexivity|]. split; [exact Hn|]. split; [reflexivity|].
  destruct H as (cs & H1 & H2). apply (c03_truncated tr_p tr_q cs H1 H2); [reflexivity | exact Hn | reflexivity].
Qed.
Example cut_in_number_matters :
  (exists cs, read_all ([97; 115; 112; 32; 49; 32; 48; 32; 48; 10; 48]) = (cs, Ok)) /\ (exists cs, read_all ([97; 115; 112; 32; 49; 32; 48; 32; 48; 10; 48] ++ [49; 32; 48; 32; 49; 32; 49; 32; 48; 32; 48; 10; 48; 10]) = (cs, Ok)).
Proof. split; eexists; vm_compute; reflexivity. Qed.
(* a count that is not matched by the elements that follow: "3 2 5" announces two atoms, the terminating 0 is taken for the second *)
Example count_mismatch_rejected : exists cs ln, read_all ([97; 115; 112; 32; 49; 32; 48; 32; 48; 10; 51; 32; 50; 32; 53; 10; 48; 10]) = (cs, Err ln).
Proof. eexists; eexists; vm_compute; reflexivity. Qed.
