Require Import V.Lib.Base V.Lib.Calls V.C01.Read.
Local Open Scope Z_scope.
Example c03_smoke : read_all [97;115;112;32;49;32;48;32;48;10;48;10] = ([CInit false; CBegin; CEnd], Ok).
Proof. vm_compute. reflexivity. Qed.
Print Assumptions c03_smoke.
