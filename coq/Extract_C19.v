Require Import ExtrOcamlBasic.
Require Import V.C19.Model.
Extraction "model.ml" run_case.
