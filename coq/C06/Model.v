(* C06 - executable model of Potassco::AspifTextOutput (src/aspif_text.cpp, as repaired) and
   TheoryAtomStringBuilder, with the part of TheoryData (src/theory_data.cpp) the writer uses.

   State:  names   = Data::atoms/strings (atom -> display name; an association list, first match wins;
                     entries are only added for atoms that have none)
           dirs    = Data::directives, the per-step buffer, as typed records instead of uint32 words
           conds   = Data::conditions (the flat vector, modelled literally)
           step    = step_ ; out = bytes written to the ostream so far
           terms/elems/tatoms + frame = TheoryData (vectors indexed by id; None = invalid slot)
   Integers are taken as given (valid programs keep them in the C++ types' ranges; the one narrowing
   cast of the code - the count bound - is range-checked here and reported as Fault).            *)
Require Import V.Lib.Base V.Lib.Calls V.Lib.Dec V.Gen.Consts_C06.
Local Open Scope Z_scope.

Inductive res (A : Type) := Ok (a : A) | Err | Fault.
Arguments Ok {A} a. Arguments Err {A}. Arguments Fault {A}.
Definition bind {A B} (r : res A) (f : A -> res B) : res B :=
  match r with Ok a => f a | Err => Err | Fault => Fault end.

Inductive wbody := WNormal (l : list Z) | WCount (b : Z) (l : list Z) | WSum (b : Z) (l : list (Z * Z)).
Inductive dir :=
| DRule (ht : Z) (head : list Z) (b : wbody)
| DMin (l : list (Z * Z)) (p : Z)
| DProject (l : list Z)
| DOutput (s : list Z) (c : list Z)
| DExternal (a v : Z)
| DAssume (l : list Z)
| DHeu (a : Z) (c : list Z) (bias prio t : Z)
| DEdge (s t : Z) (c : list Z).

Inductive tterm := TNum (n : Z) | TSym (s : list Z) | TComp (base : Z) (args : list Z).
Record telem := mkE { te_terms : list Z; te_cond : Z }.
Record tatom := mkA { ta_atom : Z; ta_term : Z; ta_elems : list Z; ta_guard : option (Z * Z) }.

Definition names_t := list (Z * list Z).

Record wst := mkW {
  names : names_t; dirs : list dir; conds : list Z; step : Z; out : list Z;
  terms : list (option tterm); elems : list (option telem); tatoms : list tatom;
  f_atom : nat; f_term : nat; f_elem : nat }.

Definition init_st : wst := mkW [] [] [] (-1) [] [] [] [] 0 0 0.

(* ---------- names ---------- *)
Fixpoint lookup (a : Z) (nm : names_t) : option (list Z) :=
  match nm with
  | [] => None
  | (b, s) :: r => if a =? b then Some s else lookup a r
  end.
Definition has_name (nm : names_t) (a : Z) : bool := match lookup a nm with Some _ => true | None => false end.
(* printName / getName: the stored name, else "x_" << id *)
Definition name_of (nm : names_t) (a : Z) : list Z :=
  match lookup a nm with Some s => s | None => s_xpre ++ print_nat a end.
Definition print_lit (nm : names_t) (l : Z) : list Z :=
  (if l <? 0 then s_not else []) ++ name_of nm (Z.abs l).

(* ---------- separated lists ---------- *)
Fixpoint sep_list {A} (f : A -> list Z) (sep : list Z) (l : list A) : list Z :=
  match l with
  | [] => []
  | x :: r => match r with [] => f x | _ => f x ++ sep ++ sep_list f sep r end
  end.
(* a list printed with a first separator different from the following ones (" : " a, b) *)
Definition pre_list {A} (f : A -> list Z) (pre sep : list Z) (l : list A) : list Z :=
  match l with [] => [] | _ => pre ++ sep_list f sep l end.

Definition print_wlit (nm : names_t) (x : Z * Z) : list Z := print_lit nm (fst x) ++ s_eq ++ print_Z (snd x).

Definition is_nil {A} (l : list A) : bool := match l with [] => true | _ => false end.

(* ---------- writeDirectives, one directive ---------- *)
Definition render_head (nm : names_t) (ht : Z) (head : list Z) : list Z :=
  let choice := negb (ht =? 0) in
  if choice || negb (is_nil head) then
    (if choice then s_choice_open else []) ++
    sep_list (name_of nm) (if choice then s_head_sep_choice else s_head_sep_disj) head ++
    (if choice then s_choice_close else [])
  else s_if_nohead.
(* what is printed before a non-empty body: " :- " after a head, nothing after ":- " *)
Definition body_pre (ht : Z) (head : list Z) : list Z :=
  if negb (ht =? 0) || negb (is_nil head) then s_if else [].

Definition render_body (nm : names_t) (pre : list Z) (b : wbody) : list Z :=
  match b with
  | WNormal l => pre_list (print_lit nm) pre s_body_sep l
  | WCount bd l => pre ++ print_Z bd ++ s_agg_open ++ sep_list (print_lit nm) s_agg_sep l ++ s_agg_close
  | WSum bd l => pre ++ print_Z bd ++ s_agg_open ++ sep_list (print_wlit nm) s_agg_sep l ++ s_agg_close
  end.

Definition ext_term (v : Z) : list Z :=
  if v =? 0 then s_ext_free else if v =? 1 then s_ext_true else if v =? 3 then s_ext_release else s_dot.

Fixpoint assoc {B} (k : Z) (l : list (Z * B)) : option B :=
  match l with [] => None | (a, b) :: r => if k =? a then Some b else assoc k r end.
Definition heu_name (t : Z) : list Z := match assoc t heu_names with Some s => s | None => [] end.

Definition render_dir (nm : names_t) (d : dir) : list Z :=
  match d with
  | DRule ht head b => render_head nm ht head ++ render_body nm (body_pre ht head) b ++ s_dot ++ s_nl
  | DMin l p => s_minimize ++ sep_list (print_wlit nm) s_agg_sep l ++ s_min_close ++ print_Z p ++ s_dot ++ s_nl
  | DProject l => s_project ++ sep_list (print_lit nm) s_list_sep l ++ s_set_close ++ s_nl
  | DOutput s c => s_show ++ s ++ pre_list (print_lit nm) s_cond s_list_sep c ++ s_dot ++ s_nl
  | DExternal a v => s_external ++ name_of nm a ++ ext_term v ++ s_nl
  | DAssume l => s_assume ++ sep_list (print_lit nm) s_list_sep l ++ s_set_close ++ s_nl
  | DHeu a c bias prio t =>
      s_heuristic ++ name_of nm a ++ pre_list (print_lit nm) s_cond s_list_sep c ++
      s_heu_open ++ print_Z bias ++ (if prio =? 0 then [] else s_at ++ print_nat prio) ++
      s_heu_sep ++ heu_name t ++ s_heu_close ++ s_nl
  | DEdge s t c =>
      s_edge ++ print_Z s ++ s_edge_sep ++ print_Z t ++ s_edge_close ++
      pre_list (print_lit nm) s_cond s_list_sep c ++ s_dot ++ s_nl
  end.

Definition render_dirs (nm : names_t) (ds : list dir) : list Z := flat_map (render_dir nm) ds.

(* ---------- rule(ht, head, bound, lits): sum -> count normalisation ---------- *)
Definition INT_MIN : Z := -2147483648.
Definition INT_MAX : Z := 2147483647.
Definition in_int (z : Z) : bool := (INT_MIN <=? z) && (z <=? INT_MAX).

Definition min_w (l : list (Z * Z)) : Z := match l with [] => 0 | (_, w) :: r => fold_left Z.min (map snd r) w end.
Definition max_w (l : list (Z * Z)) : Z := match l with [] => 0 | (_, w) :: r => fold_left Z.max (map snd r) w end.

(* (int64(bound) + min - 1) / min, C++ division truncates towards zero; cast back to Weight_t *)
Definition count_bound (bound w : Z) : Z := Z.quot (bound + w - 1) w.

Definition wrule_dir (ht : Z) (head : list Z) (bound : Z) (lits : list (Z * Z)) : res dir :=
  let mn := min_w lits in
  if (mn =? max_w lits) && (0 <? mn) then
    let b := count_bound bound mn in
    if in_int b then Ok (DRule ht head (WCount b (map fst lits))) else Fault
  else Ok (DRule ht head (WSum bound lits)).

(* ---------- output ---------- *)
Definition is_lower (c : Z) : bool := (97 <=? c) && (c <=? 122).
Definition is_atom_name (s : list Z) : bool := match s with c :: _ => is_lower c || (c =? 95) | [] => false end.
(* Some a: the directive can become the name of atom a *)
Definition name_target (nm : names_t) (s : list Z) (c : list Z) : option Z :=
  match c with
  | [l] => if (0 <? l) && is_atom_name s && negb (has_name nm l) then Some l else None
  | _ => None
  end.

(* ---------- theory data ---------- *)
Definition nth_opt {A} (l : list (option A)) (id : Z) : option A :=
  if id <? 0 then None else match nth_error l (Z.to_nat id) with Some (Some x) => Some x | _ => None end.
Fixpoint set_nth {A} (l : list (option A)) (n : nat) (x : A) : list (option A) :=
  match n, l with
  | O, _ :: r => Some x :: r
  | O, [] => [Some x]
  | S k, y :: r => y :: set_nth r k x
  | S k, [] => None :: set_nth [] k x
  end.
(* setTerm / addElement: a slot of the current frame may not be redefined *)
Definition store {A} (l : list (option A)) (frame : nat) (id : Z) (x : A) : res (list (option A)) :=
  match nth_opt l id with
  | Some _ => if (frame <=? Z.to_nat id)%nat then Err else Ok (set_nth l (Z.to_nat id) x)
  | None => Ok (set_nth l (Z.to_nat id) x)
  end.

Definition add_condition (cs : list Z) (cond : list Z) : list Z * Z :=
  let cs1 := match cs with [] => [0] | _ => cs end in
  match cond with
  | [] => (cs1, 0)
  | _ => (cs1 ++ Z.of_nat (length cond) :: cond, Z.of_nat (length cs1))
  end.
Definition get_condition (cs : list Z) (id : Z) : list Z :=
  firstn (Z.to_nat (nth (Z.to_nat id) cs 0)) (skipn (S (Z.to_nat id)) cs).

Fixpoint map_res {A B} (f : A -> res B) (l : list A) : res (list B) :=
  match l with
  | [] => Ok []
  | x :: r => bind (f x) (fun y => bind (map_res f r) (fun ys => Ok (y :: ys)))
  end.

Definition is_op (c : Z) : bool := (c =? 0) || existsb (Z.eqb c) s_ops.   (* strchr also finds the terminator *)

Section Theory.
Variable T : list (option tterm).

Fixpoint term_str (fuel : nat) (id : Z) : res (list Z) :=
  match fuel with
  | O => Fault
  | S f =>
      match nth_opt T id with
      | None => Err
      | Some (TNum n) => Ok (print_Z n)
      | Some (TSym s) => Ok (cut0 s)
      | Some (TComp base args) =>
          let tuple (open close : Z) :=
            bind (map_res (term_str f) args) (fun ss => Ok (open :: sep_list (fun s => s) s_list_sep ss ++ [close])) in
          if 0 <=? base then
            match nth_opt T base with
            | None => Err
            | Some x =>
                let isop := match x with TSym s => is_op (hd 0 (cut0 s)) | _ => false end in
                bind (term_str f base) (fun fx =>
                  match args with
                  | [a] => if isop then bind (term_str f a) (fun sa => Ok (fx ++ sa))
                           else bind (tuple 40 41) (fun r => Ok (fx ++ r))
                  | [a; b] => if isop then bind (term_str f a) (fun sa => bind (term_str f b) (fun sb => Ok (sa ++ [32] ++ fx ++ [32] ++ sb)))
                              else bind (tuple 40 41) (fun r => Ok (fx ++ r))
                  | _ => bind (tuple 40 41) (fun r => Ok (fx ++ r))
                  end)
            end
          else
            match assoc base tuple_parens with
            | Some (o, c) => tuple o c
            | None => Fault
            end
      end
  end.
End Theory.

Definition elem_str (s : wst) (nm : names_t) (fuel : nat) (id : Z) : res (list Z) :=
  match nth_opt (elems s) id with
  | None => Err
  | Some e =>
      bind (map_res (term_str (terms s) fuel) (te_terms e)) (fun ss =>
        Ok (sep_list (fun x => x) s_list_sep ss ++
            (if te_cond e =? 0 then [] else s_cond ++ sep_list (print_lit nm) s_list_sep (get_condition (conds s) (te_cond e)))))
  end.

Definition atom_str (s : wst) (nm : names_t) (a : tatom) : res (list Z) :=
  let fuel := S (length (terms s)) in
  bind (term_str (terms s) fuel (ta_term a)) (fun st =>
  bind (map_res (elem_str s nm fuel) (ta_elems a)) (fun es =>
  bind (match ta_guard a with
        | None => Ok []
        | Some (op, rhs) => bind (term_str (terms s) fuel op) (fun so => bind (term_str (terms s) fuel rhs) (fun sr => Ok ([32] ++ so ++ [32] ++ sr)))
        end) (fun g =>
  Ok ([38] ++ st ++ [123] ++ sep_list (fun x => x) s_telem_sep es ++ [125] ++ g)))).

(* visitTheories over the atoms of the current frame: (names or exception, text emitted so far) *)
Fixpoint visit (s : wst) (nm : names_t) (o : list Z) (l : list tatom) : res names_t * list Z :=
  match l with
  | [] => (Ok nm, o)
  | a :: r =>
      match atom_str s nm a with
      | Ok name =>
          if ta_atom a =? 0 then visit s nm (o ++ name ++ s_theory_end) r
          else if has_name nm (ta_atom a) then (Err, o)
          else visit s ((ta_atom a, name) :: nm) o r
      | Err => (Err, o)
      | Fault => (Fault, o)
      end
  end.

(* ---------- the AbstractProgram interface ---------- *)
Definition set_dirs (s : wst) (d : list dir) : wst :=
  mkW (names s) d (conds s) (step s) (out s) (terms s) (elems s) (tatoms s) (f_atom s) (f_term s) (f_elem s).
Definition push (s : wst) (d : dir) : wst := set_dirs s (dirs s ++ [d]).
Definition set_names (s : wst) (nm : names_t) : wst :=
  mkW nm (dirs s) (conds s) (step s) (out s) (terms s) (elems s) (tatoms s) (f_atom s) (f_term s) (f_elem s).
Definition set_terms (s : wst) (t : list (option tterm)) : wst :=
  mkW (names s) (dirs s) (conds s) (step s) (out s) t (elems s) (tatoms s) (f_atom s) (f_term s) (f_elem s).

Definition begin_step (s : wst) : wst :=
  if 0 <=? step s then
    if step s =? 0 then
      mkW (names s) (dirs s) (conds s) (step s + 1) (out s ++ s_base) (terms s) (elems s) (tatoms s) (f_atom s) (f_term s) (f_elem s)
    else
      mkW (names s) (dirs s) (conds s) (step s + 1) (out s ++ s_step_pre ++ print_Z (step s) ++ s_step_post)
          (terms s) (elems s) (tatoms s) (length (tatoms s)) (length (terms s)) (length (elems s))
  else s.

Definition set_out (s : wst) (o : list Z) : wst :=
  mkW (names s) (dirs s) (conds s) (step s) o (terms s) (elems s) (tatoms s) (f_atom s) (f_term s) (f_elem s).

(* result: (exception?, state) - the state carries the text written before an exception *)
Definition end_step (s : wst) : res unit * wst :=
  match visit s (names s) (out s) (skipn (f_atom s) (tatoms s)) with
  | (Ok nm, o) =>
      let o' := o ++ render_dirs nm (dirs s) in
      (Ok tt, if step s <? 0 then mkW nm [] (conds s) (step s) o' [] [] [] 0 0 0
              else mkW nm [] (conds s) (step s) o' (terms s) (elems s) (tatoms s) (f_atom s) (f_term s) (f_elem s))
  | (Err, o) => (Err, set_out s o)
  | (Fault, o) => (Fault, set_out s o)
  end.

Definition lift (s : wst) (r : res wst) : res unit * wst :=
  match r with Ok s' => (Ok tt, s') | Err => (Err, s) | Fault => (Fault, s) end.

Definition do_call (s : wst) (c : call) : res unit * wst :=
  match c with
  | CEnd => end_step s
  | _ => lift s
  match c with
  (* initProgram: data_->reset() and (since the repair b0fbe3f) theory_.reset(): everything but the bytes already written starts afresh,
     so a writer used for a second program behaves like a new one *)
  | CInit inc => Ok (mkW [] [] [] (if inc then 0 else -1) (out s) [] [] [] 0 0 0)
  | CBegin => Ok (begin_step s)
  | CEnd => Ok s
  | CRule ht h b => Ok (push s (DRule ht h (WNormal b)))
  | CWRule ht h bd b => bind (wrule_dir ht h bd b) (fun d => Ok (push s d))
  | CMin p l => Ok (push s (DMin l p))
  | CProject a => Ok (push s (DProject a))
  | COutput n c =>
      match name_target (names s) n c with
      | Some a => Ok (set_names s ((a, n) :: names s))
      | None => Ok (push s (DOutput n c))
      end
  | CExternal a v => Ok (push s (DExternal a v))
  | CAssume l => Ok (push s (DAssume l))
  | CHeuristic a t b p c => Ok (push s (DHeu a c b p t))
  | CEdge x y c => Ok (push s (DEdge x y c))
  | CTNum i n => bind (store (terms s) (f_term s) i (TNum n)) (fun t => Ok (set_terms s t))
  | CTSym i n => bind (store (terms s) (f_term s) i (TSym n)) (fun t => Ok (set_terms s t))
  | CTComp i b a => bind (store (terms s) (f_term s) i (TComp b a)) (fun t => Ok (set_terms s t))
  | CTElem i t c =>
      let '(cs, cid) := add_condition (conds s) c in
      bind (store (elems s) (f_elem s) i (mkE t cid)) (fun e =>
        Ok (mkW (names s) (dirs s) cs (step s) (out s) (terms s) e (tatoms s) (f_atom s) (f_term s) (f_elem s)))
  | CTAtom a t e =>
      Ok (mkW (names s) (dirs s) (conds s) (step s) (out s) (terms s) (elems s)
              (tatoms s ++ [mkA (a mod 2147483648) t e None]) (f_atom s) (f_term s) (f_elem s))
  | CTAtomG a t e o r =>
      Ok (mkW (names s) (dirs s) (conds s) (step s) (out s) (terms s) (elems s)
              (tatoms s ++ [mkA (a mod 2147483648) t e (Some (o, r))]) (f_atom s) (f_term s) (f_elem s))
  end
  end.

(* play the calls until the first exception: (status, state); status 0 ok, 1 logic_error, 9 model fault *)
Fixpoint run_calls (s : wst) (cs : list call) : Z * wst :=
  match cs with
  | [] => (0, s)
  | c :: r => match do_call s c with
              | (Ok _, s') => run_calls s' r
              | (Err, s') => (1, s')
              | (Fault, s') => (9, s')
              end
  end.

Definition run_case (c : list Z) : list Z :=
  let '(st, s) := run_calls init_st (dec_calls (length c) c) in
  st :: Z.of_nat (length (out s)) :: out s.
