(* C06 - decidable versions of the hypotheses (for the non-vacuity examples), the condition vector round trip,
   and the theory-free special case of the step theorem. *)
Require Import V.Lib.Base V.Lib.Calls V.Lib.Dec V.Gen.Consts_C06 V.C06.Model V.C06.RefParse V.C06.Spec V.C06.ProofsLex V.C06.ProofsTerm
               V.C06.ProofsParse V.C06.ProofsTheory V.C06.ProofsStep.
Local Open Scope Z_scope.

(* ---------- addCondition / getCondition ---------- *)
Lemma get_add_condition cs c : c <> [] ->
  get_condition (fst (add_condition cs c)) (snd (add_condition cs c)) = c /\ snd (add_condition cs c) <> 0.
Proof.
  intros Hc. unfold add_condition. set (cs1 := match cs with [] => [0] | _ => cs end).
  assert (Hl : (0 < length cs1)%nat) by (unfold cs1; destruct cs; simpl; lia).
  destruct c as [|x c]; [congruence|]. cbn [fst snd]. split; [|lia].
  unfold get_condition. rewrite Nat2Z.id. rewrite app_nth2 by lia. rewrite Nat.sub_diag. cbn [nth]. rewrite Nat2Z.id.
  replace (S (length cs1)) with (length (cs1 ++ [Z.of_nat (length (x :: c))])) by (rewrite app_length; simpl; lia).
  replace (cs1 ++ Z.of_nat (length (x :: c)) :: x :: c) with ((cs1 ++ [Z.of_nat (length (x :: c))]) ++ x :: c) by (now rewrite <- app_assoc).
  rewrite skipn_app, skipn_all, Nat.sub_diag. cbn [skipn app]. apply firstn_all.
Qed.
(* later additions do not disturb a stored condition *)
Lemma get_condition_app (cs x : list Z) id : 0 <= id -> (S (Z.to_nat id) + Z.to_nat (nth (Z.to_nat id) cs 0%Z) <= length cs)%nat ->
  get_condition (cs ++ x) id = get_condition cs id.
Proof.
  intros Hid Hb. unfold get_condition. rewrite app_nth1 by lia. rewrite skipn_app.
  rewrite firstn_app. rewrite skipn_length.
  replace (Z.to_nat (nth (Z.to_nat id) cs 0%Z) - (length cs - S (Z.to_nat id)))%nat with 0%nat by lia.
  cbn [firstn]. now rewrite app_nil_r.
Qed.

(* ---------- boolean checks ---------- *)
Definition memb (a : Z) (l : list Z) : bool := existsb (Z.eqb a) l.
Lemma memb_false a l : memb a l = false -> ~ In a l.
Proof. unfold memb. intros H Hin. assert (existsb (Z.eqb a) l = true) by (apply existsb_exists; exists a; split; [assumption | apply Z.eqb_refl]). congruence. Qed.
Fixpoint nodupb (l : list Z) : bool := match l with [] => true | x :: r => negb (memb x r) && nodupb r end.
Lemma nodupb_sound l : nodupb l = true -> NoDup l.
Proof.
  induction l as [|x l IH]; [constructor|]. cbn [nodupb]. intros H. apply andb_true_iff in H. destruct H as [H1 H2].
  constructor; [apply memb_false; now apply negb_true_iff | now apply IH].
Qed.

Definition plain_nameb (nm : names_t) (a : Z) : bool := match lookup a nm with Some n => good_nameb n | None => true end.
Definition frame_okb (s1 : wst) : bool :=
  forallb (fun a => match tatom_of s1 (names s1) a with Some ta => unamb_ta ta | None => false end) (frame s1) &&
  forallb (fun c => negb (memb c (frame_atoms s1))) (frame_cond_atoms s1) &&
  forallb (fun a => match lookup a (names s1) with None => true | Some _ => false end) (frame_atoms s1) &&
  nodupb (frame_atoms s1) &&
  forallb (fun d => forallb (fun a => negb (memb a (frame_atoms s1)) && plain_nameb (names s1) a) (wlits d)) (dirs s1).
Lemma frame_okb_sound s1 : frame_okb s1 = true -> frame_ok s1.
Proof.
  unfold frame_okb. intros H. apply andb_true_iff in H. destruct H as [H H5]. apply andb_true_iff in H. destruct H as [H H4].
  apply andb_true_iff in H. destruct H as [H H3]. apply andb_true_iff in H. destruct H as [H1 H2].
  rewrite forallb_forall in H1, H2, H3, H5. constructor.
  - intros a Ha. specialize (H1 a Ha). destruct (tatom_of s1 (names s1) a) as [ta|]; [|discriminate]. now exists ta.
  - intros c Hc. apply memb_false. apply negb_true_iff. now apply H2.
  - intros a Ha. specialize (H3 a Ha). destruct (lookup a (names s1)); [discriminate | reflexivity].
  - now apply nodupb_sound.
  - intros d a Hd Ha. specialize (H5 d Hd). rewrite forallb_forall in H5. specialize (H5 a Ha). apply andb_true_iff in H5. destruct H5 as [P1 P2].
    split; [apply memb_false; now apply negb_true_iff|]. intros n E. unfold plain_nameb in P2. now rewrite E in P2.
Qed.

(* consistency from the computed structure *)
Lemma tatom_of_consistent s nm a ta : tatom_of s nm a = Some ta -> tatom_consistent s a.
Proof.
  unfold tatom_of. set (fuel := S (length (terms s))).
  destruct (tree_of (terms s) fuel (ta_term a)) as [n|] eqn:En; [|discriminate].
  destruct (map_opt (elem_of s nm fuel) (ta_elems a)) as [es|] eqn:Ee; [|discriminate]. intros Hg.
  split; [now exists fuel, n|]. split.
  - intros e He. destruct (map_opt_in _ _ _ e Ee He) as (y & Ey & _). unfold elem_of in Ey.
    destruct (nth_opt (elems s) e) as [el|]; [|discriminate]. exists el. split; [reflexivity|].
    destruct (map_opt (tree_of (terms s) fuel) (te_terms el)) as [ts|] eqn:Et; [|discriminate]. split.
    + intros t Ht. destruct (map_opt_in _ _ _ t Et Ht) as (y' & Ey' & _). now exists fuel, y'.
    + destruct (Z.eqb_spec (te_cond el) 0); [now left|]. right. destruct (get_condition (conds s) (te_cond el)); [discriminate | discriminate].
  - intros o r Eg. rewrite Eg in Hg.
    destruct (tree_of (terms s) fuel o) as [to|] eqn:Eo; [|discriminate]. destruct (tree_of (terms s) fuel r) as [tr|] eqn:Er; [|discriminate].
    split; [now exists fuel, to | now exists fuel, tr].
Qed.
Definition frame_validb (s1 : wst) : bool :=
  forallb (fun a => match tatom_of s1 (names s1) a with Some _ => true | None => false end) (frame s1) &&
  forallb (fun a => match lookup a (names s1) with None => true | Some _ => false end) (frame_atoms s1) &&
  nodupb (frame_atoms s1).
Lemma frame_validb_sound s1 : frame_validb s1 = true -> frame_valid s1.
Proof.
  unfold frame_validb. intros H. apply andb_true_iff in H. destruct H as [H H3]. apply andb_true_iff in H. destruct H as [H1 H2].
  rewrite forallb_forall in H1, H2. constructor.
  - intros a Ha. specialize (H1 a Ha). destruct (tatom_of s1 (names s1) a) as [ta|] eqn:E; [|discriminate]. now apply (tatom_of_consistent s1 (names s1) a ta).
  - intros a Ha. specialize (H2 a Ha). destruct (lookup a (names s1)); [discriminate | reflexivity].
  - now apply nodupb_sound.
Qed.
Lemma frame_ok_valid s1 : frame_ok s1 -> frame_valid s1.
Proof.
  intros [W1 W2 W3 W4 W5]. constructor; try assumption.
  intros a Ha. destruct (W1 a Ha) as (ta & E & _). now apply (tatom_of_consistent s1 (names s1) a ta).
Qed.

(* validity of calls *)
Definition nonnegb (l : list Z) : bool := forallb (fun a => 0 <=? a) l.
Lemma nonnegb_sound l : nonnegb l = true -> nonneg l.
Proof. unfold nonnegb, nonneg. rewrite forallb_forall, Forall_forall. intros H x Hx. specialize (H x Hx). lia. Qed.
Definition slot_freeb {A} (l : list (option A)) (fr : nat) (id : Z) : bool :=
  (0 <=? id) && match nth_opt l id with None => true | Some _ => (Z.to_nat id <? fr)%nat end.
Lemma slot_freeb_sound {A} (l : list (option A)) fr id : slot_freeb l fr id = true -> slot_free l fr id.
Proof.
  unfold slot_freeb, slot_free. intros H. apply andb_true_iff in H. destruct H as [H1 H2]. split; [lia|].
  destruct (nth_opt l id); [right; now apply Nat.ltb_lt | now left].
Qed.
Definition tcall_okb (s : wst) (c : call) : bool :=
  match c with
  | CRule _ h _ => nonnegb h
  | CWRule _ h bd b => nonnegb h && in_int bd && forallb (fun x => in_int (snd x)) b
  | CMin _ _ => true
  | CProject a => nonnegb a
  | COutput n _ => good_nameb n
  | CExternal a v => (0 <=? a) && (0 <=? v) && (v <=? 3)
  | CAssume _ => true
  | CHeuristic a t _ p _ => (0 <=? a) && (0 <=? p) && (0 <=? t) && (t <=? 5)
  | CEdge _ _ _ => true
  | CTNum i _ | CTSym i _ | CTComp i _ _ => slot_freeb (terms s) (f_term s) i
  | CTElem i _ _ => slot_freeb (elems s) (f_elem s) i
  | CTAtom a _ _ | CTAtomG a _ _ _ _ => (0 <=? a) && (a <? 2147483648)
  | _ => false
  end.
Lemma tcall_okb_sound s c : tcall_okb s c = true -> tcall_ok s c.
Proof.
  destruct c; cbn [tcall_okb tcall_ok call_ok]; intros H; try discriminate; try exact I;
    try (now apply nonnegb_sound); try (now apply slot_freeb_sound); try lia.
  - apply andb_true_iff in H. destruct H as [H H3]. apply andb_true_iff in H. destruct H as [H1 H2].
    split; [now apply nonnegb_sound|]. split; [assumption|]. rewrite forallb_forall in H3. now apply Forall_forall.
  - exact H.
Qed.
Fixpoint calls_okb (s : wst) (cs : list call) : bool :=
  match cs with [] => true | c :: r => tcall_okb s c && calls_okb (snd (do_call s c)) r end.
Lemma calls_okb_sound cs : forall s, calls_okb s cs = true -> calls_ok s cs.
Proof.
  induction cs as [|c cs IH]; intros s H; [exact I|]. cbn [calls_okb] in H. apply andb_true_iff in H. destruct H as [H1 H2].
  split; [now apply tcall_okb_sound | now apply IH].
Qed.
