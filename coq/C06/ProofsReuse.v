(* C06 - a writer that is used for a second program behaves like a new one: initProgram clears everything but the bytes already written,
   and no later call reads those bytes (the state's text is only ever appended to). *)
Require Import V.Lib.Base V.Lib.Calls V.Lib.Dec V.Gen.Consts_C06 V.C06.Model.
Local Open Scope Z_scope.

(* the same writer state in front of which the text o has already been written *)
Definition pre (o : list Z) (s : wst) : wst := set_out s (o ++ out s).

Lemma pre_nil s : pre [] s = s.
Proof. destruct s; reflexivity. Qed.

Lemma atom_str_pre o s nm a : atom_str (pre o s) nm a = atom_str s nm a.
Proof. reflexivity. Qed.

Lemma visit_pre o s : forall l nm o',
  visit (pre o s) nm (o ++ o') l = (fst (visit s nm o' l), o ++ snd (visit s nm o' l)).
Proof.
  induction l as [|a r IH]; intros nm o'; cbn [visit]; [reflexivity|].
  rewrite atom_str_pre. destruct (atom_str s nm a) as [name| |]; [|reflexivity|reflexivity].
  destruct (ta_atom a =? 0) eqn:E0.
  - replace ((o ++ o') ++ name ++ s_theory_end) with (o ++ (o' ++ name ++ s_theory_end)) by (rewrite !app_assoc; reflexivity).
    apply IH.
  - destruct (has_name nm (ta_atom a)); [reflexivity|]. apply IH.
Qed.

Lemma end_step_pre o s : end_step (pre o s) = (fst (end_step s), pre o (snd (end_step s))).
Proof.
  unfold end_step. change (names (pre o s)) with (names s). change (out (pre o s)) with (o ++ out s).
  change (f_atom (pre o s)) with (f_atom s). change (tatoms (pre o s)) with (tatoms s).
  rewrite visit_pre. destruct (visit s (names s) (out s) (skipn (f_atom s) (tatoms s))) as [[nm| |] x]; cbn [fst snd].
  - change (step (pre o s)) with (step s). destruct (step s <? 0); unfold pre, set_out; cbn; rewrite app_assoc; reflexivity.
  - reflexivity.
  - reflexivity.
Qed.

Lemma do_call_pre o s c : do_call (pre o s) c = (fst (do_call s c), pre o (snd (do_call s c))).
Proof.
  destruct c as [inc| | |ht h b|ht h bd b|p l|a|n c|a v|l|a t b p c|x y c|i n|i n|i b a|i t c|a t e|a t e op rhs]; try reflexivity.
  - (* CBegin *) cbn. unfold begin_step. change (step (pre o s)) with (step s).
    destruct (0 <=? step s); [|reflexivity]. destruct (step s =? 0); unfold pre, set_out; cbn; rewrite ?app_assoc; reflexivity.
  - (* CEnd *) apply end_step_pre.
  - (* CWRule *) cbn. destruct (wrule_dir ht h bd b); reflexivity.
  - (* COutput *) cbn. change (names (pre o s)) with (names s). destruct (name_target (names s) n c); reflexivity.
  - (* CTNum *) cbn. change (terms (pre o s)) with (terms s). change (f_term (pre o s)) with (f_term s).
    destruct (store (terms s) (f_term s) i (TNum n)); reflexivity.
  - cbn. change (terms (pre o s)) with (terms s). change (f_term (pre o s)) with (f_term s).
    destruct (store (terms s) (f_term s) i (TSym n)); reflexivity.
  - cbn. change (terms (pre o s)) with (terms s). change (f_term (pre o s)) with (f_term s).
    destruct (store (terms s) (f_term s) i (TComp b a)); reflexivity.
  - cbn. change (conds (pre o s)) with (conds s). destruct (add_condition (conds s) c) as [cs cid].
    change (elems (pre o s)) with (elems s). change (f_elem (pre o s)) with (f_elem s).
    destruct (store (elems s) (f_elem s) i (mkE t cid)); reflexivity.
Qed.

Lemma run_calls_pre o : forall cs s,
  run_calls (pre o s) cs = (fst (run_calls s cs), pre o (snd (run_calls s cs))).
Proof.
  induction cs as [|c r IH]; intros s; cbn [run_calls]; [reflexivity|].
  rewrite do_call_pre. destruct (do_call s c) as [[u| |] s']; cbn [fst snd]; [apply IH|reflexivity|reflexivity].
Qed.

(* initProgram on ANY state = initProgram on a new writer, in front of which the old text stands *)
Lemma init_is_fresh s inc :
  do_call s (CInit inc) = (Ok tt, pre (out s) (snd (do_call init_st (CInit inc)))).
Proof. cbn. unfold pre, set_out; cbn. rewrite app_nil_r. reflexivity. Qed.

Lemma second_program_like_fresh s inc cs :
  let s1 := snd (do_call s (CInit inc)) in
  let f := run_calls (snd (do_call init_st (CInit inc))) cs in
  fst (run_calls s1 cs) = fst f /\ out (snd (run_calls s1 cs)) = out s ++ out (snd f) /\
  snd (run_calls s1 cs) = pre (out s) (snd f).
Proof.
  cbv zeta. rewrite init_is_fresh. cbn [snd]. rewrite run_calls_pre. cbn [fst snd]. repeat split.
Qed.
