(* C06 - a reference parser for the ground text syntax the writer targets, and the statements it yields.
   Scannerless recursive descent over bytes; every token may be preceded by whitespace (blank, tab, CR, LF);
   '%' starts a comment that extends to the end of the line.  Definitions only.

     statement ::= [head] [":-" body] "."
                 | "#minimize" "{" [wlit {";" wlit}] "}" ["@" int] "."
                 | "#project" "{" [name {"," name}] "}" "."      | "#assume" "{" [lit {"," lit}] "}" "."
                 | "#show" name [":" lit {"," lit}] "."
                 | "#external" name "." ["[" ("free"|"true"|"release"|"false") "]"]
                 | "#heuristic" name [":" lit {"," lit}] "." "[" int ["@" int] "," modifier "]"
                 | "#edge" "(" int "," int ")" [":" lit {"," lit}] "."
     head      ::= name {"|" name} | "{" [name {";" name}] "}"
     body      ::= [lit {"," lit}] | int "{" [wlit {";" wlit}] "}"
     wlit      ::= lit ["=" int]          (weight 1 when absent)
     lit       ::= ["not"] name
     name      ::= plain | tatom
     plain     ::= ident [ "(" balanced ")" ]   ident = [a-z_][A-Za-z0-9_]* other than "not"; the argument list
                   follows the identifier directly, runs to the matching ")", quoted strings inside are opaque
     tatom     ::= "&" prim "{" [telem {";" telem}] "}" [op term]
     telem     ::= term {"," term} [":" plit {"," plit}]  |  ":" plit {"," plit}            plit ::= ["not"] plain
     term      ::= op prim | prim [op prim]                 (an operator term below an operator term needs brackets)
     prim      ::= ["-"] digits | sym | sym "(" [term {"," term}] ")" | "(" [term {"," term}] ")" | "{" .. "}" | "[" .. "]"
     sym       ::= [A-Za-z_][A-Za-z0-9_]*      op ::= one or more of / ! < = > + - * \ ? & @ ~ ^   (longest match;
                   "-" directly followed by a digit at the start of a term is the sign of a number)
   A theory atom in front of "." is read as a fact whose head is that theory atom.                                  *)
Require Import V.Lib.Base V.Lib.Dec.
Local Open Scope Z_scope.

(* ---------- statements, generic in the type of atoms ---------- *)
Section Stmt.
Variable A : Type.
Definition glit := (bool * A)%type.                       (* (negated?, atom) *)
Inductive body := BNormal (l : list glit) | BAgg (b : Z) (l : list (glit * Z)).
Inductive stmt :=
| SRule (choice : bool) (head : list A) (b : body)
| SMin (p : Z) (l : list (glit * Z))
| SProject (l : list A)
| SShow (t : list Z) (c : list glit)
| SExternal (a : A) (v : Z)
| SAssume (l : list glit)
| SHeu (a : A) (c : list glit) (bias prio m : Z)
| SEdge (s t : Z) (c : list glit).
End Stmt.
Arguments BNormal {A} l. Arguments BAgg {A} b l.
Arguments SRule {A}. Arguments SMin {A}. Arguments SProject {A}. Arguments SShow {A}. Arguments SExternal {A}.
Arguments SAssume {A}. Arguments SHeu {A}. Arguments SEdge {A}.

(* ---------- theory atoms ---------- *)
Inductive ttree :=
| TN (n : Z) | TS (s : list Z)
| TF (f : ttree) (args : list ttree)          (* f(args) *)
| TT (kind : Z) (args : list ttree)           (* tuple: -1 (..)  -2 {..}  -3 [..] *)
| TU (op : list Z) (a : ttree)                (* op a *)
| TB (op : list Z) (a b : ttree).             (* a op b *)
Definition telemt := (list ttree * list (glit (list Z)))%type.         (* terms : condition (plain literals) *)
Record tatomt := mkTA { tt_name : ttree; tt_elems : list telemt; tt_guard : option (ttree * ttree) }.
(* what the parser reads at an atom position: a plain name or a theory atom *)
Inductive patom := PN (n : list Z) | PT (t : tatomt).

Section Map.
Context {A B : Type} (f : A -> B).
Definition map_lit (x : glit A) : glit B := (fst x, f (snd x)).
Definition map_wlit (x : glit A * Z) : glit B * Z := (map_lit (fst x), snd x).
Definition map_body (b : body A) : body B :=
  match b with BNormal l => BNormal (map map_lit l) | BAgg bd l => BAgg bd (map map_wlit l) end.
Definition map_stmt (s : stmt A) : stmt B :=
  match s with
  | SRule c h b => SRule c (map f h) (map_body b)
  | SMin p l => SMin p (map map_wlit l)
  | SProject l => SProject (map f l)
  | SShow t c => SShow t (map map_lit c)
  | SExternal a v => SExternal (f a) v
  | SAssume l => SAssume (map map_lit l)
  | SHeu a c b p m => SHeu (f a) (map map_lit c) b p m
  | SEdge s t c => SEdge s t (map map_lit c)
  end.
End Map.

(* ---------- satisfaction of bodies ---------- *)
Section Sat.
Context {A : Type} (X : A -> bool).
Definition sat_lit (l : glit A) : bool := xorb (fst l) (X (snd l)).
Fixpoint wsum (l : list (glit A * Z)) : Z :=
  match l with [] => 0 | (x, w) :: r => (if sat_lit x then w else 0) + wsum r end.
Definition sat (b : body A) : bool :=
  match b with BNormal l => forallb sat_lit l | BAgg bd l => bd <=? wsum l end.
End Sat.

(* ---------- parser ---------- *)
Definition parser (A : Type) := list Z -> option (A * list Z).
Definition ret {A} (a : A) : parser A := fun l => Some (a, l).
Definition bnd {A B} (p : parser A) (k : A -> parser B) : parser B :=
  fun l => match p l with Some (a, r) => k a r | None => None end.
Notation "x <- p ;; k" := (bnd p (fun x => k)) (at level 61, p at next level, right associativity).
Notation "p ;;; k" := (bnd p (fun _ => k)) (at level 61, right associativity).

Fixpoint skipws (l : list Z) : list Z :=
  match l with c :: r => if is_ws c then skipws r else l | [] => [] end.
Fixpoint prefix (p l : list Z) : option (list Z) :=
  match p with
  | [] => Some l
  | a :: p' => match l with b :: l' => if a =? b then prefix p' l' else None | [] => None end
  end.
Definition tok (s : list Z) : parser unit :=
  fun l => match prefix s (skipws l) with Some r => Some (tt, r) | None => None end.
(* optional part introduced by token s *)
Definition opt {A} (s : list Z) (p : parser A) (d : A) : parser A :=
  fun l => match tok s l with Some (_, r) => p r | None => Some (d, l) end.

Definition is_lower (c : Z) : bool := (97 <=? c) && (c <=? 122).
Definition is_upper (c : Z) : bool := (65 <=? c) && (c <=? 90).
Definition is_ident_char (c : Z) : bool := is_lower c || is_upper c || is_digit c || (c =? 95).
Definition is_name_start (c : Z) : bool := is_lower c || (c =? 95).
Fixpoint span (f : Z -> bool) (l : list Z) : list Z * list Z :=
  match l with
  | c :: r => if f c then let '(a, b) := span f r in (c :: a, b) else ([], l)
  | [] => ([], [])
  end.

Definition kw_not : list Z := [110; 111; 116].
Definition p_ident : parser (list Z) :=
  fun l => match skipws l with
           | c :: r => if is_name_start c then let '(a, b) := span is_ident_char r in Some (c :: a, b) else None
           | [] => None
           end.

(* the rest of an argument list after its "(": up to and including the matching ")" *)
Definition consr (c : Z) (o : option (list Z * list Z)) : option (list Z * list Z) :=
  match o with Some (x, y) => Some (c :: x, y) | None => None end.
Fixpoint scan (d : nat) (instr esc : bool) (l : list Z) : option (list Z * list Z) :=
  match l with
  | [] => None
  | c :: r =>
      if instr then
        (if esc then consr c (scan d true false r)
         else if c =? 92 then consr c (scan d true true r)
         else if c =? 34 then consr c (scan d false false r)
         else consr c (scan d true false r))
      else if c =? 34 then consr c (scan d true false r)
      else if c =? 40 then consr c (scan (S d) false false r)
      else if c =? 41 then match d with O => None | S O => Some ([c], r) | S d' => consr c (scan d' false false r) end
      else consr c (scan d false false r)
  end.
Definition p_args : parser (list Z) :=
  fun l => match l with
           | c :: r => if c =? 40 then consr c (scan 1 false false r) else Some ([], l)
           | [] => Some ([], l)
           end.
Definition p_name0 : parser (list Z) :=
  n <- p_ident ;; if list_eqb n kw_not then (fun _ => None) else (a <- p_args ;; ret (n ++ a)).
Definition p_lit0 : parser (glit (list Z)) :=
  n <- p_ident ;; if list_eqb n kw_not then (m <- p_name0 ;; ret (true, m)) else (a <- p_args ;; ret (false, n ++ a)).

(* the names the parser reads back: an identifier other than "not", optionally followed by a well-formed argument list *)
Definition nilb {A} (l : list A) : bool := match l with [] => true | _ => false end.
Definition args_okb (a : list Z) : bool :=
  match a with
  | [] => true
  | c :: b => (c =? 40) && match scan 1 false false b with Some (x, y) => nilb y | None => false end
  end.
Definition good_nameb (n : list Z) : bool :=
  match n with
  | c :: r => is_name_start c && (let '(i, a) := span is_ident_char r in negb (list_eqb (c :: i) kw_not) && args_okb a)
  | [] => false
  end.

Definition p_digits : parser Z :=
  fun l => let '(d, r) := span is_digit l in match d with [] => None | _ => Some (value d, r) end.
Definition p_nat : parser Z := fun l => p_digits (skipws l).
Definition p_int : parser Z :=
  fun l => match skipws l with
           | c :: r => if c =? 45 then match p_digits r with Some (v, r') => Some (- v, r') | None => None end
                       else p_digits (c :: r)
           | [] => None
           end.

(* one or more elements separated by token sep *)
Fixpoint p_sep1 {A} (fuel : nat) (p : parser A) (sep : list Z) : parser (list A) :=
  fun l => match fuel with
           | O => None
           | S f => match p l with
                    | None => None
                    | Some (x, r) =>
                        match tok sep r with
                        | Some (_, r') => match p_sep1 f p sep r' with Some (xs, r'') => Some (x :: xs, r'') | None => None end
                        | None => Some ([x], r)
                        end
                    end
           end.
Definition p_list1 {A} (p : parser A) (sep : list Z) : parser (list A) := fun l => p_sep1 (S (length l)) p sep l.
(* zero or more elements, the list is empty when the closing token follows *)
Definition p_list0 {A} (p : parser A) (sep close : list Z) : parser (list A) :=
  fun l => match tok close l with Some _ => Some ([], l) | None => p_list1 p sep l end.

Definition t_dot := [46]. Definition t_comma := [44]. Definition t_semi := [59]. Definition t_bar := [124].
Definition t_lbrace := [123]. Definition t_rbrace := [125]. Definition t_colon := [58]. Definition t_if := [58; 45].
Definition t_at := [64]. Definition t_lbrack := [91]. Definition t_rbrack := [93]. Definition t_lpar := [40]. Definition t_rpar := [41].
Definition t_minimize := [35; 109; 105; 110; 105; 109; 105; 122; 101].
Definition t_project := [35; 112; 114; 111; 106; 101; 99; 116].
Definition t_show := [35; 115; 104; 111; 119].
Definition t_external := [35; 101; 120; 116; 101; 114; 110; 97; 108].
Definition t_assume := [35; 97; 115; 115; 117; 109; 101].
Definition t_heuristic := [35; 104; 101; 117; 114; 105; 115; 116; 105; 99].
Definition t_edge := [35; 101; 100; 103; 101].

(* ---------- theory terms and theory atoms ---------- *)
Definition sop_chars : list Z := [47; 33; 60; 61; 62; 43; 45; 42; 92; 63; 38; 64; 126; 94].    (* / ! < = > + - * \ ? & @ ~ ^ *)
Definition is_sop (c : Z) : bool := existsb (Z.eqb c) sop_chars.
Definition is_sym_start (c : Z) : bool := is_lower c || is_upper c || (c =? 95).
Definition hd_digit (l : list Z) : bool := match l with c :: _ => is_digit c | [] => false end.
Definition brackets : list (Z * (Z * Z)) := [(-1, (40, 41)); (-2, (123, 125)); (-3, (91, 93))].
Fixpoint open_kind (tab : list (Z * (Z * Z))) (c : Z) : option (Z * Z) :=
  match tab with
  | [] => None
  | (k, (o, cl)) :: r => if c =? o then Some (k, cl) else open_kind r c
  end.

Section TermBody.
Variable pt : parser ttree.                       (* the parser for terms nested in brackets *)
(* after the opening bracket: [term {"," term}] close *)
Definition p_targs (close : Z) : parser (list ttree) :=
  fun l => match tok [close] l with
           | Some (_, r) => Some ([], r)
           | None => (xs <- p_list1 pt t_comma ;; tok [close] ;;; ret xs) l
           end.
Definition p_prim : parser ttree :=
  fun l => match skipws l with
           | c :: r =>
               if is_digit c then (n <- p_digits ;; ret (TN n)) (c :: r)
               else if (c =? 45) && hd_digit r then (n <- p_digits ;; ret (TN (- n))) r
               else if is_sym_start c then
                 let '(a, b) := span is_ident_char r in
                 match b with
                 | d :: b' => if d =? 40 then (xs <- p_targs 41 ;; ret (TF (TS (c :: a)) xs)) b' else Some (TS (c :: a), b)
                 | [] => Some (TS (c :: a), b)
                 end
               else match open_kind brackets c with
                    | Some (k, cl) => (xs <- p_targs cl ;; ret (TT k xs)) r
                    | None => None
                    end
           | [] => None
           end.
(* an operator in front of what is left, if any *)
Definition p_op : parser (option (list Z)) :=
  fun l => match skipws l with
           | d :: r => if is_sop d then let '(o, r') := span is_sop (d :: r) in Some (Some o, r') else Some (None, l)
           | [] => Some (None, l)
           end.
Definition p_term1 : parser ttree :=
  fun l => match skipws l with
           | c :: r =>
               if is_sop c && negb ((c =? 45) && hd_digit r) then
                 let '(o, r') := span is_sop (c :: r) in (a <- p_prim ;; ret (TU o a)) r'
               else (a <- p_prim ;; o <- p_op ;;
                     match o with Some o' => (b <- p_prim ;; ret (TB o' a b)) | None => ret a end) (c :: r)
           | [] => None
           end.
End TermBody.
Fixpoint p_term (fuel : nat) : parser ttree :=
  match fuel with O => fun _ => None | S f => p_term1 (p_term f) end.

Definition p_cond0 : parser (list (glit (list Z))) := p_list1 p_lit0 t_comma.
Definition p_telem (fuel : nat) : parser telemt :=
  fun l0 => let l := skipws l0 in
           match tok t_colon l with
           | Some (_, r) => (c <- p_cond0 ;; ret ([], c)) r
           | None => (ts <- p_list1 (p_term fuel) t_comma ;; c <- opt t_colon p_cond0 [] ;; ret (ts, c)) l
           end.
Definition p_tatom (fuel : nat) : parser tatomt :=
  tok [38] ;;; n <- p_prim (p_term fuel) ;; tok t_lbrace ;;; es <- p_list0 (p_telem fuel) t_semi t_rbrace ;; tok t_rbrace ;;;
  o <- p_op ;; match o with
               | Some o' => (b <- p_term fuel ;; ret (mkTA n es (Some (TS o', b))))
               | None => ret (mkTA n es None)
               end.

(* names and literals at atom positions *)
Definition starts_amp (l : list Z) : bool := match l with c :: _ => c =? 38 | [] => false end.
Definition p_name : parser patom :=
  fun l0 => let l := skipws l0 in
            if starts_amp l then (t <- p_tatom (S (length l)) ;; ret (PT t)) l else (n <- p_name0 ;; ret (PN n)) l.
Definition p_lit : parser (glit patom) :=
  fun l0 => let l := skipws l0 in
            if starts_amp l then (t <- p_tatom (S (length l)) ;; ret (false, PT t)) l
            else (n <- p_ident ;; if list_eqb n kw_not then (m <- p_name ;; ret (true, m)) else (a <- p_args ;; ret (false, PN (n ++ a)))) l.
Definition p_wlit : parser (glit patom * Z) :=
  x <- p_lit ;; w <- opt [61] p_int 1 ;; ret (x, w).

Definition p_cond : parser (list (glit patom)) := opt t_colon (p_list1 p_lit t_comma) [].

Definition p_body : parser (body patom) :=
  fun l => let l' := skipws l in
           match l' with
           | c :: _ =>
               if is_digit c || (c =? 45) then
                 (b <- p_int ;; tok t_lbrace ;;; e <- p_list0 p_wlit t_semi t_rbrace ;; tok t_rbrace ;;; ret (BAgg b e)) l'
               else (x <- p_list0 p_lit t_comma t_dot ;; ret (BNormal x)) l'
           | [] => None
           end.

Definition p_rule_tail (choice : bool) (head : list patom) : parser (stmt patom) :=
  b <- opt t_if p_body (BNormal []) ;; tok t_dot ;;; ret (SRule choice head b).

Definition p_rule : parser (stmt patom) :=
  fun l => match tok t_lbrace l with
           | Some (_, r) => (h <- p_list0 p_name t_semi t_rbrace ;; tok t_rbrace ;;; p_rule_tail true h) r
           | None => match tok t_if l with
                     | Some _ => p_rule_tail false [] l
                     | None => (h <- p_list1 p_name t_bar ;; p_rule_tail false h) l
                     end
           end.

(* keyword table: first match *)
Fixpoint p_kw (tab : list (Z * list Z)) : parser Z :=
  fun l => match tab with
           | [] => None
           | (v, s) :: r => match tok s l with Some (_, l') => Some (v, l') | None => p_kw r l end
           end.
Definition ext_values : list (Z * list Z) :=
  [(0, [102; 114; 101; 101]); (1, [116; 114; 117; 101]); (3, [114; 101; 108; 101; 97; 115; 101]); (2, [102; 97; 108; 115; 101])].
Definition heu_values : list (Z * list Z) :=
  [(0, [108; 101; 118; 101; 108]); (1, [115; 105; 103; 110]); (2, [102; 97; 99; 116; 111; 114]); (3, [105; 110; 105; 116]);
   (4, [116; 114; 117; 101]); (5, [102; 97; 108; 115; 101])].

Definition p_stmt : parser (stmt patom) :=
  fun l =>
  match tok t_minimize l with
  | Some (_, r) => (tok t_lbrace ;;; e <- p_list0 p_wlit t_semi t_rbrace ;; tok t_rbrace ;;;
                    p <- opt t_at p_int 0 ;; tok t_dot ;;; ret (SMin p e)) r
  | None =>
  match tok t_project l with
  | Some (_, r) => (tok t_lbrace ;;; e <- p_list0 p_name t_comma t_rbrace ;; tok t_rbrace ;;; tok t_dot ;;; ret (SProject e)) r
  | None =>
  match tok t_show l with
  | Some (_, r) => (t <- p_name0 ;; c <- p_cond ;; tok t_dot ;;; ret (SShow t c)) r
  | None =>
  match tok t_external l with
  | Some (_, r) => (a <- p_name ;; tok t_dot ;;; v <- opt t_lbrack (v <- p_kw ext_values ;; tok t_rbrack ;;; ret v) 2 ;; ret (SExternal a v)) r
  | None =>
  match tok t_assume l with
  | Some (_, r) => (tok t_lbrace ;;; e <- p_list0 p_lit t_comma t_rbrace ;; tok t_rbrace ;;; tok t_dot ;;; ret (SAssume e)) r
  | None =>
  match tok t_heuristic l with
  | Some (_, r) => (a <- p_name ;; c <- p_cond ;; tok t_dot ;;; tok t_lbrack ;;; b <- p_int ;; p <- opt t_at p_nat 0 ;;
                    tok t_comma ;;; m <- p_kw heu_values ;; tok t_rbrack ;;; ret (SHeu a c b p m)) r
  | None =>
  match tok t_edge l with
  | Some (_, r) => (tok t_lpar ;;; s <- p_int ;; tok t_comma ;;; t <- p_int ;; tok t_rpar ;;; c <- p_cond ;; tok t_dot ;;; ret (SEdge s t c)) r
  | None => p_rule l
  end end end end end end end.

Fixpoint skip_line (l : list Z) : list Z :=
  match l with c :: r => if c =? 10 then r else skip_line r | [] => [] end.

Fixpoint p_stmts (n : nat) (l : list Z) : option (list (stmt patom)) :=
  match n with
  | O => None
  | S k =>
      match skipws l with
      | [] => Some []
      | c :: r =>
          if c =? 37 then p_stmts k (skip_line r)
          else match p_stmt (c :: r) with
               | Some (s, r') => match p_stmts k r' with Some ss => Some (s :: ss) | None => None end
               | None => None
               end
      end
  end.

Definition ref_parse (l : list Z) : option (list (stmt patom)) := p_stmts (S (length l)) l.
