(* C06 - a whole step: what the model buffers, the sum -> count normalisation, and the final theorems' lemmas. *)
Require Import V.Lib.Base V.Lib.Calls V.Lib.Dec V.Gen.Consts_C06 V.C06.Model V.C06.RefParse V.C06.Spec V.C06.ProofsLex V.C06.ProofsParse.
Require Import ZifyBool.
Local Open Scope Z_scope.

(* ---------- arithmetic of the count bound ---------- *)
Lemma div_bounds a w : 0 < w -> w * (a / w) <= a < w * (a / w) + w.
Proof. intros Hw. pose proof (Z.div_mod a w ltac:(lia)). pose proof (Z.mod_pos_bound a w Hw). lia. Qed.

Lemma count_bound_iff b w k : 1 <= w -> 0 <= k -> (count_bound b w <=? k) = (b <=? w * k).
Proof.
  intros Hw Hk. unfold count_bound. destruct (Z_le_gt_dec 0 (b + w - 1)) as [Hn|Hn].
  - rewrite Z.quot_div_nonneg by lia. pose proof (div_bounds (b + w - 1) w ltac:(lia)) as Hq.
    set (q := (b + w - 1) / w) in *. clearbody q.
    apply Bool.eq_iff_eq_true. rewrite !Z.leb_le. split; intro H; nia.
  - replace (b + w - 1) with (- (- (b + w - 1))) by lia. rewrite Z.quot_opp_l by lia.
    rewrite Z.quot_div_nonneg by lia. pose proof (div_bounds (- (b + w - 1)) w ltac:(lia)) as Hq.
    set (q := (- (b + w - 1)) / w) in *. clearbody q.
    apply Bool.eq_iff_eq_true. rewrite !Z.leb_le. split; intro H; nia.
Qed.

Lemma count_bound_range b w : in_int b = true -> 1 <= w -> in_int (count_bound b w) = true.
Proof.
  unfold in_int, INT_MIN, INT_MAX, count_bound. intros Hb Hw.
  destruct (Z_le_gt_dec 0 (b + w - 1)) as [Hn|Hn].
  - rewrite Z.quot_div_nonneg by lia. pose proof (div_bounds (b + w - 1) w ltac:(lia)) as Hq.
    set (q := (b + w - 1) / w) in *. clearbody q.
    assert (0 <= q) by nia. assert (q <= Z.max b 0) by nia. lia.
  - replace (b + w - 1) with (- (- (b + w - 1))) by lia. rewrite Z.quot_opp_l by lia.
    rewrite Z.quot_div_nonneg by lia. pose proof (div_bounds (- (b + w - 1)) w ltac:(lia)) as Hq.
    set (q := (- (b + w - 1)) / w) in *. clearbody q.
    assert (0 <= q) by nia. assert (q <= - (b + w - 1)) by nia. lia.
Qed.

(* ---------- all weights equal ---------- *)
Lemma fold_min_spec l : forall a, fold_left Z.min l a <= a /\ Forall (fun x => fold_left Z.min l a <= x) l.
Proof.
  induction l as [|x l IH]; intros a; simpl; [split; [lia | constructor]|].
  destruct (IH (Z.min a x)) as [H1 H2]. split; [lia|]. constructor; [lia | exact H2].
Qed.
Lemma fold_max_spec l : forall a, a <= fold_left Z.max l a /\ Forall (fun x => x <= fold_left Z.max l a) l.
Proof.
  induction l as [|x l IH]; intros a; simpl; [split; [lia | constructor]|].
  destruct (IH (Z.max a x)) as [H1 H2]. split; [lia|]. constructor; [lia | exact H2].
Qed.
Lemma all_equal l : min_w l = max_w l -> Forall (fun x => snd x = min_w l) l.
Proof.
  destruct l as [|[a w] r]; [constructor|]. unfold min_w, max_w. intros E.
  destruct (fold_min_spec (map snd r) w) as [A1 A2]. destruct (fold_max_spec (map snd r) w) as [B1 B2].
  constructor; [simpl; lia|]. rewrite Forall_forall in *. intros [y v] Hy. simpl.
  assert (Hv : In v (map snd r)) by (apply in_map_iff; exists (y, v); auto).
  specialize (A2 v Hv). specialize (B2 v Hv). lia.
Qed.

Lemma wsum_count X l w : Forall (fun x : Z * Z => snd x = w) l ->
  wsum X (map wl_of l) = w * wsum X (map cl_of (map fst l)) /\ 0 <= wsum X (map cl_of (map fst l)).
Proof.
  induction 1 as [|[a v] r Hx Hr [IH1 IH2]]; [simpl; lia|].
  simpl in Hx. subst v. cbn [map wsum wl_of cl_of fst snd]. rewrite IH1.
  destruct (sat_lit X (lit_of a)); lia.
Qed.

(* ---------- good names: Prop and bool ---------- *)
Lemma good_name_b n : good_name n <-> good_nameb n = true.
Proof. reflexivity. Qed.
Lemma names_ok_good nm : names_ok nm -> names_good nm.
Proof. intros H a s E. apply good_name_b. now apply (H a). Qed.

(* ---------- what the model buffers for the directive calls of a step ---------- *)
Fixpoint feed (nm : names_t) (cs : list call) : list dir * names_t :=
  match cs with
  | [] => ([], nm)
  | c :: r =>
      let cons d := let '(ds, nm') := feed nm r in (d :: ds, nm') in
      match c with
      | COutput n cond => match name_target nm n cond with Some a => feed ((a, n) :: nm) r | None => cons (DOutput n cond) end
      | CRule ht h b => cons (DRule ht h (WNormal b))
      | CWRule ht h bd b => match wrule_dir ht h bd b with Ok d => cons d | _ => feed nm r end
      | CMin p l => cons (DMin l p)
      | CProject a => cons (DProject a)
      | CExternal a v => cons (DExternal a v)
      | CAssume l => cons (DAssume l)
      | CHeuristic a t b p c => cons (DHeu a c b p t)
      | CEdge x y c => cons (DEdge x y c)
      | _ => feed nm r
      end
  end.

Lemma wrule_ok ht h bd b : call_ok (CWRule ht h bd b) ->
  exists d, wrule_dir ht h bd b = Ok d /\ dir_ok d /\
            stmt_equiv (SRule (negb (ht =? 0)) h (BAgg bd (map wl_of b))) (stmt_of_dir d).
Proof.
  intros (Hh & Hb & Hw). unfold wrule_dir.
  destruct ((min_w b =? max_w b) && (0 <? min_w b)) eqn:E.
  - apply andb_true_iff in E. destruct E as [E1 E2]. apply Z.eqb_eq in E1. apply Z.ltb_lt in E2.
    rewrite (count_bound_range bd (min_w b) Hb ltac:(lia)).
    eexists. split; [reflexivity|]. split; [exact Hh|].
    cbn [stmt_of_dir body_of stmt_equiv body_equiv]. repeat split.
    + rewrite !map_map. reflexivity.
    + intros X. cbn [sat]. destruct (wsum_count X b (min_w b) (all_equal b E1)) as [W1 W2].
      rewrite W1. apply count_bound_iff; lia.
  - eexists. split; [reflexivity|]. split; [exact Hh|].
    cbn [stmt_of_dir body_of stmt_equiv body_equiv]. repeat split.
Qed.

Lemma stmt_equiv_refl s : stmt_equiv s s.
Proof. destruct s as [c h [l|bd l]| | | | | | |]; simpl; try reflexivity; repeat split. Qed.

Lemma feed_spec cs : Forall call_ok cs -> forall nm, names_ok nm ->
  Forall dir_ok (fst (feed nm cs)) /\ names_ok (snd (feed nm cs)) /\
  snd (feed nm cs) = snd (expected nm cs) /\
  Forall2 stmt_equiv (fst (expected nm cs)) (map stmt_of_dir (fst (feed nm cs))).
Proof.
  induction 1 as [|c cs Hc Hcs IH]; intros nm Hnm; [simpl; repeat split; auto; constructor|].
  assert (Hcons : forall d s, dir_ok d -> stmt_of_call c = Some s -> stmt_equiv s (stmt_of_dir d) ->
            (match c with COutput _ _ => False | _ => True end) ->
            forall P : list dir * names_t -> list (stmt Z) * names_t -> Prop,
            (forall ds nm' ss, Forall dir_ok ds -> names_ok nm' -> Forall2 stmt_equiv ss (map stmt_of_dir ds) ->
                 P (ds, nm') (ss, nm')) ->
            P (let '(ds, nm') := feed nm cs in (d :: ds, nm')) (let '(ss, nm') := expected nm cs in (s :: ss, nm'))).
  { intros d s Hd Hs He _ P HP. destruct (IH nm Hnm) as (I1 & I2 & I3 & I4).
    destruct (feed nm cs) as [ds nm1]. destruct (expected nm cs) as [ss nm2]. simpl in *. subst nm2.
    apply HP; [constructor; assumption | assumption | constructor; assumption]. }
  pose (P := fun (x : list dir * names_t) (y : list (stmt Z) * names_t) =>
               Forall dir_ok (fst x) /\ names_ok (snd x) /\ snd x = snd y /\ Forall2 stmt_equiv (fst y) (map stmt_of_dir (fst x))).
  assert (HP : forall ds nm' ss, Forall dir_ok ds -> names_ok nm' -> Forall2 stmt_equiv ss (map stmt_of_dir ds) -> P (ds, nm') (ss, nm')).
  { intros. unfold P. simpl. auto. }
  destruct c; simpl in Hc; try contradiction; cbn [feed expected stmt_of_call].
  - apply (Hcons (DRule ht head (WNormal body)) _ Hc eq_refl (stmt_equiv_refl _) I P HP).
  - destruct (wrule_ok ht head bound body Hc) as (d & E & Hd & He). rewrite E.
    apply (Hcons d _ Hd eq_refl He I P HP).
  - apply (Hcons (DMin lits prio) _ I eq_refl (stmt_equiv_refl _) I P HP).
  - apply (Hcons (DProject atoms) _ Hc eq_refl (stmt_equiv_refl _) I P HP).
  - destruct (name_target nm name cond) as [a|] eqn:E.
    + apply IH. intros b s. simpl. destruct (b =? a); [intros H; inversion H; subst; exact Hc | apply Hnm].
    + destruct (IH nm Hnm) as (I1 & I2 & I3 & I4).
      destruct (feed nm cs) as [ds nm1]. destruct (expected nm cs) as [ss nm2]. simpl in *. subst nm2.
      repeat split; auto; try (constructor; [exact Hc | assumption]); try (constructor; [reflexivity | assumption]).
  - apply (Hcons (DExternal a v) _ Hc eq_refl (stmt_equiv_refl _) I P HP).
  - apply (Hcons (DAssume lits) _ I eq_refl (stmt_equiv_refl _) I P HP).
  - apply (Hcons (DHeu a cond bias prio t) _ Hc eq_refl (stmt_equiv_refl _) I P HP).
  - apply (Hcons (DEdge s t cond) _ I eq_refl (stmt_equiv_refl _) I P HP).
Qed.

(* the model run over the directive calls of a step *)
Lemma run_feed cs : Forall call_ok cs -> forall s rest,
  run_calls s (cs ++ rest) =
  run_calls (mkW (snd (feed (names s) cs)) (dirs s ++ fst (feed (names s) cs)) (conds s) (step s) (out s)
                 (terms s) (elems s) (tatoms s) (f_atom s) (f_term s) (f_elem s)) rest.
Proof.
  induction 1 as [|c cs Hc Hcs IH]; intros [nm ds cd st o tm el ta fa ft fe] rest.
  - cbn. now rewrite app_nil_r.
  - assert (Hcons : forall d, do_call (mkW nm ds cd st o tm el ta fa ft fe) c = (Ok tt, mkW nm (ds ++ [d]) cd st o tm el ta fa ft fe) ->
              run_calls (mkW nm ds cd st o tm el ta fa ft fe) ((c :: cs) ++ rest) =
              run_calls (mkW (snd (feed nm cs)) (ds ++ d :: fst (feed nm cs)) cd st o tm el ta fa ft fe) rest).
    { intros d E. rewrite <- app_comm_cons. cbn [run_calls]. rewrite E. rewrite (IH (mkW nm (ds ++ [d]) cd st o tm el ta fa ft fe) rest). cbn [names dirs conds step out terms elems tatoms f_atom f_term f_elem].
      now rewrite <- app_assoc. }
    destruct c; simpl in Hc; try contradiction; cbn [feed names dirs conds step out terms elems tatoms f_atom f_term f_elem].
    + rewrite (Hcons (DRule ht head (WNormal body)) eq_refl). destruct (feed nm cs); reflexivity.
    + destruct (wrule_ok ht head bound body Hc) as (d & E & _). rewrite E.
      rewrite (Hcons d); [destruct (feed nm cs); reflexivity|]. cbn [do_call lift]. rewrite E. reflexivity.
    + rewrite (Hcons (DMin lits prio) eq_refl). destruct (feed nm cs); reflexivity.
    + rewrite (Hcons (DProject atoms) eq_refl). destruct (feed nm cs); reflexivity.
    + destruct (name_target nm name cond) as [a|] eqn:E.
      * rewrite <- app_comm_cons. cbn [run_calls do_call lift names]. rewrite E. cbn [lift set_names names dirs conds step out terms elems tatoms f_atom f_term f_elem]. rewrite IH. reflexivity.
      * rewrite (Hcons (DOutput name cond)); [destruct (feed nm cs); reflexivity|].
        cbn [do_call lift names]. rewrite E. reflexivity.
    + rewrite (Hcons (DExternal a v) eq_refl). destruct (feed nm cs); reflexivity.
    + rewrite (Hcons (DAssume lits) eq_refl). destruct (feed nm cs); reflexivity.
    + rewrite (Hcons (DHeu a cond bias prio t) eq_refl). destruct (feed nm cs); reflexivity.
    + rewrite (Hcons (DEdge s t cond) eq_refl). destruct (feed nm cs); reflexivity.
Qed.

(* ---------- the step header comment is skipped ---------- *)
Lemma skip_line_app a l : Forall (fun c => c <> 10) a -> skip_line (a ++ l) = skip_line l.
Proof.
  induction 1 as [|c r Hc Hr IH]; [reflexivity|]. simpl. destruct (Z.eqb_spec c 10); [contradiction | exact IH].
Qed.
Lemma print_Z_no_nl z : Forall (fun c => c <> 10) (print_Z z).
Proof.
  unfold print_Z. destruct (Z.ltb_spec z 0).
  - constructor; [discriminate|]. eapply Forall_impl; [|apply (print_nat_digits (- z)); lia].
    intros c Hc. unfold is_digit in Hc. lia.
  - eapply Forall_impl; [|apply (print_nat_digits z); lia]. intros c Hc. unfold is_digit in Hc. lia.
Qed.

Definition step_header (s : wst) : list Z :=
  if 0 <=? step s then (if step s =? 0 then s_base else s_step_pre ++ print_Z (step s) ++ s_step_post) else [].

Lemma p_stmts_header s n txt :
  p_stmts (S n) (step_header s ++ txt) = p_stmts (if 0 <=? step s then n else S n) txt.
Proof.
  unfold step_header. destruct (0 <=? step s); [|reflexivity].
  destruct (step s =? 0).
  - reflexivity.
  - rewrite <- !app_assoc. change (s_step_pre ++ ?x) with (37 :: [32; 35; 112; 114; 111; 103; 114; 97; 109; 32; 115; 116; 101; 112; 40] ++ x).
    cbn [p_stmts skipws]. change (is_ws 37) with false. cbv iota. change (37 =? 37) with true. cbv iota.
    rewrite skip_line_app by (repeat constructor; discriminate).
    rewrite skip_line_app by apply print_Z_no_nl. reflexivity.
Qed.

Lemma render_dir_ne nm d : render_dir nm d <> [].
Proof.
  destruct d; cbn [render_dir]; try discriminate.
  intro E. apply app_eq_nil in E. destruct E as [_ E]. apply app_eq_nil in E. destruct E as [_ E]. discriminate.
Qed.
Lemma render_dirs_len nm ds : (length ds <= length (render_dirs nm ds))%nat.
Proof.
  induction ds as [|d ds IH]; [simpl; lia|]. cbn [render_dirs flat_map length]. rewrite app_length.
  pose proof (render_dir_ne nm d). destruct (render_dir nm d); [congruence|]. simpl. unfold render_dirs in IH. lia.
Qed.

(* ---------- one whole step ---------- *)
Lemma step_run s cs : Forall call_ok cs -> names_ok (names s) -> dirs s = [] -> tatoms s = [] ->
  let ds := fst (feed (names s) cs) in
  let nm' := snd (feed (names s) cs) in
  exists s', run_calls s (CBegin :: cs ++ [CEnd]) = (0, s') /\ names s' = nm' /\ dirs s' = [] /\ tatoms s' = [] /\
             out s' = out s ++ step_header s ++ render_dirs nm' ds.
Proof.
  intros Hcs Hnm Hd Hth ds nm'. cbn [run_calls do_call lift]. rewrite (run_feed cs Hcs).
  cbn [run_calls do_call]. unfold end_step.
  cbn [names dirs conds step out terms elems tatoms f_atom f_term f_elem].
  assert (Ht : tatoms (begin_step s) = tatoms s) by (unfold begin_step; destruct (0 <=? step s); [destruct (step s =? 0)|]; reflexivity).
  assert (Hdd : dirs (begin_step s) = []) by (unfold begin_step; destruct (0 <=? step s); [destruct (step s =? 0)|]; exact Hd).
  assert (Hnn : names (begin_step s) = names s) by (unfold begin_step; destruct (0 <=? step s); [destruct (step s =? 0)|]; reflexivity).
  assert (Ho : out (begin_step s) = out s ++ step_header s).
  { unfold begin_step, step_header. destruct (0 <=? step s); [destruct (step s =? 0)|]; cbn [out]; try reflexivity. now rewrite app_nil_r. }
  rewrite Ht, Hth, Hdd, Hnn, Ho. rewrite skipn_nil. cbn [visit app].
  fold ds. fold nm'.
  destruct (step (begin_step s) <? 0); eexists; (split; [reflexivity|]); cbn [names dirs out tatoms]; rewrite <- app_assoc; auto.
Qed.

Lemma header_len s : 0 <=? step s = true -> (0 < length (step_header s))%nat.
Proof.
  intros H. unfold step_header. rewrite H. destruct (step s =? 0); [simpl; lia|]. rewrite app_length. simpl. lia.
Qed.

Lemma step_parse s cs : Forall call_ok cs -> names_ok (names s) -> dirs s = [] -> tatoms s = [] ->
  exists s' txt ss,
    run_calls s (CBegin :: cs ++ [CEnd]) = (0, s') /\ out s' = out s ++ txt /\
    names s' = snd (expected (names s) cs) /\
    ref_parse txt = Some (map (map_stmt (name_of (names s'))) ss) /\
    Forall2 stmt_equiv (fst (expected (names s) cs)) ss /\
    names_ok (names s') /\ dirs s' = [] /\ tatoms s' = [].
Proof.
  intros Hcs Hnm Hd Hth. destruct (step_run s cs Hcs Hnm Hd Hth) as (s' & Hrun & Hn & Hd' & Ht' & Ho).
  destruct (feed_spec cs Hcs (names s) Hnm) as (F1 & F2 & F3 & F4).
  exists s', (step_header s ++ render_dirs (names s') (fst (feed (names s) cs))), (map stmt_of_dir (fst (feed (names s) cs))).
  rewrite Hn in *. repeat split; try assumption.
  unfold ref_parse. rewrite p_stmts_header.
  apply p_stmts_dirs; [now apply names_ok_good | assumption |].
  pose proof (render_dirs_len (snd (feed (names s) cs)) (fst (feed (names s) cs))) as HL.
  rewrite app_length. destruct (0 <=? step s) eqn:E; [pose proof (header_len s E)|]; lia.
Qed.

(* ---------- every output directive is represented ---------- *)
Lemma name_target_inv nm n c a : name_target nm n c = Some a -> c = [a] /\ 0 < a /\ has_name nm a = false.
Proof.
  unfold name_target. destruct c as [|l [|? ?]]; try discriminate.
  destruct ((0 <? l) && is_atom_name n && negb (has_name nm l)) eqn:E; [|discriminate].
  intros H. inversion H; subst. apply andb_true_iff in E. destruct E as [E E3]. apply andb_true_iff in E. destruct E as [E1 E2].
  apply negb_true_iff in E3. repeat split; [lia | assumption].
Qed.

Lemma expected_stable cs : forall nm a n, lookup a nm = Some n -> lookup a (snd (expected nm cs)) = Some n.
Proof.
  induction cs as [|c cs IH]; intros nm a n H; [exact H|].
  assert (G : forall s, lookup a (snd (let '(ss, nm') := expected nm cs in (s :: ss, nm'))) = Some n).
  { intros s. specialize (IH nm a n H). destruct (expected nm cs). exact IH. }
  destruct c; cbn [expected stmt_of_call]; try apply G; try (now apply IH).
  destruct (name_target nm name cond) as [b|] eqn:E; [|apply G].
  apply IH. destruct (name_target_inv _ _ _ _ E) as (_ & _ & Hb). simpl.
  destruct (Z.eqb_spec a b) as [->|]; [|exact H]. unfold has_name in Hb. rewrite H in Hb. discriminate.
Qed.

Lemma outputs_represented cs : forall nm n c, In (COutput n c) cs ->
  (exists a, c = [a] /\ 0 < a /\ lookup a (snd (expected nm cs)) = Some n) \/
  In (SShow n (map lit_of c)) (fst (expected nm cs)).
Proof.
  induction cs as [|c0 cs IH]; intros nm n c Hin; [contradiction|].
  destruct Hin as [-> | Hin].
  - cbn [expected]. destruct (name_target nm n c) as [a|] eqn:E.
    + left. destruct (name_target_inv _ _ _ _ E) as (-> & Ha & _). exists a. repeat split; [assumption|].
      apply expected_stable. simpl. now rewrite Z.eqb_refl.
    + right. destruct (expected nm cs). now left.
  - assert (G : forall nm' s, (exists a, c = [a] /\ 0 < a /\ lookup a (snd (let '(ss, nm2) := expected nm' cs in (s :: ss, nm2))) = Some n) \/
                           In (SShow n (map lit_of c)) (fst (let '(ss, nm2) := expected nm' cs in (s :: ss, nm2)))).
    { intros nm' s. destruct (IH nm' n c Hin) as [H|H]; destruct (expected nm' cs); [left; exact H | right; now right]. }
    destruct c0; cbn [expected stmt_of_call]; try apply G; try (now apply IH).
    destruct (name_target nm name cond); [now apply IH | apply G].
Qed.

(* ---------- whole (theory-free) programs never fail ---------- *)
Lemma run_calls_app a : forall s b, run_calls s (a ++ b) =
  let '(st, s') := run_calls s a in if st =? 0 then run_calls s' b else (st, s').
Proof.
  induction a as [|c a IH]; intros s b; [reflexivity|].
  cbn [app run_calls]. destruct (do_call s c) as [[[]| |] s1]; [apply IH | reflexivity | reflexivity].
Qed.

Definition program_calls (inc : bool) (steps : list (list call)) : list call :=
  CInit inc :: flat_map (fun cs => CBegin :: cs ++ [CEnd]) steps.

Lemma steps_total steps : Forall (Forall call_ok) steps -> forall s,
  names_ok (names s) -> dirs s = [] -> tatoms s = [] ->
  fst (run_calls s (flat_map (fun cs => CBegin :: cs ++ [CEnd]) steps)) = 0.
Proof.
  induction 1 as [|cs steps Hcs Hst IH]; intros s H1 H2 H3; [reflexivity|].
  cbn [flat_map]. rewrite run_calls_app.
  destruct (step_parse s cs Hcs H1 H2 H3) as (s' & txt & ss & Hrun & _ & _ & _ & _ & I1 & I2 & I3).
  rewrite Hrun. cbn. now apply IH.
Qed.

Lemma program_total inc steps : Forall (Forall call_ok) steps -> fst (run_calls init_st (program_calls inc steps)) = 0.
Proof.
  intros H. unfold program_calls. cbn [run_calls do_call lift]. apply steps_total; [assumption | | reflexivity | reflexivity].
  intros a s E. discriminate.
Qed.
