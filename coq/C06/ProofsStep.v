(* C06 - a whole step: what the model buffers, the sum -> count normalisation, and the final theorems' lemmas. *)
Require Import V.Lib.Base V.Lib.Calls V.Lib.Dec V.Gen.Consts_C06 V.C06.Model V.C06.RefParse V.C06.Spec V.C06.ProofsLex V.C06.ProofsTerm V.C06.ProofsParse V.C06.ProofsTheory.
Require Import ZifyBool.
Local Open Scope Z_scope.

(* ---------- arithmetic of the count bound ---------- *)
Lemma div_bounds a w : 0 < w -> w * (a / w) <= a < w * (a / w) + w.
Proof. intros Hw. pose proof (Z.div_mod a w ltac:(lia)). pose proof (Z.mod_pos_bound a w Hw). lia. Qed.

Lemma count_bound_iff b w k : 1 <= w -> 0 <= k -> (count_bound b w <=? k) = (b <=? w * k).
Proof.
  intros Hw Hk. unfold count_bound. destruct (Z_le_gt_dec 0 (b + w - 1)) as [Hn|Hn].
  - rewrite Z.quot_div_nonneg by lia. pose proof (div_bounds (b + w - 1) w ltac:(lia)) as Hq.
    set (q := (b + w - 1) / w) in *. clearbody q.
    apply Bool.eq_iff_eq_true. rewrite !Z.leb_le. split; intro H; nia.
  - replace (b + w - 1) with (- (- (b + w - 1))) by lia. rewrite Z.quot_opp_l by lia.
    rewrite Z.quot_div_nonneg by lia. pose proof (div_bounds (- (b + w - 1)) w ltac:(lia)) as Hq.
    set (q := (- (b + w - 1)) / w) in *. clearbody q.
    apply Bool.eq_iff_eq_true. rewrite !Z.leb_le. split; intro H; nia.
Qed.

Lemma count_bound_range b w : in_int b = true -> 1 <= w -> in_int (count_bound b w) = true.
Proof.
  unfold in_int, INT_MIN, INT_MAX, count_bound. intros Hb Hw.
  destruct (Z_le_gt_dec 0 (b + w - 1)) as [Hn|Hn].
  - rewrite Z.quot_div_nonneg by lia. pose proof (div_bounds (b + w - 1) w ltac:(lia)) as Hq.
    set (q := (b + w - 1) / w) in *. clearbody q.
    assert (0 <= q) by nia. assert (q <= Z.max b 0) by nia. lia.
  - replace (b + w - 1) with (- (- (b + w - 1))) by lia. rewrite Z.quot_opp_l by lia.
    rewrite Z.quot_div_nonneg by lia. pose proof (div_bounds (- (b + w - 1)) w ltac:(lia)) as Hq.
    set (q := (- (b + w - 1)) / w) in *. clearbody q.
    assert (0 <= q) by nia. assert (q <= - (b + w - 1)) by nia. lia.
Qed.

(* ---------- all weights equal ---------- *)
Lemma fold_min_spec l : forall a, fold_left Z.min l a <= a /\ Forall (fun x => fold_left Z.min l a <= x) l.
Proof.
  induction l as [|x l IH]; intros a; simpl; [split; [lia | constructor]|].
  destruct (IH (Z.min a x)) as [H1 H2]. split; [lia|]. constructor; [lia | exact H2].
Qed.
Lemma fold_max_spec l : forall a, a <= fold_left Z.max l a /\ Forall (fun x => x <= fold_left Z.max l a) l.
Proof.
  induction l as [|x l IH]; intros a; simpl; [split; [lia | constructor]|].
  destruct (IH (Z.max a x)) as [H1 H2]. split; [lia|]. constructor; [lia | exact H2].
Qed.
Lemma all_equal l : min_w l = max_w l -> Forall (fun x => snd x = min_w l) l.
Proof.
  destruct l as [|[a w] r]; [constructor|]. unfold min_w, max_w. intros E.
  destruct (fold_min_spec (map snd r) w) as [A1 A2]. destruct (fold_max_spec (map snd r) w) as [B1 B2].
  constructor; [simpl; lia|]. rewrite Forall_forall in *. intros [y v] Hy. simpl.
  assert (Hv : In v (map snd r)) by (apply in_map_iff; exists (y, v); auto).
  specialize (A2 v Hv). specialize (B2 v Hv). lia.
Qed.

Lemma wsum_count X l w : Forall (fun x : Z * Z => snd x = w) l ->
  wsum X (map wl_of l) = w * wsum X (map cl_of (map fst l)) /\ 0 <= wsum X (map cl_of (map fst l)).
Proof.
  induction 1 as [|[a v] r Hx Hr [IH1 IH2]]; [simpl; lia|].
  simpl in Hx. subst v. cbn [map wsum wl_of cl_of fst snd]. rewrite IH1.
  destruct (sat_lit X (lit_of a)); lia.
Qed.

(* ---------- good names ---------- *)
Lemma good_name_b n : good_name n <-> good_nameb n = true.
Proof. reflexivity. Qed.
(* the theory-free special case of the name-table invariant *)
Lemma names_ok_ok2 nm : names_ok nm -> names_ok2 nm.
Proof. intros H a s E. exists (PN s). split; [now apply (H a) | reflexivity]. Qed.

(* directive calls are judged by call_ok, theory calls are judged in the state they are made in (Spec.tcall_ok) *)
Definition dcall_ok (c : call) : Prop :=
  match c with
  | CTNum _ _ | CTSym _ _ | CTComp _ _ _ | CTElem _ _ _ | CTAtom _ _ _ | CTAtomG _ _ _ _ _ => True
  | _ => call_ok c
  end.

(* ---------- what the model buffers for the directive calls of a step ---------- *)
Fixpoint feed (nm : names_t) (cs : list call) : list dir * names_t :=
  match cs with
  | [] => ([], nm)
  | c :: r =>
      let cons d := let '(ds, nm') := feed nm r in (d :: ds, nm') in
      match c with
      | COutput n cond => match name_target nm n cond with Some a => feed ((a, n) :: nm) r | None => cons (DOutput n cond) end
      | CRule ht h b => cons (DRule ht h (WNormal b))
      | CWRule ht h bd b => match wrule_dir ht h bd b with Ok d => cons d | _ => feed nm r end
      | CMin p l => cons (DMin l p)
      | CProject a => cons (DProject a)
      | CExternal a v => cons (DExternal a v)
      | CAssume l => cons (DAssume l)
      | CHeuristic a t b p c => cons (DHeu a c b p t)
      | CEdge x y c => cons (DEdge x y c)
      | _ => feed nm r
      end
  end.

Lemma wrule_ok ht h bd b : call_ok (CWRule ht h bd b) ->
  exists d, wrule_dir ht h bd b = Ok d /\ dir_ok d /\
            stmt_equiv (SRule (negb (ht =? 0)) h (BAgg bd (map wl_of b))) (stmt_of_dir d).
Proof.
  intros (Hh & Hb & Hw). unfold wrule_dir.
  destruct ((min_w b =? max_w b) && (0 <? min_w b)) eqn:E.
  - apply andb_true_iff in E. destruct E as [E1 E2]. apply Z.eqb_eq in E1. apply Z.ltb_lt in E2.
    rewrite (count_bound_range bd (min_w b) Hb ltac:(lia)).
    eexists. split; [reflexivity|]. split; [exact Hh|].
    cbn [stmt_of_dir body_of stmt_equiv body_equiv]. repeat split.
    + rewrite !map_map. reflexivity.
    + intros X. cbn [sat]. destruct (wsum_count X b (min_w b) (all_equal b E1)) as [W1 W2].
      rewrite W1. apply count_bound_iff; lia.
  - eexists. split; [reflexivity|]. split; [exact Hh|].
    cbn [stmt_of_dir body_of stmt_equiv body_equiv]. repeat split.
Qed.

Lemma stmt_equiv_refl s : stmt_equiv s s.
Proof. destruct s as [c h [l|bd l]| | | | | | |]; simpl; try reflexivity; repeat split. Qed.

Lemma feed_spec cs : Forall dcall_ok cs -> forall nm, names_ok2 nm ->
  Forall dir_ok (fst (feed nm cs)) /\ names_ok2 (snd (feed nm cs)) /\
  snd (feed nm cs) = snd (expected nm cs) /\
  Forall2 stmt_equiv (fst (expected nm cs)) (map stmt_of_dir (fst (feed nm cs))).
Proof.
  induction 1 as [|c cs Hc Hcs IH]; intros nm Hnm; [simpl; repeat split; auto; constructor|].
  assert (Hcons : forall d s, dir_ok d -> stmt_of_call c = Some s -> stmt_equiv s (stmt_of_dir d) ->
            (match c with COutput _ _ => False | _ => True end) ->
            forall P : list dir * names_t -> list (stmt Z) * names_t -> Prop,
            (forall ds nm' ss, Forall dir_ok ds -> names_ok2 nm' -> Forall2 stmt_equiv ss (map stmt_of_dir ds) ->
                 P (ds, nm') (ss, nm')) ->
            P (let '(ds, nm') := feed nm cs in (d :: ds, nm')) (let '(ss, nm') := expected nm cs in (s :: ss, nm'))).
  { intros d s Hd Hs He _ P HP. destruct (IH nm Hnm) as (I1 & I2 & I3 & I4).
    destruct (feed nm cs) as [ds nm1]. destruct (expected nm cs) as [ss nm2]. simpl in *. subst nm2.
    apply HP; [constructor; assumption | assumption | constructor; assumption]. }
  pose (P := fun (x : list dir * names_t) (y : list (stmt Z) * names_t) =>
               Forall dir_ok (fst x) /\ names_ok2 (snd x) /\ snd x = snd y /\ Forall2 stmt_equiv (fst y) (map stmt_of_dir (fst x))).
  assert (HP : forall ds nm' ss, Forall dir_ok ds -> names_ok2 nm' -> Forall2 stmt_equiv ss (map stmt_of_dir ds) -> P (ds, nm') (ss, nm')).
  { intros. unfold P. simpl. auto. }
  destruct c; simpl in Hc; try contradiction; cbn [feed expected stmt_of_call]; try (now apply IH).
  - apply (Hcons (DRule ht head (WNormal body)) _ Hc eq_refl (stmt_equiv_refl _) I P HP).
  - destruct (wrule_ok ht head bound body Hc) as (d & E & Hd & He). rewrite E.
    apply (Hcons d _ Hd eq_refl He I P HP).
  - apply (Hcons (DMin lits prio) _ I eq_refl (stmt_equiv_refl _) I P HP).
  - apply (Hcons (DProject atoms) _ Hc eq_refl (stmt_equiv_refl _) I P HP).
  - destruct (name_target nm name cond) as [a|] eqn:E.
    + apply IH. intros b s. simpl. destruct (b =? a); [intros H; inversion H; subst; exists (PN s); split; [exact Hc | reflexivity] | apply Hnm].
    + destruct (IH nm Hnm) as (I1 & I2 & I3 & I4).
      destruct (feed nm cs) as [ds nm1]. destruct (expected nm cs) as [ss nm2]. simpl in *. subst nm2.
      repeat split; auto; try (constructor; [exact Hc | assumption]); try (constructor; [reflexivity | assumption]).
  - apply (Hcons (DExternal a v) _ Hc eq_refl (stmt_equiv_refl _) I P HP).
  - apply (Hcons (DAssume lits) _ I eq_refl (stmt_equiv_refl _) I P HP).
  - apply (Hcons (DHeu a cond bias prio t) _ Hc eq_refl (stmt_equiv_refl _) I P HP).
  - apply (Hcons (DEdge s t cond) _ I eq_refl (stmt_equiv_refl _) I P HP).
Qed.

(* the model run over the calls of a step: no exception; names / buffer as computed by feed; step and text unchanged *)
Lemma store_free {A} (l : list (option A)) fr id (x : A) : slot_free l fr id -> store l fr id x = Ok (set_nth l (Z.to_nat id) x).
Proof.
  intros [_ H]. unfold store. destruct (nth_opt l id); [|reflexivity]. destruct H as [H|H]; [discriminate|].
  destruct (Nat.leb_spec fr (Z.to_nat id)); [lia | reflexivity].
Qed.

Lemma calls_run cs : forall s, calls_okw s cs ->
  fst (run_calls s cs) = 0 /\
  let s1 := snd (run_calls s cs) in
  names s1 = snd (feed (names s) cs) /\ dirs s1 = dirs s ++ fst (feed (names s) cs) /\ step s1 = step s /\ out s1 = out s.
Proof.
  induction cs as [|c cs IH]; intros s Hok.
  - cbn. rewrite app_nil_r. repeat split.
  - destruct Hok as [Hc Hr].
    assert (Hstep : forall s', do_call s c = (Ok tt, s') ->
              (fst (run_calls s' cs) = 0 /\
               names (snd (run_calls s' cs)) = snd (feed (names s') cs) /\ dirs (snd (run_calls s' cs)) = dirs s' ++ fst (feed (names s') cs) /\
               step (snd (run_calls s' cs)) = step s' /\ out (snd (run_calls s' cs)) = out s') /\
              run_calls s (c :: cs) = run_calls s' cs).
    { intros s' E. split; [apply IH; now rewrite E in Hr|]. cbn [run_calls]. now rewrite E. }
    destruct s as [nm ds cd st o tm el ta fa ft fe].
    destruct c as [inc| | |ht head body|ht head bound body|prio lits|atoms|name cond|a v|lits|a t bias prio cond|x y cond|id n|id sy|id c args|id tms cond|a t els|a t els op rhs];
      cbn [tcall_okw tcall_ok call_ok] in Hc; try contradiction;
      cbn [feed names dirs conds step out terms elems tatoms f_atom f_term f_elem] in *.
    + destruct (Hstep _ eq_refl) as [(I1 & I3 & I4 & I5 & I6) ->]. unfold push, set_dirs in *. cbn [names dirs conds step out terms elems tatoms f_atom f_term f_elem] in *.
      destruct (feed nm cs). cbn [fst snd] in *. rewrite I4, <- app_assoc. repeat split; assumption.
    + destruct (wrule_ok ht head bound body Hc) as (d & E & _). rewrite E.
      assert (E' : do_call (mkW nm ds cd st o tm el ta fa ft fe) (CWRule ht head bound body) = (Ok tt, mkW nm (ds ++ [d]) cd st o tm el ta fa ft fe)).
      { cbn [do_call lift]. rewrite E. reflexivity. }
      destruct (Hstep _ E') as [(I1 & I3 & I4 & I5 & I6) ->]. cbn [names dirs step out] in *.
      destruct (feed nm cs). cbn [fst snd] in *. rewrite I4, <- app_assoc. repeat split; assumption.
    + destruct (Hstep _ eq_refl) as [(I1 & I3 & I4 & I5 & I6) ->]. unfold push, set_dirs in *. cbn [names dirs conds step out terms elems tatoms f_atom f_term f_elem] in *.
      destruct (feed nm cs). cbn [fst snd] in *. rewrite I4, <- app_assoc. repeat split; assumption.
    + destruct (Hstep _ eq_refl) as [(I1 & I3 & I4 & I5 & I6) ->]. unfold push, set_dirs in *. cbn [names dirs conds step out terms elems tatoms f_atom f_term f_elem] in *.
      destruct (feed nm cs). cbn [fst snd] in *. rewrite I4, <- app_assoc. repeat split; assumption.
    + destruct (name_target nm name cond) as [a|] eqn:E.
      * assert (E' : do_call (mkW nm ds cd st o tm el ta fa ft fe) (COutput name cond) = (Ok tt, mkW ((a, name) :: nm) ds cd st o tm el ta fa ft fe)).
        { cbn [do_call lift names]. rewrite E. reflexivity. }
        destruct (Hstep _ E') as [(I1 & I3 & I4 & I5 & I6) ->]. cbn [names dirs step out] in *.
        repeat split; assumption.
      * assert (E' : do_call (mkW nm ds cd st o tm el ta fa ft fe) (COutput name cond) = (Ok tt, mkW nm (ds ++ [DOutput name cond]) cd st o tm el ta fa ft fe)).
        { cbn [do_call lift names]. rewrite E. reflexivity. }
        destruct (Hstep _ E') as [(I1 & I3 & I4 & I5 & I6) ->]. cbn [names dirs step out] in *.
        destruct (feed nm cs). cbn [fst snd] in *. rewrite I4, <- app_assoc. repeat split; assumption.
    + destruct (Hstep _ eq_refl) as [(I1 & I3 & I4 & I5 & I6) ->]. unfold push, set_dirs in *. cbn [names dirs conds step out terms elems tatoms f_atom f_term f_elem] in *.
      destruct (feed nm cs). cbn [fst snd] in *. rewrite I4, <- app_assoc. repeat split; assumption.
    + destruct (Hstep _ eq_refl) as [(I1 & I3 & I4 & I5 & I6) ->]. unfold push, set_dirs in *. cbn [names dirs conds step out terms elems tatoms f_atom f_term f_elem] in *.
      destruct (feed nm cs). cbn [fst snd] in *. rewrite I4, <- app_assoc. repeat split; assumption.
    + destruct (Hstep _ eq_refl) as [(I1 & I3 & I4 & I5 & I6) ->]. unfold push, set_dirs in *. cbn [names dirs conds step out terms elems tatoms f_atom f_term f_elem] in *.
      destruct (feed nm cs). cbn [fst snd] in *. rewrite I4, <- app_assoc. repeat split; assumption.
    + destruct (Hstep _ eq_refl) as [(I1 & I3 & I4 & I5 & I6) ->]. unfold push, set_dirs in *. cbn [names dirs conds step out terms elems tatoms f_atom f_term f_elem] in *.
      destruct (feed nm cs). cbn [fst snd] in *. rewrite I4, <- app_assoc. repeat split; assumption.
    + (* theoryTerm number *)
      assert (E' : do_call (mkW nm ds cd st o tm el ta fa ft fe) (CTNum id n) = (Ok tt, mkW nm ds cd st o (set_nth tm (Z.to_nat id) (TNum n)) el ta fa ft fe)).
      { cbn [do_call lift terms f_term]. rewrite (store_free tm ft id (TNum n) Hc). reflexivity. }
      destruct (Hstep _ E') as [(I1 & I3 & I4 & I5 & I6) ->]. cbn [names dirs step out] in *. repeat split; assumption.
    + assert (E' : do_call (mkW nm ds cd st o tm el ta fa ft fe) (CTSym id sy) = (Ok tt, mkW nm ds cd st o (set_nth tm (Z.to_nat id) (TSym sy)) el ta fa ft fe)).
      { cbn [do_call lift terms f_term]. rewrite (store_free tm ft id (TSym sy) Hc). reflexivity. }
      destruct (Hstep _ E') as [(I1 & I3 & I4 & I5 & I6) ->]. cbn [names dirs step out] in *. repeat split; assumption.
    + assert (E' : do_call (mkW nm ds cd st o tm el ta fa ft fe) (CTComp id c args) = (Ok tt, mkW nm ds cd st o (set_nth tm (Z.to_nat id) (TComp c args)) el ta fa ft fe)).
      { cbn [do_call lift terms f_term]. rewrite (store_free tm ft id (TComp c args) Hc). reflexivity. }
      destruct (Hstep _ E') as [(I1 & I3 & I4 & I5 & I6) ->]. cbn [names dirs step out] in *. repeat split; assumption.
    + destruct (add_condition cd cond) as [cs' cid] eqn:Ec.
      assert (E' : do_call (mkW nm ds cd st o tm el ta fa ft fe) (CTElem id tms cond) = (Ok tt, mkW nm ds cs' st o tm (set_nth el (Z.to_nat id) (mkE tms cid)) ta fa ft fe)).
      { cbn [do_call lift conds elems f_elem]. rewrite Ec. rewrite (store_free el fe id (mkE tms cid) Hc). reflexivity. }
      destruct (Hstep _ E') as [(I1 & I3 & I4 & I5 & I6) ->]. cbn [names dirs step out] in *. repeat split; assumption.
    + destruct (Hstep _ eq_refl) as [(I1 & I3 & I4 & I5 & I6) ->]. cbn [names dirs step out] in *. repeat split; assumption.
    + destruct (Hstep _ eq_refl) as [(I1 & I3 & I4 & I5 & I6) ->]. cbn [names dirs step out] in *. repeat split; assumption.
Qed.

Lemma calls_ok_w cs : forall s, calls_ok s cs -> calls_okw s cs.
Proof. induction cs as [|c cs IH]; intros s H; [exact I|]. destruct H as [H1 H2]. split; [destruct c; try exact H1; exact I | now apply IH]. Qed.
Lemma calls_ok_dcall cs : forall s, calls_ok s cs -> Forall dcall_ok cs.
Proof.
  induction cs as [|c cs IH]; intros s H; [constructor|]. destruct H as [H1 H2]. constructor; [|now apply (IH _ H2)].
  destruct c; cbn [tcall_ok dcall_ok] in *; try exact H1; exact I.
Qed.

(* ---------- the step header comment is skipped ---------- *)
Lemma skip_line_app a l : Forall (fun c => c <> 10) a -> skip_line (a ++ l) = skip_line l.
Proof.
  induction 1 as [|c r Hc Hr IH]; [reflexivity|]. simpl. destruct (Z.eqb_spec c 10); [contradiction | exact IH].
Qed.
Lemma print_Z_no_nl z : Forall (fun c => c <> 10) (print_Z z).
Proof.
  unfold print_Z. destruct (Z.ltb_spec z 0).
  - constructor; [discriminate|]. eapply Forall_impl; [|apply (print_nat_digits (- z)); lia].
    intros c Hc. unfold is_digit in Hc. lia.
  - eapply Forall_impl; [|apply (print_nat_digits z); lia]. intros c Hc. unfold is_digit in Hc. lia.
Qed.

Definition step_header (s : wst) : list Z :=
  if 0 <=? step s then (if step s =? 0 then s_base else s_step_pre ++ print_Z (step s) ++ s_step_post) else [].

Lemma p_stmts_header s n txt :
  p_stmts (S n) (step_header s ++ txt) = p_stmts (if 0 <=? step s then n else S n) txt.
Proof.
  unfold step_header. destruct (0 <=? step s); [|reflexivity].
  destruct (step s =? 0).
  - reflexivity.
  - rewrite <- !app_assoc. change (s_step_pre ++ ?x) with (37 :: [32; 35; 112; 114; 111; 103; 114; 97; 109; 32; 115; 116; 101; 112; 40] ++ x).
    cbn [p_stmts skipws]. change (is_ws 37) with false. cbv iota. change (37 =? 37) with true. cbv iota.
    rewrite skip_line_app by (repeat constructor; discriminate).
    rewrite skip_line_app by apply print_Z_no_nl. reflexivity.
Qed.

Lemma render_dir_ne nm d : render_dir nm d <> [].
Proof.
  destruct d; cbn [render_dir]; try discriminate.
  intro E. apply app_eq_nil in E. destruct E as [_ E]. apply app_eq_nil in E. destruct E as [_ E]. discriminate.
Qed.
Lemma render_dirs_len nm ds : (length ds <= length (render_dirs nm ds))%nat.
Proof.
  induction ds as [|d ds IH]; [simpl; lia|]. cbn [render_dirs flat_map length]. rewrite app_length.
  pose proof (render_dir_ne nm d). destruct (render_dir nm d); [congruence|]. simpl. unfold render_dirs in IH. lia.
Qed.

(* ---------- what the parser reads for an atom ---------- *)
Lemma p_name_self p : pok p -> p_name (show p) = Some (p, []).
Proof. intros Hp. pose proof (p_name_show p [] Hp I (or_intror I)) as P. now rewrite app_nil_r in P. Qed.
Lemma sem_ok nm : names_ok2 nm -> forall a, 0 <= a -> pok (sem nm a) /\ name_of nm a = show (sem nm a).
Proof.
  intros H a Ha. unfold sem, name_of. destruct (lookup a nm) as [s|] eqn:E.
  - destruct (H a s E) as (p & Hp & ->). rewrite (p_name_self p Hp). auto.
  - split; [now apply xname_good | reflexivity].
Qed.

(* ---------- the statements of the directive theory atoms ---------- *)
Definition zero_atoms (l : list tatom) : list tatom := filter (fun a => ta_atom a =? 0) l.
Lemma p_stmts_step m c r : is_ws c = false -> c <> 37 ->
  p_stmts (S m) (c :: r) = match p_stmt (c :: r) with
                           | Some (s, r') => match p_stmts m r' with Some ss => Some (s :: ss) | None => None end
                           | None => None
                           end.
Proof. intros Hw Hc. cbn [p_stmts skipws]. rewrite Hw. destruct (Z.eqb_spec c 37); [contradiction | reflexivity]. Qed.
Lemma p_stmts_nl m r : p_stmts m (s_nl ++ r) = p_stmts m r.
Proof. destruct m; reflexivity. Qed.

Lemma p_stmts_tx s1 nm1 rest l : (forall a, In a l -> unamb_ta (tat s1 nm1 a) = true) ->
  forall n, p_stmts (length (zero_atoms l) + n) (tx s1 nm1 l ++ rest) =
            match p_stmts n rest with
            | Some ss => Some (map (fun a => SRule false [PT (tat s1 nm1 a)] (BNormal [])) (zero_atoms l) ++ ss)
            | None => None
            end.
Proof.
  induction l as [|a l IH]; intros Hu n.
  - cbn. destruct (p_stmts n rest); reflexivity.
  - cbn [tx zero_atoms filter]. specialize (IH (fun b Hb => Hu b (or_intror Hb)) n).
    destruct (ta_atom a =? 0).
    + cbn [length map app]. rewrite <- !app_assoc.
      assert (E : exists r, show_ta (tat s1 nm1 a) ++ s_theory_end ++ tx s1 nm1 l ++ rest = 38 :: r) by (eexists; reflexivity).
      destruct E as [r E]. cbn [plus]. rewrite E, p_stmts_step by (reflexivity || discriminate). rewrite <- E.
      change s_theory_end with (s_dot ++ s_nl). rewrite <- app_assoc.
      change (show_ta (tat s1 nm1 a)) with (show (PT (tat s1 nm1 a))).
      rewrite (p_stmt_fact (PT (tat s1 nm1 a)) (tx s1 nm1 l ++ rest) (Hu a (or_introl eq_refl))).
      rewrite p_stmts_nl. fold (zero_atoms l). rewrite IH. destruct (p_stmts n rest); reflexivity.
    + cbn [app]. exact IH.
Qed.
Lemma tx_len s1 nm1 l : (length (zero_atoms l) <= length (tx s1 nm1 l))%nat.
Proof.
  induction l as [|a l IH]; [simpl; lia|]. cbn [tx zero_atoms filter]. destruct (ta_atom a =? 0); [|exact IH].
  cbn [length]. rewrite !app_length. change (length s_theory_end) with 2%nat. fold (zero_atoms l). lia.
Qed.

Lemma run_calls_app a : forall s b, run_calls s (a ++ b) =
  let '(st, s') := run_calls s a in if st =? 0 then run_calls s' b else (st, s').
Proof.
  induction a as [|c a IH]; intros s b; [reflexivity|].
  cbn [app run_calls]. destruct (do_call s c) as [[[]| |] s1]; [apply IH | reflexivity | reflexivity].
Qed.

(* ---------- one whole step ---------- *)
Lemma begin_facts s : names (begin_step s) = names s /\ dirs (begin_step s) = dirs s /\ out (begin_step s) = out s ++ step_header s.
Proof.
  unfold begin_step, step_header. destruct (0 <=? step s); [destruct (step s =? 0)|]; cbn [names dirs out]; repeat split; try reflexivity.
  now rewrite app_nil_r.
Qed.
Lemma header_len s : 0 <=? step s = true -> (0 < length (step_header s))%nat.
Proof.
  intros H. unfold step_header. rewrite H. destruct (step s =? 0); [simpl; lia|]. rewrite app_length. simpl. lia.
Qed.

(* the run of a step up to the point where endStep has visited the theory atoms *)
Lemma end_step_names s1 nm' o' : visit s1 (names s1) (out s1) (skipn (f_atom s1) (tatoms s1)) = (Ok nm', o') ->
  exists s', end_step s1 = (Ok tt, s') /\ names s' = nm' /\ dirs s' = [] /\ out s' = o' ++ render_dirs nm' (dirs s1).
Proof.
  intros V. unfold end_step. rewrite V. destruct (step s1 <? 0); eexists; (split; [reflexivity|]); cbn [names dirs out]; auto.
Qed.

Lemma step_parse s cs : names_ok2 (names s) -> dirs s = [] -> calls_ok (begin_step s) cs ->
  let s1 := snd (run_calls (begin_step s) cs) in
  frame_ok s1 ->
  exists s' txt ss,
    run_calls s (CBegin :: cs ++ [CEnd]) = (0, s') /\ out s' = out s ++ txt /\
    ref_parse txt = Some (tstmts s1 ++ map (map_stmt (sem (names s'))) ss) /\
    Forall2 stmt_equiv (fst (expected (names s) cs)) ss /\
    (forall a, 0 <= a -> pok (sem (names s') a) /\ name_of (names s') a = show (sem (names s') a)) /\
    (forall ta, In ta (frame s1) -> ta_atom ta <> 0 -> sem (names s') (ta_atom ta) = PT (tat s1 (names s1) ta)) /\
    (forall a, ~ In a (frame_atoms s1) -> lookup a (names s') = lookup a (snd (expected (names s) cs))) /\
    names_ok2 (names s') /\ dirs s' = [].
Proof.
  intros Hnm Hd Hok s1 Hfr. set (s0 := begin_step s) in *.
  destruct (calls_run cs s0 (calls_ok_w cs s0 Hok)) as (R0 & Rn & Rdirs & Rstep & Rout). fold s1 in Rn, Rdirs, Rstep, Rout.
  pose proof (calls_ok_dcall cs s0 Hok) as Rd.
  destruct (begin_facts s) as (B1 & B2 & B3). fold s0 in B1, B2, B3. rewrite B1 in Rn, Rdirs. rewrite B2, Hd in Rdirs. cbn [app] in Rdirs. rewrite B3 in Rout.
  destruct (feed_spec cs Rd (names s) Hnm) as (F1 & F2 & F3 & F4).
  destruct Hfr as [W1 W2 W3 W4 W5].
  set (nm1 := names s1) in *. set (fr := frame s1) in *.
  assert (Htat : forall a, In a fr -> tatom_of s1 nm1 a = Some (tat s1 nm1 a) /\ unamb_ta (tat s1 nm1 a) = true).
  { intros a Ha. destruct (W1 a Ha) as (ta & E & U). unfold tat. rewrite E. auto. }
  (* visitTheories *)
  assert (V : visit s1 nm1 (out s1) fr = (Ok (tn s1 nm1 fr [] ++ nm1), out s1 ++ tx s1 nm1 fr)).
  { apply (visit_spec s1 nm1 fr [] (out s1)).
    - intros a Ha. destruct (Htat a Ha) as [E _]. rewrite E. discriminate.
    - intros c Hc. split; [intros []|]. now apply W2.
    - intros a Ha. split; [now apply W3 | intros []].
    - exact W4. }
  set (nm' := tn s1 nm1 fr [] ++ nm1) in *.
  destruct (end_step_names s1 nm' _ V) as (s' & Eend & En' & Ed' & Eo').
  (* the final name table *)
  assert (Hkeys : forall a, ~ In a (frame_atoms s1) -> lookup a nm' = lookup a nm1).
  { intros a Ha. apply lookup_app_notin. intros Hin. destruct (tn_keys s1 nm1 fr [] a Hin) as [[]|H]. now apply Ha. }
  assert (Hnm' : names_ok2 nm').
  { intros a n E. unfold nm' in E. rewrite lookup_app_cases in E.
    destruct (lookup a (tn s1 nm1 fr [])) as [n0|] eqn:E0.
    - inversion E; subst n0. destruct (tn_entries s1 nm1 fr [] a n (lookup_in _ _ _ E0)) as [[]|(b & B1' & B2' & -> & ->)].
      destruct (Htat b B1') as [_ U]. exists (PT (tat s1 nm1 b)). split; [exact U | reflexivity].
    - rewrite Rn in E. now apply (F2 a). }
  pose proof (sem_ok nm' Hnm') as Hnu.
  assert (Htheory : forall ta, In ta fr -> ta_atom ta <> 0 -> sem nm' (ta_atom ta) = PT (tat s1 nm1 ta)).
  { intros ta Hin Hz. unfold sem, nm'.
    rewrite (lookup_app_l _ nm1 _ (show_ta (tat s1 nm1 ta))).
    - change (show_ta (tat s1 nm1 ta)) with (show (PT (tat s1 nm1 ta))). rewrite p_name_self; [reflexivity|]. now apply Htat.
    - apply tn_lookup; try assumption; [intros [] |]. intros b Hb Eb. now apply (nz_uniq fr W4 ta b). }
  assert (Hplain : Forall (dir_plain (sem nm')) (dirs s1)).
  { apply Forall_forall. intros d Hdin a Ha. destruct (W5 d a Hdin Ha) as [P1 P2]. unfold sem. rewrite (Hkeys a P1).
    destruct (lookup a nm1) as [n|] eqn:E; [|exact I]. specialize (P2 n E). change n with (show (PN n)) at 1. rewrite p_name_self by exact P2. exact I. }
  exists s', (step_header s ++ tx s1 nm1 fr ++ render_dirs nm' (dirs s1)), (map stmt_of_dir (fst (feed (names s) cs))).
  rewrite En'. split; [|split; [|split; [|split; [exact F4|split; [exact Hnu|split; [exact Htheory|split; [|split; [exact Hnm' | exact Ed']]]]]]]].
  - (* the run *)
    cbn [run_calls do_call lift]. fold s0. rewrite run_calls_app.
    rewrite (surjective_pairing (run_calls s0 cs)), R0. fold s1. change (0 =? 0) with true. cbv iota.
    cbn [run_calls do_call]. rewrite Eend. reflexivity.
  - rewrite Eo', Rout, <- !app_assoc. reflexivity.
  - (* parse back *)
    unfold ref_parse. rewrite p_stmts_header.
    set (m := if 0 <=? step s then length (step_header s ++ tx s1 nm1 fr ++ render_dirs nm' (dirs s1)) else S (length (step_header s ++ tx s1 nm1 fr ++ render_dirs nm' (dirs s1)))).
    assert (Hm : (length (zero_atoms fr) + length (dirs s1) < m)%nat).
    { unfold m. rewrite !app_length. pose proof (tx_len s1 nm1 fr). pose proof (render_dirs_len nm' (dirs s1)).
      destruct (0 <=? step s) eqn:E; [pose proof (header_len s E)|]; lia. }
    replace m with (length (zero_atoms fr) + (m - length (zero_atoms fr)))%nat by lia.
    rewrite p_stmts_tx by (intros a Ha; now apply Htat).
    rewrite (p_stmts_dirs nm' (sem nm') Hnu (dirs s1)); [| rewrite Rdirs; exact F1 | exact Hplain | lia].
    rewrite Rdirs. reflexivity.
  - intros a Ha. rewrite (Hkeys a Ha). now rewrite Rn, F3.
Qed.

(* ---------- every output directive is represented ---------- *)
Lemma name_target_inv nm n c a : name_target nm n c = Some a -> c = [a] /\ 0 < a /\ has_name nm a = false.
Proof.
  unfold name_target. destruct c as [|l [|? ?]]; try discriminate.
  destruct ((0 <? l) && is_atom_name n && negb (has_name nm l)) eqn:E; [|discriminate].
  intros H. inversion H; subst. apply andb_true_iff in E. destruct E as [E E3]. apply andb_true_iff in E. destruct E as [E1 E2].
  apply negb_true_iff in E3. repeat split; [lia | assumption].
Qed.

Lemma expected_stable cs : forall nm a n, lookup a nm = Some n -> lookup a (snd (expected nm cs)) = Some n.
Proof.
  induction cs as [|c cs IH]; intros nm a n H; [exact H|].
  assert (G : forall s, lookup a (snd (let '(ss, nm') := expected nm cs in (s :: ss, nm'))) = Some n).
  { intros s. specialize (IH nm a n H). destruct (expected nm cs). exact IH. }
  destruct c; cbn [expected stmt_of_call]; try apply G; try (now apply IH).
  destruct (name_target nm name cond) as [b|] eqn:E; [|apply G].
  apply IH. destruct (name_target_inv _ _ _ _ E) as (_ & _ & Hb). simpl.
  destruct (Z.eqb_spec a b) as [->|]; [|exact H]. unfold has_name in Hb. rewrite H in Hb. discriminate.
Qed.

Lemma outputs_represented cs : forall nm n c, In (COutput n c) cs ->
  (exists a, c = [a] /\ 0 < a /\ lookup a (snd (expected nm cs)) = Some n) \/
  In (SShow n (map lit_of c)) (fst (expected nm cs)).
Proof.
  induction cs as [|c0 cs IH]; intros nm n c Hin; [contradiction|].
  destruct Hin as [-> | Hin].
  - cbn [expected]. destruct (name_target nm n c) as [a|] eqn:E.
    + left. destruct (name_target_inv _ _ _ _ E) as (-> & Ha & _). exists a. repeat split; [assumption|].
      apply expected_stable. simpl. now rewrite Z.eqb_refl.
    + right. destruct (expected nm cs). now left.
  - assert (G : forall nm' s, (exists a, c = [a] /\ 0 < a /\ lookup a (snd (let '(ss, nm2) := expected nm' cs in (s :: ss, nm2))) = Some n) \/
                           In (SShow n (map lit_of c)) (fst (let '(ss, nm2) := expected nm' cs in (s :: ss, nm2)))).
    { intros nm' s. destruct (IH nm' n c Hin) as [H|H]; destruct (expected nm' cs); [left; exact H | right; now right]. }
    destruct c0; cbn [expected stmt_of_call]; try apply G; try (now apply IH).
    destruct (name_target nm name cond); [now apply IH | apply G].
Qed.

(* ---------- whole programs never fail ---------- *)
Definition program_calls (inc : bool) (steps : list (list call)) : list call :=
  CInit inc :: flat_map (fun cs => CBegin :: cs ++ [CEnd]) steps.

(* one step of a valid program: no exception, no fault *)
Lemma step_total s cs : calls_okw (begin_step s) cs -> frame_valid (snd (run_calls (begin_step s) cs)) ->
  fst (run_calls s (CBegin :: cs ++ [CEnd])) = 0.
Proof.
  intros Hok Hfr. set (s0 := begin_step s) in *. set (s1 := snd (run_calls s0 cs)) in *.
  destruct (calls_run cs s0 Hok) as (R0 & _). destruct Hfr as [W1 W3 W4].
  destruct (visit_total s1 (names s1) (frame s1) (names s1) (out s1)) as (nm' & o' & V).
  - intros a Ha. destruct (tatom_consistent_of s1 (names s1) a (W1 a Ha)) as (ta & ->). discriminate.
  - exact W3.
  - exact W4.
  - destruct (end_step_names s1 nm' o' V) as (s' & Eend & _).
    cbn [run_calls do_call lift]. fold s0. rewrite run_calls_app.
    rewrite (surjective_pairing (run_calls s0 cs)), R0. fold s1. change (0 =? 0) with true. cbv iota.
    cbn [run_calls do_call]. rewrite Eend. reflexivity.
Qed.

(* the steps of a valid program, each judged in the state it starts in *)
Fixpoint steps_ok (s : wst) (steps : list (list call)) : Prop :=
  match steps with
  | [] => True
  | cs :: r => calls_okw (begin_step s) cs /\ frame_valid (snd (run_calls (begin_step s) cs)) /\
               steps_ok (snd (run_calls s (CBegin :: cs ++ [CEnd]))) r
  end.

Lemma steps_total steps : forall s, steps_ok s steps ->
  fst (run_calls s (flat_map (fun cs => CBegin :: cs ++ [CEnd]) steps)) = 0.
Proof.
  induction steps as [|cs steps IH]; intros s H; [reflexivity|]. destruct H as (H1 & H2 & H3).
  cbn [flat_map]. rewrite run_calls_app. pose proof (step_total s cs H1 H2) as E.
  rewrite (surjective_pairing (run_calls s (CBegin :: cs ++ [CEnd]))), E. change (0 =? 0) with true. cbv iota. now apply IH.
Qed.

Lemma program_total inc steps : steps_ok (snd (do_call init_st (CInit inc))) steps ->
  fst (run_calls init_st (program_calls inc steps)) = 0.
Proof. intros H. unfold program_calls. cbn [run_calls do_call lift]. now apply steps_total. Qed.

(* theory-free programs: validity of the calls is all that is needed (the earlier, weaker theorem) *)
Lemma calls_ok_plain cs : Forall call_ok cs -> forall s, calls_ok s cs.
Proof.
  induction 1 as [|c cs Hc Hcs IH]; intros s; [exact I|]. split; [|apply IH].
  destruct c; simpl in Hc; try contradiction; exact Hc.
Qed.
