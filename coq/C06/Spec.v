(* C06 - what a step of a (theory-free) program is expected to look like when parsed back.  Definitions only. *)
Require Import V.Lib.Base V.Lib.Calls V.C06.Model V.C06.RefParse.
Local Open Scope Z_scope.

Definition lit_of (z : Z) : bool * Z := (z <? 0, Z.abs z).
Definition wl_of (x : Z * Z) : glit Z * Z := (lit_of (fst x), snd x).

(* the statement a directive call denotes *)
Definition stmt_of_call (c : call) : option (stmt Z) :=
  match c with
  | CRule ht h b => Some (SRule (negb (ht =? 0)) h (BNormal (map lit_of b)))
  | CWRule ht h bd b => Some (SRule (negb (ht =? 0)) h (BAgg bd (map wl_of b)))
  | CMin p l => Some (SMin p (map wl_of l))
  | CProject a => Some (SProject a)
  | COutput n c => Some (SShow n (map lit_of c))
  | CExternal a v => Some (SExternal a v)
  | CAssume l => Some (SAssume (map lit_of l))
  | CHeuristic a t b p c => Some (SHeu a (map lit_of c) b p t)
  | CEdge s t c => Some (SEdge s t (map lit_of c))
  | _ => None
  end.

(* the statements expected for the directive calls of a step, and the name table after them: an output directive
   either becomes the name of its atom (single positive literal, atom-like name, atom not named yet) or a #show *)
Fixpoint expected (nm : names_t) (cs : list call) : list (stmt Z) * names_t :=
  match cs with
  | [] => ([], nm)
  | c :: r =>
      match c with
      | COutput n cond =>
          match name_target nm n cond with
          | Some a => expected ((a, n) :: nm) r
          | None => let '(ss, nm') := expected nm r in (SShow n (map lit_of cond) :: ss, nm')
          end
      | _ => match stmt_of_call c with
             | Some s => let '(ss, nm') := expected nm r in (s :: ss, nm')
             | None => expected nm r
             end
      end
  end.

(* equality of statements up to satisfaction-equivalent aggregate bodies over the same literals *)
Definition body_equiv (b b' : body Z) : Prop :=
  match b, b' with
  | BNormal l, BNormal l' => l = l'
  | BAgg bd l, BAgg bd' l' => map fst l = map fst l' /\ forall X : Z -> bool, sat X (BAgg bd' l') = sat X (BAgg bd l)
  | _, _ => False
  end.
Definition stmt_equiv (s s' : stmt Z) : Prop :=
  match s, s' with
  | SRule c h b, SRule c' h' b' => c = c' /\ h = h' /\ body_equiv b b'
  | _, _ => s = s'
  end.

(* valid directive calls of a theory-free step *)
Definition nonneg (l : list Z) : Prop := Forall (fun a => 0 <= a) l.
(* names and #show terms the reference parser reads back (RefParse.good_nameb): an identifier other than "not",
   optionally followed directly by a parenthesised, balanced argument list (quoted strings inside are opaque) *)
Definition good_name (n : list Z) : Prop := good_nameb n = true.
Definition call_ok (c : call) : Prop :=
  match c with
  | CRule _ h _ => nonneg h
  | CWRule _ h bd b => nonneg h /\ in_int bd = true /\ Forall (fun x => in_int (snd x) = true) b
  | CMin _ _ => True
  | CProject a => nonneg a
  | COutput n _ => good_name n
  | CExternal a v => 0 <= a /\ 0 <= v <= 3
  | CAssume _ => True
  | CHeuristic a t _ p _ => 0 <= a /\ 0 <= p /\ 0 <= t <= 5
  | CEdge _ _ _ => True
  | _ => False
  end.
Definition names_ok (nm : names_t) : Prop := forall a s, lookup a nm = Some s -> good_name s.
