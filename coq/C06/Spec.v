(* C06 - what a step of a (theory-free) program is expected to look like when parsed back.  Definitions only. *)
Require Import V.Lib.Base V.Lib.Calls V.Lib.Dec V.Gen.Consts_C06 V.C06.Model V.C06.RefParse.
Local Open Scope Z_scope.

Definition lit_of (z : Z) : bool * Z := (z <? 0, Z.abs z).
Definition wl_of (x : Z * Z) : glit Z * Z := (lit_of (fst x), snd x).

(* the statement a directive call denotes *)
Definition stmt_of_call (c : call) : option (stmt Z) :=
  match c with
  | CRule ht h b => Some (SRule (negb (ht =? 0)) h (BNormal (map lit_of b)))
  | CWRule ht h bd b => Some (SRule (negb (ht =? 0)) h (BAgg bd (map wl_of b)))
  | CMin p l => Some (SMin p (map wl_of l))
  | CProject a => Some (SProject a)
  | COutput n c => Some (SShow n (map lit_of c))
  | CExternal a v => Some (SExternal a v)
  | CAssume l => Some (SAssume (map lit_of l))
  | CHeuristic a t b p c => Some (SHeu a (map lit_of c) b p t)
  | CEdge s t c => Some (SEdge s t (map lit_of c))
  | _ => None
  end.

(* the statements expected for the directive calls of a step, and the name table after them: an output directive
   either becomes the name of its atom (single positive literal, atom-like name, atom not named yet) or a #show *)
Fixpoint expected (nm : names_t) (cs : list call) : list (stmt Z) * names_t :=
  match cs with
  | [] => ([], nm)
  | c :: r =>
      match c with
      | COutput n cond =>
          match name_target nm n cond with
          | Some a => expected ((a, n) :: nm) r
          | None => let '(ss, nm') := expected nm r in (SShow n (map lit_of cond) :: ss, nm')
          end
      | _ => match stmt_of_call c with
             | Some s => let '(ss, nm') := expected nm r in (s :: ss, nm')
             | None => expected nm r
             end
      end
  end.

(* equality of statements up to satisfaction-equivalent aggregate bodies over the same literals *)
Definition body_equiv (b b' : body Z) : Prop :=
  match b, b' with
  | BNormal l, BNormal l' => l = l'
  | BAgg bd l, BAgg bd' l' => map fst l = map fst l' /\ forall X : Z -> bool, sat X (BAgg bd' l') = sat X (BAgg bd l)
  | _, _ => False
  end.
Definition stmt_equiv (s s' : stmt Z) : Prop :=
  match s, s' with
  | SRule c h b, SRule c' h' b' => c = c' /\ h = h' /\ body_equiv b b'
  | _, _ => s = s'
  end.

(* valid directive calls of a theory-free step *)
Definition nonneg (l : list Z) : Prop := Forall (fun a => 0 <= a) l.
(* names and #show terms the reference parser reads back (RefParse.good_nameb): an identifier other than "not",
   optionally followed directly by a parenthesised, balanced argument list (quoted strings inside are opaque) *)
Definition good_name (n : list Z) : Prop := good_nameb n = true.
Definition call_ok (c : call) : Prop :=
  match c with
  | CRule _ h _ => nonneg h
  | CWRule _ h bd b => nonneg h /\ in_int bd = true /\ Forall (fun x => in_int (snd x) = true) b
  | CMin _ _ => True
  | CProject a => nonneg a
  | COutput n _ => good_name n
  | CExternal a v => 0 <= a /\ 0 <= v <= 3
  | CAssume _ => True
  | CHeuristic a t _ p _ => 0 <= a /\ 0 <= p /\ 0 <= t <= 5
  | CEdge _ _ _ => True
  | _ => False
  end.
Definition names_ok (nm : names_t) : Prop := forall a s, lookup a nm = Some s -> good_name s.

(* ====================== theory atoms ====================== *)
(* canonical text of what the parser reads at an atom position (the spelling the writer uses) *)
Definition bracket_of (k : Z) : Z * Z := match assoc k tuple_parens with Some p => p | None => (0, 0) end.
Fixpoint show_t (t : ttree) : list Z :=
  match t with
  | TN n => print_Z n
  | TS s => s
  | TF f args => show_t f ++ 40 :: sep_list (fun x => x) s_list_sep (map show_t args) ++ [41]
  | TT k args => fst (bracket_of k) :: sep_list (fun x => x) s_list_sep (map show_t args) ++ [snd (bracket_of k)]
  | TU o a => o ++ show_t a
  | TB o a b => show_t a ++ [32] ++ o ++ [32] ++ show_t b
  end.
Definition show_lit0 (x : glit (list Z)) : list Z := (if fst x then s_not else []) ++ snd x.
Definition show_elem (e : telemt) : list Z :=
  sep_list (fun x => x) s_list_sep (map show_t (fst e)) ++
  match snd e with [] => [] | _ => s_cond ++ sep_list show_lit0 s_list_sep (snd e) end.
Definition show_ta (a : tatomt) : list Z :=
  [38] ++ show_t (tt_name a) ++ [123] ++ sep_list (fun x => x) s_telem_sep (map show_elem (tt_elems a)) ++ [125] ++
  match tt_guard a with None => [] | Some (o, r) => [32] ++ show_t o ++ [32] ++ show_t r end.
Definition show (p : patom) : list Z := match p with PN n => n | PT t => show_ta t end.

(* ---- the shapes whose spelling can be read back (everything else: see c06_theory_structure_refuted) ---- *)
Definition good_sym (s : list Z) : bool := match s with c :: r => is_sym_start c && forallb is_ident_char r | [] => false end.
Definition good_op (o : list Z) : bool := negb (nilb o) && forallb is_sop o.
Definition is_opterm (t : ttree) : bool := match t with TU _ _ | TB _ _ _ => true | _ => false end.
(* the argument of a prefix operator: no operator term; not a negative number; not a number at all behind "-" *)
Definition un_arg_ok (o : list Z) (a : ttree) : bool :=
  negb (is_opterm a) && match a with TN n => (0 <=? n) && negb (list_eqb o [45]) | _ => true end.
Fixpoint unamb (t : ttree) : bool :=
  match t with
  | TN _ => true
  | TS s => good_sym s
  | TF f args => match f with TS s => good_sym s | _ => false end && forallb unamb args
  | TT k args => match assoc k tuple_parens with Some _ => true | None => false end && forallb unamb args
  | TU o a => good_op o && un_arg_ok o a && unamb a
  | TB o a b => good_op o && negb (is_opterm a) && negb (is_opterm b) && unamb a && unamb b
  end.
Definition unamb_elem (e : telemt) : bool :=
  (negb (nilb (fst e)) || negb (nilb (snd e))) && forallb unamb (fst e) && forallb (fun x => good_nameb (snd x)) (snd e).
Definition unamb_ta (a : tatomt) : bool :=
  unamb (tt_name a) && negb (is_opterm (tt_name a)) && forallb unamb_elem (tt_elems a) &&
  match tt_guard a with None => true | Some (o, r) => match o with TS s => good_op s | _ => false end && unamb r end.
Definition pok (p : patom) : Prop := match p with PN n => good_nameb n = true | PT t => unamb_ta t = true end.
Definition is_plain (p : patom) : Prop := match p with PN _ => True | PT _ => False end.

(* ---- the term structure stored in the writer's theory tables ---- *)
Fixpoint map_opt {A B} (f : A -> option B) (l : list A) : option (list B) :=
  match l with
  | [] => Some []
  | x :: r => match f x with Some y => match map_opt f r with Some ys => Some (y :: ys) | None => None end | None => None end
  end.
Fixpoint tree_of (T : list (option tterm)) (fuel : nat) (id : Z) : option ttree :=
  match fuel with
  | O => None
  | S f =>
      match nth_opt T id with
      | None => None
      | Some (TNum n) => Some (TN n)
      | Some (TSym s) => Some (TS (cut0 s))
      | Some (TComp base args) =>
          match map_opt (tree_of T f) args with
          | None => None
          | Some ts =>
              if 0 <=? base then
                match nth_opt T base, tree_of T f base with
                | Some x, Some fx =>
                    let isop := match x with TSym s => is_op (hd 0 (cut0 s)) | _ => false end in
                    match ts with
                    | [a] => Some (if isop then TU (show_t fx) a else TF fx ts)
                    | [a; b] => Some (if isop then TB (show_t fx) a b else TF fx ts)
                    | _ => Some (TF fx ts)
                    end
                | _, _ => None
                end
              else match assoc base tuple_parens with Some _ => Some (TT base ts) | None => None end
          end
      end
  end.
(* a term is referentially consistent and acyclic iff some fuel unfolds it (ProofsTheory.tree_of_bound: then length T + 1 does) *)
Definition acyclic_term (T : list (option tterm)) (id : Z) : Prop := exists h t, tree_of T h id = Some t.

Definition lit0_of (nm : names_t) (z : Z) : glit (list Z) := (z <? 0, name_of nm (Z.abs z)).
Definition elem_of (s : wst) (nm : names_t) (fuel : nat) (id : Z) : option telemt :=
  match nth_opt (elems s) id with
  | None => None
  | Some e =>
      match map_opt (tree_of (terms s) fuel) (te_terms e) with
      | None => None
      | Some ts =>
          if te_cond e =? 0 then Some (ts, [])
          else match get_condition (conds s) (te_cond e) with
               | [] => None                                   (* a condition id that denotes no literals: never built by addCondition *)
               | c => Some (ts, map (lit0_of nm) c)
               end
      end
  end.
Definition tatom_of (s : wst) (nm : names_t) (a : tatom) : option tatomt :=
  let fuel := S (length (terms s)) in
  match tree_of (terms s) fuel (ta_term a), map_opt (elem_of s nm fuel) (ta_elems a) with
  | Some n, Some es =>
      match ta_guard a with
      | None => Some (mkTA n es None)
      | Some (o, r) => match tree_of (terms s) fuel o, tree_of (terms s) fuel r with
                       | Some to, Some tr => Some (mkTA n es (Some (to, tr)))
                       | _, _ => None
                       end
      end
  | _, _ => None
  end.

(* the theory atoms endStep visits, and the literals of their element conditions *)
Definition frame (s : wst) : list tatom := skipn (f_atom s) (tatoms s).
Definition frame_atoms (s : wst) : list Z := filter (fun a => negb (a =? 0)) (map ta_atom (frame s)).
Definition elem_cond (s : wst) (id : Z) : list Z :=
  match nth_opt (elems s) id with Some e => if te_cond e =? 0 then [] else get_condition (conds s) (te_cond e) | None => [] end.
Definition frame_cond_atoms (s : wst) : list Z :=
  flat_map (fun a => flat_map (fun e => map Z.abs (elem_cond s e)) (ta_elems a)) (frame s).
Definition wlits (d : dir) : list Z :=
  match d with
  | DRule _ _ (WSum _ l) => map (fun x => Z.abs (fst x)) l
  | DMin l _ => map (fun x => Z.abs (fst x)) l
  | _ => []
  end.
Definition tat (s : wst) (nm : names_t) (a : tatom) : tatomt :=
  match tatom_of s nm a with Some t => t | None => mkTA (TN 0) [] None end.

(* a theory atom whose data is referentially consistent and acyclic (any fuel; ProofsTheory.fuel_sufficient) *)
Definition tatom_consistent (s : wst) (a : tatom) : Prop :=
  acyclic_term (terms s) (ta_term a) /\
  (forall e, In e (ta_elems a) -> exists el, nth_opt (elems s) e = Some el /\
        (forall t, In t (te_terms el) -> acyclic_term (terms s) t) /\
        (te_cond el = 0 \/ get_condition (conds s) (te_cond el) <> [])) /\
  (forall o r, ta_guard a = Some (o, r) -> acyclic_term (terms s) o /\ acyclic_term (terms s) r).

(* ---- validity of the calls of a step, threaded through the state for TheoryData's "no redefinition inside a step" ---- *)
Definition slot_free {A} (l : list (option A)) (fr : nat) (id : Z) : Prop :=
  0 <= id /\ (nth_opt l id = None \/ (Z.to_nat id < fr)%nat).
Definition tcall_ok (s : wst) (c : call) : Prop :=
  match c with
  | CTNum i _ | CTSym i _ | CTComp i _ _ => slot_free (terms s) (f_term s) i
  | CTElem i _ _ => slot_free (elems s) (f_elem s) i
  | CTAtom a _ _ | CTAtomG a _ _ _ _ => 0 <= a < 2147483648
  | _ => call_ok c
  end.
Fixpoint calls_ok (s : wst) (cs : list call) : Prop :=
  match cs with [] => True | c :: r => tcall_ok s c /\ calls_ok (snd (do_call s c)) r end.
(* for totality the spelling of output names does not matter *)
Definition tcall_okw (s : wst) (c : call) : Prop := match c with COutput _ _ => True | _ => tcall_ok s c end.
Fixpoint calls_okw (s : wst) (cs : list call) : Prop :=
  match cs with [] => True | c :: r => tcall_okw s c /\ calls_okw (snd (do_call s c)) r end.

(* ---- name tables with theory atoms: every spelling is the canonical text of a readable atom ---- *)
Definition names_ok2 (nm : names_t) : Prop := forall a s, lookup a nm = Some s -> exists p, pok p /\ s = show p.
Definition plain_name (nm : names_t) (a : Z) : Prop := forall n, lookup a nm = Some n -> good_nameb n = true.
(* what the reference parser reads at a position of atom a *)
Definition sem (nm : names_t) (a : Z) : patom :=
  match lookup a nm with
  | Some s => match p_name s with Some (p, []) => p | _ => PN s end
  | None => PN (s_xpre ++ print_nat a)
  end.

(* ---- hypotheses on the theory atoms endStep visits (state s1 = just before endStep) ---- *)
(* totality: consistent acyclic data; no atom is both named and a theory atom, no atom carries two theory atoms (finding 1) *)
Record frame_valid (s1 : wst) : Prop := {
  fv_wf : forall a, In a (frame s1) -> tatom_consistent s1 a;
  fv_unnamed : forall a, In a (frame_atoms s1) -> lookup a (names s1) = None;
  fv_nodup : NoDup (frame_atoms s1) }.
(* parse-back: in addition unambiguous spelling (no operator term directly below an operator term, ...: unamb_ta),
   element conditions over plainly named atoms that are not theory atoms of this step (finding 2),
   no theory atom in a weighted literal list (lit=weight would read as a guard) *)
Record frame_ok (s1 : wst) : Prop := {
  fo_wf : forall a, In a (frame s1) -> exists ta, tatom_of s1 (names s1) a = Some ta /\ unamb_ta ta = true;
  fo_cond : forall c, In c (frame_cond_atoms s1) -> ~ In c (frame_atoms s1);
  fo_unnamed : forall a, In a (frame_atoms s1) -> lookup a (names s1) = None;
  fo_nodup : NoDup (frame_atoms s1);
  fo_wplain : forall d a, In d (dirs s1) -> In a (wlits d) -> ~ In a (frame_atoms s1) /\ plain_name (names s1) a }.

(* the statements expected for the theory atoms without an atom (directive theory atoms): facts over the atom's structure *)
Definition tstmts (s1 : wst) : list (stmt patom) :=
  map (fun a => SRule false [PT (tat s1 (names s1) a)] (BNormal [])) (filter (fun a => ta_atom a =? 0) (frame s1)).

(* the names the property notes use *)
Definition unambiguous_term : ttree -> bool := unamb.
Definition unambiguous_atom : tatomt -> bool := unamb_ta.
