(* C06 - the reference parser reads back what render_dir writes (theory-free directives, identifier names). *)
Require Import V.Lib.Base V.Lib.Dec V.Gen.Consts_C06 V.C06.Model V.C06.RefParse V.C06.Spec V.C06.ProofsLex V.C06.ProofsTerm.
Local Open Scope Z_scope.

(* ---------- the statement a buffered directive denotes ---------- *)
Definition cl_of (x : Z) : glit Z * Z := (lit_of x, 1).
Definition body_of (b : wbody) : body Z :=
  match b with
  | WNormal l => BNormal (map lit_of l)
  | WCount bd l => BAgg bd (map cl_of l)
  | WSum bd l => BAgg bd (map wl_of l)
  end.
Definition stmt_of_dir (d : dir) : stmt Z :=
  match d with
  | DRule ht h b => SRule (negb (ht =? 0)) h (body_of b)
  | DMin l p => SMin p (map wl_of l)
  | DProject l => SProject l
  | DOutput s c => SShow s (map lit_of c)
  | DExternal a v => SExternal a v
  | DAssume l => SAssume (map lit_of l)
  | DHeu a c b p t => SHeu a (map lit_of c) b p t
  | DEdge s t c => SEdge s t (map lit_of c)
  end.

Definition dir_ok (d : dir) : Prop :=
  match d with
  | DRule _ h _ => nonneg h
  | DProject l => nonneg l
  | DOutput s _ => good_nameb s = true
  | DExternal a v => 0 <= a /\ 0 <= v <= 3
  | DHeu a _ _ prio t => 0 <= a /\ 0 <= prio /\ 0 <= t <= 5
  | _ => True
  end.

(* ---------- names ---------- *)
Definition names_good (nm : names_t) : Prop := forall a s, lookup a nm = Some s -> good_nameb s = true.

Lemma digits_ident d : all_digits d -> forallb is_ident_char d = true.
Proof.
  induction 1 as [|c r Hc Hr IH]; simpl; [reflexivity|]. rewrite IH.
  unfold is_ident_char. rewrite Hc. now rewrite !orb_true_r.
Qed.

Lemma xname_good a : 0 <= a -> good_nameb (s_xpre ++ print_nat a) = true.
Proof.
  intros Ha. change s_xpre with [120; 95]. cbn [app good_nameb].
  change (is_name_start 120) with true. cbn [andb].
  pose proof (span_all is_ident_char (95 :: print_nat a) [] ) as E. rewrite app_nil_r in E.
  rewrite E; [reflexivity | | exact I]. cbn [forallb]. change (is_ident_char 95) with true.
  now rewrite (digits_ident _ (print_nat_digits a Ha)).
Qed.

Lemma print_lit_pos nm a : 0 <= a -> print_lit nm a = name_of nm a.
Proof. intros Ha. unfold print_lit. destruct (Z.ltb_spec a 0); [lia|]. now rewrite Z.abs_eq. Qed.

(* ---------- element parsers on rendered elements ---------- *)
Section Elems.
Variable nm : names_t.
(* what the parser reads for each atom: every spelling in the name table is the canonical text of a readable atom *)
Variable nu : Z -> patom.
Hypothesis Hnu : forall a, 0 <= a -> pok (nu a) /\ name_of nm a = show (nu a).

Lemma nu_abs z : pok (nu (Z.abs z)) /\ name_of nm (Z.abs z) = show (nu (Z.abs z)).
Proof. apply Hnu. lia. Qed.

Lemma e_name_gen a l : 0 <= a -> nic l -> (is_plain (nu a) \/ nosop l) -> p_name (name_of nm a ++ l) = Some (nu a, l).
Proof. intros Ha Hl Hf. destruct (Hnu a Ha) as [Hp ->]. now apply p_name_show. Qed.
Lemma e_name a l : 0 <= a -> tfol l -> p_name (name_of nm a ++ l) = Some (nu a, l).
Proof. intros Ha [H1 H2]. apply e_name_gen; auto. Qed.
Lemma e_lit_gen z l : nic l -> (is_plain (nu (Z.abs z)) \/ nosop l) -> p_lit (print_lit nm z ++ l) = Some (map_lit nu (lit_of z), l).
Proof.
  intros Hl Hf. destruct (nu_abs z) as [Hp E]. unfold print_lit. rewrite E, <- app_assoc.
  rewrite (p_lit_show (z <? 0) (nu (Z.abs z)) l Hp Hl Hf). reflexivity.
Qed.
Lemma e_lit z l : tfol l -> p_lit (print_lit nm z ++ l) = Some (map_lit nu (lit_of z), l).
Proof. intros [H1 H2]. apply e_lit_gen; auto. Qed.

Definition okc (l : list Z) : Prop := tfol l /\ tok [61] l = None.      (* after a literal without weight *)
Lemma e_clit z l : okc l -> p_wlit (print_lit nm z ++ l) = Some (map_wlit nu (cl_of z), l).
Proof.
  intros [H1 H2]. unfold p_wlit, bnd. rewrite (e_lit z l H1). unfold opt. rewrite H2. reflexivity.
Qed.
Lemma e_wlit x l : is_plain (nu (Z.abs (fst x))) -> nd l -> p_wlit (print_wlit nm x ++ l) = Some (map_wlit nu (wl_of x), l).
Proof.
  intros Hpl H. unfold p_wlit, bnd, print_wlit. rewrite <- !app_assoc.
  rewrite (e_lit_gen (fst x)) by (auto; reflexivity). unfold opt.
  rewrite (tok_const [61] s_eq []) by (discriminate || reflexivity). rewrite app_nil_l.
  rewrite (p_int_spec (snd x) l H). reflexivity.
Qed.

Lemma name_hd a : 0 <= a -> exists c r, name_of nm a = c :: r /\ (is_name_start c = true \/ c = 38).
Proof. intros Ha. destruct (Hnu a Ha) as [Hp ->]. now apply show_hd. Qed.
Lemma name_nows c : (is_name_start c = true \/ c = 38) -> is_ws c = false.
Proof. intros [H| ->]; [now apply name_start_nows | reflexivity]. Qed.

Definition closer (close : list Z) : Prop := is_name_start (hd 0 close) = false /\ hd 0 close <> 38 /\ close <> [].
Lemma c_name close a l : 0 <= a -> closer close -> tok close (name_of nm a ++ l) = None.
Proof.
  intros Ha (Hc & H38 & Hne). destruct close as [|c r]; [congruence|]. destruct (name_hd a Ha) as (c0 & r0 & -> & Hk).
  cbn [app]. apply tok_none_hd; [now apply name_nows|]. cbn [hd] in *. destruct Hk as [Hk| ->]; congruence.
Qed.
Lemma c_lit close z l : closer close -> tok close (print_lit nm z ++ l) = None.
Proof.
  intros Hcl. unfold print_lit. destruct (z <? 0).
  - destruct Hcl as (Hc & H38 & Hne). destruct close as [|c r]; [congruence|]. rewrite <- app_assoc.
    change s_not with [110; 111; 116; 32]. cbn [app]. apply tok_none_hd; [reflexivity|]. cbn [hd] in Hc. intro E. subst c. discriminate.
  - cbn [app]. apply c_name; [lia | assumption].
Qed.
Lemma c_wlit close x l : closer close -> tok close (print_wlit nm x ++ l) = None.
Proof. intros. unfold print_wlit. rewrite <- app_assoc. now apply c_lit. Qed.

Lemma print_lit_ne z : print_lit nm z <> [].
Proof.
  unfold print_lit. destruct (z <? 0); [discriminate|]. cbn [app]. destruct (name_hd (Z.abs z) ltac:(lia)) as (c & r & -> & _). discriminate.
Qed.
Lemma name_ne a : 0 <= a -> name_of nm a <> [].
Proof. intros Ha. destruct (name_hd a Ha) as (c & r & -> & _). discriminate. Qed.

(* ---------- lists ---------- *)
(* literals separated by ", " *)
Lemma l_lits1 c rest : c <> [] -> tfol rest -> tok t_comma rest = None ->
  p_list1 p_lit t_comma (sep_list (print_lit nm) s_list_sep c ++ rest) = Some (map (map_lit nu) (map lit_of c), rest).
Proof.
  intros Hc Hr He. rewrite map_map.
  apply (p_list1_spec p_lit (print_lit nm) (fun z => map_lit nu (lit_of z)) t_comma [32] tfol); try assumption; try discriminate; try reflexivity.
  - intros l. split; reflexivity.
  - exact print_lit_ne.
  - intros x _ l Hl. now apply e_lit.
Qed.

Lemma l_lits0 close c rest : closer close ->
  tfol rest -> tok t_comma rest = None -> (exists r, tok close rest = Some (tt, r)) ->
  p_list0 p_lit t_comma close (sep_list (print_lit nm) s_list_sep c ++ rest) = Some (map (map_lit nu) (map lit_of c), rest).
Proof.
  intros Hc Hr He Hcl. rewrite map_map.
  apply (p_list0_spec p_lit (print_lit nm) (fun z => map_lit nu (lit_of z)) t_comma [32] tfol); try assumption; try discriminate; try reflexivity.
  - intros l. split; reflexivity.
  - exact print_lit_ne.
  - intros x _ l Hl. now apply e_lit.
  - intros x _ l. now apply c_lit.
Qed.

Lemma l_cond c rest : tfol rest -> tok t_comma rest = None -> tok t_colon rest = None ->
  p_cond (pre_list (print_lit nm) s_cond s_list_sep c ++ rest) = Some (map (map_lit nu) (map lit_of c), rest).
Proof.
  intros Hr He Hcol. unfold p_cond, opt, pre_list. destruct c as [|x c].
  - cbn [app map]. now rewrite Hcol.
  - rewrite <- app_assoc. rewrite (tok_const t_colon s_cond [32]) by (discriminate || reflexivity).
    change ([32] ++ ?x) with (32 :: x). unfold p_list1. cbn [length].
    change (p_sep1 (S (S (length ?l))) p_lit t_comma (32 :: ?l)) with (p_sep1 (S (S (length l))) p_lit t_comma ([32] ++ l)).
    rewrite (p_sep1_pad p_lit t_comma [32] p_lit_blank).
    rewrite map_map.
    apply (p_sep1_spec p_lit (print_lit nm) (fun z => map_lit nu (lit_of z)) t_comma [32] tfol); try assumption; try discriminate; try reflexivity.
    + intros l. split; reflexivity.
    + intros z _ l Hl. now apply e_lit.
    + rewrite app_length.
      pose proof (sep_list_len (print_lit nm) s_list_sep print_lit_ne (x :: c)) as HL. simpl in *. lia.
Qed.

(* names separated by sep (one char) with optional blank *)
Lemma l_names1 (sepc : Z) pad h rest : is_ws sepc = false -> is_follow sepc = true -> is_sop sepc = false ->
  (pad = [] \/ pad = [32]) -> nonneg h -> h <> [] ->
  tfol rest -> tok [sepc] rest = None ->
  p_list1 p_name [sepc] (sep_list (name_of nm) ([sepc] ++ pad) h ++ rest) = Some (map nu h, rest).
Proof.
  intros Hws Hid Hsop Hpad Hh Hne Hr He.
  assert (Hin : forall x, In x h -> 0 <= x) by (unfold nonneg in Hh; now rewrite Forall_forall in Hh).
  unfold p_list1.
  apply (p_sep1_spec p_name (name_of nm) nu [sepc] pad tfol); try assumption; try discriminate.
  - destruct Hpad as [-> | ->]; intros l; [reflexivity | apply p_name_blank].
  - intros l. split; [exact Hid|]. unfold nosop. cbn [app skipws]. rewrite Hws. exact Hsop.
  - intros z Hz l Hl. apply e_name; [now apply Hin | assumption].
  - rewrite app_length.
    assert (HL : (length h <= length (sep_list (name_of nm) ([sepc] ++ pad) h))%nat).
    { clear - Hin Hnu. induction h as [|y q IH]; [simpl; lia|]. destruct q as [|z q'].
      - simpl. pose proof (name_ne y (Hin y (or_introl eq_refl))). destruct (name_of nm y); [congruence | simpl; lia].
      - rewrite sep_list_cons, !app_length. pose proof (name_ne y (Hin y (or_introl eq_refl))).
        specialize (IH (fun w Hw => Hin w (or_intror Hw))). destruct (name_of nm y); [congruence|]. simpl in *. lia. }
    lia.
Qed.

Lemma l_names0 (sepc : Z) pad close h rest : is_ws sepc = false -> is_follow sepc = true -> is_sop sepc = false ->
  (pad = [] \/ pad = [32]) -> nonneg h ->
  closer close ->
  tfol rest -> tok [sepc] rest = None -> (exists r, tok close rest = Some (tt, r)) ->
  p_list0 p_name [sepc] close (sep_list (name_of nm) ([sepc] ++ pad) h ++ rest) = Some (map nu h, rest).
Proof.
  intros Hws Hid Hsop Hpad Hh Hc Hr He Hcl.
  assert (Hin : forall x, In x h -> 0 <= x) by (unfold nonneg in Hh; now rewrite Forall_forall in Hh).
  unfold p_list0. destruct h as [|x h].
  - cbn [sep_list app map]. destruct Hcl as [r ->]. reflexivity.
  - assert (E : tok close (sep_list (name_of nm) ([sepc] ++ pad) (x :: h) ++ rest) = None).
    { destruct h as [|y q]; [cbn [sep_list] | rewrite sep_list_cons, <- !app_assoc]; apply c_name; try assumption; apply Hin; now left. }
    rewrite E. apply l_names1; try assumption. discriminate.
Qed.

Lemma l_wlits0 l rest : (forall x, In x l -> is_plain (nu (Z.abs (fst x)))) ->
  nd rest -> tok t_semi rest = None -> (exists r, tok t_rbrace rest = Some (tt, r)) ->
  p_list0 p_wlit t_semi t_rbrace (sep_list (print_wlit nm) s_agg_sep l ++ rest) = Some (map (map_wlit nu) (map wl_of l), rest).
Proof.
  intros Hpl Hr He Hcl. rewrite map_map.
  apply (p_list0_spec p_wlit (print_wlit nm) (fun x => map_wlit nu (wl_of x)) t_semi [32] nd); try assumption; try discriminate; try reflexivity.
  - intros x E. unfold print_wlit in E. apply app_eq_nil in E. destruct E as [E _]. now apply print_lit_ne in E.
  - intros x Hx l0 Hl. apply e_wlit; [now apply Hpl | assumption].
  - intros x _ l0. apply c_wlit. repeat split; discriminate.
Qed.

Lemma l_clits0 l rest : okc rest -> tok t_semi rest = None -> (exists r, tok t_rbrace rest = Some (tt, r)) ->
  p_list0 p_wlit t_semi t_rbrace (sep_list (print_lit nm) s_agg_sep l ++ rest) = Some (map (map_wlit nu) (map cl_of l), rest).
Proof.
  intros Hr He Hcl. rewrite map_map.
  apply (p_list0_spec p_wlit (print_lit nm) (fun x => map_wlit nu (cl_of x)) t_semi [32] okc); try assumption; try discriminate; try reflexivity.
  - intros l0. repeat split.
  - exact print_lit_ne.
  - intros x _ l0 Hl. now apply e_clit.
  - intros x _ l0. apply c_lit. repeat split; discriminate.
Qed.

(* ---------- directives ---------- *)
Ltac tk_ok s c := erewrite (tok_const s c); [ | discriminate | reflexivity ].
Ltac tk_no s c := rewrite (tok_none s c) by reflexivity.
Ltac side := first [ reflexivity | assumption | discriminate | (now right) | (now left) | (now apply tok_none)
                   | (eexists; apply tok_const; [discriminate | reflexivity]) | (split; reflexivity)
                   | (repeat split; first [reflexivity | discriminate]) ].

Definition dir_plain (d : dir) : Prop := forall a, In a (wlits d) -> is_plain (nu a).
Definition body_plain (b : wbody) : Prop := match b with WSum _ l => forall x, In x l -> is_plain (nu (Z.abs (fst x))) | _ => True end.
Lemma dir_plain_min l p : dir_plain (DMin l p) -> forall x, In x l -> is_plain (nu (Z.abs (fst x))).
Proof. intros H x Hx. apply H. cbn [wlits]. apply in_map_iff. now exists x. Qed.
Lemma dir_plain_rule ht h b : dir_plain (DRule ht h b) -> body_plain b.
Proof. intros H. destruct b; cbn [body_plain]; try exact I. intros x Hx. apply H. cbn [wlits]. apply in_map_iff. now exists x. Qed.

Lemma d_min l p rest : (forall x, In x l -> is_plain (nu (Z.abs (fst x)))) ->
  p_stmt (render_dir nm (DMin l p) ++ rest) = Some (map_stmt nu (stmt_of_dir (DMin l p)), s_nl ++ rest).
Proof.
  intros Hpl. cbn [render_dir stmt_of_dir map_stmt]. rewrite <- !app_assoc. unfold p_stmt.
  tk_ok t_minimize s_minimize. unfold bnd.
  tk_ok t_lbrace [123]. rewrite app_nil_l.
  rewrite l_wlits0 by (first [assumption | side]).
  tk_ok t_rbrace s_min_close. unfold opt. tk_ok t_at [64]. rewrite app_nil_l.
  rewrite p_int_spec by reflexivity.
  tk_ok t_dot s_dot. reflexivity.
Qed.

Lemma d_project l rest : nonneg l ->
  p_stmt (render_dir nm (DProject l) ++ rest) = Some (map_stmt nu (stmt_of_dir (DProject l)), s_nl ++ rest).
Proof.
  intros Hl. cbn [render_dir stmt_of_dir map_stmt]. rewrite <- !app_assoc. unfold p_stmt.
  tk_no t_minimize s_project. tk_ok t_project s_project. unfold bnd.
  tk_ok t_lbrace [123]. rewrite app_nil_l.
  assert (E : sep_list (print_lit nm) s_list_sep l = sep_list (name_of nm) ([44] ++ [32]) l).
  { clear rest. induction l as [|x l IH]; [reflexivity|]. inversion Hl; subst. destruct l as [|y r].
    - simpl. now apply print_lit_pos.
    - rewrite !sep_list_cons, IH by assumption. now rewrite print_lit_pos. }
  rewrite E. rewrite (l_names0 44 [32] t_rbrace) by side.
  tk_ok t_rbrace s_set_close. tk_ok t_dot [46]. reflexivity.
Qed.

Lemma d_assume l rest :
  p_stmt (render_dir nm (DAssume l) ++ rest) = Some (map_stmt nu (stmt_of_dir (DAssume l)), s_nl ++ rest).
Proof.
  cbn [render_dir stmt_of_dir map_stmt]. rewrite <- !app_assoc. unfold p_stmt.
  tk_no t_minimize s_assume. tk_no t_project s_assume. tk_no t_show s_assume. tk_no t_external s_assume.
  tk_ok t_assume s_assume. unfold bnd.
  tk_ok t_lbrace [123]. rewrite app_nil_l.
  rewrite (l_lits0 t_rbrace) by side.
  tk_ok t_rbrace s_set_close. tk_ok t_dot [46]. reflexivity.
Qed.

Lemma d_show s c rest : good_nameb s = true ->
  p_stmt (render_dir nm (DOutput s c) ++ rest) = Some (map_stmt nu (stmt_of_dir (DOutput s c)), s_nl ++ rest).
Proof.
  intros Hs. cbn [render_dir stmt_of_dir map_stmt]. rewrite <- !app_assoc. unfold p_stmt.
  tk_no t_minimize s_show. tk_no t_project s_show. tk_ok t_show s_show. unfold bnd.
  change ([32] ++ ?x) with (32 :: x). rewrite p_name0_blank.
  assert (Hn : nic (pre_list (print_lit nm) s_cond s_list_sep c ++ s_dot ++ s_nl ++ rest)).
  { destruct c; reflexivity. }
  rewrite (p_name0_spec s _ Hs Hn).
  rewrite l_cond by side.
  tk_ok t_dot s_dot. reflexivity.
Qed.

Lemma d_edge s t c rest :
  p_stmt (render_dir nm (DEdge s t c) ++ rest) = Some (map_stmt nu (stmt_of_dir (DEdge s t c)), s_nl ++ rest).
Proof.
  cbn [render_dir stmt_of_dir map_stmt]. rewrite <- !app_assoc. unfold p_stmt.
  tk_no t_minimize s_edge. tk_no t_project s_edge. tk_no t_show s_edge. tk_no t_external s_edge.
  tk_no t_assume s_edge. tk_no t_heuristic s_edge. tk_ok t_edge s_edge. unfold bnd.
  tk_ok t_lpar [40]. rewrite app_nil_l. rewrite p_int_spec by reflexivity.
  tk_ok t_comma s_edge_sep. rewrite app_nil_l. rewrite p_int_spec by reflexivity.
  tk_ok t_rpar s_edge_close. rewrite app_nil_l.
  rewrite l_cond by side.
  tk_ok t_dot s_dot. reflexivity.
Qed.

Lemma d_external a v rest : 0 <= a -> 0 <= v <= 3 -> tok t_lbrack rest = None ->
  p_stmt (render_dir nm (DExternal a v) ++ rest) = Some (map_stmt nu (stmt_of_dir (DExternal a v)), s_nl ++ rest).
Proof.
  intros Ha Hv Hrest. cbn [render_dir stmt_of_dir map_stmt]. rewrite <- !app_assoc. unfold p_stmt.
  tk_no t_minimize s_external. tk_no t_project s_external. tk_no t_show s_external. tk_ok t_external s_external. unfold bnd.
  change ([32] ++ ?x) with (32 :: x). rewrite p_name_blank.
  assert (Hn : tfol (ext_term v ++ s_nl ++ rest)).
  { unfold ext_term. destruct (v =? 0); [split; reflexivity|]. destruct (v =? 1); [split; reflexivity|]. destruct (v =? 3); split; reflexivity. }
  rewrite (e_name a _ Ha Hn). unfold ext_term, opt.
  assert (Hc : v = 0 \/ v = 1 \/ v = 2 \/ v = 3) by lia.
  destruct Hc as [-> | [-> | [-> | ->]]]; cbn [Z.eqb Pos.eqb].
  - tk_ok t_dot s_ext_free. tk_ok t_lbrack [32; 91; 102; 114; 101; 101; 93]. cbn [p_kw ext_values].
    tk_ok [102; 114; 101; 101] [102; 114; 101; 101; 93]. tk_ok t_rbrack [93]. reflexivity.
  - tk_ok t_dot s_ext_true. tk_ok t_lbrack [32; 91; 116; 114; 117; 101; 93]. cbn [p_kw ext_values].
    tk_no [102; 114; 101; 101] [116; 114; 117; 101; 93].
    tk_ok [116; 114; 117; 101] [116; 114; 117; 101; 93]. tk_ok t_rbrack [93]. reflexivity.
  - tk_ok t_dot s_dot. rewrite app_nil_l. change (s_nl ++ rest) with (10 :: rest).
    rewrite tok_ws by reflexivity. rewrite Hrest. reflexivity.
  - tk_ok t_dot s_ext_release. tk_ok t_lbrack [32; 91; 114; 101; 108; 101; 97; 115; 101; 93]. cbn [p_kw ext_values].
    tk_no [102; 114; 101; 101] [114; 101; 108; 101; 97; 115; 101; 93].
    tk_no [116; 114; 117; 101] [114; 101; 108; 101; 97; 115; 101; 93].
    tk_ok [114; 101; 108; 101; 97; 115; 101] [114; 101; 108; 101; 97; 115; 101; 93]. tk_ok t_rbrack [93]. reflexivity.
Qed.

Lemma d_heu a c bias prio t rest : 0 <= a -> 0 <= prio -> 0 <= t <= 5 ->
  p_stmt (render_dir nm (DHeu a c bias prio t) ++ rest) = Some (map_stmt nu (stmt_of_dir (DHeu a c bias prio t)), s_nl ++ rest).
Proof.
  intros Ha Hp Ht. cbn [render_dir stmt_of_dir map_stmt]. rewrite <- !app_assoc. unfold p_stmt.
  tk_no t_minimize s_heuristic. tk_no t_project s_heuristic. tk_no t_show s_heuristic. tk_no t_external s_heuristic.
  tk_no t_assume s_heuristic. tk_ok t_heuristic s_heuristic. unfold bnd.
  change ([32] ++ ?x) with (32 :: x). rewrite p_name_blank.
  rewrite (e_name a) by (try assumption; destruct c; split; reflexivity).
  rewrite l_cond by side.
  tk_ok t_dot s_heu_open. tk_ok t_lbrack [32; 91]. rewrite app_nil_l.
  rewrite p_int_spec by (destruct (prio =? 0); reflexivity).
  unfold opt.
  assert (Hk : forall l, p_kw heu_values (([32] ++ heu_name t ++ s_heu_close) ++ l) = Some (t, [93] ++ l)).
  { intros l. apply p_kw_const.
    assert (Hc : t = 0 \/ t = 1 \/ t = 2 \/ t = 3 \/ t = 4 \/ t = 5) by lia.
    destruct Hc as [-> | [-> | [-> | [-> | [-> | ->]]]]]; reflexivity. }
  destruct (Z.eqb_spec prio 0) as [-> | Hne].
  - rewrite app_nil_l. tk_no t_at s_heu_sep. tk_ok t_comma s_heu_sep.
    rewrite (app_assoc (heu_name t)), (app_assoc [32]), Hk. tk_ok t_rbrack [93]. reflexivity.
  - rewrite <- !app_assoc. tk_ok t_at s_at. rewrite app_nil_l. rewrite p_nat_spec by side.
    tk_ok t_comma s_heu_sep.
    rewrite (app_assoc (heu_name t)), (app_assoc [32]), Hk. tk_ok t_rbrack [93]. reflexivity.
Qed.

(* ---------- rules ---------- *)
Lemma p_body_blank l : p_body (32 :: l) = p_body l.
Proof. reflexivity. Qed.

Lemma render_body_pre pre b : b <> WNormal [] -> render_body nm pre b = pre ++ render_body nm [] b.
Proof. destruct b as [[|x l]| |]; intros H; [congruence | reflexivity | reflexivity | reflexivity]. Qed.

Lemma print_lit_hd z l : exists c r, print_lit nm z ++ l = c :: r /\ is_ws c = false /\ (is_digit c || (c =? 45)) = false.
Proof.
  unfold print_lit. destruct (z <? 0).
  - exists 110. eexists. split; [reflexivity|]. split; reflexivity.
  - destruct (name_hd (Z.abs z) ltac:(lia)) as (c & a & E & Hc). rewrite E. cbn [app].
    exists c. eexists. split; [reflexivity|]. destruct Hc as [Hc| ->]; [|split; reflexivity].
    unfold is_name_start, is_lower, is_ws, is_digit in *. lia.
Qed.

Lemma p_body_spec b R : body_plain b ->
  p_body (render_body nm [] b ++ s_dot ++ R) = Some (map_body nu (body_of b), s_dot ++ R).
Proof.
  intros Hpl. destruct b as [l | bd l | bd l]; cbn [render_body body_of map_body].
  - unfold pre_list. destruct l as [|x l].
    + reflexivity.
    + rewrite app_nil_l.
      destruct (print_lit_hd x (match l with [] => [] | _ => s_body_sep ++ sep_list (print_lit nm) s_body_sep l end ++ s_dot ++ R)) as (c & r & E & Hws & Hd).
      assert (E2 : sep_list (print_lit nm) s_body_sep (x :: l) ++ s_dot ++ R = c :: r).
      { rewrite <- E. destruct l; [reflexivity | rewrite sep_list_cons, <- !app_assoc; reflexivity]. }
      unfold p_body. rewrite E2. cbn [skipws]. rewrite Hws. cbv zeta. rewrite Hd. rewrite <- E2.
      unfold bnd. rewrite (l_lits0 t_dot) by side. reflexivity.
  - rewrite app_nil_l, <- !app_assoc. destruct (print_Z_hd bd) as (c & r & E & Hws & _ & Hd).
    unfold p_body. rewrite E. cbn [app skipws]. rewrite Hws. cbv zeta. rewrite Hd.
    change (c :: r ++ ?x) with ((c :: r) ++ x). rewrite <- E. unfold bnd.
    rewrite p_int_spec by reflexivity. tk_ok t_lbrace s_agg_open. rewrite app_nil_l.
    rewrite l_clits0 by (first [side | (split; [split; reflexivity | now apply tok_none])]).
    tk_ok t_rbrace s_agg_close. reflexivity.
  - rewrite app_nil_l, <- !app_assoc. destruct (print_Z_hd bd) as (c & r & E & Hws & _ & Hd).
    unfold p_body. rewrite E. cbn [app skipws]. rewrite Hws. cbv zeta. rewrite Hd.
    change (c :: r ++ ?x) with ((c :: r) ++ x). rewrite <- E. unfold bnd.
    rewrite p_int_spec by reflexivity. tk_ok t_lbrace s_agg_open. rewrite app_nil_l.
    rewrite l_wlits0 by (first [exact Hpl | side]).
    tk_ok t_rbrace s_agg_close. reflexivity.
Qed.

Lemma rule_tail ch h pre b R : (pre = s_if \/ (pre = [] /\ False)) -> body_plain b ->
  p_rule_tail ch h (render_body nm s_if b ++ s_dot ++ R) = Some (SRule ch h (map_body nu (body_of b)), R).
Proof.
  intros _ Hpl. unfold p_rule_tail, bnd, opt.
  destruct b as [[|x l]| bd l | bd l].
  - cbn [render_body pre_list app]. tk_no t_if s_dot. tk_ok t_dot s_dot. reflexivity.
  - rewrite render_body_pre by discriminate. rewrite <- !app_assoc. tk_ok t_if s_if.
    change ([32] ++ ?x) with (32 :: x). rewrite p_body_blank, p_body_spec by exact Hpl. tk_ok t_dot s_dot. reflexivity.
  - rewrite render_body_pre by discriminate. rewrite <- !app_assoc. tk_ok t_if s_if.
    change ([32] ++ ?x) with (32 :: x). rewrite p_body_blank, p_body_spec by exact Hpl. tk_ok t_dot s_dot. reflexivity.
  - rewrite render_body_pre by discriminate. rewrite <- !app_assoc. tk_ok t_if s_if.
    change ([32] ++ ?x) with (32 :: x). rewrite p_body_blank, p_body_spec by exact Hpl. tk_ok t_dot s_dot. reflexivity.
Qed.

Lemma rule_tail_nohead b R : body_plain b ->
  p_rule_tail false [] (s_if_nohead ++ render_body nm [] b ++ s_dot ++ R) = Some (SRule false [] (map_body nu (body_of b)), R).
Proof.
  intros Hpl. unfold p_rule_tail, bnd, opt. tk_ok t_if s_if_nohead.
  change ([32] ++ ?x) with (32 :: x). rewrite p_body_blank, p_body_spec by exact Hpl. tk_ok t_dot s_dot. reflexivity.
Qed.

Lemma body_pre_eq ht h : body_pre ht h = if negb (ht =? 0) || negb (is_nil h) then s_if else [].
Proof. reflexivity. Qed.

(* the text of a rule does not start with '#' *)
Lemma rule_not_directive s ht h X : nonneg h -> tok (35 :: s) (render_head nm ht h ++ X) = None.
Proof.
  intros Hh. unfold render_head. destruct (negb (ht =? 0)) eqn:Ech; cbn [orb].
  - rewrite <- !app_assoc. now apply tok_none.
  - destruct h as [|x h]; cbn [is_nil negb].
    + now apply tok_none.
    + rewrite app_nil_l, app_nil_r. inversion Hh; subst.
      destruct h as [|y r]; [cbn [sep_list] | rewrite sep_list_cons, <- !app_assoc]; apply c_name; try assumption; repeat split; discriminate.
Qed.

Lemma d_rule ht h b rest : nonneg h -> body_plain b ->
  p_stmt (render_dir nm (DRule ht h b) ++ rest) = Some (map_stmt nu (stmt_of_dir (DRule ht h b)), s_nl ++ rest).
Proof.
  intros Hh Hpl. cbn [render_dir stmt_of_dir map_stmt]. rewrite <- !app_assoc. unfold p_stmt.
  unfold t_minimize, t_project, t_show, t_external, t_assume, t_heuristic, t_edge.
  rewrite !rule_not_directive by assumption.
  unfold p_rule, body_pre, render_head. destruct (negb (ht =? 0)) eqn:Ech; cbn [orb].
  - (* choice head *)
    rewrite <- !app_assoc. tk_ok t_lbrace s_choice_open. rewrite app_nil_l. unfold bnd.
    change s_head_sep_choice with ([59] ++ []).
    rewrite (l_names0 59 [] t_rbrace) by (first [side | (destruct b as [[|? ?]| |]; side)]).
    tk_ok t_rbrace s_choice_close. rewrite app_nil_l.
    rewrite (rule_tail true (map nu h) s_if) by (first [now left | exact Hpl]). reflexivity.
  - destruct h as [|x h]; cbn [is_nil negb].
    + (* no head *)
      tk_no t_lbrace s_if_nohead. tk_ok t_if s_if_nohead.
      pose proof (rule_tail_nohead b (s_nl ++ rest) Hpl) as E. cbn [map]. exact E.
    + rewrite app_nil_l, app_nil_r.
      assert (Hx : 0 <= x) by (inversion Hh; assumption).
      assert (E1 : forall s X, closer s -> tok s (sep_list (name_of nm) s_head_sep_disj (x :: h) ++ X) = None).
      { intros s X H1. destruct h as [|y r]; [cbn [sep_list] | rewrite sep_list_cons, <- !app_assoc]; now apply c_name. }
      rewrite !E1 by (repeat split; discriminate). unfold bnd.
      change s_head_sep_disj with ([124] ++ []).
      assert (E2 : p_list1 p_name [124] (sep_list (name_of nm) ([124] ++ []) (x :: h) ++ render_body nm s_if b ++ s_dot ++ s_nl ++ rest)
                   = Some (map nu (x :: h), render_body nm s_if b ++ s_dot ++ s_nl ++ rest)).
      { apply l_names1; try assumption; try reflexivity; try discriminate; try (now left).
        - destruct b as [[|? ?]| |]; split; reflexivity.
        - destruct b as [[|? ?]| |]; cbn [render_body pre_list app]; rewrite <- ?app_assoc; now apply tok_none. }
      unfold t_bar. rewrite E2. rewrite (rule_tail false (map nu (x :: h)) s_if) by (first [now left | exact Hpl]). reflexivity.
Qed.

(* ---------- every directive ---------- *)
Definition starts_ok (rest : list Z) : Prop := tok t_lbrack rest = None.

Lemma p_stmt_dir d rest : dir_ok d -> dir_plain d -> starts_ok rest ->
  p_stmt (render_dir nm d ++ rest) = Some (map_stmt nu (stmt_of_dir d), s_nl ++ rest).
Proof.
  intros Hd Hpl Hr. destruct d; simpl in Hd.
  - apply d_rule; [assumption | now apply (dir_plain_rule ht head)].
  - apply d_min. now apply (dir_plain_min l p).
  - now apply d_project.
  - now apply d_show.
  - destruct Hd. now apply d_external.
  - apply d_assume.
  - destruct Hd as (? & ? & ?). now apply d_heu.
  - apply d_edge.
Qed.

(* first character of a rendered directive: not white space, not '%', not '[' *)
Lemma render_dir_hd d X : dir_ok d -> exists c r, render_dir nm d ++ X = c :: r /\ is_ws c = false /\ c <> 37 /\ c <> 91.
Proof.
  intros Hd. destruct d; simpl in Hd; try (eexists; eexists; split; [reflexivity | repeat split; discriminate]).
  cbn [render_dir]. unfold render_head. destruct (negb (ht =? 0)); cbn [orb].
  - eexists; eexists; split; [reflexivity | repeat split; discriminate].
  - destruct head as [|x h]; cbn [is_nil negb].
    + eexists; eexists; split; [reflexivity | repeat split; discriminate].
    + inversion Hd; subst.
      destruct (name_hd x H1) as (c & a & E & Hc).
      assert (Hc3 : is_ws c = false /\ c <> 37 /\ c <> 91).
      { destruct Hc as [Hc| ->]; [unfold is_name_start, is_lower, is_ws in *; lia | repeat split; discriminate]. }
      rewrite app_nil_l. destruct h; [cbn [sep_list] | rewrite sep_list_cons]; rewrite E; cbn [app];
        exists c; eexists; (split; [reflexivity | exact Hc3]).
Qed.

Lemma render_dirs_starts ds : Forall dir_ok ds -> starts_ok (render_dirs nm ds).
Proof.
  intros H. unfold starts_ok. destruct ds as [|d ds]; [reflexivity|].
  inversion H; subst. cbn [render_dirs flat_map]. destruct (render_dir_hd d (flat_map (render_dir nm) ds) H2) as (c & r & E & Hws & _ & Hb).
  rewrite E. apply tok_none_hd; [assumption | congruence].
Qed.

Lemma p_stmts_dirs ds : Forall dir_ok ds -> Forall dir_plain ds -> forall n, (length ds < n)%nat ->
  p_stmts n (render_dirs nm ds) = Some (map (map_stmt nu) (map stmt_of_dir ds)).
Proof.
  induction ds as [|d ds IH]; intros H Hp n Hn.
  - destruct n; [lia | reflexivity].
  - inversion H; subst. inversion Hp; subst. destruct n as [|n]; [simpl in Hn; lia|].
    cbn [render_dirs flat_map p_stmts].
    destruct (render_dir_hd d (flat_map (render_dir nm) ds) H2) as (c & r & E & Hws & Hpc & _).
    rewrite E. cbn [skipws]. rewrite Hws. destruct (Z.eqb_spec c 37); [contradiction|].
    rewrite <- E. fold (render_dirs nm ds).
    rewrite (p_stmt_dir d (render_dirs nm ds) H2 H4 (render_dirs_starts ds H3)).
    assert (E2 : p_stmts n (s_nl ++ render_dirs nm ds) = p_stmts n (render_dirs nm ds)).
    { destruct n; reflexivity. }
    rewrite E2, IH; [reflexivity | assumption | assumption | simpl in Hn; lia].
Qed.
End Elems.

(* ---------- a theory atom in front of "." : a fact whose head is that atom ---------- *)
Lemma p_stmt_fact p rest : pok p ->
  p_stmt (show p ++ s_dot ++ s_nl ++ rest) = Some (SRule false [p] (BNormal []), s_nl ++ rest).
Proof.
  intros Hp.
  pose (nm := [(1, show p)] : names_t). pose (nu := fun a : Z => if a =? 1 then p else PN (s_xpre ++ print_nat a)).
  assert (Hnu : forall a, 0 <= a -> pok (nu a) /\ name_of nm a = show (nu a)).
  { intros a Ha. unfold nu, nm, name_of. cbn [lookup]. destruct (a =? 1); [split; [exact Hp | reflexivity]|].
    split; [now apply xname_good | reflexivity]. }
  pose proof (d_rule nm nu Hnu 0 [1] (WNormal []) rest ltac:(repeat constructor; lia) I) as E.
  cbn [render_dir render_head render_body body_pre pre_list sep_list is_nil negb orb Z.eqb app stmt_of_dir map_stmt map body_of map_body] in E.
  unfold name_of, nm in E. cbn [lookup Z.eqb Pos.eqb] in E. rewrite app_nil_r in E. rewrite <- !app_assoc in E.
  unfold nu in E. cbn [Z.eqb Pos.eqb] in E. exact E.
Qed.
