(* C06 - lemmas about the reference parser's token level: whitespace, tokens, names, literals, numbers, lists. *)
Require Import V.Lib.Base V.Lib.Dec V.Gen.Consts_C06 V.C06.Model V.C06.RefParse.
Local Open Scope Z_scope.

Definition nows (l : list Z) : Prop := match l with c :: _ => is_ws c = false | [] => False end.

Lemma skipws_nows l : nows l -> skipws l = l.
Proof. destruct l as [|c r]; simpl; [tauto|]. intros H. now rewrite H. Qed.

Lemma skipws_app c l : skipws c <> [] -> skipws (c ++ l) = skipws c ++ l.
Proof.
  induction c as [|x c IH]; simpl; [congruence|].
  destruct (is_ws x); [exact IH | reflexivity].
Qed.

Lemma prefix_app p : forall x r l, prefix p x = Some r -> prefix p (x ++ l) = Some (r ++ l).
Proof.
  induction p as [|a p IH]; simpl; intros x r l H.
  - now inversion H.
  - destruct x as [|b x]; [discriminate|]. simpl. destruct (a =? b); [now apply IH | discriminate].
Qed.

(* a token matched inside a constant piece of text *)
Lemma tok_const s c r l : s <> [] -> prefix s (skipws c) = Some r -> tok s (c ++ l) = Some (tt, r ++ l).
Proof.
  intros Hs H. unfold tok. rewrite skipws_app.
  - now rewrite (prefix_app _ _ _ l H).
  - intro E. rewrite E in H. destruct s; [congruence | discriminate].
Qed.

Fixpoint mism (p l : list Z) : bool :=
  match p, l with a :: p', b :: l' => if a =? b then mism p' l' else true | _, _ => false end.
Lemma prefix_mism p : forall x l, mism p x = true -> prefix p (x ++ l) = None.
Proof.
  induction p as [|a p IH]; simpl; intros x l H; [discriminate|].
  destruct x as [|b x]; [discriminate|]. simpl. destruct (a =? b); [now apply IH | reflexivity].
Qed.
(* a token refuted inside a constant piece of text *)
Lemma tok_none s c l : mism s (skipws c) = true -> tok s (c ++ l) = None.
Proof.
  intros H. unfold tok. rewrite skipws_app.
  - now rewrite (prefix_mism _ _ l H).
  - intro E. rewrite E in H. destruct s; discriminate.
Qed.
(* a token refuted by the first character *)
Lemma tok_none_hd a s c l : is_ws c = false -> a <> c -> tok (a :: s) (c :: l) = None.
Proof.
  intros Hc Hne. unfold tok. simpl. rewrite Hc. simpl. destruct (Z.eqb_spec a c); [contradiction | reflexivity].
Qed.
Lemma tok_nil_none a s : tok (a :: s) [] = None.
Proof. reflexivity. Qed.

Lemma tok_ws s c l : is_ws c = true -> tok s (c :: l) = tok s l.
Proof. intros H. unfold tok. simpl. now rewrite H. Qed.

(* ---------- names ---------- *)
Definition is_follow (c : Z) : bool := negb (is_ident_char c) && negb (c =? 40).
Definition nic (l : list Z) : Prop := match l with c :: _ => is_follow c = true | [] => True end.
Definition nid (l : list Z) : Prop := match l with c :: _ => is_ident_char c = false | [] => True end.
Definition nd (l : list Z) : Prop := match l with c :: _ => is_digit c = false | [] => True end.

Lemma nic_nid l : nic l -> nid l.
Proof. destruct l as [|c r]; [auto|]. unfold nic, nid, is_follow. intros H. apply andb_true_iff in H. destruct H as [H _]. now apply negb_true_iff in H. Qed.
Lemma nic_args l : nic l -> p_args l = Some ([], l).
Proof.
  destruct l as [|c r]; [reflexivity|]. unfold nic, is_follow, p_args. intros H. apply andb_true_iff in H. destruct H as [_ H].
  apply negb_true_iff in H. now rewrite H.
Qed.

Lemma span_all f a : forall l, forallb f a = true -> match l with c :: _ => f c = false | [] => True end -> span f (a ++ l) = (a, l).
Proof.
  induction a as [|x a IH]; intros l Ha Hl; simpl.
  - destruct l as [|c r]; [reflexivity|]. simpl. now rewrite Hl.
  - simpl in Ha. apply andb_true_iff in Ha. destruct Ha as [Hx Ha]. rewrite Hx, (IH l Ha Hl). reflexivity.
Qed.
Lemma span_spec f l : l = fst (span f l) ++ snd (span f l) /\ forallb f (fst (span f l)) = true /\
  match snd (span f l) with c :: _ => f c = false | [] => True end.
Proof.
  induction l as [|c r IH]; [simpl; auto|]. simpl. destruct (f c) eqn:E.
  - destruct (span f r) as [a b]. simpl in *. destruct IH as (I1 & I2 & I3). repeat split; [now rewrite I1 at 1 | now rewrite E, I2 | exact I3].
  - simpl. repeat split. exact E.
Qed.

Lemma name_start_nows c : is_name_start c = true -> is_ws c = false.
Proof. unfold is_name_start, is_lower, is_ws. lia. Qed.
Lemma digit_nows c : is_digit c = true -> is_ws c = false.
Proof. unfold is_digit, is_ws. lia. Qed.

Lemma p_ident_raw c a l : is_name_start c = true -> forallb is_ident_char a = true -> nid l ->
  p_ident (c :: a ++ l) = Some (c :: a, l).
Proof.
  intros Hc Ha Hl. unfold p_ident. simpl. rewrite (name_start_nows c Hc), Hc.
  rewrite (span_all is_ident_char a l Ha Hl). reflexivity.
Qed.

(* an argument list that scans to its end scans the same way in front of anything *)
Lemma scan_app l : forall d i e x, scan d i e l = Some (x, []) -> x = l /\ forall rest, scan d i e (l ++ rest) = Some (l, rest).
Proof.
  induction l as [|c r IH]; intros d i e x H; [discriminate|].
  assert (K : forall d' i' e', consr c (scan d' i' e' r) = Some (x, []) -> x = c :: r /\ forall rest, consr c (scan d' i' e' (r ++ rest)) = Some (c :: r, rest)).
  { intros d' i' e' Hc. unfold consr in Hc. destruct (scan d' i' e' r) as [[x' y']|] eqn:E; [|discriminate]. inversion Hc; subst.
    destruct (IH d' i' e' x' E) as [-> Hr]. split; [reflexivity|]. intros rest. now rewrite Hr. }
  cbn [scan app] in *. destruct i.
  - destruct e; [now apply K|]. destruct (c =? 92); [now apply K|]. destruct (c =? 34); now apply K.
  - destruct (c =? 34); [now apply K|]. destruct (c =? 40); [now apply K|]. destruct (c =? 41); [|now apply K].
    destruct d as [|[|d']]; [discriminate | | now apply K]. inversion H; subst. split; [reflexivity|]. intros rest. reflexivity.
Qed.

Lemma good_name_inv n : good_nameb n = true ->
  exists c i a, n = c :: i ++ a /\ is_name_start c = true /\ forallb is_ident_char i = true /\ list_eqb (c :: i) kw_not = false /\
                nid a /\ (a = [] \/ exists b, a = 40 :: b /\ forall rest, scan 1 false false (b ++ rest) = Some (b, rest)).
Proof.
  destruct n as [|c r]; [discriminate|]. cbn [good_nameb]. intros H. apply andb_true_iff in H. destruct H as [Hc H].
  destruct (span_spec is_ident_char r) as (S1 & S2 & S3). destruct (span is_ident_char r) as [i a]. cbn [fst snd] in *.
  apply andb_true_iff in H. destruct H as [Hn Ha]. apply negb_true_iff in Hn.
  exists c, i, a. split; [now rewrite S1 at 1|]. repeat split; try assumption.
  destruct a as [|x b]; [now left|]. right. cbn [args_okb] in Ha. apply andb_true_iff in Ha. destruct Ha as [Hx Hs].
  apply Z.eqb_eq in Hx. subst x. exists b. split; [reflexivity|].
  destruct (scan 1 false false b) as [[x y]|] eqn:E; [|discriminate]. destruct y; [|discriminate].
  destruct (scan_app b 1%nat false false x E) as [_ Hr]. exact Hr.
Qed.

Lemma p_name0_spec n l : good_nameb n = true -> nic l -> p_name0 (n ++ l) = Some (n, l).
Proof.
  intros H Hl. destruct (good_name_inv n H) as (c & i & a & -> & Hc & Hi & Hk & Ha & Hargs).
  unfold p_name0, bnd. cbn [app]. rewrite <- app_assoc.
  rewrite (p_ident_raw c i (a ++ l) Hc Hi); [|destruct a; [now apply nic_nid | exact Ha]].
  rewrite Hk. destruct Hargs as [-> | (b & -> & Hs)].
  - cbn [app]. rewrite (nic_args l Hl). unfold ret. now rewrite app_nil_r.
  - cbn [app p_args]. change (40 =? 40) with true. cbv iota. rewrite Hs. reflexivity.
Qed.
Lemma p_ident_blank l : p_ident (32 :: l) = p_ident l.
Proof. reflexivity. Qed.
Lemma p_name0_blank l : p_name0 (32 :: l) = p_name0 l.
Proof. reflexivity. Qed.

Lemma good_name_hd n : good_nameb n = true -> exists c r, n = c :: r /\ is_name_start c = true.
Proof. intros H. destruct (good_name_inv n H) as (c & i & a & -> & Hc & _). exists c, (i ++ a). auto. Qed.

Lemma good_name_nows n l : good_nameb n = true -> nows (n ++ l).
Proof. intros H. destruct (good_name_hd n H) as (c & a & -> & Hc). simpl. now apply name_start_nows. Qed.

Lemma tok_none_name a s n l : good_nameb n = true -> is_name_start a = false -> tok (a :: s) (n ++ l) = None.
Proof.
  intros H Ha. destruct (good_name_hd n H) as (c & r & -> & Hc). simpl.
  apply tok_none_hd; [now apply name_start_nows | congruence].
Qed.

(* ---------- literals ---------- *)
Lemma s_not_eq : s_not = kw_not ++ [32].
Proof. reflexivity. Qed.

Lemma p_lit0_spec nm z l : good_nameb (name_of nm (Z.abs z)) = true -> nic l ->
  p_lit0 (print_lit nm z ++ l) = Some ((z <? 0, name_of nm (Z.abs z)), l).
Proof.
  intros H Hl. unfold print_lit. destruct (z <? 0).
  - rewrite s_not_eq. unfold kw_not. cbn [app]. unfold p_lit0, bnd.
    pose proof (p_ident_raw 110 [111; 116] (32 :: name_of nm (Z.abs z) ++ l) eq_refl eq_refl eq_refl) as E.
    cbn [app] in E. rewrite E. clear E.
    change (list_eqb [110; 111; 116] kw_not) with true. cbv beta iota.
    rewrite p_name0_blank, (p_name0_spec _ l H Hl). reflexivity.
  - cbn [app]. pose proof (p_name0_spec _ l H Hl) as E. unfold p_name0, bnd in E. unfold p_lit0, bnd.
    destruct (p_ident (name_of nm (Z.abs z) ++ l)) as [[n r]|]; [|discriminate].
    destruct (list_eqb n kw_not); [discriminate|]. destruct (p_args r) as [[a r']|]; [|discriminate].
    unfold ret in *. inversion E; subst. reflexivity.
Qed.
Lemma p_lit0_blank l : p_lit0 (32 :: l) = p_lit0 l.
Proof. reflexivity. Qed.

Lemma print_lit_nows nm z l : good_nameb (name_of nm (Z.abs z)) = true -> nows (print_lit nm z ++ l).
Proof.
  intros H. unfold print_lit. destruct (z <? 0); [reflexivity|]. cbn [app]. now apply good_name_nows.
Qed.
Lemma tok_none_lit a s nm z l : good_nameb (name_of nm (Z.abs z)) = true -> is_name_start a = false ->
  tok (a :: s) (print_lit nm z ++ l) = None.
Proof.
  intros H Ha. unfold print_lit. destruct (z <? 0).
  - cbn [app]. change s_not with [110; 111; 116; 32]. cbn [app]. apply tok_none_hd; [reflexivity|].
    intro E. subst a. discriminate.
  - cbn [app]. now apply tok_none_name.
Qed.

(* ---------- numbers ---------- *)
Lemma all_digits_forallb d : all_digits d -> forallb is_digit d = true.
Proof. induction 1 as [|c r Hc Hr IH]; simpl; [reflexivity|]. now rewrite Hc, IH. Qed.

Lemma p_digits_spec n l : 0 <= n -> nd l -> p_digits (print_nat n ++ l) = Some (n, l).
Proof.
  intros Hn Hl. unfold p_digits.
  rewrite (span_all is_digit (print_nat n) l (all_digits_forallb _ (print_nat_digits n Hn)) Hl).
  pose proof (print_nat_nonempty n Hn) as Hne. pose proof (value_print_nat n Hn) as Hv.
  destruct (print_nat n) as [|d ds]; [congruence|]. now rewrite Hv.
Qed.

Lemma print_nat_hd n : 0 <= n -> exists d ds, print_nat n = d :: ds /\ is_digit d = true.
Proof.
  intros Hn. pose proof (print_nat_hd_digit n Hn) as H. pose proof (print_nat_nonempty n Hn) as Hne.
  destruct (print_nat n) as [|d ds]; [congruence|]. exists d, ds. split; [reflexivity | exact H].
Qed.

Lemma p_nat_spec n l : 0 <= n -> nd l -> p_nat (print_nat n ++ l) = Some (n, l).
Proof.
  intros Hn Hl. unfold p_nat. destruct (print_nat_hd n Hn) as (d & ds & E & Hd).
  rewrite skipws_nows; [now apply p_digits_spec|]. rewrite E. simpl. now apply digit_nows.
Qed.

Lemma p_int_spec z l : nd l -> p_int (print_Z z ++ l) = Some (z, l).
Proof.
  intros Hl. unfold p_int, print_Z. destruct (Z.ltb_spec z 0) as [Hz|Hz].
  - cbn [app skipws]. change (is_ws 45) with false. cbv iota. change (45 =? 45) with true. cbv iota.
    rewrite (p_digits_spec (- z) l ltac:(lia) Hl). f_equal. f_equal. lia.
  - destruct (print_nat_hd z Hz) as (d & ds & E & Hd).
    assert (Hs : skipws (print_nat z ++ l) = d :: ds ++ l).
    { rewrite E. cbn [app skipws]. now rewrite (digit_nows d Hd). }
    rewrite Hs. assert (d =? 45 = false) as -> by (unfold is_digit in Hd; lia).
    change (d :: ds ++ l) with ((d :: ds) ++ l). rewrite <- E. now apply p_digits_spec.
Qed.
Lemma p_int_blank l : p_int (32 :: l) = p_int l.
Proof. reflexivity. Qed.

Lemma print_Z_hd z : exists c r, print_Z z = c :: r /\ is_ws c = false /\ is_name_start c = false /\ (is_digit c || (c =? 45)) = true.
Proof.
  unfold print_Z. destruct (Z.ltb_spec z 0) as [Hz|Hz].
  - exists 45, (print_nat (- z)). repeat split.
  - destruct (print_nat_hd z Hz) as (d & ds & E & Hd). exists d, ds. rewrite E.
    repeat split; unfold is_digit, is_ws, is_name_start, is_lower in *; lia.
Qed.

(* keyword tables decided inside a constant piece of text *)
Fixpoint kw_dec (tab : list (Z * list Z)) (c : list Z) : option (Z * list Z) :=
  match tab with
  | [] => None
  | (v, s) :: r =>
      match s with
      | [] => None
      | _ => match prefix s (skipws c) with
             | Some x => Some (v, x)
             | None => if mism s (skipws c) then kw_dec r c else None
             end
      end
  end.
Lemma p_kw_const tab : forall c v r l, kw_dec tab c = Some (v, r) -> p_kw tab (c ++ l) = Some (v, r ++ l).
Proof.
  induction tab as [|[v0 s] tab IH]; intros c v r l H; [discriminate|].
  cbn [kw_dec] in H. cbn [p_kw]. destruct s as [|a s]; [discriminate|].
  destruct (prefix (a :: s) (skipws c)) as [x|] eqn:E.
  - inversion H; subst. rewrite (tok_const (a :: s) c r l); [reflexivity | discriminate | exact E].
  - destruct (mism (a :: s) (skipws c)) eqn:M; [|discriminate].
    rewrite (tok_none (a :: s) c l M). now apply IH.
Qed.

(* ---------- separated lists ---------- *)
Lemma sep_list_cons {A} (f : A -> list Z) sep x y r :
  sep_list f sep (x :: y :: r) = f x ++ sep ++ sep_list f sep (y :: r).
Proof. reflexivity. Qed.

Lemma sep_list_len {A} (f : A -> list Z) (s : list Z) : (forall x, f x <> []) ->
  forall xs, (length xs <= length (sep_list f s xs))%nat.
Proof.
  intros Hfne. induction xs as [|x xs IH]; [simpl; lia|]. destruct xs as [|y r].
  - simpl. specialize (Hfne x). destruct (f x); [congruence | simpl; lia].
  - rewrite sep_list_cons, !app_length. specialize (Hfne x). destruct (f x); [congruence|]. simpl in *. lia.
Qed.

Section SepList.
Context {A B : Type} (p : parser B) (f : A -> list Z) (g : A -> B) (sep pad : list Z) (ok : list Z -> Prop).
Hypothesis Hsep : sep <> [].
Hypothesis Hsepws : nows sep.
Hypothesis Hpad : forall l, p (pad ++ l) = p l.
Hypothesis Hoksep : forall l, ok (sep ++ pad ++ l).

Lemma tok_sep_self l : tok sep (sep ++ l) = Some (tt, l).
Proof.
  rewrite (tok_const sep sep [] l Hsep).
  - reflexivity.
  - rewrite skipws_nows by exact Hsepws. clear. induction sep as [|a s IH]; simpl; [reflexivity|]. now rewrite Z.eqb_refl.
Qed.

Lemma p_sep1_pad fuel l : p_sep1 fuel p sep (pad ++ l) = p_sep1 fuel p sep l.
Proof. destruct fuel; simpl; [reflexivity|]. now rewrite Hpad. Qed.

Lemma p_sep1_spec xs : xs <> [] ->
  (forall x, In x xs -> forall l, ok l -> p (f x ++ l) = Some (g x, l)) ->
  forall rest fuel, ok rest -> tok sep rest = None -> (length xs <= fuel)%nat ->
  p_sep1 fuel p sep (sep_list f (sep ++ pad) xs ++ rest) = Some (map g xs, rest).
Proof.
  induction xs as [|x xs IH]; intros Hne Hp rest fuel Hok Hend Hf; [congruence|].
  destruct fuel as [|fu]; [simpl in Hf; lia|].
  destruct xs as [|y r].
  - cbn [sep_list p_sep1 map]. rewrite (Hp x (or_introl eq_refl) rest Hok), Hend. reflexivity.
  - rewrite sep_list_cons. rewrite <- !app_assoc. cbn [p_sep1].
    rewrite (Hp x (or_introl eq_refl)) by apply Hoksep.
    rewrite tok_sep_self. rewrite p_sep1_pad.
    rewrite IH; [reflexivity | discriminate | | exact Hok | exact Hend | simpl in *; lia].
    intros z Hz. apply Hp. now right.
Qed.

Hypothesis Hfne : forall x, f x <> [].

Lemma p_list1_spec xs rest : xs <> [] ->
  (forall x, In x xs -> forall l, ok l -> p (f x ++ l) = Some (g x, l)) ->
  ok rest -> tok sep rest = None ->
  p_list1 p sep (sep_list f (sep ++ pad) xs ++ rest) = Some (map g xs, rest).
Proof.
  intros Hne Hp Hok Hend. unfold p_list1. apply p_sep1_spec; try assumption.
  rewrite app_length. pose proof (sep_list_len f (sep ++ pad) Hfne xs). lia.
Qed.

Lemma p_list0_spec close xs rest :
  (forall x, In x xs -> forall l, ok l -> p (f x ++ l) = Some (g x, l)) ->
  (forall x, In x xs -> forall l, tok close (f x ++ l) = None) ->
  ok rest -> tok sep rest = None -> (exists r, tok close rest = Some (tt, r)) ->
  p_list0 p sep close (sep_list f (sep ++ pad) xs ++ rest) = Some (map g xs, rest).
Proof.
  intros Hp Hc Hok Hend [r Hr]. unfold p_list0. destruct xs as [|x xs].
  - cbn [sep_list app map]. now rewrite Hr.
  - assert (E : tok close (sep_list f (sep ++ pad) (x :: xs) ++ rest) = None).
    { destruct xs as [|y q]; [cbn [sep_list] | rewrite sep_list_cons, <- !app_assoc]; apply Hc; now left. }
    rewrite E. apply p_list1_spec; try assumption. discriminate.
Qed.
End SepList.
