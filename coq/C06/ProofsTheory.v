(* C06 - the writer's theory tables: the term structure (Spec.tree_of) is what TheoryAtomStringBuilder spells (Model.term_str),
   the fuel |terms|+1 suffices for every referentially consistent acyclic term, and what visitTheories does to names / output. *)
Require Import V.Lib.Base V.Lib.Calls V.Lib.Dec V.Gen.Consts_C06 V.C06.Model V.C06.RefParse V.C06.Spec V.C06.ProofsLex V.C06.ProofsTerm.
Local Open Scope Z_scope.

(* ---------- map_res / map_opt ---------- *)
Lemma map_res_opt {A B} (f : A -> res (list Z)) (g : A -> option B) (sh : B -> list Z) l :
  (forall x y, In x l -> g x = Some y -> f x = Ok (sh y)) ->
  forall ys, map_opt g l = Some ys -> map_res f l = Ok (map sh ys).
Proof.
  induction l as [|x l IH]; intros H ys E; cbn [map_opt map_res] in *.
  - inversion E. reflexivity.
  - destruct (g x) as [y|] eqn:Ex; [|discriminate]. destruct (map_opt g l) as [ys'|] eqn:El; [|discriminate]. inversion E; subst.
    rewrite (H x y (or_introl eq_refl) Ex). cbn [bind]. rewrite (IH (fun x0 y0 Hx => H x0 y0 (or_intror Hx)) ys' eq_refl). reflexivity.
Qed.
Lemma map_opt_ext {A B} (f g : A -> option B) l : (forall x, In x l -> f x = g x) -> map_opt f l = map_opt g l.
Proof.
  induction l as [|x l IH]; intros H; [reflexivity|]. cbn [map_opt]. rewrite (H x (or_introl eq_refl)).
  rewrite (IH (fun y Hy => H y (or_intror Hy))). reflexivity.
Qed.
Lemma map_opt_mono {A B} (f g : A -> option B) l : (forall x y, In x l -> f x = Some y -> g x = Some y) ->
  forall ys, map_opt f l = Some ys -> map_opt g l = Some ys.
Proof.
  induction l as [|x l IH]; intros H ys E; cbn [map_opt] in *; [exact E|].
  destruct (f x) as [y|] eqn:Ex; [|discriminate]. destruct (map_opt f l) as [ys'|] eqn:El; [|discriminate].
  rewrite (H x y (or_introl eq_refl) Ex). rewrite (IH (fun x0 y0 Hx => H x0 y0 (or_intror Hx)) ys' eq_refl). exact E.
Qed.
Lemma map_opt_none {A B} (f : A -> option B) l : map_opt f l = None -> exists x, In x l /\ f x = None.
Proof.
  induction l as [|x l IH]; cbn [map_opt]; [discriminate|]. destruct (f x) eqn:Ex; [|intros _; exists x; split; [now left | exact Ex]].
  destruct (map_opt f l) eqn:El; [discriminate|]. intros _. destruct (IH eq_refl) as (y & Hy & E). exists y. split; [now right | exact E].
Qed.
Lemma map_opt_in {A B} (f : A -> option B) l ys x : map_opt f l = Some ys -> In x l -> exists y, f x = Some y /\ In y ys.
Proof.
  revert ys. induction l as [|z l IH]; intros ys E Hin; [contradiction|]. cbn [map_opt] in E.
  destruct (f z) as [y|] eqn:Ez; [|discriminate]. destruct (map_opt f l) as [ys'|] eqn:El; [|discriminate]. inversion E; subst.
  destruct Hin as [->|Hin]; [exists y; split; [assumption | now left]|].
  destruct (IH ys' eq_refl Hin) as (y' & E' & I'). exists y'. split; [assumption | now right].
Qed.
Lemma map_opt_out {A B} (f : A -> option B) l ys y : map_opt f l = Some ys -> In y ys -> exists x, In x l /\ f x = Some y.
Proof.
  revert ys. induction l as [|z l IH]; intros ys E Hin; cbn [map_opt] in E.
  - inversion E; subst. contradiction.
  - destruct (f z) as [y0|] eqn:Ez; [|discriminate]. destruct (map_opt f l) as [ys'|] eqn:El; [|discriminate]. inversion E; subst.
    destruct Hin as [->|Hin]; [exists z; split; [now left | exact Ez]|]. destruct (IH ys' eq_refl Hin) as (x & Hx & Ex). exists x. split; [now right | exact Ex].
Qed.

Lemma sep_list_ext {A} (f g : A -> list Z) sep l : (forall x, f x = g x) -> sep_list f sep l = sep_list g sep l.
Proof.
  intros H. induction l as [|x l IH]; [reflexivity|]. destruct l as [|y r]; [apply H|]. rewrite !sep_list_cons, IH, H. reflexivity.
Qed.

Section Terms.
Variable T : list (option tterm).

(* ---------- the spelling of a term is the canonical text of its structure ---------- *)
Lemma term_str_tree h : forall id t, tree_of T h id = Some t -> term_str T h id = Ok (show_t t).
Proof.
  induction h as [|f IH]; intros id t E; [discriminate|]. cbn [tree_of term_str] in *.
  destruct (nth_opt T id) as [[n|s|base args]|]; try discriminate.
  - inversion E. reflexivity.
  - inversion E. reflexivity.
  - destruct (map_opt (tree_of T f) args) as [ts|] eqn:Ea; [|discriminate].
    pose proof (map_res_opt (term_str T f) (tree_of T f) show_t args (fun x y _ Hy => IH x y Hy) ts Ea) as Hargs.
    destruct (0 <=? base).
    + destruct (nth_opt T base) as [x|]; [|discriminate]. destruct (tree_of T f base) as [fx|] eqn:Eb; [|discriminate].
      rewrite (IH base fx Eb). cbn [bind].
      set (isop := match x with TSym s => is_op (hd 0 (cut0 s)) | _ => false end) in *.
      destruct args as [|a [|b [|c r]]]; cbn [map_opt] in Ea.
      * inversion Ea; subst. inversion E; subst. cbn [map_res bind map sep_list show_t app]. reflexivity.
      * destruct (tree_of T f a) as [ta|] eqn:E1; [|discriminate]. inversion Ea; subst.
        destruct isop; inversion E; subst.
        -- rewrite (IH a ta E1). reflexivity.
        -- rewrite Hargs. reflexivity.
      * destruct (tree_of T f a) as [ta|] eqn:E1; [|discriminate]. destruct (tree_of T f b) as [tb|] eqn:E2; [|discriminate]. inversion Ea; subst.
        destruct isop; inversion E; subst.
        -- rewrite (IH a ta E1), (IH b tb E2). reflexivity.
        -- rewrite Hargs. reflexivity.
      * destruct (tree_of T f a) as [ta|]; [|discriminate]. destruct (tree_of T f b) as [tb|]; [|discriminate].
        destruct (tree_of T f c) as [tc|]; [|discriminate]. destruct (map_opt (tree_of T f) r) as [tr|]; [|discriminate].
        inversion Ea; subst. inversion E; subst. destruct isop; rewrite Hargs; reflexivity.
    + destruct (assoc base tuple_parens) as [[o c]|] eqn:Ep; [|discriminate]. inversion E; subst.
      rewrite Hargs. cbn [bind show_t]. unfold bracket_of. rewrite Ep. reflexivity.
Qed.

(* ---------- more fuel never changes the result ---------- *)
Definition tree_step (rec : Z -> option ttree) (id : Z) : option ttree :=
  match nth_opt T id with
  | None => None
  | Some (TNum n) => Some (TN n)
  | Some (TSym s) => Some (TS (cut0 s))
  | Some (TComp base args) =>
      match map_opt rec args with
      | None => None
      | Some ts =>
          if 0 <=? base then
            match nth_opt T base, rec base with
            | Some x, Some fx =>
                let isop := match x with TSym s => is_op (hd 0 (cut0 s)) | _ => false end in
                match ts with
                | [a] => Some (if isop then TU (show_t fx) a else TF fx ts)
                | [a; b] => Some (if isop then TB (show_t fx) a b else TF fx ts)
                | _ => Some (TF fx ts)
                end
            | _, _ => None
            end
          else match assoc base tuple_parens with Some _ => Some (TT base ts) | None => None end
      end
  end.
Lemma tree_of_S f id : tree_of T (S f) id = tree_step (tree_of T f) id.
Proof. reflexivity. Qed.

Lemma tree_step_mono (r1 r2 : Z -> option ttree) : (forall x y, r1 x = Some y -> r2 x = Some y) ->
  forall id t, tree_step r1 id = Some t -> tree_step r2 id = Some t.
Proof.
  intros Hr id t E. unfold tree_step in *.
  destruct (nth_opt T id) as [[n|s|base args]|]; try discriminate; try exact E.
  destruct (map_opt r1 args) as [ts|] eqn:Ea; [|discriminate].
  rewrite (map_opt_mono r1 r2 args (fun x y _ Hy => Hr x y Hy) ts Ea).
  destruct (0 <=? base); [|exact E].
  destruct (nth_opt T base) as [x|]; [|discriminate]. destruct (r1 base) as [fx|] eqn:Eb; [|discriminate].
  rewrite (Hr base fx Eb). exact E.
Qed.

Lemma tree_of_mono h : forall id t, tree_of T h id = Some t -> tree_of T (S h) id = Some t.
Proof.
  induction h as [|f IH]; intros id t E; [discriminate|]. rewrite tree_of_S in *.
  now apply (tree_step_mono (tree_of T f) (tree_of T (S f)) IH).
Qed.
Lemma tree_of_mono_le h h' id t : (h <= h')%nat -> tree_of T h id = Some t -> tree_of T h' id = Some t.
Proof. induction 1 as [|m Hm IH]; intros E; [exact E|]. apply tree_of_mono. now apply IH. Qed.

(* ---------- |T|+1 units of fuel unfold every consistent acyclic term ---------- *)
Definition child (id c : Z) : Prop :=
  exists base args, nth_opt T id = Some (TComp base args) /\ (In c args \/ (c = base /\ 0 <= base)).

Lemma step_down H id t : tree_of T (S (S H)) id = Some t -> tree_of T (S H) id = None ->
  exists c, child id c /\ tree_of T (S H) c <> None /\ tree_of T H c = None.
Proof.
  intros E1 E0. rewrite tree_of_S in E1, E0. unfold tree_step in E1, E0.
  set (h := S H) in *.
  destruct (nth_opt T id) as [[n|s|base args]|] eqn:En; try discriminate.
  destruct (map_opt (tree_of T h) args) as [ts|] eqn:Ea; [|discriminate].
  destruct (map_opt (tree_of T H) args) as [ts0|] eqn:Ea0.
  - assert (ts0 = ts).
    { pose proof (map_opt_mono (tree_of T H) (tree_of T h) args (fun x y _ Hy => tree_of_mono H x y Hy) ts0 Ea0). congruence. }
    subst ts0. destruct (0 <=? base) eqn:Eb.
    + destruct (nth_opt T base) as [x|]; [|discriminate]. destruct (tree_of T h base) as [fx|] eqn:Efx; [|discriminate].
      destruct (tree_of T H base) as [fx0|] eqn:Efx0.
      * exfalso. pose proof (tree_of_mono H base fx0 Efx0) as M. assert (fx0 = fx) by (unfold h in *; congruence). subst fx0.
        destruct ts as [|a [|b [|c r]]]; discriminate.
      * exists base. split; [exists base, args; split; [exact En | right; split; [reflexivity | lia]]|]. split; [rewrite Efx; discriminate | exact Efx0].
    + destruct (assoc base tuple_parens); discriminate.
  - destruct (map_opt_none _ _ Ea0) as (c & Hc & Ec). exists c. split; [exists base, args; split; [exact En | now left]|].
    destruct (map_opt_in _ _ _ c Ea Hc) as (y & Ey & _). split; [rewrite Ey; discriminate | exact Ec].
Qed.

Lemma valid_id id : nth_opt T id <> None -> 0 <= id /\ (Z.to_nat id < length T)%nat.
Proof.
  unfold nth_opt. destruct (Z.ltb_spec id 0); [congruence|]. intros H0. split; [assumption|].
  destruct (nth_error T (Z.to_nat id)) eqn:E; [|congruence]. apply nth_error_Some. congruence.
Qed.

Lemma chain H : forall id, tree_of T (S H) id <> None -> tree_of T H id = None ->
  exists l, length l = S H /\ NoDup l /\ forall x, In x l -> tree_of T (S H) x <> None.
Proof.
  induction H as [|H IH]; intros id E1 E0.
  - exists [id]. split; [reflexivity|]. split; [repeat constructor; intros []|]. intros x [<-|[]]. exact E1.
  - destruct (tree_of T (S (S H)) id) as [t|] eqn:Et; [|congruence].
    destruct (step_down H id t Et E0) as (c & _ & C1 & C0).
    destruct (IH c C1 C0) as (l & L1 & L2 & L3). exists (id :: l). split; [simpl; lia|]. split.
    + constructor; [|exact L2]. intros Hin. now apply (L3 id Hin).
    + intros x [<-|Hx]; [congruence|]. specialize (L3 x Hx). destruct (tree_of T (S H) x) as [tx|] eqn:Ex; [|congruence].
      rewrite (tree_of_mono (S H) x tx Ex). discriminate.
Qed.

Lemma height_bound H id : tree_of T (S H) id <> None -> tree_of T H id = None -> (S H <= length T)%nat.
Proof.
  intros E1 E0. destruct (chain H id E1 E0) as (l & L1 & L2 & L3). rewrite <- L1.
  replace (length T) with (length (map Z.of_nat (seq 0 (length T)))) by (now rewrite map_length, seq_length).
  apply NoDup_incl_length; [exact L2|]. intros x Hx.
  assert (V : nth_opt T x <> None).
  { specialize (L3 x Hx). rewrite tree_of_S in L3. unfold tree_step in L3. destruct (nth_opt T x); congruence. }
  destruct (valid_id x V) as [V1 V2]. apply in_map_iff. exists (Z.to_nat x). split; [lia|]. apply in_seq. lia.
Qed.

Lemma tree_of_bound h : forall id t, tree_of T h id = Some t -> tree_of T (S (length T)) id = Some t.
Proof.
  induction h as [|H IH]; intros id t E; [discriminate|].
  destruct (tree_of T H id) as [t0|] eqn:E0.
  - pose proof (tree_of_mono H id t0 E0) as M. assert (t0 = t) by congruence. subst. now apply IH.
  - assert (S H <= length T)%nat by (apply (height_bound H id); congruence).
    apply (tree_of_mono_le (S H)); [lia | exact E].
Qed.

(* the fuel of the model suffices: no Fault for a consistent acyclic term *)
Lemma fuel_sufficient id : acyclic_term T id ->
  exists t, tree_of T (S (length T)) id = Some t /\ term_str T (S (length T)) id = Ok (show_t t).
Proof. intros (h & t & E). exists t. pose proof (tree_of_bound h id t E) as B. split; [exact B | now apply term_str_tree]. Qed.
End Terms.

(* ---------- elements and atoms ---------- *)
Lemma print_lit_lit0 nm z : print_lit nm z = show_lit0 (lit0_of nm z).
Proof. reflexivity. Qed.

Lemma elem_str_of s nm fuel id e : elem_of s nm fuel id = Some e -> elem_str s nm fuel id = Ok (show_elem e).
Proof.
  unfold elem_of, elem_str. destruct (nth_opt (elems s) id) as [el|]; [|discriminate].
  destruct (map_opt (tree_of (terms s) fuel) (te_terms el)) as [ts|] eqn:Et; [|discriminate].
  rewrite (map_res_opt (term_str (terms s) fuel) (tree_of (terms s) fuel) show_t (te_terms el) (fun x y _ Hy => term_str_tree (terms s) fuel x y Hy) ts Et).
  cbn [bind]. destruct (te_cond el =? 0).
  - intros E. inversion E; subst. unfold show_elem. cbn [fst snd]. reflexivity.
  - destruct (get_condition (conds s) (te_cond el)) as [|c0 c]; [discriminate|]. intros E. inversion E; subst.
    unfold show_elem. cbn [fst snd map]. rewrite <- (map_cons (lit0_of nm) c0 c). rewrite (sep_list_map show_lit0 (lit0_of nm)).
    reflexivity.
Qed.

Lemma atom_str_of s nm a ta : tatom_of s nm a = Some ta -> atom_str s nm a = Ok (show_ta ta).
Proof.
  unfold tatom_of, atom_str. set (fuel := S (length (terms s))).
  destruct (tree_of (terms s) fuel (ta_term a)) as [n|] eqn:En; [|discriminate].
  destruct (map_opt (elem_of s nm fuel) (ta_elems a)) as [es|] eqn:Ee; [|discriminate].
  rewrite (term_str_tree (terms s) fuel _ n En). cbn [bind].
  rewrite (map_res_opt (elem_str s nm fuel) (elem_of s nm fuel) show_elem (ta_elems a) (fun x y _ Hy => elem_str_of s nm fuel x y Hy) es Ee).
  cbn [bind]. destruct (ta_guard a) as [[o r]|].
  - destruct (tree_of (terms s) fuel o) as [to|] eqn:Eo; [|discriminate]. destruct (tree_of (terms s) fuel r) as [tr|] eqn:Er; [|discriminate].
    intros E. inversion E; subst. rewrite (term_str_tree (terms s) fuel _ to Eo), (term_str_tree (terms s) fuel _ tr Er). cbn [bind].
    unfold show_ta. cbn [tt_name tt_elems tt_guard]. reflexivity.
  - intros E. inversion E; subst. cbn [bind]. unfold show_ta. cbn [tt_name tt_elems tt_guard]. reflexivity.
Qed.

(* the structure of an atom depends on the name table only through the atoms of its element conditions *)
Lemma name_of_lookup nm nm' a : lookup a nm = lookup a nm' -> name_of nm a = name_of nm' a.
Proof. unfold name_of. now intros ->. Qed.
Lemma elem_of_ext s nm nm' fuel id : (forall z, In z (elem_cond s id) -> lookup (Z.abs z) nm = lookup (Z.abs z) nm') ->
  elem_of s nm fuel id = elem_of s nm' fuel id.
Proof.
  unfold elem_of, elem_cond. destruct (nth_opt (elems s) id) as [el|]; [|reflexivity].
  destruct (map_opt (tree_of (terms s) fuel) (te_terms el)); [|reflexivity].
  destruct (te_cond el =? 0); [reflexivity|]. intros H.
  destruct (get_condition (conds s) (te_cond el)) as [|c0 c] eqn:Ec; [reflexivity|]. f_equal. f_equal.
  apply map_ext_in. intros z Hz. unfold lit0_of. f_equal. apply name_of_lookup. now apply H.
Qed.
Lemma tatom_of_ext s nm nm' a :
  (forall e z, In e (ta_elems a) -> In z (elem_cond s e) -> lookup (Z.abs z) nm = lookup (Z.abs z) nm') ->
  tatom_of s nm a = tatom_of s nm' a.
Proof.
  intros H. unfold tatom_of.
  rewrite (map_opt_ext (elem_of s nm (S (length (terms s)))) (elem_of s nm' (S (length (terms s)))) (ta_elems a)); [reflexivity|].
  intros e He. apply elem_of_ext. intros z Hz. now apply (H e z).
Qed.

(* ---------- visitTheories ---------- *)
Section Visit.
Variable s : wst.
Variable nm1 : names_t.
Fixpoint tn (l : list tatom) (acc : names_t) : names_t :=
  match l with
  | [] => acc
  | a :: r => if ta_atom a =? 0 then tn r acc else tn r ((ta_atom a, show_ta (tat s nm1 a)) :: acc)
  end.
Fixpoint tx (l : list tatom) : list Z :=
  match l with
  | [] => []
  | a :: r => (if ta_atom a =? 0 then show_ta (tat s nm1 a) ++ s_theory_end else []) ++ tx r
  end.

Lemma lookup_app_notin (acc nm : names_t) a : ~ In a (map fst acc) -> lookup a (acc ++ nm) = lookup a nm.
Proof.
  induction acc as [|[b n] acc IH]; intros H; [reflexivity|]. cbn [app lookup]. cbn [map fst In] in H.
  destruct (Z.eqb_spec a b) as [->|]; [exfalso; apply H; now left|]. apply IH. intro Hc. apply H. now right.
Qed.

Definition cond_atoms (l : list tatom) : list Z :=
  flat_map (fun a => flat_map (fun e => map Z.abs (elem_cond s e)) (ta_elems a)) l.
Definition nz_atoms (l : list tatom) : list Z := filter (fun a => negb (a =? 0)) (map ta_atom l).

Lemma cond_atoms_in l a e z : In a l -> In e (ta_elems a) -> In z (elem_cond s e) -> In (Z.abs z) (cond_atoms l).
Proof.
  intros Ha He Hz. unfold cond_atoms. apply in_flat_map. exists a. split; [assumption|]. apply in_flat_map. exists e. split; [assumption|].
  now apply in_map.
Qed.

Lemma visit_spec : forall l acc o,
  (forall a, In a l -> tatom_of s nm1 a <> None) ->
  (forall c, In c (cond_atoms l) -> ~ In c (map fst acc) /\ ~ In c (nz_atoms l)) ->
  (forall a, In a (nz_atoms l) -> lookup a nm1 = None /\ ~ In a (map fst acc)) ->
  NoDup (nz_atoms l) ->
  visit s (acc ++ nm1) o l = (Ok (tn l acc ++ nm1), o ++ tx l).
Proof.
  induction l as [|a l IH]; intros acc o Hwf Hc Hnz Hnd.
  - cbn [visit tn tx]. now rewrite app_nil_r.
  - cbn [visit tn tx].
    assert (Hext : tatom_of s (acc ++ nm1) a = tatom_of s nm1 a).
    { apply tatom_of_ext. intros e z He Hz. apply lookup_app_notin. apply (Hc (Z.abs z)).
      apply (cond_atoms_in (a :: l) a e z); [now left | assumption | assumption]. }
    destruct (tatom_of s nm1 a) as [ta|] eqn:Eta; [|exfalso; now apply (Hwf a (or_introl eq_refl))].
    rewrite (atom_str_of s (acc ++ nm1) a ta) by (now rewrite Hext).
    assert (Etat : tat s nm1 a = ta) by (unfold tat; now rewrite Eta).
    assert (Hc' : forall acc' : names_t, (forall c, In c (map fst acc') -> In c (map fst acc) \/ (c = ta_atom a /\ ta_atom a <> 0)) ->
              forall c, In c (cond_atoms l) -> ~ In c (map fst acc') /\ ~ In c (nz_atoms l)).
    { intros acc' Hacc c Hcin. assert (Hcin' : In c (cond_atoms (a :: l))).
      { unfold cond_atoms in *. cbn [flat_map]. apply in_or_app. now right. }
      destruct (Hc c Hcin') as [C1 C2]. split.
      - intros Hin. destruct (Hacc c Hin) as [H1|[H1 H2]]; [now apply C1|]. apply C2. unfold nz_atoms. cbn [map filter].
        subst c. destruct (Z.eqb_spec (ta_atom a) 0); [contradiction|]. cbn [negb]. now left.
      - intros Hin. apply C2. unfold nz_atoms in *. cbn [map filter]. destruct (negb (ta_atom a =? 0)); [now right | assumption]. }
    destruct (Z.eqb_spec (ta_atom a) 0) as [E0|E0].
    + rewrite Etat.
      replace (o ++ (show_ta ta ++ s_theory_end) ++ tx l) with ((o ++ show_ta ta ++ s_theory_end) ++ tx l) by (now rewrite <- !app_assoc).
      assert (Enz : nz_atoms (a :: l) = nz_atoms l).
      { unfold nz_atoms. cbn [map filter]. rewrite E0. reflexivity. }
      apply IH.
      * intros b Hb. apply Hwf. now right.
      * apply Hc'. intros c Hcin. now left.
      * intros b Hb. apply Hnz. now rewrite Enz.
      * now rewrite Enz in Hnd.
    + assert (Enz : nz_atoms (a :: l) = ta_atom a :: nz_atoms l).
      { unfold nz_atoms. cbn [map filter]. destruct (Z.eqb_spec (ta_atom a) 0); [contradiction | reflexivity]. }
      rewrite Enz in Hnd. apply NoDup_cons_iff in Hnd. destruct Hnd as [Hnotin Hnd'].
      assert (Hn : has_name (acc ++ nm1) (ta_atom a) = false).
      { unfold has_name. destruct (Hnz (ta_atom a)) as [N1 N2]; [rewrite Enz; now left|]. rewrite lookup_app_notin by assumption. now rewrite N1. }
      rewrite Hn. rewrite Etat. cbn [app].
      change ((ta_atom a, show_ta ta) :: acc ++ nm1) with (((ta_atom a, show_ta ta) :: acc) ++ nm1).
      apply IH.
      * intros b Hb. apply Hwf. now right.
      * apply Hc'. intros c Hcin. cbn [map fst In] in Hcin. destruct Hcin as [<-|Hcin]; [right; split; [reflexivity | assumption] | now left].
      * intros b Hb. destruct (Hnz b) as [N1 N2]; [rewrite Enz; now right|]. split; [assumption|]. cbn [map fst In]. intros [<-|Hin]; [contradiction | now apply N2].
      * assumption.
Qed.

(* the final name table *)
Lemma tn_keys l : forall acc a, In a (map fst (tn l acc)) -> In a (map fst acc) \/ In a (nz_atoms l).
Proof.
  induction l as [|x l IH]; intros acc a H; [now left|]. cbn [tn] in H. unfold nz_atoms. cbn [map filter].
  destruct (Z.eqb_spec (ta_atom x) 0) as [E|E]; cbn [negb].
  - destruct (IH acc a H); [now left | now right].
  - destruct (IH _ a H) as [H1|H1]; [|right; now right]. cbn [map fst In] in H1. destruct H1 as [<-|H1]; [right; now left | now left].
Qed.
Lemma tn_lookup l : forall acc a, In a l -> ta_atom a <> 0 -> NoDup (nz_atoms l) -> ~ In (ta_atom a) (map fst acc) ->
  (forall b, In b l -> ta_atom b = ta_atom a -> b = a) ->
  lookup (ta_atom a) (tn l acc) = Some (show_ta (tat s nm1 a)).
Proof.
  induction l as [|x l IH]; intros acc a Hin Hnz Hnd Hacc Huniq; [contradiction|]. cbn [tn].
  unfold nz_atoms in Hnd. cbn [map filter] in Hnd.
  destruct (Z.eqb_spec (ta_atom x) 0) as [E|E]; cbn [negb] in Hnd.
  - destruct Hin as [->|Hin]; [contradiction|]. apply IH; try assumption. intros b Hb. apply Huniq. now right.
  - apply NoDup_cons_iff in Hnd. destruct Hnd as [Hnotin Hnd']. destruct Hin as [->|Hin].
    + (* the entry of a stays in front of everything added later *)
      clear IH Huniq. assert (G : forall l acc, ~ In (ta_atom a) (nz_atoms l) -> lookup (ta_atom a) acc = Some (show_ta (tat s nm1 a)) ->
                 lookup (ta_atom a) (tn l acc) = Some (show_ta (tat s nm1 a))).
      { clear. induction l as [|y l IH]; intros acc Hn Hl; [exact Hl|]. cbn [tn]. unfold nz_atoms in Hn. cbn [map filter] in Hn.
        destruct (Z.eqb_spec (ta_atom y) 0); cbn [negb] in Hn; [now apply IH|]. apply IH; [intro; apply Hn; now right|].
        cbn [lookup]. destruct (Z.eqb_spec (ta_atom a) (ta_atom y)) as [Ey|]; [exfalso; apply Hn; left; congruence | exact Hl]. }
      apply G; [exact Hnotin|]. cbn [lookup]. now rewrite Z.eqb_refl.
    + apply IH; try assumption.
      * cbn [map fst In]. intros [Ex|Hc]; [|contradiction].
        assert (x = a) by (apply Huniq; [now left | assumption]). subst x. apply Hnotin. unfold nz_atoms. apply filter_In. split; [now apply in_map|].
        destruct (Z.eqb_spec (ta_atom a) 0); [contradiction | reflexivity].
      * intros b Hb. apply Huniq. now right.
Qed.
End Visit.

Lemma tn_entries s nm1 l : forall acc a n, In (a, n) (tn s nm1 l acc) ->
  In (a, n) acc \/ exists b, In b l /\ ta_atom b <> 0 /\ a = ta_atom b /\ n = show_ta (tat s nm1 b).
Proof.
  induction l as [|x l IH]; intros acc a n H; [now left|]. cbn [tn] in H.
  destruct (Z.eqb_spec (ta_atom x) 0) as [E|E].
  - destruct (IH acc a n H) as [H1|(b & B1 & B2)]; [now left|]. right. exists b. split; [now right | exact B2].
  - destruct (IH _ a n H) as [H1|(b & B1 & B2)].
    + destruct H1 as [H1|H1]; [|now left]. inversion H1; subst. right. exists x. split; [now left|]. auto.
    + right. exists b. split; [now right | exact B2].
Qed.
Lemma lookup_in (nm : names_t) a n : lookup a nm = Some n -> In (a, n) nm.
Proof.
  induction nm as [|[b m] nm IH]; [discriminate|]. cbn [lookup]. destruct (Z.eqb_spec a b) as [->|].
  - intros H. inversion H; subst. now left.
  - intros H. right. now apply IH.
Qed.
Lemma lookup_app_l (acc nm : names_t) a n : lookup a acc = Some n -> lookup a (acc ++ nm) = Some n.
Proof.
  induction acc as [|[b m] acc IH]; [discriminate|]. cbn [app lookup]. destruct (a =? b); [auto | exact IH].
Qed.
Lemma lookup_app_cases (acc nm : names_t) a : lookup a (acc ++ nm) = match lookup a acc with Some n => Some n | None => lookup a nm end.
Proof.
  induction acc as [|[b m] acc IH]; [reflexivity|]. cbn [app lookup]. destruct (a =? b); [reflexivity | exact IH].
Qed.
Lemma lookup_none_keys (acc : names_t) a : ~ In a (map fst acc) -> lookup a acc = None.
Proof.
  induction acc as [|[b m] acc IH]; [reflexivity|]. cbn [map fst In lookup]. intros H.
  destruct (Z.eqb_spec a b) as [->|]; [exfalso; apply H; now left|]. apply IH. intro. apply H. now right.
Qed.

Lemma nz_uniq (l : list tatom) : NoDup (filter (fun a => negb (a =? 0)) (map ta_atom l)) ->
  forall a b, In a l -> In b l -> ta_atom b = ta_atom a -> ta_atom a <> 0 -> b = a.
Proof.
  induction l as [|x l IH]; intros Hnd a b Ha Hb E Hz; [contradiction|]. cbn [map filter] in Hnd.
  assert (Hin : forall y, In y l -> ta_atom y <> 0 -> In (ta_atom y) (filter (fun a => negb (a =? 0)) (map ta_atom l))).
  { intros y Hy Hy0. apply filter_In. split; [now apply in_map|]. destruct (Z.eqb_spec (ta_atom y) 0); [contradiction | reflexivity]. }
  destruct (Z.eqb_spec (ta_atom x) 0) as [E0|E0]; cbn [negb] in Hnd.
  - destruct Ha as [->|Ha]; [contradiction|]. destruct Hb as [->|Hb]; [congruence|]. now apply IH.
  - apply NoDup_cons_iff in Hnd. destruct Hnd as [Hn Hnd]. destruct Ha as [->|Ha]; destruct Hb as [->|Hb]; try reflexivity.
    + exfalso. apply Hn. rewrite <- E. apply Hin; [assumption | congruence].
    + exfalso. apply Hn. rewrite E. now apply Hin.
    + now apply IH.
Qed.

(* consistent acyclic data unfolds with the fuel the writer's model uses *)
Lemma map_opt_some {A B} (f : A -> option B) l : (forall x, In x l -> f x <> None) -> exists ys, map_opt f l = Some ys.
Proof.
  induction l as [|x l IH]; intros H; [now exists []|]. cbn [map_opt].
  destruct (f x) as [y|] eqn:E; [|exfalso; now apply (H x (or_introl eq_refl))].
  destruct (IH (fun z Hz => H z (or_intror Hz))) as (ys & ->). now exists (y :: ys).
Qed.
Lemma tatom_consistent_of s nm a : tatom_consistent s a -> exists ta, tatom_of s nm a = Some ta.
Proof.
  intros (Hn & He & Hg). unfold tatom_of.
  destruct Hn as (h & tn0 & En). rewrite (tree_of_bound (terms s) h _ tn0 En).
  assert (Hes : exists es, map_opt (elem_of s nm (S (length (terms s)))) (ta_elems a) = Some es).
  { apply map_opt_some. intros e Hin. destruct (He e Hin) as (el & E1 & E2 & E3). unfold elem_of. rewrite E1.
    assert (Hts : exists ts, map_opt (tree_of (terms s) (S (length (terms s)))) (te_terms el) = Some ts).
    { apply map_opt_some. intros t Ht. destruct (E2 t Ht) as (h' & t' & Et). rewrite (tree_of_bound (terms s) h' _ t' Et). discriminate. }
    destruct Hts as (ts & ->). destruct (Z.eqb_spec (te_cond el) 0); [discriminate|].
    destruct E3 as [E3|E3]; [contradiction|]. destruct (get_condition (conds s) (te_cond el)); [congruence | discriminate]. }
  destruct Hes as (es & ->). destruct (ta_guard a) as [[o r]|]; [|eexists; reflexivity].
  destruct (Hg o r eq_refl) as [(h1 & t1 & E1) (h2 & t2 & E2)].
  rewrite (tree_of_bound (terms s) h1 _ t1 E1), (tree_of_bound (terms s) h2 _ t2 E2). eexists; reflexivity.
Qed.
Lemma tatom_of_any s nm nm' a : tatom_of s nm a <> None -> tatom_of s nm' a <> None.
Proof.
  unfold tatom_of. destruct (tree_of (terms s) (S (length (terms s))) (ta_term a)); [|congruence].
  intros H.
  assert (Hes : exists es, map_opt (elem_of s nm' (S (length (terms s)))) (ta_elems a) = Some es).
  { apply map_opt_some. intros e Hin.
    destruct (map_opt (elem_of s nm (S (length (terms s)))) (ta_elems a)) as [es|] eqn:Ee; [|congruence].
    destruct (map_opt_in _ _ _ e Ee Hin) as (y & Ey & _). unfold elem_of in *.
    destruct (nth_opt (elems s) e) as [el|]; [|discriminate]. destruct (map_opt (tree_of (terms s) (S (length (terms s)))) (te_terms el)); [|discriminate].
    destruct (te_cond el =? 0); [discriminate|]. destruct (get_condition (conds s) (te_cond el)); [discriminate | discriminate]. }
  destruct Hes as (es' & ->).
  destruct (map_opt (elem_of s nm (S (length (terms s)))) (ta_elems a)); [|congruence].
  destruct (ta_guard a) as [[o r]|]; [|discriminate].
  destruct (tree_of (terms s) (S (length (terms s))) o); [|congruence]. destruct (tree_of (terms s) (S (length (terms s))) r); [discriminate | congruence].
Qed.

(* visitTheories never raises on a valid frame *)
Lemma visit_total s nm0 : forall l nm o,
  (forall a, In a l -> tatom_of s nm0 a <> None) ->
  (forall a, In a (nz_atoms l) -> lookup a nm = None) -> NoDup (nz_atoms l) ->
  exists nm' o', visit s nm o l = (Ok nm', o').
Proof.
  induction l as [|a l IH]; intros nm o Hwf Hnz Hnd; [cbn [visit]; eauto|]. cbn [visit].
  destruct (tatom_of s nm a) as [ta|] eqn:Eta; [|exfalso; apply (tatom_of_any s nm0 nm a); [apply Hwf; now left | exact Eta]].
  rewrite (atom_str_of s nm a ta Eta). unfold nz_atoms in *. cbn [map filter] in *.
  destruct (Z.eqb_spec (ta_atom a) 0) as [E0|E0]; cbn [negb] in *.
  - apply IH; [intros b Hb; apply Hwf; now right | assumption | assumption].
  - apply NoDup_cons_iff in Hnd. destruct Hnd as [Hn Hnd].
    assert (Hh : has_name nm (ta_atom a) = false) by (unfold has_name; rewrite (Hnz (ta_atom a) (or_introl eq_refl)); reflexivity).
    rewrite Hh. apply IH; [intros b Hb; apply Hwf; now right | | assumption].
    intros b Hb. cbn [lookup]. destruct (Z.eqb_spec b (ta_atom a)) as [->|]; [contradiction|]. apply Hnz. now right.
Qed.
