(* C06 - the reference parser reads back the canonical spelling (Spec.show) of every unambiguous theory term / theory atom. *)
Require Import V.Lib.Base V.Lib.Dec V.Gen.Consts_C06 V.C06.Model V.C06.RefParse V.C06.Spec V.C06.ProofsLex.
Local Open Scope Z_scope.

(* ---------- induction over terms ---------- *)
Section TInd.
Variable P : ttree -> Prop.
Hypothesis HN : forall n, P (TN n).
Hypothesis HS : forall s, P (TS s).
Hypothesis HF : forall f args, P f -> Forall P args -> P (TF f args).
Hypothesis HT : forall k args, Forall P args -> P (TT k args).
Hypothesis HU : forall o a, P a -> P (TU o a).
Hypothesis HB : forall o a b, P a -> P b -> P (TB o a b).
Fixpoint ttree_ind' (t : ttree) : P t :=
  let go := fix go (l : list ttree) : Forall P l :=
              match l with [] => Forall_nil P | x :: r => Forall_cons x (ttree_ind' x) (go r) end in
  match t with
  | TN n => HN n
  | TS s => HS s
  | TF f args => HF f args (ttree_ind' f) (go args)
  | TT k args => HT k args (go args)
  | TU o a => HU o a (ttree_ind' a)
  | TB o a b => HB o a b (ttree_ind' a) (ttree_ind' b)
  end.
End TInd.

(* ---------- follow sets ---------- *)
Definition nosop (l : list Z) : Prop := match skipws l with c :: _ => is_sop c = false | [] => True end.
Definition tfol (l : list Z) : Prop := nic l /\ nosop l.

(* ---------- depth (nesting of brackets) ---------- *)
Fixpoint dep (t : ttree) : nat :=
  match t with
  | TN _ | TS _ => O
  | TF _ args | TT _ args => S (fold_right Nat.max O (map dep args))
  | TU _ a => dep a
  | TB _ a b => Nat.max (dep a) (dep b)
  end.
Definition sub0 (t : ttree) : list ttree := match t with TF _ args | TT _ args => args | _ => [] end.
Definition sub1 (t : ttree) : list ttree :=
  match t with TU _ a => sub0 a | TB _ a b => sub0 a ++ sub0 b | _ => sub0 t end.

Lemma max_in (l : list nat) x : In x l -> (x <= fold_right Nat.max O l)%nat.
Proof. induction l as [|y l IH]; [contradiction|]. intros [->|H]; simpl; [lia|]. specialize (IH H). lia. Qed.
Lemma dep_sub0 t x : In x (sub0 t) -> (dep x < dep t)%nat.
Proof.
  destruct t; simpl; try contradiction; intros H;
    (assert (In (dep x) (map dep args)) by (apply in_map_iff; eauto)); pose proof (max_in _ _ H0); lia.
Qed.
Lemma dep_sub1 t x : In x (sub1 t) -> (dep x < dep t)%nat.
Proof.
  destruct t as [n|s|f args|k args|o a|o a b]; try apply dep_sub0.
  simpl. intros H. apply in_app_or in H. destruct H as [H|H]; apply dep_sub0 in H; lia.
Qed.

(* ---------- characters ---------- *)
Lemma sop_nows c : is_sop c = true -> is_ws c = false.
Proof.
  unfold is_sop, sop_chars. cbn [existsb]. intros H. repeat (apply orb_true_iff in H; destruct H as [H|H]; [apply Z.eqb_eq in H; subst; reflexivity|]). discriminate.
Qed.
Lemma sop_noid c : is_sop c = true -> is_ident_char c = false /\ is_digit c = false /\ c <> 40 /\ is_sym_start c = false.
Proof.
  unfold is_sop, sop_chars. cbn [existsb]. intros H. repeat (apply orb_true_iff in H; destruct H as [H|H]; [apply Z.eqb_eq in H; subst; repeat split; discriminate|]). discriminate.
Qed.
Lemma sym_start_nows c : is_sym_start c = true -> is_ws c = false /\ is_digit c = false /\ is_sop c = false /\ c <> 45 /\ is_ident_char c = true.
Proof.
  unfold is_sym_start, is_lower, is_upper, is_ws, is_digit, is_ident_char, is_lower, is_upper, is_digit. intros H.
  assert (E : is_sop c = false).
  { unfold is_sop, sop_chars. cbn [existsb]. lia. }
  repeat split; try lia. exact E.
Qed.
Lemma digit_nosop c : is_digit c = true -> is_sop c = false /\ is_sym_start c = false /\ c <> 45.
Proof. unfold is_digit, is_sop, sop_chars, is_sym_start, is_lower, is_upper. cbn [existsb]. intros H. repeat split; lia. Qed.

(* what a term may start with *)
Definition tstart (c : Z) : Prop :=
  is_ws c = false /\ c <> 41 /\ c <> 125 /\ c <> 93 /\ c <> 58 /\ c <> 59 /\ c <> 44.
Lemma bracket_cases k p : assoc k tuple_parens = Some p ->
  (k = -1 /\ p = (40, 41)) \/ (k = -2 /\ p = (123, 125)) \/ (k = -3 /\ p = (91, 93)).
Proof.
  unfold tuple_parens. cbn [assoc]. destruct (Z.eqb_spec k (-1)); [intros H; inversion H; auto|].
  destruct (Z.eqb_spec k (-2)); [intros H; inversion H; auto|].
  destruct (Z.eqb_spec k (-3)); [intros H; inversion H; auto|]. discriminate.
Qed.
Lemma good_op_inv o : good_op o = true -> exists c r, o = c :: r /\ is_sop c = true /\ forallb is_sop o = true.
Proof.
  unfold good_op. destruct o as [|c r]; [discriminate|]. cbn [nilb negb andb]. intros H. exists c, r. split; [reflexivity|].
  split; [|exact H]. cbn [forallb] in H. now apply andb_true_iff in H.
Qed.
Lemma good_sym_inv s : good_sym s = true -> exists c r, s = c :: r /\ is_sym_start c = true /\ forallb is_ident_char r = true.
Proof. destruct s as [|c r]; [discriminate|]. cbn [good_sym]. intros H. apply andb_true_iff in H. exists c, r. tauto. Qed.

(* the first character of a prim: not white space, not an operator (unless the sign of a negative number) *)
Definition prim_ok (t : ttree) : bool := unamb t && negb (is_opterm t).
Lemma print_nat_hd' n : 0 <= n -> exists d ds, print_nat n = d :: ds /\ is_digit d = true.
Proof. apply print_nat_hd. Qed.

Lemma prim_hd t l : prim_ok t = true ->
  exists c r, show_t t ++ l = c :: r /\ is_ws c = false /\ tstart c /\
    (is_sop c && negb ((c =? 45) && hd_digit r)) = false /\
    ((match t with TN n => 0 <= n | _ => True end) -> is_sop c = false) /\
    ((match t with TN _ => False | _ => True end) -> is_digit c = false).
Proof.
  unfold prim_ok. intros H. apply andb_true_iff in H. destruct H as [Hu Hn].
  destruct t as [n|s|f args|k args|o a|o a b]; try discriminate Hn; cbn [show_t unamb] in *.
  - unfold print_Z. destruct (Z.ltb_spec n 0) as [Hneg|Hpos].
    + destruct (print_nat_hd (- n) ltac:(lia)) as (d & ds & E & Hd). exists 45. eexists. split; [reflexivity|].
      split; [reflexivity|]. split; [repeat split; discriminate|]. split.
      * rewrite E. cbn [app hd_digit]. rewrite Hd. reflexivity.
      * split; [intros; lia | intros []].
    + destruct (print_nat_hd n Hpos) as (d & ds & E & Hd). rewrite E. exists d. eexists. split; [reflexivity|].
      destruct (digit_nosop d Hd) as (D1 & D2 & D3). pose proof (digit_nows d Hd) as D4.
      split; [exact D4|]. split; [unfold tstart, is_digit in *; repeat split; try assumption; lia|]. rewrite D1. split; [reflexivity|].
      split; [reflexivity | intros []].
  - destruct (good_sym_inv s Hu) as (c & r & -> & Hc & Hr). exists c. eexists. split; [reflexivity|].
    destruct (sym_start_nows c Hc) as (S1 & S2 & S3 & S4 & S5).
    split; [exact S1|]. split; [unfold tstart, is_sym_start, is_lower, is_upper in *; repeat split; try assumption; lia|]. rewrite S3. split; [reflexivity|].
    split; intros _; [reflexivity | exact S2].
  - apply andb_true_iff in Hu. destruct Hu as [Hf _]. destruct f as [|s| | | |]; try discriminate Hf.
    destruct (good_sym_inv s Hf) as (c & r & -> & Hc & Hr). cbn [show_t app]. exists c. eexists. split; [reflexivity|].
    destruct (sym_start_nows c Hc) as (S1 & S2 & S3 & S4 & S5).
    split; [exact S1|]. split; [unfold tstart, is_sym_start, is_lower, is_upper in *; repeat split; try assumption; lia|]. rewrite S3. split; [reflexivity|].
    split; intros _; [reflexivity | exact S2].
  - apply andb_true_iff in Hu. destruct Hu as [Hk _]. unfold bracket_of.
    destruct (assoc k tuple_parens) as [p|] eqn:E; [|discriminate].
    destruct (bracket_cases k p E) as [[-> ->] | [[-> ->] | [-> ->]]]; cbn [fst snd app];
      (eexists; eexists; split; [reflexivity|]; split; [reflexivity|]; split; [repeat split; discriminate|]; split; [reflexivity|]; split; intros _; reflexivity).
Qed.

Lemma term_hd t l : unamb t = true -> exists c r, show_t t ++ l = c :: r /\ tstart c.
Proof.
  revert l. induction t as [n|s|f args IHf IHa|k args IHa|o a IHa|o a b IHa IHb] using ttree_ind'; intros l Hu;
    try (destruct (prim_hd _ l ltac:(unfold prim_ok; rewrite Hu; reflexivity)) as (c & r & E & _ & Hs & _); exists c, r; split; assumption).
  - cbn [unamb] in Hu. apply andb_true_iff in Hu. destruct Hu as [Hu _]. apply andb_true_iff in Hu. destruct Hu as [Ho _].
    destruct (good_op_inv o Ho) as (c & r & -> & Hc & _). cbn [show_t app]. exists c. eexists. split; [reflexivity|].
    pose proof (sop_nows c Hc). unfold tstart. unfold is_sop, sop_chars in Hc. cbn [existsb] in Hc. repeat split; try assumption; lia.
  - cbn [unamb] in Hu. apply andb_true_iff in Hu. destruct Hu as [Hu _]. apply andb_true_iff in Hu. destruct Hu as [Hu Hua].
    cbn [show_t]. rewrite <- app_assoc. now apply IHa.
Qed.
Lemma term_ne t : unamb t = true -> show_t t <> [].
Proof. intros H E. destruct (term_hd t [] H) as (c & r & E2 & _). rewrite E in E2. discriminate. Qed.

(* ---------- generic list facts ---------- *)
Lemma sep_list_map {A B} (f : B -> list Z) (g : A -> B) sep l : sep_list f sep (map g l) = sep_list (fun x => f (g x)) sep l.
Proof.
  induction l as [|x l IH]; [reflexivity|]. destruct l as [|y r]; [reflexivity|].
  cbn [map] in *. rewrite !sep_list_cons, IH. reflexivity.
Qed.
Lemma sep_list_len_in {A} (f : A -> list Z) (s : list Z) xs : (forall x, In x xs -> f x <> []) ->
  (length xs <= length (sep_list f s xs))%nat.
Proof.
  induction xs as [|x xs IH]; intros Hf; [simpl; lia|]. destruct xs as [|y r].
  - simpl. specialize (Hf x (or_introl eq_refl)). destruct (f x); [congruence | simpl; lia].
  - rewrite sep_list_cons, !app_length. pose proof (Hf x (or_introl eq_refl)). destruct (f x); [congruence|].
    assert (Hf' : forall w, In w (y :: r) -> f w <> []) by (intros w Hw; apply Hf; now right). specialize (IH Hf'). simpl in *. lia.
Qed.
Lemma sep_list_in_len {A} (f : A -> list Z) (s : list Z) xs x : In x xs -> (length (f x) <= length (sep_list f s xs))%nat.
Proof.
  induction xs as [|y xs IH]; [contradiction|]. intros Hin. destruct xs as [|z r].
  - destruct Hin as [->|[]]. simpl. lia.
  - rewrite sep_list_cons, !app_length. destruct Hin as [->|Hin]; [lia|]. specialize (IH Hin). lia.
Qed.

Lemma tok1_self c l : is_ws c = false -> tok [c] (c :: l) = Some (tt, l).
Proof. intros H. unfold tok. cbn [skipws]. rewrite H. cbn [prefix]. now rewrite Z.eqb_refl. Qed.

(* ---------- bracketed argument lists ---------- *)
Section Body.
Variable pt : parser ttree.
Hypothesis Hblank : forall l, pt (32 :: l) = pt l.

Lemma targs_spec close args l :
  is_ws close = false -> (close = 41 \/ close = 125 \/ close = 93) ->
  (forall x, In x args -> unamb x = true /\ forall l, tfol l -> pt (show_t x ++ l) = Some (x, l)) ->
  p_targs pt close (sep_list (fun x => x) s_list_sep (map show_t args) ++ close :: l) = Some (args, l).
Proof.
  intros Hws Hcl Hx. unfold p_targs. destruct args as [|x args].
  - cbn [map sep_list app]. now rewrite tok1_self.
  - rewrite sep_list_map.
    assert (E : tok [close] (sep_list (fun x0 : ttree => show_t x0) s_list_sep (x :: args) ++ close :: l) = None).
    { destruct (Hx x (or_introl eq_refl)) as [Hu _].
      assert (G : forall X, tok [close] (show_t x ++ X) = None).
      { intros X. destruct (term_hd x X Hu) as (c & r & -> & Hs). destruct Hs as (S1 & S2 & S3 & S4 & _).
        apply tok_none_hd; [assumption|]. destruct Hcl as [-> | [-> | ->]]; congruence. }
      destruct args as [|y r]; [cbn [sep_list] | rewrite sep_list_cons, <- !app_assoc]; apply G. }
    rewrite E. unfold bnd, p_list1.
    assert (Hfol : tfol (close :: l)).
    { split; [|unfold nosop; cbn [skipws]; rewrite Hws]; destruct Hcl as [-> | [-> | ->]]; reflexivity. }
    rewrite (p_sep1_spec pt show_t (fun x => x) t_comma [32] tfol); try assumption; try discriminate; try reflexivity.
    + rewrite map_id. rewrite tok1_self by assumption. reflexivity.
    + intros l0. split; reflexivity.
    + intros z Hz l0 Hl0. now apply Hx.
    + apply tok_none_hd; [assumption|]. destruct Hcl as [-> | [-> | ->]]; discriminate.
    + rewrite app_length. pose proof (sep_list_len_in show_t ([44] ++ [32]) (x :: args)) as HL.
      change s_list_sep with ([44] ++ [32]).
      assert (forall z, In z (x :: args) -> show_t z <> []) by (intros z Hz; apply term_ne; now apply Hx).
      specialize (HL H). change (fun x0 : ttree => show_t x0) with show_t. lia.
Qed.

Lemma nic_nd l : nic l -> nd l.
Proof.
  destruct l as [|c r]; [auto|]. unfold nic, nd, is_follow, is_ident_char. intros H. apply andb_true_iff in H. destruct H as [H _].
  apply negb_true_iff in H. apply orb_false_iff in H. destruct H as [H _]. apply orb_false_iff in H. tauto.
Qed.

Lemma unamb_sub0 t x : unamb t = true -> In x (sub0 t) -> unamb x = true.
Proof.
  destruct t; simpl; try contradiction; intros H Hin; apply andb_true_iff in H; destruct H as [_ H];
    rewrite forallb_forall in H; now apply H.
Qed.

Lemma prim_spec t l : prim_ok t = true ->
  (forall x, In x (sub0 t) -> forall l, tfol l -> pt (show_t x ++ l) = Some (x, l)) ->
  nic l -> p_prim pt (show_t t ++ l) = Some (t, l).
Proof.
  intros Hp Hsub Hl. pose proof Hp as Hp0. unfold prim_ok in Hp. apply andb_true_iff in Hp. destruct Hp as [Hu Hn].
  assert (Hargs : forall x, In x (sub0 t) -> unamb x = true /\ forall l, tfol l -> pt (show_t x ++ l) = Some (x, l)).
  { intros x Hx. split; [now apply (unamb_sub0 t) | now apply Hsub]. }
  destruct t as [n|s|f args|k args|o a|o a b]; try discriminate Hn; cbn [show_t unamb sub0] in *; unfold p_prim.
  - unfold print_Z. destruct (Z.ltb_spec n 0) as [Hneg|Hpos].
    + destruct (print_nat_hd (- n) ltac:(lia)) as (d & ds & E & Hd).
      assert (Hh : hd_digit (print_nat (- n) ++ l) = true) by (rewrite E; exact Hd).
      cbn [app skipws]. change (is_ws 45) with false. cbv iota. change (is_digit 45) with false. cbv iota.
      change (45 =? 45) with true. rewrite Hh. cbn [andb]. unfold bnd.
      rewrite (p_digits_spec (- n) l ltac:(lia) (nic_nd l Hl)). unfold ret. now rewrite Z.opp_involutive.
    + destruct (print_nat_hd n Hpos) as (d & ds & E & Hd). rewrite E. cbn [app skipws]. rewrite (digit_nows d Hd), Hd.
      change (d :: ds ++ l) with ((d :: ds) ++ l). rewrite <- E. unfold bnd.
      rewrite (p_digits_spec n l Hpos (nic_nd l Hl)). reflexivity.
  - destruct (good_sym_inv s Hu) as (c & r & -> & Hc & Hr). destruct (sym_start_nows c Hc) as (S1 & S2 & S3 & S4 & S5).
    cbn [app skipws]. rewrite S1, S2. destruct (Z.eqb_spec c 45); [contradiction|]. cbn [andb]. rewrite Hc.
    rewrite (span_all is_ident_char r l Hr (nic_nid l Hl)).
    destruct l as [|d b]; [reflexivity|]. unfold nic, is_follow in Hl. apply andb_true_iff in Hl. destruct Hl as [_ Hl].
    apply negb_true_iff in Hl. now rewrite Hl.
  - apply andb_true_iff in Hu. destruct Hu as [Hf Ha]. destruct f as [|s| | | |]; try discriminate Hf.
    destruct (good_sym_inv s Hf) as (c & r & -> & Hc & Hr). destruct (sym_start_nows c Hc) as (S1 & S2 & S3 & S4 & S5).
    cbn [show_t app]. rewrite <- !app_assoc. cbn [app skipws]. rewrite S1, S2. destruct (Z.eqb_spec c 45); [contradiction|]. cbn [andb]. rewrite Hc.
    rewrite (span_all is_ident_char r _ Hr) by reflexivity. change (40 =? 40) with true. cbv iota. unfold bnd.
    rewrite <- app_assoc. cbn [app]. rewrite (targs_spec 41 args l); [reflexivity | reflexivity | now left | exact Hargs].
  - apply andb_true_iff in Hu. destruct Hu as [Hk Ha]. unfold bracket_of.
    destruct (assoc k tuple_parens) as [p|] eqn:E; [|discriminate].
    destruct (bracket_cases k p E) as [[-> ->] | [[-> ->] | [-> ->]]]; cbn [fst snd app skipws];
      rewrite <- app_assoc; cbn [app].
    + change (is_ws 40) with false. cbv iota. change (is_digit 40) with false. cbv iota. cbn [Z.eqb andb is_sym_start is_lower is_upper orb Z.leb Z.compare Pos.compare Pos.compare_cont].
      cbn [brackets open_kind Z.eqb Pos.eqb]. unfold bnd. rewrite (targs_spec 41 args l); [reflexivity | reflexivity | now left | exact Hargs].
    + change (is_ws 123) with false. cbv iota. change (is_digit 123) with false. cbv iota. cbn [Z.eqb andb is_sym_start is_lower is_upper orb Z.leb Z.compare Pos.compare Pos.compare_cont].
      cbn [brackets open_kind Z.eqb Pos.eqb]. unfold bnd. rewrite (targs_spec 125 args l); [reflexivity | reflexivity | (right; now left) | exact Hargs].
    + change (is_ws 91) with false. cbv iota. change (is_digit 91) with false. cbv iota. cbn [Z.eqb andb is_sym_start is_lower is_upper orb Z.leb Z.compare Pos.compare Pos.compare_cont].
      cbn [brackets open_kind Z.eqb Pos.eqb]. unfold bnd. rewrite (targs_spec 93 args l); [reflexivity | reflexivity | (right; now right) | exact Hargs].
Qed.
End Body.

(* ---------- terms ---------- *)
Lemma span_sop o X : forallb is_sop o = true -> match X with c :: _ => is_sop c = false | [] => True end ->
  span is_sop (o ++ X) = (o, X).
Proof. intros. now apply span_all. Qed.

Lemma p_op_none l : nosop l -> p_op l = Some (None, l).
Proof. unfold nosop, p_op. destruct (skipws l) as [|d r]; [reflexivity|]. intros ->. reflexivity. Qed.
Lemma p_op_some o X : good_op o = true -> match X with c :: _ => is_sop c = false | [] => True end ->
  p_op (32 :: o ++ X) = Some (Some o, X) /\ p_op (o ++ X) = Some (Some o, X).
Proof.
  intros Ho HX. destruct (good_op_inv o Ho) as (c & r & E & Hc & Hall).
  assert (G : p_op (o ++ X) = Some (Some o, X)).
  { unfold p_op. rewrite E. cbn [app skipws]. rewrite (sop_nows c Hc), Hc.
    change (c :: r ++ X) with ((c :: r) ++ X). rewrite <- E. now rewrite (span_sop o X Hall HX). }
  split; [|exact G]. unfold p_op in *. cbn [skipws]. change (is_ws 32) with true. cbv iota.
  rewrite E in *. cbn [app skipws] in *. rewrite (sop_nows c Hc) in *. rewrite Hc in *. exact G.
Qed.

Section Body2.
Variable pt : parser ttree.
Hypothesis Hblank : forall l, pt (32 :: l) = pt l.

Lemma p_prim_blank l : p_prim pt (32 :: l) = p_prim pt l.
Proof. reflexivity. Qed.

Lemma unamb_sub1 t x : unamb t = true -> In x (sub1 t) -> unamb x = true.
Proof.
  destruct t as [n|s|f args|k args|o a|o a b]; try apply unamb_sub0.
  - cbn [unamb sub1]. intros H. apply andb_true_iff in H. destruct H as [_ H]. now apply unamb_sub0.
  - cbn [unamb sub1]. intros H Hin. apply andb_true_iff in H. destruct H as [H Hub]. apply andb_true_iff in H. destruct H as [H Hua].
    apply in_app_or in Hin. destruct Hin as [Hin|Hin]; [now apply (unamb_sub0 a) | now apply (unamb_sub0 b)].
Qed.

Lemma term1_spec t l : unamb t = true ->
  (forall x, In x (sub1 t) -> forall l, tfol l -> pt (show_t x ++ l) = Some (x, l)) ->
  tfol l -> p_term1 pt (show_t t ++ l) = Some (t, l).
Proof.
  intros Hu Hsub [Hnic Hns].
  assert (Hprim : forall t, prim_ok t = true -> (forall x, In x (sub0 t) -> forall l, tfol l -> pt (show_t x ++ l) = Some (x, l)) ->
            forall l, nic l -> nosop l -> p_term1 pt (show_t t ++ l) = Some (t, l)).
  { clear Hu Hsub Hnic Hns t l. intros t Hp Hs l Hnic Hns. destruct (prim_hd t l Hp) as (c & r & E & Hws & _ & Hc & _).
    unfold p_term1. rewrite E. cbn [skipws]. rewrite Hws, Hc. rewrite <- E. unfold bnd.
    rewrite (prim_spec pt Hblank t l Hp Hs Hnic). rewrite (p_op_none l Hns). reflexivity. }
  destruct t as [n|s|f args|k args|o a|o a b].
  - apply Hprim; try assumption; unfold prim_ok; now rewrite Hu.
  - apply Hprim; try assumption; unfold prim_ok; now rewrite Hu.
  - apply Hprim; try assumption; unfold prim_ok; now rewrite Hu.
  - apply Hprim; try assumption; unfold prim_ok; now rewrite Hu.
  - (* op a *)
    cbn [unamb] in Hu. apply andb_true_iff in Hu. destruct Hu as [Hu Ha]. apply andb_true_iff in Hu. destruct Hu as [Ho Harg].
    unfold un_arg_ok in Harg. apply andb_true_iff in Harg. destruct Harg as [Hnop Hnum].
    assert (Hpa : prim_ok a = true) by (unfold prim_ok; now rewrite Ha, Hnop).
    destruct (good_op_inv o Ho) as (c & r & E & Hc & Hall).
    destruct (prim_hd a l Hpa) as (c2 & r2 & E2 & Hws2 & _ & _ & Hnn & Hnd).
    assert (Hpos : match a with TN n => 0 <= n | _ => True end).
    { destruct a; try exact I. apply andb_true_iff in Hnum. destruct Hnum as [Hnum _]. lia. }
    pose proof (Hnn Hpos) as Hc2.
    cbn [show_t sub1] in *. rewrite <- app_assoc. unfold p_term1.
    assert (Hcond : (is_sop c && negb ((c =? 45) && hd_digit (r ++ show_t a ++ l))) = true).
    { rewrite Hc. cbn [andb]. apply negb_true_iff. destruct (Z.eqb_spec c 45) as [->|]; [|reflexivity]. cbn [andb].
      destruct r as [|d r'].
      - cbn [app]. rewrite E2. cbn [hd_digit]. destruct a as [n| | | | |]; try discriminate Hnop.
        + subst o. apply andb_true_iff in Hnum. destruct Hnum as [_ Hnum]. discriminate Hnum.
        + now apply Hnd.
        + now apply Hnd.
        + now apply Hnd.
      - cbn [app hd_digit]. rewrite E in Hall. cbn [forallb] in Hall. apply andb_true_iff in Hall. destruct Hall as [_ Hall].
        apply andb_true_iff in Hall. destruct Hall as [Hd _]. destruct (sop_noid d Hd) as (_ & D & _). exact D. }
    rewrite E. cbn [app skipws]. rewrite (sop_nows c Hc). rewrite Hcond.
    change (c :: r ++ show_t a ++ l) with ((c :: r) ++ show_t a ++ l). rewrite <- E.
    rewrite (span_sop o (show_t a ++ l) Hall) by (rewrite E2; exact Hc2).
    unfold bnd. rewrite (prim_spec pt Hblank a l Hpa Hsub Hnic). reflexivity.
  - (* a op b *)
    cbn [unamb] in Hu. apply andb_true_iff in Hu. destruct Hu as [Hu Hub]. apply andb_true_iff in Hu. destruct Hu as [Hu Hua].
    apply andb_true_iff in Hu. destruct Hu as [Hu Hnb]. apply andb_true_iff in Hu. destruct Hu as [Ho Hna].
    assert (Hpa : prim_ok a = true) by (unfold prim_ok; now rewrite Hua, Hna).
    assert (Hpb : prim_ok b = true) by (unfold prim_ok; now rewrite Hub, Hnb).
    cbn [show_t sub1] in *. rewrite <- !app_assoc.
    destruct (prim_hd a ([32] ++ o ++ [32] ++ show_t b ++ l) Hpa) as (c & r & E & Hws & _ & Hc & _).
    unfold p_term1. rewrite E. cbn [skipws]. rewrite Hws, Hc. rewrite <- E. unfold bnd.
    rewrite (prim_spec pt Hblank a _ Hpa) by (try reflexivity; intros x Hx; apply Hsub; apply in_or_app; now left).
    cbn [app]. destruct (p_op_some o (32 :: show_t b ++ l) Ho eq_refl) as [G _]. rewrite G.
    rewrite p_prim_blank. rewrite (prim_spec pt Hblank b l Hpb) by (try assumption; intros x Hx; apply Hsub; apply in_or_app; now right).
    reflexivity.
Qed.
End Body2.

Lemma p_term_blank fuel l : p_term fuel (32 :: l) = p_term fuel l.
Proof. destruct fuel; reflexivity. Qed.

Lemma term_spec fuel : forall t, (dep t < fuel)%nat -> unamb t = true -> forall l, tfol l -> p_term fuel (show_t t ++ l) = Some (t, l).
Proof.
  induction fuel as [|f IH]; intros t Hd Hu l Hl; [lia|]. cbn [p_term].
  apply term1_spec; try assumption.
  - apply p_term_blank.
  - intros x Hx l0 Hl0. apply IH; try assumption.
    + pose proof (dep_sub1 t x Hx). lia.
    + now apply (unamb_sub1 t).
Qed.

(* the depth of a term is bounded by the length of its spelling *)
Lemma dep_len t : (dep t <= length (show_t t))%nat.
Proof.
  induction t as [n|s|f args IHf IHa|k args IHa|o a IHa|o a b IHa IHb] using ttree_ind'; cbn [dep show_t]; try lia.
  - rewrite app_length. cbn [length]. rewrite app_length. cbn [length].
    assert (fold_right Nat.max O (map dep args) <= length (sep_list (fun x => x) s_list_sep (map show_t args)))%nat.
    { clear IHf. induction IHa as [|x r Hx Hr IH]; [simpl; lia|]. cbn [map fold_right].
      pose proof (sep_list_in_len (fun x : list Z => x) s_list_sep (map show_t (x :: r)) (show_t x) (or_introl eq_refl)).
      assert (length (sep_list (fun x => x) s_list_sep (map show_t r)) <= length (sep_list (fun x => x) s_list_sep (map show_t (x :: r))))%nat.
      { cbn [map]. destruct (map show_t r) eqn:Em; [simpl; lia|]. rewrite sep_list_cons, !app_length. lia. }
      cbn [map] in *. lia. }
    lia.
  - cbn [length]. rewrite app_length. cbn [length].
    assert (fold_right Nat.max O (map dep args) <= length (sep_list (fun x => x) s_list_sep (map show_t args)))%nat.
    { induction IHa as [|x r Hx Hr IH]; [simpl; lia|]. cbn [map fold_right].
      pose proof (sep_list_in_len (fun x : list Z => x) s_list_sep (map show_t (x :: r)) (show_t x) (or_introl eq_refl)).
      assert (length (sep_list (fun x => x) s_list_sep (map show_t r)) <= length (sep_list (fun x => x) s_list_sep (map show_t (x :: r))))%nat.
      { cbn [map]. destruct (map show_t r) eqn:Em; [simpl; lia|]. rewrite sep_list_cons, !app_length. lia. }
      cbn [map] in *. lia. }
    lia.
  - rewrite app_length. lia.
  - rewrite !app_length. cbn [length]. lia.
Qed.

(* ---------- plain literals, conditions ---------- *)
Lemma p_lit0_show b n l : good_nameb n = true -> nic l -> p_lit0 (show_lit0 (b, n) ++ l) = Some ((b, n), l).
Proof.
  intros H Hl. unfold show_lit0. cbn [fst snd]. destruct b.
  - rewrite s_not_eq. unfold kw_not. cbn [app]. unfold p_lit0, bnd.
    pose proof (p_ident_raw 110 [111; 116] (32 :: n ++ l) eq_refl eq_refl eq_refl) as E.
    cbn [app] in E. rewrite E. clear E.
    change (list_eqb [110; 111; 116] kw_not) with true. cbv beta iota.
    rewrite p_name0_blank, (p_name0_spec _ l H Hl). reflexivity.
  - cbn [app]. pose proof (p_name0_spec _ l H Hl) as E. unfold p_name0, bnd in E. unfold p_lit0, bnd.
    destruct (p_ident (n ++ l)) as [[n' r]|]; [|discriminate].
    destruct (list_eqb n' kw_not); [discriminate|]. destruct (p_args r) as [[a r']|]; [|discriminate].
    unfold ret in *. inversion E; subst. reflexivity.
Qed.
Lemma show_lit0_ne x : good_nameb (snd x) = true -> show_lit0 x <> [].
Proof.
  destruct x as [b n]. unfold show_lit0. cbn [fst snd]. intros H. destruct b; [discriminate|].
  destruct (good_name_hd n H) as (c & r & -> & _). discriminate.
Qed.

Lemma cond0_spec c l : c <> [] -> (forall x, In x c -> good_nameb (snd x) = true) -> nic l -> tok t_comma l = None ->
  p_cond0 (32 :: sep_list show_lit0 s_list_sep c ++ l) = Some (c, l).
Proof.
  intros Hc Hg Hl Hcm. unfold p_cond0, p_list1.
  change (32 :: ?x) with ([32] ++ x). rewrite (p_sep1_pad p_lit0 t_comma [32] p_lit0_blank).
  replace (Some (c, l)) with (Some (map (fun x : glit (list Z) => x) c, l)) by (now rewrite map_id).
  apply (p_sep1_spec p_lit0 show_lit0 (fun x => x) t_comma [32] nic); try assumption; try discriminate; try reflexivity.
  - intros [b n] Hx l0 Hl0. apply p_lit0_show; [now apply (Hg (b, n)) | assumption].
  - cbn [app length]. rewrite app_length.
    pose proof (sep_list_len_in show_lit0 s_list_sep c (fun x Hx => show_lit0_ne x (Hg x Hx))). lia.
Qed.

(* ---------- elements ---------- *)
Definition efol (l : list Z) : Prop := tfol l /\ tok t_comma l = None /\ tok t_colon l = None.

Lemma p_telem_blank fuel l : p_telem fuel (32 :: l) = p_telem fuel l.
Proof. reflexivity. Qed.

Definition dep_elem (e : telemt) : nat := fold_right Nat.max O (map dep (fst e)).

Lemma telem_spec fuel e l : unamb_elem e = true -> (dep_elem e < fuel)%nat -> efol l ->
  p_telem fuel (show_elem e ++ l) = Some (e, l).
Proof.
  destruct e as [ts c]. unfold unamb_elem, dep_elem, show_elem. cbn [fst snd]. intros Hu Hd ([Hnic Hns] & Hcm & Hcol).
  apply andb_true_iff in Hu. destruct Hu as [Hu Hc]. apply andb_true_iff in Hu. destruct Hu as [Hne Hts].
  rewrite forallb_forall in Hts, Hc.
  destruct ts as [|t ts].
  - destruct c as [|x c]; [discriminate Hne|].
    remember (x :: c) as cc eqn:Ecc. assert (Hcc : cc <> []) by (subst; discriminate).
    replace (match cc with [] => [] | _ :: _ => s_cond ++ sep_list show_lit0 s_list_sep cc end)
      with (s_cond ++ sep_list show_lit0 s_list_sep cc) by (subst; reflexivity).
    cbn [map]. change (sep_list (fun x0 : list Z => x0) s_list_sep []) with (@nil Z). cbn [app]. rewrite <- app_assoc.
    change (s_cond ++ ?y) with (32 :: 58 :: 32 :: y). unfold p_telem.
    change (skipws (32 :: 58 :: ?y)) with (58 :: y). cbv zeta. unfold t_colon. rewrite tok1_self by reflexivity. unfold bnd.
    rewrite cond0_spec; try assumption; reflexivity.
  - assert (Hdep : forall x, In x (t :: ts) -> (dep x < fuel)%nat).
    { intros x Hx. assert (In (dep x) (map dep (t :: ts))) by (apply in_map_iff; eauto). pose proof (max_in _ _ H). lia. }
    set (rest := match c with [] => [] | _ :: _ => s_cond ++ sep_list show_lit0 s_list_sep c end ++ l).
    assert (Hrest : tfol rest /\ tok t_comma rest = None).
    { unfold rest. destruct c; [cbn [app]; repeat split; assumption|]. repeat split. }
    destruct Hrest as [Hr1 Hr2].
    rewrite sep_list_map. rewrite <- app_assoc. fold rest.
    destruct (term_hd t (match ts with [] => [] | _ => s_list_sep ++ sep_list (fun x => show_t x) s_list_sep ts end ++ rest) (Hts t (or_introl eq_refl)))
      as (c0 & r0 & E0 & S0 & S1 & S2 & S3 & S4 & S5 & S6).
    assert (E1 : sep_list (fun x => show_t x) s_list_sep (t :: ts) ++ rest = c0 :: r0).
    { rewrite <- E0. destruct ts; [reflexivity | rewrite sep_list_cons, <- !app_assoc; reflexivity]. }
    unfold p_telem. rewrite E1. cbn [skipws]. rewrite S0. cbv zeta.
    pose proof (tok_none_hd 58 [] c0 r0 S0 ltac:(congruence)) as T0. change (tok t_colon (c0 :: r0) = None) in T0. rewrite T0. rewrite <- E1. unfold bnd, p_list1.
    rewrite (p_sep1_spec (p_term fuel) show_t (fun x => x) t_comma [32] tfol); try assumption; try discriminate; try reflexivity.
    + rewrite map_id. unfold opt. unfold rest. destruct c as [|x c].
      * cbn [app]. rewrite Hcol. reflexivity.
      * rewrite <- app_assoc. rewrite (tok_const t_colon s_cond [32]) by (discriminate || reflexivity).
        cbn [app]. rewrite cond0_spec; try assumption; try reflexivity; discriminate.
    + apply p_term_blank.
    + intros l0. split; reflexivity.
    + intros x Hx l0 Hl0. apply term_spec; [now apply Hdep | now apply Hts | assumption].
    + rewrite app_length. change s_list_sep with ([44] ++ [32]).
      pose proof (sep_list_len_in show_t ([44] ++ [32]) (t :: ts) (fun x Hx => term_ne x (Hts x Hx))).
      change (fun x : ttree => show_t x) with show_t. lia.
Qed.

Lemma elem_tok_rbrace e X : unamb_elem e = true -> tok t_rbrace (show_elem e ++ X) = None /\ show_elem e <> [].
Proof.
  destruct e as [ts c]. unfold unamb_elem, show_elem. cbn [fst snd]. intros Hu.
  apply andb_true_iff in Hu. destruct Hu as [Hu Hc]. apply andb_true_iff in Hu. destruct Hu as [Hne Hts].
  rewrite forallb_forall in Hts. destruct ts as [|t ts].
  - destruct c; [discriminate Hne|]. split; [|discriminate]. cbn [map sep_list app]. rewrite <- app_assoc. now apply tok_none.
  - rewrite sep_list_map.
    set (Y := match c with [] => [] | _ :: _ => s_cond ++ sep_list show_lit0 s_list_sep c end).
    assert (K : forall Z0, exists c0 r0, sep_list (fun x => show_t x) s_list_sep (t :: ts) ++ Z0 = c0 :: r0 /\ tstart c0).
    { intros Z0. destruct (term_hd t (match ts with [] => [] | _ => s_list_sep ++ sep_list (fun x => show_t x) s_list_sep ts end ++ Z0) (Hts t (or_introl eq_refl)))
        as (c0 & r0 & E0 & S0). exists c0, r0. split; [|assumption]. rewrite <- E0.
      destruct ts; [reflexivity | rewrite sep_list_cons, <- !app_assoc; reflexivity]. }
    split.
    + rewrite <- app_assoc. destruct (K (Y ++ X)) as (c0 & r0 & E0 & S0 & S1 & S2 & _). rewrite E0.
      apply tok_none_hd; [assumption | congruence].
    + intro E. destruct (K []) as (c0 & r0 & E0 & _). rewrite app_nil_r in E0. apply app_eq_nil in E. destruct E as [E _].
      rewrite E in E0. discriminate.
Qed.

(* ---------- theory atoms ---------- *)
Definition dep_ta (a : tatomt) : nat :=
  Nat.max (dep (tt_name a)) (Nat.max (fold_right Nat.max O (map dep_elem (tt_elems a)))
                                     (match tt_guard a with Some (_, r) => dep r | None => O end)).

Lemma tatom_spec fuel a l : unamb_ta a = true -> (dep_ta a < fuel)%nat -> tfol l ->
  p_tatom fuel (show_ta a ++ l) = Some (a, l).
Proof.
  destruct a as [n es g]. unfold unamb_ta, dep_ta, show_ta. cbn [tt_name tt_elems tt_guard]. intros Hu Hd [Hnic Hns].
  apply andb_true_iff in Hu. destruct Hu as [Hu Hg]. apply andb_true_iff in Hu. destruct Hu as [Hu Hes].
  apply andb_true_iff in Hu. destruct Hu as [Hn Hnop]. rewrite forallb_forall in Hes.
  set (G := match g with None => [] | Some (o, r) => [32] ++ show_t o ++ [32] ++ show_t r end).
  rewrite <- !app_assoc. unfold p_tatom, bnd. cbn [app]. rewrite tok1_self by reflexivity.
  rewrite (prim_spec (p_term fuel) (p_term_blank fuel) n); [| unfold prim_ok; now rewrite Hn, Hnop | | reflexivity].
  2:{ intros x Hx l0 Hl0. apply term_spec; [pose proof (dep_sub0 n x Hx); lia | now apply (unamb_sub0 n) | assumption]. }
  unfold t_lbrace. rewrite tok1_self by reflexivity.
  assert (Hfol : efol (125 :: G ++ l)) by (repeat split).
  assert (Hlist : p_list0 (p_telem fuel) t_semi t_rbrace (sep_list (fun x => x) s_telem_sep (map show_elem es) ++ 125 :: G ++ l) = Some (es, 125 :: G ++ l)).
  { unfold p_list0. destruct es as [|e es].
    - cbn [map sep_list app]. unfold t_rbrace. rewrite tok1_self by reflexivity. reflexivity.
    - rewrite sep_list_map.
      assert (E : tok t_rbrace (sep_list (fun x => show_elem x) s_telem_sep (e :: es) ++ 125 :: G ++ l) = None).
      { assert (K : forall X, tok t_rbrace (show_elem e ++ X) = None).
        { intros X. now apply elem_tok_rbrace, Hes; left. }
        destruct es as [|y r]; [cbn [sep_list] | rewrite sep_list_cons, <- !app_assoc]; apply K. }
      rewrite E. unfold p_list1.
      rewrite (p_sep1_spec (p_telem fuel) show_elem (fun x => x) t_semi [32] efol); try assumption; try discriminate; try reflexivity.
      + now rewrite map_id.
      + intros l0. repeat split.
      + intros x Hx l0 Hl0. apply telem_spec; [now apply Hes | | assumption].
        assert (In (dep_elem x) (map dep_elem (e :: es))) by (apply in_map_iff; eauto). pose proof (max_in _ _ H). lia.
      + rewrite app_length. change s_telem_sep with ([59] ++ [32]).
        pose proof (sep_list_len_in show_elem ([59] ++ [32]) (e :: es) (fun x Hx => proj2 (elem_tok_rbrace x [] (Hes x Hx)))).
        change (fun x : telemt => show_elem x) with show_elem. lia. }
  rewrite Hlist. unfold t_rbrace. rewrite tok1_self by reflexivity.
  unfold G. destruct g as [[o r]|].
  - apply andb_true_iff in Hg. destruct Hg as [Ho Hr]. destruct o as [|s| | | |]; try discriminate Ho. cbn [show_t].
    rewrite <- !app_assoc. cbn [app]. destruct (p_op_some s (32 :: show_t r ++ l) Ho eq_refl) as [K _]. rewrite K.
    rewrite p_term_blank. rewrite term_spec; [reflexivity | lia | assumption | split; assumption].
  - cbn [app]. rewrite (p_op_none l Hns). reflexivity.
Qed.

Lemma max_le_all (l : list nat) b : (forall x, In x l -> (x <= b)%nat) -> (fold_right Nat.max O l <= b)%nat.
Proof. induction l as [|y l IH]; intros H; simpl; [lia|]. pose proof (H y (or_introl eq_refl)). specialize (IH (fun x Hx => H x (or_intror Hx))). lia. Qed.

Lemma dep_elem_len e : (dep_elem e <= length (show_elem e))%nat.
Proof.
  destruct e as [ts c]. unfold dep_elem, show_elem. cbn [fst snd]. rewrite app_length.
  assert (fold_right Nat.max O (map dep ts) <= length (sep_list (fun x => x) s_list_sep (map show_t ts)))%nat; [|lia].
  apply max_le_all. intros d Hd. apply in_map_iff in Hd. destruct Hd as (t & <- & Ht).
  pose proof (dep_len t). pose proof (sep_list_in_len (fun x : list Z => x) s_list_sep (map show_t ts) (show_t t) (in_map show_t ts t Ht)). lia.
Qed.
Lemma dep_ta_len a : (dep_ta a <= length (show_ta a))%nat.
Proof.
  destruct a as [n es g]. unfold dep_ta, show_ta. cbn [tt_name tt_elems tt_guard]. rewrite !app_length. cbn [length].
  pose proof (dep_len n).
  assert (fold_right Nat.max O (map dep_elem es) <= length (sep_list (fun x => x) s_telem_sep (map show_elem es)))%nat.
  { apply max_le_all. intros d Hd. apply in_map_iff in Hd. destruct Hd as (e & <- & He).
    pose proof (dep_elem_len e). pose proof (sep_list_in_len (fun x : list Z => x) s_telem_sep (map show_elem es) (show_elem e) (in_map show_elem es e He)). lia. }
  destruct g as [[o r]|]; [|simpl; lia]. pose proof (dep_len r). rewrite !app_length. cbn [length]. lia.
Qed.

(* ---------- names and literals at atom positions ---------- *)
Lemma p_name_blank l : p_name (32 :: l) = p_name l.
Proof. reflexivity. Qed.
Lemma p_lit_blank l : p_lit (32 :: l) = p_lit l.
Proof. reflexivity. Qed.

Lemma show_hd p : pok p -> exists c r, show p = c :: r /\ (is_name_start c = true \/ c = 38).
Proof.
  destruct p as [n|a]; cbn [pok show].
  - intros H. destruct (good_name_hd n H) as (c & r & -> & Hc). exists c, r. auto.
  - intros _. unfold show_ta. cbn [app]. eexists. eexists. split; [reflexivity | now right].
Qed.

Lemma skipws_amp a l : skipws (show_ta a ++ l) = show_ta a ++ l.
Proof. reflexivity. Qed.
Lemma starts_amp_ta a l : starts_amp (show_ta a ++ l) = true.
Proof. reflexivity. Qed.

Lemma p_name_show p l : pok p -> nic l -> (is_plain p \/ nosop l) -> p_name (show p ++ l) = Some (p, l).
Proof.
  intros Hp Hl Hf. destruct p as [n|a]; cbn [pok show is_plain] in *.
  - destruct (good_name_hd n Hp) as (c & r & E & Hc). unfold p_name.
    rewrite skipws_nows by (now apply good_name_nows). rewrite E. cbn [app starts_amp].
    assert (c =? 38 = false) as -> by (unfold is_name_start, is_lower in Hc; lia). rewrite <- E. change (c :: r ++ l) with ((c :: r) ++ l). rewrite <- E.
    unfold bnd. rewrite (p_name0_spec n l Hp Hl). reflexivity.
  - destruct Hf as [[]|Hns]. unfold p_name. rewrite (skipws_amp a l). cbv zeta. rewrite (starts_amp_ta a l). unfold bnd.
    rewrite tatom_spec; [reflexivity | assumption | | split; assumption].
    rewrite app_length. pose proof (dep_ta_len a). lia.
Qed.

Lemma p_lit_show (b : bool) p l : pok p -> nic l -> (is_plain p \/ nosop l) ->
  p_lit ((if b then s_not else @nil Z) ++ show p ++ l) = Some ((b, p), l).
Proof.
  intros Hp Hl Hf. destruct b.
  - rewrite s_not_eq. unfold kw_not. cbn [app]. unfold p_lit. cbn [skipws]. change (is_ws 110) with false. cbv iota. cbv zeta.
    cbn [starts_amp]. change (110 =? 38) with false. cbv iota. unfold bnd.
    pose proof (p_ident_raw 110 [111; 116] (32 :: show p ++ l) eq_refl eq_refl eq_refl) as E.
    cbn [app] in E. rewrite E. clear E.
    change (list_eqb [110; 111; 116] kw_not) with true. cbv beta iota.
    rewrite p_name_blank, (p_name_show p l Hp Hl Hf). reflexivity.
  - cbn [app]. destruct p as [n|a]; cbn [pok show is_plain] in *.
    + destruct (good_name_hd n Hp) as (c & r & E & Hc). unfold p_lit.
      rewrite skipws_nows by (now apply good_name_nows). rewrite E. cbn [app starts_amp].
      assert (c =? 38 = false) as -> by (unfold is_name_start, is_lower in Hc; lia). rewrite <- E. change (c :: r ++ l) with ((c :: r) ++ l). rewrite <- E.
      pose proof (p_name0_spec _ l Hp Hl) as E2. unfold p_name0, bnd in E2. unfold bnd.
      destruct (p_ident (n ++ l)) as [[n' r']|]; [|discriminate].
      destruct (list_eqb n' kw_not); [discriminate|]. destruct (p_args r') as [[a r'']|]; [|discriminate].
      unfold ret in *. inversion E2; subst. reflexivity.
    + destruct Hf as [[]|Hns]. unfold p_lit. rewrite (skipws_amp a l). cbv zeta. rewrite (starts_amp_ta a l). unfold bnd.
      rewrite tatom_spec; [reflexivity | assumption | | split; assumption].
      rewrite app_length. pose proof (dep_ta_len a). lia.
Qed.

(* the spelling determines what is read: show is injective on the readable shapes *)
Lemma show_inj p q : pok p -> pok q -> show p = show q -> p = q.
Proof.
  intros Hp Hq E. pose proof (p_name_show p [] Hp I (or_intror I)) as A. pose proof (p_name_show q [] Hq I (or_intror I)) as B.
  rewrite E in A. rewrite A in B. now inversion B.
Qed.
