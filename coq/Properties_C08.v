Require Import V.Lib.Base V.C08.Model.
Example c08_placeholder : run_case [] = []. Proof. reflexivity. Qed.
