(* C08 - property theorems.  Model: V.C08.Model (string matchers, SmodelsInput::readSymbols, the trip through C02's converter
   model); statement-side definitions: V.C08.Spec (good_name, sitem/sym_of = the symbols the converter's flush writes,
   ok_item, node_of). *)
Require Import V.Lib.Base V.Lib.Calls V.Lib.Dec V.Gen.Consts V.Gen.Consts_C02 V.Gen.Consts_C08 V.C02.Model V.C02.Spec V.C08.Model V.C08.Spec
               V.C08.ProofsStr V.C08.ProofsSym V.C08.ProofsFlush V.C02.ProofsMap V.C08.ProofsConv V.C08.ProofsTrip V.C08.ProofsExtVal V.C08.SpecTrip V.C08.ProofsMulti.
Require Import Permutation.
Local Open Scope Z_scope.

(* (1) The two predicate texts are read back exactly.  For EVERY name n that is a good name (non-empty, NUL-free, quotes closed,
   parentheses balanced outside quotes, no comma outside parentheses and quotes), every modifier 0..eMax, every 32-bit bias
   (INT_MIN included) and every priority 0..2^31-1:  matchDomHeuPred on the text SmodelsConvert::flushHeuristic formats
   (format string, Heuristic_t::pred and toString(Heuristic_t) taken from the sources) returns 1, consumes the whole text and
   yields exactly (n, modifier, bias, priority).  For ALL integers s, t: matchEdgePred on the text SmodelsConvert::acycEdge
   formats returns 1, consumes everything and yields the decimal texts of s and t, which determine s and t. *)
Theorem c08_pred_roundtrip :
  (forall n t b pr, good_name n -> 0 <= t <= heu_emax -> C_INT_MIN <= b <= C_INT_MAX -> 0 <= pr <= C_INT_MAX ->
     match_dom_heu (fmt_heu n t b pr) = (1, [], mkHR n t b pr)) /\
  (forall s t, match_edge (fmt_edge_s s t) = (1, [], (print_Z s, print_Z t))) /\
  (forall a b, print_Z a = print_Z b -> a = b).
Proof. split; [exact heu_roundtrip | split; [exact edge_roundtrip | exact print_Z_inj]]. Qed.
Print Assumptions c08_pred_roundtrip.

(* the three-argument form `_heuristic(a,m,bias)`: the implicit priority is |bias| for every int - 2^31 for INT_MIN (repaired
   code, /repo f51867b; it was -bias in signed arithmetic) *)
Theorem c08_implicit_prio : forall b, C_INT_MIN <= b <= C_INT_MAX -> implicit_prio b = Z.abs b.
Proof. exact implicit_prio_abs. Qed.
Print Assumptions c08_implicit_prio.

Definition nm_pab : list Z := [112; 40; 34; 97; 44; 98; 34; 44; 102; 40; 49; 44; 50; 41; 41].   (* p(QaCbQ,f(1,2)) with Q = the quote byte 34 and C = a comma *)
Definition nm_esc : list Z := [113; 40; 34; 120; 92; 34; 121; 34; 41].                           (* q(Qx\QyQ): an escaped quote inside a quoted string *)
Example c08_good_names : good_name nm_pab /\ good_name nm_esc /\ good_name [97] /\ good_name (fmt_atom_s 7).
Proof. repeat split; try discriminate; try (repeat constructor; discriminate); vm_compute; reflexivity. Qed.
Example c08_not_good_names :   (* `a,b`   `f(`   `a)`   an unclosed quoted string   the empty name *)
  good_nameb [97; 44; 98] = false /\ good_nameb [102; 40] = false /\ good_nameb [97; 41] = false /\
  good_nameb [34; 97; 98] = false /\ good_nameb [] = false.
Proof. repeat split; vm_compute; reflexivity. Qed.
Example c08_pred_roundtrip_nonvacuous :
  match_dom_heu (fmt_heu nm_pab 1 (-2147483648) 2147483647) = (1, [], mkHR nm_pab 1 (-2147483648) 2147483647) /\
  match_edge (fmt_edge_s (-3) 2147483647) = (1, [], ([45; 51], [50; 49; 52; 55; 52; 56; 51; 54; 52; 55])) /\
  fst (fst (match_dom_heu (fmt_heu [97; 44; 98] 1 1 1))) = -2.     (* a name outside good_name is NOT read back *)
Proof. repeat split; vm_compute; reflexivity. Qed.

(* (2) Heuristics.  A symbol table as the converter's flush produces it (c08_flush_shape below) is `map sym_of items`: `_heuristic(..)`
   symbols (IHeu, good target name, priority <= 2^31-1), `_edge(s,t)` symbols (IEdge) and other names that start with none of the
   helper texts (IPlain); st is the reader's state left by earlier steps (empty for the first one).  With heuristic conversion on,
   for EVERY such table, state and setting of the other two options: the heuristic calls delivered are, in order, one per
   `_heuristic` symbol whose target name is carried by some symbol of this or an earlier step - on the atom of the FIRST symbol
   carrying that name, with the same modifier, bias and priority and the helper atom as condition - and none for a target name no
   symbol carries (dropped); nothing else is delivered as a heuristic.  With conversion off no heuristic is delivered. *)
Theorem c08_heuristic : forall o st items, Forall ok_item items ->
  let res := read_step o st (map sym_of items) in
  let tab' := r_tab st ++ map entry_of items in
  (cH o = true ->
     r_tab (fst res) = tab' /\
     filter is_heu_call (snd res) =
       flat_map (fun d => let x := tab_find (d_name d) tab' in
                          if x =? 0 then [] else [CHeuristic x (d_type d) (d_bias d) (d_prio d) [d_cond d]]) (heus_of items)) /\
  (cH o = false -> filter is_heu_call (snd res) = []) /\
  (forall n, tab_find n tab' <> 0 -> In (n, tab_find n tab') tab') /\
  (forall n, (forall a, ~ In (n, a) tab') -> tab_find n tab' = 0) /\
  (forall n, (forall k a, In (k, a) tab' -> a <> 0) -> (exists a, In (n, a) tab') -> tab_find n tab' <> 0).
Proof.
  intros o st items Hok res tab'. split; [|split; [|split; [|split]]].
  - intros HcH. exact (heuristics_back o st items HcH Hok).
  - intros HcH. exact (heuristics_off o st items HcH Hok).
  - intros n. apply tab_find_in.
  - intros n. apply tab_find_none.
  - intros n. apply tab_find_found.
Qed.
Print Assumptions c08_heuristic.

Definition demo_items : list sitem :=
  [IHeu (mkDom [97] 1 (-1) 2 5); IHeu (mkDom nm_pab 0 (-2147483648) 0 6); IHeu (mkDom [122] 3 1 1 7);
   IPlain 2 [97]; IEdge 3 0 7; IPlain 4 nm_pab; IEdge 5 7 (-1); IPlain 8 [97]].
Example c08_heuristic_nonvacuous :
  Forall ok_item demo_items /\
  filter is_heu_call (snd (read_step (mkO true true true) r0 (map sym_of demo_items))) =
    [CHeuristic 2 1 (-1) 2 [5]; CHeuristic 4 0 (-2147483648) 0 [6]].    (* `z` names no atom: dropped; `a` = the first of two atoms *)
Proof.
  split; [|vm_compute; reflexivity].
  repeat (apply Forall_cons; [cbn [ok_item]|]); try apply Forall_nil; try exact I;
    try (split; [repeat constructor; discriminate | repeat split; vm_compute; reflexivity]).
  - split; [apply good_nameb_ok; vm_compute; reflexivity|]. unfold heu_emax, C_INT_MIN, C_INT_MAX; cbn [d_type d_bias d_prio]; lia.
  - split; [apply good_nameb_ok; vm_compute; reflexivity|]. unfold heu_emax, C_INT_MIN, C_INT_MAX; cbn [d_type d_bias d_prio]; lia.
  - split; [apply good_nameb_ok; vm_compute; reflexivity|]. unfold heu_emax, C_INT_MIN, C_INT_MAX; cbn [d_type d_bias d_prio]; lia.
Qed.

(* (3) Edges.  With edge conversion on, for every such table: the edge calls delivered are, in order, one per `_edge(s,t)` symbol
   with the helper atom as condition and the node numbers renamed by rho = node_of (final node table); rho is injective on all
   integers whose decimal text is in the table - which includes every node of every edge of this step - and agrees with the
   numbering of earlier steps (the table only grows).  With conversion off no edge is delivered and the node table is unchanged. *)
Theorem c08_edges : forall o st items, Forall ok_item items ->
  let res := read_step o st (map sym_of items) in
  let nodes' := r_nodes (fst res) in
  (cE o = true ->
     filter is_edge_call (snd res) =
       map (fun e => match e with (c, s, t) => CEdge (node_of nodes' s) (node_of nodes' t) [c] end) (edges_of items) /\
     (forall c s t, In (c, s, t) (edges_of items) -> In (print_Z s) nodes' /\ In (print_Z t) nodes') /\
     (exists e, nodes' = r_nodes st ++ e) /\
     (forall z k, node_idx (print_Z z) (r_nodes st) 0 = Some k -> node_of nodes' z = k)) /\
  (forall z z', In (print_Z z) nodes' -> node_of nodes' z = node_of nodes' z' -> z = z') /\
  (cE o = false -> filter is_edge_call (snd res) = [] /\ nodes' = r_nodes st).
Proof.
  intros o st items Hok res nodes'. split; [|split].
  - intros HcE. destruct (edges_back o st items HcE Hok) as [[e He] Hcalls].
    split; [exact Hcalls|]. split; [exact (edges_nodes_known o st items HcE Hok)|]. split; [exists e; exact He|].
    intros z k Hk. unfold nodes', res. rewrite He. apply node_of_ext. exact Hk.
  - intros z z'. apply node_of_inj.
  - intros HcE. unfold nodes', res. rewrite (read_step_items o st items Hok). cbn [fst snd r_nodes].
    destruct (spec_no_edges items o (r_nodes st) HcE) as [H1 H2]. split; [|exact H2].
    rewrite filter_app_, H1. destruct (cH o); [apply deliver_doms_not; reflexivity | reflexivity].
Qed.
Print Assumptions c08_edges.

Example c08_edges_nonvacuous :
  filter is_edge_call (snd (read_step (mkO true true true) r0 (map sym_of demo_items))) = [CEdge 0 1 [3]; CEdge 1 2 [5]] /\
  r_nodes (fst (read_step (mkO true true true) r0 (map sym_of demo_items))) = [[48]; [55]; [45; 49]].
Proof. split; vm_compute; reflexivity. Qed.

(* (4) Externals.  The value written by SmodelsOutput::external ((v xor 3) - 1, or rule type 92 for Release) and decoded by
   SmodelsInput::readRules ((code xor 3) - 1 after the range check code <= 2) is the value itself, for all four values
   (finite domain, swept); the coding is an involution on 0..2 in both directions.  The constants are read from smodels.cpp. *)
Theorem c08_externals :
  (forall v, 0 <= v <= 3 -> ext_rw v = Some v) /\
  forallb (fun v => ext_decode (ext_code v) =? v) [0; 1; 2] = true /\
  forallb (fun c => ext_code (ext_decode c) =? c) [0; 1; 2] = true /\
  forallb (fun v => (0 <=? ext_code v) && (ext_code v <=? extr_max)) [0; 1; 2] = true.
Proof. split; [exact ext_values_back | exact ext_code_involution]. Qed.
Print Assumptions c08_externals.

(* (4b) ... through the whole reader model: for EVERY sequence `out` of calls made on the writer (in particular what the converter
   emits: its external values are `v mod 4`), if the reader accepts it, the external calls it delivers are exactly the external calls
   of `out`, in order, with the same atoms (the reader does not renumber: the atom of the converted program = SmodelsConvert::get of the
   input atom) and the same values, whatever the options and wherever the step boundaries are. *)
Theorem c08_externals_trip : forall o out, Forall ext_val_ok out -> snd (read_back o out) = true ->
  filter is_ext_call (fst (read_back o out)) = filter is_ext_call out.
Proof. exact read_back_externals. Qed.
Print Assumptions c08_externals_trip.

(* (4c) ... and the hypothesis of (4b) holds for EVERYTHING the converter model writes (invariant over whole runs: SmData::Atom::extn is the
   two-bit field `v mod 4`, copied by every operation on the atom map): for every input call sequence p - any number of steps - that the
   pipeline accepts, all written external values are in 0..3 and the delivered external calls are exactly the written ones. *)
Theorem c08_externals_pipeline : forall o p s w out,
  conv_write true cv0 sw0 p = Ok (s, w, out) -> snd (read_back o out) = true ->
  Forall ext_val_ok out /\ filter is_ext_call (fst (read_back o out)) = filter is_ext_call out.
Proof. exact pipeline_externals. Qed.
Print Assumptions c08_externals_pipeline.

Example c08_externals_trip_nonvacuous :
  let p := [CInit false; CBegin; CExternal 1 0; CExternal 2 1; CExternal 3 2; CExternal 4 3; CHeuristic 1 0 1 1 []; CEnd] in
  exists s w out, conv_write true cv0 sw0 p = Ok (s, w, out) /\ Forall ext_val_ok out /\ snd (read_back (mkO true true true) out) = true /\
    filter is_ext_call (fst (read_back (mkO true true true) out)) = [CExternal 2 0; CExternal 3 1; CExternal 4 2; CExternal 5 3].
Proof.
  do 3 eexists. split; [vm_compute; reflexivity|]. split; [|split; vm_compute; reflexivity].
  repeat (apply Forall_cons; [cbn [ext_val_ok]; try exact I; lia|]). apply Forall_nil.
Qed.

(* (5) Filter.  (a) Without filter nothing is lost: for ANY symbol table whatsoever (no hypothesis on the names) and any options the
   output calls delivered are exactly the symbols, in order, unchanged.  (b) For tables of the converter's shape the output calls are
   exactly the symbols that are not (converted and filtered), in order, unchanged.  (c) With all three options on, the delivered
   outputs are exactly the plain symbols: every one of them is delivered with its own atom, and no delivered name starts with
   `_heuristic(`, `_edge(` or `_acyc_`. *)
Theorem c08_filter :
  (forall o st syms, flt o = false ->
     filter is_out_call (snd (read_step o st syms)) = map (fun s => COutput (snd s) [fst s]) syms) /\
  (forall o st items, Forall ok_item items ->
     filter is_out_call (snd (read_step o st (map sym_of items))) =
     map out_of (filter (fun it => negb (converted o it && flt o)) items)) /\
  (forall o st items, cE o = true -> cH o = true -> flt o = true -> Forall ok_item items ->
     (forall c, In c (filter is_out_call (snd (read_step o st (map sym_of items)))) <->
                exists a n, c = COutput n [a] /\ In (IPlain a n) items) /\
     (forall n a, In (COutput n [a]) (filter is_out_call (snd (read_step o st (map sym_of items)))) -> no_helper_prefix n)).
Proof.
  split; [exact read_step_unfiltered | split; [exact outputs_back|]].
  intros o st items HcE HcH Hf Hok. split; [exact (filtered_outputs_plain o st items HcE HcH Hf Hok)|].
  intros n a Hin. apply (filtered_outputs_plain o st items HcE HcH Hf Hok) in Hin.
  destruct Hin as (a' & n' & Heq & Hin). inversion Heq; subst. rewrite Forall_forall in Hok. apply (Hok _ Hin).
Qed.
Print Assumptions c08_filter.

Example c08_filter_nonvacuous :
  filter is_out_call (snd (read_step (mkO true true true) r0 (map sym_of demo_items))) =
    [COutput [97] [2]; COutput nm_pab [4]; COutput [97] [8]] /\
  length (filter is_out_call (snd (read_step (mkO true true false) r0 (map sym_of demo_items)))) = 8%nat.
Proof. split; vm_compute; reflexivity. Qed.

(* (6) The link to the converter model of C02: what SmodelsConvert::flushHeuristic emits.  For EVERY converter state s and list of
   pending heuristics hs: the calls are `output(_heuristic(name,modifier,bias,prio), [cond])` for a sub-sequence of hs (those whose
   atom is mapped), modifier / bias / priority / condition atom taken from the directive, and each target name is either a name in
   the converter's symbol table (put there by an `output` of this or an earlier step, emitted as a symbol then) or the `_atom(k)` name
   that this very flush appends to the pending outputs (emitted by flushSymbols right after).
   c08_flush_shape_partial: NOT proved here - (A) that every name in SmData::symTab_ was emitted as a symbol of this or an earlier
   step and is therefore in the reader's table (an invariant over whole runs of cv_call), (B) that the names a user gives are
   good names / carry no helper prefix (a hypothesis on the input, see notes), (C) the composition over several steps with the
   reader state (closed by c08_trip below).  The differential check compares the composed model `trip` with the real pipeline on every generated program. *)
Theorem c08_flush_shape_partial : forall hs s s' cs, flushHeuristic_f s hs = (s', cs) ->
  exists ds : list (dom * heu),
    cs = map (fun x => out_of (IHeu (fst x))) ds /\
    sublist (map snd ds) hs /\
    Forall (fun x => let d := fst x in let h := snd x in
              d_type d = h_type h /\ d_bias d = h_bias h /\ d_prio d = h_prio h /\ d_cond d = h_cond h /\
              (In (d_name d) (map snd (symtab s')) \/ In (d_name d) (map s_name (outs s')))) ds.
Proof. exact flush_heuristic_shape. Qed.
Print Assumptions c08_flush_shape_partial.

(* (7) The converter's symbol bookkeeping over WHOLE runs (gap A of c08_flush_shape_partial closed).
   Hypothesis (B), explicit: call_ok c (C08/ProofsConv.v) = for `output(name, cond)`: the C string of the name is a good_name and
   starts with none of `_heuristic(`, `_edge(`, `_acyc_`; for `heuristic(a,t,bias,prio,cond)`: 0 <= t <= eMax, bias an int,
   0 <= prio <= 2^31-1; nothing for the other calls.
   For EVERY call sequence p of such calls (any number of steps, any interleaving of initProgram / beginStep / endStep) that the converter
   model accepts with next_ <= 2^28: every entry (output atom a, name n) of SmData::symTab_ is a good name and a symbol
   `output(n, [a mod 2^31])` that was written in this or an earlier step, or is pending in output_ (written by the next endStep). *)
Theorem c08_symtab_emitted : forall p s out, Forall call_ok p -> cv_run true cv0 p = Ok (s, out) -> next s <= SMID_MOD ->
  forall a n, In (a, n) (symtab s) ->
    good_name n /\ (In (COutput n [a mod AM]) out \/ In (a mod AM, n) (map sym_ent (outs s))).
Proof. exact symtab_emitted. Qed.
Print Assumptions c08_symtab_emitted.

(* (7b) ... and every symbol the converter EVER writes (whole runs, any number of steps) is `out_of it` for an ok_item it - a plain name
   without helper prefix, an `_edge(s,t)` text, or a `_heuristic(n,t,bias,prio)` text with good target name and fields in range - and the
   target name of every `_heuristic` symbol is the name of a symbol `output(n, [x])` written in the same run (same or earlier step):
   the reader of an incremental text, which keeps its table, finds it. *)
Theorem c08_symbols_written : forall p s out, Forall call_ok p -> cv_run true cv0 p = Ok (s, out) -> next s <= SMID_MOD ->
  forall n cond, In (COutput n cond) out ->
    exists it, COutput n cond = out_of it /\ ok_item it /\
      (forall d, it = IHeu d -> exists x, In (COutput (d_name d) [x]) out).
Proof. exact symbols_written. Qed.
Print Assumptions c08_symbols_written.

(* (8) One endStep, from ANY state the step invariant SI holds in (SI E s its: `its` describes the pending symbols item by item as
   `_edge` / plain symbols, every symTab_ entry is a good name and in E (= symbols written in earlier steps) or pending, the pending
   heuristics are in range; established by cv0 and kept by every call - run_inv).  The flush writes: rules / minimize / externals (pre),
   then `_heuristic(name,t,bias,prio)` for EXACTLY the pending heuristics whose atom is mapped (hm), then the pending symbols and the
   `_atom(k)` names generated by this flush (its'), sorted by atom, then the compute statement.  Every written symbol is an ok_item -
   so c08_heuristic / c08_edges / c08_filter apply to the table - and the target name of every `_heuristic` symbol is carried by a
   symbol ON THE IMAGE OF THE HEURISTIC'S ATOM that was written before (E) or is written by this very flush. *)
Theorem c08_flush_step : forall E s its s' cs, SI E s its -> Inv s -> next s' <= SMID_MOD -> flush true s = (s', cs) ->
  let s2 := fst (flushExternal true (fst (flushMinimize s (mins s)))) in
  let hm := filter (fun h => mapped s2 (h_atom h)) (heus s) in
  exists pre names its' sorted,
    cs = pre ++ map out_of (heu_syms hm names ++ sorted) ++ [CAssume [- false_atom]] /\
    forallb is_pre pre = true /\ length names = length hm /\
    Permutation sorted (its ++ its') /\
    edges_of its' = [] /\ Forall (fun e => exists k, 0 <= k /\ snd e = fmt_atom_s k) (plains_of its') /\
    Forall ok_item (heu_syms hm names ++ sorted) /\ Forall not_heu sorted /\
    Forall (fun hn => In (img s2 (h_atom (fst hn)) mod AM, snd hn) (E ++ map sym_of sorted)) (combine hm names) /\
    SI (E ++ map sym_of sorted) s' [] /\ Inv s' /\ good s s'.
Proof. exact flush_shape. Qed.
Print Assumptions c08_flush_step.

(* (9) The composed statement for ONE-STEP programs (instance of (10))  p = initProgram(i); beginStep; body; endStep  (body: any calls except the three
   protocol calls, each call_ok), through the whole model pipeline  conv_write (converter + writer acceptance) -> read_back (reader):
   if the pipeline accepts (conv_write = Ok with next_ <= 2^28, reader ok) then, with sb = the converter's state at endStep,
   s2 = that state after flushMinimize / flushExternal, tab = the symbols written (name, atom):
   - the pending heuristics of sb are the input's heuristic calls, in order, same atom / modifier / bias / priority;
   - with cHeuristic the delivered heuristic calls are, in order, EXACTLY one per pending heuristic whose atom is mapped in s2 (= occurs in
     the program), with the same modifier, bias, priority, condition atom = the converter's condition atom, on the atom of the FIRST
     written symbol carrying the target name - and a symbol with that name on the image of the heuristic's own atom was written
     (so, names being unique, it IS the image); heuristics on unmapped atoms are dropped; without cHeuristic none is delivered;
   - with cEdge the delivered edge calls are one per input edge (es is a permutation - the order of the symbol table, sorted by atom - of
     es_in, which matches the input's edge calls in order), nodes renamed by node_of nodes, which is injective on every node that occurs;
   - without filter every written symbol is shown; with all three options on the shown symbols are exactly the user's outputs
     (name cut at NUL, on the converter's output atom) and the generated `_atom(k)` names, and no shown name has a helper prefix.
   c08_trip_single (was c08_trip_partial): the ONE-STEP instance, kept because its statement is spelled out without auxiliary
   definitions; the general statement for any number of steps is c08_trip below (this is its case bodies = [body], T = [], nodes = []).
   The conditions ("active in every answer set") are C02's subject. *)
Theorem c08_trip_single : forall o i body s' w' out,
  forallb in_step body = true -> Forall call_ok body ->
  conv_write true cv0 sw0 (CInit i :: CBegin :: body ++ [CEnd]) = Ok (s', w', out) ->
  next s' <= SMID_MOD -> snd (read_back o out) = true ->
  let d := fst (read_back o out) in
  exists (sb : cv) (ob : list call) (names : list (list Z)) (tab : list (list Z * Z)) (nodes : list (list Z))
         (es_in es : list (Z * Z * Z)) (shown_in gen : list (Z * list Z)),
    let s2 := fst (flushExternal true (fst (flushMinimize sb (mins sb)))) in
    let hm := filter (fun h => mapped s2 (h_atom h)) (heus sb) in
    cv_run true cv0 body = Ok (sb, ob) /\
    Forall2 heu_rel (filter is_heu_call body) (heus sb) /\ length names = length hm /\
    map (fun e => COutput (fst e) [snd e]) tab = filter is_out_call out /\
    (forall k a, In (k, a) tab -> a <> 0) /\
    (cH o = true -> filter is_heu_call d = map (heu_call tab) (combine hm names)) /\
    (cH o = false -> filter is_heu_call d = []) /\
    Forall (fun hn => tab_find (snd hn) tab <> 0 /\ In (snd hn, tab_find (snd hn) tab) tab /\
                      In (snd hn, img s2 (h_atom (fst hn)) mod AM) tab) (combine hm names) /\
    Forall2 edge_rel (filter is_edge_call body) es_in /\ Permutation es es_in /\
    (cE o = true ->
       filter is_edge_call d = map (fun e => match e with (c, s, t) => CEdge (node_of nodes s) (node_of nodes t) [c] end) es /\
       (forall c s t, In (c, s, t) es -> In (print_Z s) nodes /\ In (print_Z t) nodes)) /\
    (forall z z', In (print_Z z) nodes -> node_of nodes z = node_of nodes z' -> z = z') /\
    (cE o = false -> filter is_edge_call d = []) /\
    Forall2 out_rel (filter is_out_call body) shown_in /\ Forall (fun e => exists k, 0 <= k /\ snd e = fmt_atom_s k) gen /\
    (flt o = false -> filter is_out_call d = filter is_out_call out) /\
    (cE o = true -> cH o = true -> flt o = true ->
       (forall c, In c (filter is_out_call d) <-> exists a n, c = COutput n [a] /\ In (a, n) (shown_in ++ gen)) /\
       (forall n a, In (COutput n [a]) (filter is_out_call d) -> no_helper_prefix n)).
Proof. exact trip_single. Qed.
Print Assumptions c08_trip_single.

(* non-vacuity: a one-step program with a rule, two named atoms (`a` on atom 1, `p("a,b",f(1,2))` on atom 2), heuristics on the named
   atom 1, on the unnamed atom 3 (gets `_atom(k)`) and on atom 9 that does not occur (dropped), two edges, an external; the hypotheses
   hold and the pipeline delivers two heuristics, two edges and - with filter - exactly the two user symbols and the generated name *)
Definition trip_body : list call :=
  [CRule 0 [1] [2; -3]; COutput [97] [1]; COutput nm_pab [2]; CExternal 4 2;
   CHeuristic 1 1 (-2147483648) 2147483647 [2]; CHeuristic 3 4 7 0 []; CHeuristic 9 0 1 1 [];
   CEdge 0 1 [1]; CEdge 1 (-5) [-2; 3]].
Example c08_trip_nonvacuous :
  forallb in_step trip_body = true /\ Forall call_ok trip_body /\
  exists s w out, conv_write true cv0 sw0 (CInit false :: CBegin :: trip_body ++ [CEnd]) = Ok (s, w, out) /\ next s <= SMID_MOD /\
    snd (read_back (mkO true true true) out) = true /\
    filter is_heu_call (fst (read_back (mkO true true true) out)) = [CHeuristic 2 1 (-2147483648) 2147483647 [6]; CHeuristic 4 4 7 0 [7]] /\
    length (filter is_edge_call (fst (read_back (mkO true true true) out))) = 2%nat /\
    length (filter is_out_call (fst (read_back (mkO true true true) out))) = 3%nat.
Proof.
  split; [reflexivity|]. split.
  { repeat (apply Forall_cons; [cbn [call_ok]; try exact I|]); try apply Forall_nil.
    - split; [apply good_nameb_ok; vm_compute; reflexivity | repeat split; vm_compute; reflexivity].
    - split; [apply good_nameb_ok; vm_compute; reflexivity | repeat split; vm_compute; reflexivity].
    - unfold heu_emax, C_INT_MIN, C_INT_MAX. lia.
    - unfold heu_emax, C_INT_MIN, C_INT_MAX. lia.
    - unfold heu_emax, C_INT_MIN, C_INT_MAX. lia. }
  do 3 eexists. split; [vm_compute; reflexivity|]. split; [vm_compute; discriminate|]. repeat split; vm_compute; reflexivity.
Qed.

(* (10) The composed statement for programs of ANY number of steps:  p = prog i bodies = initProgram(i); then for every body of `bodies`:
   beginStep; body; endStep  (V.C08.SpecTrip).  Every body is body_ok: no protocol call inside, every call call_ok (hypothesis B of (7)).
   If the model pipeline accepts (conv_write = Ok with next_ <= 2^28, reader ok), the delivered calls are  initProgram(reader_inc out)
   followed by one segment per step, and  trip_steps o cv0 [] [] bodies segs  holds - by induction over the step list, threading
     s      the converter state at beginStep (cv0 first; after a step  fst (flush true sb)),
     T      the CUMULATIVE table of all (name, atom) symbols written in earlier steps ([] first; after a step  T ++ tabk), which IS the
            reader's SymTab at that point when cHeuristic is on (reader-side invariant of the proof: r_tab st = T, T contains the converter's
            E of c08_flush_step, all atoms of T non-zero),
     nodes  the reader's NodeTab ([] first; it only grows: nodes' = nodes ++ e),
   with, for EVERY step (step_trip o s T nodes body seg s' T' nodes', V.C08.SpecTrip - the conclusions of (9) with the cumulative table):
   - seg = beginStep; mid; endStep  with no protocol call in mid;
   - the converter's pending heuristics at endStep are this step's heuristic calls, in order (heuristic_ is empty at every beginStep);
   - tabk = the symbols this endStep writes, T' = T ++ tabk, all atoms of T' non-zero;
   - with cHeuristic the heuristic calls in seg are, in order, EXACTLY one per pending heuristic whose atom is mapped after flushMinimize /
     flushExternal of THIS step (mapped in this or an earlier step), same modifier / bias / priority, condition = the converter's condition
     atom, on  tab_find name T'  = the atom of the FIRST symbol with the target name written in this OR AN EARLIER step, which is non-zero,
     and a symbol with that name on the image of the heuristic's own atom is in T'; the others are dropped; without cHeuristic none;
   - with cEdge one edge call per input edge of the step (permutation = table order), renamed by node_of nodes', injective on every node
     that occurs; node_of nodes' agrees with the numbering of all earlier steps; without cEdge none and the table is unchanged;
   - without filter every symbol written in the step is shown; with all three options on the shown symbols of the step are exactly the
     step's user outputs + the `_atom(k)` names generated in the step, none with a helper prefix;
   - the external calls in seg are exactly the external calls the converter writes in this step (ob ++ the flush), same atoms (the reader
     does not renumber), same values, same order.
   This covers incremental programs (i = true) AND whatever else the reader accepts (see (12): two or more steps are accepted only with the
   reader's inc flag set, and then it keeps both tables).  NOT in the statement: uniqueness
   of names (then tab_find name T' is the image of the heuristic's atom), "active in every answer set" (conditions: C02). *)
Theorem c08_trip : forall o i bodies s' w' out,
  Forall body_ok bodies ->
  conv_write true cv0 sw0 (prog i bodies) = Ok (s', w', out) ->
  next s' <= SMID_MOD -> snd (read_back o out) = true ->
  exists segs : list (list call),
    fst (read_back o out) = CInit (reader_inc out) :: concat segs /\
    trip_steps o cv0 [] [] bodies segs.
Proof. exact trip_multi. Qed.
Print Assumptions c08_trip.

(* (11) ... and the edges of ALL steps come back under ONE renaming: node_of nodesF (nodesF = the reader's final node table) - for every step
   the delivered edge calls are the step's input edges (es_in matches the input's edge calls in order, es is a permutation of es_in)
   with both nodes renamed by node_of nodesF and the helper atom as condition; node_of nodesF is injective on every node that occurs. *)
Theorem c08_trip_edges : forall o i bodies s' w' out,
  Forall body_ok bodies ->
  conv_write true cv0 sw0 (prog i bodies) = Ok (s', w', out) ->
  next s' <= SMID_MOD -> snd (read_back o out) = true -> cE o = true ->
  exists (segs : list (list call)) (nodesF : list (list Z)),
    fst (read_back o out) = CInit (reader_inc out) :: concat segs /\
    Forall2 (fun body seg => exists es_in es,
               Forall2 edge_rel (filter is_edge_call body) es_in /\ Permutation es es_in /\
               filter is_edge_call seg = map (rename_edge nodesF) es /\
               (forall c s t, In (c, s, t) es -> In (print_Z s) nodesF /\ In (print_Z t) nodesF)) bodies segs /\
    (forall z z', In (print_Z z) nodesF -> node_of nodesF z = node_of nodesF z' -> z = z').
Proof. exact trip_multi_edges. Qed.
Print Assumptions c08_trip_edges.

(* (12) NON-incremental programs of several steps.  Converter and writer accept them and write the steps one after the other.  The reader
   (SmodelsInput::doAttach) sets its inc flag from the FIRST BYTE of the text: reader_inc out = i || "the first written line is an external
   `91 ..`" (starts_with_9).  (a) Flag not set: readSymbols deletes symbol and node table at the end of the step (`if (!incremental())`), and
   ProgramReader::parse then demands  !more() || incremental() : the second beginStep is refused ("invalid extra input") - for EVERY program
   of two or more steps, any bodies, any options.  So the forgotten table is never consulted: the first step is delivered (as (10) says for one
   step), then the read fails.  (b) Flag set although i = false (first line `91 ..`): the reader announces initProgram(true), accepts all
   steps and KEEPS both tables (the same `incremental()` test) - such a text is read exactly like an incremental one and is covered by (10):
   a heuristic of step 2 that names a symbol of step 1 IS delivered (c08_noninc_examples, reproduced on the real code). *)
Theorem c08_noninc_multistep :
  (forall o i b1 b2 bs s' w' out,
     conv_write true cv0 sw0 (prog i (b1 :: b2 :: bs)) = Ok (s', w', out) ->
     reader_inc out = false -> snd (read_back o out) = false) /\
  (forall i bodies s' w' out,
     conv_write true cv0 sw0 (prog i bodies) = Ok (s', w', out) -> reader_inc out = i || starts_with_9 i out).
Proof. split; [exact multi_step_needs_inc | exact reader_inc_prog]. Qed.
Print Assumptions c08_noninc_multistep.

(* step 1 names atom 1 `a`; step 2 puts a heuristic on atom 1 (and an edge) *)
Definition ni_step1 : list call := [CRule 0 [1] []; COutput [97] [1]; CEdge 0 1 []].
Definition ni_step1x : list call := [CExternal 1 2; COutput [97] [1]].      (* the first written line is `91 ..` *)
Definition ni_step2 : list call := [CRule 0 [2] [1]; CHeuristic 1 1 3 4 [2]; CEdge 1 2 [2]; COutput [98] [2]].
Example c08_noninc_examples :
  (* (a) not incremental, first line a rule: step 1 is delivered, then the reader fails; nothing of step 2 is delivered *)
  (exists s w out, conv_write true cv0 sw0 (prog false [ni_step1; ni_step2]) = Ok (s, w, out) /\ reader_inc out = false /\
     read_back (mkO true true true) out =
       ([CInit false; CBegin; CRule 0 [2] []; CRule 0 [3] []; COutput [97] [2]; CEdge 0 1 [3]; CRule 0 [] [1]; CEnd], false)) /\
  (* (b) not incremental, first line an external: read as an incremental text, table kept, the heuristic on `a` comes back in step 2 *)
  (exists s w out, conv_write true cv0 sw0 (prog false [ni_step1x; ni_step2]) = Ok (s, w, out) /\ reader_inc out = true /\
     snd (read_back (mkO true true true) out) = true /\
     hd CEnd (fst (read_back (mkO true true true) out)) = CInit true /\
     filter is_heu_call (fst (read_back (mkO true true true) out)) = [CHeuristic 2 1 3 4 [3]]) /\
  (* the same two steps as an incremental program *)
  (exists s w out, conv_write true cv0 sw0 (prog true [ni_step1; ni_step2]) = Ok (s, w, out) /\
     snd (read_back (mkO true true true) out) = true /\
     filter is_heu_call (fst (read_back (mkO true true true) out)) = [CHeuristic 2 1 3 4 [4]]).
Proof.
  split; [|split]; do 3 eexists; (split; [vm_compute; reflexivity|]); repeat split; vm_compute; reflexivity.
Qed.

(* non-vacuity of (10)/(11): a genuine TWO-STEP incremental program.  Step 1: a rule, `a` on atom 1, `p("a,b",f(1,2))` on atom 2, an external,
   a heuristic on `a`, one on atom 9 that never occurs (dropped), edge 0 -> 1.  Step 2: a rule, `b` on atom 5, a heuristic on atom 1 = `a`
   (NAMED IN STEP 1: found in the table the reader kept), one on the unnamed atom 3 (gets `_atom(4)` in step 2), one on `b` with a compound
   condition and extreme bias / priority, one on atom 8 that never occurs (dropped), edges 1 -> 2 (node 1 keeps its number from step 1) and
   7 -> 0, release of the external.  The hypotheses hold; the pipeline delivers 1 + 3 heuristics and 1 + 2 edges. *)
Definition ms_step1 : list call :=
  [CRule 0 [1] [2; -3]; COutput [97] [1]; COutput nm_pab [2]; CExternal 4 2;
   CHeuristic 1 1 (-5) 7 [2]; CHeuristic 9 0 1 1 []; CEdge 0 1 [1]].
Definition ms_step2 : list call :=
  [CRule 0 [5] [1]; COutput [98] [5]; CHeuristic 1 4 7 0 [5]; CHeuristic 3 2 1 1 [];
   CHeuristic 5 0 (-2147483648) 2147483647 [-2; 3]; CHeuristic 8 0 1 1 []; CEdge 1 2 [5]; CEdge 7 0 []; CExternal 4 3].
Example c08_trip_nonvacuous_2steps :
  Forall body_ok [ms_step1; ms_step2] /\
  exists s w out, conv_write true cv0 sw0 (prog true [ms_step1; ms_step2]) = Ok (s, w, out) /\ next s <= SMID_MOD /\
    snd (read_back (mkO true true true) out) = true /\
    filter is_heu_call (fst (read_back (mkO true true true) out)) =
      [CHeuristic 2 1 (-5) 7 [6];
       CHeuristic 2 4 7 0 [10]; CHeuristic 4 2 1 1 [11]; CHeuristic 9 0 (-2147483648) 2147483647 [12]] /\
    filter is_edge_call (fst (read_back (mkO true true true) out)) = [CEdge 0 1 [8]; CEdge 1 2 [14]; CEdge 3 0 [15]] /\
    filter is_ext_call (fst (read_back (mkO true true true) out)) = [CExternal 5 2; CExternal 5 3] /\
    filter is_out_call (fst (read_back (mkO true true true) out)) =
      [COutput [97] [2]; COutput nm_pab [3]; COutput (fmt_atom_s 4) [4]; COutput [98] [9]].
Proof.
  split.
  { repeat (apply Forall_cons; [split; [reflexivity|]|]); try apply Forall_nil;
      repeat (apply Forall_cons; [cbn [call_ok]; try exact I|]); try apply Forall_nil;
      try (split; [apply good_nameb_ok; vm_compute; reflexivity | repeat split; vm_compute; reflexivity]);
      unfold heu_emax, C_INT_MIN, C_INT_MAX; lia. }
  do 3 eexists. split; [vm_compute; reflexivity|]. split; [vm_compute; discriminate|]. repeat split; vm_compute; reflexivity.
Qed.

(* ---- calls made directly on the writer (coq/C08/Direct.v = the decoder of the correspondence run, kind 3) ----
   SmodelsConvert never writes one (atom, name) symbol twice, the format allows it: a table may use one name for several atoms and list a line
   again, also in the table of a later step.  What the reader does with ANY table is `c08_filter` (a)/(b) (every symbol that is not a converted
   and filtered predicate is delivered, in order, unchanged - the name table keeps the first binding for lookups only) and `c08_heuristic`
   (the heuristic lands on the FIRST atom with the target name); Direct.v composes the same reader model (read_back) with the writer's
   acceptance automaton without the converter, and agrees with V.C08.Model.run_case on every other kind of case. *)
Require V.C08.Direct.
Theorem c08_direct_extends : forall k r, k = 0 \/ k = 1 \/ k = 2 -> V.C08.Direct.run_case (k :: r) = V.C08.Model.run_case (k :: r).
Proof. intros k r [-> | [-> | ->]]; destruct r as [|e [|h [|f r]]]; reflexivity. Qed.
Print Assumptions c08_direct_extends.

(* init(inc); begin; output(a,[1]); end; begin; output(a,[1]); output(a,[2]); output(_heuristic(a,sign,1,0),[3]); end  read back with
   cHeuristic + filter: the repeated line `1 a` of step 2 and the second atom named `a` are both delivered, the heuristic goes to atom 1 *)
Example c08_direct_repeated_symbols :
  V.C08.Direct.run_case [3; 0; 1; 1; 1; 1; 2; 8; 1; 97; 1; 1; 3; 2; 8; 1; 97; 1; 1; 8; 1; 97; 1; 2; 8; 22; 95; 104; 101; 117; 114; 105; 115; 116; 105; 99;
                         40; 97; 44; 115; 105; 103; 110; 44; 49; 44; 48; 41; 1; 3; 3]
  = enc_calls [CInit true; CBegin; COutput [97] [1]; CEnd; CBegin; COutput [97] [1]; COutput [97] [2]; CHeuristic 1 1 1 0 [3]; CEnd].
Proof. vm_compute. reflexivity. Qed.
