Require Import ExtrOcamlBasic.
Require Import V.C14.Model.
Extraction "model.ml" run_case.
