Require Import ExtrOcamlBasic.
Require Import V.C10.Model.
Extraction "model.ml" run_case.
