Require Import V.Lib.Base V.C20.Model.
Local Open Scope Z_scope.
Example c20_smoke : run_case [0; 1; 0; 1; 0; 6; 1; 10; 0] = [6; 1; 1; -1; 0; 0; 0; 0; 0; -1; 0; 0; -1; 0; 0; 0; 0; 0; 0; 0; 0; 0].
Proof. vm_compute. reflexivity. Qed.
Print Assumptions c20_smoke.
