(* C20 - type-erased value holder keeps value semantics and single ownership.
   Model: C20/Model.v (ownership ledger of ValueStore / ValueMap::add / NotifiedValue::doParse; RefCountable/IntrusiveSharedPtr).
   Specification: C20/Spec.v (value semantics: a holder is empty or (representation, type, value); `sstep` is one line per operation).
   `final H M tys ops` = the model state after the history `ops` over H client holders, one ValueMap with M names, any client pointer pool. *)
Require Import V.Lib.Base V.Gen.Consts_C20 V.C20.Model V.C20.Inv V.C20.Spec V.C20.Typed V.C20.Client V.C20.Refcount V.C20.Bulk V.C20.Range V.C20.Final V.C20.Every V.C20.Fits.
Require Import NArith.
Local Open Scope Z_scope.

(* c20_typed: after every history each holder (client holder or map entry) is empty or holds exactly the (type, value) that plain
   value semantics assigns to it (srun: assign stores, copy copies, swap exchanges, clear/surrender empty, adopt takes the client's
   object, a write through value_cast changes that holder only); value_cast<T> yields that value iff T is the stored type and
   "null / bad_value_cast" otherwise; typed access never touches a dead object or one of another type and changes nothing. *)
Theorem c20_typed : forall (H M : nat) (tys : list Z) (ops : list op),
  let s := final H M tys ops in
  err s = false /\
  abs s = srun H M tys (ainit H M) ops /\
  (forall i ty, fst (cast s i ty) = a_cast (srun H M tys (ainit H M) ops) i ty /\ snd (cast s i ty) = s).
Proof. exact typed_main. Qed.
Print Assumptions c20_typed.

Theorem c20_typed_cast : forall (a : ast) (i : nat) (ty v : Z),
  a_cast a i ty = Some v <-> exists r, aslot a i = Some (r, ty, v).
Proof. exact a_cast_spec. Qed.
Print Assumptions c20_typed_cast.

(* c20_typed_every_type: "typed access returns the value last stored" for EVERY type tag of the table (okty: 26 payload types of
   sizeof 1, 4, 8, 9, 12, 15, 16, 24, 32, 40 - in place, heap, the sizes between one and two words, pairs of DISTINCT types that
   two translation units declare under the same name: tags 18..20 / 21..23, see c20_typed_same_name_other_unit, and a polymorphic
   base / derived pair: tags 24 / 25, see c20_typed_adopted_as_static_type): after ANY history, storing
   T(v) in holder i by the typed constructor or the typed operator= makes value_cast<T>(h[i]) yield v (normalised to the type's value
   range) and every other type a type error; a copy of that holder into another one (operator= / copy construction) and the other side
   of a swap yield v for T and a type error otherwise; no error flag.  The tag never enters the argument: value semantics are
   type-independent (the representation is whatever `stored_inplace` says). *)
Theorem c20_typed_every_type : forall (H M : nat) (tys : list Z) (ops : list op) (i ty v : Z) (o : op),
  okh H i = true -> okty ty = true -> o = OAssignVal i ty v \/ o = OConsVal i ty v ->
  let s := final H M tys (ops ++ [o]) in
  err s = false /\
  fst (cast s (hslot i) ty) = Some (norm ty v) /\
  (forall ty', ty' <> ty -> fst (cast s (hslot i) ty') = None) /\
  (forall j c, okh H j = true -> j <> i ->
     c = OAssign j i \/ c = OConsCopy j i \/ c = OSwap i j \/ c = OSwap j i ->
     let s' := final H M tys ((ops ++ [o]) ++ [c]) in
     err s' = false /\ fst (cast s' (hslot j) ty) = Some (norm ty v) /\
     (forall ty', ty' <> ty -> fst (cast s' (hslot j) ty') = None)).
Proof. exact last_stored_every_type. Qed.
Print Assumptions c20_typed_every_type.

(* non-vacuity: all 26 tags satisfy okty; a 12-byte payload (tag 12) stored, copied, swapped with an in-place int, written, re-assigned *)
Example c20_every_tag_ok : forallb okty [0; 1; 2; 3; 4; 5; 6; 7; 8; 9; 10; 11; 12; 13; 14; 15; 16; 17; 18; 19; 20; 21; 22; 23; 24; 25] = true /\ okty 26 = false /\ okty (-1) = false.
Proof. exact every_tag_ok. Qed.
Example c20_twelve_bytes_instance :
  let s := final 3 0 [] [OAssignVal 0 12 345; OConsCopy 1 0; OAssignVal 2 7 5; OSwap 0 2; OSetVal 2 346; OAssign 0 1] in
  err s = false /\ size_of 12 = 12 /\
  fst (cast s (hslot 0) 12) = Some 345 /\ fst (cast s (hslot 1) 12) = Some 345 /\ fst (cast s (hslot 2) 12) = Some 346 /\
  fst (cast s (hslot 2) 7) = None /\ fst (cast s (hslot 0) 14) = None.
Proof. exact twelve_bytes_instance. Qed.

(* c20_typed_same_name_other_unit: type identity, not type NAME.  Tags 18..20 are types of the harness's first translation unit
   (Setting, Triple, Record in an unnamed namespace), tags 21..23 the second unit's types of exactly the same spelling: distinct C++
   types whose std::type_info::name() strings are equal.  `twin ty` is the other unit's type of the same name (-1: there is none).
   After ANY history, a value of type ty stored in holder i is refused through `twin ty` (null / bad_value_cast, state unchanged) while
   ty itself yields the value - in the holder, in its copies (operator=, copy construction) and on the other side of a swap.  The model's
   type test is `hty (slot s i) =? ty` (C++: `v.type() == typeid(T)`; tools/consts/C20.py anchors exactly that comparison in both checked
   forms of value_cast): equality of types, which a comparison of type names does not implement. *)
Theorem c20_typed_same_name_other_unit : forall (H M : nat) (tys : list Z) (ops : list op) (i ty v : Z) (o : op),
  okh H i = true -> okty ty = true -> o = OAssignVal i ty v \/ o = OConsVal i ty v ->
  let s := final H M tys (ops ++ [o]) in
  fst (cast s (hslot i) (twin ty)) = None /\ snd (cast s (hslot i) (twin ty)) = s /\
  fst (cast s (hslot i) ty) = Some (norm ty v) /\
  (forall j c, okh H j = true -> j <> i ->
     c = OAssign j i \/ c = OConsCopy j i \/ c = OSwap i j \/ c = OSwap j i ->
     let s' := final H M tys ((ops ++ [o]) ++ [c]) in
     fst (cast s' (hslot j) (twin ty)) = None /\ fst (cast s' (hslot j) ty) = Some (norm ty v)).
Proof. exact same_name_other_unit_refused. Qed.
Print Assumptions c20_typed_same_name_other_unit.
(* the twin table (same size and representation, another tag), and both directions on a concrete history: unit A's Setting (18) stored,
   copied, swapped; unit A's Record (20) adopted; unit B's Record (23) parsed into the map - the other unit's type of the same name is
   refused everywhere; last conjunct: the observation of the case `cons_val(0,21,5), cast(0,18), cast(0,21)` *)
Example c20_twin_table : map twin [18; 19; 20; 21; 22; 23] = [21; 22; 23; 18; 19; 20] /\ map twin [0; 7; 9; 12; 17; 24; -1] = [-1; -1; -1; -1; -1; -1; -1]
  /\ forallb (fun t => (size_of (twin t) =? size_of t) && Bool.eqb (stored_inplace (twin t)) (stored_inplace t)) [18; 19; 20; 21; 22; 23] = true.
Proof. exact twin_table. Qed.
Example c20_same_name_other_unit_instance :
  let s := final 3 1 [23] [OAssignVal 0 18 42; OConsCopy 1 0; ONew 20 7; OAdopt 2 0; OSwap 0 2; OParse 0 9 1] in
  err s = false /\
  map (fun i => fst (cast s (hslot i) 18)) [0; 1; 2] = [None; Some 42; Some 42] /\
  map (fun i => fst (cast s (hslot i) 21)) [0; 1; 2] = [None; None; None] /\
  fst (cast s (hslot 0) 20) = Some 7 /\ fst (cast s (hslot 0) 23) = None /\
  fst (cast s (mslot 3 0) 23) = Some 9 /\ fst (cast s (mslot 3 0) 20) = None /\
  run_case [0; 1; 0; 1; 0; 21; 5; 12; 0; 18; 12; 0; 21] = [21; 5; 1; -1; 0; 0; 0; 0; 0;  0; 0;  21; 5; 1; -1; 0; 0; 0; 0; 0;  1; 5;  21; 5; 1; -1; 0; 0; 0; 0; 0;  0; 0; 0; 0; 0].
Proof. exact same_name_other_unit_instance. Qed.

(* c20_typed_adopted_as_static_type: the type of a holder is the type its value was stored or adopted AS, never the dynamic type of the
   object behind the adopted pointer.  After ANY history: the client creates an object under tag ty (`T* p = new ...`; k = its index in the
   client's pool) and holder i adopts it (assimilate): value_cast<T>(h[i]) yields the value, EVERY other type is a type error, and so for a
   copy of the holder (operator=, copy construction: VTable<T>::clone copy-constructs a T) and the other side of a swap.  The case alphabet's
   pseudo-tag 26 = `PBase* p = new PDerived(v)` (PDerived : PBase, PBase with a virtual destructor; harness tags 24 / 25) is decoded as
   ty = static_ty 26 = 24: the object is adopted as PBase, so "every other type" includes PDerived, the class the object "really" is.
   The C++ side of that statement (type() passes no object to the vtable's typeid slot and VTable<T>::typeinfo answers &typeid(T)) is a
   translator anchor (tools/consts/C20.py); the harness drives real PDerived objects through every adopting operation. *)
Theorem c20_typed_adopted_as_static_type : forall (H M : nat) (tys : list Z) (ops : list op) (i ty v k : Z),
  okh H i = true -> okty ty = true -> k = Z.of_nat (length (cl (final H M tys ops))) ->
  let hist := (ops ++ [ONew ty v]) ++ [OAdopt i k] in
  let s := final H M tys hist in
  err s = false /\
  fst (cast s (hslot i) ty) = Some (norm ty v) /\
  (forall ty', ty' <> ty -> fst (cast s (hslot i) ty') = None) /\
  (forall j c, okh H j = true -> j <> i ->
     c = OAssign j i \/ c = OConsCopy j i \/ c = OSwap i j \/ c = OSwap j i ->
     let s' := final H M tys (hist ++ [c]) in
     err s' = false /\ fst (cast s' (hslot j) ty) = Some (norm ty v) /\
     (forall ty', ty' <> ty -> fst (cast s' (hslot j) ty') = None)).
Proof. exact adopted_as_static_type. Qed.
Print Assumptions c20_typed_adopted_as_static_type.
(* the adopted-derived case on a concrete history (non-vacuity: okty (static_ty 26) holds): `new(26,5)` decodes to ONew 24 5; adopted by
   holder 0, copy-constructed into holder 1, assigned to holder 2, written through value_cast<PBase>; a NotifiedValue<PBase> whose creator
   returns a new PDerived parses 9 into the map; a second such object added to the map and re-added: type PBase (24) everywhere, PDerived
   (25) refused everywhere, every object destroyed exactly once; a PDerived stored by value IS a PDerived (PBase refused); last conjunct:
   the observation of the case `new(26,5), assimilate(0,0), cast(0,24), cast(0,25)` *)
Example c20_adopted_derived_instance :
  static_ty 26 = 24 /\ static_ty 24 = 24 /\ static_ty 25 = 25 /\ okty (static_ty 26) = true /\ size_of 24 = 16 /\ size_of 25 = 24 /\
  stored_inplace 24 = false /\ stored_inplace 25 = false /\ instr 24 = true /\ instr 25 = true /\
  decode_ops 10 [7; 26; 5; 9; 0; 0; 12; 0; 24; 12; 0; 25] = [ONew 24 5; OAdopt 0 0; OCast 0 24; OCast 0 25] /\
  (let s := final 3 2 [24; 24] [ONew 24 5; OAdopt 0 0; OConsCopy 1 0; OAssign 2 0; OSetVal 0 6; OParse 0 9 1; ONew 24 7; OMapAdd 1 0; OMapAddSame 1] in
   err s = false /\
   map (fun i => fst (cast s (hslot i) 24)) [0; 1; 2] = [Some 6; Some 5; Some 5] /\
   map (fun i => fst (cast s (hslot i) 25)) [0; 1; 2] = [None; None; None] /\
   map (fun n => fst (cast s (mslot 3 n) 24)) [0; 1] = [Some 9; Some 7] /\
   map (fun n => fst (cast s (mslot 3 n) 25)) [0; 1] = [None; None] /\
   err (finish 3 2 s) = false /\ leaked (finish 3 2 s) = false /\ map e_dc (led (finish 3 2 s)) = [1; 1; 1; 1; 1]) /\
  (let s := final 1 0 [] [OConsVal 0 25 8] in fst (cast s (hslot 0) 25) = Some 8 /\ fst (cast s (hslot 0) 24) = None) /\
  run_case [0; 1; 0; 7; 26; 5; 9; 0; 0; 12; 0; 24; 12; 0; 25] =
    [-1; 0; 0; -1;  1; 24; 5; 0;  1; 0; 0; 1; 0;     24; 5; 0; 0;  0;  1; 0; 0; 1; 0;    1; 5;  24; 5; 0; 0;  0;  1; 0; 0; 1; 0;    0; 0;  24; 5; 0; 0;  0;  1; 0; 0; 1; 0;
     0; 1; 1; 0; 0].
Proof. exact adopted_derived_instance. Qed.

(* c20_in_place_only_if_fits: `in_place` is generated from the predicate of detail::vtable<T>() (value_store.h); the in-place table
   placement-constructs the object into the holder's single word (8 bytes on the LP64 target), so for ALL sizes the rule may select it
   only when the object fits.  Holds for `sizeof(T) <= sizeof(void-ptr)` (and for stricter rules); fails for a rule that admits a
   bigger size, e.g. `sizeof(T)/sizeof(void-ptr) <= 1` (true for 9..15) - then C20/Fits.v and this file stop compiling. *)
Theorem c20_in_place_only_if_fits : forall s : Z, 0 < s -> in_place s 8 = true -> s <= 8.
Proof. exact in_place_only_if_fits. Qed.
Print Assumptions c20_in_place_only_if_fits.
(* ... and for the model's type table: whatever the model stores in place fits into the word *)
Theorem c20_stored_inplace_fits : forall ty : Z, stored_inplace ty = true -> size_of ty <= PTR_SIZE.
Proof. exact stored_inplace_fits. Qed.
Example c20_in_place_nonvacuous : in_place 1 8 = true /\ in_place 4 8 = true /\ stored_inplace 7 = true /\ stored_inplace 6 = true.
Proof. exact in_place_nonvacuous. Qed.

(* the member-call composition with operator='s temporary ValueStore is the client-level one-liner *)
Theorem c20_typed_spec : forall (H M : nat) (tys : list Z) (a : ast) (o : op),
  AWf H M a -> snd (astep H M tys a o) = sstep H M tys a o.
Proof. exact astep_sstep. Qed.
Print Assumptions c20_typed_spec.

(* c20_independent: a copy (operator= or copy construction, i <> j) holds an equal value in a distinct object, and whatever
   later operations do to one of the two holders does not change the other (as long as they do not name it). *)
Theorem c20_independent : forall (H M : nat) (tys : list Z) (ops1 : list op) (i j : Z) (rest : list op) (copy : op),
  okh H i = true -> okh H j = true -> i <> j -> copy = OAssign i j \/ copy = OConsCopy i j ->
  let s1 := final H M tys (ops1 ++ [copy]) in
  let s2 := final H M tys ((ops1 ++ [copy]) ++ rest) in
  aslot (abs s1) (hslot i) = aslot (abs s1) (hslot j) /\
  (forall a b, hptr (slot s1 (hslot i)) = Some a -> hptr (slot s1 (hslot j)) = Some b -> a <> b) /\
  ((forall o, In o rest -> ~ In i (targets o)) -> aslot (abs s2) (hslot i) = aslot (abs s1) (hslot i)) /\
  ((forall o, In o rest -> ~ In j (targets o)) -> aslot (abs s2) (hslot j) = aslot (abs s1) (hslot j)).
Proof. exact independent_main. Qed.
Print Assumptions c20_independent.

(* c20_once: for every history the error flag (destructor on a non-live object, copy from / write to / read of a non-live object
   or one of another type) is never raised, also not while everything is torn down; after the history no object has two owners and an
   object is live iff somebody owns it; every destructor ran at most once; and when all holders and the map are gone (finish) the live
   objects are exactly the client's objects and every other object was destroyed exactly once - whether it was stored in place or on
   the heap. *)
Theorem c20_once : forall (H M : nat) (tys : list Z) (ops : list op),
  let s := snd (run_ops H M tys (init H M) ops) in
  let f := finish H M s in
  err s = false /\ err f = false /\
  NoDup (owned s) /\ (forall id, In id (owned s) <-> live (led s) id = true) /\
  (forall e, In e (led s) -> e_dc e = 0 \/ e_dc e = 1) /\
  cl f = cl s /\
  (forall id e, nth_error (led f) id = Some e ->
     (In id (cl s) /\ e_dc e = 0) \/ (~ In id (cl s) /\ e_dc e = 1)) /\
  leaked f = false.
Proof. exact V.C20.Once.once_main. Qed.
Print Assumptions c20_once.

(* c20_valuemap: ValueMap::add with the pointer the entry already holds neither destroys nor re-adopts it: the state is unchanged.
   (assimilate_own_pointer_errs below: without the comparison in ValueMap::add the model reports a destruction of a dead object.) *)
Theorem c20_valuemap : forall (H M : nat) (tys : list Z) (ops : list op) (n ty : Z) (id : nat),
  let s := final H M tys ops in
  okm M n = true -> mpres s n = true -> slot s (mslot H n) = HHeap ty id ->
  step H M tys s (OMapAddSame n) = ([], s).
Proof. exact valuemap_main. Qed.
Print Assumptions c20_valuemap.

Example c20_valuemap_guard_needed :
  let s := final 0 1 [4] [ONew 4 7; OMapAdd 0 0] in
  slot s (mslot 0 0) = HHeap 4 0 /\ err s = false /\ err (p_clear (mslot 0 0) (vs_assimilate (mslot 0 0) 0 s)) = true.
Proof. exact assimilate_own_pointer_errs. Qed.

(* c20_refcount: after every history over any number of SharedOptPtr variables, containers (OptionGroup, ParsedValues,
   OptionContext) and client handle copies - single operations and "k holders at once" - in which no option ever has refcount_bound
   or more simultaneous holders between two operations (`hist_within`: one spare, because operator= counts the new reference
   before it releases the old one; refcount_bound = the range of the counter's declared type and of the types its value is returned
   through, generated from refcountable.h): no dead option was touched and no counter operation left the range of its type
   (`rerr`), a live option's refCount_ is EXACTLY the number of its holders (>= 1, no wrap), an option without holder has been
   destroyed exactly once; when every holder is gone every option has been destroyed exactly once. *)
Theorem c20_refcount : forall (S_ C_ : nat) (ops : list rop),
  hist_within S_ C_ (rinit S_ C_) ops ->
  let s := snd (rrun_ops S_ C_ (rinit S_ C_) ops) in
  let f := rfinish S_ C_ s in
  rerr s = false /\
  (forall o x, nth_error (opts s) o = Some x ->
     (o_dc x = 0 /\ o_rc x = holders s o /\ 1 <= holders s o <= refcount_bound) \/ (o_dc x = 1 /\ holders s o = 0)) /\
  rerr f = false /\
  (forall o x, nth_error (opts f) o = Some x -> o_dc x = 1).
Proof. exact refcount_main. Qed.
Print Assumptions c20_refcount.

(* every count from 0 up to refcount_bound is stored in refCount_ without wrap-around or undefined overflow, is what release() returns
   (so `release() == 0` holds exactly at the last holder) and is what refCount() / count() report *)
Theorem c20_refcount_counter_exact : forall v : Z, 0 <= v <= refcount_bound ->
  rc_store v = (v, false) /\ rc_rel v = v /\ rc_obs v = v /\ rc_cnt v = v.
Proof. exact rc_exact. Qed.
Print Assumptions c20_refcount_counter_exact.

(* The bound covers every number of holders below "exhaustion of memory": a holder is a live SharedOptPtr object, i.e. at least one
   pointer (8 bytes on the LP64 target; an entry of ParsedValues is 40 bytes), so 2^31 simultaneous holders of ONE option occupy
   >= 16 GiB in handle words alone.  With `int refCount_` (and int-returning addRef/release/refCount/count) refcount_bound is
   2^31-1; a narrower declared type (e.g. unsigned short: 65535) makes this theorem fail - the obligation that ties the model's
   range to the header. *)
Theorem c20_refcount_range_sufficient : 2 ^ 31 - 1 <= refcount_bound.
Proof. exact refcount_range_sufficient. Qed.
Print Assumptions c20_refcount_range_sufficient.

(* the model's counter really has the declared range: the first value beyond it is not stored exactly *)
Theorem c20_refcount_range_tight : rc_store (refcount_max + 1) <> (refcount_max + 1, false).
Proof. exact refcount_range_tight. Qed.

(* non-vacuity of `hist_within` at the magnitude in question: 70302 simultaneous holders of one option *)
Example c20_refcount_many_holders :
  hist_within 1 2 (rinit 1 2) many_holders /\
  holders (snd (rrun_ops 1 2 (rinit 1 2) (firstn 4 many_holders))) 0 = 70302 /\
  holders (snd (rrun_ops 1 2 (rinit 1 2) many_holders)) 0 = 101.
Proof. exact many_holders_within. Qed.

(* the bulk operations of the case alphabet are the k-fold iteration of the single operation (so c20_refcount speaks about k real
   handle copies, k occurrences of an option in one parsed text, k adds to a context ...): a collecting container (OptionGroup,
   ParsedValues) or the pool, an OptionContext (registers an option once), the pool dropping its newest k handles *)
Theorem c20_refcount_bulk_is_iteration : forall (S_ C_ : nat) (s : rst) (c i : Z) (n : N),
  length (conts s) = S C_ -> Z.of_N n <= BULK_MAX ->
  ((c =? Z.of_nat C_) || negb (ckind c =? 2) = true ->
     rstep S_ C_ s (RPushN c i (Z.of_N n)) = N.iter n (fun t => rstep S_ C_ t (RPushN c i 1)) s) /\
  (okc C_ c = true -> (ckind c =? 2) = false -> rstep S_ C_ s (RPushN c i 1) = rstep S_ C_ s (RPush c i)) /\
  (okc C_ c = true -> (ckind c =? 2) = true ->
     rstep S_ C_ s (RPushN c i (Z.of_N n)) = N.iter n (fun t => rstep S_ C_ t (RPush c i)) s) /\
  rstep S_ C_ s (RPopN (Z.of_N n)) = N.iter n (fun t => rstep S_ C_ t (RPopN 1)) s.
Proof. exact bulk_is_iteration. Qed.
Print Assumptions c20_refcount_bulk_is_iteration.

(* c20_null_adoption_cleared: adopting a null pointer (assimilate<T>((T* )0) - legal, `delete (T* )0` is valid) makes the holder
   non-empty and typed WITHOUT an object (printed: 1, T, 1 = !empty(), type() == typeid(T), extract_raw() == 0); leaving that state by
   clear() (or surrender(), the destructor, assignment of an empty holder - the model step is the same for the four ways out) yields
   exactly the state that clear() of the holder's PREVIOUS content yields: the holder is empty, typed access through every type is
   refused, nothing was constructed or destroyed for the null pointer (an empty holder: the state is unchanged). *)
Theorem c20_null_adoption_cleared : forall (H M : nat) (tys : list Z) (s : st) (i ty how : Z),
  okh H i = true -> okty ty = true ->
  fst (step H M tys s (OAdoptNull i ty how)) = [1; ty; 1] /\
  snd (step H M tys s (OAdoptNull i ty how)) = p_clear (hslot i) s /\
  slot (snd (step H M tys s (OAdoptNull i ty how))) (hslot i) = HEmpty /\
  (forall ty', fst (cast (snd (step H M tys s (OAdoptNull i ty how))) (hslot i) ty') = None) /\
  (slot s (hslot i) = HEmpty -> snd (step H M tys s (OAdoptNull i ty how)) = s).
Proof.
  intros H M tys s i ty how Hi Ht. cbn [step]. rewrite Hi, Ht. cbn [andb fst snd].
  split; [reflexivity|]. split; [reflexivity|]. split; [apply p_clear_slot_empty|]. split.
  - intros ty'. unfold cast. rewrite p_clear_slot_empty. reflexivity.
  - intros E. unfold p_clear. rewrite E. reflexivity.
Qed.
Print Assumptions c20_null_adoption_cleared.

Example c20_null_adoption_instance :
  let s0 := final 1 0 [] [OConsVal 0 4 7] in
  let s := final 1 0 [] [OConsVal 0 4 7; OAdoptNull 0 9 0; OAdoptNull 0 26 0; OAdoptNull 0 24 1] in
  okh 1 0 = true /\ okty 9 = true /\ slot s0 (hslot 0) = HHeap 4 1 /\
  slot s (hslot 0) = HEmpty /\ fst (cast s (hslot 0) 9) = None /\ fst (cast s (hslot 0) 24) = None /\
  ctor_count (led s) = ctor_count (led s0) /\ dtor_count (led s) = dtor_count (led s0) + 1 /\ err s = false.
Proof. vm_compute. repeat split; reflexivity. Qed.

(* observation outside the preconditions (client obligation, notes/C20.md): ValueMap::clear() while a NotifiedValue stays bound,
   then a second parse of that option = write through the address of a destroyed object (reproduced on the real code under ASan). *)
Example c20_observation_notified_value_after_map_clear :
  let s := final 0 1 [7] [OParse 0 5 1] in
  err s = false /\ err (stale_clear 0 1 s) = false /\ err (snd (step 0 1 [7] (stale_clear 0 1 s) (OParse 0 6 1))) = true.
Proof. exact notified_value_after_map_clear_errs. Qed.

(* ---- non-vacuity ---- *)
Example c20_valuemap_hypotheses_hold :
  let s := final 1 1 [4] [OParse 0 5 1] in
  okm 1 0 = true /\ mpres s 0 = true /\ slot s (mslot 1 0) = HHeap 4 0.
Proof. exact valuemap_hyps. Qed.

Example c20_independent_instance :
  let s1 := final 2 0 [] ([OConsVal 1 4 7] ++ [OAssign 0 1]) in
  let s2 := final 2 0 [] (([OConsVal 1 4 7] ++ [OAssign 0 1]) ++ [OSetVal 1 9; OClear 1]) in
  aslot (abs s1) (hslot 0) = Some (false, 4, 7) /\ aslot (abs s2) (hslot 0) = Some (false, 4, 7) /\ aslot (abs s2) (hslot 1) = None.
Proof. exact independent_instance. Qed.

Example c20_awf_reachable : AWf 2 1 (abs (final 2 1 [4] [OConsVal 0 6 1; OAssign 1 0; OParse 0 3 1])).
Proof. exact (proj2 (final_abs 2 1 [4] [OConsVal 0 6 1; OAssign 1 0; OParse 0 3 1])). Qed.

(* the run on a concrete case: swap of an in-place bool with a heap string, then clear both *)
Example c20_smoke :
  run_case [0; 2; 0; 3; 0; 6; 1; 3; 1; 9; 55; 5; 0; 1] =
  [6; 1; 1; -1; -1; 0; 0; -1; 0; 0; 0; 0; 0;   6; 1; 1; -1; 9; 55; 0; -1; 0; 0; 0; 0; 0;   9; 55; 0; -1; 6; 1; 1; -1; 0; 0; 0; 0; 0;   0; 0; 0; 0; 0].
Proof. vm_compute. reflexivity. Qed.
Print Assumptions c20_smoke.
