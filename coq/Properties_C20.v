(* C20 - type-erased value holder keeps value semantics and single ownership.
   Model: C20/Model.v (ownership ledger of ValueStore / ValueMap::add / NotifiedValue::doParse; RefCountable/IntrusiveSharedPtr).
   Specification: C20/Spec.v (value semantics: a holder is empty or (representation, type, value); `sstep` is one line per operation).
   `final H M tys ops` = the model state after the history `ops` over H client holders, one ValueMap with M names, any client pointer pool. *)
Require Import V.Lib.Base V.C20.Model V.C20.Inv V.C20.Spec V.C20.Typed V.C20.Client V.C20.Refcount V.C20.Final.
Local Open Scope Z_scope.

(* c20_typed: after every history each holder (client holder or map entry) is empty or holds exactly the (type, value) that plain
   value semantics assigns to it (srun: assign stores, copy copies, swap exchanges, clear/surrender empty, adopt takes the client's
   object, a write through value_cast changes that holder only); value_cast<T> yields that value iff T is the stored type and
   "null / bad_value_cast" otherwise; typed access never touches a dead object or one of another type and changes nothing. *)
Theorem c20_typed : forall (H M : nat) (tys : list Z) (ops : list op),
  let s := final H M tys ops in
  err s = false /\
  abs s = srun H M tys (ainit H M) ops /\
  (forall i ty, fst (cast s i ty) = a_cast (srun H M tys (ainit H M) ops) i ty /\ snd (cast s i ty) = s).
Proof. exact typed_main. Qed.
Print Assumptions c20_typed.

Theorem c20_typed_cast : forall (a : ast) (i : nat) (ty v : Z),
  a_cast a i ty = Some v <-> exists r, aslot a i = Some (r, ty, v).
Proof. exact a_cast_spec. Qed.
Print Assumptions c20_typed_cast.

(* the member-call composition with operator='s temporary ValueStore is the client-level one-liner *)
Theorem c20_typed_spec : forall (H M : nat) (tys : list Z) (a : ast) (o : op),
  AWf H M a -> snd (astep H M tys a o) = sstep H M tys a o.
Proof. exact astep_sstep. Qed.
Print Assumptions c20_typed_spec.

(* c20_independent: a copy (operator= or copy construction, i <> j) holds an equal value in a distinct object, and whatever
   later operations do to one of the two holders does not change the other (as long as they do not name it). *)
Theorem c20_independent : forall (H M : nat) (tys : list Z) (ops1 : list op) (i j : Z) (rest : list op) (copy : op),
  okh H i = true -> okh H j = true -> i <> j -> copy = OAssign i j \/ copy = OConsCopy i j ->
  let s1 := final H M tys (ops1 ++ [copy]) in
  let s2 := final H M tys ((ops1 ++ [copy]) ++ rest) in
  aslot (abs s1) (hslot i) = aslot (abs s1) (hslot j) /\
  (forall a b, hptr (slot s1 (hslot i)) = Some a -> hptr (slot s1 (hslot j)) = Some b -> a <> b) /\
  ((forall o, In o rest -> ~ In i (targets o)) -> aslot (abs s2) (hslot i) = aslot (abs s1) (hslot i)) /\
  ((forall o, In o rest -> ~ In j (targets o)) -> aslot (abs s2) (hslot j) = aslot (abs s1) (hslot j)).
Proof. exact independent_main. Qed.
Print Assumptions c20_independent.

(* c20_once: for every history the error flag (destructor on a non-live object, copy from / write to / read of a non-live object
   or one of another type) is never raised, also not while everything is torn down; after the history no object has two owners and an
   object is live iff somebody owns it; every destructor ran at most once; and when all holders and the map are gone (finish) the live
   objects are exactly the client's objects and every other object was destroyed exactly once - whether it was stored in place or on
   the heap. *)
Theorem c20_once : forall (H M : nat) (tys : list Z) (ops : list op),
  let s := snd (run_ops H M tys (init H M) ops) in
  let f := finish H M s in
  err s = false /\ err f = false /\
  NoDup (owned s) /\ (forall id, In id (owned s) <-> live (led s) id = true) /\
  (forall e, In e (led s) -> e_dc e = 0 \/ e_dc e = 1) /\
  cl f = cl s /\
  (forall id e, nth_error (led f) id = Some e ->
     (In id (cl s) /\ e_dc e = 0) \/ (~ In id (cl s) /\ e_dc e = 1)) /\
  leaked f = false.
Proof. exact V.C20.Once.once_main. Qed.
Print Assumptions c20_once.

(* c20_valuemap: ValueMap::add with the pointer the entry already holds neither destroys nor re-adopts it: the state is unchanged.
   (assimilate_own_pointer_errs below: without the comparison in ValueMap::add the model reports a destruction of a dead object.) *)
Theorem c20_valuemap : forall (H M : nat) (tys : list Z) (ops : list op) (n ty : Z) (id : nat),
  let s := final H M tys ops in
  okm M n = true -> mpres s n = true -> slot s (mslot H n) = HHeap ty id ->
  step H M tys s (OMapAddSame n) = ([], s).
Proof. exact valuemap_main. Qed.
Print Assumptions c20_valuemap.

Example c20_valuemap_guard_needed :
  let s := final 0 1 [4] [ONew 4 7; OMapAdd 0 0] in
  slot s (mslot 0 0) = HHeap 4 0 /\ err s = false /\ err (p_clear (mslot 0 0) (vs_assimilate (mslot 0 0) 0 s)) = true.
Proof. exact assimilate_own_pointer_errs. Qed.

(* c20_refcount: after every history over any number of SharedOptPtr variables and containers (OptionGroup, ParsedValues,
   OptionContext) no dead option was touched, a live option's refCount_ is the number of its holders (>= 1), an option without holder
   has been destroyed exactly once; when every holder is gone every option has been destroyed exactly once. *)
Theorem c20_refcount : forall (S_ C_ : nat) (ops : list rop),
  let s := snd (rrun_ops S_ C_ (rinit S_ C_) ops) in
  let f := rfinish S_ C_ s in
  rerr s = false /\
  (forall o x, nth_error (opts s) o = Some x ->
     (o_dc x = 0 /\ o_rc x = holders s o /\ 1 <= holders s o) \/ (o_dc x = 1 /\ holders s o = 0)) /\
  rerr f = false /\
  (forall o x, nth_error (opts f) o = Some x -> o_dc x = 1).
Proof. exact refcount_main. Qed.
Print Assumptions c20_refcount.

(* observation outside the preconditions (client obligation, notes/C20.md): ValueMap::clear() while a NotifiedValue stays bound,
   then a second parse of that option = write through the address of a destroyed object (reproduced on the real code under ASan). *)
Example c20_observation_notified_value_after_map_clear :
  let s := final 0 1 [7] [OParse 0 5 1] in
  err s = false /\ err (stale_clear 0 1 s) = false /\ err (snd (step 0 1 [7] (stale_clear 0 1 s) (OParse 0 6 1))) = true.
Proof. exact notified_value_after_map_clear_errs. Qed.

(* ---- non-vacuity ---- *)
Example c20_valuemap_hypotheses_hold :
  let s := final 1 1 [4] [OParse 0 5 1] in
  okm 1 0 = true /\ mpres s 0 = true /\ slot s (mslot 1 0) = HHeap 4 0.
Proof. exact valuemap_hyps. Qed.

Example c20_independent_instance :
  let s1 := final 2 0 [] ([OConsVal 1 4 7] ++ [OAssign 0 1]) in
  let s2 := final 2 0 [] (([OConsVal 1 4 7] ++ [OAssign 0 1]) ++ [OSetVal 1 9; OClear 1]) in
  aslot (abs s1) (hslot 0) = Some (false, 4, 7) /\ aslot (abs s2) (hslot 0) = Some (false, 4, 7) /\ aslot (abs s2) (hslot 1) = None.
Proof. exact independent_instance. Qed.

Example c20_awf_reachable : AWf 2 1 (abs (final 2 1 [4] [OConsVal 0 6 1; OAssign 1 0; OParse 0 3 1])).
Proof. exact (proj2 (final_abs 2 1 [4] [OConsVal 0 6 1; OAssign 1 0; OParse 0 3 1])). Qed.

(* the run on a concrete case: swap of an in-place bool with a heap string, then clear both *)
Example c20_smoke :
  run_case [0; 2; 0; 3; 0; 6; 1; 3; 1; 9; 55; 5; 0; 1] =
  [6; 1; 1; -1; -1; 0; 0; -1; 0; 0; 0; 0; 0;   6; 1; 1; -1; 9; 55; 0; -1; 0; 0; 0; 0; 0;   9; 55; 0; -1; 6; 1; 1; -1; 0; 0; 0; 0; 0;   0; 0; 0; 0; 0].
Proof. vm_compute. reflexivity. Qed.
Print Assumptions c20_smoke.
