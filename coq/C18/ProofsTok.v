(* C18 - token accounting: every arrival is in exactly one place (its own activation before the decision, the
   pending slot, the deferred activation, or one entry of the fate list); signal numbers travel with the token. *)
Require Import V.Lib.Base V.C18.Model V.C18.Proofs.
Local Open Scope Z_scope.
Local Arguments Z.add : simpl never.
Local Arguments Z.sub : simpl never.

Definition one (b : bool) : Z := if b then 1 else 0.

(* the activation still has to decide what becomes of its signal *)
Definition holds (f : hframe) : bool := match h_pc f with HInc | HCbEnter | HTest | HWrite => true | _ => false end.

Fixpoint cnt_stack (i : nat) (k : list hframe) : Z :=
  match k with [] => 0 | f :: r => one (holds f && (h_id f =? i)%nat) + cnt_stack i r end.
Definition cnt_slot (i : nat) (s : st) : Z := one (negb (pending s =? 0) && (pend_id s =? i)%nat).
Fixpoint cnt_fates (i : nat) (l : list (nat * fate)) : Z :=
  match l with [] => 0 | x :: r => one (fst x =? i)%nat + cnt_fates i r end.
Definition total (i : nat) (s : st) : Z := cnt_stack i (stack s) + cnt_slot i s + cnt_fates i (fates s).

Definition no_fate (x : fate) (l : list (nat * fate)) : Prop := forall i, ~ In (i, x) l.

Record Tok (s : st) : Prop := mkTok {
  t_tot  : forall i, total i s = one (i <? length (arrs s))%nat;
  t_fsig : Forall (fun f => nth_error (arrs s) (h_id f) = Some (h_sig f)) (stack s);
  t_ssig : pending s <> 0 -> nth_error (arrs s) (pend_id s) = Some (pending s);
  t_dsig : forall i x, In (i, FDelivered x) (fates s) -> nth_error (arrs s) i = Some x;
  t_lost : no_fate FLost (fates s);
  t_stop : forall i, In (i, FStopLost) (fates s) -> 0 < stops s + cbt s }.

Lemma one_cases b : (b = true /\ one b = 1) \/ (b = false /\ one b = 0).
Proof. destruct b; simpl; auto. Qed.

Ltac cases :=
  repeat match goal with
  | |- context [(?a =? ?b)%nat] => destruct (Nat.eqb_spec a b)
  | |- context [(?a <? ?b)%nat] => destruct (Nat.ltb_spec a b)
  | |- context [?a =? ?b] => destruct (Z.eqb_spec a b)
  | H : context [(?a =? ?b)%nat] |- _ => destruct (Nat.eqb_spec a b)
  | H : context [(?a <? ?b)%nat] |- _ => destruct (Nat.ltb_spec a b)
  | H : context [?a =? ?b] |- _ => destruct (Z.eqb_spec a b)
  end.

Lemma nth_error_snoc_keep (l : list Z) i x y : nth_error l i = Some x -> nth_error (l ++ [y]) i = Some x.
Proof.
  intro H. rewrite nth_error_app1; [exact H|]. apply nth_error_Some. congruence.
Qed.

Lemma tok_init o a : Tok (init o a).
Proof.
  constructor; simpl; try (intros; contradiction); try discriminate.
  - intro i. unfold total, cnt_slot. simpl. destruct i; reflexivity.
  - constructor.
  - intros i H. exact H.
Qed.

Lemma tok_arrive d s : d <> 0 -> Tok s -> Tok (arrive d s).
Proof.
  intros Hd [Ht Hfs Hss Hds Hl Hsp].
  constructor; simpl; auto.
  - intro i. specialize (Ht i). unfold total, cnt_slot in *. simpl. rewrite app_length. simpl.
    unfold holds. simpl. unfold one in *. cases; simpl in *; lia.
  - constructor.
    + simpl. rewrite nth_error_app2 by lia. rewrite Nat.sub_diag. reflexivity.
    + eapply Forall_impl; [|exact Hfs]. intros f. apply nth_error_snoc_keep.
  - intro H. apply nth_error_snoc_keep. auto.
  - intros i x H. apply nth_error_snoc_keep. eauto.
Qed.

Ltac inl :=
  repeat match goal with
  | H : In _ (_ :: _) |- _ => simpl in H
  | H : _ = _ \/ _ |- _ => destruct H as [H|H]; [try discriminate; try (inversion H; subst; clear H)|]
  end.

Ltac tot Ht :=
  let i := fresh "i" in
  intro i; specialize (Ht i); unfold total, cnt_slot in *; simpl; unfold holds; simpl; unfold one in *;
  cases; simpl in *; try lia; try congruence.

Ltac ins Hl := let i := fresh "i" in let H := fresh "H" in
  first [intros i ? H | intros i H]; inl; first [eapply Hl; eassumption | eauto | lia].

Lemma tok_mstep s : stack s = [] -> Inv s -> Tok s -> Tok (mstep true s).
Proof.
  intros Hs HI [Ht Hfs Hss Hds Hl Hsp].
  unfold mstep.
  destruct (mpc_ s) as [|dl|dl p pid] eqn:Hmp.
  - destruct (ops s) as [|[|dl] o] eqn:Ho.
    + constructor; auto.
    + constructor; simpl; auto.
    + constructor; simpl; auto.
  - unfold take. destruct (Z.eqb_spec (pending s) 0) as [Hp|Hp]; [|destruct dl].
    + constructor; simpl; [tot Ht|exact Hfs|congruence|exact Hds|exact Hl|exact Hsp].
    + constructor; simpl; [tot Ht| |congruence|exact Hds|exact Hl|exact Hsp].
      constructor; [simpl; auto|exact Hfs].
    + constructor; simpl; [tot Ht|exact Hfs|congruence|ins Hds|ins Hl|ins Hsp].
  - destruct HI as [_ _ _ _ Hm _ _ _ _ _ _]. rewrite Hmp in Hm. contradiction.
Qed.

Lemma cnt_stack_nonneg i k : 0 <= cnt_stack i k.
Proof. induction k as [|f r IH]; simpl; [lia|]. unfold one. destruct (holds f && (h_id f =? i)%nat); lia. Qed.
Lemma cnt_fates_nonneg i l : 0 <= cnt_fates i l.
Proof. induction l as [|x r IH]; simpl; [lia|]. unfold one. destruct (fst x =? i)%nat; lia. Qed.

Ltac tot' Ht Hpc :=
  let i := fresh "i" in
  intro i; specialize (Ht i); unfold total, cnt_slot in *; simpl; unfold holds; simpl; rewrite ?Hpc; simpl in *;
  match goal with |- context [cnt_stack i ?r] => pose proof (cnt_stack_nonneg i r) end;
  match goal with |- context [cnt_fates i ?r] => pose proof (cnt_fates_nonneg i r) end;
  repeat (unfold one in *; cases; simpl in * ); try lia; try congruence.

Lemma tok_hstep s f rest : stack s = f :: rest -> Inv s -> Tok s -> Tok (hstep f rest s).
Proof.
  intros Hs HI [Ht Hfs Hss Hds Hl Hsp].
  destruct HI as [_ _ Hst _ _ _ _ _ _ Hdst Hsig].
  rewrite Hs in *.
  inversion Hfs as [|? ? Hfs1 Hfs2]; subst. inversion Hdst as [|? ? Hdst1 Hdst2]; subst.
  inversion Hsig as [|? ? Hsig1 Hsig2]; subst. unfold def_stop in Hdst1.
  assert (Ht' : forall i, one (holds f && (h_id f =? i)%nat) + cnt_stack i rest + cnt_slot i s + cnt_fates i (fates s)
                          = one (i <? length (arrs s))%nat).
  { intro i. specialize (Ht i). unfold total in Ht. rewrite Hs in Ht. simpl in Ht. exact Ht. }
  clear Ht. unfold holds in Ht'.
  unfold hstep. destruct (h_pc f) eqn:Hpc.
  - (* HInc *)
    constructor; simpl; [|constructor; [simpl; exact Hfs1|exact Hfs2]|exact Hss|exact Hds|exact Hl|exact Hsp].
    tot' Ht' Hpc.
  - (* HCbEnter *)
    constructor; simpl; [|constructor; [simpl; exact Hfs1|exact Hfs2]|exact Hss| |ins Hl|ins Hsp].
    + tot' Ht' Hpc.
    + intros i x H. inl; eauto.
  - (* HCbExit *)
    destruct (answers s) as [|[|] a] eqn:Ha.
    + constructor; simpl; [|constructor; [simpl; exact Hfs1|exact Hfs2]|exact Hss|exact Hds|exact Hl|exact Hsp].
      tot' Ht' Hpc.
    + constructor; simpl; [|constructor; [simpl; exact Hfs1|exact Hfs2]|exact Hss|exact Hds|exact Hl|exact Hsp].
      tot' Ht' Hpc.
    + constructor; simpl; [|exact Hfs2|exact Hss|exact Hds|exact Hl|].
      * tot' Ht' Hpc.
      * intros i H. specialize (Hsp i H). lia.
  - (* HTest *)
    destruct (Z.eqb_spec (pending s) 0) as [Hp|Hp].
    + constructor; simpl; [|constructor; [simpl; exact Hfs1|exact Hfs2]|exact Hss|exact Hds|exact Hl|exact Hsp].
      tot' Ht' Hpc.
    + constructor; simpl; [|constructor; [simpl; exact Hfs1|exact Hfs2]|exact Hss| | |].
      * tot' Ht' Hpc.
      * intros i x H. destruct (h_def f); inl; eauto.
      * intros i H. destruct (h_def f); inl; eapply Hl; eassumption.
      * intros i H. destruct (h_def f) eqn:Hd; inl; eauto.
  - (* HWrite *)
    constructor; simpl; [|constructor; [simpl; exact Hfs1|exact Hfs2]|intros _; exact Hfs1| | |].
    + tot' Ht' Hpc.
    + intros i x H. destruct (pending s =? 0); inl; eauto.
    + intros i H. destruct (pending s =? 0); inl; eapply Hl; eassumption.
    + intros i H. destruct (pending s =? 0); inl; eauto.
  - (* HDec *)
    constructor; simpl; [|exact Hfs2|exact Hss|exact Hds|exact Hl|exact Hsp].
    tot' Ht' Hpc.
Qed.

Theorem tok_step d s : Inv s -> Tok s -> Tok (step true d s).
Proof.
  intros HI H. unfold step. destruct (Z.eqb_spec d 0) as [Hd|Hd].
  - destruct (stack s) as [|f rest] eqn:Hs.
    + apply tok_mstep; assumption.
    + apply tok_hstep; assumption.
  - apply tok_arrive; assumption.
Qed.

(* the running callback takes a block: no token moves *)
Lemma tok_cbb s : Tok s -> Tok (cb_block s).
Proof.
  intros HT. unfold cb_block. destruct (stack s) as [|f rest] eqn:Hs; [exact HT|].
  destruct (h_pc f) eqn:Hpc; try exact HT.
  destruct HT as [Ht Hfs Hss Hds Hl Hsp]. rewrite Hs in Hfs.
  constructor; simpl; auto.
  - intro i. specialize (Ht i). unfold total, cnt_slot in *. rewrite Hs in Ht. simpl in *. exact Ht.
  - intros i H. specialize (Hsp i H). lia.
Qed.

Theorem reach_tok o a s : bal 0 o = true -> reach o a s -> Tok s.
Proof.
  intros Hb Hr. induction Hr as [|s d Hr IH|s Hr IH|s o' Hr IH Hs Hm Ho]; [apply tok_init| |apply tok_cbb; exact IH|].
  - apply tok_step; [eapply reach_inv; eassumption|exact IH].
  - destruct IH as [Ht Hfs Hss Hds Hl Hsp]. constructor; simpl; auto.
Qed.
