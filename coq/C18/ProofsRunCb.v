(* C18 - the OS-level trace producer [orun] on flows that are NOT well nested from 0 (answer code 4: the callback of an
   arrival before the first operation takes a block, the main flow releases it).  Every state it passes through is, with
   the ghost plan emptied ([ops] of the core, [oflow] of the registry: set_flow s []), a state of an [oreach] history: the
   history keeps the empty plan, and whenever the main flow executes an operation it re-plans ([oreach_flow]) to exactly
   that operation and executes it - legal iff the operation is well nested relative to the blocks held THEN ([wn_run]).
   All other steps (activations, sigHandler, arrivals, takes) do not read the plan. *)
Require Import V.Lib.Base V.C18.Model V.C18.Disp V.C18.Proofs V.C18.ProofsTok V.C18.ProofsThm V.C18.ProofsRun.
Require Import V.C18.ProofsDisp V.C18.ProofsDispThm.
Local Open Scope Z_scope.

(* the states [orun] passes through: s is recorded exactly where [orun] prints [oemit d s] (same recursion) *)
Fixpoint ovisits (fuel : nat) (ds : list Z) (s : ost) : list ost :=
  match fuel with
  | O => [s]
  | S n =>
      let d := match ds with [] => 0 | d :: _ => d end in
      if (d =? 0) && (ocode s =? 0) then [s]
      else s :: ovisits n (tl ds) (settle (ostep d s))
  end.

(* decision d makes the main flow execute a step at an operation boundary: the only step that reads the plan *)
Definition main_acts (d : Z) (s : ost) : bool :=
  (d =? 0) && match hs s with [] => at_op (core s) | _ => false end.

(* the next operation of the main flow is legal given the blocks the application holds now (its own or callback-taken):
   an unblockSignals needs a block to release *)
Definition legal_next (s : ost) : bool :=
  match oflow (reg s), ops (core s) with
  | OCore :: _, Unblock _ :: _ => 0 <? depth (core s)
  | _, _ => true
  end.

(* THE FLOW IS WELL NESTED RELATIVE TO THE BLOCKS HELD: whenever the main flow executes an operation, that operation is
   legal at the depth reached then.  For a flow that is [bal k] when the main flow executes its first operation after
   callbacks took k blocks this holds ([wn_bal_run] below, [wn_bal_wn]); it also covers flows that release a callback-taken
   block, let the next arrival's callback take another one, release that, ...  (never [bal k] as a whole). *)
Fixpoint wn_run (fuel : nat) (ds : list Z) (s : ost) : bool :=
  match fuel with
  | O => true
  | S n =>
      let d := match ds with [] => 0 | d :: _ => d end in
      if (d =? 0) && (ocode s =? 0) then true
      else (if main_acts d s then legal_next s else true) && wn_run n (tl ds) (settle (ostep d s))
  end.

(* what the theorem says about a visited state: with the ghost plan emptied it is a state of an [oreach] history *)
Definition shadowed (pre : Z -> bool) (s : ost) : Prop := oreach pre (set_flow s []).

Lemma orun_in_visits n : forall ds s, In (snd (orun n ds s)) (ovisits n ds s).
Proof.
  induction n as [|n IH]; intros ds s; [left; reflexivity|].
  change (orun (S n) ds s) with
    (let d := match ds with [] => 0 | d :: _ => d end in
     if (d =? 0) && (ocode s =? 0) then (oemit 0 s, s)
     else let '(o, s') := orun n (tl ds) (settle (ostep d s)) in (oemit d s ++ o, s')).
  change (ovisits (S n) ds s) with
    (let d := match ds with [] => 0 | d :: _ => d end in
     if (d =? 0) && (ocode s =? 0) then [s]
     else s :: ovisits n (tl ds) (settle (ostep d s))).
  cbv zeta.
  destruct ((match ds with [] => 0 | d :: _ => d end =? 0) && (ocode s =? 0)); [left; reflexivity|].
  specialize (IH (tl ds) (settle (ostep match ds with [] => 0 | d :: _ => d end s))).
  destruct (orun n (tl ds) (settle (ostep match ds with [] => 0 | d :: _ => d end s))). right. exact IH.
Qed.

(* the decisions taken at the visited states, and: what [orun] prints is [oemit d s] for exactly these (d, s), in order
   (followed by -1 if the fuel ran out, which c18_os_fuel_sufficient / c18_os_run_with_fuel exclude for the decoded cases) *)
Fixpoint odecs (fuel : nat) (ds : list Z) (s : ost) : list Z :=
  match fuel with
  | O => []
  | S n =>
      let d := match ds with [] => 0 | d :: _ => d end in
      if (d =? 0) && (ocode s =? 0) then [0]
      else d :: odecs n (tl ds) (settle (ostep d s))
  end.

Lemma orun_trace n : forall ds s, exists tail, (tail = [] \/ tail = [-1]) /\
  fst (orun n ds s) = flat_map (fun p => oemit (fst p) (snd p)) (combine (odecs n ds s) (ovisits n ds s)) ++ tail.
Proof.
  induction n as [|n IH]; intros ds s; [exists [-1]; split; [right|]; reflexivity|].
  change (orun (S n) ds s) with
    (let d := match ds with [] => 0 | d :: _ => d end in
     if (d =? 0) && (ocode s =? 0) then (oemit 0 s, s)
     else let '(o, s') := orun n (tl ds) (settle (ostep d s)) in (oemit d s ++ o, s')).
  change (ovisits (S n) ds s) with
    (let d := match ds with [] => 0 | d :: _ => d end in
     if (d =? 0) && (ocode s =? 0) then [s]
     else s :: ovisits n (tl ds) (settle (ostep d s))).
  change (odecs (S n) ds s) with
    (let d := match ds with [] => 0 | d :: _ => d end in
     if (d =? 0) && (ocode s =? 0) then [0]
     else d :: odecs n (tl ds) (settle (ostep d s))).
  cbv zeta. set (d := match ds with [] => 0 | d :: _ => d end).
  destruct ((d =? 0) && (ocode s =? 0)).
  - exists []. split; [left; reflexivity|]. cbn [combine flat_map fst snd]. rewrite !app_nil_r. reflexivity.
  - destruct (IH (tl ds) (settle (ostep d s))) as (tail & Ht & He). exists tail. split; [exact Ht|].
    destruct (orun n (tl ds) (settle (ostep d s))) as [o s']. cbn [fst] in He |- *. rewrite He.
    cbn [combine flat_map fst snd]. rewrite <- app_assoc. reflexivity.
Qed.

Lemma visits_reach pre n : forall ds s, oreach pre s -> Forall (oreach pre) (ovisits n ds s).
Proof.
  induction n as [|n IH]; intros ds s Hr; [constructor; [exact Hr|constructor]|].
  change (ovisits (S n) ds s) with
    (let d := match ds with [] => 0 | d :: _ => d end in
     if (d =? 0) && (ocode s =? 0) then [s]
     else s :: ovisits n (tl ds) (settle (ostep d s))).
  cbv zeta.
  destruct ((match ds with [] => 0 | d :: _ => d end =? 0) && (ocode s =? 0)); [constructor; [exact Hr|constructor]|].
  constructor; [exact Hr|]. apply IH. apply settle_reach. constructor. exact Hr.
Qed.

(* ---- steps that do not read the plan commute with re-planning ---- *)
Lemma step_set_ops c o : at_op c = false -> step true 0 (set_ops c o) = set_ops (step true 0 c) o.
Proof.
  unfold at_op, step. simpl. destruct (stack c) as [|f rest] eqn:Hs.
  - unfold mstep. simpl. destruct (mpc_ c) as [|dl|dl p pid] eqn:Hm; [discriminate| |]; intros _.
    + unfold take. simpl. destruct (pending c =? 0); [reflexivity|]. destruct dl; simpl; rewrite ?Hs; reflexivity.
    + unfold take. simpl. destruct (p =? 0); [rewrite ?Hs; reflexivity|]. destruct dl; simpl; rewrite ?Hs; reflexivity.
  - intros _. unfold hstep. destruct (h_pc f); simpl; try reflexivity.
    + destruct (answers c) as [|[|] ?]; reflexivity.
    + destruct (pending c =? 0); reflexivity.
Qed.

Lemma cb_block_set_ops c o : cb_block (set_ops c o) = set_ops (cb_block c) o.
Proof.
  unfold cb_block. simpl. destruct (stack c) as [|f rest] eqn:Hs; [reflexivity|].
  destruct (h_pc f); simpl; rewrite ?Hs; reflexivity.
Qed.

Definition set_oflow (r : rst) (fl : list oop) : rst :=
  mkR (inst r) (live r) (nxt r) fl (fault r) (alarm_set r) (rearm r).

Lemma cstep_set_ops c r o fl : at_op c = false -> cstep (set_ops c o) (set_oflow r fl) = set_ops (cstep c r) o.
Proof.
  intro H. unfold cstep. change (cbblock_now (set_ops c o) (set_oflow r fl)) with (cbblock_now c r).
  rewrite step_set_ops by exact H. destruct (cbblock_now c r); [apply cb_block_set_ops|reflexivity].
Qed.

Lemma ostep_set_flow d s g :
  (d = 0 -> at_op (core s) = true -> exists e r, hs s = e :: r /\ s_ph e <> PRun) ->
  ostep d (set_flow s g) = set_flow (ostep d s) g.
Proof.
  intro H. unfold ostep. destruct (Z.eqb_spec d 0) as [Hd|Hd].
  - specialize (H Hd). change (hs (set_flow s g)) with (hs s).
    destruct (hs s) as [|e r] eqn:Hh.
    + change (at_op (core (set_flow s g))) with (at_op (core s)).
      destruct (at_op (core s)) eqn:Ha.
      * destruct (H eq_refl) as (e & r & He & _). discriminate.
      * unfold set_flow at 1. simpl.
        change (mkR (inst (reg s)) (live (reg s)) (nxt (reg s)) (shape_of g) (fault (reg s)) (alarm_set (reg s)) (rearm (reg s)))
          with (set_oflow (reg s) (shape_of g)).
        rewrite cstep_set_ops by exact Ha. reflexivity.
    + destruct (s_ph e) eqn:Hp.
      * change (inst (reg (set_flow s g))) with (inst (reg s)). destruct (inst (reg s)) as [[|?]|]; reflexivity.
      * destruct (at_op (core s)) eqn:Ha.
        { destruct (H eq_refl) as (e' & r' & He & Hne). inversion He; subst. contradiction. }
        unfold set_flow at 1 2 3 4. simpl.
        change (mkR (inst (reg s)) (live (reg s)) (nxt (reg s)) (shape_of g) (fault (reg s)) (alarm_set (reg s)) (rearm (reg s)))
          with (set_oflow (reg s) (shape_of g)).
        rewrite cstep_set_ops by exact Ha. reflexivity.
      * reflexivity.
  - destruct (is_sig d); [|reflexivity].
    change (dsp (set_flow s g) d) with (dsp s d). destruct (dsp s d); reflexivity.
Qed.

Lemma settle_set_flow s g : settle (set_flow s g) = set_flow (settle s) g.
Proof.
  unfold settle. change (hs (set_flow s g)) with (hs s). destruct (hs s) as [|e r] eqn:Hh; [reflexivity|].
  destruct (s_ph e) eqn:Hp; try reflexivity.
  - apply ostep_set_flow. intros _ _. exists e, r. split; [exact Hh|congruence].
  - apply ostep_set_flow. intros _ _. exists e, r. split; [exact Hh|congruence].
Qed.

(* in a reachable state a sigHandler activation in phase PRun has its processSignal activation on the core stack *)
Lemma run_not_at_op pre s e r : OInv pre s -> hs s = e :: r -> s_ph e = PRun -> at_op (core s) = false.
Proof.
  intros HI Hh Hp. pose proof (o_link _ _ HI) as Hl. rewrite Hh in Hl. rewrite running_cons in Hl.
  unfold is_run in Hl. rewrite Hp in Hl. unfold at_op. destruct (stack (core s)); [discriminate|reflexivity].
Qed.

Lemma idle_set_flow s : idle s = true -> idle (set_flow s []) = true.
Proof.
  unfold idle. change (hs (set_flow s [])) with (hs s). destruct (hs s) eqn:Hh; [|discriminate].
  unfold ocode. change (hs (set_flow s [])) with (hs s). rewrite Hh.
  change (at_op (core (set_flow s []))) with (at_op (core s)).
  destruct (at_op (core s)) eqn:Ha.
  - intros _. unfold at_op in Ha. simpl. unfold code. simpl.
    destruct (stack (core s)); [|discriminate]. destruct (mpc_ (core s)); try discriminate. reflexivity.
  - unfold at_op in Ha. unfold code. destruct (stack (core s)) as [|f ?].
    + destruct (mpc_ (core s)); [discriminate| |]; intro; discriminate.
    + destruct (h_pc f); intro; discriminate.
Qed.

(* ---- a step of the main flow: only the head of the plan matters ---- *)
Lemma main_step s x g : hs s = [] -> at_op (core s) = true ->
  ostep 0 (set_flow s (x :: g)) = set_flow (ostep 0 (set_flow s [x])) g.
Proof.
  intros Hh Ha. destruct s as [c d h ac dr r]. simpl in Hh, Ha. subst h.
  destruct c as [cb bl pe pid mp op stk an ar dp sp fa]. unfold at_op in Ha. simpl in Ha.
  destruct stk; [|discriminate]. destruct mp; try discriminate.
  destruct x as [[|dl]| | | | | |]; try reflexivity.
  destruct r as [i l nx ofl flt als rea]. destruct l; reflexivity.
Qed.

Lemma main_step_nil s : hs s = [] -> at_op (core s) = true ->
  ostep 0 (set_flow s []) = set_flow (ostep 0 (set_flow s [])) [].
Proof.
  intros Hh Ha. destruct s as [c d h ac dr r]. simpl in Hh, Ha. subst h.
  destruct c as [cb bl pe pid mp op stk an ar dp sp fa]. unfold at_op in Ha. simpl in Ha.
  destruct stk; [|discriminate]. destruct mp; try discriminate. reflexivity.
Qed.

Lemma legal_bal s x g : set_flow s (x :: g) = s -> legal_next s = true -> bal (depth (core s)) (core_of [x]) = true.
Proof.
  intros Hf Hl. unfold legal_next in Hl. rewrite <- Hf in Hl.
  destruct x as [[|dl]| | | | | |]; simpl in Hl |- *; try reflexivity. rewrite Hl. reflexivity.
Qed.

(* ---- the simulation ---- *)
Theorem orun_reach_cb pre n : forall ds s g,
  oreach pre (set_flow s []) -> set_flow s g = s -> wn_run n ds s = true ->
  Forall (shadowed pre) (ovisits n ds s).
Proof.
  induction n as [|n IH]; intros ds s g Hr Hf Hw.
  - constructor; [exact Hr|constructor].
  - change (ovisits (S n) ds s) with
      (let d := match ds with [] => 0 | d :: _ => d end in
       if (d =? 0) && (ocode s =? 0) then [s]
       else s :: ovisits n (tl ds) (settle (ostep d s))).
    change (wn_run (S n) ds s) with
      (let d := match ds with [] => 0 | d :: _ => d end in
       if (d =? 0) && (ocode s =? 0) then true
       else (if main_acts d s then legal_next s else true) && wn_run n (tl ds) (settle (ostep d s))) in Hw.
    cbv zeta in *. set (d := match ds with [] => 0 | d :: _ => d end) in *.
    destruct ((d =? 0) && (ocode s =? 0)); [constructor; [exact Hr|constructor]|].
    constructor; [exact Hr|]. apply andb_true_iff in Hw. destruct Hw as [Hl Hw].
    destruct (main_acts d s) eqn:Hm.
    + (* the main flow acts: the history plans exactly this operation and executes it *)
      unfold main_acts in Hm. apply andb_true_iff in Hm. destruct Hm as [Hd Hm]. apply Z.eqb_eq in Hd. rewrite Hd in *.
      destruct (hs s) eqn:Hh; [|discriminate].
      destruct g as [|x g'].
      * apply (IH (tl ds) _ []); [| |exact Hw].
        -- rewrite <- settle_set_flow. apply settle_reach. rewrite <- Hf at 1. rewrite (main_step_nil s Hh Hm).
           change (set_flow (set_flow (ostep 0 (set_flow s [])) []) []) with (set_flow (ostep 0 (set_flow s [])) []).
           rewrite <- (main_step_nil s Hh Hm). constructor. exact Hr.
        -- rewrite <- settle_set_flow. f_equal. rewrite <- Hf at 1 2. rewrite (main_step_nil s Hh Hm). reflexivity.
      * assert (Ht : oreach pre (set_flow s [x])).
        { change (set_flow s [x]) with (set_flow (set_flow s []) [x]).
          apply oreach_flow; [exact Hr|exact Hh|exact Hm|]. exact (legal_bal s x g' Hf Hl). }
        apply (IH (tl ds) _ g'); [| |exact Hw].
        -- rewrite <- settle_set_flow. apply settle_reach. rewrite <- Hf at 1. rewrite (main_step s x g' Hh Hm).
           change (set_flow (set_flow (ostep 0 (set_flow s [x])) g') []) with (set_flow (ostep 0 (set_flow s [x])) []).
           rewrite <- (main_step s x [] Hh Hm). constructor. exact Ht.
        -- rewrite <- settle_set_flow. f_equal. rewrite <- Hf at 1 2. rewrite (main_step s x g' Hh Hm). reflexivity.
    + assert (Hc : d = 0 -> at_op (core s) = true -> exists e r, hs s = e :: r /\ s_ph e <> PRun).
      { intros Hd Ha. unfold main_acts in Hm. rewrite Hd in Hm. simpl in Hm.
        destruct (hs s) as [|e r] eqn:Hh; [congruence|]. exists e, r. split; [reflexivity|].
        intro Hp. pose proof (oreach_inv _ _ Hr) as HI.
        pose proof (run_not_at_op pre (set_flow s []) e r HI Hh Hp) as Hn.
        change (at_op (core (set_flow s []))) with (at_op (core s)) in Hn. congruence. }
      apply (IH (tl ds) _ g).
      * rewrite <- settle_set_flow, <- ostep_set_flow by exact Hc. apply settle_reach. constructor. exact Hr.
      * rewrite <- settle_set_flow, <- ostep_set_flow by exact Hc. rewrite Hf. reflexivity.
      * exact Hw.
Qed.

(* ---- the special case named in the notes: when the main flow executes its FIRST operation the application holds k blocks
   (all callback-taken) and the remaining flow is [bal k]; nothing is asked afterwards ---- *)
Fixpoint wn_bal_run (fuel : nat) (ds : list Z) (s : ost) : bool :=
  match fuel with
  | O => true
  | S n =>
      let d := match ds with [] => 0 | d :: _ => d end in
      if (d =? 0) && (ocode s =? 0) then true
      else if main_acts d s then bal (depth (core s)) (ops (core s))
      else wn_bal_run n (tl ds) (settle (ostep d s))
  end.

(* in a reachable state the next operation is legal (Inv.i_bal) *)
Lemma reach_legal pre s : oreach pre s -> legal_next s = true.
Proof.
  intro Hr. destruct (o_core _ _ (oreach_inv _ _ Hr)) as (o & a & Hb & Hc).
  pose proof (i_bal _ (reach_inv o a _ Hb Hc)) as Hbal. unfold legal_next.
  destruct (oflow (reg s)) as [|[| | | | | |] ?]; try reflexivity.
  destruct (ops (core s)) as [|[|dl] ?]; try reflexivity. simpl in Hbal. apply andb_true_iff in Hbal. tauto.
Qed.

Lemma wn_reach pre n : forall ds s, oreach pre s -> wn_run n ds s = true.
Proof.
  induction n as [|n IH]; intros ds s Hr; [reflexivity|].
  change (wn_run (S n) ds s) with
    (let d := match ds with [] => 0 | d :: _ => d end in
     if (d =? 0) && (ocode s =? 0) then true
     else (if main_acts d s then legal_next s else true) && wn_run n (tl ds) (settle (ostep d s))).
  cbv zeta. destruct ((match ds with [] => 0 | d :: _ => d end =? 0) && (ocode s =? 0)); [reflexivity|].
  rewrite (reach_legal pre s Hr). rewrite IH; [destruct (main_acts _ s); reflexivity|].
  apply settle_reach. constructor. exact Hr.
Qed.

Theorem wn_bal_wn pre n : forall ds s g,
  oreach pre (set_flow s []) -> set_flow s g = s -> wn_bal_run n ds s = true -> wn_run n ds s = true.
Proof.
  induction n as [|n IH]; intros ds s g Hr Hf Hw; [reflexivity|].
  change (wn_run (S n) ds s) with
    (let d := match ds with [] => 0 | d :: _ => d end in
     if (d =? 0) && (ocode s =? 0) then true
     else (if main_acts d s then legal_next s else true) && wn_run n (tl ds) (settle (ostep d s))).
  change (wn_bal_run (S n) ds s) with
    (let d := match ds with [] => 0 | d :: _ => d end in
     if (d =? 0) && (ocode s =? 0) then true
     else if main_acts d s then bal (depth (core s)) (ops (core s))
     else wn_bal_run n (tl ds) (settle (ostep d s))) in Hw.
  cbv zeta in *. set (d := match ds with [] => 0 | d :: _ => d end) in *.
  destruct ((d =? 0) && (ocode s =? 0)); [reflexivity|].
  destruct (main_acts d s) eqn:Hm.
  - (* the history re-plans to the whole remaining flow: from here on the states are its states *)
    unfold main_acts in Hm. apply andb_true_iff in Hm. destruct Hm as [_ Hm].
    destruct (hs s) eqn:Hh; [|discriminate].
    assert (Hs : oreach pre s).
    { rewrite <- Hf. change (set_flow s g) with (set_flow (set_flow s []) g).
      apply oreach_flow; [exact Hr|exact Hh|exact Hm|].
      change (depth (core (set_flow s []))) with (depth (core s)). rewrite <- Hf in Hw. exact Hw. }
    rewrite (reach_legal pre s Hs). apply (wn_reach pre). apply settle_reach. constructor. exact Hs.
  - assert (Hc : d = 0 -> at_op (core s) = true -> exists e r, hs s = e :: r /\ s_ph e <> PRun).
    { intros Hd Ha. unfold main_acts in Hm. rewrite Hd in Hm. simpl in Hm.
      destruct (hs s) as [|e r] eqn:Hh; [congruence|]. exists e, r. split; [reflexivity|].
      intro Hp. pose proof (oreach_inv _ _ Hr) as HI.
      pose proof (run_not_at_op pre (set_flow s []) e r HI Hh Hp) as Hn.
      change (at_op (core (set_flow s []))) with (at_op (core s)) in Hn. congruence. }
    apply (IH (tl ds) _ g).
    + rewrite <- settle_set_flow, <- ostep_set_flow by exact Hc. apply settle_reach. constructor. exact Hr.
    + rewrite <- settle_set_flow, <- ostep_set_flow by exact Hc. rewrite Hf. reflexivity.
    + exact Hw.
Qed.

(* for the start state of a first run of main() *)
Corollary wn_bal_wn_main pre tl f a ra n ds :
  wn_bal_run n ds (os_main tl (boot pre) reg0 f a ra) = true -> wn_run n ds (os_main tl (boot pre) reg0 f a ra) = true.
Proof.
  apply (wn_bal_wn pre n ds _ f); [|reflexivity].
  change (oreach pre (os_main tl (boot pre) reg0 [] a ra)). constructor. reflexivity.
Qed.

(* first run of main() *)
Theorem orun_reach_cb_main pre tl f a ra n ds :
  let s0 := os_main tl (boot pre) reg0 f a ra in
  wn_run n ds s0 = true -> Forall (shadowed pre) (ovisits n ds s0).
Proof.
  cbv zeta. intro Hw. apply (orun_reach_cb pre n ds _ f); [|reflexivity|exact Hw].
  change (oreach pre (os_main tl (boot pre) reg0 [] a ra)). constructor. reflexivity.
Qed.

(* os_main takes nothing of the plan from the state it starts from *)
Lemma os_main_plan tl s f a ra :
  os_main tl (dsp s) (reg s) f a ra = os_main tl (dsp (set_flow s [])) (reg (set_flow s [])) f a ra.
Proof. reflexivity. Qed.

(* a further run of main(), started where an earlier trace ended (idle) *)
Theorem orun_reach_cb_again pre tl s1 f a ra n ds :
  shadowed pre s1 -> idle s1 = true ->
  let s0 := os_main tl (dsp s1) (reg s1) f a ra in
  wn_run n ds s0 = true -> Forall (shadowed pre) (ovisits n ds s0).
Proof.
  intros Ht Hid. cbv zeta. intro Hw. apply (orun_reach_cb pre n ds _ f); [|reflexivity|exact Hw].
  change (oreach pre (os_main tl (dsp s1) (reg s1) [] a ra)). rewrite os_main_plan.
  apply oreach_again; [exact Ht|exact (idle_set_flow s1 Hid)|reflexivity].
Qed.

(* what "shadowed" gives at the level of the core model: a [reach] history of a flow that is well nested from 0 whose state
   is the core state with the plan emptied; counters, stack and ghosts are the state's own, so the state theorems apply *)
Theorem shadowed_core pre s : shadowed pre s ->
  exists o a, bal 0 o = true /\ reach o a (set_ops (core s) []).
Proof. intro Ht. exact (o_core _ _ (oreach_inv _ _ Ht)). Qed.

(* example of use: while the application holds a block - also one a callback took in a flow that is not well nested from 0 -
   no activation is about to enter the callback *)
Corollary shadowed_no_entry pre s : shadowed pre s -> 1 <= depth (core s) ->
  Forall (fun f => h_pc f <> HCbEnter) (stack (core s)).
Proof.
  intros H Hd. destruct (shadowed_core pre s H) as (o & a & Hb & Hc).
  exact (no_entry_while_holding o a _ Hb Hc Hd).
Qed.

(* ---- the decoded harness cases (Disp.orun_with): the same decoding, the same start states, the same fuel ---- *)
Definition case_pre (c : list Z) : Z -> bool := pre_of (nth 1 c 0).

(* the runs of [orun] that [orun_with c] performs: (decisions, start state), in order *)
Definition case_runs (c : list Z) : list (list Z * ost) :=
  match c with
  | m :: mask :: n :: r =>
      let f := decode_fops (firstn (Z.to_nat n) r) in
      let r1 := skipn (Z.to_nat n) r in
      let k := Z.to_nat (hd 0 r1) in
      let a := map (fun x => negb ((x =? 0) || (x =? 3))) (firstn k (tl r1)) in
      let ra := flat_map (fun x => [(x =? 2) || (x =? 3); x =? 4]) (firstn k (tl r1)) in
      let r2 := skipn k (tl r1) in
      let fuel := ofuel_of c in
      let tlim := Z.testbit mask 4 in
      let s0 := os_main tlim (boot (pre_of mask)) reg0 in
      if m =? -1 then [(r2, s0 f a ra)]
      else if m =? -2 then [(r2, os_main tlim (dsp (s0 [] [] [])) (reg (s0 [] [] [])) f a ra)]
      else if m =? -3 then
        let n1 := Z.to_nat (hd 0 r2) in
        let s1 := snd (orun fuel (firstn n1 (tl r2)) (s0 f a ra)) in
        (firstn n1 (tl r2), s0 f a ra) ::
        (if idle s1 then [(skipn n1 (tl r2), os_main tlim (dsp s1) (reg s1) f (answers (core s1)) (rearm (reg s1)))] else [])
      else []
  | _ => []
  end.

(* every state the case passes through *)
Definition case_visits (c : list Z) : list ost :=
  flat_map (fun p => ovisits (ofuel_of c) (fst p) (snd p)) (case_runs c).
(* the flow of the case is well nested relative to the blocks held, in each of its runs *)
Definition wn_case (c : list Z) : bool :=
  forallb (fun p => wn_run (ofuel_of c) (fst p) (snd p)) (case_runs c).

(* [orun_with] is these runs *)
Lemma orun_with_runs c : forall t, In t (map (fun p => fst (orun (ofuel_of c) (fst p) (snd p))) (case_runs c)) ->
  exists x y, orun_with c = x ++ t ++ y.
Proof.
  destruct c as [|m [|mask [|n r]]]; try (intros t []).
  unfold case_runs, orun_with. cbv zeta.
  set (f := decode_fops (firstn (Z.to_nat n) r)). set (r1 := skipn (Z.to_nat n) r). set (k := Z.to_nat (hd 0 r1)).
  set (a := map (fun x => negb ((x =? 0) || (x =? 3))) (firstn k (tl r1))).
  set (ra := flat_map (fun x => [(x =? 2) || (x =? 3); x =? 4]) (firstn k (tl r1))).
  set (r2 := skipn k (tl r1)). set (fuel := ofuel_of (m :: mask :: n :: r)). set (tlim := Z.testbit mask 4).
  set (s0 := os_main tlim (boot (pre_of mask)) reg0).
  destruct (m =? -1).
  { intros t [Ht|[]]. cbn [map fst snd] in Ht. destruct (orun fuel r2 (s0 f a ra)) as [t' s]. cbn [fst] in Ht. subst t'.
    exists [], (end_obs s). reflexivity. }
  destruct (m =? -2).
  { intros t [Ht|[]]. cbn [map fst snd] in Ht.
    destruct (orun fuel r2 (os_main tlim (dsp (s0 [] [] [])) (reg (s0 [] [] [])) f a ra)) as [t' s]. cbn [fst] in Ht. subst t'.
    exists [], (end_obs s). reflexivity. }
  destruct (m =? -3); [|intros t []].
  set (n1 := Z.to_nat (hd 0 r2)).
  destruct (orun fuel (firstn n1 (tl r2)) (s0 f a ra)) as [t1 s1] eqn:E1. cbn [snd].
  destruct (idle s1).
  - destruct (orun fuel (skipn n1 (tl r2)) (os_main tlim (dsp s1) (reg s1) f (answers (core s1)) (rearm (reg s1)))) as [t2 s2] eqn:E2.
    intros t [Ht|[Ht|[]]]; cbn [map fst snd] in Ht; rewrite ?E1, ?E2 in Ht; cbn [fst] in Ht; subst t.
    + exists [], (disp_obs 41 s1 ++ t2 ++ end_obs s2). reflexivity.
    + exists (t1 ++ disp_obs 41 s1), (end_obs s2). rewrite <- !app_assoc. reflexivity.
  - intros t [Ht|[]]; cbn [map fst snd] in Ht; rewrite ?E1 in Ht; cbn [fst] in Ht; subst t. exists [], [-2]. reflexivity.
Qed.

Theorem case_reach_cb c : wn_case c = true -> Forall (shadowed (case_pre c)) (case_visits c).
Proof.
  destruct c as [|m [|mask [|n r]]]; try (intros _; constructor).
  unfold wn_case, case_visits, case_runs, case_pre. cbv zeta. change (nth 1 (m :: mask :: n :: r) 0) with mask.
  set (f := decode_fops (firstn (Z.to_nat n) r)). set (r1 := skipn (Z.to_nat n) r). set (k := Z.to_nat (hd 0 r1)).
  set (a := map (fun x => negb ((x =? 0) || (x =? 3))) (firstn k (tl r1))).
  set (ra := flat_map (fun x => [(x =? 2) || (x =? 3); x =? 4]) (firstn k (tl r1))).
  set (r2 := skipn k (tl r1)). set (fuel := ofuel_of (m :: mask :: n :: r)). set (tlim := Z.testbit mask 4).
  set (pre := pre_of mask).
  destruct (m =? -1).
  { cbn [forallb flat_map fst snd]. rewrite andb_true_r, app_nil_r. apply orun_reach_cb_main. }
  destruct (m =? -2).
  { cbn [forallb flat_map fst snd]. rewrite andb_true_r, app_nil_r.
    apply (orun_reach_cb_again pre tlim (os_main tlim (boot pre) reg0 [] [] [])); [|reflexivity].
    constructor. reflexivity. }
  destruct (m =? -3); [|intros _; constructor].
  set (n1 := Z.to_nat (hd 0 r2)).
  set (s1 := snd (orun fuel (firstn n1 (tl r2)) (os_main tlim (boot pre) reg0 f a ra))).
  cbn [forallb flat_map fst snd]. intro Hw. apply andb_true_iff in Hw. destruct Hw as [Hw1 Hw2].
  pose proof (orun_reach_cb_main pre tlim f a ra fuel (firstn n1 (tl r2)) Hw1) as H1.
  apply Forall_app. split; [exact H1|].
  destruct (idle s1) eqn:Hid; [|constructor].
  cbn [forallb flat_map fst snd] in *. rewrite andb_true_r in Hw2. rewrite app_nil_r.
  apply orun_reach_cb_again; [|exact Hid|exact Hw2].
  rewrite Forall_forall in H1. apply H1. apply orun_in_visits.
Qed.
