(* C18 - the OS-level entry point of the signal code of Potassco::Application (src/application.cpp), layered around
   the small-step model of processSignal / blockSignals / unblockSignals in Model.v:

     int Application::main(..)        { ... blocked_ = pending_ = 0;
                                        for (sig in getSignals())
                                          if (signal(sig, &sigHandler) == SIG_IGN) signal(sig, SIG_IGN);   (an ignored signal stays ignored)
                                        ... setup(); run(); shutdown(false); ...  }                        (nothing is restored at the end)
     void Application::sigHandler(s)  { struct ScopedSig {
                                          ScopedSig(int s)  { signal(sig, SIG_IGN); getInstance()->processSignal(sig); }
                                          ~ScopedSig()      { signal(sig, sigHandler); }                    (normal return AND the early return of a stop answer)
                                        } scoped(s); }

   Environment: a signal number whose disposition is "ignore" is discarded by the OS when it arrives, one whose
   disposition is the handler starts sigHandler on top of whatever runs (no signal mask: what decides is the
   disposition alone, as on Windows / System V signal(); the correspondence harness clears the mask before every raise).
   The nested processSignal(pend) of unblockSignals(true) is a direct call: it does not touch dispositions.

   A sigHandler activation is an [sframe]: PEnter (entered, signal(sig,SIG_IGN) not yet executed), PRun (its
   processSignal activation = a non-deferred frame of the core stack is in progress), PExit (processSignal returned,
   signal(sig,sigHandler) not yet executed).  The theorems quantify over schedules that interleave arrivals with ALL of
   these steps; the trace producer [orun] executes the PEnter/PExit steps without a scheduling point (the harness has no
   yield point inside sigHandler).  Signal numbers are case ids: [registered] = what getSignals() of the harness returns. *)
Require Import V.Lib.Base V.C18.Model.
Local Open Scope Z_scope.

Definition registered : list Z := [1; 2; 3].
Definition mem (x : Z) (l : list Z) : bool := existsb (Z.eqb x) l.
Definition is_reg (x : Z) : bool := mem x registered.

Inductive disp := DDefault | DHandler | DIgnore.
Inductive phase := PEnter | PRun | PExit.
Record sframe := mkS { s_sig : Z; s_ph : phase }.

Record ost := mkO {
  core : st;             (* the application object + its processSignal activations (Model.v) *)
  dsp  : Z -> disp;      (* disposition of every signal number *)
  hs   : list sframe;    (* sigHandler activations, top first *)
  acc  : list Z;         (* ghost: OS-level arrivals that started sigHandler (this run) *)
  drp  : list Z }.       (* ghost: OS-level arrivals the OS discarded (this run) *)

Definition upd (f : Z -> disp) (x : Z) (v : disp) : Z -> disp := fun y => if y =? x then v else f y.

(* main(): if (signal(sig, &sigHandler) == SIG_IGN) signal(sig, SIG_IGN); *)
Definition install (d : disp) : disp := match d with DIgnore => DIgnore | _ => DHandler end.

(* dispositions before the first main(): the environment had the numbers in [pre] ignored *)
Definition boot (pre : Z -> bool) : Z -> disp := fun x => if pre x then DIgnore else DDefault.

(* start of a run of main() with main flow o and callback answers a, given the dispositions found *)
Definition os_main (d : Z -> disp) (o : list op) (a : list bool) : ost :=
  mkO (init o a) (fun x => if is_reg x then install (d x) else d x) [] [] [].

Definition ostep (d : Z) (s : ost) : ost :=
  if d =? 0 then
    match hs s with
    | [] => mkO (step true 0 (core s)) (dsp s) [] (acc s) (drp s)     (* main flow / deferred activation *)
    | e :: r =>
        match s_ph e with
        | PEnter =>    (* signal(sig, SIG_IGN); processSignal(sig) is called *)
            mkO (arrive (s_sig e) (core s)) (upd (dsp s) (s_sig e) DIgnore) (mkS (s_sig e) PRun :: r) (acc s) (drp s)
        | PRun =>      (* one atomic step of its processSignal activation; if that returns: on to the destructor *)
            let c' := step true 0 (core s) in
            mkO c' (dsp s)
                (if (length (stack c') <? length (stack (core s)))%nat then mkS (s_sig e) PExit :: r else hs s)
                (acc s) (drp s)
        | PExit =>     (* ~ScopedSig: signal(sig, sigHandler); sigHandler returns *)
            mkO (core s) (upd (dsp s) (s_sig e) DHandler) r (acc s) (drp s)
        end
    end
  else if is_reg d then    (* OS-level arrival of signal d *)
    match dsp s d with
    | DHandler => mkO (core s) (dsp s) (mkS d PEnter :: hs s) (acc s ++ [d]) (drp s)
    | DIgnore  => mkO (core s) (dsp s) (hs s) (acc s) (drp s ++ [d])
    | DDefault => s        (* would terminate the process; never the case once main() has installed (c18_os_dispositions) *)
    end
  else s.                  (* not a signal of this application *)

(* a new run of main() on the same object; meaningful when the previous run is over *)
Definition idle (s : ost) : bool := match hs s with [] => code (core s) =? 0 | _ => false end.

(* ---- observation ---- *)
Definition dcode (d : disp) : Z := match d with DDefault => 0 | DHandler => 1 | DIgnore => 2 end.
Definition disp_obs (tag : Z) (s : ost) : list Z := tag :: map (fun x => dcode (dsp s x)) registered.

(* what the OS does with an arrival of d: nothing to note when the handler starts, 31 = discarded (ignored),
   33 = default action (not raised by the harness), 32 = not one of the application's signals *)
Definition arrival_note (d : Z) (s : ost) : list Z :=
  if is_reg d then match dsp s d with DHandler => [] | DIgnore => [31; d] | DDefault => [33; d] end else [32; d].

Definition oemit (d : Z) (s : ost) : list Z :=
  let e := emit d (core s) in
  firstn 3 e ++ disp_obs 40 s ++ skipn 3 e ++ (if d =? 0 then [] else arrival_note d s).

(* the two steps of sigHandler itself have no scheduling point in the harness *)
Definition settle (s : ost) : ost :=
  match hs s with
  | e :: _ => match s_ph e with PRun => s | _ => ostep 0 s end
  | [] => s
  end.

Fixpoint orun (fuel : nat) (ds : list Z) (s : ost) : list Z * ost :=
  match fuel with
  | O => ([-1], s)
  | S n =>
      let d := match ds with [] => 0 | d :: _ => d end in
      if (d =? 0) && (code (core s) =? 0) then (oemit 0 s, s)
      else let '(o, s') := orun n (tl ds) (settle (ostep d s)) in (oemit d s ++ o, s')
  end.

(* ---- case decoding:  -m mask  nops op...  nans ans...  [n1]  decision...
        m = 1: the schedule runs inside the first main(); m = 2: inside a second main() after an empty first run;
        m = 3: the first main() runs the flow with the first n1 decisions, a second main() runs the same flow with the rest.
        mask: bit i-1 set = registered number i was ignored by the environment before the first main().          ---- *)
Definition pre_of (mask : Z) : Z -> bool := fun x => is_reg x && Z.testbit mask (x - 1).

Definition ofuel_of (c : list Z) : nat := (8 * length c + 16)%nat.

Definition orun_with (c : list Z) : list Z :=
  match c with
  | m :: mask :: n :: r =>
      let o := decode_ops (firstn (Z.to_nat n) r) in
      let r1 := skipn (Z.to_nat n) r in
      let k := Z.to_nat (hd 0 r1) in
      let a := map (fun x => negb (x =? 0)) (firstn k (tl r1)) in
      let r2 := skipn k (tl r1) in
      let fuel := ofuel_of c in
      let s0 := os_main (boot (pre_of mask)) in
      if m =? -1 then
        let '(t, s) := orun fuel r2 (s0 o a) in t ++ disp_obs 41 s
      else if m =? -2 then
        let '(t, s) := orun fuel r2 (os_main (dsp (s0 [] [])) o a) in t ++ disp_obs 41 s
      else if m =? -3 then
        let n1 := Z.to_nat (hd 0 r2) in
        let '(t1, s1) := orun fuel (firstn n1 (tl r2)) (s0 o a) in
        if idle s1 then
          let '(t2, s2) := orun fuel (skipn n1 (tl r2)) (os_main (dsp s1) o (answers (core s1))) in
          t1 ++ disp_obs 41 s1 ++ t2 ++ disp_obs 41 s2
        else t1 ++ [-2]
      else [-3]
  | _ => [-3]
  end.

(* a negative first number selects the OS-level modes, everything else is the direct-processSignal model of Model.v *)
Definition run_case (c : list Z) : list Z :=
  match c with
  | m :: _ => if m <? 0 then orun_with c else run_direct c
  | [] => run_direct c
  end.
