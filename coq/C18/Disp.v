(* C18 - the OS-level entry point of the signal code of Potassco::Application (src/application.cpp), layered around
   the small-step model of processSignal / blockSignals / unblockSignals in Model.v:

     int Application::main(..)        { ... blocked_ = pending_ = 0;
                                        for (sig in getSignals())
                                          if (signal(sig, &sigHandler) == SIG_IGN) signal(sig, SIG_IGN);   (an ignored signal stays ignored)
                                        ... setup(); run(); shutdown(false); ...  }                        (nothing is restored at the end)
     void Application::sigHandler(s)  { struct ScopedSig {
                                          ScopedSig(int s)  { signal(sig, SIG_IGN); getInstance()->processSignal(sig); }
                                          ~ScopedSig()      { signal(sig, sigHandler); }                    (normal return AND the early return of a stop answer)
                                        } scoped(s); }

   Environment: a signal number whose disposition is "ignore" is discarded by the OS when it arrives, one whose
   disposition is the handler starts sigHandler on top of whatever runs (no signal mask: what decides is the
   disposition alone, as on Windows / System V signal(); the correspondence harness clears the mask before every raise).
   The nested processSignal(pend) of unblockSignals(true) is a direct call: it does not touch dispositions.

   A sigHandler activation is an [sframe]: PEnter (entered, signal(sig,SIG_IGN) not yet executed), PRun (its
   processSignal activation = a non-deferred frame of the core stack is in progress), PExit (processSignal returned,
   signal(sig,sigHandler) not yet executed).  The theorems quantify over schedules that interleave arrivals with ALL of
   these steps; the trace producer [orun] executes the PEnter/PExit steps without a scheduling point (the harness has no
   yield point inside sigHandler).  Signal numbers are case ids: [registered] = what getSignals() of the harness returns.
   The state also carries which object instance_s points to (see [rst] below): sigHandler delivers to that object. *)
Require Import V.Lib.Base V.C18.Model.
Local Open Scope Z_scope.

Definition registered : list Z := [1; 2; 3].
Definition mem (x : Z) (l : list Z) : bool := existsb (Z.eqb x) l.
Definition is_reg (x : Z) : bool := mem x registered.
(* SIGALRM: not in getSignals(); its handler is installed by setAlarm(sec > 0), UNCONDITIONALLY (POSIX branch):
     int  setAlarm(unsigned sec) { if (sec) { signal(SIGALRM, &sigHandler); } alarm(sec); return 1; }
     void killAlarm()            { if (timeout_ > 0) { setAlarm(0); } }            (shutdown(bool); cancels the timer only)
     main(): ... install loop ...; if (timeout_) { setAlarm(timeout_); }            (--time-limit=n)
   An arrival of alarm_sig is a SIGALRM that reaches the process (the timer expiring, or a kill). *)
Definition alarm_sig : Z := 4.
Definition is_sig (x : Z) : bool := is_reg x || (x =? alarm_sig).
Definition all_sigs : list Z := registered ++ [alarm_sig].

Inductive disp := DDefault | DHandler | DIgnore.
Definition upd (f : Z -> disp) (x : Z) (v : disp) : Z -> disp := fun y => if y =? x then v else f y.
Inductive phase := PEnter | PRun | PExit.
Record sframe := mkS { s_sig : Z; s_ph : phase }.

(* ---- which application object the static instance_s points to (Application::initInstance / resetInstance) ----
     main():            initInstance( *this)  ->  instance_s = this            (the constructor does NOT register)
     ~Application():    resetInstance( *this) ->  if (instance_s == this) instance_s = 0
     sigHandler:        getInstance()->processSignal(sig)
   Objects are numbered: 0 = the application object whose main() runs, 1, 2, ... = other Application objects that the
   main flow constructs / destroys meanwhile (they never call main(), so they never register), or a copy of *this that is
   made and dropped at once (Application is copyable: implicit copy constructor; the copy does not register either). *)
Inductive oop := OCore | ONew | ODel | OCopy | OSetAlarm | OKillAlarm | OReport.   (* shape of the main flow: next core op / construct / destroy / copy-and-drop / setAlarm(n>0) / setAlarm(0) / error report *)
(* FReport = the error report of shutdown(true):   void Application::shutdown(bool hasError) {
                                                      fetch_and_inc(blocked_);                  (FCore Block - "ignore signals/alarms during shutdown")
                                                      killAlarm();
                                                      if (hasError) { onUnhandledException(); }  (FReport: an override that RETURNS; the default one exits)
                                                      shutdown(); }
   main() calls shutdown(true) from its catch(...) when setup() / run() / shutdown(false) threw.  The report is application code that
   runs for a while: a step of the main flow that changes nothing of the signal state, in front of which (and during which) signals
   may arrive - blocked_ has ALREADY been incremented, and nothing decrements it afterwards (the run is over). *)
Inductive fop := FCore (o : op) | FNew | FDel | FCopy | FSetAlarm | FKillAlarm | FReport.
Definition core_of (f : list fop) : list op :=
  flat_map (fun x => match x with FCore o => [o] | _ => [] end) f.
Definition shape_of (f : list fop) : list oop :=
  map (fun x => match x with FCore _ => OCore | FNew => ONew | FDel => ODel | FCopy => OCopy
                      | FSetAlarm => OSetAlarm | FKillAlarm => OKillAlarm | FReport => OReport end) f.

Record rst := mkR {
  inst  : option nat;    (* instance_s *)
  live  : list nat;      (* other application objects alive, most recent first *)
  nxt   : nat;           (* next fresh object number *)
  oflow : list oop;      (* what the main flow still has to do (OCore = the next element of the core's ops) *)
  fault : bool;          (* sigHandler called processSignal through something else than the running object *)
  alarm_set : bool;      (* ghost: setAlarm(sec > 0) has been executed in this process *)
  rearm : list bool }.   (* per callback invocation (in order) TWO entries: the callback calls setAlarm(n > 0) when it is entered /
                            the callback calls blockSignals() itself (and leaves the release to the main flow) *)

Definition reg0 : rst := mkR None [] 1%nat [] false false [].

(* resetInstance(b) *)
Definition reset_inst (b : nat) (i : option nat) : option nat :=
  match i with Some x => if (x =? b)%nat then None else Some x | None => None end.

Record ost := mkO {
  core : st;             (* the application object + its processSignal activations (Model.v) *)
  dsp  : Z -> disp;      (* disposition of every signal number *)
  hs   : list sframe;    (* sigHandler activations, top first *)
  acc  : list Z;         (* ghost: OS-level arrivals that started sigHandler (this run) *)
  drp  : list Z;         (* ghost: OS-level arrivals the OS discarded (this run) *)
  reg  : rst }.

(* main(): if (signal(sig, &sigHandler) == SIG_IGN) signal(sig, SIG_IGN); *)
Definition install (d : disp) : disp := match d with DIgnore => DIgnore | _ => DHandler end.

(* dispositions before the first main(): the environment had the numbers in [pre] ignored *)
Definition boot (pre : Z -> bool) : Z -> disp := fun x => if pre x then DIgnore else DDefault.

(* start of a run of main() of object 0 with main flow f and callback answers a, given the dispositions and the other
   objects found: initInstance( *this); blocked_ = pending_ = 0; install the handlers *)
(* tl = a time limit was given (timeout_ <> 0): main() calls setAlarm(timeout_) after the install loop;
   ra = which callback invocations re-arm the alarm (the rest of a callback's behaviour is its answer in a) *)
Definition os_main (tl : bool) (d : Z -> disp) (r : rst) (f : list fop) (a : list bool) (ra : list bool) : ost :=
  mkO (init (core_of f) a)
      (fun x => if is_reg x then install (d x) else if tl && (x =? alarm_sig) then DHandler else d x) [] [] []
      (mkR (Some O) (live r) (nxt r) (shape_of f) (fault r) (tl || alarm_set r) ra).

(* the main flow is at an operation boundary *)
Definition at_op (c : st) : bool := match stack c, mpc_ c with [], MOp => true | _, _ => false end.

(* the next operation of the main flow, if it is about another application object *)
Definition objstep (r : rst) : option rst :=
  match oflow r with
  | ONew :: f  => Some (mkR (inst r) (nxt r :: live r) (S (nxt r)) f (fault r) (alarm_set r) (rearm r))   (* new App(): not registered *)
  | ODel :: f  => Some (match live r with
                        | b :: l => mkR (reset_inst b (inst r)) l (nxt r) f (fault r) (alarm_set r) (rearm r)   (* delete: ~Application *)
                        | [] => mkR (inst r) [] (nxt r) f (fault r) (alarm_set r) (rearm r)
                        end)
  | OCopy :: f => Some (mkR (reset_inst (nxt r) (inst r)) (live r) (S (nxt r)) f (fault r) (alarm_set r) (rearm r))   (* { App copy( *this); } *)
  | OSetAlarm :: f => Some (mkR (inst r) (live r) (nxt r) f (fault r) true (rearm r))       (* setAlarm(n), n > 0 *)
  | OKillAlarm :: f => Some (mkR (inst r) (live r) (nxt r) f (fault r) (alarm_set r) (rearm r))   (* setAlarm(0): alarm(0) only *)
  | OReport :: f => Some (mkR (inst r) (live r) (nxt r) f (fault r) (alarm_set r) (rearm r))      (* onUnhandledException() returns *)
  | _ => None
  end.
(* ... and what it does to the dispositions: setAlarm(n > 0) installs the handler for SIGALRM whatever it finds *)
Definition objdsp (r : rst) (d : Z -> disp) : Z -> disp :=
  match oflow r with OSetAlarm :: _ => upd d alarm_sig DHandler | _ => d end.
Definition pop_flow (r : rst) : rst := mkR (inst r) (live r) (nxt r) (tl (oflow r)) (fault r) (alarm_set r) (rearm r).
Definition set_fault (r : rst) : rst := mkR (inst r) (live r) (nxt r) (oflow r) true (alarm_set r) (rearm r).

(* the step of the core that follows is the entry into / the return from the callback *)
Definition cb_enter (c : st) : bool :=
  match stack c with f :: _ => match h_pc f with HCbEnter => true | _ => false end | [] => false end.
Definition cb_exit (c : st) : bool :=
  match stack c with f :: _ => match h_pc f with HCbExit => true | _ => false end | [] => false end.
(* a re-arming callback calls setAlarm(n > 0) as its first action *)
Definition rearm_now (c : st) (r : rst) : bool := cb_enter c && hd false (rearm r).
Definition cb_dsp (c : st) (r : rst) (d : Z -> disp) : Z -> disp :=
  if rearm_now c r then upd d alarm_sig DHandler else d.
Definition cb_reg (c : st) (r : rst) : rst :=
  mkR (inst r) (live r) (nxt r) (oflow r) (fault r) (rearm_now c r || alarm_set r)
      (if cb_exit c then tl (tl (rearm r)) else rearm r).
(* a callback that takes a block calls blockSignals() right after it has been entered (Model.cb_block) *)
Definition cbblock_now (c : st) (r : rst) : bool := cb_enter c && hd false (tl (rearm r)).
(* one atomic step of the running activation / main flow, including what the entered callback does at once *)
Definition cstep (c : st) (r : rst) : st :=
  if cbblock_now c r then cb_block (step true 0 c) else step true 0 c.

Definition ostep (d : Z) (s : ost) : ost :=
  if d =? 0 then
    match hs s with
    | [] =>    (* main flow / deferred activation *)
        if at_op (core s) then
          match objstep (reg s) with
          | Some r' => mkO (core s) (objdsp (reg s) (dsp s)) [] (acc s) (drp s) r'
          | None => mkO (step true 0 (core s)) (dsp s) [] (acc s) (drp s) (pop_flow (reg s))
          end
        else mkO (cstep (core s) (reg s)) (cb_dsp (core s) (reg s) (dsp s)) [] (acc s) (drp s) (cb_reg (core s) (reg s))
    | e :: r =>
        match s_ph e with
        | PEnter =>    (* signal(sig, SIG_IGN); getInstance()->processSignal(sig) is called *)
            match inst (reg s) with
            | Some O => mkO (arrive (s_sig e) (core s)) (upd (dsp s) (s_sig e) DIgnore) (mkS (s_sig e) PRun :: r)
                            (acc s) (drp s) (reg s)
            | _ => mkO (core s) (dsp s) r (acc s) (drp s) (set_fault (reg s))    (* null / foreign object: the process is lost *)
            end
        | PRun =>      (* one atomic step of its processSignal activation; if that returns: on to the destructor *)
            let c' := cstep (core s) (reg s) in
            mkO c' (cb_dsp (core s) (reg s) (dsp s))
                (if (length (stack c') <? length (stack (core s)))%nat then mkS (s_sig e) PExit :: r else hs s)
                (acc s) (drp s) (cb_reg (core s) (reg s))
        | PExit =>     (* ~ScopedSig: signal(sig, sigHandler); sigHandler returns *)
            mkO (core s) (upd (dsp s) (s_sig e) DHandler) r (acc s) (drp s) (reg s)
        end
    end
  else if is_sig d then    (* OS-level arrival of signal d *)
    match dsp s d with
    | DHandler => mkO (core s) (dsp s) (mkS d PEnter :: hs s) (acc s ++ [d]) (drp s) (reg s)
    | DIgnore  => mkO (core s) (dsp s) (hs s) (acc s) (drp s ++ [d]) (reg s)
    | DDefault => s        (* would terminate the process; never the case once main() has installed (c18_os_dispositions) *)
    end
  else s.                  (* not a signal of this application *)

(* the main flow re-plans at an operation boundary (Model.set_ops): not a step of the code *)
Definition set_flow (s : ost) (f : list fop) : ost :=
  mkO (set_ops (core s) (core_of f)) (dsp s) (hs s) (acc s) (drp s)
      (mkR (inst (reg s)) (live (reg s)) (nxt (reg s)) (shape_of f) (fault (reg s)) (alarm_set (reg s)) (rearm (reg s))).

(* scheduling-point code: 11 / 12 / 13 = the main flow is about to construct / destroy another object / copy-and-drop *this;
   14 / 15 = setAlarm(n > 0) / setAlarm(0); 16 = the error report of shutdown(true) is running (its step = it returns) *)
Definition ocode (s : ost) : Z :=
  match hs s with
  | [] => if at_op (core s) then
            match oflow (reg s) with ONew :: _ => 11 | ODel :: _ => 12 | OCopy :: _ => 13
                                   | OSetAlarm :: _ => 14 | OKillAlarm :: _ => 15 | OReport :: _ => 16 | _ => code (core s) end
          else code (core s)
  | _ => code (core s)
  end.

(* a new run of main() on the same object; meaningful when the previous run is over *)
Definition idle (s : ost) : bool := match hs s with [] => ocode s =? 0 | _ => false end.

(* ~Application of object 0 (after its last run) *)
Definition os_destroy (s : ost) : ost :=
  mkO (core s) (dsp s) (hs s) (acc s) (drp s)
      (mkR (reset_inst O (inst (reg s))) (live (reg s)) (nxt (reg s)) (oflow (reg s)) (fault (reg s))
           (alarm_set (reg s)) (rearm (reg s))).

(* ---- observation ---- *)
Definition dcode (d : disp) : Z := match d with DDefault => 0 | DHandler => 1 | DIgnore => 2 end.
(* getInstance(): 0 = null, 1 = the running object, 2 = another object *)
Definition icode (i : option nat) : Z := match i with None => 0 | Some O => 1 | Some _ => 2 end.
Definition disp_obs (tag : Z) (s : ost) : list Z :=
  tag :: map (fun x => dcode (dsp s x)) all_sigs ++ [icode (inst (reg s))].

(* what the OS does with an arrival of d: nothing to note when the handler starts, 31 = discarded (ignored),
   33 = default action (not raised by the harness), 32 = not one of the application's signals,
   34 = the handler is installed but getInstance() is not the running object (not raised by the harness: it would crash) *)
Definition arrival_note (d : Z) (s : ost) : list Z :=
  if is_sig d then
    match dsp s d with
    | DHandler => match inst (reg s) with Some O => [] | _ => [34; d] end
    | DIgnore => [31; d]
    | DDefault => [33; d]
    end
  else [32; d].

Definition oemit (d : Z) (s : ost) : list Z :=
  let e := emit d (core s) in
  [ocode s; blocked (core s); pending (core s)] ++ disp_obs 40 s ++ skipn 3 e ++ (if d =? 0 then [] else arrival_note d s).

(* the two steps of sigHandler itself have no scheduling point in the harness *)
Definition settle (s : ost) : ost :=
  match hs s with
  | e :: _ => match s_ph e with PRun => s | _ => ostep 0 s end
  | [] => s
  end.

Fixpoint orun (fuel : nat) (ds : list Z) (s : ost) : list Z * ost :=
  match fuel with
  | O => ([-1], s)
  | S n =>
      let d := match ds with [] => 0 | d :: _ => d end in
      if (d =? 0) && (ocode s =? 0) then (oemit 0 s, s)
      else let '(o, s') := orun n (tl ds) (settle (ostep d s)) in (oemit d s ++ o, s')
  end.

(* ---- case decoding:  -m mask  nops op...  nans ans...  [n1]  decision...
        m = 1: the schedule runs inside the first main(); m = 2: inside a second main() after an empty first run;
        m = 3: the first main() runs the flow with the first n1 decisions, a second main() runs the same flow with the rest.
        mask: bit i-1 set = number i (1..3 registered, 4 = SIGALRM) was ignored by the environment before the first main();
              bit 4 (16) = main() is given a time limit (it calls setAlarm itself).
        ans: 0 stop, 2 = the callback re-arms the alarm (setAlarm(n > 0)) and continues, 3 = re-arms and stops,
             4 = the callback calls blockSignals() itself and continues (the main flow releases that block later), else continue.
        op: 1..4 as in Model.v; 5 = construct another application object, 6 = destroy the most recent other object,
            7 = copy *this and drop the copy, 8 = setAlarm(n > 0), 9 = setAlarm(0), 10 = run() throws: main() catches and calls
            shutdown(true) with an onUnhandledException() override that returns (scheduling-point code 16 = inside the error report;
            the rest of the flow is never executed).  After the last run object 0 is destroyed: record 42 = getInstance().   ---- *)
Definition pre_of (mask : Z) : Z -> bool := fun x => is_sig x && Z.testbit mask (x - 1).

Fixpoint decode_fops (l : list Z) : list fop :=
  match l with
  | [] => []
  | x :: r => if (x =? 1) || (x =? 4) then FCore Block :: decode_fops r
              else if x =? 2 then FCore (Unblock false) :: decode_fops r
              else if x =? 3 then FCore (Unblock true) :: decode_fops r
              else if x =? 5 then FNew :: decode_fops r
              else if x =? 6 then FDel :: decode_fops r
              else if x =? 7 then FCopy :: decode_fops r
              else if x =? 8 then FSetAlarm :: decode_fops r
              else if x =? 9 then FKillAlarm :: decode_fops r
              else if x =? 10 then [FCore Block; FReport]      (* the run ends with an exception: shutdown(true); nothing of the flow follows *)
              else decode_fops r
  end.

Definition ofuel_of (c : list Z) : nat := (16 * length c + 16)%nat.

Definition end_obs (s : ost) : list Z := disp_obs 41 s ++ [42; icode (inst (reg (os_destroy s)))].

Definition orun_with (c : list Z) : list Z :=
  match c with
  | m :: mask :: n :: r =>
      let f := decode_fops (firstn (Z.to_nat n) r) in
      let r1 := skipn (Z.to_nat n) r in
      let k := Z.to_nat (hd 0 r1) in
      let a := map (fun x => negb ((x =? 0) || (x =? 3))) (firstn k (tl r1)) in    (* 0 and 3 answer stop *)
      let ra := flat_map (fun x => [(x =? 2) || (x =? 3); x =? 4]) (firstn k (tl r1)) in   (* 2 and 3 re-arm the alarm first; 4 takes a block *)
      let r2 := skipn k (tl r1) in
      let fuel := ofuel_of c in
      let tlim := Z.testbit mask 4 in
      let s0 := os_main tlim (boot (pre_of mask)) reg0 in
      if m =? -1 then
        let '(t, s) := orun fuel r2 (s0 f a ra) in t ++ end_obs s
      else if m =? -2 then
        let '(t, s) := orun fuel r2 (os_main tlim (dsp (s0 [] [] [])) (reg (s0 [] [] [])) f a ra) in t ++ end_obs s
      else if m =? -3 then
        let n1 := Z.to_nat (hd 0 r2) in
        let '(t1, s1) := orun fuel (firstn n1 (tl r2)) (s0 f a ra) in
        if idle s1 then
          let '(t2, s2) := orun fuel (skipn n1 (tl r2)) (os_main tlim (dsp s1) (reg s1) f (answers (core s1)) (rearm (reg s1))) in
          t1 ++ disp_obs 41 s1 ++ t2 ++ end_obs s2
        else t1 ++ [-2]
      else [-3]
  | _ => [-3]
  end.

(* a negative first number selects the OS-level modes, everything else is the direct-processSignal model of Model.v *)
Definition run_case (c : list Z) : list Z :=
  match c with
  | m :: _ => if m <? 0 then orun_with c else run_direct c
  | [] => run_direct c
  end.
