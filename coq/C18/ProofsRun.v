(* C18 - the trace producer [run] only visits reachable states, and its fuel is never exhausted. *)
Require Import V.Lib.Base V.C18.Model V.C18.Proofs.
Local Open Scope Z_scope.

Lemma run_reach o a n : forall ds s, reach o a s -> reach o a (snd (run true n ds s)).
Proof.
  induction n as [|n IH]; intros ds s Hr; simpl; [exact Hr|].
  destruct ((match ds with [] => 0 | d :: _ => d end =? 0) && (code s =? 0)); [exact Hr|].
  specialize (IH (tl ds) (step true match ds with [] => 0 | d :: _ => d end s) (reach_step _ _ _ _ Hr)).
  destruct (run true n (tl ds) (step true match ds with [] => 0 | d :: _ => d end s)). exact IH.
Qed.

Definition wpc (p : hpc) : nat := match p with HInc => 5 | HCbEnter => 4 | HCbExit => 3 | HTest => 3 | HWrite => 2 | HDec => 1 end.
Fixpoint wstack (k : list hframe) : nat := match k with [] => O | f :: r => (wpc (h_pc f) + wstack r)%nat end.
Definition measure (s : st) : nat :=
  (wstack (stack s) + match mpc_ s with MOp => 0 | MTake _ => 7 | MClear _ _ _ => 6 end + 8 * length (ops s))%nat.

Lemma step_decreases at_ s : code s <> 0 -> (measure (step at_ 0 s) < measure s)%nat.
Proof.
  unfold code, step, measure. simpl. destruct (stack s) as [|f rest] eqn:Hs.
  - unfold mstep. destruct (mpc_ s) as [|dl|dl p pid] eqn:Hm.
    + destruct (ops s) as [|[|dl] o] eqn:Ho; simpl; rewrite ?Hs; simpl; try lia.
      destruct (blocked s =? 1); simpl; lia.
    + intros _. destruct at_; simpl; rewrite ?Hs, ?Hm; simpl; try lia.
      unfold take. destruct (pending s =? 0); [|destruct dl]; simpl; rewrite ?Hs; simpl; lia.
    + intros _. unfold take. destruct (p =? 0); [|destruct dl]; simpl; rewrite ?Hs; simpl; lia.
  - intros _. unfold hstep. destruct (h_pc f) eqn:Hpc; simpl; rewrite ?Hpc; simpl; try lia.
    + destruct (blocked s =? 0); simpl; rewrite ?Hpc; simpl; lia.
    + destruct (answers s) as [|[|] ?]; simpl; rewrite ?Hpc; simpl; lia.
    + destruct (pending s =? 0); simpl; rewrite ?Hpc; simpl; lia.
Qed.

Lemma arrive_measure at_ d s : d <> 0 -> measure (step at_ d s) = (measure s + 5)%nat.
Proof.
  intro Hd. unfold step. destruct (Z.eqb_spec d 0); [contradiction|]. unfold measure, arrive. simpl. lia.
Qed.

(* more fuel than measure + 6 * (decisions left) changes nothing: the fuel is never exhausted *)
Theorem fuel_sufficient at_ n : forall ds s,
  (measure s + 6 * length ds < n)%nat -> run at_ (S n) ds s = run at_ n ds s.
Proof.
  induction n as [|n IH]; intros ds s H; [lia|].
  change (run at_ (S (S n)) ds s) with
    (let d := match ds with [] => 0 | d :: _ => d end in
     if (d =? 0) && (code s =? 0) then (emit 0 s, s)
     else let '(o, s') := run at_ (S n) (tl ds) (step at_ d s) in (emit d s ++ o, s')).
  change (run at_ (S n) ds s) with
    (let d := match ds with [] => 0 | d :: _ => d end in
     if (d =? 0) && (code s =? 0) then (emit 0 s, s)
     else let '(o, s') := run at_ n (tl ds) (step at_ d s) in (emit d s ++ o, s')).
  cbv zeta.
  destruct ((match ds with [] => 0 | d :: _ => d end =? 0) && (code s =? 0)) eqn:E; [reflexivity|].
  rewrite IH; [reflexivity|].
  apply andb_false_iff in E.
  destruct ds as [|d ds']; simpl in *.
  - destruct E as [E|E]; [discriminate|]. apply Z.eqb_neq in E. pose proof (step_decreases at_ s E). lia.
  - destruct (Z.eqb_spec d 0) as [Hd|Hd].
    + subst d. destruct E as [E|E]; [discriminate|]. apply Z.eqb_neq in E. pose proof (step_decreases at_ s E). lia.
    + rewrite arrive_measure by exact Hd. lia.
Qed.

Lemma decode_ops_length l : (length (decode_ops l) <= length l)%nat.
Proof.
  induction l as [|x r IH]; simpl; [lia|].
  destruct ((x =? 1) || (x =? 4)); simpl; [lia|]. destruct (x =? 2); simpl; [lia|]. destruct (x =? 3); simpl; lia.
Qed.

(* the fuel handed out by run_with is enough for every case *)
Theorem run_with_fuel n r :
  let c := n :: r in
  let o := decode_ops (firstn (Z.to_nat n) r) in
  let r1 := skipn (Z.to_nat n) r in
  let m := Z.to_nat (hd 0 r1) in
  (measure (init o (map (fun x => negb (x =? 0)%Z) (firstn m (tl r1)))) + 6 * length (skipn m (tl r1)) < fuel_of c)%nat.
Proof.
  cbv zeta. unfold measure, fuel_of, init. simpl.
  pose proof (decode_ops_length (firstn (Z.to_nat n) r)) as H1.
  pose proof (firstn_le_length (Z.to_nat n) r) as H2.
  pose proof (firstn_skipn (Z.to_nat n) r) as H3. apply (f_equal (@length Z)) in H3. rewrite app_length in H3.
  set (r1 := skipn (Z.to_nat n) r) in *.
  assert (H4 : (length (skipn (Z.to_nat (hd 0%Z r1)) (tl r1)) <= length r1)%nat).
  { rewrite skipn_length. destruct r1; simpl; lia. }
  lia.
Qed.
