(* C18 - the property statements, derived from the invariants Inv (Proofs.v) and Tok (ProofsTok.v). *)
Require Import V.Lib.Base V.C18.Model V.C18.Proofs V.C18.ProofsTok.
Local Open Scope Z_scope.
Local Arguments Z.add : simpl never.
Local Arguments Z.sub : simpl never.

(* ------------------------------------------------------------------------------------------- *)
(* never a callback while blocked / while another callback is active                            *)
(* ------------------------------------------------------------------------------------------- *)
Lemma nactive_app p k : nactive (p ++ k) = nactive p + nactive k.
Proof. induction p as [|f r IH]; simpl; [lia|]. rewrite IH. lia. Qed.

Lemma extra_nonneg dp f : 0 <= dp -> 0 <= extra dp f.
Proof. unfold extra. intros. destruct (h_pc f); destruct (h_r f =? 0); lia. Qed.

(* the activations above one that is past its increment found blocked_ <> 0: their callbacks never ran, they took no block *)
Lemma fr_ok_above pre : forall b dp f post,
  fr_ok b dp (pre ++ f :: post) -> h_pc f <> HInc -> 0 <= h_r f -> 0 <= dp ->
  b = h_r f + 1 + extra dp f + nactive pre /\ fr_ok (h_r f) dp post.
Proof.
  induction pre as [|g pre IH]; intros b dp f post H Hpc Hr Hdp; simpl in H |- *.
  - destruct (h_pc f); try congruence; destruct H as [H1 H2];
      (split; [lia|replace (h_r f) with (b - 1 - extra dp f) by lia; exact H2]).
  - pose proof (extra_nonneg dp f Hdp) as He. pose proof (nactive_nonneg pre) as Hn.
    unfold active. destruct (h_pc g) eqn:Hg.
    1: { destruct (IH _ _ _ _ H Hpc Hr Hdp) as [E1 E2]. split; [lia|exact E2]. }
    all: destruct H as [H1 H2]; destruct (IH _ _ _ _ H2 Hpc Hr Hdp) as [E1 E2];
      assert (Hx : extra dp g = 0) by (unfold extra; rewrite Hg; first [reflexivity|destruct (Z.eqb_spec (h_r g) 0); [lia|reflexivity]]);
      (split; [lia|exact E2]).
Qed.

Lemma nactive_zero k : nactive k = 0 -> Forall (fun g => h_pc g = HInc) k.
Proof.
  induction k as [|f r IH]; simpl; intro H; [constructor|].
  pose proof (nactive_nonneg r). unfold active in H.
  destruct (h_pc f) eqn:Hp; try lia. constructor; [exact Hp|apply IH; lia].
Qed.

Lemma in_cb_active f : in_cb f = true -> active f = 1 /\ (h_pc f = HCbEnter \/ h_pc f = HCbExit).
Proof. unfold in_cb, active. destruct (h_pc f); try discriminate; auto. Qed.

Lemma inv_frame s pre f post : Inv s -> stack s = pre ++ f :: post -> h_sig f <> 0 /\ 0 <= h_r f.
Proof.
  intros HI Hs. pose proof (i_sig s HI) as H. rewrite Hs in H. apply Forall_app in H. destruct H as [_ H].
  inversion H; subst; assumption.
Qed.

Lemma cb_core s pre f post :
  Inv s -> stack s = pre ++ f :: post -> in_cb f = true ->
  stops s = 0 /\ nactive post = 0 /\ blocked s = 1 + depth s + nactive pre /\ (h_pc f = HCbEnter -> depth s = 0).
Proof.
  intros HI Hs Hcb. destruct (inv_frame _ _ _ _ HI Hs) as [_ Hr].
  destruct HI as [Hc Hdp [Hst _] _ _ Hf Hbr _ _ _ _].
  rewrite Hs in *. apply in_cb_active in Hcb. destruct Hcb as [Ha Hpc].
  assert (Hni : h_pc f <> HInc) by (destruct Hpc as [E|E]; rewrite E; discriminate).
  destruct (fr_ok_above _ _ _ _ _ Hf Hni Hr Hdp) as [E1 _].
  rewrite nactive_app in Hc. simpl in Hc. rewrite Ha in Hc.
  apply Forall_app in Hbr. destruct Hbr as [_ Hbr]. inversion Hbr as [|? ? Hb1 _]; subst.
  unfold br_ok in Hb1. pose proof (nactive_nonneg post). unfold extra in E1.
  destruct Hpc as [Hpc|Hpc]; rewrite Hpc in *.
  - rewrite Hb1 in E1. repeat split; try lia.
  - destruct Hb1 as [Hb1 _]. rewrite Hb1 in E1. simpl in E1. repeat split; try lia. discriminate.
Qed.

(* Whenever an activation f is about to enter / is inside the callback: no callback has answered stop, every activation
   below f has not even incremented yet, no other activation is in the callback, blocked_ = 1 + the blocks the application
   holds + the (remembering) activations above f - and when f is ABOUT TO ENTER the application holds no block at all; inside
   the callback the blocks held are exactly those the callback itself has taken (cb_block, see callback_taken_blocks). *)
Theorem never_while_blocked o a s pre f post :
  bal 0 o = true -> reach o a s -> stack s = pre ++ f :: post -> in_cb f = true ->
  (h_pc f = HCbEnter -> depth s = 0) /\ stops s = 0 /\ blocked s = 1 + depth s + nactive pre /\
  Forall (fun g => in_cb g = false) (pre ++ post) /\ Forall (fun g => h_pc g = HInc) post.
Proof.
  intros Hb Hr Hs Hcb. pose proof (reach_inv _ _ _ Hb Hr) as HI.
  destruct (cb_core _ _ _ _ HI Hs Hcb) as [H2 [H3 [H4 H1]]].
  repeat split; auto.
  - apply Forall_app. split.
    + apply Forall_forall. intros g Hg. destruct (in_cb g) eqn:Hgc; [|reflexivity]. exfalso.
      apply in_split in Hg. destruct Hg as [p1 [p2 Hp]]. subst pre.
      rewrite <- app_assoc in Hs. simpl in Hs.
      destruct (cb_core _ _ _ _ HI Hs Hgc) as [_ [H5 _]].
      rewrite nactive_app in H5. simpl in H5. apply in_cb_active in Hcb. destruct Hcb as [Ha _].
      pose proof (nactive_nonneg p2). pose proof (nactive_nonneg post). lia.
    + eapply Forall_impl; [|apply nactive_zero; exact H3]. intros g Hg. unfold in_cb. rewrite Hg. reflexivity.
  - apply nactive_zero. exact H3.
Qed.

(* the callback is entered by the step of a top activation at HCbEnter: at that moment the application holds no
   block, no callback has answered stop, blocked_ = 1 (this activation's own increment) and no other callback runs *)
Corollary callback_entry_unblocked o a s f rest :
  bal 0 o = true -> reach o a s -> stack s = f :: rest -> h_pc f = HCbEnter ->
  depth s = 0 /\ stops s = 0 /\ blocked s = 1 /\ h_r f = 0 /\ Forall (fun g => h_pc g = HInc) rest.
Proof.
  intros Hb Hr Hs Hpc.
  assert (Hcb : in_cb f = true) by (unfold in_cb; rewrite Hpc; reflexivity).
  destruct (never_while_blocked o a s [] f rest Hb Hr Hs Hcb) as [H1 [H2 [H3 [_ H5]]]].
  specialize (H1 Hpc). simpl in H3. repeat split; auto; try lia.
  pose proof (reach_inv _ _ _ Hb Hr) as [_ _ _ _ _ _ Hbr _ _ _ _]. rewrite Hs in Hbr.
  inversion Hbr as [|? ? Hb1 _]; subst. unfold br_ok in Hb1. rewrite Hpc in Hb1. exact Hb1.
Qed.

(* while the application holds a block (its own or one a callback took) no activation is about to enter the callback *)
Corollary no_entry_while_holding o a s :
  bal 0 o = true -> reach o a s -> 1 <= depth s -> Forall (fun f => h_pc f <> HCbEnter) (stack s).
Proof.
  intros Hb Hr Hd. apply Forall_forall. intros f Hin E.
  destruct (in_split f (stack s) Hin) as (pre & post & Hsp).
  assert (Hcb : in_cb f = true) by (unfold in_cb; rewrite E; reflexivity).
  destruct (never_while_blocked o a s pre f post Hb Hr Hsp Hcb) as [H1 _]. specialize (H1 E). lia.
Qed.

(* ------------------------------------------------------------------------------------------- *)
(* an arrival that finds blocked_ = 0 is delivered within its own activation                     *)
(* ------------------------------------------------------------------------------------------- *)
Theorem immediate_branch at_ s f rest :
  stack s = f :: rest -> h_pc f = HInc -> blocked s = 0 ->
  stack (step at_ 0 s) = mkH (h_sig f) (h_id f) (h_def f) HCbEnter 0 :: rest /\ blocked (step at_ 0 s) = 1.
Proof.
  intros Hs Hpc Hb. unfold step. simpl. rewrite Hs. unfold hstep. rewrite Hpc, Hb. simpl. split; reflexivity.
Qed.

Theorem enter_delivers at_ s f rest :
  stack s = f :: rest -> h_pc f = HCbEnter ->
  fates (step at_ 0 s) = (h_id f, FDelivered (h_sig f)) :: fates s /\
  emit 0 s = [2; blocked s; pending s; 20; h_sig f] /\
  stack (step at_ 0 s) = set_pc f HCbExit :: rest.
Proof.
  intros Hs Hpc. unfold step, emit, code. simpl. rewrite Hs. unfold hstep. rewrite Hpc. simpl. repeat split; reflexivity.
Qed.

(* whatever happens (an arrival, a step of the top activation), the activations below the top one are untouched:
   an interrupted activation resumes exactly where it was *)
Theorem below_stable at_ d s f rest :
  stack s = f :: rest -> exists top, stack (step at_ d s) = top ++ rest /\ (length top <= 2)%nat.
Proof.
  intro Hs. unfold step. destruct (d =? 0).
  - rewrite Hs. unfold hstep. destruct (h_pc f); simpl.
    + eexists [_]; split; [reflexivity|simpl; lia].
    + eexists [_]; split; [reflexivity|simpl; lia].
    + destruct (answers s) as [|[|] ?]; simpl; [eexists [_]|eexists [_]|exists []]; split; try reflexivity; simpl; lia.
    + destruct (pending s =? 0); simpl; eexists [_]; split; try reflexivity; simpl; lia.
    + eexists [_]; split; [reflexivity|simpl; lia].
    + exists []. split; [reflexivity|simpl; lia].
  - unfold arrive. simpl. rewrite Hs. eexists [_; _]. split; [reflexivity|simpl; lia].
Qed.

(* an activation whose fetch_and_inc returned 0 is on the callback path and never on the remember path *)
Theorem found_unblocked_is_delivered o a s f :
  bal 0 o = true -> reach o a s -> In f (stack s) -> h_pc f <> HInc -> h_r f = 0 ->
  h_pc f = HCbEnter \/ In (h_id f, FDelivered (h_sig f)) (fates s).
Proof.
  intros Hb Hr Hin Hpc H0. pose proof (reach_inv _ _ _ Hb Hr) as [_ _ _ _ _ _ Hbr _ _ _ _].
  rewrite Forall_forall in Hbr. specialize (Hbr f Hin). unfold br_ok in Hbr.
  destruct (h_pc f); try congruence; auto; try tauto.
Qed.

(* ------------------------------------------------------------------------------------------- *)
(* one slot: occupied -> the arrival is discarded; empty and not interrupted -> it is remembered  *)
(* ------------------------------------------------------------------------------------------- *)
Theorem occupied_discards at_ s f rest :
  stack s = f :: rest -> h_pc f = HTest -> pending s <> 0 ->
  pending (step at_ 0 s) = pending s /\ pend_id (step at_ 0 s) = pend_id s /\
  fates (step at_ 0 s) = (h_id f, if h_def f then FStopLost else FDiscarded) :: fates s.
Proof.
  intros Hs Hpc Hp. unfold step. simpl. rewrite Hs. unfold hstep. rewrite Hpc.
  destruct (Z.eqb_spec (pending s) 0); [contradiction|]. simpl. repeat split; reflexivity.
Qed.

Theorem empty_remembers at_ s f rest :
  stack s = f :: rest -> h_pc f = HTest -> pending s = 0 ->
  let s2 := step at_ 0 (step at_ 0 s) in
  pending s2 = h_sig f /\ pend_id s2 = h_id f /\ fates s2 = fates s /\ stack s2 = set_pc f HDec :: rest.
Proof.
  intros Hs Hpc Hp. unfold step. simpl. rewrite Hs. unfold hstep. rewrite Hpc, Hp. simpl.
  repeat split; reflexivity.
Qed.

(* the slot changes only by the write of an activation or by the take of an outermost release *)
Theorem slot_changes_only at_ d s :
  pending (step at_ d s) <> pending s \/ pend_id (step at_ d s) <> pend_id s ->
  d = 0 /\ ((exists f rest, stack s = f :: rest /\ h_pc f = HWrite) \/
            (stack s = [] /\ exists dl, mpc_ s = MTake dl \/ exists p pid, mpc_ s = MClear dl p pid)).
Proof.
  unfold step. destruct (Z.eqb_spec d 0) as [Hd|Hd]; [|simpl; intros [H|H]; congruence].
  intro H. split; [exact Hd|].
  destruct (stack s) as [|f rest] eqn:Hs.
  - right. split; [reflexivity|]. unfold mstep in H.
    destruct (mpc_ s) as [|dl|dl p pid] eqn:Hm.
    + destruct (ops s) as [|[|dl] o]; simpl in H; destruct H; congruence.
    + exists dl. left. reflexivity.
    + exists dl. right. exists p, pid. reflexivity.
  - left. exists f, rest. split; [reflexivity|]. unfold hstep in H.
    destruct (h_pc f); try reflexivity; simpl in H; try (destruct H; congruence).
    + destruct (answers s) as [|[|] ?]; simpl in H; destruct H; congruence.
    + destruct (pending s =? 0); simpl in H; destruct H; congruence.
Qed.

(* ------------------------------------------------------------------------------------------- *)
(* exactly once                                                                                  *)
(* ------------------------------------------------------------------------------------------- *)
Lemma in_cnt_fates i x l : In (i, x) l -> 1 <= cnt_fates i l.
Proof.
  induction l as [|y r IH]; simpl; [contradiction|]. intros [H|H].
  - subst y. simpl. rewrite Nat.eqb_refl. simpl. pose proof (cnt_fates_nonneg i r). lia.
  - specialize (IH H). unfold one. destruct (fst y =? i)%nat; lia.
Qed.

Lemma cnt_fates_zero i l : cnt_fates i l = 0 -> ~ In i (map fst l).
Proof.
  induction l as [|y r IH]; simpl; [tauto|]. intros H [H1|H1].
  - subst i. rewrite Nat.eqb_refl in H. simpl in H. pose proof (cnt_fates_nonneg (fst y) r). lia.
  - pose proof (cnt_fates_nonneg i r). unfold one in H. destruct (fst y =? i)%nat; [lia|]. apply IH; [lia|exact H1].
Qed.

Lemma cnt_le1_nodup l : (forall i, cnt_fates i l <= 1) -> NoDup (map fst l).
Proof.
  induction l as [|y r IH]; simpl; intro H; [constructor|]. constructor.
  - apply cnt_fates_zero. specialize (H (fst y)). rewrite Nat.eqb_refl in H. simpl in H.
    pose proof (cnt_fates_nonneg (fst y) r). lia.
  - apply IH. intro i. specialize (H i). unfold one in H. destruct (fst y =? i)%nat; lia.
Qed.

Lemma total_parts i s : 0 <= cnt_stack i (stack s) /\ 0 <= cnt_slot i s /\ 0 <= cnt_fates i (fates s).
Proof.
  repeat split; [apply cnt_stack_nonneg| |apply cnt_fates_nonneg].
  unfold cnt_slot, one. destruct (negb (pending s =? 0) && (pend_id s =? i)%nat); lia.
Qed.

(* every arrival is in exactly one place: an activation that has not decided yet, the slot, or one fate *)
Theorem one_place o a s i :
  bal 0 o = true -> reach o a s ->
  cnt_stack i (stack s) + cnt_slot i s + cnt_fates i (fates s) = (if (i <? length (arrs s))%nat then 1 else 0).
Proof. intros Hb Hr. destruct (reach_tok _ _ _ Hb Hr) as [Ht _ _ _ _ _]. exact (Ht i). Qed.

(* never twice: an arrival has at most one fate, in particular it is handed to the callback at most once *)
Theorem never_twice o a s : bal 0 o = true -> reach o a s -> NoDup (map fst (fates s)).
Proof.
  intros Hb Hr. apply cnt_le1_nodup. intro i. pose proof (one_place o a s i Hb Hr) as H.
  destruct (total_parts i s) as [H1 [H2 H3]]. destruct (i <? length (arrs s))%nat; lia.
Qed.

(* never lost: no arrival ever gets the fate FLost, and FStopLost needs a callback that answered stop or that took a
   block itself (either way blocked_ <> 0 is what the deferred delivery found) *)
Theorem never_lost o a s i :
  bal 0 o = true -> reach o a s ->
  ~ In (i, FLost) (fates s) /\ (In (i, FStopLost) (fates s) -> 0 < stops s + cbt s).
Proof.
  intros Hb Hr. destruct (reach_tok _ _ _ Hb Hr) as [_ _ _ _ Hl Hs]. split; [apply Hl|apply Hs].
Qed.

(* what is in the slot has not been delivered, dropped or discarded, and no activation still works on it *)
Theorem slot_token_fresh o a s :
  bal 0 o = true -> reach o a s -> pending s <> 0 ->
  (pend_id s < length (arrs s))%nat /\ nth_error (arrs s) (pend_id s) = Some (pending s) /\
  ~ In (pend_id s) (map fst (fates s)) /\ cnt_stack (pend_id s) (stack s) = 0.
Proof.
  intros Hb Hr Hp. pose proof (one_place o a s (pend_id s) Hb Hr) as H.
  destruct (reach_tok _ _ _ Hb Hr) as [_ _ Hss _ _ _]. specialize (Hss Hp).
  destruct (total_parts (pend_id s) s) as [H1 [H2 H3]].
  assert (Hc : cnt_slot (pend_id s) s = 1).
  { unfold cnt_slot. destruct (Z.eqb_spec (pending s) 0); [contradiction|]. rewrite Nat.eqb_refl. reflexivity. }
  assert (Hlt : (pend_id s < length (arrs s))%nat) by (apply nth_error_Some; congruence).
  destruct (Nat.ltb_spec (pend_id s) (length (arrs s))); [|lia].
  repeat split; auto; [apply cnt_fates_zero|]; lia.
Qed.

(* the callback gets the signal number that arrived *)
Theorem delivered_number o a s i x :
  bal 0 o = true -> reach o a s -> In (i, FDelivered x) (fates s) -> nth_error (arrs s) i = Some x.
Proof. intros Hb Hr. destruct (reach_tok _ _ _ Hb Hr) as [_ _ _ Hd _ _]. apply Hd. Qed.

(* the outermost release: the take is one atomic step; the remembered signal goes to the nested processSignal
   (deliver = true) or is dropped (deliver = false) *)
Theorem take_hands_over s dl :
  stack s = [] -> mpc_ s = MTake dl -> pending s <> 0 ->
  let s' := step true 0 s in
  pending s' = 0 /\ mpc_ s' = MOp /\
  (if dl then stack s' = [mkH (pending s) (pend_id s) true HInc 0] /\ fates s' = fates s
   else stack s' = [] /\ fates s' = (pend_id s, FDropped) :: fates s).
Proof.
  intros Hs Hm Hp. unfold step. simpl. rewrite Hs. unfold mstep. rewrite Hm. unfold take.
  destruct (Z.eqb_spec (pending s) 0); [contradiction|]. destruct dl; simpl; rewrite ?Hs; repeat split; reflexivity.
Qed.

(* the take only follows a decrement that returned 1: it is outermost - the application holds no block then, except
   blocks that callbacks took (a callback that ran between the decrement and the take; none if no callback ever took one) *)
Theorem take_is_outermost o a s dl : bal 0 o = true -> reach o a s -> mpc_ s = MTake dl -> 0 <= depth s <= cbt s.
Proof.
  intros Hb Hr Hm. pose proof (reach_inv _ _ _ Hb Hr) as [_ Hd _ _ Hmp _ _ _ _ _ _]. rewrite Hm in Hmp. lia.
Qed.

Theorem take_after_release at_ s dl :
  stack s = [] -> mpc_ s = MOp -> mpc_ (step at_ 0 s) = MTake dl ->
  blocked s = 1 /\ blocked (step at_ 0 s) = 0 /\ exists o', ops s = Unblock dl :: o'.
Proof.
  intros Hs Hm. unfold step. simpl. rewrite Hs. unfold mstep. rewrite Hm.
  destruct (ops s) as [|[|d] o']; simpl; try congruence.
  destruct (Z.eqb_spec (blocked s) 1) as [H1|H1]; [|congruence].
  intro H. inversion H; subst. rewrite H1. repeat split; try reflexivity. eexists; reflexivity.
Qed.

(* the deferred activation finds blocked_ = 0 (and so delivers, by immediate_branch) unless a callback answered stop
   or took a block: what it finds is exactly the blocks held (all callback-taken) plus the stops *)
Theorem deferred_runs o a s f rest :
  bal 0 o = true -> reach o a s -> stack s = f :: rest -> h_def f = true -> h_pc f = HInc ->
  rest = [] /\ blocked s = depth s + stops s /\ 0 <= depth s <= cbt s /\ (stops s = 0 -> cbt s = 0 -> blocked s = 0).
Proof.
  intros Hb Hr Hs Hd Hpc. pose proof (reach_inv _ _ _ Hb Hr) as [Hc Hdp _ _ _ _ _ Hdef Hhd _ _].
  rewrite Hs in *. simpl in *. destruct Hdef as [Hdef _].
  assert (rest = []) as ->. { destruct rest; [reflexivity|]. specialize (Hdef ltac:(discriminate)). congruence. }
  rewrite Hd in Hhd. specialize (Hhd eq_refl). unfold active in Hc. rewrite Hpc in Hc. simpl in Hc.
  repeat split; try reflexivity; lia.
Qed.

(* ------------------------------------------------------------------------------------------- *)
(* the nesting count is restored                                                                 *)
(* ------------------------------------------------------------------------------------------- *)
(* the activation's own decrement leaves blocked_ = (what its increment returned) + the blocks its callback took:
   [extra (depth s) f] is 0 unless the increment returned 0 (only then the callback ran), and then it is every block the
   application holds - all of them taken by that callback (the entry depth was 0: callback_entry_unblocked) *)
Theorem nesting_restored o a s f rest :
  bal 0 o = true -> reach o a s -> stack s = f :: rest -> h_pc f = HDec ->
  blocked (step true 0 s) = h_r f + extra (depth s) f /\ stack (step true 0 s) = rest /\
  (h_r f <> 0 -> blocked (step true 0 s) = h_r f) /\ (depth s = 0 -> blocked (step true 0 s) = h_r f).
Proof.
  intros Hb Hr Hs Hpc. pose proof (reach_inv _ _ _ Hb Hr) as [_ _ _ _ _ Hf _ _ _ _ _].
  rewrite Hs in Hf. simpl in Hf. rewrite Hpc in Hf. destruct Hf as [Hf _].
  unfold step. simpl. rewrite Hs. unfold hstep. rewrite Hpc. simpl.
  repeat split; try lia; unfold extra in Hf; rewrite Hpc in Hf; destruct (Z.eqb_spec (h_r f) 0); lia.
Qed.

(* in general: for every activation past its increment, blocked_ = (what its increment returned) + 1 + the blocks its
   callback took + the activations above it that are past theirs (those found blocked_ <> 0: no callback, no block) *)
Theorem nesting_general o a s pre f post :
  bal 0 o = true -> reach o a s -> stack s = pre ++ f :: post -> h_pc f <> HInc ->
  blocked s = h_r f + 1 + extra (depth s) f + nactive pre.
Proof.
  intros Hb Hr Hs Hpc. pose proof (reach_inv _ _ _ Hb Hr) as HI. destruct (inv_frame _ _ _ _ HI Hs) as [_ Hr0].
  destruct HI as [_ Hdp _ _ _ Hf _ _ _ _ _].
  rewrite Hs in Hf. destruct (fr_ok_above _ _ _ _ _ Hf Hpc Hr0 Hdp) as [E _]. exact E.
Qed.

(* a callback that answers continue leaves behind blocked_ = the blocks it took itself (0 if it took none: as it was
   before the arrival's increment), all of them held by the application *)
Corollary callback_continue_restores o a s f rest :
  bal 0 o = true -> reach o a s -> stack s = f :: rest -> h_pc f = HCbExit -> answer s = true ->
  let s2 := step true 0 (step true 0 s) in
  blocked s2 = depth s /\ depth s2 = depth s /\ stack s2 = rest /\ stops s2 = stops s /\ (depth s = 0 -> blocked s2 = 0).
Proof.
  intros Hb Hr Hs Hpc Ha.
  assert (Hcb : in_cb f = true) by (unfold in_cb; rewrite Hpc; reflexivity).
  destruct (never_while_blocked o a s [] f rest Hb Hr Hs Hcb) as [_ [_ [H3 _]]]. simpl in H3.
  assert (E1 : step true 0 s = mk (cbt s) (blocked s) (pending s) (pend_id s) (mpc_ s) (ops s) (set_pc f HDec :: rest)
                                   (tl (answers s)) (arrs s) (depth s) (stops s) (fates s)).
  { unfold step. simpl. rewrite Hs. unfold hstep. rewrite Hpc. unfold answer in Ha.
    destruct (answers s) as [|[|] ?]; try discriminate; reflexivity. }
  cbv zeta. rewrite E1. unfold step. simpl. unfold hstep. simpl. repeat split; lia.
Qed.

(* ------------------------------------------------------------------------------------------- *)
(* callbacks that take blocks themselves                                                        *)
(* ------------------------------------------------------------------------------------------- *)
Lemma cbb_iter s f rest : stack s = f :: rest -> h_pc f = HCbExit -> forall k,
  Nat.iter k cb_block s = mk (cbt s + Z.of_nat k) (blocked s + Z.of_nat k) (pending s) (pend_id s) (mpc_ s) (ops s) (stack s)
                             (answers s) (arrs s) (depth s + Z.of_nat k) (stops s) (fates s).
Proof.
  intros Hs Hpc. induction k as [|k IH].
  - simpl. destruct s; simpl. f_equal; lia.
  - rewrite Nat2Z.inj_succ. change (Nat.iter (S k) cb_block s) with (cb_block (Nat.iter k cb_block s)). rewrite IH. unfold cb_block. cbn [stack]. rewrite Hs, Hpc.
    cbn [cbt blocked pending pend_id mpc_ ops stack answers arrs depth stops fates]. f_equal; lia.
Qed.

Lemma reach_iter_cbb o a k : forall s, reach o a s -> reach o a (Nat.iter k cb_block s).
Proof. induction k as [|k IH]; intros s H; [exact H|]. change (Nat.iter (S k) cb_block s) with (cb_block (Nat.iter k cb_block s)). apply reach_cbb. apply IH. exact H. Qed.

(* An arrival found blocked_ = 0 (entry value 0, the application holds no block); its callback is entered, calls
   blockSignals() k times, answers continue and returns; the activation executes its own decrement.  Then blocked_ =
   entry value + k = k, the application holds exactly k blocks, the activation is gone, nothing else changed - and by
   no_entry_while_holding no callback is entered in any state reachable from there until those blocks are released. *)
Theorem callback_taken_blocks o a s f rest k :
  bal 0 o = true -> reach o a s -> stack s = f :: rest -> h_pc f = HCbEnter -> answer s = true ->
  let s1 := Nat.iter k cb_block (step true 0 s) in
  let s3 := step true 0 (step true 0 s1) in
  reach o a s3 /\ h_r f = 0 /\ depth s = 0 /\
  blocked s1 = 1 + Z.of_nat k /\
  blocked s3 = h_r f + Z.of_nat k /\ depth s3 = Z.of_nat k /\ cbt s3 = cbt s + Z.of_nat k /\ stack s3 = rest /\
  stops s3 = stops s /\ pending s3 = pending s /\ ops s3 = ops s /\ mpc_ s3 = mpc_ s /\
  (1 <= Z.of_nat k -> Forall (fun g => h_pc g <> HCbEnter) (stack s3)).
Proof.
  intros Hb Hr Hs Hpc Ha.
  destruct (callback_entry_unblocked o a s f rest Hb Hr Hs Hpc) as (Hd & Hst & Hbl & Hr0 & _).
  assert (E0 : step true 0 s = mk (cbt s) (blocked s) (pending s) (pend_id s) (mpc_ s) (ops s) (set_pc f HCbExit :: rest)
                                   (answers s) (arrs s) (depth s) (stops s) ((h_id f, FDelivered (h_sig f)) :: fates s)).
  { unfold step. simpl. rewrite Hs. unfold hstep. rewrite Hpc. reflexivity. }
  assert (E1 : Nat.iter k cb_block (step true 0 s) =
               mk (cbt s + Z.of_nat k) (blocked s + Z.of_nat k) (pending s) (pend_id s) (mpc_ s) (ops s) (set_pc f HCbExit :: rest)
                  (answers s) (arrs s) (depth s + Z.of_nat k) (stops s) ((h_id f, FDelivered (h_sig f)) :: fates s)).
  { rewrite (cbb_iter (step true 0 s) (set_pc f HCbExit) rest); [rewrite E0; reflexivity|rewrite E0; reflexivity|reflexivity]. }
  assert (Hreach : reach o a (step true 0 (step true 0 (Nat.iter k cb_block (step true 0 s))))).
  { apply reach_step. apply reach_step. apply reach_iter_cbb. apply reach_step. exact Hr. }
  cbv zeta. split; [exact Hreach|].
  assert (E3 : step true 0 (step true 0 (Nat.iter k cb_block (step true 0 s))) =
               mk (cbt s + Z.of_nat k) (blocked s + Z.of_nat k - 1) (pending s) (pend_id s) (mpc_ s) (ops s) rest
                  (tl (answers s)) (arrs s) (depth s + Z.of_nat k) (stops s) ((h_id f, FDelivered (h_sig f)) :: fates s)).
  { rewrite E1. unfold step. simpl. unfold hstep. simpl. unfold answer in Ha.
    destruct (answers s) as [|[|] ?]; try discriminate; reflexivity. }
  rewrite E3. rewrite E1. rewrite E3 in Hreach. split; [exact Hr0|]. split; [exact Hd|].
  cbn [blocked depth cbt stack stops pending ops mpc_]. repeat split; try lia.
  intro Hk. apply (no_entry_while_holding o a _ Hb Hreach). cbn [depth]. lia.
Qed.
